/-
  C17 — serde round trips of the altrios-core types (model: Altrios/Serde.lean, lemmas:
  Proofs/Lemmas/SerdeL.lean, schema table: Generated/SerdeSchema.lean).

  x  = the in-memory value that is saved,  `norm D t x` = what the first load returns
  (every `#[serde(skip)]` cache reset to its `Default`).

   (1) self-describing formats (YAML/JSON): load (save x) = norm x            for every wf schema
   (2) norm is idempotent
   (3) saving and reloading the loaded object returns exactly the loaded object (whatever the
       `Default` impls are); the loaded object is well typed if the defaults of the caches are
   (4) positional format (bincode): load (save x) = norm x  ⇔  no `skip_serializing_if` predicate
       holds anywhere inside x
   (5) … hence a value with a hit field does NOT survive bincode (DESIGN §8 #1 in general form)
   (6) the regenerated table of the crate satisfies the schema obligations, so (1) and (4) hold
       of every (non-generic) serializable type of the crate
   (7) the default `FuelConverter` does not survive the positional round trip
   (8) behaviour: resetting a lazily rebuilt `skip` cache (what a load does) does not change what
       the next step computes — on the powertrain model that the `pt` block ties to the real
       `Generator` / `ElectricDrivetrain` (`pwr_in_frac_interp`)
   (0) the scanner understood the source (`scanOk`), else nothing below means anything
-/
import Proofs.Lemmas.SerdeL
import Generated.SerdeSchema
import Altrios.Powertrain

namespace Altrios.Proofs.C17
open Altrios.Serde Altrios.Proofs.SerdeL

/-! ## the example schema used for the non-vacuity examples -/

def fa (name : String) (key : String := name) (skip : Bool := false) (skipIf : SkipIf := .never)
    (dflt : Dflt := .none) : FieldAttr := ⟨name, key, skip, skipIf, dflt⟩

/-- `struct State { i: usize, on: bool }` -/
def exState : Ty :=
  .struct "State" (.cons (fa "i") (.atom "usize") (.cons (fa "on") (.atom "bool") .nil))

/-- `enum Kind { Idle, Run((f64, Option<u8>)), Inner(E2) }`, `enum E2 { A, B }` -/
def exKind : Ty :=
  .enum "Kind" (.unit "Idle" (.newtype "Run" (.tuple (.cons (.atom "f64")
    (.cons (.opt (.atom "u8")) .nil))) (.newtype "Inner" (.enum "E2" (.unit "A" (.unit "B" .nil)))
    .nil)))

/-- ```
    struct Comp {
      #[serde(default, skip_serializing_if = "EqDefault::eq_default")] state: State,
      #[serde(skip)] cache: Vec<f64>,
      #[serde(skip_serializing_if = "Option::is_none")] mass: Option<si::Mass>,
      #[serde(rename = "pwr_watts")] pwr: si::Power,
      kind: Kind,
      hist: Vec<State>,
      tbl: HashMap<String, Option<f64>>,
      wrapped: Wrap,                       // struct Wrap(u32)
    }
    ``` -/
def exTy : Ty :=
  .struct "Comp"
    (.cons (fa "state" (skipIf := .eqDefault) (dflt := .std)) exState
    (.cons (fa "cache" (skip := true)) (.seq (.atom "f64"))
    (.cons (fa "mass" (skipIf := .isNone)) (.opt (.atom "si::Mass"))
    (.cons (fa "pwr" (key := "pwr_watts")) (.atom "si::Power")
    (.cons (fa "kind") exKind
    (.cons (fa "hist") (.seq exState)
    (.cons (fa "tbl") (.map "String" (.opt (.atom "f64")))
    (.cons (fa "wrapped") (.newtype "Wrap" (.atom "u32")) .nil))))))))

/-- no predicate holds: state ≠ default, mass = Some; the `skip` cache is filled -/
def exVal : Val :=
  .tuple [.tuple [.atom "3", .atom "true"], .seq [.atom "1.5"], .some (.atom "10"), .atom "1e6",
    .variant 2 (.variant 1 .unit), .seq [.tuple [.atom "1", .atom "false"]],
    .seq [.tuple [.atom "a", .some (.atom "1")], .tuple [.atom "b", .none]], .atom "7"]

/-- both predicates hold: state = `State::default()` (under `canonD`), mass = None -/
def exValHit : Val :=
  .tuple [.tuple [.atom "0", .atom "0"], .seq [.atom "1.5"], .none, .atom "1e6",
    .variant 1 (.tuple [.atom "2.5", .some (.atom "4")]), .seq [],
    .seq [.tuple [.atom "a", .some (.atom "1")]], .atom "7"]

/-- the loaded object differs from the saved one exactly in the `skip` cache -/
example : norm canonD exTy exVal ≠ exVal ∧ norm canonD exTy exValHit ≠ exValHit := by
  decide +kernel

/-! ## (1) self-describing round trip -/

def C17_selfdesc_roundtrip_statement : Prop :=
  ∀ (D : Defaults) (t : Ty) (v : Val),
    -- FORCED (three independent reasons, see the `_needs_wf_…` examples below): `Option<T>` of a
    -- nullable `T`; duplicate keys / variant names; a conditionally skipped field whose missing-key
    -- value is not the value the predicate compared with.
    wf t = true →
    -- FORCED: an ill-shaped value is written as `null` by the catch-all of `encSelf`
    -- (`_needs_fits`).
    fits t v = true →
    decSelf D t (encSelf D t v) = some (norm D t v)

theorem C17_selfdesc_roundtrip : C17_selfdesc_roundtrip_statement :=
  fun D t v hw hf => selfRT D t v hw hf

/-- all hypotheses hold of the example (with and without hit fields) -/
example : wf exTy = true ∧ fits exTy exVal = true ∧ fits exTy exValHit = true := by
  decide +kernel

example : decSelf canonD exTy (encSelf canonD exTy exValHit) = some (norm canonD exTy exValHit) :=
  C17_selfdesc_roundtrip canonD exTy exValHit (by decide +kernel) (by decide +kernel)

/-- `Some(None) : Option<Option<T>>` is written as `null` and read back as `None` -/
theorem C17_selfdesc_needs_wf_nullable :
    let t : Ty := .opt (.opt (.atom "x")); let v : Val := .some .none
    fits t v = true ∧ wf t = false ∧ decSelf canonD t (encSelf canonD t v) ≠ some (norm canonD t v) := by
  decide +kernel

/-- two fields with the same key: the second reads the first one's value -/
theorem C17_selfdesc_needs_wf_nodup :
    let t : Ty := .struct "S" (.cons (fa "a" (key := "k")) (.atom "x")
      (.cons (fa "b" (key := "k")) (.atom "x") .nil))
    let v : Val := .tuple [.atom "1", .atom "2"]
    fits t v = true ∧ wf t = false ∧
      decSelf canonD t (encSelf canonD t v) = some (.tuple [.atom "1", .atom "1"]) := by
  decide +kernel

/-- `skip_serializing_if = eq_default` without `#[serde(default)]` on a non-`Option` field: the
    omitted key is an error on load -/
theorem C17_selfdesc_needs_wf_fieldOK :
    let t : Ty := .struct "S" (.cons (fa "a" (skipIf := .eqDefault)) (.atom "x") .nil)
    let v : Val := .tuple [.atom "0"]
    fits t v = true ∧ wf t = false ∧ decSelf canonD t (encSelf canonD t v) = none := by
  decide +kernel

theorem C17_selfdesc_needs_fits :
    let t : Ty := .atom "x"; let v : Val := .unit
    wf t = true ∧ fits t v = false ∧ decSelf canonD t (encSelf canonD t v) = none := by
  decide +kernel

/-! ## (2) `norm` is idempotent (unconditionally) -/

def C17_norm_idem_statement : Prop :=
  ∀ (D : Defaults) (t : Ty) (v : Val), norm D t (norm D t v) = norm D t v

theorem C17_norm_idem : C17_norm_idem_statement := fun D t v => norm_idem D t v

example : norm canonD exTy (norm canonD exTy exVal) = norm canonD exTy exVal :=
  C17_norm_idem canonD exTy exVal

/-! ## (3) the second round trip is the identity on what the first load returned -/

def C17_second_roundtrip_identity_statement : Prop :=
  ∀ (D : Defaults) (t : Ty) (v : Val),
    wf t = true →          -- FORCED as in (1)
    fits t v = true →      -- FORCED as in (1)
    decSelf D t (encSelf D t (norm D t v)) = some (norm D t v)
    -- NO hypothesis on the `Default` impls is needed: the loaded object `norm D t v` may be ill typed
    -- inside its `skip` fields (when `skipFit D t` fails, see `C17_loaded_fits`), but the codec never
    -- reads or writes those, and (1) holds for the `skip`-blind typing `fitsW`, which `norm`
    -- preserves unconditionally (`SerdeL.selfRTW`, `SerdeL.fitsW_norm`).

theorem C17_second_roundtrip_identity : C17_second_roundtrip_identity_statement :=
  fun D t v hw hf => selfRT_second D t v hw (fits_fitsW t v hf)

/-- the variant asked for originally (with the now superfluous `skipFit`), by the direct route
    (1) at `norm v` + (2) + `C17_loaded_fits` -/
theorem C17_second_roundtrip_identity_skipFit (D : Defaults) (t : Ty) (v : Val)
    (hw : wf t = true) (hf : fits t v = true) (hs : skipFit D t = true) :
    decSelf D t (encSelf D t (norm D t v)) = some (norm D t v) := by
  have h := selfRT D t (norm D t v) hw (fits_norm D t v hs hf)
  rwa [norm_idem] at h

/-- the object the first load returns is well typed (for the model's full typing predicate)
    provided the `Default` of every `skip` cache is a value of the cache's type -/
def C17_loaded_fits_statement : Prop :=
  ∀ (D : Defaults) (t : Ty) (v : Val),
    skipFit D t = true →   -- FORCED (`C17_loaded_fits_needs_skipFit`)
    fits t v = true → fits t (norm D t v) = true

theorem C17_loaded_fits : C17_loaded_fits_statement := fun D t v hs hf => fits_norm D t v hs hf

theorem C17_loaded_fits_needs_skipFit :
    let D : Defaults := ⟨fun _ => .unit, fun _ => .unit⟩
    let t : Ty := .struct "S" (.cons (fa "c" (skip := true)) (.atom "x") .nil)
    let v : Val := .tuple [.atom "1"]
    fits t v = true ∧ skipFit D t = false ∧ fits t (norm D t v) = false := by
  decide +kernel

example : wf exTy = true ∧ fits exTy exVal = true ∧ skipFit canonD exTy = true := by
  decide +kernel

example : decSelf canonD exTy (encSelf canonD exTy (norm canonD exTy exVal))
    = some (norm canonD exTy exVal) :=
  C17_second_roundtrip_identity canonD exTy exVal (by decide +kernel) (by decide +kernel)

/-- … also with an ill-typed default of a `skip` cache (`skipFit` fails, the equation holds) -/
example :
    let D : Defaults := ⟨fun _ => .unit, fun _ => .unit⟩
    let t : Ty := .struct "S" (.cons (fa "c" (skip := true)) (.atom "x")
      (.cons (fa "y") (.atom "x") .nil))
    let v : Val := .tuple [.atom "1", .atom "2"]
    skipFit D t = false ∧ decSelf D t (encSelf D t (norm D t v)) = some (norm D t v) :=
  ⟨by decide +kernel,
   C17_second_roundtrip_identity _ _ _ (by decide +kernel) (by decide +kernel)⟩

/-! ## (4) positional round trip ⇔ no hit -/

def C17_positional_roundtrip_iff_statement : Prop :=
  ∀ (D : Defaults) (t : Ty) (v : Val),
    -- FORCED for (⇒): a conditionally skipped field of a zero-token type (e.g. `()`) is read back
    -- from nothing, so the stream stays in step although the predicate held
    -- (`C17_positional_needs_posWF`).  Not used for (⇐).
    posWF t = true →
    -- FORCED for (⇐): an ill-shaped value is written as nothing by the catch-all of `encSeq`
    -- while `noHit` is `true` on it (`C17_positional_needs_fits`).
    fits t v = true →
    (decSeq D t (encSeq D t v) = some (norm D t v, []) ↔ noHit D t v = true)
    -- `wf t` is NOT needed: the positional format has no keys, no names and no `null`.

theorem C17_positional_roundtrip_iff : C17_positional_roundtrip_iff_statement := by
  intro D t v hp hf
  constructor
  · exact noHit_of_posRT D t v hp hf
  · intro hn
    have := posRT D t v [] hf hn
    simpa using this

/-- (⇐) with an arbitrary continuation of the stream (what a struct embedding the value needs) -/
theorem C17_positional_roundtrip_rest (D : Defaults) (t : Ty) (v : Val) (rest : List Tok)
    (hf : fits t v = true) (hn : noHit D t v = true) :
    decSeq D t (encSeq D t v ++ rest) = some (norm D t v, rest) := posRT D t v rest hf hn

example : posWF exTy = true ∧ fits exTy exVal = true ∧ noHit canonD exTy exVal = true ∧
    fits exTy exValHit = true ∧ noHit canonD exTy exValHit = false := by
  decide +kernel

example : decSeq canonD exTy (encSeq canonD exTy exVal) = some (norm canonD exTy exVal, []) :=
  (C17_positional_roundtrip_iff canonD exTy exVal (by decide +kernel) (by decide +kernel)).2
    (by decide +kernel)

theorem C17_positional_needs_posWF :
    let t : Ty := .struct "S" (.cons (fa "u" (skipIf := .eqDefault) (dflt := .std)) .unit .nil)
    let v : Val := .tuple [.unit]
    fits t v = true ∧ posWF t = false ∧ noHit canonD t v = false ∧
      decSeq canonD t (encSeq canonD t v) = some (norm canonD t v, []) := by
  decide +kernel

theorem C17_positional_needs_fits :
    let t : Ty := .atom "x"; let v : Val := .unit
    posWF t = true ∧ fits t v = false ∧ noHit canonD t v = true ∧
      decSeq canonD t (encSeq canonD t v) = none := by
  decide +kernel

/-! ## (5) a hit field breaks the positional round trip -/

def C17_positional_hit_fails_statement : Prop :=
  ∀ (D : Defaults) (t : Ty) (v : Val),
    posWF t = true →       -- FORCED (`C17_positional_needs_posWF`)
    fits t v = true →      -- used only through (4); kept because (4 ⇒) is proved for typed values
    noHit D t v = false →
    decSeq D t (encSeq D t v) ≠ some (norm D t v, [])

theorem C17_positional_hit_fails : C17_positional_hit_fails_statement := by
  intro D t v hp hf hn h
  rw [(C17_positional_roundtrip_iff D t v hp hf).1 h] at hn
  exact Bool.noConfusion hn

example : decSeq canonD exTy (encSeq canonD exTy exValHit)
    ≠ some (norm canonD exTy exValHit, []) :=
  C17_positional_hit_fails canonD exTy exValHit (by decide +kernel) (by decide +kernel)
    (by decide +kernel)

/-! ## (6) the crate's table -/

theorem C17_table_wf : tableWF Altrios.Serde.Generated.table = true := by decide +kernel

/-- (1) and (4) for every root of ANY table that passes the Boolean check -/
theorem roundtrips_of_tableWF (tbl : List RawDef) (h : tableWF tbl = true) :
    ∀ n ∈ roots tbl, ∃ t, resolve tbl resolveFuel (.ref n) = some t ∧
      wf t = true ∧ posWF t = true ∧
      (∀ D v, fits t v = true → decSelf D t (encSelf D t v) = some (norm D t v)) ∧
      (∀ D v, fits t v = true →
        (decSeq D t (encSeq D t v) = some (norm D t v, []) ↔ noHit D t v = true)) := by
  intro n hn
  unfold tableWF at h
  simp only [Bool.and_eq_true, List.all_eq_true] at h
  have hn' := h.2 n hn
  cases hr : resolve tbl resolveFuel (.ref n) with
  | none => simp [hr] at hn'
  | some t =>
    simp only [hr, Bool.and_eq_true] at hn'
    exact ⟨t, rfl, hn'.1, hn'.2,
      fun D v hf => C17_selfdesc_roundtrip D t v hn'.1 hf,
      fun D v hf => C17_positional_roundtrip_iff D t v hn'.2 hf⟩

def C17_every_table_type_roundtrips_statement : Prop :=
  ∀ n ∈ roots Generated.table, ∃ t, resolve Generated.table resolveFuel (.ref n) = some t ∧
    wf t = true ∧ posWF t = true ∧
    (∀ D v, fits t v = true → decSelf D t (encSelf D t v) = some (norm D t v)) ∧
    (∀ D v, fits t v = true →
      (decSeq D t (encSeq D t v) = some (norm D t v, []) ↔ noHit D t v = true))

theorem C17_every_table_type_roundtrips : C17_every_table_type_roundtrips_statement :=
  roundtrips_of_tableWF Generated.table C17_table_wf

/-- every `#[serde(skip)]` field of the crate is one of the lazily rebuilt caches -/
theorem C17_table_skips_rebuilt : skipsRebuilt Generated.table = true := by
  have h := C17_table_wf
  unfold tableWF at h
  simp only [Bool.and_eq_true] at h
  exact h.1

/-- non-vacuity: the table has roots, `FuelConverter` among them -/
example : "FuelConverter" ∈ roots Generated.table ∧ 10 ≤ (roots Generated.table).length := by
  decide +kernel

/-! ## (7) the default `FuelConverter` does not survive bincode -/

/-- Boolean form of the first two conjuncts (and `posWF`), evaluated on the regenerated table -/
def fcCheck : Bool :=
  match resolve Generated.table resolveFuel (.ref "FuelConverter") with
  | some t => fits t (canon t) && !noHit canonD t (canon t) && posWF t
  | none => false

theorem fcCheck_true : fcCheck = true := by decide +kernel

def C17_bincode_default_counterexample_statement : Prop :=
  ∃ t, resolve Generated.table resolveFuel (.ref "FuelConverter") = some t ∧
    fits t (canon t) = true ∧ noHit canonD t (canon t) = false ∧
    decSeq canonD t (encSeq canonD t (canon t)) ≠ some (norm canonD t (canon t), [])

theorem C17_bincode_default_counterexample : C17_bincode_default_counterexample_statement := by
  have h := fcCheck_true
  unfold fcCheck at h
  cases hr : resolve Generated.table resolveFuel (.ref "FuelConverter") with
  | none => simp [hr] at h
  | some t =>
    simp only [hr, Bool.and_eq_true, Bool.not_eq_true'] at h
    exact ⟨t, hr, h.1.1, h.1.2, C17_positional_hit_fails canonD t (canon t) h.2 h.1.1 h.1.2⟩

/-! ## (0) the regenerated table is a real scan, not the stub written when the scanner gives up -/

theorem C17_scan_ok : Altrios.Serde.Generated.scanOk = true := by decide

/-! ## (8) a reset cache is rebuilt before its first use, with the same content

`Generator.pwr_in_frac_interp` / `ElectricDrivetrain.pwr_in_frac_interp` are `#[serde(skip)]`:
a load returns them empty (`norm`).  The code fills them lazily
(`if self.pwr_in_frac_interp.is_empty() { self.set_pwr_in_frac_interp()? }`), modelled by
`PT.ensureInFrac`.  The theorems below say that the step functions that read the cache return the
SAME result (same state, same error, and the same re-populated cache) for the reloaded object as for
the original one, provided the original's cache was coherent with the maps it is computed from. -/

section
open Altrios.PT
variable {α : Type} [Add α] [Sub α] [Mul α] [Div α] [Neg α] [LT α] [LE α]
  [DecidableLT α] [DecidableLE α] [OfNat α 0] [OfNat α 1]

omit [Add α] [Sub α] [Mul α] [Neg α] [LE α] [DecidableLE α] [OfNat α 0] [OfNat α 1] in
theorem ensureInFrac_cold (frac eta : List α)
    (hm : strictlyIncreasing (inFrac frac eta) = true) :
    ensureInFrac ([] : List α) frac eta = ensureInFrac (inFrac frac eta) frac eta := by
  unfold ensureInFrac
  simp [hm]

/-- the cache of `g` is what `set_pwr_in_frac_interp` computes from the serialized maps, and it
    passed that function's monotonicity check -/
def GenCacheCoherent (g : Gen α) : Prop :=
  g.inFracInterp = inFrac g.fracInterp g.etaInterp ∧
  -- FORCED: `set_pwr_in_frac_interp` assigns the cache BEFORE it rejects a non-monotone one, so an
  -- object can carry a populated non-monotone cache; the original then goes on interpolating in
  -- it while the reloaded copy fails with "must be monotonically increasing" on first use
  -- (`C17_cache_needs_monotone`).
  strictlyIncreasing (inFrac g.fracInterp g.etaInterp) = true

def EdrvCacheCoherent (e : Edrv α) : Prop :=
  e.inFracInterp = inFrac e.fracInterp e.etaInterp ∧
  strictlyIncreasing (inFrac e.fracInterp e.etaInterp) = true

def C17_cache_rebuild_gen_statement : Prop :=
  ∀ {α : Type} [Add α] [Sub α] [Mul α] [Div α] [Neg α] [LT α] [LE α]
    [DecidableLT α] [DecidableLE α] [OfNat α 0] [OfNat α 1] (g : Gen α) (pwrInMax aux : α),
    GenCacheCoherent g →
    genSetCurMax { g with inFracInterp := [] } pwrInMax aux = genSetCurMax g pwrInMax aux

theorem C17_cache_rebuild_gen : C17_cache_rebuild_gen_statement := by
  intro α _ _ _ _ _ _ _ _ _ _ _ g p aux h
  unfold genSetCurMax
  simp only [h.1, ensureInFrac_cold _ _ h.2]

def C17_cache_rebuild_edrv_statement : Prop :=
  ∀ {α : Type} [Add α] [Sub α] [Mul α] [Div α] [Neg α] [LT α] [LE α]
    [DecidableLT α] [DecidableLE α] [OfNat α 0] [OfNat α 1] (e : Edrv α) (p : α),
    EdrvCacheCoherent e →
    edrvSetCurMax { e with inFracInterp := [] } p = edrvSetCurMax e p ∧
    edrvSetRegenMax { e with inFracInterp := [] } p = edrvSetRegenMax e p

theorem C17_cache_rebuild_edrv : C17_cache_rebuild_edrv_statement := by
  intro α _ _ _ _ _ _ _ _ _ _ _ e p h
  constructor
  · unfold edrvSetCurMax
    simp only [h.1, ensureInFrac_cold _ _ h.2]
  · unfold edrvSetRegenMax
    simp only [h.1, ensureInFrac_cold _ _ h.2]

end

section
open Altrios.PT

/-- a generator with a two-point map (over `Rat`): the hypotheses of (8) hold and the statement is
    about a step that succeeds -/
def exGen : Gen Rat :=
  { state := ⟨0, 0, 0, 0, 0, 0, 0, 0, 0, 0, 0, 0⟩, pwrOutMax := 1000,
    fracInterp := [0, 1], etaInterp := [1/2, 4/5], inFracInterp := [0, 5/4] }

example : GenCacheCoherent exGen := by
  constructor <;> decide +kernel

example : (genSetCurMax { exGen with inFracInterp := [] } 500 10).isOk = true ∧
    genSetCurMax { exGen with inFracInterp := [] } 500 10 = genSetCurMax exGen 500 10 :=
  ⟨by decide +kernel, C17_cache_rebuild_gen exGen 500 10 (by constructor <;> decide +kernel)⟩

/-- the monotonicity hypothesis is forced: with a populated but non-monotone cache the original
    proceeds (here: succeeds) while the reloaded copy, whose cache is empty, fails when it
    rebuilds it -/
theorem C17_cache_needs_monotone :
    let g : Gen Rat := { exGen with fracInterp := [0, 1/2, 1], etaInterp := [1/2, 1/2, 2],
                                    inFracInterp := [0, 1, 1/2] }
    g.inFracInterp = inFrac g.fracInterp g.etaInterp ∧
    (genSetCurMax g 10 1).isOk = true ∧
    (genSetCurMax { g with inFracInterp := [] } 10 1).isOk = false := by
  decide +kernel

end

end Altrios.Proofs.C17
