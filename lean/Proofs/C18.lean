import Altrios.Par
import Generated.OrderSites
import Proofs.Lemmas.ParL
/-
  C18 — results are deterministic and independent of thread scheduling.      PARTIAL.

  What is PROVED here (about the model `Altrios/Par.lean`):
    * the parallel batch walk (`LocomotiveSimulationVec::walk(true)`), for EVERY schedule rayon may
      follow (any order of the elements, any early stop that rayon's `try_for_each` contract allows):
      each element of the result is the walk of ITS OWN input or its untouched input
      (`C18_par_elementwise`), the result does not depend on the order (`C18_order_independent`),
      does not depend on the other elements' contents (`C18_isolation`), equals the serial loop's
      result whenever the serial loop succeeds (`C18_par_eq_serial`), every reported error is the
      error of the named element's own walk (`C18_error_reported`), and the serial loop is one of
      the schedules (`C18_serial_is_schedule`); the closed-form test used by the driver op
      `par_check` is exact (`C18_explainable_iff`);
    * order-independence of each inventoried iteration over a std hash container
      (`C18_cars_total_perm`, `C18_find_distinct_keys_perm`, `C18_verdict_perm`,
      `C18_set_collect_perm`, `C18_difference_perm`), and the obligation that every site the
      scanner finds in the CURRENT source is reviewed and carries no float fold in hash order
      (`C18_sites_reviewed`, by `decide` over the regenerated table).
  What is NOT proved (exercised at run time by harness block `det` only): that rayon implements
  its contract, that the closure really touches only its element (the inventory pins its source
  text), `RandomState` seeds, the identity hasher's determinism (`Just.seedlessHasher`, assumed),
  floating-point non-associativity (hence the rule in `Site.ok`), and the determinism of the
  sequential code itself (a pure function of its inputs apart from the inventoried sites).
-/
namespace Altrios.Proofs.C18
open Altrios.Par Altrios.Proofs.ParL

/-! ## the parallel batch walk -/

/-- **Every element is its own walk or untouched.**  For every schedule without repetition:
    the batch keeps its length and element `i` of the result is `walk (batch[i])` (its state after the
    walk, successful or failed mid-way) if `i` was processed, and the untouched `batch[i]` otherwise. -/
def C18_par_elementwise_statement : Prop :=
  ∀ (ε χ : Type) (walk : Walk ε χ) (batch : List ε) (s : Sched),
    s.order.Nodup →     -- FORCED: an element taken twice would be walked twice
    (runSchedule walk batch s).1.length = batch.length ∧
    ∀ i (hi : i < batch.length),
      (runSchedule walk batch s).1[i]? =
        some (if i ∈ s.processed then (walk batch[i]).1 else batch[i])

theorem C18_par_elementwise : C18_par_elementwise_statement := by
  intro ε χ walk batch s hs
  have hp := processed_nodup s hs
  refine ⟨by unfold runSchedule; rw [foldl_fst_length], ?_⟩
  intro i hi
  rw [run_fst walk batch s hp, List.getElem?_mapIdx, List.getElem?_eq_getElem hi]
  rfl

/-- **The result does not depend on the order in which workers take the elements**: two schedules
    that process the same set of elements give the same batch and the same errors (as a multiset). -/
def C18_order_independent_statement : Prop :=
  ∀ (ε χ : Type) (walk : Walk ε χ) (batch : List ε) (s s' : Sched),
    s.order.Nodup → s'.order.Nodup → s.processed.Perm s'.processed →
    (runSchedule walk batch s).1 = (runSchedule walk batch s').1 ∧
    ((runSchedule walk batch s).2).Perm (runSchedule walk batch s').2

theorem C18_order_independent : C18_order_independent_statement := by
  intro ε χ walk batch s s' hs hs' hp
  have h1 := processed_nodup s hs
  have h2 := processed_nodup s' hs'
  rw [run_fst walk batch s h1, run_fst walk batch s' h2, run_snd walk batch s h1, run_snd walk batch s' h2]
  refine ⟨?_, hp.filterMap _⟩
  apply List.ext_getElem?
  intro i
  simp only [List.getElem?_mapIdx, hp.mem_iff]

/-- **No other element's input matters**: what element `i` is after a run depends only on its own
    input and on whether it was processed — not on the other elements, their errors, or the order. -/
def C18_isolation_statement : Prop :=
  ∀ (ε χ : Type) (walk : Walk ε χ) (b b' : List ε) (s s' : Sched) (i : Nat),
    s.order.Nodup → s'.order.Nodup →
    b[i]? = b'[i]? → (i ∈ s.processed ↔ i ∈ s'.processed) →
    (runSchedule walk b s).1[i]? = (runSchedule walk b' s').1[i]?

theorem C18_isolation : C18_isolation_statement := by
  intro ε χ walk b b' s s' i hs hs' hb hp
  rw [run_fst walk b s (processed_nodup s hs), run_fst walk b' s' (processed_nodup s' hs'),
    List.getElem?_mapIdx, List.getElem?_mapIdx, hb]
  by_cases h : i ∈ s.processed
  · simp [h, hp.mp h]
  · have h' : i ∉ s'.processed := fun h' => h (hp.mpr h')
    simp [h, h']

/-- **Errors are reported for the element that produced them.**  Every `(i, err)` a run produces
    is the error of walking `batch[i]` itself and `i` was processed; and under rayon's contract the
    run is error-free exactly when no element of the batch fails. -/
def C18_error_reported_statement : Prop :=
  ∀ (ε χ : Type) (walk : Walk ε χ) (batch : List ε) (s : Sched),
    s.order.Nodup →
    (∀ p ∈ (runSchedule walk batch s).2,
      ∃ (h : p.1 < batch.length), p.1 ∈ s.processed ∧ (walk batch[p.1]).2 = some p.2) ∧
    (s.admissible walk batch = true →
      ((runSchedule walk batch s).2 = [] ↔ ∀ e ∈ batch, (walk e).2 = none))

theorem no_errs_iff (walk : Walk ε χ) (batch : List ε) (s : Sched) (hs : s.order.Nodup) :
    (runSchedule walk batch s).2 = [] ↔ ∀ i ∈ s.processed, failsAt walk batch i = false := by
  rw [run_snd walk batch s (processed_nodup s hs), List.filterMap_eq_nil_iff]
  simp only [errOf_eq_none]

theorem failsAt_false_of (walk : Walk ε χ) (batch : List ε)
    (h : ∀ e ∈ batch, (walk e).2 = none) (i : Nat) : failsAt walk batch i = false := by
  unfold failsAt
  cases hb : batch[i]? with
  | none => rfl
  | some e =>
    have : e ∈ batch := List.mem_of_getElem? hb
    simp [fails, h e this]

theorem C18_error_reported : C18_error_reported_statement := by
  intro ε χ walk batch s hs
  constructor
  · intro p hp
    rw [run_snd walk batch s (processed_nodup s hs), List.mem_filterMap] at hp
    obtain ⟨j, hj, he⟩ := hp
    obtain ⟨hlt, hw, hpj⟩ := (errOf_eq_some walk batch j p).mp he
    subst hpj
    exact ⟨hlt, hj, hw⟩
  · intro hadm
    rw [no_errs_iff walk batch s hs]
    obtain ⟨harr, hstop⟩ := (admissible_iff walk batch s).mp hadm
    obtain ⟨_, _, hall⟩ := (isArrangement_iff _ _).mp harr
    constructor
    · intro h e he
      -- no processed element fails, so the run cannot have stopped early: everything was processed
      have hc : s.order.length ≤ s.stop := by
        rcases hstop with h' | ⟨i, hi, hf⟩
        · exact h'
        · rw [h i hi] at hf; cases hf
      obtain ⟨i, hi, rfl⟩ := List.getElem_of_mem he
      have hip : i ∈ s.processed := by rw [processed_of_complete s hc]; exact hall i hi
      have := h i hip
      unfold failsAt fails at this
      rw [List.getElem?_eq_getElem hi] at this
      simpa using this
    · intro h i _
      exact failsAt_false_of walk batch h i

/-- **The serial loop is one of the schedules** (`order = 0,…,n-1`, stop after the first failing
    element), so everything proved for all schedules holds for `walk(false)` too. -/
def C18_serial_is_schedule_statement : Prop :=
  ∀ (ε χ : Type) (walk : Walk ε χ) (batch : List ε),
    (serialSched walk batch).admissible walk batch = true ∧
    (runSchedule walk batch (serialSched walk batch)).1 = (runSerial walk batch).1 ∧
    (runSchedule walk batch (serialSched walk batch)).2 = (runSerial walk batch).2.toList

theorem serialSched_processed (walk : Walk ε χ) (batch : List ε) :
    (serialSched walk batch).processed = List.range (min (serialStop walk batch) batch.length) := by
  unfold Sched.processed serialSched serialStop
  simp only [List.take_range]
  rfl

theorem serialStop_le (walk : Walk ε χ) (batch : List ε) : serialStop walk batch ≤ batch.length := by
  unfold serialStop
  cases h : firstFail walk batch with
  | none => simp
  | some k => obtain ⟨hk, _⟩ := firstFail_some walk batch k h; simp; omega

theorem C18_serial_is_schedule : C18_serial_is_schedule_statement := by
  intro ε χ walk batch
  have hnd : (serialSched walk batch).order.Nodup := List.nodup_range
  have hpn := processed_nodup _ hnd
  have hproc := serialSched_processed walk batch
  have hle := serialStop_le walk batch
  rw [Nat.min_eq_left hle] at hproc
  refine ⟨?_, ?_, ?_⟩
  · -- admissible
    rw [admissible_iff]
    refine ⟨(isArrangement_iff _ _).mpr ⟨List.nodup_range, by simp [serialSched], by simp [serialSched]⟩, ?_⟩
    cases h : firstFail walk batch with
    | none => left; simp [serialSched, h]
    | some k =>
      right
      obtain ⟨hk, hf, _⟩ := firstFail_some walk batch k h
      refine ⟨k, ?_, ?_⟩
      · rw [hproc]; simp [serialStop, h]
      · unfold failsAt; rw [List.getElem?_eq_getElem hk]; exact hf
  · rw [run_fst walk batch _ hpn, hproc]
    unfold runSerial
    rw [serialGo_fst]
    simp only [List.mem_range]
  · rw [run_snd walk batch _ hpn, hproc]
    unfold runSerial
    rw [serialGo_snd]
    cases h : firstFail walk batch with
    | none =>
      have hn := firstFail_none walk batch h
      simp only [Option.bind_none, Option.toList_none, List.filterMap_eq_nil_iff, errOf_eq_none]
      intro i _
      apply failsAt_false_of
      intro e he
      have := hn e he
      simpa [fails] using this
    | some k =>
      obtain ⟨hk, hf, hb⟩ := firstFail_some walk batch k h
      have hst : serialStop walk batch = k + 1 := by simp [serialStop, h]
      rw [hst, List.range_succ, List.filterMap_append]
      have h0 : List.filterMap (errOf walk batch) (List.range k) = [] := by
        rw [List.filterMap_eq_nil_iff]
        intro j hj
        rw [errOf_eq_none]
        have hjk : j < k := List.mem_range.mp hj
        unfold failsAt
        rw [List.getElem?_eq_getElem (by omega)]
        exact hb j hjk
      rw [h0]
      simp only [Option.bind_some, List.nil_append, Nat.zero_add, List.filterMap_cons, List.filterMap_nil]
      unfold errOf
      cases hbk : batch[k]? with
      | none => simp
      | some e =>
        simp only [Option.bind_some]
        generalize (walk e).2 = r
        cases r <;> simp

/-- **Parallel = serial.**  Under rayon's contract: if the serial loop succeeds, EVERY schedule
    yields exactly the serial result (which is `map walk`) and no error; if the serial loop reports
    an error, every schedule reports an error too. -/
def C18_par_eq_serial_statement : Prop :=
  ∀ (ε χ : Type) (walk : Walk ε χ) (batch : List ε) (s : Sched),
    s.admissible walk batch = true →   -- FORCED: a run that stops early without an error loses elements
    ((runSerial walk batch).2 = none →
      runSchedule walk batch s = ((runSerial walk batch).1, []) ∧
      (runSerial walk batch).1 = batch.map (fun e => (walk e).1)) ∧
    ((runSerial walk batch).2 ≠ none → (runSchedule walk batch s).2 ≠ [])

theorem serial_none_iff (walk : Walk ε χ) (batch : List ε) :
    (runSerial walk batch).2 = none ↔ ∀ e ∈ batch, (walk e).2 = none := by
  obtain ⟨hadm, _, h2⟩ := C18_serial_is_schedule ε χ walk batch
  have := (C18_error_reported ε χ walk batch (serialSched walk batch) List.nodup_range).2 hadm
  rw [← this, h2]
  cases (runSerial walk batch).2 <;> simp

theorem C18_par_eq_serial : C18_par_eq_serial_statement := by
  intro ε χ walk batch s hadm
  obtain ⟨harr, hstop⟩ := (admissible_iff walk batch s).mp hadm
  obtain ⟨hnd, _, hall⟩ := (isArrangement_iff _ _).mp harr
  have herr := (C18_error_reported ε χ walk batch s hnd).2 hadm
  constructor
  · intro hser
    have hno := (serial_none_iff walk batch).mp hser
    have hs2 : (runSchedule walk batch s).2 = [] := herr.mpr hno
    have hc : s.order.length ≤ s.stop := by
      rcases hstop with h' | ⟨i, _, hf⟩
      · exact h'
      · rw [failsAt_false_of walk batch hno i] at hf; cases hf
    have hmap : ∀ (t : Sched), t.order.Nodup → (∀ i, i < batch.length → i ∈ t.processed) →
        (runSchedule walk batch t).1 = batch.map (fun e => (walk e).1) := by
      intro t ht hcov
      rw [run_fst walk batch t (processed_nodup t ht)]
      apply List.ext_getElem?
      intro i
      rw [List.getElem?_mapIdx, List.getElem?_map]
      cases hb : batch[i]? with
      | none => rfl
      | some e =>
        have hi : i < batch.length := (List.getElem?_eq_some_iff.mp hb).1
        simp [hcov i hi]
    have h1 : (runSchedule walk batch s).1 = batch.map (fun e => (walk e).1) :=
      hmap s hnd (by intro i hi; rw [processed_of_complete s hc]; exact hall i hi)
    obtain ⟨_, hs1, _⟩ := C18_serial_is_schedule ε χ walk batch
    have hserial : (runSerial walk batch).1 = batch.map (fun e => (walk e).1) := by
      rw [← hs1]
      apply hmap _ List.nodup_range
      intro i hi
      rw [serialSched_processed]
      have : serialStop walk batch = batch.length := by
        unfold serialStop
        cases hff : firstFail walk batch with
        | none => rfl
        | some k =>
          obtain ⟨hk, hf, _⟩ := firstFail_some walk batch k hff
          have := hno batch[k] (List.getElem_mem hk)
          simp [fails, this] at hf
      simp [this, hi]
    exact ⟨Prod.ext (by rw [h1, hserial]) hs2, hserial⟩
  · intro hser hnil
    exact hser ((serial_none_iff walk batch).mpr (herr.mp hnil))

/-- **`explainable` is exact**: the closed-form test answers `true` iff SOME admissible schedule
    produces the observation, and then the canonical `witness` schedule does.  (Driver op
    `par_check`: every observation of the real parallel walk must be explainable.) -/
def C18_explainable_iff_statement : Prop :=
  ∀ (ε χ : Type) (walk : Walk ε χ) (batch : List ε) (o : Obs),
    (explainable walk batch o = true ↔ ∃ s, explains walk batch s o = true) ∧
    (explainable walk batch o = true → explains walk batch (witness o) o = true)

theorem explains_iff (walk : Walk ε χ) (batch : List ε) (s : Sched) (o : Obs) :
    explains walk batch s o = true ↔
      s.admissible walk batch = true ∧ o.proc = procVec batch.length s ∧
      (match o.reported with
       | none => (runSchedule walk batch s).2 = []
       | some r => ∃ p ∈ (runSchedule walk batch s).2, p.1 = r) := by
  unfold explains
  cases o.reported <;> simp [and_assoc]

theorem procVec_getD (n : Nat) (s : Sched) (i : Nat) (hi : i < n) :
    (procVec n s).getD i false = decide (i ∈ s.processed) := by
  unfold procVec
  simp [List.getD_eq_getElem?_getD, hi]

theorem mem_procFailing (walk : Walk ε χ) (batch : List ε) (proc : List Bool) (i : Nat) :
    i ∈ procFailing walk batch proc ↔
      i < batch.length ∧ proc.getD i false = true ∧ failsAt walk batch i = true := by
  unfold procFailing
  simp

theorem explainable_of_explains (walk : Walk ε χ) (batch : List ε) (s : Sched) (o : Obs)
    (h : explains walk batch s o = true) : explainable walk batch o = true := by
  obtain ⟨hadm, hproc, hrep⟩ := (explains_iff walk batch s o).mp h
  obtain ⟨harr, hstop⟩ := (admissible_iff walk batch s).mp hadm
  obtain ⟨hnd, hlt, hall⟩ := (isArrangement_iff _ _).mp harr
  have hlen : o.proc.length = batch.length := by rw [hproc]; simp [procVec]
  unfold explainable
  rw [Bool.and_eq_true]
  refine ⟨by simpa using hlen, ?_⟩
  cases hr : o.reported with
  | none =>
    rw [hr] at hrep
    simp only at hrep
    have hnf := (no_errs_iff walk batch s hnd).mp hrep
    have hc : s.order.length ≤ s.stop := by
      rcases hstop with h' | ⟨i, hi, hf⟩
      · exact h'
      · rw [hnf i hi] at hf; cases hf
    simp only [Bool.and_eq_true, List.isEmpty_iff, List.all_eq_true, id]
    constructor
    · rw [List.eq_nil_iff_forall_not_mem]
      intro i hi
      obtain ⟨hib, hp, hf⟩ := (mem_procFailing walk batch o.proc i).mp hi
      rw [hproc, procVec_getD _ _ _ hib] at hp
      rw [hnf i (by simpa using hp)] at hf
      cases hf
    · intro x hx
      rw [hproc] at hx
      unfold procVec at hx
      obtain ⟨i, hi, rfl⟩ := List.mem_map.mp hx
      have hin : i ∈ s.processed := by
        rw [processed_of_complete s hc]; exact hall i (List.mem_range.mp hi)
      simpa using hin
  | some r =>
    rw [hr] at hrep
    simp only at hrep
    obtain ⟨p, hp, hpr⟩ := hrep
    obtain ⟨hlt', hin, hw⟩ := (C18_error_reported ε χ walk batch s hnd).1 p hp
    subst hpr
    simp only [List.contains_eq_mem, decide_eq_true_eq]
    rw [mem_procFailing]
    refine ⟨hlt', ?_, ?_⟩
    · rw [hproc, procVec_getD _ _ _ hlt']; simpa using hin
    · unfold failsAt fails; rw [List.getElem?_eq_getElem hlt']; simp [hw]

theorem witness_facts (o : Obs) :
    (witness o).order.Nodup ∧ (∀ i ∈ (witness o).order, i < o.proc.length) ∧
    (∀ i, i < o.proc.length → i ∈ (witness o).order) ∧
    (witness o).processed = (List.range o.proc.length).filter (fun i => o.proc.getD i false) := by
  unfold witness Sched.processed
  simp only
  refine ⟨?_, ?_, ?_, ?_⟩
  · rw [List.nodup_append]
    refine ⟨List.nodup_range.filter _, List.nodup_range.filter _, ?_⟩
    intro a ha b hb hab
    subst hab
    simp only [List.mem_filter] at ha hb
    rw [ha.2] at hb
    exact absurd hb.2 (by simp)
  · intro i hi
    simp only [List.mem_append, List.mem_filter, List.mem_range] at hi
    rcases hi with h | h <;> exact h.1
  · intro i hi
    simp only [List.mem_append, List.mem_filter, List.mem_range]
    cases o.proc.getD i false <;> simp [hi]
  · simp

theorem explains_witness (walk : Walk ε χ) (batch : List ε) (o : Obs)
    (h : explainable walk batch o = true) : explains walk batch (witness o) o = true := by
  unfold explainable at h
  rw [Bool.and_eq_true] at h
  obtain ⟨hlen, hcase⟩ := h
  have hlen : o.proc.length = batch.length := by simpa using hlen
  obtain ⟨hnd, hlt, hall, hproc⟩ := witness_facts o
  have hmemp : ∀ i, i ∈ (witness o).processed ↔ i < batch.length ∧ o.proc.getD i false = true := by
    intro i; rw [hproc]; simp [hlen]
  rw [explains_iff]
  have hpv : o.proc = procVec batch.length (witness o) := by
    apply List.ext_getElem?
    intro i
    unfold procVec
    by_cases hi : i < batch.length
    · have hi' : i < o.proc.length := by omega
      rw [List.getElem?_eq_getElem hi']
      simp only [List.getElem?_map, List.getElem?_range hi, Option.map_some, Option.some.injEq]
      have := hmemp i
      simp only [hi, true_and] at this
      rw [List.getD_eq_getElem?_getD, List.getElem?_eq_getElem hi', Option.getD_some] at this
      cases hb : o.proc[i] with
      | true => simpa using this.mpr hb
      | false =>
        have hn : i ∉ (witness o).processed := fun hc => by rw [this.mp hc] at hb; cases hb
        simpa using hn
    · rw [List.getElem?_eq_none (by omega), List.getElem?_eq_none (by simp; omega)]
  have harr : isArrangement batch.length (witness o).order = true :=
    (isArrangement_iff _ _).mpr ⟨hnd, by simpa [hlen] using hlt, by simpa [hlen] using hall⟩
  cases hr : o.reported with
  | none =>
    rw [hr] at hcase
    simp only [Bool.and_eq_true, List.isEmpty_iff, List.all_eq_true, id] at hcase
    obtain ⟨hpf, hallp⟩ := hcase
    have hnf : ∀ i ∈ (witness o).processed, failsAt walk batch i = false := by
      intro i hi
      obtain ⟨hib, hp⟩ := (hmemp i).mp hi
      cases hf : failsAt walk batch i with
      | false => rfl
      | true =>
        have : i ∈ procFailing walk batch o.proc := (mem_procFailing walk batch o.proc i).mpr ⟨hib, hp, hf⟩
        rw [hpf] at this; cases this
    refine ⟨?_, hpv, (no_errs_iff walk batch _ hnd).mpr hnf⟩
    rw [admissible_iff]
    refine ⟨harr, Or.inl ?_⟩
    -- everything is marked processed, so the witness stops at the very end
    have hfull : (List.range o.proc.length).filter (fun i => o.proc.getD i false) = List.range o.proc.length := by
      rw [List.filter_eq_self]
      intro i hi
      have hi' : i < o.proc.length := List.mem_range.mp hi
      rw [List.getD_eq_getElem?_getD, List.getElem?_eq_getElem hi', Option.getD_some]
      exact hallp _ (List.getElem_mem hi')
    have hempty : (List.range o.proc.length).filter (fun i => !o.proc.getD i false) = [] := by
      rw [List.filter_eq_nil_iff]
      intro i hi
      have hi' : i < o.proc.length := List.mem_range.mp hi
      rw [List.getD_eq_getElem?_getD, List.getElem?_eq_getElem hi', Option.getD_some]
      simp [hallp _ (List.getElem_mem hi')]
    unfold witness
    simp only [hempty, List.append_nil, Nat.le_refl]
  | some r =>
    rw [hr] at hcase
    simp only [List.contains_eq_mem, decide_eq_true_eq] at hcase
    obtain ⟨hrb, hrp, hrf⟩ := (mem_procFailing walk batch o.proc r).mp hcase
    have hrin : r ∈ (witness o).processed := (hmemp r).mpr ⟨hrb, hrp⟩
    refine ⟨?_, hpv, ?_⟩
    · rw [admissible_iff]; exact ⟨harr, Or.inr ⟨r, hrin, hrf⟩⟩
    · simp only
      rw [run_snd walk batch _ (processed_nodup _ hnd)]
      cases he : errOf walk batch r with
      | none => rw [(errOf_eq_none walk batch r).mp he] at hrf; cases hrf
      | some p =>
        refine ⟨p, List.mem_filterMap.mpr ⟨r, hrin, he⟩, ?_⟩
        exact ((errOf_eq_some walk batch r p).mp he).2.2

theorem C18_explainable_iff : C18_explainable_iff_statement := by
  intro ε χ walk batch o
  exact ⟨⟨fun h => ⟨witness o, explains_witness walk batch o h⟩,
    fun ⟨s, hs⟩ => explainable_of_explains walk batch s o hs⟩, explains_witness walk batch o⟩

/-! ### non-vacuity: a batch of 5 counters, elements 1 and 3 fail half-way -/

/-- toy walk on `Nat`: multiples of 10 plus 1 or 3 fail after adding 5, the others add 100 -/
def toyWalk : Walk Nat String := fun e =>
  if e % 10 = 1 ∨ e % 10 = 3 then (e + 5, some s!"over limit at {e}") else (e + 100, none)

example : (⟨[4, 2, 3, 0, 1], 3⟩ : Sched).admissible toyWalk [10, 11, 12, 13, 14] = true := by decide
example : runSchedule toyWalk [10, 11, 12, 13, 14] ⟨[4, 2, 3, 0, 1], 3⟩ =
    ([10, 11, 112, 18, 114], [(3, "over limit at 13")]) := by decide
example : runSerial toyWalk [10, 11, 12, 13, 14] = ([110, 16, 12, 13, 14], some (1, "over limit at 11")) := by
  decide
-- an early stop without an error is NOT admissible (rayon never drops elements silently) …
example : (⟨[4, 2, 3, 0, 1], 2⟩ : Sched).admissible toyWalk [10, 11, 12, 13, 14] = false := by decide
-- … and without that hypothesis `C18_par_eq_serial` is false:
theorem C18_par_eq_serial_needs_admissible :
    ∃ (s : Sched), s.order.Nodup ∧ (runSerial toyWalk [10, 12]).2 = none ∧
      runSchedule toyWalk [10, 12] s ≠ ((runSerial toyWalk [10, 12]).1, []) :=
  ⟨⟨[1, 0], 1⟩, by decide, by decide, by decide⟩
example : explainable toyWalk [10, 11, 12, 13, 14] ⟨[false, false, true, true, true], some 3⟩ = true := by decide
example : explainable toyWalk [10, 11, 12, 13, 14] ⟨[true, false, true, false, true], none⟩ = false := by decide
example : explainable toyWalk [10, 11, 12, 13, 14] ⟨[true, true, true, false, true], some 3⟩ = false := by decide

/-! ## iteration over std hash containers: the result is the same for every iteration order -/

/-- `TrainConfig::cars_total` (`values().fold(0, |acc, n| *n + acc)` over `u32`): the same total for
    every iteration order — as a natural number, with overflow checking (panic iff the TOTAL
    overflows, in every order), and with wrapping arithmetic. -/
def C18_cars_total_perm_statement : Prop :=
  ∀ (l₁ l₂ : List Nat), l₁.Perm l₂ →
    carsTotal l₁ = carsTotal l₂ ∧
    (∀ max, carsTotalChecked max l₁ = carsTotalChecked max l₂) ∧
    (∀ m, carsTotalWrapping m l₁ = carsTotalWrapping m l₂)

theorem C18_cars_total_perm : C18_cars_total_perm_statement := by
  intro l₁ l₂ h
  have h0 := carsTotal_perm h
  refine ⟨h0, ?_, ?_⟩
  · intro max; rw [carsTotalChecked_eq, carsTotalChecked_eq, h0]
  · intro m
    unfold carsTotalWrapping
    have := fun l => carsTotalWrapping_go m l 0
    simp only [Nat.zero_mod, Nat.zero_add] at this
    rw [this, this, h.sum_nat]

example : carsTotal [100, 3, 17] = carsTotal [17, 100, 3] := by decide
example : carsTotalChecked 255 [200, 3, 100] = none ∧ carsTotalChecked 255 [3, 100, 200] = none := by decide

/-- `extract_speed_set` (`speed_sets.iter().find(|sps| sps.0 == &train_type)`) and the content of a
    serialized map: the entry found for a key is the same for every iteration order.
    FORCED hypothesis: keys are distinct (they are: it is a map). -/
def C18_find_distinct_keys_perm_statement : Prop :=
  ∀ (κ ν : Type) [BEq κ] [LawfulBEq κ] (l₁ l₂ : List (κ × ν)), l₁.Perm l₂ →
    (l₁.map Prod.fst).Nodup → ∀ k, findEntry l₁ k = findEntry l₂ k

theorem C18_find_distinct_keys_perm : C18_find_distinct_keys_perm_statement := by
  intro κ ν _ _ l₁ l₂ h hk k
  exact findEntry_perm h hk k

example : findEntry [("Freight", 20), ("Passenger", 35), ("Intermodal", 30)] "Passenger"
    = findEntry [("Intermodal", 30), ("Passenger", 35), ("Freight", 20)] "Passenger" := by decide

/-- without distinct keys the found entry DOES depend on the order -/
theorem C18_find_needs_distinct_keys :
    ∃ (l₁ l₂ : List (Nat × Nat)), l₁.Perm l₂ ∧ findEntry l₁ 1 ≠ findEntry l₂ 1 :=
  ⟨[(1, 10), (1, 20)], [(1, 20), (1, 10)], List.Perm.swap _ _ _, by decide⟩

/-- taking "the first entry in hash order" is NOT order-independent (why a site such as
    `speed_sets.values().next()` can never be mapped to a lemma) -/
theorem C18_first_in_hash_order_counterexample :
    ∃ (l₁ l₂ : List (Nat × Nat)), l₁.Perm l₂ ∧ (l₁.map Prod.fst).Nodup ∧ l₁.head? ≠ l₂.head? :=
  ⟨[(1, 10), (2, 20)], [(2, 20), (1, 10)], List.Perm.swap _ _ _, by decide, by decide⟩

/-- `impl ObjState for HashMap<TrainType, SpeedSet>`: `validate_slice_real` over `values()`: whether
    validation succeeds is the same for every iteration order (the error TEXT carries positions in
    iteration order and is not). -/
def C18_verdict_perm_statement : Prop :=
  ∀ (ν μ : Type) (check : ν → List μ) (l₁ l₂ : List ν), l₁.Perm l₂ →
    verdictOk check l₁ = verdictOk check l₂

theorem C18_verdict_perm : C18_verdict_perm_statement := by
  intro ν μ check l₁ l₂ h
  unfold verdictOk
  rw [validateSlice_isEmpty, validateSlice_isEmpty, h.all_eq]

example : verdictOk (fun n : Nat => if n > 3 then ["too big"] else []) [1, 5, 2]
    = verdictOk (fun n : Nat => if n > 3 then ["too big"] else []) [2, 1, 5] := by decide
/-- … while the message positions do depend on the order -/
theorem C18_validate_text_depends_on_order :
    validateSlice (fun n : Nat => if n > 3 then ["too big"] else []) 0 [1, 5, 2]
      ≠ validateSlice (fun n : Nat => if n > 3 then ["too big"] else []) 0 [5, 2, 1] := by decide

/-- collecting an iteration into a set (`HashSet::from_iter(n_cars_by_type.keys().cloned())`):
    membership is the same for every iteration order -/
def C18_set_collect_perm_statement : Prop :=
  ∀ (κ : Type) [BEq κ] (l₁ l₂ : List κ), l₁.Perm l₂ →
    (∀ x, x ∈ l₁ ↔ x ∈ l₂) ∧ (∀ x, l₁.contains x = l₂.contains x)

theorem C18_set_collect_perm : C18_set_collect_perm_statement := by
  intro κ _ l₁ l₂ h
  exact ⟨fun _ => h.mem_iff, fun _ => h.contains_eq⟩

/-- `a.difference(&b).collect::<Vec<_>>()` in `check_rv_keys`: the collected vector is a
    permutation for every iteration order of `a` and `b`; in particular `is_empty()` — the only
    thing that decides Ok/Err — is order-independent (the vector itself goes into error text). -/
def C18_difference_perm_statement : Prop :=
  ∀ (κ : Type) [BEq κ] (a₁ a₂ b₁ b₂ : List κ), a₁.Perm a₂ → b₁.Perm b₂ →
    (difference a₁ b₁).Perm (difference a₂ b₂) ∧
    (difference a₁ b₁).isEmpty = (difference a₂ b₂).isEmpty

theorem C18_difference_perm : C18_difference_perm_statement := by
  intro κ _ a₁ a₂ b₁ b₂ ha hb
  have hp : (difference a₁ b₁).Perm (difference a₂ b₂) := by
    unfold difference
    have : (fun x => !b₁.contains x) = (fun x => !b₂.contains x) := by
      funext x; rw [hb.contains_eq]
    rw [this]
    exact ha.filter _
  exact ⟨hp, hp.isEmpty_eq⟩

example : (difference ["Bulk", "Tank", "Auto"] ["Auto", "Bulk"]).isEmpty
    = (difference ["Auto", "Bulk", "Tank"] ["Bulk", "Auto"]).isEmpty := by decide

/-! ## the inventory of the current source -/

/-- what has to be true for a justification to count; `unreviewed` can never be discharged.
    `errorTextOnly` and `seedlessHasher` are NOT theorems: the first is a scope statement (messages
    are outside the property), the second an assumption about `nohash-hasher`/`hashbrown` that the
    run-time differential of block `det` exercises (fresh processes, byte-identical results). -/
def Just.Claim : Just → Prop
  | .unreviewed => False
  | .findDistinctKeys => C18_find_distinct_keys_perm_statement
  | .natSumPerm => C18_cars_total_perm_statement
  | .verdictPerm => C18_verdict_perm_statement
  | .setCollectPerm => C18_set_collect_perm_statement
  | .diffEmptyPerm => C18_difference_perm_statement
  | .errorTextOnly => True
  | .serdeMapOrder => C18_find_distinct_keys_perm_statement
  | .parElementwise =>
      C18_par_elementwise_statement ∧ C18_order_independent_statement ∧ C18_isolation_statement ∧
      C18_error_reported_statement ∧ C18_par_eq_serial_statement
  | .seedlessHasher => True

/-- **Every iteration over a hash container and every rayon call found in the current source has
    been reviewed**, and none of them accumulates a non-integer type in hash / scheduling order.
    The table is regenerated from /repo on every check; a new or edited site is `unreviewed`. -/
def C18_sites_reviewed_statement : Prop := Generated.OrderSites.sites.all Site.ok = true

theorem C18_sites_reviewed : C18_sites_reviewed_statement := by
  unfold C18_sites_reviewed_statement
  decide

/-- the inventory is not empty and contains the anchored sites (guards against a scanner that
    silently finds nothing) -/
def C18_sites_anchored_statement : Prop :=
  (Generated.OrderSites.sites.any (fun s => s.container == .rayon && s.fn == "walk")) = true ∧
  (Generated.OrderSites.sites.any (fun s => s.fn == "cars_total" && s.just == .natSumPerm)) = true ∧
  (Generated.OrderSites.sites.any (fun s => s.fn == "extract_speed_set" && s.just == .findDistinctKeys)) = true ∧
  (Generated.OrderSites.sites.any (fun s => s.fn == "add_new_join_paths" && s.container == .intSet)) = true

theorem C18_sites_anchored : C18_sites_anchored_statement := by
  unfold C18_sites_anchored_statement
  decide

/-- every site's justification holds -/
def C18_sites_justified_statement : Prop := ∀ s ∈ Generated.OrderSites.sites, Just.Claim s.just

theorem C18_sites_justified : C18_sites_justified_statement := by
  intro s hs
  have hok : s.ok = true := List.all_eq_true.mp C18_sites_reviewed s hs
  have hne : s.just ≠ .unreviewed := by
    unfold Site.ok at hok
    intro h
    rw [h, Bool.and_eq_true] at hok
    simp [Just.fits] at hok
  cases hj : s.just with
  | unreviewed => exact absurd hj hne
  | findDistinctKeys => exact C18_find_distinct_keys_perm
  | natSumPerm => exact C18_cars_total_perm
  | verdictPerm => exact C18_verdict_perm
  | setCollectPerm => exact C18_set_collect_perm
  | diffEmptyPerm => exact C18_difference_perm
  | errorTextOnly => trivial
  | serdeMapOrder => exact C18_find_distinct_keys_perm
  | parElementwise =>
    exact ⟨C18_par_elementwise, C18_order_independent, C18_isolation, C18_error_reported, C18_par_eq_serial⟩
  | seedlessHasher => trivial

end Altrios.Proofs.C18
