import Altrios.History
import Generated.HistoryTree
import Proofs.Lemmas.Hist
/-
  C19 — histories and step counters stay aligned through the whole object tree.

  Model: `Altrios/History.lean` (rose tree; `stepT`, `saveT`, `setT`, the simulation drivers).
  Shapes: `Generated/HistoryTree.lean`, REGENERATED from the Rust sources on every check by
  `/verif/scan/scan_history.py` (which structs have `state` / `history` / `save_interval`, what
  `derive(HistoryMethods)` generates, the callees of the hand-written `step` / `save_state` /
  `set_save_interval` bodies and whether each call sits inside the interval gate, the phase order of the
  simulations' `step()`, the `save_state()` in front of the `walk…` loops, what `new` does).

  Part A: theorems about ARBITRARY trees, assuming only the decidable well-formedness of the call tables.
  Part B: the obligations on the regenerated tables, discharged by `decide` / `cases … <;> decide`
          (these are what breaks when a component is not added to a cascade, a step is called twice, …).
  Part C: the four simulation drivers, for every kind, every consist composition, every interval
          `None | Some n (n ≥ 1)`, every number of executed steps, with and without a final failing step,
          and every script of user operations (manual steps, failing steps, interval changes, walks).
  Part D: NON-UNIFORM nested intervals.  `Op.poke k v` (raw write of a nested object's pub `save_interval`
          field) and `Op.setAt k v` (a nested object's own `set_save_interval`) leave the tree with different
          intervals at different levels.  The top-level `set_save_interval(v)` erases every trace of them
          (`C19_set_absorbs_poke`: EXACTLY the tree the setter alone produces, for every state of every
          shape), and scripts in which every run of such writes is followed by a top-level set before the
          next step / walk keep the tree aligned (`C19_any_script_aligned_poked`).

  What the code does (and the theorems state precisely): all counters start at 1; the row written after
  executed step `j` carries `i = j`; `walk` saves once before the loop, which records the initial state
  (with `i = 1`) exactly when `1 % n = 0`, i.e. `n = 1`.  So after `k` executed steps every history has the
  i-column  `(if n = 1 then [1] else []) ++ [j ∈ 1..k | j % n = 0]`  of length `(if n = 1 then 1 else 0) + k / n`
  — which is the count formula of the property.  `Some(0)` makes the first reached gate panic (`i % 0`).
-/
namespace Altrios.Proofs.C19
open Altrios Altrios.Hist Altrios.Proofs.HistL
open Generated.HistoryTree

/-! ## Part A — arbitrary trees -/

/-- the three call tables of a tree are well-formed -/
def WF (t : Tree) : Prop := wfStep t = true ∧ wfSave false t = true ∧ wfSet 1 [] t = true

/-- `step()` of the root keeps the tree aligned and advances every counter by one -/
def C19_step_preserves_aligned_statement : Prop :=
  ∀ (t : Tree) (c : Nat) (n : Option Nat) (h : List Nat),
    wfStep t = true →          -- forced: a counter incremented twice / not at all breaks equality
    Aligned c n h t → Aligned (c + 1) n h (stepT 1 t)

theorem C19_step_preserves_aligned : C19_step_preserves_aligned_statement := by
  intro t c n h w ⟨a, b, d⟩
  exact ⟨stepT_PI c t w a, stepT_keeps (fun _ _ _ _ _ x => x) 1 t b, stepT_keeps (fun _ _ _ _ _ x => x) 1 t d⟩

/-- `save_state()` of the root keeps the tree aligned: every history gets the row `c` when
    `c % n = 0` and no row otherwise — whether nested objects are saved inside the caller's gate
    (derive, Consist, the train simulations) or outside it (Locomotive → powertrain) -/
def C19_save_preserves_aligned_statement : Prop :=
  ∀ (t : Tree) (c : Nat) (n : Option Nat) (h : List Nat),
    wfSave false t = true →    -- forced: a history pushed twice / not reached / not under any gate
    Aligned c n h t →          -- forced: see `C19_unaligned_intervals_counterexample`
    Aligned c n (h ++ if gateOpen n c then [c] else []) (saveT 1 t)

theorem C19_save_preserves_aligned : C19_save_preserves_aligned_statement := by
  intro t c n h w ⟨a, b, d⟩
  refine ⟨saveT_keeps (fun _ _ _ _ _ x => x) 1 t a, saveT_keeps (fun _ _ _ _ _ x => x) 1 t b, ?_⟩
  have := saveT_PH c n h t false w a b d
  simpa [mu] using this

/-- … and it does not panic unless the interval is `Some(0)` -/
theorem saveR_ok (t : Tree) (c : Nat) (n : Option Nat) (h : List Nat) (hn : n ≠ some 0)
    (ha : Aligned c n h t) : saveR 1 t = .ok (saveT 1 t) := by
  unfold saveR
  rw [savePanics_false n hn 1 t ha.2.1]
  rfl

/-- `set_save_interval(v)` at the top reaches every nested object, whatever the intervals were before,
    and changes nothing else -/
def C19_set_interval_reaches_all_statement : Prop :=
  ∀ (t : Tree) (v : Option Nat),
    wfSet 1 [] t = true →      -- forced: a `save_interval` the cascade does not write keeps its old value
    AllT (PV v) (setT 1 [] v t) ∧
    ∀ c n h, Aligned c n h t → Aligned c v h (setT 1 [] v t)

theorem C19_set_interval_reaches_all : C19_set_interval_reaches_all_statement := by
  intro t v w
  refine ⟨setT_PV v t 1 [] w, fun c n h ⟨a, _, d⟩ => ⟨?_, setT_PV v t 1 [] w, ?_⟩⟩
  · exact setT_keeps (fun _ _ _ _ _ x => x) 1 [] v t a
  · exact setT_keeps (fun _ _ _ _ _ x => x) 1 [] v t d

/-- reading of `Aligned`: any two histories are equal lists of step indices (same length, row k = same
    step), any two counters are equal, any two intervals are equal -/
theorem aligned_pairwise {c : Nat} {n : Option Nat} {h : List Nat} {t : Tree} (ha : Aligned c n h t) :
    ∀ x ∈ nodes t, ∀ y ∈ nodes t,
      (x.1.hasI = true → y.1.hasI = true → x.2.1 = y.2.1) ∧
      (x.1.hasInterval = true → y.1.hasInterval = true → x.2.2.1 = y.2.2.1) ∧
      (x.1.hasHist = true → y.1.hasHist = true → x.2.2.2 = y.2.2.2 ∧ x.2.2.2.length = y.2.2.2.length) := by
  intro x hx y hy
  have a := (AllT_iff (PI c) t).1 ha.1
  have b := (AllT_iff (PV n) t).1 ha.2.1
  have d := (AllT_iff (PH h) t).1 ha.2.2
  refine ⟨fun p q => (a x hx p).trans (a y hy q).symm, fun p q => (b x hx p).trans (b y hy q).symm, fun p q => ?_⟩
  have e : x.2.2.2 = y.2.2.2 := (d x hx p).trans (d y hy q).symm
  exact ⟨e, by rw [e]⟩

/-- The alignment hypothesis on the intervals is forced.  A locomotive whose own interval is `Some 1`
    while its components have `None` (this is what `Locomotive::default()` is; every `…::new` repairs it
    by cascading the interval) records rows that its components do not. -/
def misaligned : Tree := assignRoot (some 1) (consistLoco .ConventionalLoco)

theorem C19_unaligned_intervals_counterexample :
    wfSave false misaligned = true ∧
    -- (has a history?, interval, i-column) of every node after ONE `save_state()` at i = 1
    (nodes (saveT 1 misaligned)).map (fun x => (x.1.hasHist, x.2.2.1, x.2.2.2)) =
      [(true, some 1, [1]), (false, none, []), (false, none, []),
       (true, none, []), (true, none, []), (true, none, [])] := by
  decide

/-! ## Part B — obligations on the regenerated tables -/

/-- the scanner understood every shape it met -/
theorem scan_ok : scanOk = true := by decide

/-- every locomotive variant, as an element of a consist: each counter stepped once, each history saved
    once under a gate, each `save_interval` written by `Locomotive::set_save_interval` -/
theorem consistLoco_wf (v : Variant) :
    (((consistLoco v).info.stepCalls == 1 && wfStep (consistLoco v)) || !anyI (consistLoco v)) = true ∧
    (∀ g, (((consistLoco v).info.saveOut == 1 && (consistLoco v).info.saveIn == 0 && wfSave g (consistLoco v))
      || (true && (consistLoco v).info.saveOut == 0 && (consistLoco v).info.saveIn == 1 && wfSave true (consistLoco v))
      || !anyHist (consistLoco v)) = true) ∧
    wfSet (1 * (consistLoco v).info.setCalls) (strip (consistLoco v).info.tag []) (consistLoco v) = true ∧
    freshB 1 (consistLoco v) = true := by
  cases v <;> refine ⟨by decide, fun g => by cases g <;> decide, by decide, by decide⟩

/-- the consist of ANY composition, under any caller -/
theorem consist_wf (nm : String) (tag sc so si st : Nat) (vs : List Variant) :
    wfStep (consistWith nm tag sc so si st vs) = true ∧
    (∀ g, wfSave g (consistWith nm tag sc so si st vs) = true) ∧
    (wfSet 1 [] (consistWith nm tag sc so si st vs) = true) ∧
    (AllT (PI 1) (consistWith nm tag sc so si st vs) ∧ AllT (PH []) (consistWith nm tag sc so si st vs)) := by
  refine ⟨?_, fun g => ?_, ?_, ?_, ?_⟩
  · simp only [consistWith, wfStep, Bool.and_eq_true]
    exact ⟨rfl, wfStepL_map _ (fun v => (consistLoco_wf v).1) vs⟩
  · simp only [consistWith, wfSave]
    rw [Bool.and_eq_true]
    refine ⟨by cases g <;> rfl, ?_⟩
    cases g
    · exact wfSaveL_map _ _ _ _ (fun v => by simpa using (consistLoco_wf v).2.1 false) vs
    · exact wfSaveL_map _ _ _ _ (fun v => by simpa using (consistLoco_wf v).2.1 true) vs
  · simp only [consistWith, wfSet, Bool.and_eq_true]
    exact ⟨rfl, wfSetL_map _ _ _ (fun v => (consistLoco_wf v).2.2.1) vs⟩
  · simp only [consistWith, AllT]
    exact ⟨fun _ => rfl, AllL_map _ _ (fun v => (freshB_sound 1 _ (consistLoco_wf v).2.2.2).1) vs⟩
  · simp only [consistWith, AllT]
    exact ⟨fun _ => rfl, AllL_map _ _ (fun v => (freshB_sound 1 _ (consistLoco_wf v).2.2.2).2) vs⟩

/-- the standalone locomotive of the locomotive simulation -/
theorem locoSim_wf (v : Variant) :
    WF (shape .loco [v]) ∧ freshB 1 (shape .loco [v]) = true := by
  cases v <;> exact ⟨⟨by decide, by decide, by decide⟩, by decide⟩

theorem shape_loco_eq (vs : List Variant) : shape .loco vs = shape .loco [vs.headD .ConventionalLoco] := by
  cases vs <;> rfl

/-- splits `k ∈ [a]` / `k ∈ [a, b]` into the cases `k = a`, `k = b` -/
macro "kid_cases " h:ident : tactic =>
  `(tactic| (simp only [List.mem_cons, List.not_mem_nil, or_false] at $h:ident
             first
               | subst $h:ident
               | (rcases $h:ident with h1 | h1 <;> subst h1)))

/-- **every simulation kind, every consist composition**: the call tables are well-formed and the fresh
    object has all counters at 1 and no rows -/
theorem shape_wf (kind : Kind) (vs : List Variant) :
    WF (shape kind vs) ∧ AllT (PI 1) (shape kind vs) ∧ AllT (PH []) (shape kind vs) := by
  cases kind
  · rw [shape_loco_eq]
    have h := locoSim_wf (vs.headD .ConventionalLoco)
    exact ⟨h.1, freshB_sound 1 _ h.2⟩
  all_goals
    simp only [shape]
    refine ⟨⟨wfStep_node (by decide) ?_, wfSave_node (by decide) ?_, wfSet_node (by decide) ?_⟩,
      AllT_node (fun _ => rfl) ?_, AllT_node (fun _ => rfl) ?_⟩
    · intro k hk
      kid_cases hk
      all_goals first
        | exact Or.inl ⟨rfl, (consist_wf _ _ _ _ _ _ vs).1⟩
        | exact Or.inl ⟨rfl, by decide⟩
    · intro k hk
      kid_cases hk
      all_goals first
        | exact Or.inl ⟨rfl, rfl, (consist_wf _ _ _ _ _ _ vs).2.1 _⟩
        | exact Or.inr (Or.inl ⟨rfl, rfl, rfl, (consist_wf _ _ _ _ _ _ vs).2.1 _⟩)
        | exact Or.inl ⟨rfl, rfl, by decide⟩
        | exact Or.inr (Or.inl ⟨rfl, rfl, rfl, by decide⟩)
    · intro k hk
      kid_cases hk
      all_goals first
        | exact (consist_wf _ _ _ _ _ _ vs).2.2.1
        | decide
    · intro k hk
      kid_cases hk
      all_goals first
        | exact (consist_wf _ _ _ _ _ _ vs).2.2.2.1
        | exact (freshB_sound 1 _ (by decide)).1
    · intro k hk
      kid_cases hk
      all_goals first
        | exact (consist_wf _ _ _ _ _ _ vs).2.2.2.2
        | exact (freshB_sound 1 _ (by decide)).2

/-- every simulation's `step()` is  solve → save → advance,  and every `walk…` saves exactly once in
    front of its loop -/
theorem drivers_canonical :
    (∀ kind, stepOrder kind = [.solve, .save, .advance]) ∧
    (∀ kind, walkInitSaves kind = 1) ∧
    timedInitSaves .speedLimit = some 1 := by
  refine ⟨fun k => by cases k <;> decide, fun k => by cases k <;> decide, by decide⟩

/-- `SpeedLimitTrainSimVec::set_save_interval` forwards to every element exactly once -/
theorem sim_vec_forwards : simVecSetCalls = 1 := by decide

/-- every constructor `…::new(…, save_interval)` leaves the object exactly as a top-level
    `set_save_interval(save_interval)` on the fresh shape does (it cascades to every nested object) -/
theorem new_is_cascade (kind : Kind) (vs : List Variant) (n : Option Nat) :
    newT (newProg kind) n (shape kind vs) = setT 1 [] n (shape kind vs) := by
  cases kind <;> rfl

/-- `save_interval = Some(0)`: the first `save_state()` of every kind of simulation reaches a gate that
    computes `i % 0` — a panic (outside the property's "None, 1, n") -/
theorem zero_interval_panics (kind : Kind) (vs : List Variant) (k : Nat) (fail : Bool) :
    walkR (stepOrder kind) (walkInitSaves kind) k fail (newT (newProg kind) (some 0) (shape kind vs))
      = .panic "remainder by zero" := by
  have h : savePanics 1 (newT (newProg kind) (some 0) (shape kind vs)) = true := by cases kind <;> rfl
  rw [drivers_canonical.2.1 kind]
  simp only [walkR, savesR, Res.bind, saveR, h, if_true]

/-! ## Part C — the drivers -/

/-- solve → save → advance -/
def canonical : List Phase := [.solve, .save, .advance]

theorem WF_step {t : Tree} (w : WF t) : WF (stepT 1 t) := by
  have h := stepT_static 1 t
  exact ⟨by rw [h.1]; exact w.1, by rw [h.2.1]; exact w.2.1, by rw [h.2.2.1]; exact w.2.2⟩

theorem WF_save {t : Tree} (w : WF t) : WF (saveT 1 t) := by
  have h := saveT_static 1 t
  exact ⟨by rw [h.1]; exact w.1, by rw [h.2.1]; exact w.2.1, by rw [h.2.2]; exact w.2.2⟩

theorem WF_set {t : Tree} (v : Option Nat) (w : WF t) : WF (setT 1 [] v t) := by
  have h := setT_static 1 [] v t
  exact ⟨by rw [h.1]; exact w.1, by rw [h.2.1]; exact w.2.1, by rw [h.2.2.1]; exact w.2.2⟩

/-- one successful `step()`: the row `c` is written iff `c % n = 0`, then every counter becomes `c + 1` -/
theorem iterOk_canonical (t : Tree) (c : Nat) (n : Option Nat) (h : List Nat) (w : WF t) (hn : n ≠ some 0)
    (ha : Aligned c n h t) :
    iterOk canonical t = .ok (stepT 1 (saveT 1 t)) ∧
    Aligned (c + 1) n (h ++ if gateOpen n c then [c] else []) (stepT 1 (saveT 1 t)) ∧
    WF (stepT 1 (saveT 1 t)) := by
  refine ⟨?_, ?_, WF_step (WF_save w)⟩
  · simp only [canonical, iterOk, saveR_ok t c n h hn ha, Res.bind]
  · exact C19_step_preserves_aligned _ _ _ _ (WF_save w).1 (C19_save_preserves_aligned t c n h w.2.1 ha)

/-- a `step()` whose `solve_step` fails saves nothing, advances nothing: the object is unchanged -/
def C19_failing_step_changes_nothing_statement : Prop := ∀ t : Tree, iterFail canonical t = .ok t

theorem C19_failing_step_changes_nothing : C19_failing_step_changes_nothing_statement := fun _ => rfl

theorem stepsR_canonical (k : Nat) (t : Tree) (c : Nat) (n : Option Nat) (h : List Nat) (w : WF t)
    (hn : n ≠ some 0) (ha : Aligned c n h t) :
    ∃ t', stepsR canonical k t = .ok t' ∧ Aligned (c + k) n (h ++ rows n c k) t' ∧ WF t' := by
  induction k with
  | zero => exact ⟨t, rfl, by simpa [rows] using ha, w⟩
  | succ k ih =>
    obtain ⟨t1, e1, a1, w1⟩ := ih
    obtain ⟨e2, a2, w2⟩ := iterOk_canonical t1 (c + k) n _ w1 hn a1
    refine ⟨_, by simp only [stepsR, e1, Res.bind, e2], ?_, w2⟩
    rw [rows_succ, ← List.append_assoc]
    exact a2

theorem savesR_aligned (s : Nat) (t : Tree) (c : Nat) (n : Option Nat) (h : List Nat) (w : WF t)
    (hn : n ≠ some 0) (ha : Aligned c n h t) :
    ∃ t' h', savesR s t = .ok t' ∧ Aligned c n h' t' ∧ WF t' := by
  induction s with
  | zero => exact ⟨t, h, rfl, ha, w⟩
  | succ s ih =>
    obtain ⟨t1, h1, e1, a1, w1⟩ := ih
    exact ⟨_, _, by simp only [savesR, e1, Res.bind, saveR_ok t1 c n h1 hn a1],
      C19_save_preserves_aligned t1 c n h1 w1.2.1 a1, WF_save w1⟩

/-- `walk` from an aligned object whose counters are `c`: one initial save, `k` good steps, then
    possibly one failing step -/
theorem walkR_canonical (k : Nat) (fail : Bool) (t : Tree) (c : Nat) (n : Option Nat) (h : List Nat)
    (w : WF t) (hn : n ≠ some 0) (ha : Aligned c n h t) :
    ∃ t', walkR canonical 1 k fail t = .ok t' ∧
      Aligned (c + k) n (h ++ (if gateOpen n c then [c] else []) ++ rows n c k) t' ∧ WF t' := by
  have a0 := C19_save_preserves_aligned t c n h w.2.1 ha
  obtain ⟨t2, e2, a2, w2⟩ := stepsR_canonical k (saveT 1 t) c n _ (WF_save w) hn a0
  refine ⟨t2, ?_, a2, w2⟩
  simp only [walkR, savesR, Res.bind, saveR_ok t c n h hn ha, e2]
  cases fail
  · rfl
  · exact C19_failing_step_changes_nothing t2

/-- the i-column every history must have after `k` executed steps of a fresh simulation:
    the initial state (row `1`) only when every step is saved, then the executed steps `j ≤ k` with
    `j % n = 0`; the row written after executed step `j` carries `i = j` -/
def expectedRows : Option Nat → Nat → List Nat
  | none, _ => []
  | some n, k => (if n = 1 then [1] else []) ++ (List.range' 1 k).filter (fun j => j % n = 0)

theorem expectedRows_eq (n : Option Nat) (k : Nat) (hn : n ≠ some 0) :
    ([] ++ (if gateOpen n 1 then [1] else []) ++ rows n 1 k) = expectedRows n k := by
  cases n with
  | none => simp [expectedRows, rows_none, gateOpen]
  | some j =>
    have hj : j ≠ 0 := fun e => hn (by rw [e])
    rw [rows_some j 1 k hj, gateOpen_some j 1 hj]
    simp only [expectedRows, List.nil_append]
    congr 1
    by_cases h1 : j = 1
    · subst h1; simp
    · have : 1 % j ≠ 0 := by
        intro e
        have := Nat.dvd_of_mod_eq_zero e
        exact h1 (Nat.dvd_one.1 this)
      simp [h1, this]

/-- the fresh object of every kind and composition, as `new(…, n)` leaves it: aligned at counter 1, no rows -/
theorem new_aligned (kind : Kind) (vs : List Variant) (n : Option Nat) :
    Aligned 1 n [] (newT (newProg kind) n (shape kind vs)) ∧ WF (newT (newProg kind) n (shape kind vs)) := by
  rw [new_is_cascade]
  obtain ⟨w, a, d⟩ := shape_wf kind vs
  exact ⟨⟨setT_keeps (fun _ _ _ _ _ x => x) 1 [] n _ a, setT_PV n _ 1 [] w.2.2,
    setT_keeps (fun _ _ _ _ _ x => x) 1 [] n _ d⟩, WF_set n w⟩

/-- **C19, walks.**  For every simulation kind (locomotive, consist, set-speed, speed-limited), every
    consist composition, every interval `None | Some n` with `n ≥ 1`, every number `k` of executed steps,
    whether or not the walk then ends with an error: the walk does not panic and afterwards every step
    counter in the tree is `k + 1`, every `save_interval` is the one given to the constructor, and every
    history has exactly the i-column `expectedRows n k`. -/
def C19_walk_statement : Prop :=
  ∀ (kind : Kind) (vs : List Variant) (n : Option Nat) (k : Nat) (fail : Bool),
    n ≠ some 0 →    -- forced: `zero_interval_panics`
    ∃ t', walkR (stepOrder kind) (walkInitSaves kind) k fail (newT (newProg kind) n (shape kind vs)) = .ok t' ∧
      Aligned (k + 1) n (expectedRows n k) t'

theorem C19_walk : C19_walk_statement := by
  intro kind vs n k fail hn
  obtain ⟨a, w⟩ := new_aligned kind vs n
  obtain ⟨t', e, a', _⟩ := walkR_canonical k fail _ 1 n [] w hn a
  refine ⟨t', ?_, ?_⟩
  · rw [drivers_canonical.1 kind, drivers_canonical.2.1 kind]; exact e
  · rw [expectedRows_eq n k hn, Nat.add_comm] at a'; exact a'

/-- the same for `SpeedLimitTrainSim::walk_timed_path` -/
def C19_walk_timed_path_statement : Prop :=
  ∀ (vs : List Variant) (n : Option Nat) (k : Nat) (fail : Bool), n ≠ some 0 →
    ∃ s t', timedInitSaves .speedLimit = some s ∧
      walkR (stepOrder .speedLimit) s k fail (newT (newProg .speedLimit) n (shape .speedLimit vs)) = .ok t' ∧
      Aligned (k + 1) n (expectedRows n k) t'

theorem C19_walk_timed_path : C19_walk_timed_path_statement := by
  intro vs n k fail hn
  obtain ⟨a, w⟩ := new_aligned .speedLimit vs n
  obtain ⟨t', e, a', _⟩ := walkR_canonical k fail _ 1 n [] w hn a
  refine ⟨1, t', drivers_canonical.2.2, ?_, ?_⟩
  · rw [drivers_canonical.1 .speedLimit]; exact e
  · rw [expectedRows_eq n k hn, Nat.add_comm] at a'; exact a'

/-- **the count formula of the property**: number of rows = number of executed steps whose index is a
    multiple of the interval, plus the initial state when every step is saved; nothing with `None` -/
def C19_row_count_statement : Prop :=
  (∀ k, (expectedRows none k).length = 0) ∧
  (∀ n k, 0 < n → (expectedRows (some n) k).length = (if n = 1 then 1 else 0) + k / n)

theorem C19_row_count : C19_row_count_statement := by
  refine ⟨fun _ => rfl, fun n k hn => ?_⟩
  simp only [expectedRows, List.length_append, count_multiples n k hn]
  split <;> rfl

theorem walkR_fail_eq (s k : Nat) (t : Tree) : walkR canonical s k true t = walkR canonical s k false t := by
  simp only [walkR]
  cases savesR s t with
  | ok t3 =>
    simp only [Res.bind]
    cases stepsR canonical k t3 with
    | ok t4 => simp only [if_true]; exact C19_failing_step_changes_nothing t4
    | err _ => rfl
    | panic _ => rfl
  | err _ => rfl
  | panic _ => rfl

/-- a walk that ends with an error after `k` executed steps leaves exactly what a complete walk of `k`
    steps leaves: the failing step saved nothing and earlier rows are intact (no hypothesis needed) -/
def C19_error_keeps_rows_statement : Prop :=
  ∀ (kind : Kind) (vs : List Variant) (n : Option Nat) (k : Nat),
    walkR (stepOrder kind) (walkInitSaves kind) k true (newT (newProg kind) n (shape kind vs)) =
    walkR (stepOrder kind) (walkInitSaves kind) k false (newT (newProg kind) n (shape kind vs))

theorem C19_error_keeps_rows : C19_error_keeps_rows_statement := by
  intro kind vs n k
  rw [drivers_canonical.1 kind]
  exact walkR_fail_eq _ k _

/-- **C19, any usage.**  Any script of user operations on a simulation of any kind and composition —
    manual `step()`s, failing `step()`s, `set_save_interval` with any value other than `Some(0)` in
    between, `walk`s with or without a final error — never panics and leaves the whole tree aligned:
    all counters equal, all intervals equal, all histories equal as lists of step indices. -/
def opOk : Op → Prop
  | .set v => v ≠ some 0
  | .poke _ _ => False     -- writes to nested intervals: see Part D (`C19_any_script_aligned_poked`)
  | .setAt _ _ => False
  | _ => True

theorem runR_aligned : ∀ (ops : List Op) (t : Tree) (c : Nat) (n : Option Nat) (h : List Nat),
    WF t → n ≠ some 0 → Aligned c n h t → (∀ o ∈ ops, opOk o) →
    ∃ t' c' n' h', runR canonical ops t = .ok t' ∧ Aligned c' n' h' t'
  | [], t, c, n, h, _, _, ha, _ => ⟨t, c, n, h, rfl, ha⟩
  | o :: os, t, c, n, h, w, hn, ha, hok => by
    have hos : ∀ o ∈ os, opOk o := fun o ho => hok o (List.mem_cons_of_mem _ ho)
    have ho : opOk o := hok o (List.mem_cons_self ..)
    cases o with
    | set v =>
      obtain ⟨t', r⟩ := runR_aligned os (setT 1 [] v t) c v h (WF_set v w) ho
        ((C19_set_interval_reaches_all t v w.2.2).2 c n h ha) hos
      exact ⟨t', by simpa only [runR, opR, Res.bind] using r⟩
    | step =>
      obtain ⟨e, a, w'⟩ := iterOk_canonical t c n h w hn ha
      obtain ⟨t', r⟩ := runR_aligned os _ _ n _ w' hn a hos
      exact ⟨t', by simpa only [runR, opR, e, Res.bind] using r⟩
    | poke _ _ => exact absurd ho id
    | setAt _ _ => exact absurd ho id
    | stepFail =>
      obtain ⟨t', r⟩ := runR_aligned os t c n h w hn ha hos
      exact ⟨t', by simpa only [runR, opR, C19_failing_step_changes_nothing t, Res.bind] using r⟩
    | walk s k f =>
      obtain ⟨t1, h1, e1, a1, w1⟩ := savesR_aligned s t c n h w hn ha
      obtain ⟨t2, e2, a2, w2⟩ := stepsR_canonical k t1 c n h1 w1 hn a1
      obtain ⟨t', r⟩ := runR_aligned os t2 _ n _ w2 hn a2 hos
      refine ⟨t', ?_⟩
      have : opR canonical t (.walk s k f) = .ok t2 := by
        simp only [opR, walkR, e1, Res.bind, e2]
        cases f
        · rfl
        · exact C19_failing_step_changes_nothing t2
      simpa only [runR, this, Res.bind] using r

def C19_any_script_aligned_statement : Prop :=
  ∀ (kind : Kind) (vs : List Variant) (n : Option Nat) (ops : List Op),
    n ≠ some 0 → (∀ o ∈ ops, opOk o) →
    ∃ t' c' n' h', runR (stepOrder kind) ops (newT (newProg kind) n (shape kind vs)) = .ok t' ∧
      Aligned c' n' h' t'

theorem C19_any_script_aligned : C19_any_script_aligned_statement := by
  intro kind vs n ops hn hok
  obtain ⟨a, w⟩ := new_aligned kind vs n
  rw [drivers_canonical.1 kind]
  exact runR_aligned ops _ 1 n [] w hn a hok

/-! ## Part D — non-uniform nested intervals: `poke`, `setAt` -/

/-- i-columns of all histories in the tree -/
def cols (r : Res Tree) : List (List Nat) :=
  match r with
  | .ok t => (nodes t).filterMap (fun x => if x.1.hasHist then some x.2.2.2 else none)
  | _ => []

/-- the dump of a result, as the driver prints it -/
def dump' (r : Res Tree) : List String :=
  match r with
  | .ok t => dump t
  | _ => []

/-- the intervals of all interval-carrying objects in the tree, in the order `poke` / `setAt` count them -/
def ivs (r : Res Tree) : List (Option Nat) :=
  match r with
  | .ok t => (nodes t).filterMap (fun x => if x.1.hasInterval then some x.2.2.1 else none)
  | _ => []

/-- a write to the interval of a nested object, behind the back of the top-level cascade -/
def isNestedWrite : Op → Bool
  | .poke _ _ => true
  | .setAt _ _ => true
  | _ => false

/-- **arbitrary tree, raw write.**  Whatever interval the k-th interval-carrying object is given, a following
    top-level `set_save_interval(v)` produces exactly the tree it produces without the write. -/
def C19_set_absorbs_poke_tree_statement : Prop :=
  ∀ (t : Tree) (k : Nat) (w v : Option Nat),
    wfSet 1 [] t = true →      -- forced: a `save_interval` the cascade does not write keeps the poked value
    setT 1 [] v (pokeT k w t) = setT 1 [] v t

theorem C19_set_absorbs_poke_tree : C19_set_absorbs_poke_tree_statement :=
  fun t k w v hw => setT_absorbs_pokeT v w k t 1 [] hw

/-- **arbitrary tree, a nested object's own setter.** -/
def C19_set_absorbs_setAt_tree_statement : Prop :=
  ∀ (t : Tree) (k : Nat) (w v : Option Nat),
    wfSet 1 [] t = true →      -- forced, as above
    setClean t = true →        -- forced: `C19_setAt_needs_clean_counterexample`
    setT 1 [] v (setAtT k w t) = setT 1 [] v t

theorem C19_set_absorbs_setAt_tree : C19_set_absorbs_setAt_tree_statement :=
  fun t k w v hw hc => setT_absorbs_setAtT v w k t 1 [] hw hc

/-- The hypothesis `setClean` is forced for EXACT equality of trees.  In this (artificial) table the root
    assigns `a.save_interval` directly, `a`'s own setter calls the setter of `b`, and `b`'s setter writes a
    `save_interval` although `b` has none (impossible in Rust: the field would not exist).  The covering
    check `wfSet` passes, yet `a.set_save_interval(Some 5)` followed by the top-level set leaves the value 5
    in `b`'s (dummy) slot. -/
def uncleanTree : Tree :=
  .node { name := "r", hasI := true, hasHist := false, hasInterval := true, stepSelf := 1, saveSelf := 0, setSelf := 1,
          setDeep := [[0]], tag := 0, stepCalls := 1, saveOut := 1, saveIn := 0, setCalls := 1 } 1 none []
    [.node { name := "a", hasI := true, hasHist := false, hasInterval := true, stepSelf := 1, saveSelf := 0, setSelf := 1,
             setDeep := [], tag := 0, stepCalls := 1, saveOut := 1, saveIn := 0, setCalls := 0 } 1 none []
      [.node { name := "b", hasI := true, hasHist := false, hasInterval := false, stepSelf := 1, saveSelf := 0, setSelf := 1,
               setDeep := [], tag := 0, stepCalls := 1, saveOut := 1, saveIn := 0, setCalls := 1 } 1 none [] []]]

theorem C19_setAt_needs_clean_counterexample :
    wfSet 1 [] uncleanTree = true ∧ setClean uncleanTree = false ∧
    (nodes (setT 1 [] (some 2) (setAtT 1 (some 5) uncleanTree))).map (fun x => x.2.2.1) = [some 2, some 2, some 5] ∧
    (nodes (setT 1 [] (some 2) uncleanTree)).map (fun x => x.2.2.1) = [some 2, some 2, none] := by
  decide

/-- any run of nested writes in front of a top-level set, on an arbitrary tree -/
theorem set_absorbs_writes_tree (order : List Phase) (v : Option Nat) :
    ∀ (ps : List Op) (t : Tree), wfSet 1 [] t = true → setClean t = true →
      (∀ o ∈ ps, isNestedWrite o = true) →
      runR order (ps ++ [.set v]) t = runR order [.set v] t
  | [], _, _, _, _ => rfl
  | o :: ps, t, hw, hc, hp => by
    have hps : ∀ o ∈ ps, isNestedWrite o = true := fun o ho => hp o (List.mem_cons_of_mem _ ho)
    have ho := hp o (List.mem_cons_self ..)
    have hset : ∀ t : Tree, runR order [.set v] t = .ok (setT 1 [] v t) := fun _ => rfl
    cases o with
    | poke k w =>
      have e := static_congr (skel_pokeT k w t)
      have ih := set_absorbs_writes_tree order v ps (pokeT k w t) (by rw [e.2.2.1]; exact hw)
        (by rw [e.2.2.2.2]; exact hc) hps
      simp only [List.cons_append, runR, opR, Res.bind] at ih ⊢
      rw [ih, setT_absorbs_pokeT v w k t 1 [] hw]
    | setAt k w =>
      have e := static_congr (skel_setAtT k w t)
      have ih := set_absorbs_writes_tree order v ps (setAtT k w t) (by rw [e.2.2.1]; exact hw)
        (by rw [e.2.2.2.2]; exact hc) hps
      simp only [List.cons_append, runR, opR, Res.bind] at ih ⊢
      rw [ih, setT_absorbs_setAtT v w k t 1 [] hw hc]
    | set _ => cases ho
    | step => cases ho
    | stepFail => cases ho
    | walk _ _ _ => cases ho

/-! ### the new obligation on the regenerated tables -/

/-- every locomotive variant: `Locomotive::set_save_interval` (own field + the direct assignments into the
    powertrain) writes only objects that have a `save_interval` -/
theorem consistLoco_setClean (v : Variant) :
    wfSetOnly (1 * (consistLoco v).info.setCalls) (strip (consistLoco v).info.tag []) (consistLoco v) = true ∧
    everyIvT (wfSetOnly 1 []) (consistLoco v) = true := by
  cases v <;> exact ⟨by decide, by decide⟩

/-- the consist of ANY composition, under any caller -/
theorem consist_setClean (nm : String) (tag sc so si st : Nat) (vs : List Variant) :
    wfSetOnly 1 [] (consistWith nm tag sc so si st vs) = true ∧
    setClean (consistWith nm tag sc so si st vs) = true := by
  have h1 : wfSetOnly 1 [] (consistWith nm tag sc so si st vs) = true := by
    simp only [consistWith, wfSetOnly, Bool.and_eq_true]
    exact ⟨rfl, wfSetOnlyL_map _ _ _ (fun v => (consistLoco_setClean v).1) vs⟩
  refine ⟨h1, ?_⟩
  unfold setClean
  simp only [consistWith] at h1 ⊢
  exact everyIvT_node (by rw [h1]; rfl) (fun k hk => by
    obtain ⟨v, _, rfl⟩ := List.mem_map.1 hk
    exact (consistLoco_setClean v).2)

/-- **every simulation kind, every consist composition**: every setter in the tree — the simulation's, the
    consist's, each locomotive's — writes only objects that have a `save_interval` -/
theorem shape_setClean (kind : Kind) (vs : List Variant) : setClean (shape kind vs) = true := by
  cases kind
  · rw [shape_loco_eq]
    cases vs.headD .ConventionalLoco <;> decide
  · unfold setClean
    simp only [shape]
    exact everyIvT_node rfl (fun k hk => by
      kid_cases hk
      exact (consist_setClean _ _ _ _ _ _ vs).2)
  · have hc := consist_setClean "loco_con" 0 1 0 1 1 vs
    unfold setClean
    simp only [shape]
    refine everyIvT_node ?_ (fun k hk => by kid_cases hk; exact hc.2)
    rw [wfSetOnly_node (by decide) (fun k hk => by kid_cases hk; exact hc.1)]
    rfl
  · have hc := consist_setClean "loco_con" 0 1 0 1 1 vs
    unfold setClean
    simp only [shape]
    refine everyIvT_node ?_ (fun k hk => by
      kid_cases hk
      · exact hc.2
      · decide)
    rw [wfSetOnly_node (by decide) (fun k hk => by
      kid_cases hk
      · exact hc.1
      · decide)]
    rfl

/-- a STATE of the object tree of simulation `kind` with composition `vs`: any tree with the same static
    part (same objects, same call tables), whatever its counters, intervals and histories are -/
def StateOf (kind : Kind) (vs : List Variant) (t : Tree) : Prop := skel t = skel (shape kind vs)

theorem stateOf_tables {kind : Kind} {vs : List Variant} {t : Tree} (h : StateOf kind vs t) :
    WF t ∧ setClean t = true := by
  have e := static_congr h
  obtain ⟨w, _, _⟩ := shape_wf kind vs
  exact ⟨⟨by rw [e.1]; exact w.1, by rw [e.2.1]; exact w.2.1, by rw [e.2.2.1]; exact w.2.2⟩,
    by rw [e.2.2.2.2]; exact shape_setClean kind vs⟩

/-- what `new` builds, and everything a script makes of it, is a state of the shape -/
theorem stateOf_new (kind : Kind) (vs : List Variant) (n : Option Nat) :
    StateOf kind vs (newT (newProg kind) n (shape kind vs)) := by
  rw [new_is_cascade]
  exact skel_setT 1 [] n _

/-- **C19, the top-level setter reaches every nested object whatever it held before.**  For every
    simulation kind, every consist composition and EVERY state of that object tree (any counters, any
    histories, any — also non-uniform — intervals): after any run of raw writes to nested `save_interval`
    fields and of calls of nested objects' own setters, `set_save_interval(v)` at the top level gives
    EXACTLY the tree that `set_save_interval(v)` alone gives. -/
def C19_set_absorbs_poke_statement : Prop :=
  ∀ (kind : Kind) (vs : List Variant) (t : Tree), StateOf kind vs t →
    ∀ (ps : List Op) (v : Option Nat), (∀ o ∈ ps, isNestedWrite o = true) →
      runR (stepOrder kind) (ps ++ [.set v]) t = runR (stepOrder kind) [.set v] t

theorem C19_set_absorbs_poke : C19_set_absorbs_poke_statement := by
  intro kind vs t hs ps v hp
  obtain ⟨w, c⟩ := stateOf_tables hs
  exact set_absorbs_writes_tree _ v ps t w.2.2 c hp

/-- … in particular every interval in the tree is `v` afterwards -/
theorem set_after_writes_uniform (kind : Kind) (vs : List Variant) (t : Tree) (hs : StateOf kind vs t)
    (ps : List Op) (v : Option Nat) (hp : ∀ o ∈ ps, isNestedWrite o = true) :
    ∃ t', runR (stepOrder kind) (ps ++ [.set v]) t = .ok t' ∧ AllT (PV v) t' := by
  rw [C19_set_absorbs_poke kind vs t hs ps v hp]
  exact ⟨_, rfl, setT_PV v t 1 [] (stateOf_tables hs).1.2.2⟩

/-! ### scripts with nested writes -/

/-- The script checker.  The flag means "some interval may differ from the others (a nested write has not
    yet been followed by a top-level set), or the common interval is `Some 0`": in that state only further
    interval writes and failing steps (which change nothing) are admitted, and the script must not end.
    `set v` with `v ≠ Some 0` clears the flag. -/
def scriptOkFrom : Bool → List Op → Bool
  | dirty, [] => !dirty
  | _, .set v :: os => scriptOkFrom (v == some 0) os
  | _, .poke _ _ :: os => scriptOkFrom true os
  | _, .setAt _ _ :: os => scriptOkFrom true os
  | dirty, .stepFail :: os => scriptOkFrom dirty os
  | dirty, .step :: os => !dirty && scriptOkFrom false os
  | dirty, .walk _ _ _ :: os => !dirty && scriptOkFrom false os

/-- every maximal run of nested writes is followed by a top-level set before the next step / walk / the end -/
def scriptOk (ops : List Op) : Bool := scriptOkFrom false ops

theorem WF_congr {t t' : Tree} (e : skel t' = skel t) (w : WF t) : WF t' := by
  have h := static_congr e
  exact ⟨by rw [h.1]; exact w.1, by rw [h.2.1]; exact w.2.1, by rw [h.2.2.1]; exact w.2.2⟩

theorem runR_aligned_poked : ∀ (ops : List Op) (dirty : Bool) (t : Tree) (c : Nat) (h : List Nat),
    WF t → AllT (PI c) t → AllT (PH h) t →
    (dirty = false → ∃ n, n ≠ some 0 ∧ AllT (PV n) t) →
    scriptOkFrom dirty ops = true →
    ∃ t' c' n' h', runR canonical ops t = .ok t' ∧ n' ≠ some 0 ∧ Aligned c' n' h' t'
  | [], dirty, t, c, h, _, a, d, hv, hs => by
    simp only [scriptOkFrom, Bool.not_eq_true'] at hs
    obtain ⟨n, hn, b⟩ := hv hs
    exact ⟨t, c, n, h, rfl, hn, a, b, d⟩
  | o :: os, dirty, t, c, h, w, a, d, hv, hs => by
    cases o with
    | set v =>
      simp only [scriptOkFrom] at hs
      obtain ⟨t', r⟩ := runR_aligned_poked os (v == some 0) (setT 1 [] v t) c h (WF_set v w)
        (setT_keeps (fun _ _ _ _ _ x => x) 1 [] v t a) (setT_keeps (fun _ _ _ _ _ x => x) 1 [] v t d)
        (fun e => ⟨v, fun e' => by rw [e'] at e; simp at e, setT_PV v t 1 [] w.2.2⟩) hs
      exact ⟨t', by simpa only [runR, opR, Res.bind] using r⟩
    | poke k x =>
      simp only [scriptOkFrom] at hs
      obtain ⟨t', r⟩ := runR_aligned_poked os true (pokeT k x t) c h (WF_congr (skel_pokeT k x t) w)
        (pokeT_keeps (fun _ _ _ _ _ y => y) k x t a) (pokeT_keeps (fun _ _ _ _ _ y => y) k x t d)
        (fun e => by cases e) hs
      exact ⟨t', by simpa only [runR, opR, Res.bind] using r⟩
    | setAt k x =>
      simp only [scriptOkFrom] at hs
      obtain ⟨t', r⟩ := runR_aligned_poked os true (setAtT k x t) c h (WF_congr (skel_setAtT k x t) w)
        (setAtT_keeps (fun _ _ _ _ _ y => y) k x t a) (setAtT_keeps (fun _ _ _ _ _ y => y) k x t d)
        (fun e => by cases e) hs
      exact ⟨t', by simpa only [runR, opR, Res.bind] using r⟩
    | stepFail =>
      simp only [scriptOkFrom] at hs
      obtain ⟨t', r⟩ := runR_aligned_poked os dirty t c h w a d hv hs
      exact ⟨t', by simpa only [runR, opR, C19_failing_step_changes_nothing t, Res.bind] using r⟩
    | step =>
      simp only [scriptOkFrom, Bool.and_eq_true, Bool.not_eq_true'] at hs
      obtain ⟨n, hn, b⟩ := hv hs.1
      obtain ⟨e, a', w'⟩ := iterOk_canonical t c n h w hn ⟨a, b, d⟩
      obtain ⟨t', r⟩ := runR_aligned_poked os false _ _ _ w' a'.1 a'.2.2 (fun _ => ⟨n, hn, a'.2.1⟩) hs.2
      exact ⟨t', by simpa only [runR, opR, e, Res.bind] using r⟩
    | walk s k f =>
      simp only [scriptOkFrom, Bool.and_eq_true, Bool.not_eq_true'] at hs
      obtain ⟨n, hn, b⟩ := hv hs.1
      obtain ⟨t1, h1, e1, a1, w1⟩ := savesR_aligned s t c n h w hn ⟨a, b, d⟩
      obtain ⟨t2, e2, a2, w2⟩ := stepsR_canonical k t1 c n h1 w1 hn a1
      obtain ⟨t', r⟩ := runR_aligned_poked os false t2 _ _ w2 a2.1 a2.2.2 (fun _ => ⟨n, hn, a2.2.1⟩) hs.2
      refine ⟨t', ?_⟩
      have : opR canonical t (.walk s k f) = .ok t2 := by
        simp only [opR, walkR, e1, Res.bind, e2]
        cases f
        · rfl
        · exact C19_failing_step_changes_nothing t2
      simpa only [runR, this, Res.bind] using r

/-- **C19, any usage, including writes to nested intervals.**  Any script on a simulation of any kind and
    composition in which every maximal run of nested interval writes (`poke`, `setAt`, with ANY values,
    `Some 0` included) is followed by a top-level `set_save_interval(v)`, `v ≠ Some 0`, before the next
    `step` / `walk` and before the end, never panics and leaves the whole tree aligned.  A constructor
    interval `Some 0` is admitted when the script repairs it by a top-level set before stepping (the
    checker starts with the flag raised). -/
def C19_any_script_aligned_poked_statement : Prop :=
  ∀ (kind : Kind) (vs : List Variant) (n : Option Nat) (ops : List Op),
    scriptOkFrom (n == some 0) ops = true →   -- forced: `C19_poke_without_set_counterexample`
    ∃ t' c' n' h', runR (stepOrder kind) ops (newT (newProg kind) n (shape kind vs)) = .ok t' ∧
      Aligned c' n' h' t'

theorem C19_any_script_aligned_poked : C19_any_script_aligned_poked_statement := by
  intro kind vs n ops hs
  obtain ⟨a, w⟩ := new_aligned kind vs n
  rw [drivers_canonical.1 kind]
  obtain ⟨t', c', n', h', r, _, al⟩ := runR_aligned_poked ops (n == some 0) _ 1 [] w a.1 a.2.2
    (fun e => ⟨n, fun e' => by rw [e'] at e; simp at e, a.2.1⟩) hs
  exact ⟨t', c', n', h', r, al⟩

/-- it generalises `C19_any_script_aligned`: a script of admitted plain ops passes the checker -/
theorem scriptOk_of_opOk : ∀ ops : List Op, (∀ o ∈ ops, opOk o) → scriptOk ops = true
  | [], _ => rfl
  | o :: os, hok => by
    have ih := scriptOk_of_opOk os (fun o ho => hok o (List.mem_cons_of_mem _ ho))
    have ho := hok o (List.mem_cons_self ..)
    unfold scriptOk at ih ⊢
    cases o with
    | set v =>
      have : (v == some 0) = false := by
        cases hv : v == some 0
        · rfl
        · exact absurd (by simpa using hv) ho
      simp only [scriptOkFrom, this]; exact ih
    | poke _ _ => exact absurd ho id
    | setAt _ _ => exact absurd ho id
    | stepFail => simpa only [scriptOkFrom] using ih
    | step => simpa only [scriptOkFrom, Bool.not_false, Bool.true_and] using ih
    | walk _ _ _ => simpa only [scriptOkFrom, Bool.not_false, Bool.true_and] using ih

/-- The checker's demand is forced: a component given its own interval and NOT followed by a top-level set
    records rows the rest of the tree does not (consist simulation, interval 1, `fc.save_interval = None`,
    one step). -/
theorem C19_poke_without_set_counterexample :
    scriptOk [.poke 2 none, .step] = false ∧
    cols (runR (stepOrder .consist) [.poke 2 none, .step]
      (newT (newProg .consist) (some 1) (shape .consist [.ConventionalLoco])))
      = [[1], [1], [], [1], [1]] := by
  decide +kernel

/-! ## non-vacuity: the statements instantiated on concrete simulations -/

/-- speed-limited train, consist [conventional, battery, hybrid], interval 3, 7 steps then an error:
    15 histories, each `[3, 6]` -/
example :
    cols (walkR (stepOrder .speedLimit) (walkInitSaves .speedLimit) 7 true
      (newT (newProg .speedLimit) (some 3) (shape .speedLimit [.ConventionalLoco, .BatteryElectricLoco, .HybridLoco])))
      = List.replicate 15 [3, 6] := by decide +kernel

/-- locomotive simulation, interval 1, 4 steps: the initial row and steps 1..4 -/
example :
    cols (walkR (stepOrder .loco) (walkInitSaves .loco) 4 false (newT (newProg .loco) (some 1) (shape .loco [.ConventionalLoco])))
      = List.replicate 4 [1, 1, 2, 3, 4] := by decide +kernel

example : expectedRows (some 1) 4 = [1, 1, 2, 3, 4] ∧ expectedRows (some 3) 7 = [3, 6] ∧ expectedRows none 9 = [] := by decide +kernel

/-- a script with an interval change in the middle keeps 9 histories equal -/
example :
    cols (runR (stepOrder .setSpeed) [.step, .step, .set (some 2), .stepFail, .step, .walk 1 3 true]
      (newT (newProg .setSpeed) (some 7) (shape .setSpeed [.BatteryElectricLoco, .DummyLoco])))
      = List.replicate 6 [4, 4, 6] := by decide +kernel

/-- the hypotheses of the Part A theorems (`wfStep`, `wfSave false`, `wfSet 1 []`, `Aligned`) hold of a
    concrete generated shape as its constructor leaves it -/
example : WF (shape .speedLimit [.ConventionalLoco, .HybridLoco]) := ⟨by decide, by decide, by decide⟩
example : Aligned 1 (some 3) [] (newT (newProg .speedLimit) (some 3) (shape .speedLimit [.ConventionalLoco, .HybridLoco])) :=
  (new_aligned .speedLimit [.ConventionalLoco, .HybridLoco] (some 3)).1

/-- `Some(0)`: the model says panic, as the real code does -/
example : (match walkR (stepOrder .consist) (walkInitSaves .consist) 3 false
      (newT (newProg .consist) (some 0) (shape .consist [.BatteryElectricLoco])) with
    | .panic _ => true | _ => false) = true := by decide +kernel

/-- Part D on a concrete consist simulation [conventional, battery]: 8 objects with an interval
    (consist, loco 0, fc, gen, edrv, loco 1, res, edrv).  `gen.save_interval = Some 5`, then loco 1's own
    setter with `None`: the tree is non-uniform; the top-level set with the value the consist ALREADY holds
    (3) makes it uniform again, and it is exactly the tree the set alone gives. -/
example :
    ivPaths (shape .consist [.ConventionalLoco, .BatteryElectricLoco]) =
      ["ConsistSimulation.loco_con#0", "ConsistSimulation.loco_con#0.loco_vec#0",
       "ConsistSimulation.loco_con#0.loco_vec#0.loco_type#0.ConventionalLoco#0.fc#0",
       "ConsistSimulation.loco_con#0.loco_vec#0.loco_type#0.ConventionalLoco#0.gen#1",
       "ConsistSimulation.loco_con#0.loco_vec#0.loco_type#0.ConventionalLoco#0.edrv#2",
       "ConsistSimulation.loco_con#0.loco_vec#1",
       "ConsistSimulation.loco_con#0.loco_vec#1.loco_type#0.BatteryElectricLoco#0.res#0",
       "ConsistSimulation.loco_con#0.loco_vec#1.loco_type#0.BatteryElectricLoco#0.edrv#1"] ∧
    ivs (runR (stepOrder .consist) [.step, .poke 3 (some 5), .setAt 5 none]
      (newT (newProg .consist) (some 3) (shape .consist [.ConventionalLoco, .BatteryElectricLoco])))
      = [some 3, some 3, some 3, some 5, some 3, none, none, none] ∧
    ivs (runR (stepOrder .consist) [.step, .poke 3 (some 5), .setAt 5 none, .set (some 3)]
      (newT (newProg .consist) (some 3) (shape .consist [.ConventionalLoco, .BatteryElectricLoco])))
      = List.replicate 8 (some 3) ∧
    dump' (runR (stepOrder .consist) [.step, .poke 3 (some 5), .setAt 5 none, .set (some 3)]
      (newT (newProg .consist) (some 3) (shape .consist [.ConventionalLoco, .BatteryElectricLoco])))
      = dump' (runR (stepOrder .consist) [.step, .set (some 3)]
      (newT (newProg .consist) (some 3) (shape .consist [.ConventionalLoco, .BatteryElectricLoco]))) := by
  decide +kernel

/-- the hypotheses of `C19_set_absorbs_poke` and of `C19_any_script_aligned_poked` on a concrete
    speed-limited simulation: the constructed object is a state of its shape, the writes are nested writes,
    the script passes the checker — and the histories stay equal through poke → set → steps -/
example : StateOf .speedLimit [.HybridLoco, .ConventionalLoco]
    (newT (newProg .speedLimit) (some 2) (shape .speedLimit [.HybridLoco, .ConventionalLoco])) :=
  stateOf_new _ _ _
example : ∀ o ∈ [Op.setAt 1 (some 0), Op.poke 4 (some 9), Op.poke 11 none], isNestedWrite o = true := by decide
/-- the table hypotheses of the Part D tree theorems (`wfSet 1 []`, `setClean`) on a concrete generated shape -/
example : wfSet 1 [] (shape .speedLimit [.ConventionalLoco, .HybridLoco]) = true ∧
    setClean (shape .speedLimit [.ConventionalLoco, .HybridLoco]) = true := by decide
example : scriptOk [.step, .setAt 1 (some 0), .poke 4 (some 9), .poke 11 none, .set (some 2), .step, .walk 1 3 false] = true := by
  decide
example :
    ivs (runR (stepOrder .speedLimit) [.step, .setAt 1 (some 0), .poke 4 (some 9), .poke 11 none]
      (newT (newProg .speedLimit) (some 2) (shape .speedLimit [.HybridLoco, .ConventionalLoco])))
      = [some 2, some 0, some 0, some 0, some 9, some 0, some 0, some 0, some 0, some 0, some 0, none] ∧
    cols (runR (stepOrder .speedLimit) [.step, .setAt 1 (some 0), .poke 4 (some 9), .poke 11 none, .set (some 2), .step, .walk 1 3 false]
      (newT (newProg .speedLimit) (some 2) (shape .speedLimit [.HybridLoco, .ConventionalLoco])))
      = List.replicate 12 [2, 4] := by
  decide +kernel

/-- a constructor interval `Some 0` repaired by a top-level set before the first step -/
example : scriptOkFrom (some 0 == some 0) [.set (some 1), .step, .step] = true ∧
    cols (runR (stepOrder .loco) [.set (some 1), .step, .step]
      (newT (newProg .loco) (some 0) (shape .loco [.BatteryElectricLoco]))) = List.replicate 3 [1, 2] := by
  decide +kernel

end Altrios.Proofs.C19
