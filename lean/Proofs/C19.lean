import Altrios.History
import Generated.HistoryTree
import Proofs.Lemmas.Hist
/-
  C19 — histories and step counters stay aligned through the whole object tree.

  Model: `Altrios/History.lean` (rose tree; `stepT`, `saveT`, `setT`, the simulation drivers).
  Shapes: `Generated/HistoryTree.lean`, REGENERATED from the Rust sources on every check by
  `/verif/scan/scan_history.py` (which structs have `state` / `history` / `save_interval`, what
  `derive(HistoryMethods)` generates, the callees of the hand-written `step` / `save_state` /
  `set_save_interval` bodies and whether each call sits inside the interval gate, the phase order of the
  simulations' `step()`, the `save_state()` in front of the `walk…` loops, what `new` does).

  Part A: theorems about ARBITRARY trees, assuming only the decidable well-formedness of the call tables.
  Part B: the obligations on the regenerated tables, discharged by `decide` / `cases … <;> decide`
          (these are what breaks when a component is not added to a cascade, a step is called twice, …).
  Part C: the four simulation drivers, for every kind, every consist composition, every interval
          `None | Some n (n ≥ 1)`, every number of executed steps, with and without a final failing step,
          and every script of user operations (manual steps, failing steps, interval changes, walks).

  What the code does (and the theorems state precisely): all counters start at 1; the row written after
  executed step `j` carries `i = j`; `walk` saves once before the loop, which records the initial state
  (with `i = 1`) exactly when `1 % n = 0`, i.e. `n = 1`.  So after `k` executed steps every history has the
  i-column  `(if n = 1 then [1] else []) ++ [j ∈ 1..k | j % n = 0]`  of length `(if n = 1 then 1 else 0) + k / n`
  — which is the count formula of the property.  `Some(0)` makes the first reached gate panic (`i % 0`).
-/
namespace Altrios.Proofs.C19
open Altrios Altrios.Hist Altrios.Proofs.HistL
open Generated.HistoryTree

/-! ## Part A — arbitrary trees -/

/-- the three call tables of a tree are well-formed -/
def WF (t : Tree) : Prop := wfStep t = true ∧ wfSave false t = true ∧ wfSet 1 [] t = true

/-- `step()` of the root keeps the tree aligned and advances every counter by one -/
def C19_step_preserves_aligned_statement : Prop :=
  ∀ (t : Tree) (c : Nat) (n : Option Nat) (h : List Nat),
    wfStep t = true →          -- forced: a counter incremented twice / not at all breaks equality
    Aligned c n h t → Aligned (c + 1) n h (stepT 1 t)

theorem C19_step_preserves_aligned : C19_step_preserves_aligned_statement := by
  intro t c n h w ⟨a, b, d⟩
  exact ⟨stepT_PI c t w a, stepT_keeps (fun _ _ _ _ _ x => x) 1 t b, stepT_keeps (fun _ _ _ _ _ x => x) 1 t d⟩

/-- `save_state()` of the root keeps the tree aligned: every history gets the row `c` when
    `c % n = 0` and no row otherwise — whether nested objects are saved inside the caller's gate
    (derive, Consist, the train simulations) or outside it (Locomotive → powertrain) -/
def C19_save_preserves_aligned_statement : Prop :=
  ∀ (t : Tree) (c : Nat) (n : Option Nat) (h : List Nat),
    wfSave false t = true →    -- forced: a history pushed twice / not reached / not under any gate
    Aligned c n h t →          -- forced: see `C19_unaligned_intervals_counterexample`
    Aligned c n (h ++ if gateOpen n c then [c] else []) (saveT 1 t)

theorem C19_save_preserves_aligned : C19_save_preserves_aligned_statement := by
  intro t c n h w ⟨a, b, d⟩
  refine ⟨saveT_keeps (fun _ _ _ _ _ x => x) 1 t a, saveT_keeps (fun _ _ _ _ _ x => x) 1 t b, ?_⟩
  have := saveT_PH c n h t false w a b d
  simpa [mu] using this

/-- … and it does not panic unless the interval is `Some(0)` -/
theorem saveR_ok (t : Tree) (c : Nat) (n : Option Nat) (h : List Nat) (hn : n ≠ some 0)
    (ha : Aligned c n h t) : saveR 1 t = .ok (saveT 1 t) := by
  unfold saveR
  rw [savePanics_false n hn 1 t ha.2.1]
  rfl

/-- `set_save_interval(v)` at the top reaches every nested object, whatever the intervals were before,
    and changes nothing else -/
def C19_set_interval_reaches_all_statement : Prop :=
  ∀ (t : Tree) (v : Option Nat),
    wfSet 1 [] t = true →      -- forced: a `save_interval` the cascade does not write keeps its old value
    AllT (PV v) (setT 1 [] v t) ∧
    ∀ c n h, Aligned c n h t → Aligned c v h (setT 1 [] v t)

theorem C19_set_interval_reaches_all : C19_set_interval_reaches_all_statement := by
  intro t v w
  refine ⟨setT_PV v t 1 [] w, fun c n h ⟨a, _, d⟩ => ⟨?_, setT_PV v t 1 [] w, ?_⟩⟩
  · exact setT_keeps (fun _ _ _ _ _ x => x) 1 [] v t a
  · exact setT_keeps (fun _ _ _ _ _ x => x) 1 [] v t d

/-- reading of `Aligned`: any two histories are equal lists of step indices (same length, row k = same
    step), any two counters are equal, any two intervals are equal -/
theorem aligned_pairwise {c : Nat} {n : Option Nat} {h : List Nat} {t : Tree} (ha : Aligned c n h t) :
    ∀ x ∈ nodes t, ∀ y ∈ nodes t,
      (x.1.hasI = true → y.1.hasI = true → x.2.1 = y.2.1) ∧
      (x.1.hasInterval = true → y.1.hasInterval = true → x.2.2.1 = y.2.2.1) ∧
      (x.1.hasHist = true → y.1.hasHist = true → x.2.2.2 = y.2.2.2 ∧ x.2.2.2.length = y.2.2.2.length) := by
  intro x hx y hy
  have a := (AllT_iff (PI c) t).1 ha.1
  have b := (AllT_iff (PV n) t).1 ha.2.1
  have d := (AllT_iff (PH h) t).1 ha.2.2
  refine ⟨fun p q => (a x hx p).trans (a y hy q).symm, fun p q => (b x hx p).trans (b y hy q).symm, fun p q => ?_⟩
  have e : x.2.2.2 = y.2.2.2 := (d x hx p).trans (d y hy q).symm
  exact ⟨e, by rw [e]⟩

/-- The alignment hypothesis on the intervals is forced.  A locomotive whose own interval is `Some 1`
    while its components have `None` (this is what `Locomotive::default()` is; every `…::new` repairs it
    by cascading the interval) records rows that its components do not. -/
def misaligned : Tree := assignRoot (some 1) (consistLoco .ConventionalLoco)

theorem C19_unaligned_intervals_counterexample :
    wfSave false misaligned = true ∧
    -- (has a history?, interval, i-column) of every node after ONE `save_state()` at i = 1
    (nodes (saveT 1 misaligned)).map (fun x => (x.1.hasHist, x.2.2.1, x.2.2.2)) =
      [(true, some 1, [1]), (false, none, []), (false, none, []),
       (true, none, []), (true, none, []), (true, none, [])] := by
  decide

/-! ## Part B — obligations on the regenerated tables -/

/-- the scanner understood every shape it met -/
theorem scan_ok : scanOk = true := by decide

/-- every locomotive variant, as an element of a consist: each counter stepped once, each history saved
    once under a gate, each `save_interval` written by `Locomotive::set_save_interval` -/
theorem consistLoco_wf (v : Variant) :
    (((consistLoco v).info.stepCalls == 1 && wfStep (consistLoco v)) || !anyI (consistLoco v)) = true ∧
    (∀ g, (((consistLoco v).info.saveOut == 1 && (consistLoco v).info.saveIn == 0 && wfSave g (consistLoco v))
      || (true && (consistLoco v).info.saveOut == 0 && (consistLoco v).info.saveIn == 1 && wfSave true (consistLoco v))
      || !anyHist (consistLoco v)) = true) ∧
    wfSet (1 * (consistLoco v).info.setCalls) (strip (consistLoco v).info.tag []) (consistLoco v) = true ∧
    freshB 1 (consistLoco v) = true := by
  cases v <;> refine ⟨by decide, fun g => by cases g <;> decide, by decide, by decide⟩

/-- the consist of ANY composition, under any caller -/
theorem consist_wf (nm : String) (tag sc so si st : Nat) (vs : List Variant) :
    wfStep (consistWith nm tag sc so si st vs) = true ∧
    (∀ g, wfSave g (consistWith nm tag sc so si st vs) = true) ∧
    (wfSet 1 [] (consistWith nm tag sc so si st vs) = true) ∧
    (AllT (PI 1) (consistWith nm tag sc so si st vs) ∧ AllT (PH []) (consistWith nm tag sc so si st vs)) := by
  refine ⟨?_, fun g => ?_, ?_, ?_, ?_⟩
  · simp only [consistWith, wfStep, Bool.and_eq_true]
    exact ⟨rfl, wfStepL_map _ (fun v => (consistLoco_wf v).1) vs⟩
  · simp only [consistWith, wfSave]
    rw [Bool.and_eq_true]
    refine ⟨by cases g <;> rfl, ?_⟩
    cases g
    · exact wfSaveL_map _ _ _ _ (fun v => by simpa using (consistLoco_wf v).2.1 false) vs
    · exact wfSaveL_map _ _ _ _ (fun v => by simpa using (consistLoco_wf v).2.1 true) vs
  · simp only [consistWith, wfSet, Bool.and_eq_true]
    exact ⟨rfl, wfSetL_map _ _ _ (fun v => (consistLoco_wf v).2.2.1) vs⟩
  · simp only [consistWith, AllT]
    exact ⟨fun _ => rfl, AllL_map _ _ (fun v => (freshB_sound 1 _ (consistLoco_wf v).2.2.2).1) vs⟩
  · simp only [consistWith, AllT]
    exact ⟨fun _ => rfl, AllL_map _ _ (fun v => (freshB_sound 1 _ (consistLoco_wf v).2.2.2).2) vs⟩

/-- the standalone locomotive of the locomotive simulation -/
theorem locoSim_wf (v : Variant) :
    WF (shape .loco [v]) ∧ freshB 1 (shape .loco [v]) = true := by
  cases v <;> exact ⟨⟨by decide, by decide, by decide⟩, by decide⟩

theorem shape_loco_eq (vs : List Variant) : shape .loco vs = shape .loco [vs.headD .ConventionalLoco] := by
  cases vs <;> rfl

/-- splits `k ∈ [a]` / `k ∈ [a, b]` into the cases `k = a`, `k = b` -/
macro "kid_cases " h:ident : tactic =>
  `(tactic| (simp only [List.mem_cons, List.not_mem_nil, or_false] at $h:ident
             first
               | subst $h:ident
               | (rcases $h:ident with h1 | h1 <;> subst h1)))

/-- **every simulation kind, every consist composition**: the call tables are well-formed and the fresh
    object has all counters at 1 and no rows -/
theorem shape_wf (kind : Kind) (vs : List Variant) :
    WF (shape kind vs) ∧ AllT (PI 1) (shape kind vs) ∧ AllT (PH []) (shape kind vs) := by
  cases kind
  · rw [shape_loco_eq]
    have h := locoSim_wf (vs.headD .ConventionalLoco)
    exact ⟨h.1, freshB_sound 1 _ h.2⟩
  all_goals
    simp only [shape]
    refine ⟨⟨wfStep_node (by decide) ?_, wfSave_node (by decide) ?_, wfSet_node (by decide) ?_⟩,
      AllT_node (fun _ => rfl) ?_, AllT_node (fun _ => rfl) ?_⟩
    · intro k hk
      kid_cases hk
      all_goals first
        | exact Or.inl ⟨rfl, (consist_wf _ _ _ _ _ _ vs).1⟩
        | exact Or.inl ⟨rfl, by decide⟩
    · intro k hk
      kid_cases hk
      all_goals first
        | exact Or.inl ⟨rfl, rfl, (consist_wf _ _ _ _ _ _ vs).2.1 _⟩
        | exact Or.inr (Or.inl ⟨rfl, rfl, rfl, (consist_wf _ _ _ _ _ _ vs).2.1 _⟩)
        | exact Or.inl ⟨rfl, rfl, by decide⟩
        | exact Or.inr (Or.inl ⟨rfl, rfl, rfl, by decide⟩)
    · intro k hk
      kid_cases hk
      all_goals first
        | exact (consist_wf _ _ _ _ _ _ vs).2.2.1
        | decide
    · intro k hk
      kid_cases hk
      all_goals first
        | exact (consist_wf _ _ _ _ _ _ vs).2.2.2.1
        | exact (freshB_sound 1 _ (by decide)).1
    · intro k hk
      kid_cases hk
      all_goals first
        | exact (consist_wf _ _ _ _ _ _ vs).2.2.2.2
        | exact (freshB_sound 1 _ (by decide)).2

/-- every simulation's `step()` is  solve → save → advance,  and every `walk…` saves exactly once in
    front of its loop -/
theorem drivers_canonical :
    (∀ kind, stepOrder kind = [.solve, .save, .advance]) ∧
    (∀ kind, walkInitSaves kind = 1) ∧
    timedInitSaves .speedLimit = some 1 := by
  refine ⟨fun k => by cases k <;> decide, fun k => by cases k <;> decide, by decide⟩

/-- `SpeedLimitTrainSimVec::set_save_interval` forwards to every element exactly once -/
theorem sim_vec_forwards : simVecSetCalls = 1 := by decide

/-- every constructor `…::new(…, save_interval)` leaves the object exactly as a top-level
    `set_save_interval(save_interval)` on the fresh shape does (it cascades to every nested object) -/
theorem new_is_cascade (kind : Kind) (vs : List Variant) (n : Option Nat) :
    newT (newProg kind) n (shape kind vs) = setT 1 [] n (shape kind vs) := by
  cases kind <;> rfl

/-- `save_interval = Some(0)`: the first `save_state()` of every kind of simulation reaches a gate that
    computes `i % 0` — a panic (outside the property's "None, 1, n") -/
theorem zero_interval_panics (kind : Kind) (vs : List Variant) (k : Nat) (fail : Bool) :
    walkR (stepOrder kind) (walkInitSaves kind) k fail (newT (newProg kind) (some 0) (shape kind vs))
      = .panic "remainder by zero" := by
  have h : savePanics 1 (newT (newProg kind) (some 0) (shape kind vs)) = true := by cases kind <;> rfl
  rw [drivers_canonical.2.1 kind]
  simp only [walkR, savesR, Res.bind, saveR, h, if_true]

/-! ## Part C — the drivers -/

/-- solve → save → advance -/
def canonical : List Phase := [.solve, .save, .advance]

theorem WF_step {t : Tree} (w : WF t) : WF (stepT 1 t) := by
  have h := stepT_static 1 t
  exact ⟨by rw [h.1]; exact w.1, by rw [h.2.1]; exact w.2.1, by rw [h.2.2.1]; exact w.2.2⟩

theorem WF_save {t : Tree} (w : WF t) : WF (saveT 1 t) := by
  have h := saveT_static 1 t
  exact ⟨by rw [h.1]; exact w.1, by rw [h.2.1]; exact w.2.1, by rw [h.2.2]; exact w.2.2⟩

theorem WF_set {t : Tree} (v : Option Nat) (w : WF t) : WF (setT 1 [] v t) := by
  have h := setT_static 1 [] v t
  exact ⟨by rw [h.1]; exact w.1, by rw [h.2.1]; exact w.2.1, by rw [h.2.2.1]; exact w.2.2⟩

/-- one successful `step()`: the row `c` is written iff `c % n = 0`, then every counter becomes `c + 1` -/
theorem iterOk_canonical (t : Tree) (c : Nat) (n : Option Nat) (h : List Nat) (w : WF t) (hn : n ≠ some 0)
    (ha : Aligned c n h t) :
    iterOk canonical t = .ok (stepT 1 (saveT 1 t)) ∧
    Aligned (c + 1) n (h ++ if gateOpen n c then [c] else []) (stepT 1 (saveT 1 t)) ∧
    WF (stepT 1 (saveT 1 t)) := by
  refine ⟨?_, ?_, WF_step (WF_save w)⟩
  · simp only [canonical, iterOk, saveR_ok t c n h hn ha, Res.bind]
  · exact C19_step_preserves_aligned _ _ _ _ (WF_save w).1 (C19_save_preserves_aligned t c n h w.2.1 ha)

/-- a `step()` whose `solve_step` fails saves nothing, advances nothing: the object is unchanged -/
def C19_failing_step_changes_nothing_statement : Prop := ∀ t : Tree, iterFail canonical t = .ok t

theorem C19_failing_step_changes_nothing : C19_failing_step_changes_nothing_statement := fun _ => rfl

theorem stepsR_canonical (k : Nat) (t : Tree) (c : Nat) (n : Option Nat) (h : List Nat) (w : WF t)
    (hn : n ≠ some 0) (ha : Aligned c n h t) :
    ∃ t', stepsR canonical k t = .ok t' ∧ Aligned (c + k) n (h ++ rows n c k) t' ∧ WF t' := by
  induction k with
  | zero => exact ⟨t, rfl, by simpa [rows] using ha, w⟩
  | succ k ih =>
    obtain ⟨t1, e1, a1, w1⟩ := ih
    obtain ⟨e2, a2, w2⟩ := iterOk_canonical t1 (c + k) n _ w1 hn a1
    refine ⟨_, by simp only [stepsR, e1, Res.bind, e2], ?_, w2⟩
    rw [rows_succ, ← List.append_assoc]
    exact a2

theorem savesR_aligned (s : Nat) (t : Tree) (c : Nat) (n : Option Nat) (h : List Nat) (w : WF t)
    (hn : n ≠ some 0) (ha : Aligned c n h t) :
    ∃ t' h', savesR s t = .ok t' ∧ Aligned c n h' t' ∧ WF t' := by
  induction s with
  | zero => exact ⟨t, h, rfl, ha, w⟩
  | succ s ih =>
    obtain ⟨t1, h1, e1, a1, w1⟩ := ih
    exact ⟨_, _, by simp only [savesR, e1, Res.bind, saveR_ok t1 c n h1 hn a1],
      C19_save_preserves_aligned t1 c n h1 w1.2.1 a1, WF_save w1⟩

/-- `walk` from an aligned object whose counters are `c`: one initial save, `k` good steps, then
    possibly one failing step -/
theorem walkR_canonical (k : Nat) (fail : Bool) (t : Tree) (c : Nat) (n : Option Nat) (h : List Nat)
    (w : WF t) (hn : n ≠ some 0) (ha : Aligned c n h t) :
    ∃ t', walkR canonical 1 k fail t = .ok t' ∧
      Aligned (c + k) n (h ++ (if gateOpen n c then [c] else []) ++ rows n c k) t' ∧ WF t' := by
  have a0 := C19_save_preserves_aligned t c n h w.2.1 ha
  obtain ⟨t2, e2, a2, w2⟩ := stepsR_canonical k (saveT 1 t) c n _ (WF_save w) hn a0
  refine ⟨t2, ?_, a2, w2⟩
  simp only [walkR, savesR, Res.bind, saveR_ok t c n h hn ha, e2]
  cases fail
  · rfl
  · exact C19_failing_step_changes_nothing t2

/-- the i-column every history must have after `k` executed steps of a fresh simulation:
    the initial state (row `1`) only when every step is saved, then the executed steps `j ≤ k` with
    `j % n = 0`; the row written after executed step `j` carries `i = j` -/
def expectedRows : Option Nat → Nat → List Nat
  | none, _ => []
  | some n, k => (if n = 1 then [1] else []) ++ (List.range' 1 k).filter (fun j => j % n = 0)

theorem expectedRows_eq (n : Option Nat) (k : Nat) (hn : n ≠ some 0) :
    ([] ++ (if gateOpen n 1 then [1] else []) ++ rows n 1 k) = expectedRows n k := by
  cases n with
  | none => simp [expectedRows, rows_none, gateOpen]
  | some j =>
    have hj : j ≠ 0 := fun e => hn (by rw [e])
    rw [rows_some j 1 k hj, gateOpen_some j 1 hj]
    simp only [expectedRows, List.nil_append]
    congr 1
    by_cases h1 : j = 1
    · subst h1; simp
    · have : 1 % j ≠ 0 := by
        intro e
        have := Nat.dvd_of_mod_eq_zero e
        exact h1 (Nat.dvd_one.1 this)
      simp [h1, this]

/-- the fresh object of every kind and composition, as `new(…, n)` leaves it: aligned at counter 1, no rows -/
theorem new_aligned (kind : Kind) (vs : List Variant) (n : Option Nat) :
    Aligned 1 n [] (newT (newProg kind) n (shape kind vs)) ∧ WF (newT (newProg kind) n (shape kind vs)) := by
  rw [new_is_cascade]
  obtain ⟨w, a, d⟩ := shape_wf kind vs
  exact ⟨⟨setT_keeps (fun _ _ _ _ _ x => x) 1 [] n _ a, setT_PV n _ 1 [] w.2.2,
    setT_keeps (fun _ _ _ _ _ x => x) 1 [] n _ d⟩, WF_set n w⟩

/-- **C19, walks.**  For every simulation kind (locomotive, consist, set-speed, speed-limited), every
    consist composition, every interval `None | Some n` with `n ≥ 1`, every number `k` of executed steps,
    whether or not the walk then ends with an error: the walk does not panic and afterwards every step
    counter in the tree is `k + 1`, every `save_interval` is the one given to the constructor, and every
    history has exactly the i-column `expectedRows n k`. -/
def C19_walk_statement : Prop :=
  ∀ (kind : Kind) (vs : List Variant) (n : Option Nat) (k : Nat) (fail : Bool),
    n ≠ some 0 →    -- forced: `zero_interval_panics`
    ∃ t', walkR (stepOrder kind) (walkInitSaves kind) k fail (newT (newProg kind) n (shape kind vs)) = .ok t' ∧
      Aligned (k + 1) n (expectedRows n k) t'

theorem C19_walk : C19_walk_statement := by
  intro kind vs n k fail hn
  obtain ⟨a, w⟩ := new_aligned kind vs n
  obtain ⟨t', e, a', _⟩ := walkR_canonical k fail _ 1 n [] w hn a
  refine ⟨t', ?_, ?_⟩
  · rw [drivers_canonical.1 kind, drivers_canonical.2.1 kind]; exact e
  · rw [expectedRows_eq n k hn, Nat.add_comm] at a'; exact a'

/-- the same for `SpeedLimitTrainSim::walk_timed_path` -/
def C19_walk_timed_path_statement : Prop :=
  ∀ (vs : List Variant) (n : Option Nat) (k : Nat) (fail : Bool), n ≠ some 0 →
    ∃ s t', timedInitSaves .speedLimit = some s ∧
      walkR (stepOrder .speedLimit) s k fail (newT (newProg .speedLimit) n (shape .speedLimit vs)) = .ok t' ∧
      Aligned (k + 1) n (expectedRows n k) t'

theorem C19_walk_timed_path : C19_walk_timed_path_statement := by
  intro vs n k fail hn
  obtain ⟨a, w⟩ := new_aligned .speedLimit vs n
  obtain ⟨t', e, a', _⟩ := walkR_canonical k fail _ 1 n [] w hn a
  refine ⟨1, t', drivers_canonical.2.2, ?_, ?_⟩
  · rw [drivers_canonical.1 .speedLimit]; exact e
  · rw [expectedRows_eq n k hn, Nat.add_comm] at a'; exact a'

/-- **the count formula of the property**: number of rows = number of executed steps whose index is a
    multiple of the interval, plus the initial state when every step is saved; nothing with `None` -/
def C19_row_count_statement : Prop :=
  (∀ k, (expectedRows none k).length = 0) ∧
  (∀ n k, 0 < n → (expectedRows (some n) k).length = (if n = 1 then 1 else 0) + k / n)

theorem C19_row_count : C19_row_count_statement := by
  refine ⟨fun _ => rfl, fun n k hn => ?_⟩
  simp only [expectedRows, List.length_append, count_multiples n k hn]
  split <;> rfl

theorem walkR_fail_eq (s k : Nat) (t : Tree) : walkR canonical s k true t = walkR canonical s k false t := by
  simp only [walkR]
  cases savesR s t with
  | ok t3 =>
    simp only [Res.bind]
    cases stepsR canonical k t3 with
    | ok t4 => simp only [if_true]; exact C19_failing_step_changes_nothing t4
    | err _ => rfl
    | panic _ => rfl
  | err _ => rfl
  | panic _ => rfl

/-- a walk that ends with an error after `k` executed steps leaves exactly what a complete walk of `k`
    steps leaves: the failing step saved nothing and earlier rows are intact (no hypothesis needed) -/
def C19_error_keeps_rows_statement : Prop :=
  ∀ (kind : Kind) (vs : List Variant) (n : Option Nat) (k : Nat),
    walkR (stepOrder kind) (walkInitSaves kind) k true (newT (newProg kind) n (shape kind vs)) =
    walkR (stepOrder kind) (walkInitSaves kind) k false (newT (newProg kind) n (shape kind vs))

theorem C19_error_keeps_rows : C19_error_keeps_rows_statement := by
  intro kind vs n k
  rw [drivers_canonical.1 kind]
  exact walkR_fail_eq _ k _

/-- **C19, any usage.**  Any script of user operations on a simulation of any kind and composition —
    manual `step()`s, failing `step()`s, `set_save_interval` with any value other than `Some(0)` in
    between, `walk`s with or without a final error — never panics and leaves the whole tree aligned:
    all counters equal, all intervals equal, all histories equal as lists of step indices. -/
def opOk : Op → Prop
  | .set v => v ≠ some 0
  | _ => True

theorem runR_aligned : ∀ (ops : List Op) (t : Tree) (c : Nat) (n : Option Nat) (h : List Nat),
    WF t → n ≠ some 0 → Aligned c n h t → (∀ o ∈ ops, opOk o) →
    ∃ t' c' n' h', runR canonical ops t = .ok t' ∧ Aligned c' n' h' t'
  | [], t, c, n, h, _, _, ha, _ => ⟨t, c, n, h, rfl, ha⟩
  | o :: os, t, c, n, h, w, hn, ha, hok => by
    have hos : ∀ o ∈ os, opOk o := fun o ho => hok o (List.mem_cons_of_mem _ ho)
    have ho : opOk o := hok o (List.mem_cons_self ..)
    cases o with
    | set v =>
      obtain ⟨t', r⟩ := runR_aligned os (setT 1 [] v t) c v h (WF_set v w) ho
        ((C19_set_interval_reaches_all t v w.2.2).2 c n h ha) hos
      exact ⟨t', by simpa only [runR, opR, Res.bind] using r⟩
    | step =>
      obtain ⟨e, a, w'⟩ := iterOk_canonical t c n h w hn ha
      obtain ⟨t', r⟩ := runR_aligned os _ _ n _ w' hn a hos
      exact ⟨t', by simpa only [runR, opR, e, Res.bind] using r⟩
    | stepFail =>
      obtain ⟨t', r⟩ := runR_aligned os t c n h w hn ha hos
      exact ⟨t', by simpa only [runR, opR, C19_failing_step_changes_nothing t, Res.bind] using r⟩
    | walk s k f =>
      obtain ⟨t1, h1, e1, a1, w1⟩ := savesR_aligned s t c n h w hn ha
      obtain ⟨t2, e2, a2, w2⟩ := stepsR_canonical k t1 c n h1 w1 hn a1
      obtain ⟨t', r⟩ := runR_aligned os t2 _ n _ w2 hn a2 hos
      refine ⟨t', ?_⟩
      have : opR canonical t (.walk s k f) = .ok t2 := by
        simp only [opR, walkR, e1, Res.bind, e2]
        cases f
        · rfl
        · exact C19_failing_step_changes_nothing t2
      simpa only [runR, this, Res.bind] using r

def C19_any_script_aligned_statement : Prop :=
  ∀ (kind : Kind) (vs : List Variant) (n : Option Nat) (ops : List Op),
    n ≠ some 0 → (∀ o ∈ ops, opOk o) →
    ∃ t' c' n' h', runR (stepOrder kind) ops (newT (newProg kind) n (shape kind vs)) = .ok t' ∧
      Aligned c' n' h' t'

theorem C19_any_script_aligned : C19_any_script_aligned_statement := by
  intro kind vs n ops hn hok
  obtain ⟨a, w⟩ := new_aligned kind vs n
  rw [drivers_canonical.1 kind]
  exact runR_aligned ops _ 1 n [] w hn a hok

/-! ## non-vacuity: the statements instantiated on concrete simulations -/

/-- i-columns of all histories in the tree -/
def cols (r : Res Tree) : List (List Nat) :=
  match r with
  | .ok t => (nodes t).filterMap (fun x => if x.1.hasHist then some x.2.2.2 else none)
  | _ => []

/-- speed-limited train, consist [conventional, battery, hybrid], interval 3, 7 steps then an error:
    15 histories, each `[3, 6]` -/
example :
    cols (walkR (stepOrder .speedLimit) (walkInitSaves .speedLimit) 7 true
      (newT (newProg .speedLimit) (some 3) (shape .speedLimit [.ConventionalLoco, .BatteryElectricLoco, .HybridLoco])))
      = List.replicate 15 [3, 6] := by decide +kernel

/-- locomotive simulation, interval 1, 4 steps: the initial row and steps 1..4 -/
example :
    cols (walkR (stepOrder .loco) (walkInitSaves .loco) 4 false (newT (newProg .loco) (some 1) (shape .loco [.ConventionalLoco])))
      = List.replicate 4 [1, 1, 2, 3, 4] := by decide +kernel

example : expectedRows (some 1) 4 = [1, 1, 2, 3, 4] ∧ expectedRows (some 3) 7 = [3, 6] ∧ expectedRows none 9 = [] := by decide +kernel

/-- a script with an interval change in the middle keeps 9 histories equal -/
example :
    cols (runR (stepOrder .setSpeed) [.step, .step, .set (some 2), .stepFail, .step, .walk 1 3 true]
      (newT (newProg .setSpeed) (some 7) (shape .setSpeed [.BatteryElectricLoco, .DummyLoco])))
      = List.replicate 6 [4, 4, 6] := by decide +kernel

/-- the hypotheses of the Part A theorems (`wfStep`, `wfSave false`, `wfSet 1 []`, `Aligned`) hold of a
    concrete generated shape as its constructor leaves it -/
example : WF (shape .speedLimit [.ConventionalLoco, .HybridLoco]) := ⟨by decide, by decide, by decide⟩
example : Aligned 1 (some 3) [] (newT (newProg .speedLimit) (some 3) (shape .speedLimit [.ConventionalLoco, .HybridLoco])) :=
  (new_aligned .speedLimit [.ConventionalLoco, .HybridLoco] (some 3)).1

/-- `Some(0)`: the model says panic, as the real code does -/
example : (match walkR (stepOrder .consist) (walkInitSaves .consist) 3 false
      (newT (newProg .consist) (some 0) (shape .consist [.BatteryElectricLoco])) with
    | .panic _ => true | _ => false) = true := by decide +kernel

end Altrios.Proofs.C19
