import Altrios.History
import Generated.HistoryTree
import Proofs.Lemmas.Hist
/-
  C19 — histories and step counters stay aligned through the whole object tree.

  Model: `Altrios/History.lean` (rose tree; `stepT`, `saveT`, `setT`, the simulation drivers).
  Shapes: `Generated/HistoryTree.lean`, REGENERATED from the Rust sources on every check by
  `/verif/scan/scan_history.py` (which structs have `state` / `history` / `save_interval`, what
  `derive(HistoryMethods)` generates, the callees of the hand-written `step` / `save_state` /
  `set_save_interval` bodies and whether each call sits inside the interval gate, the phase order of the
  simulations' `step()`, the `save_state()` in front of the `walk…` loops, what `new` does).

  Part A: theorems about ARBITRARY trees, assuming only the decidable well-formedness of the call tables.
  Part B: the obligations on the regenerated tables, discharged by `decide` / `cases … <;> decide`
          (these are what breaks when a component is not added to a cascade, a step is called twice, …).
  Part C: the four simulation drivers, for every kind, every consist composition, every interval
          `None | Some n (n ≥ 1)`, every number of executed steps, with and without a final failing step,
          and every script of user operations (manual steps, failing steps, interval changes, walks).

  What the code does (and the theorems state precisely): all counters start at 1; the row written after
  executed step `j` carries `i = j`; `walk` saves once before the loop, which records the initial state
  (with `i = 1`) exactly when `1 % n = 0`, i.e. `n = 1`.  So after `k` executed steps every history has the
  i-column  `(if n = 1 then [1] else []) ++ [j ∈ 1..k | j % n = 0]`  of length `(if n = 1 then 1 else 0) + k / n`
  — which is the count formula of the property.  `Some(0)` makes the first reached gate panic (`i % 0`).
-/
namespace Altrios.Proofs.C19
open Altrios Altrios.Hist Altrios.Proofs.HistL
open Generated.HistoryTree

/-! ## Part A — arbitrary trees -/

/-- the three call tables of a tree are well-formed -/
def WF (t : Tree) : Prop := wfStep t = true ∧ wfSave false t = true ∧ wfSet 1 [] t = true

/-- `step()` of the root keeps the tree aligned and advances every counter by one -/
def C19_step_preserves_aligned_statement : Prop :=
  ∀ (t : Tree) (c : Nat) (n : Option Nat) (h : List Nat),
    wfStep t = true →          -- forced: a counter incremented twice / not at all breaks equality
    Aligned c n h t → Aligned (c + 1) n h (stepT 1 t)

theorem C19_step_preserves_aligned : C19_step_preserves_aligned_statement := by
  intro t c n h w ⟨a, b, d⟩
  exact ⟨stepT_PI c t w a, stepT_keeps (fun _ _ _ _ _ x => x) 1 t b, stepT_keeps (fun _ _ _ _ _ x => x) 1 t d⟩

/-- `save_state()` of the root keeps the tree aligned: every history gets the row `c` when
    `c % n = 0` and no row otherwise — whether nested objects are saved inside the caller's gate
    (derive, Consist, the train simulations) or outside it (Locomotive → powertrain) -/
def C19_save_preserves_aligned_statement : Prop :=
  ∀ (t : Tree) (c : Nat) (n : Option Nat) (h : List Nat),
    wfSave false t = true →    -- forced: a history pushed twice / not reached / not under any gate
    Aligned c n h t →          -- forced: see `C19_unaligned_intervals_counterexample`
    Aligned c n (h ++ if gateOpen n c then [c] else []) (saveT 1 t)

theorem C19_save_preserves_aligned : C19_save_preserves_aligned_statement := by
  intro t c n h w ⟨a, b, d⟩
  refine ⟨saveT_keeps (fun _ _ _ _ _ x => x) 1 t a, saveT_keeps (fun _ _ _ _ _ x => x) 1 t b, ?_⟩
  have := saveT_PH c n h t false w a b d
  simpa [mu] using this

/-- … and it does not panic unless the interval is `Some(0)` -/
theorem saveR_ok (t : Tree) (c : Nat) (n : Option Nat) (h : List Nat) (hn : n ≠ some 0)
    (ha : Aligned c n h t) : saveR 1 t = .ok (saveT 1 t) := by
  unfold saveR
  rw [savePanics_false n hn 1 t ha.2.1]
  rfl

/-- `set_save_interval(v)` at the top reaches every nested object, whatever the intervals were before,
    and changes nothing else -/
def C19_set_interval_reaches_all_statement : Prop :=
  ∀ (t : Tree) (v : Option Nat),
    wfSet 1 [] t = true →      -- forced: a `save_interval` the cascade does not write keeps its old value
    AllT (PV v) (setT 1 [] v t) ∧
    ∀ c n h, Aligned c n h t → Aligned c v h (setT 1 [] v t)

theorem C19_set_interval_reaches_all : C19_set_interval_reaches_all_statement := by
  intro t v w
  refine ⟨setT_PV v t 1 [] w, fun c n h ⟨a, _, d⟩ => ⟨?_, setT_PV v t 1 [] w, ?_⟩⟩
  · exact setT_keeps (fun _ _ _ _ _ x => x) 1 [] v t a
  · exact setT_keeps (fun _ _ _ _ _ x => x) 1 [] v t d

/-- reading of `Aligned`: any two histories are equal lists of step indices (same length, row k = same
    step), any two counters are equal, any two intervals are equal -/
theorem aligned_pairwise {c : Nat} {n : Option Nat} {h : List Nat} {t : Tree} (ha : Aligned c n h t) :
    ∀ x ∈ nodes t, ∀ y ∈ nodes t,
      (x.1.hasI = true → y.1.hasI = true → x.2.1 = y.2.1) ∧
      (x.1.hasInterval = true → y.1.hasInterval = true → x.2.2.1 = y.2.2.1) ∧
      (x.1.hasHist = true → y.1.hasHist = true → x.2.2.2 = y.2.2.2 ∧ x.2.2.2.length = y.2.2.2.length) := by
  intro x hx y hy
  have a := (AllT_iff (PI c) t).1 ha.1
  have b := (AllT_iff (PV n) t).1 ha.2.1
  have d := (AllT_iff (PH h) t).1 ha.2.2
  refine ⟨fun p q => (a x hx p).trans (a y hy q).symm, fun p q => (b x hx p).trans (b y hy q).symm, fun p q => ?_⟩
  have e : x.2.2.2 = y.2.2.2 := (d x hx p).trans (d y hy q).symm
  exact ⟨e, by rw [e]⟩

/-- The alignment hypothesis on the intervals is forced.  A locomotive whose own interval is `Some 1`
    while its components have `None` (this is what `Locomotive::default()` is; every `…::new` repairs it
    by cascading the interval) records rows that its components do not. -/
def misaligned : Tree := assignRoot (some 1) (consistLoco .ConventionalLoco)

theorem C19_unaligned_intervals_counterexample :
    wfSave false misaligned = true ∧
    (dump (saveT 1 misaligned)).map (fun l => (l.splitOn " ").drop 1) =
      [["1", "S", "1", "[", "1", "1"], ["1", "N", "[", "0"], ["1", "N", "[", "0"], ["1", "N", "[", "0"]] := by
  decide

/-! ## Part B — obligations on the regenerated tables -/

/-- the scanner understood every shape it met -/
theorem scan_ok : scanOk = true := by decide

/-- every locomotive variant, as an element of a consist: each counter stepped once, each history saved
    once under a gate, each `save_interval` written by `Locomotive::set_save_interval` -/
theorem consistLoco_wf (v : Variant) :
    (((consistLoco v).info.stepCalls == 1 && wfStep (consistLoco v)) || !anyI (consistLoco v)) = true ∧
    (∀ g, (((consistLoco v).info.saveOut == 1 && (consistLoco v).info.saveIn == 0 && wfSave g (consistLoco v))
      || (true && (consistLoco v).info.saveOut == 0 && (consistLoco v).info.saveIn == 1 && wfSave true (consistLoco v))
      || !anyHist (consistLoco v)) = true) ∧
    wfSet (1 * (consistLoco v).info.setCalls) (strip (consistLoco v).info.tag []) (consistLoco v) = true ∧
    freshB 1 (consistLoco v) = true := by
  cases v <;> refine ⟨by decide, fun g => by cases g <;> decide, by decide, by decide⟩

/-- the consist of ANY composition -/
theorem consist_wf (nm : String) (tag sc so si st : Nat) (vs : List Variant) :
    wfStep (consistWith nm tag sc so si st vs) = true ∧
    (∀ g, wfSave g (consistWith nm tag sc so si st vs) = true) ∧
    (wfSet 1 [] (consistWith nm tag sc so si st vs) = true) ∧
    (AllT (PI 1) (consistWith nm tag sc so si st vs) ∧ AllT (PH []) (consistWith nm tag sc so si st vs)) := by
  refine ⟨?_, fun g => ?_, ?_, ?_, ?_⟩
  · simp only [consistWith, wfStep, Bool.and_eq_true]
    exact ⟨by decide, wfStepL_map _ (fun v => (consistLoco_wf v).1) vs⟩
  · simp only [consistWith, wfSave, Bool.and_eq_true]
    refine ⟨by cases g <;> decide, ?_⟩
    cases g
    · exact wfSaveL_map _ _ _ _ (fun v => by simpa using (consistLoco_wf v).2.1 false) vs
    · exact wfSaveL_map _ _ _ _ (fun v => by simpa using (consistLoco_wf v).2.1 true) vs
  · simp only [consistWith, wfSet, Bool.and_eq_true]
    exact ⟨by decide, wfSetL_map _ _ _ (fun v => (consistLoco_wf v).2.2.1) vs⟩
  · simp only [consistWith, AllT]
    exact ⟨fun _ => rfl, AllL_map _ _ (fun v => (freshB_sound 1 _ (consistLoco_wf v).2.2.2).1) vs⟩
  · simp only [consistWith, AllT]
    exact ⟨fun _ => rfl, AllL_map _ _ (fun v => (freshB_sound 1 _ (consistLoco_wf v).2.2.2).2) vs⟩

/-- the standalone locomotive of the locomotive simulation -/
theorem locoSim_wf (v : Variant) :
    WF (shape .loco [v]) ∧ freshB 1 (shape .loco [v]) = true := by
  cases v <;> exact ⟨⟨by decide, by decide, by decide⟩, by decide⟩

theorem shape_loco_eq (vs : List Variant) : shape .loco vs = shape .loco [vs.headD .ConventionalLoco] := by
  cases vs <;> rfl

/-- **every simulation kind, every consist composition**: the call tables are well-formed and the fresh
    object has all counters at 1 and no rows -/
theorem shape_wf (kind : Kind) (vs : List Variant) :
    WF (shape kind vs) ∧ AllT (PI 1) (shape kind vs) ∧ AllT (PH []) (shape kind vs) := by
  cases kind
  · rw [shape_loco_eq]
    have h := locoSim_wf (vs.headD .ConventionalLoco)
    exact ⟨h.1, freshB_sound 1 _ h.2⟩
  all_goals
    simp only [shape]
    refine ⟨⟨?_, ?_, ?_⟩, ?_, ?_⟩
    · simp only [wfStep, wfStepL, Bool.and_eq_true, Bool.or_eq_true]
      refine ⟨by decide, ?_⟩
      first
        | exact ⟨Or.inl ⟨by simp [consistWith, Tree.info], (consist_wf _ _ _ _ _ _ vs).1⟩, rfl⟩
        | exact ⟨Or.inl ⟨by simp [consistWith, Tree.info], (consist_wf _ _ _ _ _ _ vs).1⟩, by decide, rfl⟩
    · simp only [wfSave, wfSaveL, Bool.and_eq_true, Bool.or_eq_true]
      refine ⟨by decide, ?_⟩
      first
        | exact ⟨Or.inl (Or.inl ⟨by simp [consistWith, Tree.info], (consist_wf _ _ _ _ _ _ vs).2.1 _⟩), rfl⟩
        | exact ⟨Or.inl (Or.inr ⟨by simp [consistWith, Tree.info], (consist_wf _ _ _ _ _ _ vs).2.1 _⟩), rfl⟩
        | exact ⟨Or.inl (Or.inr ⟨by simp [consistWith, Tree.info], (consist_wf _ _ _ _ _ _ vs).2.1 _⟩), by decide, rfl⟩
    · simp only [wfSet, wfSetL, Bool.and_eq_true]
      refine ⟨by decide, ?_⟩
      first
        | exact ⟨by simpa [consistWith, Tree.info, strip, setDeepNext] using (consist_wf _ _ _ _ _ _ vs).2.2.1, rfl⟩
        | exact ⟨by simpa [consistWith, Tree.info, strip, setDeepNext] using (consist_wf _ _ _ _ _ _ vs).2.2.1, by decide, rfl⟩
    · simp only [AllT, AllL]
      first
        | exact ⟨fun _ => rfl, (consist_wf _ _ _ _ _ _ vs).2.2.2.1, trivial⟩
        | exact ⟨fun _ => rfl, (consist_wf _ _ _ _ _ _ vs).2.2.2.1, ⟨fun _ => rfl, trivial⟩, trivial⟩
    · simp only [AllT, AllL]
      first
        | exact ⟨fun _ => rfl, (consist_wf _ _ _ _ _ _ vs).2.2.2.2, trivial⟩
        | exact ⟨fun _ => rfl, (consist_wf _ _ _ _ _ _ vs).2.2.2.2, ⟨fun _ => rfl, trivial⟩, trivial⟩

/-- every simulation's `step()` is  solve → save → advance,  and every `walk…` saves exactly once in
    front of its loop -/
theorem drivers_canonical :
    (∀ kind, stepOrder kind = [.solve, .save, .advance]) ∧
    (∀ kind, walkInitSaves kind = 1) ∧
    timedInitSaves .speedLimit = some 1 := by
  refine ⟨fun k => by cases k <;> decide, fun k => by cases k <;> decide, by decide⟩

/-- `SpeedLimitTrainSimVec::set_save_interval` forwards to every element exactly once -/
theorem sim_vec_forwards : simVecSetCalls = 1 := by decide

end Altrios.Proofs.C19
