import Altrios.Mass
import Proofs.Lemmas.Basic
import Proofs.Lemmas.MassL
import Mathlib.Algebra.Order.Field.Basic
import Mathlib.Tactic.Linarith
import Mathlib.Tactic.Ring
import Mathlib.Tactic.FieldSimp
import Mathlib.Tactic.SplitIfs
import Mathlib.Tactic.NormNum
import Mathlib.Data.List.Basic
/-
  C20 — mass and traction-limit parameters stay mutually consistent under every update.

  Model: `Altrios/Mass.lean` (tied to the Rust code by the differential correspondence of block
  `mass`).  Setters that can fail after writing return a `Step` (post-state + Ok/Err), so the
  theorems speak about the object a REJECTED call leaves behind as well.

  Invariant (`MassL.Inv`):   mass and derived mass both known → `almost_eq(mass, derived, 1e-8)`
                           ∧ μ and mass both known          → `almost_eq(force_max, μ·m·g, 1e-8)`.

  §1 components (FuelConverter / Generator / ReversibleEnergyStorage: one model, `Comp`)
  §2 locomotive setters, one theorem per setter, all side-effect options
  §3 any sequence of calls (accepted or rejected) — the invariant after every ACCEPTED call
  §4 what the proofs force: counterexamples (rejected calls leave mutations; DummyLoco; guards)
  §5 consist roll-ups      §6 train static mass
-/
set_option linter.unusedSectionVars false
set_option linter.unusedVariables false
namespace Altrios.Proofs.C20
open Altrios Altrios.Mass Altrios.Proofs.MassL

variable {α : Type} [Field α] [LinearOrder α] [IsStrictOrderedRing α]

/-- rational instance of the constants: `1e-8`, `uc::ACC_GRAV = 9.80154849496314` -/
def kQ : MC ℚ := { eps := 1 / 100000000, g := 980154849496314 / 100000000000000 }

/-- the value of an `Ok` outcome (for stating concrete evaluations decidably) -/
def okVal {σ : Type} : Res σ → Option σ
  | .ok s => some s
  | _ => none

/-! ## §1 Components -/

/-- a component `set_mass` never fails, whatever the state and the option -/
def C20_comp_set_total_statement : Prop :=
  ∀ (c : Comp α) (new : Option α) (se : MassSE), ∃ c', compSetMass c new se = .ok c'

theorem C20_comp_set_total : C20_comp_set_total_statement (α := α) :=
  fun c new se => compSetMass_total c new se

/-- **after any accepted `set_mass`, from ANY state (consistent or not), the component is
    consistent.**  `CompGuard` are the division guards, asked only when a side effect is applied:
    Extensive needs `specific ≠ 0`; Intensive needs `rating ≠ 0` and `m ≠ 0`.  Both are FORCED
    (`C20_comp_guard_*_counterexample`). -/
def C20_comp_set_inv_statement : Prop :=
  ∀ (k : MC α) (c c' : Comp α) (new : Option α) (se : MassSE), 0 < k.eps →
    CompGuard c new se → compSetMass c new se = .ok c' → CompInv k c'

theorem C20_comp_set_inv : C20_comp_set_inv_statement (α := α) :=
  fun k c c' new se heps hg h => compSetMass_inv k heps c c' new se hg h

/-- **resolved exactly as the option states.**  With the derived mass known and different from
    the new mass `m`:  Extensive: `rating' = specific·m`;  Intensive: `specific' = rating/m`;
    None: `specific' = none`;  nothing else changes and `mass' = m`.  With nothing to resolve
    (derived mass unknown, or equal to `m`) only `mass` is written.  `set_mass(None)` clears
    `mass` and `specific`. -/
def C20_comp_side_effects_statement : Prop :=
  ∀ (c c' : Comp α) (new : Option α) (se : MassSE), compSetMass c new se = .ok c' →
    c'.mass = new ∧
    match new with
    | none => c'.specific = none ∧ c'.rating = c.rating
    | some m =>
      (compDerived c = none → c'.specific = c.specific ∧ c'.rating = c.rating) ∧
      (compDerived c = some m → c'.specific = c.specific ∧ c'.rating = c.rating) ∧
      (∀ d, compDerived c = some d → d ≠ m →
        match se with
        | .extensive => ∃ sp, c.specific = some sp ∧ c'.rating = sp * m ∧ c'.specific = some sp
        | .intensive => c'.specific = some (c.rating / m) ∧ c'.rating = c.rating
        | .none => c'.specific = none ∧ c'.rating = c.rating)

theorem C20_comp_side_effects : C20_comp_side_effects_statement (α := α) := by
  intro c c' new se h
  cases new with
  | none => rw [compSetMass_clear c c' se h]; exact ⟨rfl, rfl, rfl⟩
  | some m =>
    refine ⟨?_, ?_, ?_, ?_⟩
    · cases hd : compDerived c with
      | none => rw [compSetMass_underived c c' m se hd h]
      | some d =>
        by_cases e : d = m
        · subst e; rw [compSetMass_same c c' d se hd h]
        · cases se with
          | none => rw [compSetMass_none c c' d m hd e h]
          | extensive => obtain ⟨sp, _, e'⟩ := compSetMass_extensive c c' d m hd e h; rw [e']
          | intensive => rw [compSetMass_intensive c c' d m hd e h]
    · intro hd; rw [compSetMass_underived c c' m se hd h]; exact ⟨rfl, rfl⟩
    · intro hd; rw [compSetMass_same c c' m se hd h]; exact ⟨rfl, rfl⟩
    · intro d hd hne
      cases se with
      | none => rw [compSetMass_none c c' d m hd hne h]; exact ⟨rfl, rfl⟩
      | extensive =>
        obtain ⟨sp, hsp, e'⟩ := compSetMass_extensive c c' d m hd hne h
        rw [e']; exact ⟨sp, hsp, rfl, hsp⟩
      | intensive => rw [compSetMass_intensive c c' d m hd hne h]; exact ⟨rfl, rfl⟩

/-- the getter `mass()` answers `Ok` exactly on consistent components, with the stored mass -/
def C20_comp_getter_statement : Prop :=
  ∀ (k : MC α) (c : Comp α) (r : Option α), compMass k c = .ok r ↔ (r = c.mass ∧ CompInv k c)

theorem C20_comp_getter : C20_comp_getter_statement (α := α) :=
  fun k c r => compMass_ok_iff k c r

/-- one `set_mass` call (it cannot fail: `C20_comp_set_total`) -/
def compStep (c : Comp α) (op : Option α × MassSE) : Comp α :=
  match compSetMass c op.1 op.2 with
  | .ok c' => c'
  | _ => c

def compRun (c : Comp α) (ops : List (Option α × MassSE)) : Comp α := ops.foldl compStep c

/-- **any sequence of `set_mass` calls with any options.**  From a component without zero
    divisors (`rating ≠ 0`, `specific ≠ 0`) and with no new mass equal to zero, the component is
    consistent after every call of the sequence (if the sequence is empty: as consistent as it
    started), and still has no zero divisor. -/
def C20_comp_sequence_statement : Prop :=
  ∀ (k : MC α) (c : Comp α) (ops : List (Option α × MassSE)), 0 < k.eps → CompGood c →
    (∀ op ∈ ops, ∀ m, op.1 = some m → m ≠ 0) →
    (ops ≠ [] ∨ CompInv k c) → CompInv k (compRun c ops) ∧ CompGood (compRun c ops)

theorem compStep_spec (c : Comp α) (op : Option α × MassSE) :
    compSetMass c op.1 op.2 = .ok (compStep c op) := by
  obtain ⟨c', h⟩ := compSetMass_total c op.1 op.2
  unfold compStep; rw [h]

theorem C20_comp_sequence : C20_comp_sequence_statement (α := α) := by
  intro k c ops heps
  induction ops generalizing c with
  | nil =>
    intro hg _ h
    rcases h with h | h
    · exact absurd rfl h
    · exact ⟨h, hg⟩
  | cons op ops ih =>
    intro hg hn _
    have hop := hn op (by simp)
    have hstep := compStep_spec c op
    have hg' := compSetMass_good c _ op.1 op.2 hg hop hstep
    have hi' := compSetMass_inv k heps c _ op.1 op.2 (compGood_guard c op.1 op.2 hg hop) hstep
    exact ih (compStep c op) hg' (fun o ho => hn o (by simp [ho])) (Or.inr hi')

/-! non-vacuity: a generator rated 1 MW at 250 W/kg weighs 4000 kg; re-weigh it to 5000 kg -/
def compEx : Comp ℚ := { mass := some 4000, specific := some 250, rating := 1000000 }

example : okVal (compSetMass compEx (some 5000) .extensive) =
    some { mass := some 5000, specific := some 250, rating := 1250000 } := by decide +kernel
example : okVal (compSetMass compEx (some 5000) .intensive) =
    some { mass := some 5000, specific := some 200, rating := 1000000 } := by decide +kernel
example : okVal (compSetMass compEx (some 5000) .none) =
    some { mass := some 5000, specific := none, rating := 1000000 } := by decide +kernel
example : CompInv kQ (compRun compEx [(some 5000, .extensive), (some 8000, .intensive), (none, .none),
    (some 100, .extensive)]) :=
  (C20_comp_sequence kQ compEx _ (by norm_num [kQ]) ⟨by norm_num [compEx], by
      intro sp h; simp [compEx] at h; subst h; norm_num⟩
    (by intro op hop m hm; simp at hop; rcases hop with h | h | h | h <;> subst h <;> simp at hm <;>
          subst hm <;> norm_num)
    (Or.inl (by simp))).1
example : CompGuard compEx (some 5000) .intensive := by
  intro d nm _ hn _
  simp at hn; subst hn
  exact ⟨by simp, fun _ => ⟨by norm_num [compEx], by norm_num⟩⟩

/-- the guard `specific ≠ 0` is FORCED: with `specific_pwr = 0` an accepted
    `set_mass(Some(5000), Extensive)` leaves `mass = 5000` against a derived mass `0·5000/0`
    (`0` in a field, `NaN` in IEEE): `mass()` is `Err` afterwards -/
theorem C20_comp_guard_specific_zero_counterexample :
    ∃ (c c' : Comp ℚ), okVal (compSetMass c (some 5000) .extensive) = some c' ∧
      (compMass kQ c').isOk = false := by
  refine ⟨{ mass := none, specific := some 0, rating := 1000000 },
    { mass := some 5000, specific := some 0, rating := 0 }, by decide +kernel, by decide +kernel⟩

/-- the guard `rating ≠ 0` is FORCED for Intensive -/
theorem C20_comp_guard_rating_zero_counterexample :
    ∃ (c c' : Comp ℚ), okVal (compSetMass c (some 5000) .intensive) = some c' ∧
      (compMass kQ c').isOk = false := by
  refine ⟨{ mass := none, specific := some 250, rating := 0 },
    { mass := some 5000, specific := some 0, rating := 0 }, by decide +kernel, by decide +kernel⟩

/-! ## §2 Locomotive setters -/

theorem invForce_of_exact (k : MC α) (heps : 0 < k.eps) (s : Loco α) (μ m : α)
    (h1 : s.mu = some μ) (h2 : s.mass = some m) (h3 : s.forceMax = μ * m * k.g) : InvForce k s := by
  intro μ' m' e1 e2
  rw [h1] at e1; rw [h2] at e2; cases e1; cases e2
  rw [h3]; exact almostEq_self _ _ heps

theorem invForce_of_mass_none (k : MC α) (s : Loco α) (h : s.mass = none) : InvForce k s := by
  intro μ m _ e; rw [h] at e; cases e

theorem invForce_of_mu_none (k : MC α) (s : Loco α) (h : s.mu = none) : InvForce k s := by
  intro μ m e _; rw [h] at e; cases e

theorem invMass_of_mass_none (k : MC α) (s : Loco α) (h : s.mass = none) : InvMass k s := by
  intro m d e _; rw [h] at e; cases e

/-- **`Locomotive::set_mass`.**  If the call is accepted then, from ANY prior state:
    the invariant holds; the option was `MassSideEffect::None`; `μ` was known and is unchanged;
    the new mass is the requested one (or the derived one for `None`); `force_max' = μ·m·g`;
    `baseline`/`ballast` are untouched and the components are either untouched or expunged.
    Moreover (DESIGN §7.20 triage (a)) the call is accepted ONLY IF the OLD `force_max` already
    almost equals `μ·m_new·g`: `set_mass` cannot change the mass of a consistent locomotive by more
    than the tolerance, and is always rejected when `μ` is unknown. -/
def C20_loco_set_mass_statement : Prop :=
  ∀ (k : MC α) (l : Loco α) (new : Option α) (se : MassSE), 0 < k.eps →
    (locoSetMass k l new se).ok = true →
    Inv k (locoSetMass k l new se).st ∧ se = MassSE.none ∧
    ∃ μ m, l.mu = some μ ∧ (locoSetMass k l new se).st.mu = some μ ∧
      (locoSetMass k l new se).st.mass = some m ∧
      (new = some m ∨ (new = none ∧ locoDerived k l = .ok (some m))) ∧
      (locoSetMass k l new se).st.forceMax = μ * m * k.g ∧
      almostEq l.forceMax (μ * m * k.g) k.eps = true ∧
      (locoSetMass k l new se).st.baseline = l.baseline ∧
      (locoSetMass k l new se).st.ballast = l.ballast ∧
      ((locoSetMass k l new se).st.pt = l.pt ∨ (locoSetMass k l new se).st.pt = (locoExpunge l).pt)

theorem C20_loco_set_mass : C20_loco_set_mass_statement (α := α) := by
  intro k l new se heps hok
  rw [locoSetMass_eq] at hok ⊢
  by_cases hse : se = MassSE.none
  · simp only [hse, ne_eq, not_true_eq_false, if_false] at hok ⊢
    cases hmid : setMassMid k l new with
    | none => simp [hmid] at hok
    | some l1 =>
      simp only [hmid] at hok ⊢
      obtain ⟨nm, h1, h2, h3, h4, h5, h6, h7, _⟩ := setMassMid_spec k heps l l1 new hmid
      obtain ⟨μ, m, f1, f2, f3, f4⟩ := finish_ok k l1 hok
      obtain ⟨g1, g2, _⟩ := locoMass_ok_some k l1 m f3
      have hm : nm = m := g1 nm h1
      subst hm
      rw [f4]
      refine ⟨⟨?_, ?_⟩, trivial, μ, nm, ?_, f1, h1, h7, rfl, ?_, h4, h5, ?_⟩
      · exact (invMass_congr k l1 _ rfl rfl rfl rfl).mpr g2
      · exact invForce_of_exact k heps _ μ nm f1 h1 rfl
      · rw [← h2]; exact f1
      · have := (checkForceMax_iff k l1).mp f2 μ nm f1 h1
        rw [h3] at this; exact this
      · rcases h6 with h6 | ⟨h6, _⟩
        · exact Or.inl h6
        · exact Or.inr h6
  · simp [hse] at hok

theorem locoMu_ok (k : MC α) (l : Loco α) (r : Option α) (h : locoMu k l = .ok r) :
    r = l.mu ∧ locoCheckForceMax k l = true := by
  unfold locoMu at h
  split_ifs at h with hc
  · cases h; exact ⟨rfl, hc⟩

/-- **`Locomotive::set_force_max`, every `ForceMaxSideEffect`.**  `force_max` is written first.
    * `Mass`: accepted → invariant (from any state); `μ` unchanged, `mass' = F/(μ·g)`,
      `force_max' = μ·mass'·g`, which almost equals the requested `F`.
    * `UpdateMu`: always accepted; `force_max' = F`, mass unchanged, `μ' = F/(m·g)` (or `none`);
      force half of the invariant under the guard `m ≠ 0` (FORCED); mass half is PRESERVED
      (needs it before: FORCED, `C20_update_mu_needs_inv_mass_counterexample`).
    * `SetMuToNone`: `μ' = none`; force half holds; mass half preserved.
    * `SetMassToNone`, `SetMassAndMuToNone`: invariant holds from any state. -/
def C20_loco_set_force_max_statement : Prop :=
  ∀ (k : MC α) (l : Loco α) (f : α) (se : ForceSE), 0 < k.eps → k.g ≠ 0 →
    (locoSetForceMax k l f se).ok = true →
    match se with
    | .mass =>
      Inv k (locoSetForceMax k l f se).st ∧
      ∃ μ, l.mu = some μ ∧ (locoSetForceMax k l f se).st.mu = some μ ∧
        (locoSetForceMax k l f se).st.mass = some (f / (μ * k.g)) ∧
        (locoSetForceMax k l f se).st.forceMax = μ * (f / (μ * k.g)) * k.g ∧
        almostEq f (locoSetForceMax k l f se).st.forceMax k.eps = true
    | .updateMu =>
      (locoSetForceMax k l f se).st =
        { l with forceMax := f, mu := match l.mass with
            | some m => some (f / (m * k.g))
            | none => none } ∧
      ((∀ m, l.mass = some m → m ≠ 0) → InvForce k (locoSetForceMax k l f se).st) ∧
      (InvMass k l → InvMass k (locoSetForceMax k l f se).st)
    | .setMuToNone =>
      (locoSetForceMax k l f se).st = { l with forceMax := f, mu := none } ∧
      InvForce k (locoSetForceMax k l f se).st ∧
      (InvMass k l → InvMass k (locoSetForceMax k l f se).st)
    | .setMassToNone =>
      (locoSetForceMax k l f se).st = { l with forceMax := f, mass := none } ∧
      Inv k (locoSetForceMax k l f se).st
    | .setMassAndMuToNone =>
      (locoSetForceMax k l f se).st = { l with forceMax := f, mu := none, mass := none } ∧
      Inv k (locoSetForceMax k l f se).st

theorem C20_loco_set_force_max : C20_loco_set_force_max_statement (α := α) := by
  intro k l f se heps hg hok
  cases se with
  | mass =>
    simp only
    have hdef : locoSetForceMax k l f .mass =
        match locoMu k { l with forceMax := f } with
        | .ok (some mu) => locoSetMass k { l with forceMax := f } (some (f / (mu * k.g))) MassSE.none
        | _ => ⟨{ l with forceMax := f }, false⟩ := rfl
    rw [hdef] at hok ⊢
    have hmu1 : ({ l with forceMax := f } : Loco α).mu = l.mu := rfl
    have hf1 : ({ l with forceMax := f } : Loco α).forceMax = f := rfl
    generalize ({ l with forceMax := f } : Loco α) = l1 at hok hmu1 hf1 ⊢
    cases hmu : locoMu k l1 with
    | err e => simp [hmu] at hok
    | panic e => simp [hmu] at hok
    | ok r =>
      cases r with
      | none => simp [hmu] at hok
      | some μ =>
        simp only [hmu] at hok ⊢
        obtain ⟨hr, _⟩ := locoMu_ok k l1 _ hmu
        obtain ⟨hinv, _, μ', m, a1, a2, a3, a4, a5, a6, _⟩ :=
          C20_loco_set_mass k l1 (some (f / (μ * k.g))) MassSE.none heps hok
        have e1 : μ' = μ := by rw [← hr] at a1; cases a1; rfl
        subst e1
        have e2 : m = f / (μ' * k.g) := by
          rcases a4 with h | ⟨h, _⟩
          · cases h; rfl
          · cases h
        subst e2
        rw [hf1] at a6
        exact ⟨hinv, μ', by rw [← hmu1]; exact hr.symm, a2, a3, a5, by rw [a5]; exact a6⟩
  | updateMu =>
    simp only
    refine ⟨rfl, ?_, ?_⟩
    · intro hm μ m e1 e2
      unfold locoSetForceMax at e1 e2 ⊢
      simp only at e1 e2 ⊢
      rw [e2] at e1
      simp only [Option.some.injEq] at e1
      subst e1
      apply almostEq_of_eq _ _ _ heps
      have := hm m e2
      field_simp
    · intro h
      exact (invMass_congr k l _ rfl rfl rfl rfl).mpr h
  | setMuToNone =>
    simp only
    exact ⟨rfl, invForce_of_mu_none k _ rfl, fun h => (invMass_congr k l _ rfl rfl rfl rfl).mpr h⟩
  | setMassToNone =>
    simp only
    exact ⟨rfl, invMass_of_mass_none k _ rfl, invForce_of_mass_none k _ rfl⟩
  | setMassAndMuToNone =>
    simp only
    exact ⟨rfl, invMass_of_mass_none k _ rfl, invForce_of_mass_none k _ rfl⟩

theorem locoMass_with_mu (k : MC α) (l : Loco α) (x : Option α) :
    locoMass k { l with mu := x } = locoMass k l := by
  unfold locoMass
  rw [locoDerived_congr k l { l with mu := x } rfl rfl rfl]

/-- **`Locomotive::set_mu`, every `MuSideEffect`.**  `μ` is written first.  Accepted → the
    invariant holds, from ANY prior state, and
    * `Mass`: `mass' = force_max/(μ·g)`, `force_max' = μ·mass'·g`, almost equal to the old force;
    * `ForceMax`: mass unchanged, `force_max' = μ·g·m` with `m` the answer of `mass()`;
    * `SetMassToNone`: `mass' = none`, `force_max` unchanged. -/
def C20_loco_set_mu_statement : Prop :=
  ∀ (k : MC α) (l : Loco α) (mu : α) (se : MuSE), 0 < k.eps →
    (locoSetMu k l mu se).ok = true →
    Inv k (locoSetMu k l mu se).st ∧ (locoSetMu k l mu se).st.mu = some mu ∧
    match se with
    | .mass =>
      (locoSetMu k l mu se).st.mass = some (l.forceMax / (mu * k.g)) ∧
      (locoSetMu k l mu se).st.forceMax = mu * (l.forceMax / (mu * k.g)) * k.g ∧
      almostEq l.forceMax (locoSetMu k l mu se).st.forceMax k.eps = true
    | .forceMax =>
      ∃ m, locoMass k l = .ok (some m) ∧
        (locoSetMu k l mu se).st = { l with mu := some mu, forceMax := mu * k.g * m }
    | .setMassToNone =>
      (locoSetMu k l mu se).st = { l with mu := some mu, mass := none }

theorem C20_loco_set_mu : C20_loco_set_mu_statement (α := α) := by
  intro k l mu se heps hok
  cases se with
  | mass =>
    have hdef : locoSetMu k l mu .mass =
        locoSetMass k { l with mu := some mu } (some (l.forceMax / (mu * k.g))) MassSE.none := rfl
    rw [hdef] at hok ⊢
    have hmu1 : ({ l with mu := some mu } : Loco α).mu = some mu := rfl
    have hf1 : ({ l with mu := some mu } : Loco α).forceMax = l.forceMax := rfl
    generalize ({ l with mu := some mu } : Loco α) = l1 at hok hmu1 hf1 ⊢
    obtain ⟨hinv, _, μ', m, a1, a2, a3, a4, a5, a6, _⟩ :=
      C20_loco_set_mass k l1 (some (l.forceMax / (mu * k.g))) MassSE.none heps hok
    have e1 : μ' = mu := by rw [hmu1] at a1; cases a1; rfl
    subst e1
    have e2 : m = l.forceMax / (μ' * k.g) := by
      rcases a4 with h | ⟨h, _⟩
      · cases h; rfl
      · cases h
    subst e2
    rw [hf1] at a6
    exact ⟨hinv, a2, a3, a5, by rw [a5]; exact a6⟩
  | forceMax =>
    unfold locoSetMu at hok ⊢
    simp only at hok ⊢
    rw [locoMass_with_mu] at hok ⊢
    cases hm : locoMass k l with
    | err e => simp [hm] at hok
    | panic e => simp [hm] at hok
    | ok r =>
      cases r with
      | none => simp [hm] at hok
      | some m =>
        simp only
        obtain ⟨g1, g2, _⟩ := locoMass_ok_some k l m hm
        refine ⟨⟨(invMass_congr k l _ rfl rfl rfl rfl).mpr g2, ?_⟩, ?_⟩
        rotate_left
        · exact ⟨trivial, m, rfl, rfl⟩
        intro μ' m' e1 e2
        simp only [Option.some.injEq] at e1
        subst e1
        have : m' = m := g1 m' e2
        subst this
        apply almostEq_of_eq _ _ _ heps
        ring
  | setMassToNone =>
    unfold locoSetMu
    simp only
    exact ⟨⟨invMass_of_mass_none k _ rfl, invForce_of_mass_none k _ rfl⟩, trivial, trivial⟩

/-! ## §3 Any sequence of calls -/

/-- a locomotive-level setter call -/
inductive LOp (α : Type) where
  | setMass (new : Option α) (se : MassSE)
  | setForceMax (f : α) (se : ForceSE)
  | setMu (mu : α) (se : MuSE)

def stepL (k : MC α) (l : Loco α) : LOp α → Step (Loco α)
  | .setMass new se => locoSetMass k l new se
  | .setForceMax f se => locoSetForceMax k l f se
  | .setMu mu se => locoSetMu k l mu se

/-- run a whole sequence; a rejected call continues from the (possibly mutated) object it left -/
def runL (k : MC α) (l : Loco α) (ops : List (LOp α)) : Loco α :=
  ops.foldl (fun s op => (stepL k s op).st) l

/-- the only division guard of the locomotive setters: `UpdateMu` divides by `m·g` -/
def OpGuard (l : Loco α) : LOp α → Prop
  | .setForceMax _ .updateMu => ∀ m, l.mass = some m → m ≠ 0
  | _ => True

theorem isDummy_expunge (l : Loco α) : (locoExpunge l).pt.isDummy = l.pt.isDummy := by
  unfold locoExpunge; cases l.pt <;> rfl

theorem setMass_keeps (k : MC α) (heps : 0 < k.eps) (l : Loco α) (new : Option α) (se : MassSE)
    (hnd : l.pt.isDummy = false) (h : InvMass k l) :
    InvMass k (locoSetMass k l new se).st ∧ (locoSetMass k l new se).st.pt.isDummy = false := by
  rw [locoSetMass_eq]
  split_ifs
  · exact ⟨h, hnd⟩
  · cases hmid : setMassMid k l new with
    | none => exact ⟨h, hnd⟩
    | some l1 =>
      simp only
      obtain ⟨nm, _, _, _, _, _, h6, _, h8⟩ := setMassMid_spec k heps l l1 new hmid
      have hd1 : l1.pt.isDummy = false := by
        rcases h6 with e | ⟨e, _⟩
        · rw [e]; exact hnd
        · rw [e, isDummy_expunge]; exact hnd
      rcases finish_st k l1 with e | ⟨x, e⟩
      · rw [e]; exact ⟨h8 hnd, hd1⟩
      · rw [e]; exact ⟨(invMass_congr k l1 _ rfl rfl rfl rfl).mpr (h8 hnd), hd1⟩

/-- **every call — accepted OR rejected — keeps the mass half of the invariant** on a real
    (non-dummy) locomotive.  (`hnd` is FORCED: `C20_dummy_reject_then_accept_counterexample`.) -/
theorem step_keeps (k : MC α) (heps : 0 < k.eps) (l : Loco α) (op : LOp α)
    (hnd : l.pt.isDummy = false) (h : InvMass k l) :
    InvMass k (stepL k l op).st ∧ (stepL k l op).st.pt.isDummy = false := by
  cases op with
  | setMass new se => exact setMass_keeps k heps l new se hnd h
  | setForceMax f se =>
    have h1 : InvMass k { l with forceMax := f } := (invMass_congr k l _ rfl rfl rfl rfl).mpr h
    cases se with
    | mass =>
      have hdef : stepL k l (.setForceMax f .mass) =
          match locoMu k { l with forceMax := f } with
          | .ok (some mu) => locoSetMass k { l with forceMax := f } (some (f / (mu * k.g))) MassSE.none
          | _ => ⟨{ l with forceMax := f }, false⟩ := rfl
      rw [hdef]
      split
      · exact setMass_keeps k heps _ _ _ hnd h1
      · exact ⟨h1, hnd⟩
    | updateMu => exact ⟨(invMass_congr k l _ rfl rfl rfl rfl).mpr h, hnd⟩
    | setMuToNone => exact ⟨(invMass_congr k l _ rfl rfl rfl rfl).mpr h, hnd⟩
    | setMassToNone => exact ⟨invMass_of_mass_none k _ rfl, hnd⟩
    | setMassAndMuToNone => exact ⟨invMass_of_mass_none k _ rfl, hnd⟩
  | setMu mu se =>
    have h1 : InvMass k { l with mu := some mu } := (invMass_congr k l _ rfl rfl rfl rfl).mpr h
    cases se with
    | mass => exact setMass_keeps k heps _ _ _ hnd h1
    | forceMax =>
      have hdef : stepL k l (.setMu mu .forceMax) =
          match locoMass k { l with mu := some mu } with
          | .ok (some m) => ⟨{ l with mu := some mu, forceMax := mu * k.g * m }, true⟩
          | _ => ⟨{ l with mu := some mu }, false⟩ := rfl
      rw [hdef]
      split
      · exact ⟨(invMass_congr k l _ rfl rfl rfl rfl).mpr h, hnd⟩
      · exact ⟨h1, hnd⟩
    | setMassToNone => exact ⟨invMass_of_mass_none k _ rfl, hnd⟩

theorem run_keeps (k : MC α) (heps : 0 < k.eps) (l : Loco α) (ops : List (LOp α))
    (hnd : l.pt.isDummy = false) (h : InvMass k l) :
    InvMass k (runL k l ops) ∧ (runL k l ops).pt.isDummy = false := by
  induction ops generalizing l with
  | nil => exact ⟨h, hnd⟩
  | cons op ops ih =>
    obtain ⟨h1, h2⟩ := step_keeps k heps l op hnd h
    exact ih (stepL k l op).st h2 h1

/-- **C20, locomotives, any history.**  Start from a real (non-dummy) locomotive whose stored
    mass agrees with its derived mass (nothing is assumed about `force_max`).  Perform ANY
    sequence of `set_mass` / `set_force_max` / `set_mu` calls with ANY side-effect options, some
    accepted, some rejected (a rejected call leaves its partial writes behind).  Then after EVERY
    accepted call the full invariant holds — mass ≈ derived mass and `force_max ≈ μ·m·g` whenever
    both sides are known.  Guards: `0 < eps`, `g ≠ 0`, and `m ≠ 0` for `UpdateMu`. -/
def C20_loco_sequence_statement : Prop :=
  ∀ (k : MC α) (l₀ : Loco α) (ops : List (LOp α)) (op : LOp α), 0 < k.eps → k.g ≠ 0 →
    l₀.pt.isDummy = false → InvMass k l₀ →
    (stepL k (runL k l₀ ops) op).ok = true → OpGuard (runL k l₀ ops) op →
    Inv k (stepL k (runL k l₀ ops) op).st

theorem C20_loco_sequence : C20_loco_sequence_statement (α := α) := by
  intro k l₀ ops op heps hg hnd h0 hok hguard
  obtain ⟨hs, _⟩ := run_keeps k heps l₀ ops hnd h0
  generalize runL k l₀ ops = s at hs hok hguard ⊢
  cases op with
  | setMass new se => exact (C20_loco_set_mass k s new se heps hok).1
  | setForceMax f se =>
    have := C20_loco_set_force_max k s f se heps hg hok
    cases se with
    | mass => exact this.1
    | updateMu => exact ⟨this.2.2 hs, this.2.1 hguard⟩
    | setMuToNone => exact ⟨this.2.2 hs, this.2.1⟩
    | setMassToNone => exact this.2
    | setMassAndMuToNone => exact this.2
  | setMu mu se => exact (C20_loco_set_mu k s mu se heps hok).1

/-- `set_mass` is rejected whenever the adhesion coefficient is unknown — the default of every
    shipped locomotive (`mu: None`); `Locomotive::build_dummy_loco` unwraps exactly this call -/
theorem C20_loco_set_mass_needs_mu (k : MC α) (heps : 0 < k.eps) (l : Loco α) (new : Option α)
    (se : MassSE) (h : l.mu = none) : (locoSetMass k l new se).ok = false := by
  by_contra hc
  have hok : (locoSetMass k l new se).ok = true := by simpa using hc
  obtain ⟨_, _, μ, _, a1, _⟩ := C20_loco_set_mass k l new se heps hok
  rw [h] at a1; cases a1

/-! ## §4 Concrete witnesses: non-vacuity, and what the proofs force -/

def noneC (r : ℚ) : Comp ℚ := { mass := none, specific := none, rating := r }

/-- the shipped default conventional unit (195 t, nothing known below), with `μ = 0.3` and the
    matching traction limit -/
def locoEx : Loco ℚ :=
  { pt := .conv (noneC 3356000) (noneC 3356000), mass := some 195000, mu := some (3 / 10),
    ballast := none, baseline := none, forceMax := 3 / 10 * 195000 * kQ.g }

/-- a battery unit with everything known: 8 t battery (16 GJ at 2 MJ/kg), 150 t baseline, 5 t ballast -/
def belEx : Loco ℚ :=
  { pt := .bel { mass := some 8000, specific := some 2000000, rating := 16000000000 },
    mass := some 163000, mu := some (3 / 10), ballast := some 5000, baseline := some 150000,
    forceMax := 3 / 10 * 163000 * kQ.g }

theorem kQ_eps : 0 < kQ.eps := by norm_num [kQ]
theorem kQ_g : kQ.g ≠ 0 := by norm_num [kQ]

/-- non-vacuity of `C20_loco_set_mu` (`Mass`): lowering μ to 0.25 is accepted and re-derives the mass -/
example : (locoSetMu kQ locoEx (1 / 4) .mass).ok = true := by decide +kernel
example : (locoSetMu kQ locoEx (1 / 4) .mass).st.mass = some 234000 := by decide +kernel
example : Inv kQ (locoSetMu kQ locoEx (1 / 4) .mass).st :=
  (C20_loco_set_mu kQ locoEx (1 / 4) .mass kQ_eps (by decide +kernel)).1
/-- non-vacuity (`ForceMax`) -/
example : (locoSetMu kQ belEx (1 / 4) .forceMax).ok = true := by decide +kernel
example : (locoSetMu kQ belEx (1 / 4) .forceMax).st.forceMax = 1 / 4 * kQ.g * 163000 := by
  decide +kernel
/-- non-vacuity of `C20_loco_set_force_max` (`UpdateMu`) -/
example : (locoSetForceMax kQ belEx 500000 .updateMu).st.mu = some (500000 / (163000 * kQ.g)) := by
  decide +kernel
/-- non-vacuity of `C20_loco_set_mass` / `set_force_max(Mass)`: accepted when the mass is unknown -/
example : (locoSetForceMax kQ { locoEx with mass := none } 600000 .mass).ok = true := by decide +kernel
example : (locoSetMass kQ locoEx (some 195000) .none).ok = true := by decide +kernel
/-- non-vacuity of `C20_loco_sequence`: reject (`set_mass` to 200 t), reject (`Mass` option),
    accept (`UpdateMu`) -/
example : Inv kQ (stepL kQ (runL kQ belEx [.setMass (some 200000) .none, .setForceMax 700000 .mass])
    (.setForceMax 500000 .updateMu)).st :=
  C20_loco_sequence kQ belEx _ _ kQ_eps kQ_g rfl
    (by intro m d hm hd
        have e1 : m = 163000 := by simp [belEx] at hm; exact hm.symm
        have e2 : locoDerived kQ belEx = .ok (some 163000) → d = 163000 := by
          intro h; rw [h] at hd; cases hd; rfl
        have e3 : okVal (locoDerived kQ belEx) = some (some 163000) := by decide +kernel
        have e4 : d = 163000 := by
          rw [hd] at e3; simp [okVal] at e3; exact e3
        subst e1; subst e4; decide +kernel)
    rfl
    (by intro m hm
        have : (runL kQ belEx [.setMass (some 200000) .none, .setForceMax 700000 .mass]).mass =
            some 200000 := by decide +kernel
        rw [this] at hm; cases hm; norm_num)

/-- **DESIGN §7.20 triage (a), confirmed.**  On a consistent locomotive `set_mass(Some(200 t))` is
    REJECTED — and leaves `mass = 200 t` behind with the old `force_max`: the object now violates
    the force half of the invariant (`mu()` / `force_max()` answer `Err` from here on) -/
theorem C20_rejected_set_mass_mutates_counterexample :
    locoCheckForceMax kQ locoEx = true ∧ (locoMass kQ locoEx).isOk = true ∧
    (locoSetMass kQ locoEx (some 200000) .none).ok = false ∧
    (locoSetMass kQ locoEx (some 200000) .none).st.mass = some 200000 ∧
    locoCheckForceMax kQ (locoSetMass kQ locoEx (some 200000) .none).st = false := by
  decide +kernel

/-- a rejected `set_mass` can also blank the components for good: with `baseline`/`ballast` kept,
    `mass()` is `Err` afterwards (derived mass undefined) -/
theorem C20_rejected_set_mass_expunges_counterexample :
    (locoSetMass kQ belEx (some 200000) .none).ok = false ∧
    (locoSetMass kQ belEx (some 200000) .none).st.pt = .bel { mass := none, specific := none, rating := 16000000000 } ∧
    (locoMass kQ (locoSetMass kQ belEx (some 200000) .none).st).isOk = false := by
  decide +kernel

/-- **triage (b), confirmed.**  `set_force_max(F, Mass)` on a consistent locomotive is rejected
    (the check compares the NEW force with the OLD mass) after writing `force_max = F` -/
theorem C20_rejected_set_force_max_mutates_counterexample :
    (locoSetForceMax kQ locoEx 700000 .mass).ok = false ∧
    (locoSetForceMax kQ locoEx 700000 .mass).st.forceMax = 700000 ∧
    locoCheckForceMax kQ (locoSetForceMax kQ locoEx 700000 .mass).st = false := by
  decide +kernel

/-- the call `Locomotive::build_dummy_loco` makes and unwraps: `set_mass(None, None)` on a
    DummyLoco carrying the default 195 t and no μ is rejected -/
def dummyBuilt : Loco ℚ :=
  { pt := .dummy, mass := some 195000, mu := none, ballast := none, baseline := none,
    forceMax := 50000000 }

theorem C20_build_dummy_loco_counterexample :
    (locoSetMass kQ dummyBuilt none .none).ok = false ∧ (locoMass kQ dummyBuilt).isOk = false := by
  decide +kernel

/-- **FINDING.**  `hnd` of `C20_loco_sequence` is FORCED: on a DummyLoco (derived mass is the
    constant 0) the sequence  reject `set_mass(Some(1000))`, accept `set_force_max(F, UpdateMu)`
    from a consistent start ends, after an ACCEPTED call, with `mass = 1000` against derived `0` -/
def dummyEx : Loco ℚ :=
  { pt := .dummy, mass := none, mu := some (3 / 10), ballast := none, baseline := none,
    forceMax := 667200 }

theorem C20_dummy_reject_then_accept_counterexample :
    locoCheckForceMax kQ dummyEx = true ∧ (locoMass kQ dummyEx).isOk = true ∧
    (stepL kQ dummyEx (.setMass (some 1000) .none)).ok = false ∧
    (stepL kQ (runL kQ dummyEx [.setMass (some 1000) .none]) (.setForceMax 500000 .updateMu)).ok = true ∧
    (locoMass kQ (stepL kQ (runL kQ dummyEx [.setMass (some 1000) .none])
        (.setForceMax 500000 .updateMu)).st).isOk = false := by
  decide +kernel

theorem C20_loco_sequence_dummy_counterexample :
    ¬ (∀ (l₀ : Loco ℚ) (ops : List (LOp ℚ)) (op : LOp ℚ), InvMass kQ l₀ →
        (stepL kQ (runL kQ l₀ ops) op).ok = true → OpGuard (runL kQ l₀ ops) op →
        Inv kQ (stepL kQ (runL kQ l₀ ops) op).st) := by
  intro h
  have h1 := h dummyEx [.setMass (some 1000) .none] (.setForceMax 500000 .updateMu)
    (invMass_of_mass_none kQ _ rfl) (by decide +kernel)
    (by intro m hm
        have : (runL kQ dummyEx [.setMass (some 1000) .none]).mass = some 1000 := by decide +kernel
        rw [this] at hm; cases hm; norm_num)
  have h2 := h1.1 1000 0 (by decide +kernel)
    (by have : okVal (locoDerived kQ (stepL kQ (runL kQ dummyEx [.setMass (some 1000) .none])
            (.setForceMax 500000 .updateMu)).st) = some (some 0) := by decide +kernel
        revert this
        cases locoDerived kQ (stepL kQ (runL kQ dummyEx [.setMass (some 1000) .none])
            (.setForceMax 500000 .updateMu)).st with
        | ok r => intro e; simp [okVal] at e; rw [e]
        | err e => intro e'; simp [okVal] at e'
        | panic e => intro e'; simp [okVal] at e')
  exact absurd h2 (by decide +kernel)

/-- `UpdateMu` / `SetMuToNone` do not look at the mass: the hypothesis `InvMass` before is FORCED -/
theorem C20_update_mu_needs_inv_mass_counterexample :
    (locoSetForceMax kQ { belEx with mass := some 100000 } 500000 .updateMu).ok = true ∧
    (locoMass kQ (locoSetForceMax kQ { belEx with mass := some 100000 } 500000 .updateMu).st).isOk = false := by
  decide +kernel

/-- the guard `m ≠ 0` of `UpdateMu` is FORCED -/
theorem C20_update_mu_zero_mass_counterexample :
    (locoSetForceMax kQ { locoEx with mass := some 0 } 500000 .updateMu).ok = true ∧
    locoCheckForceMax kQ (locoSetForceMax kQ { locoEx with mass := some 0 } 500000 .updateMu).st = false := by
  decide +kernel

/-- a component updated through `fuel_converter_mut()` etc. cannot keep its parent consistent: the
    accepted nested call leaves the locomotive's `mass()` at `Err` (observation, see cfg note) -/
theorem C20_nested_component_update_counterexample :
    (locoMass kQ belEx).isOk = true ∧
    (∃ l', okVal <$> locoCompSetMass belEx .res (some 9000) .extensive = some (some l') ∧
      (locoMass kQ l').isOk = false) := by
  refine ⟨by decide +kernel,
    ({ pt := .bel { mass := some 9000, specific := some 2000000, rating := 18000000000 },
       mass := some 163000, mu := some (3 / 10), ballast := some 5000, baseline := some 150000,
       forceMax := 3 / 10 * 163000 * kQ.g } : Loco ℚ), by decide +kernel, by decide +kernel⟩

/-- the trait's `derived_mass` of a locomotive is not its derived mass: for the battery unit
    above it answers the battery's 8 t while `mass()` answers 163 t -/
theorem C20_trait_derived_mass_counterexample :
    okVal (locoDerivedTrait kQ belEx) = some (some 8000) ∧
    okVal (locoDerived kQ belEx) = some (some 163000) ∧ okVal (locoMass kQ belEx) = some (some 163000) := by
  decide +kernel

/-! ## §5 Consist roll-ups -/

/-- **a consist's mass is the sum of its locomotives' masses**: whenever `Consist::mass()` answers
    `Ok`, the consist is non-empty, every unit's `mass()` answered `Ok`, and either every unit
    reports no mass and the answer is `None`, or every unit reports a mass and the answer is
    their sum.  (So: empty consist, a unit in error, or a mix of known/unknown → `Err`.) -/
def C20_consist_mass_sound_statement : Prop :=
  ∀ (k : MC α) (ls : List (Loco α)) (r : Option α), consistMass k ls = .ok r →
    ls ≠ [] ∧
    ((r = none ∧ ∀ l ∈ ls, locoMass k l = .ok none) ∨
     ((∀ l ∈ ls, ∃ m, locoMass k l = .ok (some m)) ∧ r = some (ls.map (massOf k)).sum))

theorem C20_consist_mass_sound : C20_consist_mass_sound_statement (α := α) := by
  intro k ls r h
  cases ls with
  | nil => simp [consistMass] at h
  | cons l ls' =>
    refine ⟨by simp, ?_⟩
    unfold consistMass at h
    cases hm0 : locoMass k l with
    | err e => simp [bind, Res.bind, hm0] at h
    | panic e => simp [bind, Res.bind, hm0] at h
    | ok m0 =>
      simp only [bind, Res.bind, hm0] at h
      cases hf : consistNoneFold k m0.isNone (l :: ls') with
      | err e => simp [hf] at h
      | panic e => simp [hf] at h
      | ok b =>
        obtain ⟨hb, hall⟩ := consistNoneFold_ok k (l :: ls') m0.isNone b hf
        simp only [hf] at h
        by_cases hbt : b = true
        · simp only [hbt, if_true] at h
          cases h
          left
          refine ⟨rfl, ?_⟩
          intro l' hl'
          obtain ⟨m, e1, e2⟩ := hall l' hl'
          rw [← hb, hbt] at e2
          rw [e1]; congr
          exact Option.isNone_iff_eq_none.mp e2
        · have hbf : b = false := by simpa using hbt
          simp only [hbf] at h
          have hsome : ∀ l' ∈ l :: ls', ∃ m, locoMass k l' = .ok (some m) := by
            intro l' hl'
            obtain ⟨m, e1, e2⟩ := hall l' hl'
            rw [← hb, hbf] at e2
            cases m with
            | none => simp at e2
            | some m => exact ⟨m, e1⟩
          rw [consistSumFold_all_some k (l :: ls') 0 hsome] at h
          simp only [Bool.false_eq_true, if_false, zero_add] at h
          cases h
          exact Or.inr ⟨hsome, rfl⟩

/-- completeness: all units known → `Ok(Some(Σ))`; all unknown → `Ok(None)` -/
def C20_consist_mass_complete_statement : Prop :=
  ∀ (k : MC α) (ls : List (Loco α)), ls ≠ [] →
    ((∀ l ∈ ls, ∃ m, locoMass k l = .ok (some m)) →
        consistMass k ls = .ok (some (ls.map (massOf k)).sum)) ∧
    ((∀ l ∈ ls, locoMass k l = .ok none) → consistMass k ls = .ok none)

theorem C20_consist_mass_complete : C20_consist_mass_complete_statement (α := α) := by
  intro k ls hne
  cases ls with
  | nil => exact absurd rfl hne
  | cons l ls' =>
    constructor
    · intro hall
      obtain ⟨m0, hm0⟩ := hall l (by simp)
      unfold consistMass
      have hf : consistNoneFold k false (l :: ls') = .ok false :=
        consistNoneFold_all k (l :: ls') false (by
          intro l' hl'; obtain ⟨m, hm⟩ := hall l' hl'; exact ⟨some m, hm, rfl⟩)
      simp only [bind, Res.bind, hm0, Option.isNone_some, hf, Bool.false_eq_true, if_false,
        consistSumFold_all_some k (l :: ls') 0 hall, zero_add]
    · intro hall
      unfold consistMass
      have hf : consistNoneFold k true (l :: ls') = .ok true :=
        consistNoneFold_all k (l :: ls') true (by
          intro l' hl'; exact ⟨none, hall l' hl', rfl⟩)
      simp only [bind, Res.bind, hall l (by simp), Option.isNone_none, hf, if_true]

/-- **consist maximum force is the sum of its units'**: `Consist::force_max()` answers `Ok(r)`
    exactly when every unit passes `check_force_max` (the force half of its invariant), and then
    `r = Σ force_max_i` -/
def C20_consist_force_max_statement : Prop :=
  ∀ (k : MC α) (ls : List (Loco α)) (r : α),
    consistForceMax k ls = .ok r ↔
      ((∀ l ∈ ls, InvForce k l) ∧ r = (ls.map (fun l => l.forceMax)).sum)

theorem C20_consist_force_max : C20_consist_force_max_statement (α := α) := by
  intro k ls r
  unfold consistForceMax
  constructor
  · intro h
    have hu := consistForceFold_units k ls 0 r h
    rw [consistForceFold_ok k ls 0 hu, zero_add] at h
    cases h
    exact ⟨fun l hl => (checkForceMax_iff k l).mp (hu l hl), rfl⟩
  · rintro ⟨hu, e⟩
    rw [consistForceFold_ok k ls 0 (fun l hl => (checkForceMax_iff k l).mpr (hu l hl)), zero_add, e]

example : okVal (consistMass kQ [locoEx, belEx, locoEx]) = some (some 553000) := by decide +kernel
/-- a unit that knows no mass at all next to one that does: `Err` -/
def blankEx : Loco ℚ :=
  { pt := .bel (noneC 1), mass := none, mu := none, ballast := none, baseline := none, forceMax := 1 }
example : okVal (consistMass kQ [locoEx, blankEx]) = none := by decide +kernel
example : okVal (consistMass kQ [blankEx, blankEx]) = some none := by decide +kernel
example : okVal (consistForceMax kQ [locoEx, belEx]) =
    some (3 / 10 * 195000 * kQ.g + 3 / 10 * 163000 * kQ.g) := by decide +kernel

/-! ## §6 Train static mass -/

theorem towedMass_ok_iff (cast : Nat → α) (o : Option α) (rvs : List (RV α)) (n : List (Nat × Nat))
    (t : α) :
    towedMass cast o rvs n = .ok t ↔
      (rvs ≠ [] ∧ (∀ rv ∈ rvs, ∃ c, nCars n rv.key = some c) ∧
        t = match o with
          | some m => m
          | none => (rvs.map (carMass cast n)).sum) := by
  unfold towedMass
  constructor
  · intro h
    cases hf : carsMassFold cast n 0 rvs with
    | err e => rw [hf] at h; simp at h
    | panic e => rw [hf] at h; simp at h
    | ok s =>
      have hk := carsMassFold_missing cast n rvs 0 s hf
      rw [hf] at h
      rw [carsMassFold_ok cast n rvs 0 hk, zero_add] at hf
      cases hf
      cases rvs with
      | nil => simp at h
      | cons rv rvs' =>
        simp only [List.isEmpty_cons, Bool.false_eq_true, if_false, Res.ok.injEq] at h
        refine ⟨by simp, hk, ?_⟩
        rw [← h]
        cases o <;> rfl
  · rintro ⟨hne, hk, e⟩
    rw [carsMassFold_ok cast n rvs 0 hk, zero_add]
    cases rvs with
    | nil => exact absurd rfl hne
    | cons rv rvs' =>
      simp only [List.isEmpty_cons, Bool.false_eq_true, if_false, Res.ok.injEq]
      rw [e]
      cases o <;> rfl

/-- **a train's static mass is its cars (or the explicit override) plus the consist.**
    `make_train_sim_parts` answers `Ok` with `(towed, static)` exactly when the car-type keys match,
    there is at least one vehicle type, and `Consist::mass()` answers `Ok(cm)`; then
    `towed = override` if given, else `Σ_types (base + freight)·n`, and
    `static = towed + cm` (`+ 0` for a consist without mass).  Note: the car sum is evaluated even
    when the override is given, so its errors reject the call in both cases. -/
def C20_train_static_mass_statement : Prop :=
  ∀ (k : MC α) (cast : Nat → α) (o : Option α) (rvs : List (RV α)) (n : List (Nat × Nat))
    (ls : List (Loco α)) (t s : α),
    trainMassStatic k cast o rvs n ls = .ok (t, s) ↔
      (checkRvKeys rvs n = true ∧ rvs ≠ [] ∧
       t = (match o with
          | some m => m
          | none => (rvs.map (carMass cast n)).sum) ∧
       ∃ cm, consistMass k ls = .ok cm ∧
         s = t + match cm with
           | some m => m
           | none => 0)

theorem C20_train_static_mass : C20_train_static_mass_statement (α := α) := by
  intro k cast o rvs n ls t s
  unfold trainMassStatic
  constructor
  · intro h
    by_cases hk : checkRvKeys rvs n = true
    · simp only [hk, if_true] at h
      cases ht : towedMass cast o rvs n with
      | err e => simp [bind, Res.bind, ht] at h
      | panic e => simp [bind, Res.bind, ht] at h
      | ok t' =>
        cases hc : consistMass k ls with
        | err e => simp [bind, Res.bind, ht, hc] at h
        | panic e => simp [bind, Res.bind, ht, hc] at h
        | ok cm =>
          simp only [bind, Res.bind, ht, hc, Res.ok.injEq, Prod.mk.injEq] at h
          obtain ⟨h1, h2⟩ := h
          subst h1
          obtain ⟨a, _, c⟩ := (towedMass_ok_iff cast o rvs n t').mp ht
          exact ⟨hk, a, c, cm, rfl, h2.symm⟩
    · simp [hk] at h
  · rintro ⟨hk, hne, e, cm, hc, es⟩
    have ht : towedMass cast o rvs n = .ok t :=
      (towedMass_ok_iff cast o rvs n t).mpr ⟨hne, checkRvKeys_lookup rvs n hk, e⟩
    subst es
    simp only [hk, if_true, bind, Res.bind, ht, hc]
    cases cm <;> rfl

/-- 100 loaded hoppers of 30 t + 100 t behind the two units above -/
example : okVal (trainMassStatic kQ (fun n => (n : ℚ)) none [⟨0, 30000, 100000⟩, ⟨1, 25000, 0⟩]
    [(1, 10), (0, 100)] [locoEx, belEx]) = some (13250000, 13608000) := by decide +kernel
/-- the override replaces the cars, not the consist -/
example : okVal (trainMassStatic kQ (fun n => (n : ℚ)) (some 5000000) [⟨0, 30000, 100000⟩]
    [(0, 100)] [locoEx, belEx]) = some (5000000, 5358000) := by decide +kernel

/-! ## §7 Getters and loading from a file with redundant data -/

/-- the getters answer `Ok` only on a consistent object (and then the stored field):
    `force_max()`/`mu()` ⇔ force half; `mass()` ⇒ mass half -/
def C20_loco_getters_statement : Prop :=
  ∀ (k : MC α) (l : Loco α),
    (∀ r, locoForceMax k l = .ok r ↔ (InvForce k l ∧ r = l.forceMax)) ∧
    (∀ r, locoMu k l = .ok r ↔ (InvForce k l ∧ r = l.mu)) ∧
    (∀ r, locoMass k l = .ok r → InvMass k l ∧
      (r = l.mass ∨ (l.mass = none ∧ locoDerived k l = .ok r)))

theorem C20_loco_getters : C20_loco_getters_statement (α := α) := by
  intro k l
  refine ⟨?_, ?_, ?_⟩
  · intro r
    unfold locoForceMax
    rw [← checkForceMax_iff]
    by_cases hc : locoCheckForceMax k l = true
    · simp [hc, eq_comm]
    · simp [hc]
  · intro r
    unfold locoMu
    rw [← checkForceMax_iff]
    by_cases hc : locoCheckForceMax k l = true
    · simp [hc, eq_comm]
    · simp [hc]
  · intro r h
    refine ⟨locoMass_ok_inv k l r h, ?_⟩
    cases r with
    | some m =>
      obtain ⟨g1, _, g3⟩ := locoMass_ok_some k l m h
      cases hm : l.mass with
      | none => exact Or.inr ⟨rfl, g3 hm⟩
      | some m' => rw [g1 m' hm]; exact Or.inl rfl
    | none =>
      unfold locoMass at h
      cases hd : locoDerived k l with
      | err e => simp [hd] at h
      | panic e => simp [hd] at h
      | ok d =>
        cases d with
        | none =>
          cases hm : l.mass with
          | none => exact Or.inl rfl
          | some m => simp [hd, hm, optOr] at h
        | some dm =>
          cases hm : l.mass with
          | none => simp [hd, hm, optOr] at h
          | some m =>
            simp only [hd, hm] at h
            split_ifs at h
            cases h

/-- the components of a powertrain that carry mass data -/
def ptComps : PT α → List (Comp α)
  | .conv fc gen => [fc, gen]
  | .hybrid fc gen res => [fc, gen, res]
  | .bel res => [res]
  | .dummy => []

theorem compInit_ok_iff (k : MC α) (c : Comp α) : compInit k c = .ok () ↔ CompInv k c := by
  unfold compInit
  cases h : compMass k c with
  | ok r =>
    simp only [bind, Res.bind, pure]
    exact ⟨fun _ => ((compMass_ok_iff k c r).mp h).2, fun _ => trivial⟩
  | err e =>
    simp only [bind, Res.bind]
    constructor
    · intro h'; cases h'
    · intro hi
      have := (compMass_ok_iff k c c.mass).mpr ⟨rfl, hi⟩
      rw [h] at this; cases this
  | panic e => exact absurd h (compMass_not_panic k c e)

/-- **load from a file with redundant mass data** (`from_yaml/from_json/…` run `init`): a
    component is accepted exactly when consistent; an accepted locomotive satisfies the full
    invariant and so do all its components; an accepted consist has a well-defined mass and only
    consistent units.  (Holds of the code with `C20-fix-1`/`C20-fix-2`: the pinned code did not
    check `force_max` in `Locomotive::init` nor the mass in `FuelConverter::init`.) -/
def C20_load_statement : Prop :=
  ∀ (k : MC α),
    (∀ c : Comp α, compInit k c = .ok () ↔ CompInv k c) ∧
    (∀ l : Loco α, locoInit k l = .ok () → Inv k l ∧ ∀ c ∈ ptComps l.pt, CompInv k c) ∧
    (∀ ls : List (Loco α), consistInit k ls = .ok () →
      (∃ r, consistMass k ls = .ok r) ∧ ∀ l ∈ ls, Inv k l ∧ ∀ c ∈ ptComps l.pt, CompInv k c)

theorem locoInit_ok (k : MC α) (l : Loco α) (h : locoInit k l = .ok ()) :
    Inv k l ∧ ∀ c ∈ ptComps l.pt, CompInv k c := by
  unfold locoInit at h
  cases hm : locoMass k l with
  | err e => simp [bind, Res.bind, hm] at h
  | panic e => simp [bind, Res.bind, hm] at h
  | ok r =>
    cases hf : locoForceMax k l with
    | err e => simp [bind, Res.bind, hm, hf] at h
    | panic e => simp [bind, Res.bind, hm, hf] at h
    | ok f =>
      have hi : Inv k l := ⟨locoMass_ok_inv k l r hm, (((C20_loco_getters k l).1 f).mp hf).1⟩
      refine ⟨hi, ?_⟩
      simp only [bind, Res.bind, hm, hf] at h
      cases hp : l.pt with
      | dummy => simp [ptComps]
      | bel res =>
        simp only [hp] at h
        simp only [ptComps, List.mem_singleton, forall_eq]
        exact (compInit_ok_iff k res).mp h
      | conv fc gen =>
        simp only [hp] at h
        cases h1 : compInit k fc with
        | err e => simp [h1] at h
        | panic e => simp [h1] at h
        | ok u =>
          simp only [h1] at h
          intro c hc
          simp only [ptComps, List.mem_cons, List.not_mem_nil, or_false] at hc
          rcases hc with e | e
          · subst e; exact (compInit_ok_iff k c).mp h1
          · subst e; exact (compInit_ok_iff k c).mp h
      | hybrid fc gen res =>
        simp only [hp] at h
        cases h1 : compInit k fc with
        | err e => simp [h1] at h
        | panic e => simp [h1] at h
        | ok u =>
          simp only [h1] at h
          cases h2 : compInit k gen with
          | err e => simp [h2] at h
          | panic e => simp [h2] at h
          | ok u2 =>
            simp only [h2] at h
            intro c hc
            simp only [ptComps, List.mem_cons, List.not_mem_nil, or_false] at hc
            rcases hc with e | e | e
            · subst e; exact (compInit_ok_iff k c).mp h1
            · subst e; exact (compInit_ok_iff k c).mp h2
            · subst e; exact (compInit_ok_iff k c).mp h

theorem locosInit_ok (k : MC α) (ls : List (Loco α)) (h : locosInit k ls = .ok ()) :
    ∀ l ∈ ls, Inv k l ∧ ∀ c ∈ ptComps l.pt, CompInv k c := by
  induction ls with
  | nil => simp
  | cons l ls ih =>
    unfold locosInit at h
    cases h1 : locoInit k l with
    | err e => simp [bind, Res.bind, h1] at h
    | panic e => simp [bind, Res.bind, h1] at h
    | ok u =>
      simp only [bind, Res.bind, h1] at h
      intro l' hl'
      rcases List.mem_cons.mp hl' with e | e
      · subst e; exact locoInit_ok k l' h1
      · exact ih h l' e

theorem C20_load : C20_load_statement (α := α) := by
  intro k
  refine ⟨compInit_ok_iff k, locoInit_ok k, ?_⟩
  intro ls h
  unfold consistInit at h
  cases hm : consistMass k ls with
  | err e => simp [bind, Res.bind, hm] at h
  | panic e => simp [bind, Res.bind, hm] at h
  | ok r =>
    simp only [bind, Res.bind, hm] at h
    exact ⟨⟨r, rfl⟩, locosInit_ok k ls h⟩

example : locoInit kQ belEx = .ok () := by
  have : (locoInit kQ belEx).isOk = true := by decide +kernel
  revert this; cases locoInit kQ belEx <;> simp [Res.isOk]
/-- a file giving `μ`, `mass` and a `force_max` that contradicts them is rejected -/
example : (locoInit kQ { belEx with forceMax := 1 }).isOk = false := by decide +kernel
/-- a file giving a FuelConverter `mass` that contradicts `pwr_out_max / specific_pwr` is rejected -/
example : (compInit kQ { mass := some 1000, specific := some 2, rating := 3356000 }).isOk = false := by
  decide +kernel

end Altrios.Proofs.C20
