import Altrios.Powertrain
import Altrios.SpeedPoints
import Generated.Kernels
import Mathlib.Algebra.Order.Field.Basic
import Mathlib.Tactic.SplitIfs
/-
  Kernels — the TRANSLATOR tie between the Lean model and the Rust source (DESIGN.md §10, last bullet).

  `Generated/Kernels.lean` (namespace `Altrios.Gen`) is re-written from /repo's CURRENT Rust text by
  `/verif/scan/translate_kernels.py` on every check: one definition per straight-line powertrain kernel,
  a statement-by-statement reading of the Rust (sequence of record updates, `?` = bind, `ensure!` = `ensure`).
  This file proves, over an arbitrary linearly ordered field, that every regenerated definition EQUALS the
  hand-written model definition (`Altrios.PT.*`, `Altrios.almost*`, `Altrios.SP.minSpeed`), as values of
  `Res` — same outcome, same `err` tag, same record.  Hence every theorem of C01 / C08 / C09 / C10 about
  `PT.f` is, by rewriting with `f_eq`, a theorem about what the Rust text says now.  A semantic edit of one
  of the Rust functions changes the generated text and breaks the corresponding proof here, whether or not
  any generated test input reaches the edited path.

  The proofs use only the CONTENT of the generated definitions (unfold, normalise the monad, split every
  `if`, descend under every bind, `rfl`): they do not depend on names of temporaries, line numbers or layout.

  What the equalities make visible (each is a difference between the Rust text and the hand model that the
  proof has to bridge):
    * `ensure!(eta >= 0 || eta <= 1)` (four kernels) is kept by the translator and dropped by the model:
      `taut01` shows it can never fail in a linear order with `0 ≤ 1`.  (At `Float` it fails exactly for NaN.)
    * fields written before a later `?`/`ensure!` fails are lost in both (the result is only the error).
    * `if self.pwr_in_frac_interp.is_empty() { self.set_pwr_in_frac_interp()? }` is the model's `ensureInFrac`.
    * `pwr_aux: Option<_>`: `Generator::set_cur_pwr_max_out` is the model at `some aux` (it `unwrap`s),
      `ElectricDrivetrain::set_cur_pwr_max_out` is the model at `none` (`some` is rejected: `edrvSetCurMax_some`).
    * `charge_buffer.unwrap_or_default()` is the model's explicit buffer parameter (`getD 0`).
    * `soc_*_ramp_start.unwrap()` after the `is_none()` defaulting can never panic.
-/
set_option linter.unusedSectionVars false
namespace Altrios.Proofs.Kernels
open Altrios Altrios.Interp

variable {α : Type} [Field α] [LinearOrder α] [IsStrictOrderedRing α]

/-- every listed Rust function was inside the translator's subset on this tree
    (otherwise `Generated/Kernels.lean` contains always-panicking stubs and the list of reasons) -/
theorem translator_ok : Gen.translatorOk = true ∧ Gen.translatorErrors = [] := ⟨rfl, rfl⟩

/-! ### `utils::almost_*` (epsilon: `None` ↦ 1e-8) and `min_speed` -/

-- (proved by `cases`, not by a bare `rfl`, so that `simp` rewrites with them through `ite` conditions)
theorem almostEq_eq (k : PT.Consts α) (a b : α) (e : Option α) :
    Gen.almostEq k a b e = almostEq a b (e.getD k.eps) := by cases e <;> rfl
theorem almostGt_eq (k : PT.Consts α) (a b : α) (e : Option α) :
    Gen.almostGt k a b e = almostGt a b (e.getD k.eps) := by cases e <;> rfl
theorem almostLt_eq (k : PT.Consts α) (a b : α) (e : Option α) :
    Gen.almostLt k a b e = almostLt a b (e.getD k.eps) := by cases e <;> rfl
theorem almostGe_eq (k : PT.Consts α) (a b : α) (e : Option α) :
    Gen.almostGe k a b e = almostGe a b (e.getD k.eps) := by cases e <;> rfl
theorem almostLe_eq (k : PT.Consts α) (a b : α) (e : Option α) :
    Gen.almostLe k a b e = almostLe a b (e.getD k.eps) := by cases e <;> rfl

/-- `min_speed` (`is_sign_positive` read as `0 ≤ ·`, the translator's recorded assumption) -/
theorem minSpeed_eq (k : PT.Consts α) (a b : α) : Gen.minSpeed k a b = SP.minSpeed a b := rfl

/-! ### normalisation of the `Res` monad -/

/-- `ensure!(eta >= 0 || eta <= 1)` never fails: `0 ≤ η ∨ η ≤ 1` is a tautology because `0 ≤ 1`. -/
theorem taut01 (x : α) : (decide (0 ≤ x) || decide (x ≤ 1)) = true := by
  rcases le_total 0 x with h | h
  · simp [h]
  · simp [le_trans h zero_le_one]

theorem bind_ok {σ τ} (a : σ) (f : σ → Res τ) : Res.bind (Res.ok a) f = f a := rfl
theorem bind_err {σ τ} (e : String) (f : σ → Res τ) : Res.bind (Res.err e) f = Res.err e := rfl
theorem bind_panic {σ τ} (e : String) (f : σ → Res τ) : Res.bind (Res.panic e) f = Res.panic e := rfl
theorem bind_ite {σ τ} (c : Prop) [Decidable c] (a b : Res σ) (f : σ → Res τ) :
    Res.bind (if c then a else b) f = if c then Res.bind a f else Res.bind b f := by
  split_ifs <;> rfl
theorem bind_congr {σ τ} {r : Res σ} {f g : σ → Res τ} (h : ∀ s, f s = g s) :
    Res.bind r f = Res.bind r g := by
  cases r <;> simp [Res.bind, h]

/-- unfold the monad, push binds through `if`, evaluate binds of constructors, resolve the generated
    `almost_*` calls, `Option` tests on constructors and the vacuous efficiency-range check -/
macro "kernel_norm" : tactic => `(tactic|
  simp only [almostEq_eq, almostGt_eq, almostLt_eq, almostGe_eq, almostLe_eq, Option.getD_some, Option.getD_none,
    bind, pure, bind_ok, bind_err, bind_panic, bind_ite, ensure, Gen.unwrapOpt, taut01,
    List.isEmpty_nil, Option.isNone_none, Option.isNone_some, Bool.false_eq_true, ↓reduceIte])

/-- both sides perform the same effects in the same order: split every `if`, step under every bind of a
    call that is stuck (`interp1d`, `interp3d`), close the leaves by `rfl` (at reducible transparency: after
    `kernel_norm` equal leaves are syntactically equal, and a leaf that differs after an edit of the Rust text
    fails at once instead of unfolding the field structure until the heartbeat limit) -/
macro "kernel_eq" : tactic => `(tactic| (
  -- β/ζ/projection-normalise first, INCLUDING instance arguments: otherwise the `Decidable` instances of
  -- the conditions keep stale copies of the un-normalised terms (with `if`s inside them that `split_ifs`
  -- would find), which makes a failing proof run to the heartbeat limit instead of failing at once
  try dsimp +instances only
  all_goals try kernel_norm
  all_goals repeat' (first
    | (split_ifs <;> try kernel_norm)
    | (apply bind_congr; intro _; try kernel_norm)
    | with_reducible rfl)))

/-! ### FuelConverter -/

/-- `FuelConverter::set_cur_pwr_out_max` -/
theorem fcSetCurMax_eq (k : PT.Consts α) (fc : PT.FC α) (dt : α) :
    Gen.fcSetCurMax k fc dt = PT.fcSetCurMax k fc dt := by
  unfold Gen.fcSetCurMax PT.fcSetCurMax
  kernel_eq

/-- `FuelConverter::solve_energy_consumption` -/
theorem fcSolve_eq (k : PT.Consts α) (fc : PT.FC α) (req dt : α) (engineOn assertLimits : Bool) :
    Gen.fcSolve k fc req dt engineOn assertLimits = PT.fcSolve k fc req dt engineOn assertLimits := by
  unfold Gen.fcSolve PT.fcSolve
  kernel_eq

/-! ### Generator -/

/-- `Generator::set_pwr_in_frac_interp` is the model's `ensureInFrac` on an empty cache -/
theorem genSetInFrac_eq (k : PT.Consts α) (g : PT.Gen α) :
    Gen.genSetInFrac k g =
      (PT.ensureInFrac [] g.fracInterp g.etaInterp).bind (fun c => .ok { g with inFracInterp := c }) := by
  unfold Gen.genSetInFrac PT.ensureInFrac PT.inFrac
  kernel_eq

/-- `Generator::set_pwr_in_req` -/
theorem genReq_eq (k : PT.Consts α) (g : PT.Gen α) (prop aux dt : α) :
    Gen.genReq k g prop aux dt = PT.genReq g prop aux dt := by
  unfold Gen.genReq PT.genReq
  kernel_eq

/-- `Generator::set_cur_pwr_max_out(pwr_in_max, Some(pwr_aux))` -/
theorem genSetCurMax_eq (k : PT.Consts α) (g : PT.Gen α) (pwrInMax aux : α) :
    Gen.genSetCurMax k g pwrInMax (some aux) = PT.genSetCurMax g pwrInMax aux := by
  unfold Gen.genSetCurMax PT.genSetCurMax Gen.genSetInFrac PT.ensureInFrac PT.inFrac
  kernel_eq

/-! ### ElectricDrivetrain -/

/-- `ElectricDrivetrain::set_pwr_in_frac_interp` is the model's `ensureInFrac` on an empty cache -/
theorem edrvSetInFrac_eq (k : PT.Consts α) (e : PT.Edrv α) :
    Gen.edrvSetInFrac k e =
      (PT.ensureInFrac [] e.fracInterp e.etaInterp).bind (fun c => .ok { e with inFracInterp := c }) := by
  unfold Gen.edrvSetInFrac PT.ensureInFrac PT.inFrac
  kernel_eq

/-- `ElectricDrivetrain::set_cur_pwr_max_out(pwr_in_max, None)` -/
theorem edrvSetCurMax_eq (k : PT.Consts α) (e : PT.Edrv α) (pwrInMax : α) :
    Gen.edrvSetCurMax k e pwrInMax none = PT.edrvSetCurMax e pwrInMax := by
  unfold Gen.edrvSetCurMax PT.edrvSetCurMax Gen.edrvSetInFrac PT.ensureInFrac PT.inFrac
  kernel_eq

/-- `ElectricDrivetrain::set_cur_pwr_max_out(_, Some(_))` is rejected before anything is written -/
theorem edrvSetCurMax_some (k : PT.Consts α) (e : PT.Edrv α) (pwrInMax a : α) :
    Gen.edrvSetCurMax k e pwrInMax (some a) = .err "edrv-aux-not-none" := by
  unfold Gen.edrvSetCurMax
  kernel_eq

/-- `ElectricDrivetrain::set_cur_pwr_regen_max` -/
theorem edrvSetRegenMax_eq (k : PT.Consts α) (e : PT.Edrv α) (regenIn : α) :
    Gen.edrvSetRegenMax k e regenIn = PT.edrvSetRegenMax e regenIn := by
  unfold Gen.edrvSetRegenMax PT.edrvSetRegenMax Gen.edrvSetInFrac PT.ensureInFrac PT.inFrac
  kernel_eq

/-- `ElectricDrivetrain::set_pwr_in_req` -/
theorem edrvReq_eq (k : PT.Consts α) (e : PT.Edrv α) (req dt : α) :
    Gen.edrvReq k e req dt = PT.edrvReq e req dt := by
  unfold Gen.edrvReq PT.edrvReq
  kernel_eq

/-! ### ReversibleEnergyStorage -/

/-- `ReversibleEnergyStorage::set_cur_pwr_out_max(pwr_aux, charge_buffer, discharge_buffer)`:
    the model's buffer parameters are `unwrap_or_default()` of the options -/
theorem resSetCurMax_eq (k : PT.Consts α) (r : PT.RES α) (aux : α) (chargeBuf dischBuf : Option α) :
    Gen.resSetCurMax k r aux chargeBuf dischBuf
      = PT.resSetCurMax k r aux (chargeBuf.getD 0) (dischBuf.getD 0) := by
  unfold Gen.resSetCurMax PT.resSetCurMax
  obtain ⟨st, pm, ec, cw, mns, mxs, hi, lo, gt, gs, gc, ev⟩ := r
  cases hi <;> cases lo <;> kernel_eq

/-- the two call shapes that occur: explicit buffers, and `None, None` (the locomotive) -/
theorem resSetCurMax_some (k : PT.Consts α) (r : PT.RES α) (aux cb db : α) :
    Gen.resSetCurMax k r aux (some cb) (some db) = PT.resSetCurMax k r aux cb db := by
  rw [resSetCurMax_eq]; rfl
theorem resSetCurMax_none (k : PT.Consts α) (r : PT.RES α) (aux : α) :
    Gen.resSetCurMax k r aux none none = PT.resSetCurMax k r aux 0 0 := by
  rw [resSetCurMax_eq]; rfl

/-- `ReversibleEnergyStorage::solve_energy_consumption` -/
theorem resSolve_eq (k : PT.Consts α) (r : PT.RES α) (prop aux dt : α) :
    Gen.resSolve k r prop aux dt = PT.resSolve k r prop aux dt := by
  unfold Gen.resSolve PT.resSolve
  kernel_eq

/-! ### the regenerated definitions are not degenerate: a concrete run over `ℚ`
    (a stub emitted for an untranslatable function would always panic) -/
section Examples

def kQ : PT.Consts Rat := { tol := 1/1000, eps := 1/100000000, c005 := 1/20, ten := 10 }
def fcQ : PT.FC Rat :=
  { state := { pwrOutMax := 0, eta := 0, pwrBrake := 1000, pwrFuel := 0, pwrLoss := 0, pwrIdleFuel := 0,
               energyBrake := 0, energyFuel := 0, energyLoss := 0, energyIdleFuel := 0, engineOn := true },
    pwrOutMax := 8000, pwrOutMaxInit := 500, pwrRampLag := 25, fracInterp := [0, 1], etaInterp := [2/5, 2/5],
    pwrIdleFuel := 50 }

/-- ramp: min (1000 + 8000/25·2) 8000 = 1640, floor max 500 (8000/10) = 800 -/
example : (match Gen.fcSetCurMax kQ fcQ 2 with
    | .ok fc => fc.state.pwrOutMax == 1640 && fc.pwrOutMaxInit == 800 | _ => false) = true := by decide +kernel
/-- constant map η = 2/5: 1000 W out costs 1000/(2/5) + 50 = 2550 W of fuel -/
example : (match Gen.fcSolve kQ fcQ 1000 2 true false with
    | .ok fc => fc.state.pwrFuel == 2550 && fc.state.energyLoss == 3100 | _ => false) = true := by decide +kernel
/-- a negative demand is rejected with the model's tag -/
example : (match Gen.fcSolve kQ fcQ (-1) 2 true false with | .err t => t == "fc-neg" | _ => false) = true := by
  decide +kernel

end Examples

end Altrios.Proofs.Kernels
