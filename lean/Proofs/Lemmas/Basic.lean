import Altrios.Num
import Mathlib.Algebra.Order.Field.Basic
import Mathlib.Tactic.Linarith
import Mathlib.Tactic.Ring
import Mathlib.Tactic.SplitIfs
import Mathlib.Data.List.Basic
/-
  Generic bridging lemmas between the import-free primitives of `Altrios/Num.lean`
  (`eqb`, `neb`, `mn`, `mx`, `absv`, `sumLeft`, `ensure`) and the Mathlib notions
  (`=`, `≠`, `min`, `max`, `|·|`, `List.sum`) over a linearly ordered field.
  Shared by several proof files: only APPEND to this file.
-/
set_option linter.unusedSectionVars false
namespace Altrios.Proofs.Basic
open Altrios

variable {α : Type} [Field α] [LinearOrder α] [IsStrictOrderedRing α]

theorem mn_eq_min (a b : α) : mn a b = min a b := by
  unfold mn; split_ifs with h
  · exact (min_eq_right (le_of_lt h)).symm
  · exact (min_eq_left (not_lt.mp h)).symm

theorem mx_eq_max (a b : α) : mx a b = max a b := by
  unfold mx; split_ifs with h
  · exact (max_eq_right (le_of_lt h)).symm
  · exact (max_eq_left (not_lt.mp h)).symm

theorem absv_eq_abs (a : α) : absv a = |a| := by
  unfold absv; split_ifs with h
  · exact (abs_of_neg h).symm
  · exact (abs_of_nonneg (not_lt.mp h)).symm

theorem eqb_iff (a b : α) : eqb a b = true ↔ a = b := by
  unfold eqb
  simp only [Bool.and_eq_true, Bool.not_eq_true', decide_eq_false_iff_not, not_lt]
  constructor
  · rintro ⟨h1, h2⟩; exact le_antisymm h2 h1
  · rintro rfl; exact ⟨le_refl _, le_refl _⟩

theorem eqb_false_iff (a b : α) : eqb a b = false ↔ a ≠ b := by
  rw [← Bool.not_eq_true, eqb_iff]

theorem neb_iff (a b : α) : neb a b = true ↔ a ≠ b := by
  unfold neb
  rw [Bool.not_eq_true', ← Bool.not_eq_true, eqb_iff]

/-! ### `sumLeft` is `List.sum` -/

theorem foldl_add_eq (l : List α) (a : α) : l.foldl (· + ·) a = a + l.sum := by
  induction l generalizing a with
  | nil => simp
  | cons x xs ih => rw [List.foldl_cons, ih, List.sum_cons, add_assoc]

theorem sumLeft_eq_sum (l : List α) : sumLeft l = l.sum := by
  unfold sumLeft; rw [foldl_add_eq, zero_add]

theorem sumLeft_nil : sumLeft ([] : List α) = 0 := rfl

theorem sumLeft_cons (x : α) (xs : List α) : sumLeft (x :: xs) = x + sumLeft xs := by
  rw [sumLeft_eq_sum, sumLeft_eq_sum, List.sum_cons]

/-! ### `ensure` and `Res` -/

theorem ensure_ok_iff (c : Bool) (tag : String) (u : Unit) : ensure c tag = .ok u ↔ c = true := by
  unfold ensure; cases c <;> simp

end Altrios.Proofs.Basic
