import Altrios.Train
import Altrios.Braking
import Proofs.Lemmas.Basic
import Proofs.Lemmas.Ledger
import Mathlib.Algebra.Order.Field.Basic
import Mathlib.Tactic.Linarith
import Mathlib.Tactic.Ring
import Mathlib.Tactic.FieldSimp
import Mathlib.Tactic.LinearCombination
import Mathlib.Tactic.SplitIfs
import Mathlib.Data.List.Basic
/-
  Helper lemmas for C03 (speed-limited train): the two index loops of `BrakingPoints::calc_speeds`
  (`bpDescend`, `bpLookAhead`), a named-intermediate presentation of
  `SpeedLimitTrainSim::solve_required_pwr` (`slRequiredPwr_eq`, by `rfl`) with its inversion
  (`slRequiredPwr_inv`), and the one-step kinematics of the force clip.
-/
set_option linter.unusedSectionVars false
namespace Altrios.Proofs.BrakeL
open Altrios Altrios.Tr Altrios.Rs Altrios.CS Altrios.SP Altrios.Tpc Altrios.Brk Altrios.Proofs.Basic
  Altrios.Proofs.LedgerL

variable {α : Type} [Field α] [LinearOrder α] [IsStrictOrderedRing α]

/-! decidable equality of outcomes, for `decide +kernel` on concrete `ℚ` runs (proof side only) -/
deriving instance DecidableEq for Altrios.Tr.BrakingPoint
deriving instance DecidableEq for Altrios.Tr.BrakingPoints
deriving instance DecidableEq for Altrios.Res

/-- Boolean test of an outcome: accepted and the new value satisfies `p` (for `decide +kernel` on `ℚ`) -/
def okAnd {σ} (p : σ → Bool) : Res σ → Bool | .ok x => p x | _ => false

theorem okAnd_exists {σ} {p : σ → Bool} {r : Res σ} (h : okAnd p r = true) :
    ∃ x, r = .ok x ∧ p x = true := by
  cases r <;> simp_all [okAnd]

/-- Boolean test of an outcome: a panic -/
def isPanic {σ} : Res σ → Bool | .panic _ => true | _ => false

theorem isPanic_exists {σ} {r : Res σ} (h : isPanic r = true) : ∃ m, r = .panic m := by
  cases r <;> simp_all [isPanic]

/-! ### checked access -/

theorem getB_ok {l : List (BrakingPoint α)} {i : Nat} {p : BrakingPoint α} :
    getB l i = .ok p ↔ l[i]? = some p := by
  unfold getB; cases l[i]? <;> simp

theorem getB_of_some {l : List (BrakingPoint α)} {i : Nat} {p : BrakingPoint α} (h : l[i]? = some p) :
    getB l i = .ok p := getB_ok.mpr h

theorem exists_get_of_lt {l : List (BrakingPoint α)} {i : Nat} (h : i < l.length) :
    ∃ p, l[i]? = some p := ⟨l[i], List.getElem?_eq_getElem h⟩

/-- offsets non-increasing along the list, in `getElem?` form -/
theorem mono_get {l : List (BrakingPoint α)} (hm : l.Pairwise (fun a b => b.off ≤ a.off))
    {j k : Nat} {a b : BrakingPoint α} (hj : l[j]? = some a) (hk : l[k]? = some b) (hjk : j ≤ k) :
    b.off ≤ a.off := by
  rcases Nat.lt_or_eq_of_le hjk with hlt | rfl
  · obtain ⟨h1, rfl⟩ := List.getElem?_eq_some_iff.mp hj
    obtain ⟨h2, rfl⟩ := List.getElem?_eq_some_iff.mp hk
    exact (List.pairwise_iff_getElem.mp hm) j k h1 h2 hlt
  · rw [hj] at hk; cases hk; exact le_refl _

/-! ### `while points[idx_curr - 1].offset <= offset { idx_curr -= 1 }` -/

/-- The descent never underflows and never runs out of fuel when the first point lies beyond `x`;
    it stops at the first index (going down from `i`) whose predecessor lies beyond `x`.
    No ordering of the offsets is used. -/
theorem bpDescend_spec (pts : List (BrakingPoint α)) (x : α) {p0 : BrakingPoint α}
    (h0 : pts[0]? = some p0) (hx : x < p0.off) :
    ∀ (f i : Nat), i < f → 1 ≤ i → i < pts.length →
      ∃ k, bpDescend pts x f i = .ok k ∧ 1 ≤ k ∧ k ≤ i ∧
        (∃ q, pts[k - 1]? = some q ∧ x < q.off) ∧
        (∀ j, k ≤ j → j < i → ∃ q, pts[j]? = some q ∧ q.off ≤ x) := by
  intro f
  induction f with
  | zero => intro i h; omega
  | succ f ih =>
    intro i hf h1 hlen
    obtain ⟨p, hp⟩ := exists_get_of_lt (l := pts) (i := i - 1) (by omega)
    unfold bpDescend
    rw [if_neg (by omega)]
    simp only [bind, Res.bind, getB_of_some hp]
    by_cases hle : p.off ≤ x
    · rw [if_pos hle]
      have hi1 : 1 ≤ i - 1 := by
        by_contra hcon
        have : i - 1 = 0 := by omega
        rw [this, h0] at hp; cases hp
        exact absurd hle (not_le.mpr hx)
      obtain ⟨k, hk, hk1, hki, hq, hall⟩ := ih (i - 1) (by omega) hi1 (by omega)
      refine ⟨k, hk, hk1, by omega, hq, ?_⟩
      intro j hkj hji
      by_cases hj : j < i - 1
      · exact hall j hkj hj
      · have : j = i - 1 := by omega
        subst this; exact ⟨p, hp, hle⟩
    · rw [if_neg hle]
      refine ⟨i, rfl, h1, le_refl _, ⟨p, hp, not_le.mp hle⟩, ?_⟩
      intro j h1 h2; omega

/-! ### `while idx >= 1 && points[idx - 1].offset <= offset_far { target = min …; idx -= 1 }` -/

/-- The look-ahead never fails; it folds `min` over the targets of the maximal run of points
    `k ≤ j < i` whose offsets are `≤ far`.  No ordering of the offsets is used. -/
theorem bpLookAhead_spec (pts : List (BrakingPoint α)) (far : α) :
    ∀ (f i : Nat) (tgt : α), i < f → i ≤ pts.length →
      ∃ k t, bpLookAhead pts far f i tgt = .ok t ∧ k ≤ i ∧
        (k = 0 ∨ ∃ q, pts[k - 1]? = some q ∧ far < q.off) ∧
        (∀ j, k ≤ j → j < i → ∃ q, pts[j]? = some q ∧ q.off ≤ far ∧ t ≤ q.target) ∧
        t ≤ tgt ∧
        (t = tgt ∨ ∃ j q, k ≤ j ∧ j < i ∧ pts[j]? = some q ∧ t = q.target) := by
  intro f
  induction f with
  | zero => intro i tgt h; omega
  | succ f ih =>
    intro i tgt hf hlen
    unfold bpLookAhead
    by_cases hi : i ≥ 1
    · rw [if_pos hi]
      obtain ⟨p, hp⟩ := exists_get_of_lt (l := pts) (i := i - 1) (by omega)
      simp only [bind, Res.bind, getB_of_some hp]
      by_cases hle : p.off ≤ far
      · rw [if_pos hle]
        obtain ⟨k, t, hk, hki, hstop, hall, htle, hwit⟩ := ih (i - 1) (mn tgt p.target) (by omega) (by omega)
        rw [mn_eq_min] at htle hwit
        refine ⟨k, t, hk, by omega, hstop, ?_, le_trans htle (min_le_left _ _), ?_⟩
        · intro j hkj hji
          by_cases hj : j < i - 1
          · exact hall j hkj hj
          · have : j = i - 1 := by omega
            subst this; exact ⟨p, hp, hle, le_trans htle (min_le_right _ _)⟩
        · rcases hwit with hw | ⟨j, q, h1, h2, h3, h4⟩
          · rcases min_choice tgt p.target with hm | hm
            · left; rw [hw, hm]
            · right; exact ⟨i - 1, p, hki, by omega, hp, by rw [hw, hm]⟩
          · right; exact ⟨j, q, h1, by omega, h3, h4⟩
      · rw [if_neg hle]
        refine ⟨i, tgt, rfl, le_refl _, Or.inr ⟨p, hp, not_le.mp hle⟩, ?_, le_refl _, Or.inl rfl⟩
        intro j h1 h2; omega
    · rw [if_neg hi]
      refine ⟨i, tgt, rfl, le_refl _, Or.inl (by omega), ?_, le_refl _, Or.inl rfl⟩
      intro j h1 h2; omega

/-- whatever the list looks like, an accepted look-ahead never RAISES the target -/
theorem bpLookAhead_le (pts : List (BrakingPoint α)) (far : α) :
    ∀ (f i : Nat) (tgt t : α), bpLookAhead pts far f i tgt = .ok t → t ≤ tgt := by
  intro f
  induction f with
  | zero => intro i tgt t h; simp [bpLookAhead] at h
  | succ f ih =>
    intro i tgt t h
    unfold bpLookAhead at h
    split_ifs at h with hi
    · simp only [bind_ok] at h
      obtain ⟨p, _, h⟩ := h
      split_ifs at h with hle
      · have := ih _ _ _ h
        rw [mn_eq_min] at this
        exact le_trans this (min_le_left _ _)
      · simp only [pure_ok] at h; exact le_of_eq h.symm
    · simp only [pure_ok] at h; exact le_of_eq h.symm

/-- inversion of an accepted `calc_speeds` (no assumption on the list) -/
theorem calcSpeeds_inv {bp bp' : BrakingPoints α} {offset speed adj limit target : α}
    (h : calcSpeeds bp offset speed adj = .ok (bp', limit, target)) :
    ∃ idx cur, bp.points[idx]? = some cur ∧ bp' = { bp with idxCurr := idx } ∧ limit = cur.limit ∧
      speed ≤ cur.limit ∧
      bpLookAhead bp.points (offset + speed * adj) (bp.points.length + 1) idx cur.target = .ok target := by
  unfold calcSpeeds at h
  simp only [bind_ok, pure_ok, ite_ok, reduceCtorEq, and_false, false_or,
    decide_eq_false_iff_not, not_not, Bool.not_eq_eq_eq_not, Bool.not_true] at h
  obtain ⟨first, _, idx, _, cur, hcur, hs, t, ht, heq⟩ := h
  simp only [Prod.mk.injEq] at heq
  obtain ⟨rfl, rfl, rfl⟩ := heq
  exact ⟨idx, cur, getB_ok.mp hcur, rfl, rfl, by simpa using hs, ht⟩

/-! ### `solve_required_pwr` with named intermediates -/

section defs
variable (c : TrConsts α) (sqrt : α → α) (fm : α) (cs : ConsistState α) (fb : FricBrake α)
  (s : TrainState α) (target : α)

/-- `f_applied_target` -/
def fTarget : α := resNet s.r + massCompound s * (target - s.r.speed) / s.k.dt
/-- `pwr_pos_max` -/
def pwrPosMax : α := mn cs.pwrOutMax (mx 0 (s.k.pwrWhlOut + cs.pwrRateOutMax * s.k.dt))
/-- `pwr_neg_max` -/
def pwrNegMax : α := mx cs.pwrDynBrakeMax 0
/-- `time_per_mass` -/
def tpm : α := s.k.dt / massCompound s
/-- `v_max` -/
def vMax : α :=
  c.half * ((s.r.speed - resNet s.r * tpm s) +
    sqrt ((s.r.speed - resNet s.r * tpm s) * (s.r.speed - resNet s.r * tpm s) +
      c.four * tpm s * pwrPosMax cs s))
/-- `f_pos_max` -/
def fPosMax : α := mn fm (pwrPosMax cs s / mn target (vMax c sqrt cs s))
/-- `f_max_consist_regen_dyn` -/
def fRegenDyn : α :=
  if cs.pwrDynBrakeMax / fm < s.r.speed then cs.pwrDynBrakeMax / vMax c sqrt cs s else fm
/-- `fric_brake.state.force_max_curr` after `set_cur_force_max_out(dt)` -/
def fmcNew : α := (fricSetCurMax fb s.k.dt).forceMaxCurr
/-- the lower clip `-force_max_curr - f_max_consist_regen_dyn` -/
def lowClip : α := -fmcNew fb s - fRegenDyn c sqrt fm cs s
/-- `f_applied` -/
def fApplied : α :=
  mn (fPosMax c sqrt fm cs s target) (mx (fTarget s target) (lowClip c sqrt fm cs fb s))
/-- `vel_change` -/
def dv : α := tpm s * (fApplied c sqrt fm cs fb s target - resNet s.r)
/-- the speed before the `almost_eq` snap -/
def speed0 : α := s.r.speed + dv c sqrt fm cs fb s target
/-- the new speed -/
def speedNew : α :=
  if almostEq (speed0 c sqrt fm cs fb s target) target c.eps then target
  else speed0 c sqrt fm cs fb s target
/-- `vel_avg` -/
def vAvg : α := s.r.speed + c.half * dv c sqrt fm cs fb s target

/-- the friction-brake / consist-force case split: new brake and `f_consist` (or the `ensure!` error) -/
def fricOut (fb1 : FricBrake α) (fA fR eps : α) : FricBrake α × Res α :=
  if 0 ≤ fA then ({ fb1 with force := 0 }, .ok fA)
  else
    if 0 ≤ fA + fb1.force then (fb1, .ok 0)
    else if 0 ≤ fA + fb1.force + fR then (fb1, .ok (fA + fb1.force))
    else
      if almostLe (-(fA + fR)) fb1.forceMaxCurr eps then ({ fb1 with force := -(fA + fR) }, .ok (-fR))
      else ({ fb1 with force := -(fA + fR) }, .err "fric-brake-over-max")

/-- the final clamp of `pwr_whl_out` -/
def whlOf (whl0 : α) : α := mn (mx whl0 (-pwrNegMax cs)) (pwrPosMax cs s)

/-- the state written by an accepted step -/
def mkState (limit whl : α) : TrainState α :=
  let k := s.k
  let offset := s.r.offset + k.dt * vAvg c sqrt fm cs fb s target
  { r := { s.r with speed := speedNew c sqrt fm cs fb s target, offset := offset,
                    offsetBack := offset - s.r.length },
    k := { k with speedLimit := limit, speedTarget := target,
                  pwrRes := resNet s.r * vAvg c sqrt fm cs fb s target,
                  pwrAccel := massCompound s / (c.two * k.dt) *
                    ((s.r.speed + dv c sqrt fm cs fb s target) * (s.r.speed + dv c sqrt fm cs fb s target)
                      - s.r.speed * s.r.speed),
                  time := k.time + k.dt,
                  totalDist := k.totalDist + absv (k.dt * vAvg c sqrt fm cs fb s target),
                  pwrWhlOut := whl,
                  energyWhlOut := k.energyWhlOut + whl * k.dt,
                  energyWhlOutPos := if 0 ≤ whl then k.energyWhlOutPos + whl * k.dt else k.energyWhlOutPos,
                  energyWhlOutNeg := if 0 ≤ whl then k.energyWhlOutNeg else k.energyWhlOutNeg - whl * k.dt } }
end defs

/-- `slRequiredPwr` is, definitionally, the following program over the named intermediates -/
theorem slRequiredPwr_eq (c : TrConsts α) (sqrt : α → α) (fm : α) (cs : ConsistState α) (fb : FricBrake α)
    (bp : BrakingPoints α) (s : TrainState α) :
    slRequiredPwr c sqrt fm cs fb bp s = (do
      ensure (decide (0 < fb.forceMax + resNet s.r)) "insufficient-braking-force"
      let x ← calcSpeeds bp s.r.offset s.r.speed (fb.rampUpTime * fb.rampUpCoeff)
      ensure (decide (0 ≤ pwrPosMax cs s)) "pos-max-neg"
      if s.r.speed < c.mph01 ∧ fPosMax c sqrt fm cs s x.2.2 ≤ resNet s.r then
        .err "insufficient-power-to-move" else
      let fr := fricOut (fricSetCurMax fb s.k.dt) (fApplied c sqrt fm cs fb s x.2.2)
        (fRegenDyn c sqrt fm cs s) c.eps
      let fConsist ← fr.2
      ensure (almostLe (fConsist * speedNew c sqrt fm cs fb s x.2.2) (pwrPosMax cs s) c.eps7)
        "whl-above-pos-max"
      ensure (almostLe (-(fConsist * speedNew c sqrt fm cs fb s x.2.2)) (pwrNegMax cs) c.eps7)
        "whl-below-neg-max"
      pure (fr.1, x.1, mkState c sqrt fm cs fb s x.2.2 x.2.1
        (whlOf cs s (fConsist * speedNew c sqrt fm cs fb s x.2.2)))) := by
  rfl

/-- Inversion of an accepted `solve_required_pwr`. -/
theorem slRequiredPwr_inv {c : TrConsts α} {sqrt : α → α} {fm : α} {cs : ConsistState α}
    {fb fb' : FricBrake α} {bp bp' : BrakingPoints α} {s s' : TrainState α}
    (h : slRequiredPwr c sqrt fm cs fb bp s = .ok (fb', bp', s')) :
    ∃ limit target fConsist,
      calcSpeeds bp s.r.offset s.r.speed (fb.rampUpTime * fb.rampUpCoeff) = .ok (bp', limit, target) ∧
      0 < fb.forceMax + resNet s.r ∧
      0 ≤ pwrPosMax cs s ∧
      ¬ (s.r.speed < c.mph01 ∧ fPosMax c sqrt fm cs s target ≤ resNet s.r) ∧
      fricOut (fricSetCurMax fb s.k.dt) (fApplied c sqrt fm cs fb s target) (fRegenDyn c sqrt fm cs s) c.eps
        = (fb', .ok fConsist) ∧
      almostLe (fConsist * speedNew c sqrt fm cs fb s target) (pwrPosMax cs s) c.eps7 = true ∧
      almostLe (-(fConsist * speedNew c sqrt fm cs fb s target)) (pwrNegMax cs) c.eps7 = true ∧
      s' = mkState c sqrt fm cs fb s target limit
        (whlOf cs s (fConsist * speedNew c sqrt fm cs fb s target)) := by
  rw [slRequiredPwr_eq] at h
  simp only [bind_ok, pure_ok, ensure_ok, ite_ok, exists_const, decide_eq_true_iff, reduceCtorEq,
    and_false, false_or] at h
  obtain ⟨hbr, ⟨bp1, limit, target⟩, hcs, hpos, hmove, fConsist, hfr, h1, h2, heq⟩ := h
  simp only [Prod.mk.injEq] at heq
  obtain ⟨rfl, rfl, rfl⟩ := heq
  refine ⟨limit, target, fConsist, hcs, hbr, hpos, hmove, ?_, h1, h2, rfl⟩
  exact Prod.ext rfl hfr

/-! ### the force clip -/

section clip
variable (c : TrConsts α) (sqrt : α → α) (fm : α) (cs : ConsistState α) (fb : FricBrake α)
  (s : TrainState α) (target : α)

theorem fApplied_eq :
    fApplied c sqrt fm cs fb s target =
      min (fPosMax c sqrt fm cs s target) (max (fTarget s target) (lowClip c sqrt fm cs fb s)) := by
  unfold fApplied; rw [mn_eq_min, mx_eq_max]

/-- with `m > 0` and `dt ≠ 0`, applying exactly `f_target` produces exactly the target speed -/
theorem tpm_fTarget (hm : 0 < massCompound s) (hdt : 0 < s.k.dt) :
    s.r.speed + tpm s * (fTarget s target - resNet s.r) = target := by
  unfold tpm fTarget
  have h1 : massCompound s ≠ 0 := ne_of_gt hm
  have h2 : s.k.dt ≠ 0 := ne_of_gt hdt
  field_simp
  ring

theorem tpm_pos (hm : 0 < massCompound s) (hdt : 0 < s.k.dt) : 0 < tpm s := div_pos hdt hm

/-- the pre-snap speed is monotone in the applied force: `speed0 − target = tpm·(f_applied − f_target)` -/
theorem speed0_sub_target (hm : 0 < massCompound s) (hdt : 0 < s.k.dt) :
    speed0 c sqrt fm cs fb s target - target =
      tpm s * (fApplied c sqrt fm cs fb s target - fTarget s target) := by
  have := tpm_fTarget s target hm hdt
  unfold speed0 dv
  linear_combination this

theorem speedNew_cases :
    speedNew c sqrt fm cs fb s target = target ∨
    (speedNew c sqrt fm cs fb s target = speed0 c sqrt fm cs fb s target ∧
      almostEq (speed0 c sqrt fm cs fb s target) target c.eps = false) := by
  unfold speedNew; split_ifs with h
  · exact Or.inl rfl
  · exact Or.inr ⟨rfl, by simpa using h⟩

end clip

/-! ### friction brake case split -/

theorem fricOut_cases (fb1 fb' : FricBrake α) (fA fR eps fC : α)
    (h : fricOut fb1 fA fR eps = (fb', .ok fC)) :
    fb'.forceMax = fb1.forceMax ∧ fb'.rampUpTime = fb1.rampUpTime ∧ fb'.rampUpCoeff = fb1.rampUpCoeff ∧
    fb'.forceMaxCurr = fb1.forceMaxCurr ∧
    ((0 ≤ fA ∧ fb'.force = 0 ∧ fC = fA) ∨
     (fA < 0 ∧ 0 ≤ fA + fb1.force ∧ fb'.force = fb1.force ∧ fC = 0) ∨
     (fA < 0 ∧ fA + fb1.force < 0 ∧ 0 ≤ fA + fb1.force + fR ∧ fb'.force = fb1.force ∧ fC = fA + fb1.force) ∨
     (fA < 0 ∧ fA + fb1.force < 0 ∧ fA + fb1.force + fR < 0 ∧ fb'.force = -(fA + fR) ∧ fC = -fR ∧
        almostLe fb'.force fb'.forceMaxCurr eps = true)) := by
  unfold fricOut at h
  split_ifs at h with h1 h2 h3 h4 <;> simp only [Prod.mk.injEq, Res.ok.injEq, reduceCtorEq, and_false] at h
  · obtain ⟨rfl, rfl⟩ := h
    exact ⟨rfl, rfl, rfl, rfl, Or.inl ⟨h1, rfl, rfl⟩⟩
  · obtain ⟨rfl, rfl⟩ := h
    exact ⟨rfl, rfl, rfl, rfl, Or.inr (Or.inl ⟨not_le.mp h1, h2, rfl, rfl⟩)⟩
  · obtain ⟨rfl, rfl⟩ := h
    exact ⟨rfl, rfl, rfl, rfl, Or.inr (Or.inr (Or.inl ⟨not_le.mp h1, not_le.mp h2, h3, rfl, rfl⟩))⟩
  · obtain ⟨rfl, rfl⟩ := h
    exact ⟨rfl, rfl, rfl, rfl,
      Or.inr (Or.inr (Or.inr ⟨not_le.mp h1, not_le.mp h2, not_le.mp h3, rfl, rfl, h4⟩))⟩

/-! ### `BrakingPoints::recalc` -/

theorem getS_ok {l : List (Pt α)} {i : Nat} {p : Pt α} : getS l i = .ok p ↔ l[i]? = some p := by
  unfold getS; cases l[i]? <;> simp

/-- `update_res` never touches the static mass -/
theorem updateRes_massStatic {g rho : α} {grades curves : List (PRC α)} {r : ResStrap α}
    {st : ResState α} {dir : Dir} {x : ResStrap α × ResState α}
    (h : updateRes g rho grades curves r st dir = .ok x) : x.2.massStatic = st.massStatic := by
  unfold updateRes at h
  simp only [bind_ok, pure_ok] at h
  obtain ⟨_, _, _, _, _, _, _, _, rfl⟩ := h
  rfl

/-- invariant of the loops of `recalc`: every point pushed so far has `0 ≤ target ≤ limit`, and the
    local `train_state` still carries the static mass `M` -/
structure RcInv (M : α) (st : RcState α) : Prop where
  bounds : ∀ p ∈ st.last :: st.rest, 0 ≤ p.target ∧ p.target ≤ p.limit
  mass : st.r.massStatic = M

theorem RcInv.push {M : α} {st : RcState α} (h : RcInv M st) (idx : Nat) (r : ResState α)
    (strap : ResStrap α) (p : BrakingPoint α) (hr : r.massStatic = M)
    (hp : 0 ≤ p.target ∧ p.target ≤ p.limit) :
    RcInv M (({ st with idx := idx, r := r, strap := strap } : RcState α).push p) := by
  refine ⟨?_, hr⟩
  intro q hq
  simp only [RcState.push, List.mem_cons] at hq
  rcases hq with rfl | hq
  · exact hp
  · exact h.bounds q (by simpa using hq)

theorem push_pts (st : RcState α) (idx : Nat) (r : ResState α) (strap : ResStrap α) (p : BrakingPoint α) :
    let st' := (({ st with idx := idx, r := r, strap := strap } : RcState α).push p)
    st'.last :: st'.rest = [p] ++ (st.last :: st.rest) := rfl

section recalc
variable (half g rho : α) (grades curves : List (PRC α)) (sps : List (Pt α))
  (offsetBegin forceMax dt massRot : α)

/-- one braking curve keeps the invariant and only APPENDS points (`0 ≤ dt`, `0 < m` make
    `vel_change ≥ 0`) -/
theorem recalcCurve_inv (M : α) (hdt : 0 ≤ dt) (hm : 0 < M + massRot) :
    ∀ (f : Nat) (st st' : RcState α),
      recalcCurveWith mn half g rho grades curves sps offsetBegin forceMax dt massRot f st = .ok st' →
      RcInv M st →
        RcInv M st' ∧ ∃ l, st'.last :: st'.rest = l ++ (st.last :: st.rest) := by
  intro f
  induction f with
  | zero => intro st st' h; simp [recalcCurveWith] at h
  | succ f ih =>
    intro st st' h hinv
    unfold recalcCurveWith at h
    simp only [bind_ok, ensure_ok, decide_eq_true_iff, exists_const] at h
    obtain ⟨idx, _, sp, _, ⟨strap, r⟩, hu, hpos, h⟩ := h
    have hmass : r.massStatic = M := by
      have := updateRes_massStatic hu
      simpa [hinv.mass] using this
    have hcur := hinv.bounds st.last (by simp)
    have hvc : 0 ≤ dt * (forceMax + resNet r) / (r.massStatic + massRot) := by
      rw [hmass]
      exact div_nonneg (mul_nonneg hdt (le_of_lt hpos)) (le_of_lt hm)
    have habs : (0 : α) ≤ absv sp.spd := by rw [absv_eq_abs]; exact abs_nonneg _
    -- the two candidate points
    have hp1 : 0 ≤ mn st.last.target (absv sp.spd) ∧ mn st.last.target (absv sp.spd) ≤ absv sp.spd := by
      rw [mn_eq_min]; exact ⟨le_min hcur.1 habs, min_le_right _ _⟩
    have hp2 : 0 ≤ st.last.target ∧
        st.last.target ≤ st.last.limit + dt * (forceMax + resNet r) / (r.massStatic + massRot) :=
      ⟨hcur.1, by linarith [hcur.2]⟩
    have hI1 := hinv.push idx r strap
      ⟨st.last.off - dt * absv sp.spd, absv sp.spd, mn st.last.target (absv sp.spd)⟩ hmass hp1
    have hI2 := hinv.push idx r strap
      ⟨st.last.off - dt * (st.last.limit + half * (dt * (forceMax + resNet r) / (r.massStatic + massRot))),
        st.last.limit + dt * (forceMax + resNet r) / (r.massStatic + massRot), st.last.target⟩ hmass hp2
    split_ifs at h with hlt hbrk hbeg hbeg
    · simp only [pure_ok] at h; subst h; exact ⟨hI1, _, push_pts st idx r strap _⟩
    · simp only [pure_ok] at h; subst h; exact ⟨hI1, _, push_pts st idx r strap _⟩
    · obtain ⟨hI, l, hl⟩ := ih _ _ h hI1
      exact ⟨hI, l ++ [⟨st.last.off - dt * absv sp.spd, absv sp.spd, mn st.last.target (absv sp.spd)⟩],
        by rw [hl]; simp [RcState.push]⟩
    · simp only [pure_ok] at h; subst h; exact ⟨hI2, _, push_pts st idx r strap _⟩
    · obtain ⟨hI, l, hl⟩ := ih _ _ h hI2
      exact ⟨hI, l ++ [⟨st.last.off - dt * (st.last.limit + half * (dt * (forceMax + resNet r) / (r.massStatic + massRot))),
          st.last.limit + dt * (forceMax + resNet r) / (r.massStatic + massRot), st.last.target⟩],
        by rw [hl]; simp [RcState.push]⟩

/-- the outer loop keeps the invariant, only appends, ends with `idx = 0`, and — if it ran at all —
    its last push is the FIRST speed point -/
theorem recalcOuter_inv (M : α) (hdt : 0 ≤ dt) (hm : 0 < M + massRot) (curveFuel : Nat) :
    ∀ (f : Nat) (st st' : RcState α),
      recalcOuterWith mn half g rho grades curves sps offsetBegin forceMax dt massRot curveFuel f st
        = .ok st' →
      RcInv M st →
        RcInv M st' ∧ (∃ l, st'.last :: st'.rest = l ++ (st.last :: st.rest)) ∧
        (st.idx = 0 → st' = st) ∧
        (0 < st.idx → ∃ sp, sps[0]? = some sp ∧ st'.last = ⟨sp.off, absv sp.spd, absv sp.spd⟩) := by
  intro f
  induction f with
  | zero => intro st st' h; simp [recalcOuterWith] at h
  | succ f ih =>
    intro st st' h hinv
    unfold recalcOuterWith at h
    split_ifs at h with hidx
    · simp only [bind_ok] at h
      obtain ⟨sp, _, st1, hst1, sp', hsp', hrec⟩ := h
      have hinv0 : RcInv M ({ st with idx := st.idx - 1 } : RcState α) := ⟨hinv.bounds, hinv.mass⟩
      have h1 : RcInv M st1 ∧ ∃ l, st1.last :: st1.rest = l ++ (st.last :: st.rest) := by
        split_ifs at hst1
        · have := recalcCurve_inv half g rho grades curves sps offsetBegin forceMax dt massRot M hdt hm
            curveFuel ({ st with idx := st.idx - 1 } : RcState α) st1 hst1 hinv0
          exact this
        · simp only [pure_ok] at hst1; subst hst1; exact ⟨hinv0, [], rfl⟩
      obtain ⟨hI1, l1, hl1⟩ := h1
      have habs : (0 : α) ≤ absv sp'.spd := by rw [absv_eq_abs]; exact abs_nonneg _
      have hI2 : RcInv M (st1.push ⟨sp'.off, absv sp'.spd, absv sp'.spd⟩) := by
        have := hI1.push st1.idx st1.r st1.strap ⟨sp'.off, absv sp'.spd, absv sp'.spd⟩ hI1.mass
          ⟨habs, le_refl _⟩
        exact this
      obtain ⟨hI, ⟨l, hl⟩, hz, hpos⟩ := ih _ _ hrec hI2
      refine ⟨hI, ⟨l ++ [⟨sp'.off, absv sp'.spd, absv sp'.spd⟩] ++ l1, ?_⟩, fun h0 => by omega, fun _ => ?_⟩
      · rw [hl]
        show l ++ (⟨sp'.off, absv sp'.spd, absv sp'.spd⟩ :: (st1.last :: st1.rest)) = _
        rw [hl1]; simp
      · by_cases h0 : st1.idx = 0
        · have := hz h0
          rw [this]
          refine ⟨sp', ?_, rfl⟩
          rw [← h0]; exact getS_ok.mp hsp'
        · exact hpos (Nat.pos_of_ne_zero h0)
    · simp only [pure_ok] at h; subst h
      exact ⟨hinv, ⟨[], rfl⟩, fun _ => rfl, fun h0 => absurd h0 hidx⟩

end recalc

end Altrios.Proofs.BrakeL
