import Altrios.Dispatch
import Mathlib.Order.Basic
import Mathlib.Order.Lattice
import Mathlib.Order.MinMax
import Mathlib.Data.List.Basic
import Mathlib.Tactic.SplitIfs
/-
  Lemmas about the authority-table model `Altrios.Dispatch` (property C04).

  Time is any linearly ordered type with an addition, a greatest element `inf` ("not yet happened") and
  the three facts `TimeAx` about adding the headway / the lockout margin.  IEEE doubles without NaN
  satisfy them (rounding is monotone), and so does every ordered additive monoid with a top element.
-/
set_option linter.unusedSectionVars false
set_option linter.unusedVariables false
namespace Altrios.Proofs.DispL
open Altrios Altrios.Dispatch

variable {τ : Type} [LinearOrder τ] [Add τ]

/-- what the proofs use about the time line -/
structure TimeAx (inf spacing overlap : τ) : Prop where
  top : ∀ x : τ, x ≤ inf
  mono : ∀ a b : τ, a ≤ b → a + spacing ≤ b + spacing
  sp : ∀ a : τ, a ≤ a + spacing
  ov : ∀ a : τ, a ≤ a + overlap

/-! ### The specification of a conflict-free table -/

/-- one authority by itself: the tail enters after the front, leaves after it entered and after the
    front left; the front-entry time is a real time -/
structure Wf (inf : τ) (a : Auth τ) : Prop where
  ae_ce : a.ae ≤ a.ce
  ce_cx : a.ce ≤ a.cx
  ax_cx : a.ax ≤ a.cx
  ae_fin : a.ae < inf

/-- the occupancy window `[arrive_entry, clear_exit)` has no duration -/
def Empty (a : Auth τ) : Prop := a.cx ≤ a.ae

/-- the occupancy windows `[arrive_entry, clear_exit)` (`clear_exit = inf`: still held) share no time
    of positive length -/
def Disj (a b : Auth τ) : Prop := Empty a ∨ Empty b ∨ b.cx ≤ a.ae ∨ a.cx ≤ b.ae

/-- `b` is the authority granted next after `a` on the same directed link -/
structure Seq (spacing : τ) (a b : Auth τ) : Prop where
  /-- the follower's front enters a headway after the leader's tail entered — or after the leader
      has left the link altogether (an opposing move lies in between, see `C04`) -/
  entry : a.ce + spacing ≤ b.ae ∨ a.cx ≤ b.ae
  /-- the follower's front leaves a headway after the leader's tail left — unless the follower
      terminated on the link (`arrive_exit = clear_exit`, written by the early-exit branch) -/
  exit : a.cx + spacing ≤ b.ax ∨ b.ax = b.cx
  /-- the leader's tail leaves first -/
  order : a.cx ≤ b.cx

/-- `r` holds between every two consecutive elements -/
def Consec (r : Auth τ → Auth τ → Prop) (l : List (Auth τ)) : Prop :=
  ∀ i (h : i + 1 < l.length), r l[i] l[i + 1]

structure Spec (net : Net) (spacing inf : τ) (tbl : Table τ) : Prop where
  wf : ∀ L, ∀ a ∈ link tbl L, Wf inf a
  seq : ∀ L, Consec (Seq spacing) (link tbl L)
  /-- opposite direction (`flip`) and declared mutual exclusion (`lockouts`) -/
  excl : ∀ L, ∀ M ∈ net.conf L, ∀ a ∈ link tbl L, ∀ b ∈ link tbl M, Disj a b

/-- `conf` is irreflexive and symmetric on the real links -/
def NetOk (net : Net) : Prop :=
  ∀ L, L ≠ 0 → L ∉ net.conf L ∧ ∀ K, L ∈ net.conf K → K ∈ net.conf L

/-! ### `mx`, `mn` -/

theorem mx_eq_max (a b : τ) : mx a b = max a b := by
  unfold mx; split_ifs with h
  · exact (max_eq_right (le_of_lt h)).symm
  · exact (max_eq_left (not_lt.mp h)).symm

theorem mn_eq_min (a b : τ) : mn a b = min a b := by
  unfold mn; split_ifs with h
  · exact (min_eq_right (le_of_lt h)).symm
  · exact (min_eq_left (not_lt.mp h)).symm

/-! ### Boolean checkers ↔ specification -/

theorem wfB_iff (inf : τ) (a : Auth τ) : wfB inf a = true ↔ Wf inf a := by
  unfold wfB
  simp only [Bool.and_eq_true, decide_eq_true_eq]
  constructor
  · rintro ⟨⟨⟨h1, h2⟩, h3⟩, h4⟩; exact ⟨h1, h2, h3, h4⟩
  · rintro ⟨h1, h2, h3, h4⟩; exact ⟨⟨⟨h1, h2⟩, h3⟩, h4⟩

theorem disjB_iff (a b : Auth τ) : disjB a b = true ↔ Disj a b := by
  unfold disjB emptyB Disj Empty
  simp only [Bool.or_eq_true, decide_eq_true_eq]
  tauto

theorem seqB_iff (spacing : τ) (a b : Auth τ) : seqB spacing a b = true ↔ Seq spacing a b := by
  unfold seqB
  simp only [Bool.and_eq_true, Bool.or_eq_true, decide_eq_true_eq]
  constructor
  · rintro ⟨⟨h1, h2⟩, h3⟩
    refine ⟨h1, ?_, h3⟩
    rcases h2 with h | ⟨h, h'⟩
    · exact Or.inl h
    · exact Or.inr (le_antisymm h h')
  · rintro ⟨h1, h2, h3⟩
    refine ⟨⟨h1, ?_⟩, h3⟩
    rcases h2 with h | h
    · exact Or.inl h
    · exact Or.inr ⟨le_of_eq h, le_of_eq h.symm⟩

theorem chainB_iff (r : Auth τ → Auth τ → Bool) (l : List (Auth τ)) :
    chainB r l = true ↔ Consec (fun a b => r a b = true) l := by
  induction l with
  | nil => simp [chainB, Consec]
  | cons a t ih =>
    cases t with
    | nil => simp [chainB, Consec]
    | cons b t =>
      simp only [chainB, Bool.and_eq_true, ih]
      constructor
      · rintro ⟨h1, h2⟩ i hi
        cases i with
        | zero => simpa using h1
        | succ i =>
          have := h2 i (by simpa using hi)
          simpa using this
      · intro h
        refine ⟨by simpa using h 0 (by simp), ?_⟩
        intro i hi
        have := h (i + 1) (by simpa using hi)
        simpa using this

theorem link_of_le {tbl : Table τ} {L : Nat} (h : tbl.length ≤ L) : link tbl L = [] := by
  unfold link
  rw [List.getD_eq_getElem?_getD, List.getElem?_eq_none h]; rfl

theorem planOk_iff_spec (net : Net) (spacing inf : τ) (tbl : Table τ) :
    planOk net spacing inf tbl = true ↔ Spec net spacing inf tbl := by
  unfold planOk
  simp only [List.all_eq_true, List.mem_range, Bool.and_eq_true, wfB_iff, disjB_iff, chainB_iff,
    seqB_iff]
  constructor
  · intro h
    refine ⟨?_, ?_, ?_⟩
    · intro L a ha
      by_cases hL : L < tbl.length
      · exact (h L hL).1.1 a ha
      · rw [link_of_le (not_lt.mp hL)] at ha; cases ha
    · intro L
      by_cases hL : L < tbl.length
      · exact (h L hL).1.2
      · rw [link_of_le (not_lt.mp hL)]; intro i hi; simp at hi
    · intro L M hM a ha b hb
      by_cases hL : L < tbl.length
      · exact (h L hL).2 M hM a ha b hb
      · rw [link_of_le (not_lt.mp hL)] at ha; cases ha
  · intro h L _
    exact ⟨⟨h.wf L, h.seq L⟩, fun M hM a ha b hb => h.excl L M hM a ha b hb⟩

/-! ### Replacing the list of one link -/

theorem link_set_self {tbl : Table τ} {L : Nat} (h : L < tbl.length) (l : List (Auth τ)) :
    link (tbl.set L l) L = l := by
  unfold link
  rw [List.getD_eq_getElem?_getD, List.getElem?_set]
  simp [h]

theorem link_set_ne {tbl : Table τ} {L K : Nat} (h : K ≠ L) (l : List (Auth τ)) :
    link (tbl.set L l) K = link tbl K := by
  unfold link
  rw [List.getD_eq_getElem?_getD, List.getD_eq_getElem?_getD, List.getElem?_set]
  simp [Ne.symm h]

theorem lt_length_of_mem_link {tbl : Table τ} {L : Nat} {a : Auth τ} (h : a ∈ link tbl L) :
    L < tbl.length := by
  by_contra hL
  rw [link_of_le (not_lt.mp hL)] at h; cases h

theorem Disj.symm {a b : Auth τ} (h : Disj a b) : Disj b a := by
  unfold Disj at *; tauto

/-- an authority whose window shrinks stays disjoint from whatever it was disjoint from -/
theorem Disj.shrink {a a' b : Auth τ} (h : Disj a b) (hae : a.ae ≤ a'.ae) (hcx : a'.cx ≤ a.cx) :
    Disj a' b := by
  unfold Disj Empty at *
  rcases h with h | h | h | h
  · exact Or.inl (le_trans hcx (le_trans h hae))
  · exact Or.inr (Or.inl h)
  · exact Or.inr (Or.inr (Or.inl (le_trans h hae)))
  · exact Or.inr (Or.inr (Or.inr (le_trans hcx h)))

/-- Replacing the list of link `L` by `l'` keeps the specification if `l'` is well-formed and
    sequenced and each of its members is disjoint from the (unchanged) conflicting links. -/
theorem Spec.set {net : Net} {spacing inf : τ} {tbl : Table τ} (h : Spec net spacing inf tbl)
    {L : Nat} (hL : L < tbl.length) (hirr : L ∉ net.conf L)
    (hsym : ∀ K, L ∈ net.conf K → K ∈ net.conf L) (l' : List (Auth τ))
    (hwf : ∀ a ∈ l', Wf inf a) (hseq : Consec (Seq spacing) l')
    (hex : ∀ a ∈ l', ∀ M ∈ net.conf L, ∀ b ∈ link tbl M, Disj a b) :
    Spec net spacing inf (tbl.set L l') := by
  refine ⟨?_, ?_, ?_⟩
  · intro K a ha
    by_cases hK : K = L
    · subst hK; rw [link_set_self hL] at ha; exact hwf a ha
    · rw [link_set_ne hK] at ha; exact h.wf K a ha
  · intro K
    by_cases hK : K = L
    · subst hK; rw [link_set_self hL]; exact hseq
    · rw [link_set_ne hK]; exact h.seq K
  · intro K M hM a ha b hb
    by_cases hK : K = L
    · subst hK
      have hMK : M ≠ K := fun e => hirr (e ▸ hM)
      rw [link_set_self hL] at ha; rw [link_set_ne hMK] at hb
      exact hex a ha M hM b hb
    · rw [link_set_ne hK] at ha
      by_cases hM' : M = L
      · subst hM'
        rw [link_set_self hL] at hb
        exact (hex b hb K (hsym K hM) a ha).symm
      · rw [link_set_ne hM'] at hb
        exact h.excl K M hM a ha b hb

/-! ### `Consec` under the three list edits -/

theorem Consec.append_single {r : Auth τ → Auth τ → Prop} {l : List (Auth τ)} (h : Consec r l)
    (n : Auth τ) (hn : ∀ (hl : 0 < l.length), r l[l.length - 1] n) : Consec r (l ++ [n]) := by
  intro i hi
  have hi' : i < l.length := by simpa using hi
  by_cases hlast : i + 1 < l.length
  · rw [List.getElem_append_left hi', List.getElem_append_left hlast]
    exact h i hlast
  · have e : i + 1 = l.length := by omega
    have e2 : (l ++ [n])[i + 1] = n := by
      rw [List.getElem_append_right (by omega)]; simp [e]
    rw [List.getElem_append_left hi', e2]
    have := hn (by omega)
    have e3 : l.length - 1 = i := by omega
    simpa [e3] using this

theorem Consec.dropLast {r : Auth τ → Auth τ → Prop} {l : List (Auth τ)} (h : Consec r l) :
    Consec r l.dropLast := by
  intro i hi
  have hi' : i + 1 < l.length := by
    rw [List.length_dropLast] at hi; omega
  rw [List.getElem_dropLast, List.getElem_dropLast]
  exact h i hi'

theorem Consec.set {r : Auth τ → Auth τ → Prop} {l : List (Auth τ)} (h : Consec r l)
    {i : Nat} (hi : i < l.length) (a' : Auth τ)
    (hp : ∀ (h1 : 1 ≤ i), r (l[i - 1]'(by omega)) a')
    (hs : ∀ (h2 : i + 1 < l.length), r a' l[i + 1]) : Consec r (l.set i a') := by
  intro j hj
  have hj' : j + 1 < l.length := by simpa using hj
  rw [List.getElem_set, List.getElem_set]
  by_cases e1 : i = j
  · subst e1
    simp only [if_true]
    rw [if_neg (by omega)]
    exact hs hj'
  · rw [if_neg e1]
    by_cases e2 : i = j + 1
    · subst e2
      simp only [if_true]
      have := hp (by omega)
      simpa using this
    · rw [if_neg e2]
      exact h j hj'

/-- along one link the tail-exit times never decrease, so the last authority carries the latest one
    (this is what allows `advance` to look at `last()` only) -/
theorem cx_mono {spacing : τ} {l : List (Auth τ)} (h : Consec (Seq spacing) l) :
    ∀ (j i : Nat) (hj : j < l.length) (hij : i ≤ j), (l[i]'(by omega)).cx ≤ l[j].cx := by
  intro j
  induction j with
  | zero => intro i hj hij; have : i = 0 := by omega
            subst this; exact le_refl _
  | succ j ih =>
    intro i hj hij
    by_cases e : i = j + 1
    · subst e; exact le_refl _
    · exact le_trans (ih i (by omega) (by omega)) (h j hj).order

theorem le_last_cx {spacing : τ} {tbl : Table τ} {M : Nat}
    (h : Consec (Seq spacing) (link tbl M)) {last b : Auth τ} (hl : lastAuth tbl M = some last)
    (hb : b ∈ link tbl M) : b.cx ≤ last.cx := by
  unfold lastAuth at hl
  rw [List.getLast?_eq_getElem?] at hl
  obtain ⟨hlt, e⟩ := List.getElem?_eq_some_iff.mp hl
  obtain ⟨i, hi, e'⟩ := List.mem_iff_getElem.mp hb
  rw [← e, ← e']
  exact cx_mono h _ i hlt (by omega)

/-! ### Changing one authority -/

theorem authAt_eq {tbl : Table τ} {L k : Nat} {x : Auth τ} (h : authAt tbl L k = some x) :
    ∃ hk : k < (link tbl L).length, (link tbl L)[k] = x :=
  List.getElem?_eq_some_iff.mp h

theorem authAt_mem {tbl : Table τ} {L k : Nat} {x : Auth τ} (h : authAt tbl L k = some x) :
    x ∈ link tbl L := by
  obtain ⟨hk, e⟩ := authAt_eq h
  exact e ▸ List.getElem_mem hk

theorem Spec.seq_at {net : Net} {spacing inf : τ} {tbl : Table τ} (h : Spec net spacing inf tbl)
    {L k : Nat} {x y : Auth τ} (hx : authAt tbl L k = some x) (hy : authAt tbl L (k + 1) = some y) :
    Seq spacing x y := by
  obtain ⟨hk, e⟩ := authAt_eq hx
  obtain ⟨hk', e'⟩ := authAt_eq hy
  have := h.seq L k hk'
  rwa [e, e'] at this

theorem Seq.congr_right {spacing : τ} {a b b' : Auth τ} (h : Seq spacing a b)
    (h1 : b'.ae = b.ae) (h2 : b'.ax = b.ax) (h3 : b'.cx = b.cx) : Seq spacing a b' :=
  ⟨by rw [h1]; exact h.entry, by rw [h2, h3]; exact h.exit, by rw [h3]; exact h.order⟩

theorem Seq.congr_left {spacing : τ} {a a' b : Auth τ} (h : Seq spacing a b)
    (h1 : a'.ce = a.ce) (h2 : a'.cx = a.cx) : Seq spacing a' b :=
  ⟨by rw [h1, h2]; exact h.entry, by rw [h2]; exact h.exit, by rw [h2]; exact h.order⟩

/-- the authority at `(L, i)` is replaced by `a'` -/
theorem Spec.modify {net : Net} {spacing inf : τ} {tbl : Table τ} (h : Spec net spacing inf tbl)
    (hnet : NetOk net) {L i : Nat} (hL0 : L ≠ 0) {a : Auth τ} (ha : authAt tbl L i = some a)
    (a' : Auth τ) (hwf : Wf inf a')
    (hp : 1 ≤ i → ∀ p, authAt tbl L (i - 1) = some p → Seq spacing p a')
    (hs : ∀ s, authAt tbl L (i + 1) = some s → Seq spacing a' s)
    (hex : ∀ M ∈ net.conf L, ∀ b ∈ link tbl M, Disj a' b) :
    Spec net spacing inf (tbl.set L ((link tbl L).set i a')) := by
  obtain ⟨hi, e⟩ := authAt_eq ha
  have hL : L < tbl.length := lt_length_of_mem_link (authAt_mem ha)
  refine h.set hL (hnet L hL0).1 (hnet L hL0).2 _ ?_ ?_ ?_
  · intro x hx
    rcases List.mem_or_eq_of_mem_set hx with hx | hx
    · exact h.wf L x hx
    · exact hx ▸ hwf
  · refine (h.seq L).set hi a' ?_ ?_
    · intro h1
      exact hp h1 _ (by unfold authAt; exact List.getElem?_eq_getElem (by omega))
    · intro h2
      exact hs _ (by unfold authAt; exact List.getElem?_eq_getElem h2)
  · intro x hx M hM b hb
    rcases List.mem_or_eq_of_mem_set hx with hx | hx
    · exact h.excl L M hM x hx b hb
    · exact hx ▸ hex M hM b hb

theorem modAt_eq {tbl : Table τ} {L i : Nat} {a : Auth τ} (ha : authAt tbl L i = some a)
    (f : Auth τ → Auth τ) : modAt tbl L i f = some (tbl.set L ((link tbl L).set i (f a))) := by
  unfold modAt; unfold authAt at ha; rw [ha]

/-- a modification that keeps `ae` and does not enlarge `cx` keeps disjointness from all conflicting links -/
theorem Spec.excl_shrink {net : Net} {spacing inf : τ} {tbl : Table τ}
    (h : Spec net spacing inf tbl) {L i : Nat} {a a' : Auth τ} (ha : authAt tbl L i = some a)
    (hae : a.ae ≤ a'.ae) (hcx : a'.cx ≤ a.cx) :
    ∀ M ∈ net.conf L, ∀ b ∈ link tbl M, Disj a' b :=
  fun M hM b hb => (h.excl L M hM a (authAt_mem ha) b hb).shrink hae hcx

/-! ### Every operation keeps the specification -/

section ops
variable {net : Net} {spacing overlap inf : τ} {tbl tbl' : Table τ}

/-- what `entryOk` says, as propositions -/
theorem entryOk_spec {L : Nat} {t : τ} (h : entryOk net spacing overlap tbl L t = true) :
    ∃ prev fl, lastAuth tbl L = some prev ∧ lastAuth tbl (net.flip L) = some fl ∧
      (fl.cx ≤ prev.cx → prev.ce + spacing ≤ t) ∧ (¬ fl.cx ≤ prev.cx → fl.cx ≤ t) ∧
      ∀ lk ∈ net.lockouts L, ∃ a, lastAuth tbl lk = some a ∧ a.cx + overlap ≤ t := by
  unfold entryOk at h
  rw [Bool.and_eq_true] at h
  obtain ⟨h1, h2⟩ := h
  cases hp : lastAuth tbl L with
  | none => simp [hp] at h1
  | some prev =>
    cases hf : lastAuth tbl (net.flip L) with
    | none => simp [hp, hf] at h1
    | some fl =>
      refine ⟨prev, fl, rfl, rfl, ?_, ?_, ?_⟩
      · intro hc; simpa [hp, hf, hc] using h1
      · intro hc; simpa [hp, hf, hc] using h1
      · intro lk hlk
        have := List.all_eq_true.mp h2 lk hlk
        cases ha : lastAuth tbl lk with
        | none => simp [ha] at this
        | some a => exact ⟨a, rfl, by simpa [ha] using this⟩

theorem lastAuth_authAt {L : Nat} {x : Auth τ} (h : lastAuth tbl L = some x) :
    authAt tbl L ((link tbl L).length - 1) = some x := by
  unfold lastAuth at h; unfold authAt; rwa [← List.getLast?_eq_getElem?]

/-- **push** (arrive node).  The entry time respects the gate and is finite. -/
theorem push_preserves (hax : TimeAx inf spacing overlap) (hnet : NetOk net)
    (h : Spec net spacing inf tbl) {L train : Nat} {t : τ} (hL0 : L ≠ 0) (hL : L < tbl.length)
    (hfin : t < inf) (hg : entryOk net spacing overlap tbl L t = true) :
    Spec net spacing inf (tbl.set L (link tbl L ++ [fresh inf t train])) := by
  obtain ⟨prev, fl, hprev, hfl, hsame, hopp, hlock⟩ := entryOk_spec hg
  have hprevm : prev ∈ link tbl L := authAt_mem (lastAuth_authAt hprev)
  have wprev := h.wf L prev hprevm
  refine h.set hL (hnet L hL0).1 (hnet L hL0).2 _ ?_ ?_ ?_
  · intro x hx
    rcases List.mem_append.mp hx with hx | hx
    · exact h.wf L x hx
    · have : x = fresh inf t train := by simpa using hx
      subst this
      exact ⟨hax.top _, hax.top _, hax.top _, hfin⟩
  · refine (h.seq L).append_single _ ?_
    intro hl
    obtain ⟨_, e⟩ := authAt_eq (lastAuth_authAt hprev)
    rw [e]
    refine ⟨?_, Or.inl (hax.top _), hax.top _⟩
    by_cases hc : fl.cx ≤ prev.cx
    · exact Or.inl (hsame hc)
    · exact Or.inr (le_trans (le_of_lt (not_le.mp hc)) (hopp hc))
  · -- every authority on a conflicting link has left before `t`, or never had a duration
    have key : ∀ M ∈ net.conf L, ∀ b ∈ link tbl M, Empty b ∨ b.cx ≤ t := by
      intro M hM b hb
      rcases List.mem_cons.mp hM with hM' | hM'
      · -- the flipped link
        subst hM'
        have hbfl : b.cx ≤ fl.cx := le_last_cx (h.seq _) hfl hb
        by_cases hc : fl.cx ≤ prev.cx
        · have ht : prev.ae ≤ t :=
            le_trans wprev.ae_ce (le_trans (hax.sp _) (hsame hc))
          rcases h.excl L _ hM prev hprevm b hb with hd | hd | hd | hd
          · exact Or.inr (le_trans hbfl (le_trans hc (le_trans hd ht)))
          · exact Or.inl hd
          · exact Or.inr (le_trans hd ht)
          · exact Or.inl (le_trans hbfl (le_trans hc hd))
        · exact Or.inr (le_trans hbfl (hopp hc))
      · obtain ⟨a, ha, hat⟩ := hlock M hM'
        exact Or.inr (le_trans (le_last_cx (h.seq _) ha hb) (le_trans (hax.ov _) hat))
    intro x hx M hM b hb
    rcases List.mem_append.mp hx with hx | hx
    · exact h.excl L M hM x hx b hb
    · have : x = fresh inf t train := by simpa using hx
      subst this
      rcases key M hM b hb with hk | hk
      · exact Or.inr (Or.inl hk)
      · exact Or.inr (Or.inr (Or.inl hk))

/-- **pop** (rewind of an arrive node) -/
theorem pop_preserves (hnet : NetOk net) (h : Spec net spacing inf tbl) {L : Nat} (hL0 : L ≠ 0)
    (hlen : 2 ≤ (link tbl L).length) : Spec net spacing inf (tbl.set L (link tbl L).dropLast) := by
  have hL : L < tbl.length := by
    by_contra hc; rw [link_of_le (not_lt.mp hc)] at hlen; simp at hlen
  refine h.set hL (hnet L hL0).1 (hnet L hL0).2 _ ?_ (h.seq L).dropLast ?_
  · intro x hx; exact h.wf L x (List.dropLast_subset _ hx)
  · intro x hx M hM b hb; exact h.excl L M hM x (List.dropLast_subset _ hx) b hb

/-- **arrive_exit** closes (front leaves the link, at the gated entry time of the next link) -/
theorem setAx_preserves (hax : TimeAx inf spacing overlap) (hnet : NetOk net)
    (h : Spec net spacing inf tbl) {L i : Nat} {t : τ} {a p : Auth τ} (hL0 : L ≠ 0) (hi : 1 ≤ i)
    (ha : authAt tbl L i = some a) (hp : authAt tbl L (i - 1) = some p)
    (h1 : a.ae ≤ t) (h2 : t ≤ a.cx) (h3 : p.cx + spacing ≤ t) :
    Spec net spacing inf (tbl.set L ((link tbl L).set i { a with ax := t })) := by
  have wa := h.wf L a (authAt_mem ha)
  refine h.modify hnet hL0 ha _ ⟨wa.ae_ce, wa.ce_cx, h2, wa.ae_fin⟩ ?_ ?_ ?_
  · intro _ q hq
    have e : q = p := by rw [hp] at hq; exact (Option.some.inj hq).symm
    subst e
    have hs : Seq spacing q a := h.seq_at hq (by rwa [Nat.sub_add_cancel hi])
    exact ⟨hs.entry, Or.inl h3, hs.order⟩
  · intro s hs; exact (h.seq_at ha hs).congr_left rfl rfl
  · exact h.excl_shrink ha (le_refl _) (le_refl _)

/-- **clear_entry** closes (tail enters the link; the authority is the last one of its link) -/
theorem setCe_preserves (hnet : NetOk net) (h : Spec net spacing inf tbl) {L i : Nat} {t : τ}
    {a : Auth τ} (hL0 : L ≠ 0) (hlast : i + 1 = (link tbl L).length)
    (ha : authAt tbl L i = some a) (h1 : a.ae ≤ t) (h2 : t ≤ a.cx) :
    Spec net spacing inf (tbl.set L ((link tbl L).set i { a with ce := t })) := by
  have wa := h.wf L a (authAt_mem ha)
  refine h.modify hnet hL0 ha _ ⟨h1, h2, wa.ax_cx, wa.ae_fin⟩ ?_ ?_ ?_
  · intro hi q hq
    have hs : Seq spacing q a := h.seq_at hq (by rwa [Nat.sub_add_cancel hi])
    exact hs.congr_right rfl rfl rfl
  · intro s hs
    obtain ⟨hk, _⟩ := authAt_eq hs
    omega
  · exact h.excl_shrink ha (le_refl _) (le_refl _)

/-- how `Seq` behaves when the clear-exit time of the earlier / later authority is lowered to `t` -/
theorem Seq.lower_left (hax : TimeAx inf spacing overlap) {a a' s : Auth τ} (h : Seq spacing a s)
    (hce : a'.ce ≤ a.ce) (hcx : a'.cx ≤ a.cx) : Seq spacing a' s := by
  refine ⟨?_, ?_, le_trans hcx h.order⟩
  · rcases h.entry with e | e
    · exact Or.inl (le_trans (hax.mono _ _ hce) e)
    · exact Or.inr (le_trans hcx e)
  · rcases h.exit with e | e
    · exact Or.inl (le_trans (hax.mono _ _ hcx) e)
    · exact Or.inr e

/-- **clear_exit** closes (tail leaves the link) -/
theorem setCx_preserves (hax : TimeAx inf spacing overlap) (hnet : NetOk net)
    (h : Spec net spacing inf tbl) {L i : Nat} {t : τ} {a : Auth τ} (hL0 : L ≠ 0)
    (ha : authAt tbl L i = some a) (h1 : a.ce ≤ t) (h2 : a.ax ≤ t) (h3 : t ≤ a.cx) :
    Spec net spacing inf (tbl.set L ((link tbl L).set i { a with cx := t })) := by
  have wa := h.wf L a (authAt_mem ha)
  refine h.modify hnet hL0 ha _ ⟨wa.ae_ce, h1, h2, wa.ae_fin⟩ ?_ ?_ ?_
  · intro hi q hq
    have hs : Seq spacing q a := h.seq_at hq (by rwa [Nat.sub_add_cancel hi])
    rcases hs.exit with e | e
    · exact ⟨hs.entry, Or.inl e, le_trans (hax.sp _) (le_trans e h2)⟩
    · have et : a.ax = t := le_antisymm h2 (e ▸ h3)
      exact ⟨hs.entry, Or.inr et, by rw [← et, e]; exact hs.order⟩
  · intro s hs; exact (h.seq_at ha hs).lower_left hax (le_refl _) h3
  · exact h.excl_shrink ha (le_refl _) h3

/-- **early exit** (`update_occupancy`, the train has left the network with its tail on this link).
    `hlead` — the train ahead has left the link — is FORCED: see `fin_behind_leader_counterexample`. -/
theorem fin_preserves (hax : TimeAx inf spacing overlap) (hnet : NetOk net)
    (h : Spec net spacing inf tbl) {L i : Nat} {t : τ} {a p : Auth τ} (hL0 : L ≠ 0) (hi : 1 ≤ i)
    (ha : authAt tbl L i = some a) (hp : authAt tbl L (i - 1) = some p)
    (h1 : a.ae ≤ t) (h2 : t ≤ a.cx) (hlead : p.cx ≤ t) :
    Spec net spacing inf
      (tbl.set L ((link tbl L).set i { a with ax := mn a.ax t, ce := mn a.ce t, cx := t })) := by
  have wa := h.wf L a (authAt_mem ha)
  rw [mn_eq_min, mn_eq_min]
  refine h.modify hnet hL0 ha _ ⟨le_min wa.ae_ce h1, min_le_right _ _, min_le_right _ _, wa.ae_fin⟩
    ?_ ?_ ?_
  · intro _ q hq
    have e : q = p := by rw [hp] at hq; exact (Option.some.inj hq).symm
    subst e
    have hs : Seq spacing q a := h.seq_at hq (by rwa [Nat.sub_add_cancel hi])
    refine ⟨hs.entry, ?_, hlead⟩
    by_cases hc : a.ax ≤ t
    · rcases hs.exit with e | e
      · exact Or.inl (by simpa [min_eq_left hc] using e)
      · have et : a.ax = t := le_antisymm hc (e ▸ h2)
        exact Or.inr (by simp [et])
    · exact Or.inr (by simp [min_eq_right (le_of_lt (not_le.mp hc))])
  · intro s hs; exact (h.seq_at ha hs).lower_left hax (min_le_left _ _) h2
  · exact h.excl_shrink ha (le_refl _) h2

/-- **rewind**: `arrive_exit = +∞` -/
theorem rAx_preserves (hax : TimeAx inf spacing overlap) (hnet : NetOk net)
    (h : Spec net spacing inf tbl) {L i : Nat} {a : Auth τ} (hL0 : L ≠ 0)
    (ha : authAt tbl L i = some a) (h1 : inf ≤ a.cx) :
    Spec net spacing inf (tbl.set L ((link tbl L).set i { a with ax := inf })) := by
  have wa := h.wf L a (authAt_mem ha)
  refine h.modify hnet hL0 ha _ ⟨wa.ae_ce, wa.ce_cx, h1, wa.ae_fin⟩ ?_ ?_ ?_
  · intro hi q hq
    have hs : Seq spacing q a := h.seq_at hq (by rwa [Nat.sub_add_cancel hi])
    exact ⟨hs.entry, Or.inl (hax.top _), hs.order⟩
  · intro s hs; exact (h.seq_at ha hs).congr_left rfl rfl
  · exact h.excl_shrink ha (le_refl _) (le_refl _)

/-- **rewind**: `clear_entry = +∞` (the authority is the last one of its link) -/
theorem rCe_preserves (hax : TimeAx inf spacing overlap) (hnet : NetOk net)
    (h : Spec net spacing inf tbl) {L i : Nat} {a : Auth τ} (hL0 : L ≠ 0)
    (hlast : i + 1 = (link tbl L).length) (ha : authAt tbl L i = some a) (h1 : inf ≤ a.cx) :
    Spec net spacing inf (tbl.set L ((link tbl L).set i { a with ce := inf })) := by
  have wa := h.wf L a (authAt_mem ha)
  refine h.modify hnet hL0 ha _ ⟨hax.top _, h1, wa.ax_cx, wa.ae_fin⟩ ?_ ?_ ?_
  · intro hi q hq
    have hs : Seq spacing q a := h.seq_at hq (by rwa [Nat.sub_add_cancel hi])
    exact hs.congr_right rfl rfl rfl
  · intro s hs
    obtain ⟨hk, _⟩ := authAt_eq hs
    omega
  · exact h.excl_shrink ha (le_refl _) (le_refl _)

/-- **rewind**: `clear_exit = +∞`: the window grows again.  Safe when no conflicting authority was
    granted after it and a follower (if any) is still behind it. -/
theorem rCx_preserves (hax : TimeAx inf spacing overlap) (hnet : NetOk net)
    (h : Spec net spacing inf tbl) {L i : Nat} {a : Auth τ} (hL0 : L ≠ 0)
    (ha : authAt tbl L i = some a) (hfront : a.ax < a.cx ∨ inf ≤ a.ax)
    (hsucc : ∀ s, authAt tbl L (i + 1) = some s → a.ce + spacing ≤ s.ae ∧ inf ≤ s.ax ∧ inf ≤ s.cx)
    (hconf : ∀ M ∈ net.conf L, ∀ b ∈ link tbl M, b.cx ≤ a.ae ∨ b.cx ≤ b.ae) :
    Spec net spacing inf (tbl.set L ((link tbl L).set i { a with cx := inf })) := by
  have wa := h.wf L a (authAt_mem ha)
  refine h.modify hnet hL0 ha _ ⟨wa.ae_ce, hax.top _, hax.top _, wa.ae_fin⟩ ?_ ?_ ?_
  · intro hi q hq
    have hs : Seq spacing q a := h.seq_at hq (by rwa [Nat.sub_add_cancel hi])
    refine ⟨hs.entry, ?_, hax.top _⟩
    rcases hs.exit with e | e
    · exact Or.inl e
    · rcases hfront with hf | hf
      · exact absurd e (ne_of_lt hf)
      · exact Or.inr (le_antisymm (hax.top _) hf)
  · intro s hs
    obtain ⟨e1, e2, e3⟩ := hsucc s hs
    exact ⟨Or.inl e1, Or.inr (le_antisymm (le_trans (hax.top _) e3) (le_trans (hax.top _) e2)), e3⟩
  · intro M hM b hb
    rcases hconf M hM b hb with hc | hc
    · exact Or.inr (Or.inr (Or.inl hc))
    · exact Or.inr (Or.inl hc)

end ops

/-! ### One step, any sequence of steps -/

theorem step_preserves {net : Net} {spacing overlap inf : τ} {tbl tbl' : Table τ}
    (hax : TimeAx inf spacing overlap) (hnet : NetOk net) (h : Spec net spacing inf tbl)
    (op : Op τ) (hpre : pre net spacing overlap inf tbl op = true)
    (hstep : step inf tbl op = some tbl') : Spec net spacing inf tbl' := by
  unfold pre preG at hpre
  rw [Bool.and_eq_true, decide_eq_true_eq] at hpre
  obtain ⟨hL0, hpre⟩ := hpre
  cases op with
  | push L train t =>
    simp only [Op.link] at hL0
    simp only [preOp, Bool.and_eq_true, decide_eq_true_eq] at hpre
    simp only [step] at hstep
    split_ifs at hstep with hL
    cases hstep
    exact push_preserves hax hnet h hL0 hL hpre.1 hpre.2
  | setAx L i t =>
    simp only [Op.link] at hL0
    simp only [preOp, Bool.and_eq_true, decide_eq_true_eq] at hpre
    obtain ⟨hi, hm⟩ := hpre
    cases ha : authAt tbl L i with
    | none => simp [ha] at hm
    | some a =>
      cases hp : authAt tbl L (i - 1) with
      | none => simp [ha, hp] at hm
      | some p =>
        simp only [ha, hp, Bool.and_eq_true, decide_eq_true_eq] at hm
        simp only [step, modAt_eq ha] at hstep
        cases hstep
        exact setAx_preserves hax hnet h hL0 hi ha hp hm.1.1 hm.1.2 hm.2
  | setCe L i t =>
    simp only [Op.link] at hL0
    simp only [preOp, Bool.and_eq_true, decide_eq_true_eq] at hpre
    obtain ⟨hi, hm⟩ := hpre
    cases ha : authAt tbl L i with
    | none => simp [ha] at hm
    | some a =>
      simp only [ha, Bool.and_eq_true, decide_eq_true_eq] at hm
      simp only [step, modAt_eq ha] at hstep
      cases hstep
      exact setCe_preserves hnet h hL0 hi ha hm.1 hm.2
  | setCx L i t =>
    simp only [Op.link] at hL0
    simp only [preOp] at hpre
    cases ha : authAt tbl L i with
    | none => simp [ha] at hpre
    | some a =>
      simp only [ha, Bool.and_eq_true, decide_eq_true_eq] at hpre
      simp only [step, modAt_eq ha] at hstep
      cases hstep
      exact setCx_preserves hax hnet h hL0 ha hpre.1.1 hpre.1.2 hpre.2
  | fin L i t =>
    simp only [Op.link] at hL0
    simp only [preOp, Bool.and_eq_true, decide_eq_true_eq] at hpre
    obtain ⟨hi, hm⟩ := hpre
    cases ha : authAt tbl L i with
    | none => simp [ha] at hm
    | some a =>
      cases hp : authAt tbl L (i - 1) with
      | none => simp [ha, hp] at hm
      | some p =>
        simp only [ha, hp, Bool.and_eq_true, decide_eq_true_eq, Bool.not_true, Bool.false_or] at hm
        simp only [step, modAt_eq ha] at hstep
        cases hstep
        exact fin_preserves hax hnet h hL0 hi ha hp hm.1.1 hm.1.2 hm.2
  | pop L =>
    simp only [Op.link] at hL0
    simp only [preOp, decide_eq_true_eq] at hpre
    simp only [step, if_pos hpre] at hstep
    cases hstep
    exact pop_preserves hnet h hL0 hpre
  | rAx L i =>
    simp only [Op.link] at hL0
    simp only [preOp] at hpre
    cases ha : authAt tbl L i with
    | none => simp [ha] at hpre
    | some a =>
      simp only [ha, decide_eq_true_eq] at hpre
      simp only [step, modAt_eq ha] at hstep
      cases hstep
      exact rAx_preserves hax hnet h hL0 ha hpre
  | rCe L i =>
    simp only [Op.link] at hL0
    simp only [preOp, Bool.and_eq_true, decide_eq_true_eq] at hpre
    obtain ⟨hi, hm⟩ := hpre
    cases ha : authAt tbl L i with
    | none => simp [ha] at hm
    | some a =>
      simp only [ha, decide_eq_true_eq] at hm
      simp only [step, modAt_eq ha] at hstep
      cases hstep
      exact rCe_preserves hax hnet h hL0 hi ha hm
  | rCx L i =>
    simp only [Op.link] at hL0
    simp only [preOp] at hpre
    cases ha : authAt tbl L i with
    | none => simp [ha] at hpre
    | some a =>
      simp only [ha, Bool.and_eq_true, Bool.or_eq_true, decide_eq_true_eq, List.all_eq_true] at hpre
      obtain ⟨⟨hfront, hsucc⟩, hconf⟩ := hpre
      simp only [step, modAt_eq ha] at hstep
      cases hstep
      refine rCx_preserves hax hnet h hL0 ha hfront ?_ hconf
      intro s hs
      simp only [hs, Bool.and_eq_true, decide_eq_true_eq] at hsucc
      exact ⟨hsucc.1.1, hsucc.1.2, hsucc.2⟩

/-- all tables met while running `ops` from `tbl` (the start included) -/
def trace (inf : τ) : Table τ → List (Op τ) → List (Table τ)
  | tbl, [] => [tbl]
  | tbl, op :: ops =>
    match step inf tbl op with
    | none => [tbl]
    | some tbl' => tbl :: trace inf tbl' ops

theorem run_preserves {net : Net} {spacing overlap inf : τ}
    (hax : TimeAx inf spacing overlap) (hnet : NetOk net) :
    ∀ (ops : List (Op τ)) (tbl tbl' : Table τ), Spec net spacing inf tbl →
      run net spacing overlap inf tbl ops = some (true, tbl') →
      ∀ t ∈ trace inf tbl ops, Spec net spacing inf t := by
  intro ops
  induction ops with
  | nil => intro tbl tbl' h _ t ht; simp [trace] at ht; exact ht ▸ h
  | cons op ops ih =>
    intro tbl tbl' h hrun t ht
    simp only [run] at hrun
    cases hs : step inf tbl op with
    | none => simp [hs] at hrun
    | some t1 =>
      simp only [hs] at hrun
      cases hr : run net spacing overlap inf t1 ops with
      | none => simp [hr] at hrun
      | some r =>
        obtain ⟨ok, t2⟩ := r
        simp only [hr, Option.some.injEq, Prod.mk.injEq, Bool.and_eq_true] at hrun
        obtain ⟨⟨hp, hok⟩, _⟩ := hrun
        simp only [trace, hs, List.mem_cons] at ht
        rcases ht with ht | ht
        · exact ht ▸ h
        · subst hok
          exact ih t1 t2 (step_preserves hax hnet h op hp hs) hr t ht

/-! ### The literal gate delivers `entryOk` and the exit headway -/

theorem gateLock_spec {overlap startup : τ} {tbl : Table τ} (hst : ∀ a : τ, a ≤ a + startup) :
    ∀ (ls : List Nat) (t g : τ), gateLock tbl overlap startup ls t = some g →
      t ≤ g ∧ ∀ lk ∈ ls, ∃ a, lastAuth tbl lk = some a ∧ a.cx + overlap ≤ g := by
  intro ls
  induction ls with
  | nil => intro t g h; simp only [gateLock, Option.some.injEq] at h; exact ⟨le_of_eq h, by simp⟩
  | cons lk ls ih =>
    intro t g h
    simp only [gateLock] at h
    cases ha : lastAuth tbl lk with
    | none => simp [ha] at h
    | some a =>
      simp only [ha] at h
      obtain ⟨h1, h2⟩ := ih _ _ h
      rw [mx_eq_max] at h1
      refine ⟨le_trans (le_max_left _ _) h1, ?_⟩
      intro x hx
      rcases List.mem_cons.mp hx with hx | hx
      · subst hx
        exact ⟨a, ha, le_trans (hst _) (le_trans (le_max_right _ _) h1)⟩
      · exact h2 x hx

/-- Any entry time at or above the literal `gate` (whatever the train's own running time `t0` and for
    any non-negative start-up time) satisfies `entryOk`; and it is a headway behind the tail-exit of the
    train ahead on the link the front leaves. -/
theorem gate_sound {net : Net} {spacing overlap startup : τ} {tbl : Table τ} {L : Nat} {t0 g t : τ}
    {front : Option (Nat × Nat)} (hst : ∀ a : τ, a ≤ a + startup) (hL0 : L ≠ 0)
    (hg : gate net spacing overlap startup tbl L t0 front = some g) (ht : g ≤ t) :
    entryOk net spacing overlap tbl L t = true ∧ t0 ≤ t ∧
      ∀ Lx ix, front = some (Lx, ix) → 1 ≤ ix ∧
        ∃ p, authAt tbl Lx (ix - 1) = some p ∧ p.cx + spacing ≤ t := by
  unfold gate at hg
  cases hp : lastAuth tbl L with
  | none => simp [hp] at hg
  | some prev =>
    cases hf : lastAuth tbl (net.flip L) with
    | none => simp [hp, hf] at hg
    | some fl =>
      simp only [hp, hf, if_pos hL0] at hg
      cases hl : gateLock tbl overlap startup (net.lockouts L)
          (mx t0 (if fl.cx ≤ prev.cx then prev.ce + spacing else fl.cx + startup)) with
      | none => simp [hl] at hg
      | some t2 =>
        simp only [hl] at hg
        obtain ⟨h1, h2⟩ := gateLock_spec hst _ _ _ hl
        rw [mx_eq_max] at h1
        -- t2 ≤ g in both shapes of `front`
        have ht2 : t2 ≤ g ∧ ∀ Lx ix, front = some (Lx, ix) → 1 ≤ ix ∧
            ∃ p, authAt tbl Lx (ix - 1) = some p ∧ p.cx + spacing ≤ g := by
          cases front with
          | none => simp only [Option.some.injEq] at hg; exact ⟨le_of_eq hg, by simp⟩
          | some fr =>
            obtain ⟨Lx, ix⟩ := fr
            simp only at hg
            split_ifs at hg with hix
            cases hq : authAt tbl Lx (ix - 1) with
            | none => simp [hq] at hg
            | some p =>
              simp only [hq, Option.some.injEq] at hg
              rw [mx_eq_max] at hg
              refine ⟨hg ▸ le_max_left _ _, ?_⟩
              intro Lx' ix' e
              simp only [Option.some.injEq, Prod.mk.injEq] at e
              obtain ⟨e1, e2⟩ := e
              subst e1; subst e2
              exact ⟨by omega, p, hq, hg ▸ le_max_right _ _⟩
        have hgt : t2 ≤ t := le_trans ht2.1 ht
        refine ⟨?_, le_trans (le_max_left _ _) (le_trans h1 hgt), ?_⟩
        · unfold entryOk
          rw [Bool.and_eq_true]
          refine ⟨?_, ?_⟩
          · simp only [hp, hf]
            have hm := le_trans (le_max_right _ _) (le_trans h1 hgt)
            split_ifs with hc
            · rw [if_pos hc] at hm; simpa using hm
            · rw [if_neg hc] at hm; simpa using le_trans (hst _) hm
          · rw [List.all_eq_true]
            intro lk hlk
            obtain ⟨a, ha, hle⟩ := h2 lk hlk
            simp only [ha, decide_eq_true_eq]
            exact le_trans hle hgt
        · intro Lx ix e
          obtain ⟨h3, p, hq, hle⟩ := ht2.2 Lx ix e
          exact ⟨h3, p, hq, le_trans hle ht⟩

/-! ### Consequences of the specification: no order change inside a link -/

/-- Authorities on one directed link enter, and have their tails enter and leave, in the order in
    which they were granted. -/
theorem Spec.order {net : Net} {spacing overlap inf : τ} {tbl : Table τ}
    (hax : TimeAx inf spacing overlap) (h : Spec net spacing inf tbl) {L k : Nat} {x y : Auth τ}
    (hx : authAt tbl L k = some x) (hy : authAt tbl L (k + 1) = some y) :
    x.ae ≤ y.ae ∧ x.ce ≤ y.ce ∧ x.cx ≤ y.cx := by
  have hs := h.seq_at hx hy
  have wx := h.wf L x (authAt_mem hx)
  have wy := h.wf L y (authAt_mem hy)
  have h1 : x.ce ≤ y.ae ∨ x.cx ≤ y.ae := by
    rcases hs.entry with e | e
    · exact Or.inl (le_trans (hax.sp _) e)
    · exact Or.inr e
  have hce : x.ce ≤ y.ae := by
    rcases h1 with e | e
    · exact e
    · exact le_trans wx.ce_cx e
  exact ⟨le_trans wx.ae_ce hce, le_trans hce wy.ae_ce, hs.order⟩

end Altrios.Proofs.DispL
