import Altrios.EstTime
import Proofs.Lemmas.Basic
import Mathlib.Algebra.Order.Field.Basic
import Mathlib.Tactic.Linarith
import Mathlib.Tactic.Ring
import Mathlib.Tactic.SplitIfs
import Mathlib.Data.List.Basic
import Mathlib.Data.List.Chain
/-
  Lemmas for C15: soundness of the estimated-time-network checkers of `Altrios/EstTime.lean`.

  Part 1 (no arithmetic): links, rank, walks.
  Part 2 (no arithmetic): the route automaton, lifted from links to walks.
  Part 3 (ordered field): times along walks.
-/
set_option linter.unusedSectionVars false
namespace Altrios.Proofs.EstL
open Altrios Altrios.Est

/-! ## Part 1: links, rank, walks -/
section structure_
variable {α : Type} [OfNat α 0]

/-- a forward link (primary or alternate) from node `i` to node `j` -/
def Edge (g : Graph α) (i j : Nat) : Prop :=
  i < g.size ∧ j ≠ 0 ∧ ((nodeAt g i).next = j ∨ (nodeAt g i).nextAlt = j)

/-- `Walk g i l k`: starting at node `i`, following links through the nodes `l` (in order), ending at `k` -/
inductive Walk (g : Graph α) : Nat → List Nat → Nat → Prop
  | nil (i : Nat) : Walk g i [] i
  | cons {i j k : Nat} {l : List Nat} : Edge g i j → Walk g j l k → Walk g i (j :: l) k

/-- every step of the walk follows the primary link `idx_next` -/
def IsPrimary (g : Graph α) : Nat → List Nat → Prop
  | _, [] => True
  | i, j :: l => (nodeAt g i).next = j ∧ IsPrimary g j l

theorem mem_succs (x : Node α) (j : Nat) : j ∈ succs x ↔ j ≠ 0 ∧ (x.next = j ∨ x.nextAlt = j) := by
  unfold succs
  by_cases h1 : x.next = 0 <;> by_cases h2 : x.nextAlt = 0 <;> simp [h1, h2]
  · intro h; subst h; exact ⟨rfl, rfl⟩
  · constructor
    · intro h; subst h; exact ⟨h2, Or.inr rfl⟩
    · rintro ⟨h0, h | h⟩
      · exact absurd (h1 ▸ h.symm) h0
      · exact h.symm
  · constructor
    · intro h; subst h; exact ⟨h1, Or.inl rfl⟩
    · rintro ⟨h0, h | h⟩
      · exact h.symm
      · exact absurd (h2 ▸ h.symm) h0
  · constructor
    · rintro (h | h)
      · subst h; exact ⟨h1, Or.inl rfl⟩
      · subst h; exact ⟨h2, Or.inr rfl⟩
    · rintro ⟨_, h | h⟩
      · exact Or.inl h.symm
      · exact Or.inr h.symm

theorem edge_iff (g : Graph α) (i j : Nat) : Edge g i j ↔ i < g.size ∧ j ∈ succs (nodeAt g i) := by
  unfold Edge; rw [mem_succs]

/-- what `linksOk` says about one node, as propositions -/
structure NodeLinks (g : Graph α) (i : Nat) : Prop where
  next_lt : (nodeAt g i).next < g.size
  nextAlt_lt : (nodeAt g i).nextAlt < g.size
  prev_lt : (nodeAt g i).prev < g.size
  prevAlt_lt : (nodeAt g i).prevAlt < g.size
  start : i = 0 → (nodeAt g i).next = 1 ∧ (nodeAt g i).nextAlt = 0 ∧ (nodeAt g i).prev = 0 ∧ (nodeAt g i).prevAlt = 0
  second : i = 1 → (nodeAt g i).prev = 0 ∧ (nodeAt g i).prevAlt = 0
  has_prev : 2 ≤ i → (nodeAt g i).prev ≠ 0
  last : i + 1 = g.size → (nodeAt g i).next = 0 ∧ (nodeAt g i).nextAlt = 0
  has_next : i + 1 ≠ g.size → (nodeAt g i).next ≠ 0
  next_back : (nodeAt g i).next ≠ 0 →
    (nodeAt g (nodeAt g i).next).prev = i ∨ (nodeAt g (nodeAt g i).next).prevAlt = i
  nextAlt_back : (nodeAt g i).nextAlt ≠ 0 →
    ((nodeAt g (nodeAt g i).nextAlt).prev = i ∨ (nodeAt g (nodeAt g i).nextAlt).prevAlt = i) ∧
      (nodeAt g i).nextAlt ≠ (nodeAt g i).next
  prev_fwd : (nodeAt g i).prev ≠ 0 →
    (nodeAt g (nodeAt g i).prev).next = i ∨ (nodeAt g (nodeAt g i).prev).nextAlt = i
  prevAlt_fwd : (nodeAt g i).prevAlt ≠ 0 →
    ((nodeAt g (nodeAt g i).prevAlt).next = i ∨ (nodeAt g (nodeAt g i).prevAlt).nextAlt = i) ∧
      (nodeAt g i).prevAlt ≠ (nodeAt g i).prev

theorem nodeLinks_of (g : Graph α) (i : Nat) (h : nodeLinksOk g i = true) : NodeLinks g i := by
  unfold nodeLinksOk at h
  simp only [Bool.and_eq_true, Bool.or_eq_true, decide_eq_true_eq] at h
  obtain ⟨⟨⟨⟨⟨⟨⟨⟨⟨⟨⟨h1, h2⟩, h3⟩, h4⟩, h5⟩, h6⟩, h7⟩, h8⟩, h9⟩, h10⟩, h11⟩, h12⟩ := h
  refine ⟨h1, h2, h3, h4, ?_, ?_, ?_, ?_, ?_, ?_, ?_, ?_, ?_⟩
  · intro hi
    rcases h5 with h5 | h5
    · exact absurd hi h5
    · exact ⟨h5.1.1.1, h5.1.1.2, h5.1.2, h5.2⟩
  · intro hi
    rcases h6 with h6 | h6
    · exact absurd hi h6
    · exact h6
  · intro hi
    rcases h7 with h7 | h7
    · omega
    · exact h7
  · intro hi
    rw [if_pos hi] at h8
    simpa using h8
  · intro hi
    rw [if_neg hi] at h8
    simpa using h8
  · intro hn
    rcases h9 with h9 | h9
    · exact absurd h9 hn
    · exact h9
  · intro hn
    rcases h10 with h10 | h10
    · exact absurd h10 hn
    · exact h10
  · intro hn
    rcases h11 with h11 | h11
    · exact absurd h11 hn
    · exact h11
  · intro hn
    rcases h12 with h12 | h12
    · exact absurd h12 hn
    · exact h12

theorem links_size (g : Graph α) (h : linksOk g = true) : 2 ≤ g.size := by
  unfold linksOk at h
  simp only [Bool.and_eq_true, decide_eq_true_eq] at h
  exact h.1

theorem links_node (g : Graph α) (h : linksOk g = true) (i : Nat) (hi : i < g.size) : NodeLinks g i := by
  unfold linksOk at h
  simp only [Bool.and_eq_true, List.all_eq_true, List.mem_range] at h
  exact nodeLinks_of g i (h.2 i hi)

theorem edge_lt (g : Graph α) (h : linksOk g = true) {i j : Nat} (e : Edge g i j) : j < g.size := by
  obtain ⟨hi, _, hj | hj⟩ := e
  · exact hj ▸ (links_node g h i hi).next_lt
  · exact hj ▸ (links_node g h i hi).nextAlt_lt

theorem edge_back (g : Graph α) (h : linksOk g = true) {i j : Nat} (e : Edge g i j) :
    (nodeAt g j).prev = i ∨ (nodeAt g j).prevAlt = i := by
  obtain ⟨hi, h0, hj | hj⟩ := e
  · have := (links_node g h i hi).next_back (hj ▸ h0); rwa [hj] at this
  · have := ((links_node g h i hi).nextAlt_back (hj ▸ h0)).1; rwa [hj] at this

/-- the link from a node's `idx_prev` (node 1: from the start node) -/
theorem prev_edge (g : Graph α) (h : linksOk g = true) {i : Nat} (hi : i < g.size) (h0 : i ≠ 0) :
    Edge g (nodeAt g i).prev i := by
  have hn := links_node g h i hi
  by_cases h1 : i = 1
  · have h00 := (links_node g h 0 (by have := links_size g h; omega)).start rfl
    refine ⟨hn.prev_lt, h0, Or.inl ?_⟩
    rw [(hn.second h1).1, h00.1, h1]
  · have hp : (nodeAt g i).prev ≠ 0 := hn.has_prev (by omega)
    exact ⟨hn.prev_lt, h0, hn.prev_fwd hp⟩

theorem walk_lt (g : Graph α) (h : linksOk g = true) {i k : Nat} {l : List Nat} (w : Walk g i l k)
    (hi : i < g.size) : k < g.size := by
  induction w with
  | nil i => exact hi
  | cons e _ ih => exact ih (edge_lt g h e)

theorem walk_snoc (g : Graph α) {i p k : Nat} {l : List Nat} (w : Walk g i l p) (e : Edge g p k) :
    Walk g i (l ++ [k]) k := by
  induction w with
  | nil i => exact Walk.cons e (Walk.nil k)
  | cons e' _ ih => exact Walk.cons e' (ih e)

/-! ### rank -/

theorem rank_facts (g : Graph α) (r : Array Nat) (h : rankOk g r = true) {i : Nat} (hi : i < g.size) :
    r.getD i 0 < g.size ∧ ∀ j, Edge g i j → r.getD i 0 < r.getD j 0 := by
  unfold rankOk at h
  simp only [List.all_eq_true, List.mem_range, Bool.and_eq_true, decide_eq_true_eq] at h
  refine ⟨(h i hi).1, fun j e => (h i hi).2 j ?_⟩
  exact ((edge_iff g i j).mp e).2

/-- ranks grow by at least one per step: a walk from `i` with `l.length` steps ends at rank ≥ rank i + length -/
theorem walk_rank (g : Graph α) (r : Array Nat) (h : rankOk g r = true) {i k : Nat} {l : List Nat}
    (w : Walk g i l k) : l.length + r.getD i 0 ≤ r.getD k 0 := by
  induction w with
  | nil i => simp
  | cons e _ ih =>
    have := (rank_facts g r h e.1).2 _ e
    simp only [List.length_cons]; omega

/-- from every node the primary links lead to the end node -/
theorem exists_primary_walk (g : Graph α) (r : Array Nat) (hl : linksOk g = true) (hr : rankOk g r = true) :
    ∀ d i, i < g.size → g.size - r.getD i 0 ≤ d → ∃ l, Walk g i l (g.size - 1) ∧ IsPrimary g i l := by
  intro d
  induction d with
  | zero =>
    intro i hi hd
    have := (rank_facts g r hr hi).1
    omega
  | succ d ih =>
    intro i hi hd
    by_cases hlast : i + 1 = g.size
    · refine ⟨[], ?_, trivial⟩
      have : g.size - 1 = i := by omega
      rw [this]; exact Walk.nil i
    · have hn := links_node g hl i hi
      have hne := hn.has_next hlast
      have e : Edge g i (nodeAt g i).next := ⟨hi, hne, Or.inl rfl⟩
      have hj := edge_lt g hl e
      have hrk := (rank_facts g r hr hi).2 _ e
      have hrj := (rank_facts g r hr hj).1
      obtain ⟨l, w, p⟩ := ih (nodeAt g i).next hj (by omega)
      exact ⟨(nodeAt g i).next :: l, Walk.cons e w, ⟨rfl, p⟩⟩

end structure_
end Altrios.Proofs.EstL
