import Altrios.EstTime
import Proofs.Lemmas.Basic
import Mathlib.Algebra.Order.Field.Basic
import Mathlib.Tactic.Linarith
import Mathlib.Tactic.Ring
import Mathlib.Tactic.SplitIfs
import Mathlib.Data.List.Basic
import Mathlib.Data.List.Chain
/-
  Lemmas for C15: soundness of the estimated-time-network checkers of `Altrios/EstTime.lean`.

  Part 1 (no arithmetic): links, rank, walks.
  Part 2 (no arithmetic): the route automaton, lifted from links to walks.
  Part 3 (ordered field): times along walks.
-/
set_option linter.unusedSectionVars false
namespace Altrios.Proofs.EstL
open Altrios Altrios.Est

/-! ## Part 1: links, rank, walks -/
section structure_
variable {α : Type} [OfNat α 0]

/-- a forward link (primary or alternate) from node `i` to node `j` -/
def Edge (g : Graph α) (i j : Nat) : Prop :=
  i < g.size ∧ j ≠ 0 ∧ ((nodeAt g i).next = j ∨ (nodeAt g i).nextAlt = j)

/-- `Walk g i l k`: starting at node `i`, following links through the nodes `l` (in order), ending at `k` -/
inductive Walk (g : Graph α) : Nat → List Nat → Nat → Prop
  | nil (i : Nat) : Walk g i [] i
  | cons {i j k : Nat} {l : List Nat} : Edge g i j → Walk g j l k → Walk g i (j :: l) k

/-- every step of the walk follows the primary link `idx_next` -/
def IsPrimary (g : Graph α) : Nat → List Nat → Prop
  | _, [] => True
  | i, j :: l => (nodeAt g i).next = j ∧ IsPrimary g j l

theorem mem_succs (x : Node α) (j : Nat) : j ∈ succs x ↔ j ≠ 0 ∧ (x.next = j ∨ x.nextAlt = j) := by
  unfold succs
  generalize x.next = a
  generalize x.nextAlt = b
  by_cases h1 : a = 0 <;> by_cases h2 : b = 0 <;> simp [h1, h2] <;> omega

theorem edge_iff (g : Graph α) (i j : Nat) : Edge g i j ↔ i < g.size ∧ j ∈ succs (nodeAt g i) := by
  unfold Edge; rw [mem_succs]

/-- what `linksOk` says about one node, as propositions -/
structure NodeLinks (g : Graph α) (i : Nat) : Prop where
  next_lt : (nodeAt g i).next < g.size
  nextAlt_lt : (nodeAt g i).nextAlt < g.size
  prev_lt : (nodeAt g i).prev < g.size
  prevAlt_lt : (nodeAt g i).prevAlt < g.size
  start : i = 0 → (nodeAt g i).next = 1 ∧ (nodeAt g i).nextAlt = 0 ∧ (nodeAt g i).prev = 0 ∧ (nodeAt g i).prevAlt = 0
  second : i = 1 → (nodeAt g i).prev = 0 ∧ (nodeAt g i).prevAlt = 0
  has_prev : 2 ≤ i → (nodeAt g i).prev ≠ 0
  last : i + 1 = g.size → (nodeAt g i).next = 0 ∧ (nodeAt g i).nextAlt = 0
  has_next : i + 1 ≠ g.size → (nodeAt g i).next ≠ 0
  next_back : (nodeAt g i).next ≠ 0 →
    (nodeAt g (nodeAt g i).next).prev = i ∨ (nodeAt g (nodeAt g i).next).prevAlt = i
  nextAlt_back : (nodeAt g i).nextAlt ≠ 0 →
    ((nodeAt g (nodeAt g i).nextAlt).prev = i ∨ (nodeAt g (nodeAt g i).nextAlt).prevAlt = i) ∧
      (nodeAt g i).nextAlt ≠ (nodeAt g i).next
  prev_fwd : (nodeAt g i).prev ≠ 0 →
    (nodeAt g (nodeAt g i).prev).next = i ∨ (nodeAt g (nodeAt g i).prev).nextAlt = i
  prevAlt_fwd : (nodeAt g i).prevAlt ≠ 0 →
    ((nodeAt g (nodeAt g i).prevAlt).next = i ∨ (nodeAt g (nodeAt g i).prevAlt).nextAlt = i) ∧
      (nodeAt g i).prevAlt ≠ (nodeAt g i).prev

theorem nodeLinks_of (g : Graph α) (i : Nat) (h : nodeLinksOk g i = true) : NodeLinks g i := by
  unfold nodeLinksOk at h
  simp only [Bool.and_eq_true, Bool.or_eq_true, decide_eq_true_eq] at h
  obtain ⟨⟨⟨⟨⟨⟨⟨⟨⟨⟨⟨h1, h2⟩, h3⟩, h4⟩, h5⟩, h6⟩, h7⟩, h8⟩, h9⟩, h10⟩, h11⟩, h12⟩ := h
  refine ⟨h1, h2, h3, h4, ?_, ?_, ?_, ?_, ?_, ?_, ?_, ?_, ?_⟩
  · intro hi
    rcases h5 with h5 | h5
    · exact absurd hi h5
    · exact ⟨h5.1.1.1, h5.1.1.2, h5.1.2, h5.2⟩
  · intro hi
    rcases h6 with h6 | h6
    · exact absurd hi h6
    · exact h6
  · intro hi
    rcases h7 with h7 | h7
    · omega
    · exact h7
  · intro hi
    rw [if_pos hi] at h8
    simpa using h8
  · intro hi
    rw [if_neg hi] at h8
    simpa using h8
  · intro hn
    rcases h9 with h9 | h9
    · exact absurd h9 hn
    · exact h9
  · intro hn
    rcases h10 with h10 | h10
    · exact absurd h10 hn
    · exact h10
  · intro hn
    rcases h11 with h11 | h11
    · exact absurd h11 hn
    · exact h11
  · intro hn
    rcases h12 with h12 | h12
    · exact absurd h12 hn
    · exact h12

theorem links_size (g : Graph α) (h : linksOk g = true) : 2 ≤ g.size := by
  unfold linksOk at h
  simp only [Bool.and_eq_true, decide_eq_true_eq] at h
  exact h.1

theorem links_node (g : Graph α) (h : linksOk g = true) (i : Nat) (hi : i < g.size) : NodeLinks g i := by
  unfold linksOk at h
  simp only [Bool.and_eq_true, List.all_eq_true, List.mem_range] at h
  exact nodeLinks_of g i (h.2 i hi)

theorem edge_lt (g : Graph α) (h : linksOk g = true) {i j : Nat} (e : Edge g i j) : j < g.size := by
  obtain ⟨hi, _, hj | hj⟩ := e
  · exact hj ▸ (links_node g h i hi).next_lt
  · exact hj ▸ (links_node g h i hi).nextAlt_lt

theorem edge_back (g : Graph α) (h : linksOk g = true) {i j : Nat} (e : Edge g i j) :
    (nodeAt g j).prev = i ∨ (nodeAt g j).prevAlt = i := by
  obtain ⟨hi, h0, hj | hj⟩ := e
  · have := (links_node g h i hi).next_back (hj ▸ h0); rwa [hj] at this
  · have := ((links_node g h i hi).nextAlt_back (hj ▸ h0)).1; rwa [hj] at this

/-- the link from a node's `idx_prev` (node 1: from the start node) -/
theorem prev_edge (g : Graph α) (h : linksOk g = true) {i : Nat} (hi : i < g.size) (h0 : i ≠ 0) :
    Edge g (nodeAt g i).prev i := by
  have hn := links_node g h i hi
  by_cases h1 : i = 1
  · have h00 := (links_node g h 0 (by have := links_size g h; omega)).start rfl
    refine ⟨hn.prev_lt, h0, Or.inl ?_⟩
    rw [(hn.second h1).1, h00.1, h1]
  · have hp : (nodeAt g i).prev ≠ 0 := hn.has_prev (by omega)
    exact ⟨hn.prev_lt, h0, hn.prev_fwd hp⟩

theorem walk_lt (g : Graph α) (h : linksOk g = true) {i k : Nat} {l : List Nat} (w : Walk g i l k)
    (hi : i < g.size) : k < g.size := by
  induction w with
  | nil i => exact hi
  | cons e _ ih => exact ih (edge_lt g h e)

theorem walk_snoc (g : Graph α) {i p k : Nat} {l : List Nat} (w : Walk g i l p) (e : Edge g p k) :
    Walk g i (l ++ [k]) k := by
  induction w with
  | nil i => exact Walk.cons e (Walk.nil k)
  | cons e' _ ih => exact Walk.cons e' (ih e)

/-! ### rank -/

theorem rank_facts (g : Graph α) (r : Array Nat) (h : rankOk g r = true) {i : Nat} (hi : i < g.size) :
    r.getD i 0 < g.size ∧ ∀ j, Edge g i j → r.getD i 0 < r.getD j 0 := by
  unfold rankOk at h
  simp only [List.all_eq_true, List.mem_range, Bool.and_eq_true, decide_eq_true_eq] at h
  refine ⟨(h i hi).1, fun j e => (h i hi).2 j ?_⟩
  exact ((edge_iff g i j).mp e).2

/-- ranks grow by at least one per step: a walk from `i` with `l.length` steps ends at rank ≥ rank i + length -/
theorem walk_rank (g : Graph α) (r : Array Nat) (h : rankOk g r = true) {i k : Nat} {l : List Nat}
    (w : Walk g i l k) : l.length + r.getD i 0 ≤ r.getD k 0 := by
  induction w with
  | nil i => simp
  | cons e _ ih =>
    have := (rank_facts g r h e.1).2 _ e
    simp only [List.length_cons]; omega

/-- from every node the primary links lead to the end node -/
theorem exists_primary_walk (g : Graph α) (r : Array Nat) (hl : linksOk g = true) (hr : rankOk g r = true) :
    ∀ d i, i < g.size → g.size - r.getD i 0 ≤ d → ∃ l, Walk g i l (g.size - 1) ∧ IsPrimary g i l := by
  intro d
  induction d with
  | zero =>
    intro i hi hd
    have := (rank_facts g r hr hi).1
    omega
  | succ d ih =>
    intro i hi hd
    by_cases hlast : i + 1 = g.size
    · refine ⟨[], ?_, trivial⟩
      have : g.size - 1 = i := by omega
      rw [this]; exact Walk.nil i
    · have hn := links_node g hl i hi
      have hne := hn.has_next hlast
      have e : Edge g i (nodeAt g i).next := ⟨hi, hne, Or.inl rfl⟩
      have hj := edge_lt g hl e
      have hrk := (rank_facts g r hr hi).2 _ e
      have hrj := (rank_facts g r hr hj).1
      obtain ⟨l, w, p⟩ := ih (nodeAt g i).next hj (by omega)
      exact ⟨(nodeAt g i).next :: l, Walk.cons e w, ⟨rfl, p⟩⟩

end structure_
/-! ## Part 2: the route automaton -/
section route
variable {α : Type} [OfNat α 0]

/-- the automaton run over the nodes of a walk -/
def runFrom (adj : Array (Nat × Nat)) (origs : List Nat) (g : Graph α) : RSt → List Nat → Option RSt
  | s, [] => some s
  | s, i :: l =>
    match stepEv adj origs s (nodeAt g i) with
    | some s' => runFrom adj origs g s' l
    | none => none

def arrOf (x : Node α) : List Nat := if x.ty = .arrive then [x.link] else []
def clrOf (x : Node α) : List Nat := if x.ty = .clear then [x.link] else []

/-- links entered (arrive events) along a list of nodes, in order -/
def arrivals (g : Graph α) : List Nat → List Nat
  | [] => []
  | i :: l => arrOf (nodeAt g i) ++ arrivals g l

/-- links cleared (clear events) along a list of nodes, in order -/
def clearings (g : Graph α) : List Nat → List Nat
  | [] => []
  | i :: l => clrOf (nodeAt g i) ++ clearings g l

/-- what the automaton state knows about the history: `A` links entered, `C` links cleared -/
structure Inv (adj : Array (Nat × Nat)) (origs : List Nat) (s : RSt) (A C : List Nat) : Prop where
  split : A = C ++ s.pending
  last : s.last = A.getLast?
  chain : A.IsChain (fun a b => adjOk adj a b = true)
  orig : ∀ a ∈ A.head?, a ∈ origs

theorem inv_init (adj : Array (Nat × Nat)) (origs : List Nat) : Inv adj origs RSt.init [] [] :=
  ⟨rfl, rfl, List.isChain_nil, by simp⟩

theorem inv_step (adj : Array (Nat × Nat)) (origs : List Nat) (s s' : RSt) (A C : List Nat) (x : Node α)
    (hi : Inv adj origs s A C) (hs : stepEv adj origs s x = some s') :
    Inv adj origs s' (A ++ arrOf x) (C ++ clrOf x) := by
  obtain ⟨h1, h2, h3, h4⟩ := hi
  unfold stepEv at hs
  unfold arrOf clrOf
  cases hty : x.ty with
  | fake =>
    simp only [hty] at hs ⊢
    cases hs
    simpa using ⟨h1, h2, h3, h4⟩
  | arrive =>
    simp only [hty] at hs ⊢
    cases hl : s.last with
    | none =>
      simp only [hl] at hs
      split_ifs at hs with ho
      cases hs
      have hA : A = [] := by
        rw [hl] at h2
        exact List.getLast?_eq_none_iff.mp h2.symm
      subst hA
      have hC : C = [] ∧ s.pending = [] := by
        have := h1.symm; simpa using this
      refine ⟨?_, ?_, ?_, ?_⟩
      · simp [hC.1, hC.2]
      · simp
      · simp
      · intro a ha
        simp at ha; subst ha
        simpa using ho
    | some L =>
      simp only [hl] at hs
      split_ifs at hs with ha
      cases hs
      rw [hl] at h2
      have hne : A ≠ [] := by
        intro h; subst h; simp at h2
      refine ⟨?_, ?_, ?_, ?_⟩
      · simp [h1, List.append_assoc]
      · simp
      · rw [List.isChain_append]
        refine ⟨h3, List.isChain_singleton _, ?_⟩
        intro a ha b hb
        simp at hb; subst hb
        rw [← h2] at ha
        simp at ha; subst ha
        exact ha
      · intro a ha
        apply h4
        cases A with
        | nil => exact absurd rfl hne
        | cons a0 t => simpa using ha
  | clear =>
    simp only [hty] at hs ⊢
    cases hp : s.pending with
    | nil => simp [hp] at hs
    | cons h t =>
      simp only [hp] at hs
      split_ifs at hs with he
      cases hs
      refine ⟨?_, ?_, ?_, ?_⟩
      · simp [h1, hp, he]
      · simpa using h2
      · simpa using h3
      · simpa using h4

theorem arrivals_append (g : Graph α) (l l' : List Nat) :
    arrivals g (l ++ l') = arrivals g l ++ arrivals g l' := by
  induction l with
  | nil => rfl
  | cons i l ih => simp [arrivals, ih, List.append_assoc]

theorem clearings_append (g : Graph α) (l l' : List Nat) :
    clearings g (l ++ l') = clearings g l ++ clearings g l' := by
  induction l with
  | nil => rfl
  | cons i l ih => simp [clearings, ih, List.append_assoc]

/-- the invariant is carried along any successful run -/
theorem run_inv (adj : Array (Nat × Nat)) (origs : List Nat) (g : Graph α) (nodes : List Nat) :
    ∀ (s s' : RSt) (A C : List Nat), Inv adj origs s A C → runFrom adj origs g s nodes = some s' →
      Inv adj origs s' (A ++ arrivals g nodes) (C ++ clearings g nodes) := by
  induction nodes with
  | nil =>
    intro s s' A C hi hr
    simp only [runFrom] at hr; cases hr
    simpa [arrivals, clearings] using hi
  | cons i l ih =>
    intro s s' A C hi hr
    simp only [runFrom] at hr
    cases hst : stepEv adj origs s (nodeAt g i) with
    | none => simp [hst] at hr
    | some s1 =>
      simp only [hst] at hr
      have := ih s1 s' _ _ (inv_step adj origs s s1 A C (nodeAt g i) hi hst) hr
      simpa [arrivals, clearings, List.append_assoc] using this

/-- a successful run is successful on every prefix -/
theorem run_prefix (adj : Array (Nat × Nat)) (origs : List Nat) (g : Graph α) (nodes : List Nat) :
    ∀ (s s' : RSt) (k : Nat), runFrom adj origs g s nodes = some s' →
      ∃ sk, runFrom adj origs g s (nodes.take k) = some sk := by
  induction nodes with
  | nil => intro s s' k _; exact ⟨s, by simp [runFrom]⟩
  | cons i l ih =>
    intro s s' k hr
    cases k with
    | zero => exact ⟨s, by simp [runFrom]⟩
    | succ k =>
      simp only [runFrom] at hr
      cases hst : stepEv adj origs s (nodeAt g i) with
      | none => simp [hst] at hr
      | some s1 =>
        simp only [hst] at hr
        obtain ⟨sk, hk⟩ := ih s1 s' k hr
        exact ⟨sk, by simp [runFrom, hst, hk]⟩

/-- the checker's state sets contain the state of every walk: lifted from links to walks by induction -/
theorem run_in_states (adj : Array (Nat × Nat)) (origs : List Nat) (g : Graph α) (st : Array (List RSt))
    (hl : ∀ i < g.size, routeLinkOk adj origs g st i = true) {i k : Nat} {l : List Nat} (w : Walk g i l k) :
    ∀ s ∈ st.getD i [], ∃ s', runFrom adj origs g s l = some s' ∧ s' ∈ st.getD k [] := by
  induction w with
  | nil i => intro s hs; exact ⟨s, rfl, hs⟩
  | @cons i j k l e _ ih =>
    intro s hs
    have h := hl i e.1
    unfold routeLinkOk at h
    simp only [List.all_eq_true] at h
    have h := h j ((edge_iff g i j).mp e).2 s hs
    cases hst : stepEv adj origs s (nodeAt g j) with
    | none => simp [hst] at h
    | some s1 =>
      simp only [hst, decide_eq_true_eq] at h
      obtain ⟨s', hr, hm⟩ := ih s1 h
      exact ⟨s', by simp [runFrom, hst, hr], hm⟩

end route

/-! ## Part 3: times along walks -/
section times
variable {α : Type} [Field α] [LinearOrder α] [IsStrictOrderedRing α]

/-- duration of one link: an `idx_next` link takes its source's `time_to_next`, an alternate link no time -/
def stepDur (g : Graph α) (i j : Nat) : α := if (nodeAt g i).next = j then (nodeAt g i).ttn else 0

/-- duration of a walk = sum of the durations of its links -/
def walkDur (g : Graph α) : Nat → List Nat → α
  | _, [] => 0
  | i, j :: l => stepDur g i j + walkDur g j l

theorem walkDur_snoc (g : Graph α) {i p : Nat} {l : List Nat} (w : Walk g i l p) (k : Nat) :
    walkDur g i (l ++ [k]) = walkDur g i l + stepDur g p k := by
  induction w with
  | nil i => simp [walkDur]
  | cons _ _ ih => simp only [List.cons_append, walkDur, ih]; ring

theorem fin_set (finite : α → Bool) (g : Graph α) (h : finOk finite g = true) {i : Nat} (hi : i < g.size) :
    ∃ t, (nodeAt g i).ts = some t ∧ tsv (nodeAt g i) = t := by
  unfold finOk at h
  simp only [List.all_eq_true, List.mem_range, Bool.and_eq_true] at h
  have := (h i hi).1
  cases hts : (nodeAt g i).ts with
  | none => simp [hts] at this
  | some t => exact ⟨t, rfl, by simp [tsv, hts]⟩

theorem tight_at (tol : α) (g : Graph α) (h : tightOk tol g = true) {i : Nat} (hi : i < g.size)
    (hn : (nodeAt g i).next ≠ 0) :
    |tsv (nodeAt g (nodeAt g i).next) - (tsv (nodeAt g i) + (nodeAt g i).ttn)| ≤ tol := by
  unfold tightOk at h
  simp only [List.all_eq_true, List.mem_range, Bool.or_eq_true, decide_eq_true_eq] at h
  rcases h i hi with h | h
  · exact absurd h hn
  · rwa [Basic.absv_eq_abs] at h

theorem alt_at (tol : α) (g : Graph α) (h : altOk tol g = true) {i : Nat} (hi : i < g.size)
    (hn : (nodeAt g i).nextAlt ≠ 0) :
    tsv (nodeAt g (nodeAt g i).nextAlt) ≤ tsv (nodeAt g i) + tol := by
  unfold altOk at h
  simp only [List.all_eq_true, List.mem_range, Bool.or_eq_true, decide_eq_true_eq] at h
  rcases h i hi with h | h
  · exact absurd h hn
  · exact h

/-- one link: the target is not scheduled later than the source allows (up to `tol`) -/
theorem edge_upper (tol : α) (g : Graph α) (ht : tightOk tol g = true) (ha : altOk tol g = true)
    {i j : Nat} (e : Edge g i j) : tsv (nodeAt g j) ≤ tsv (nodeAt g i) + stepDur g i j + tol := by
  obtain ⟨hi, h0, hj⟩ := e
  unfold stepDur
  by_cases hn : (nodeAt g i).next = j
  · rw [if_pos hn]
    have := tight_at tol g ht hi (hn ▸ h0)
    rw [hn] at this
    have := (abs_le.mp this).2
    linarith
  · rw [if_neg hn]
    rcases hj with hj | hj
    · exact absurd hj hn
    · have := alt_at tol g ha hi (hj ▸ h0)
      rw [hj] at this
      linarith

/-- every walk: the end is scheduled no later than start + duration of the walk (+ one `tol` per link) -/
theorem walk_upper (tol : α) (g : Graph α) (ht : tightOk tol g = true) (ha : altOk tol g = true)
    {i k : Nat} {l : List Nat} (w : Walk g i l k) :
    tsv (nodeAt g k) ≤ tsv (nodeAt g i) + walkDur g i l + (l.length : α) * tol := by
  induction w with
  | nil i => simp [walkDur]
  | cons e _ ih =>
    have := edge_upper tol g ht ha e
    simp only [walkDur, List.length_cons, Nat.cast_add, Nat.cast_one]
    linarith

/-- a walk along primary links attains it -/
theorem primary_lower (tol : α) (g : Graph α) (ht : tightOk tol g = true)
    {i k : Nat} {l : List Nat} (w : Walk g i l k) (hp : IsPrimary g i l) :
    tsv (nodeAt g i) + walkDur g i l ≤ tsv (nodeAt g k) + (l.length : α) * tol := by
  induction w with
  | nil i => simp [walkDur]
  | @cons i j k l e _ ih =>
    obtain ⟨hn, hp'⟩ := hp
    have h1 := tight_at tol g ht e.1 (hn ▸ e.2.1)
    rw [hn] at h1
    have h1 := (abs_le.mp h1).1
    have h2 := ih hp'
    simp only [walkDur, stepDur, if_pos hn, List.length_cons, Nat.cast_add, Nat.cast_one]
    linarith

/-! ### the forward pass's output -/

theorem fwd_facts (depart : α) (g : Graph α) (h : fwdTimesOk depart g = true) :
    tsv (nodeAt g 0) = depart ∧ ∀ j < g.size,
      (j ≠ 0 → tsv (nodeAt g j) = tsv (nodeAt g (nodeAt g j).prev) + stepDur g (nodeAt g j).prev j) ∧
      (∀ k, Edge g j k → tsv (nodeAt g k) ≤ tsv (nodeAt g j) + stepDur g j k) := by
  unfold fwdTimesOk at h
  simp only [Bool.and_eq_true, List.all_eq_true, List.mem_range, Bool.or_eq_true, decide_eq_true_eq] at h
  refine ⟨(Basic.eqb_iff _ _).mp h.1, fun j hj => ⟨fun h0 => ?_, fun k e => ?_⟩⟩
  · have := (h.2 j hj).1.1
    rcases this with this | this
    · exact absurd this h0
    · unfold stepDur
      by_cases hn : (nodeAt g (nodeAt g j).prev).next = j
      · rw [if_pos hn] at this ⊢; exact (Basic.eqb_iff _ _).mp this
      · rw [if_neg hn] at this ⊢; rw [(Basic.eqb_iff _ _).mp this]; ring
  · obtain ⟨_, h0, hk⟩ := e
    unfold stepDur
    by_cases hn : (nodeAt g j).next = k
    · rw [if_pos hn]
      rcases (h.2 j hj).1.2 with h1 | h1
      · exact absurd (hn ▸ h1) h0
      · rwa [hn] at h1
    · rw [if_neg hn]
      rcases hk with hk | hk
      · exact absurd hk hn
      · rcases (h.2 j hj).2 with h1 | h1
        · exact absurd (hk ▸ h1) h0
        · rw [hk] at h1; linarith

theorem fwd_walk_upper (depart : α) (g : Graph α) (h : fwdTimesOk depart g = true)
    {i k : Nat} {l : List Nat} (w : Walk g i l k) :
    tsv (nodeAt g k) ≤ tsv (nodeAt g i) + walkDur g i l := by
  induction w with
  | nil i => simp [walkDur]
  | cons e _ ih =>
    have := ((fwd_facts depart g h).2 _ e.1).2 _ e
    simp only [walkDur]; linarith

/-- every node is reached from the start by a walk (along `idx_prev`) that attains its scheduled time -/
theorem fwd_attained (depart : α) (g : Graph α) (r : Array Nat) (hl : linksOk g = true)
    (hr : rankOk g r = true) (h : fwdTimesOk depart g = true) :
    ∀ d k, k < g.size → r.getD k 0 ≤ d →
      ∃ l, Walk g 0 l k ∧ tsv (nodeAt g k) = depart + walkDur g 0 l := by
  intro d
  induction d with
  | zero =>
    intro k hk hd
    by_cases h0 : k = 0
    · subst h0; exact ⟨[], Walk.nil 0, by simp [walkDur, (fwd_facts depart g h).1]⟩
    · have e := prev_edge g hl hk h0
      have := (rank_facts g r hr e.1).2 _ e
      omega
  | succ d ih =>
    intro k hk hd
    by_cases h0 : k = 0
    · subst h0; exact ⟨[], Walk.nil 0, by simp [walkDur, (fwd_facts depart g h).1]⟩
    · have e := prev_edge g hl hk h0
      have hrk := (rank_facts g r hr e.1).2 _ e
      obtain ⟨l, w, ht⟩ := ih (nodeAt g k).prev e.1 (by omega)
      refine ⟨l ++ [k], walk_snoc g w e, ?_⟩
      rw [walkDur_snoc g w k, ((fwd_facts depart g h).2 k hk).1 h0, ht]; ring

end times

/-! ## Part 4: what the two passes leave alone (frame properties of the literal models) -/
section frames
variable {α : Type} [Add α] [Sub α] [Mul α] [Div α] [Neg α] [LT α] [LE α]
  [DecidableLT α] [DecidableLE α] [OfNat α 0] [OfNat α 1]

theorem bind_ok {σ τ : Type} (x : Res σ) (f : σ → Res τ) (r : τ) :
    (x >>= f) = .ok r ↔ ∃ a, x = .ok a ∧ f a = .ok r := by
  cases x <;> simp [bind, Res.bind]

/-- the fields the forward pass never writes -/
def SameF (x y : Node α) : Prop :=
  y.ttn = x.ttn ∧ y.dist = x.dist ∧ y.speed = x.speed ∧ y.nextAlt = x.nextAlt ∧ y.prevAlt = x.prevAlt ∧
  y.link = x.link ∧ y.ty = x.ty

def FrameF (g g' : Graph α) : Prop := g'.size = g.size ∧ ∀ i, SameF (nodeAt g i) (nodeAt g' i)

theorem FrameF.refl (g : Graph α) : FrameF g g := ⟨rfl, fun _ => ⟨rfl, rfl, rfl, rfl, rfl, rfl, rfl⟩⟩

theorem FrameF.trans {g g' g'' : Graph α} (h : FrameF g g') (h' : FrameF g' g'') : FrameF g g'' := by
  refine ⟨h'.1.trans h.1, fun i => ?_⟩
  obtain ⟨a1, a2, a3, a4, a5, a6, a7⟩ := h.2 i
  obtain ⟨b1, b2, b3, b4, b5, b6, b7⟩ := h'.2 i
  exact ⟨b1.trans a1, b2.trans a2, b3.trans a3, b4.trans a4, b5.trans a5, b6.trans a6, b7.trans a7⟩

theorem modN_frame {g g' : Graph α} {i : Nat} {f : Node α → Node α}
    (h : modN g i f = .ok g') (hf : ∀ x, SameF x (f x)) : FrameF g g' := by
  unfold modN at h
  cases hx : g[i]? with
  | none => simp [hx] at h
  | some x =>
    simp only [hx] at h
    cases h
    refine ⟨by simp, fun j => ?_⟩
    unfold nodeAt
    rw [Array.getD_eq_getD_getElem?, Array.getD_eq_getD_getElem?]
    by_cases hj : i = j
    · subst hj
      have hi : i < g.size := by
        by_contra hc
        have : g[i]? = none := by simp; omega
        rw [this] at hx; cases hx
      rw [Array.getElem?_setIfInBounds_self, if_pos hi, hx]
      exact hf x
    · rw [Array.getElem?_setIfInBounds_ne hj]
      exact ⟨rfl, rfl, rfl, rfl, rfl, rfl, rfl⟩

theorem check_ok (c : Bool) (u : Unit) : check c = .ok u ↔ c = true := by
  unfold check; cases c <;> simp

theorem pure_ok {σ : Type} (a b : σ) : (pure a : Res σ) = .ok b ↔ a = b := by
  simp [pure]

theorem pushNextAlts_frame : ∀ (f : Nat) (g : Graph α) (q : List (α × Nat)) (i : Nat) (g' : Graph α)
    (q' : List (α × Nat)), pushNextAlts f g q i = .ok (g', q') → FrameF g g'
  | 0, g, q, i, g', q', h => by simp [pushNextAlts] at h
  | f + 1, g, q, i, g', q', h => by
    unfold pushNextAlts at h
    simp only [bind_ok] at h
    obtain ⟨c, _, h⟩ := h
    split at h
    · rw [pure_ok] at h; cases h; exact FrameF.refl g
    · simp only [bind_ok] at h
      obtain ⟨g1, hg1, a, _, t, _, h⟩ := h
      exact (modN_frame hg1 (fun x => ⟨rfl, rfl, rfl, rfl, rfl, rfl, rfl⟩)).trans
        (pushNextAlts_frame f _ _ _ _ _ h)

theorem fwdChain_frame : ∀ (f : Nat) (g : Graph α) (q : List (α × Nat)) (c n : Nat) (r : Graph α × List (α × Nat) × Nat × Nat),
    fwdChain f g q c n = .ok r → FrameF g r.1
  | 0, g, q, c, n, r, h => by simp [fwdChain] at h
  | f + 1, g, q, c, n, r, h => by
    unfold fwdChain at h
    simp only [bind_ok] at h
    obtain ⟨nx, _, u, _, cc, _, g1, hg1, nx2, _, p, hp, nn, _, h⟩ := h
    obtain ⟨g2, q2⟩ := p
    have f1 := modN_frame hg1 (fun x => ⟨rfl, rfl, rfl, rfl, rfl, rfl, rfl⟩)
    have f2 := pushNextAlts_frame _ _ _ _ _ _ hp
    split at h
    · rw [pure_ok] at h; subst h; exact f1.trans f2
    · exact (f1.trans f2).trans (fwdChain_frame f _ _ _ _ _ h)

theorem fwdLoop_frame : ∀ (f : Nat) (g : Graph α) (q : List (α × Nat)) (g' : Graph α),
    fwdLoop f g q = .ok g' → FrameF g g'
  | 0, g, q, g', h => by simp [fwdLoop] at h
  | f + 1, g, q, g', h => by
    unfold fwdLoop at h
    split at h
    · cases h; exact FrameF.refl g
    · simp only [bind_ok] at h
      obtain ⟨c, _, u1, _, nx, _, u2, _, idxNext, _, g1, hg1, r, hr, h⟩ := h
      have f1 : FrameF g g1 := by
        split at hg1
        · simp only [bind_ok] at hg1
          obtain ⟨jn, _, ga, ha, gb, hb, gc, hc, hd⟩ := hg1
          exact ((modN_frame ha (fun x => ⟨rfl, rfl, rfl, rfl, rfl, rfl, rfl⟩)).trans
            (modN_frame hb (fun x => ⟨rfl, rfl, rfl, rfl, rfl, rfl, rfl⟩))).trans
            ((modN_frame hc (fun x => ⟨rfl, rfl, rfl, rfl, rfl, rfl, rfl⟩)).trans
            (modN_frame hd (fun x => ⟨rfl, rfl, rfl, rfl, rfl, rfl, rfl⟩)))
        · rw [pure_ok] at hg1; subst hg1; exact FrameF.refl g
      have f2 := fwdChain_frame _ _ _ _ _ _ hr
      obtain ⟨g2, q2, ic, inx⟩ := r
      simp only at h
      obtain ⟨nn, _, cc, _, h⟩ := h
      split at h
      · split at h
        · simp only [bind_ok] at h
          obtain ⟨g3, hg3, h⟩ := h
          exact ((f1.trans f2).trans (modN_frame hg3 (fun x => ⟨rfl, rfl, rfl, rfl, rfl, rfl, rfl⟩))).trans
            (fwdLoop_frame f _ _ _ h)
        · simp only [bind_ok] at h
          obtain ⟨_, _, t, _, h⟩ := h
          exact (f1.trans f2).trans (fwdLoop_frame f _ _ _ h)
      · simp only [bind_ok] at h
        obtain ⟨_, _, _, _, h⟩ := h
        exact (f1.trans f2).trans (fwdLoop_frame f _ _ _ h)

/-- the forward pass writes `time_sched`, `idx_next`, `idx_prev` and nothing else: the vector keeps its
    length and every node its event, durations, speed and alternate links -/
theorem updateForward_frame (g g' : Graph α) (depart : α) (h : updateForward g depart = .ok g') :
    FrameF g g' := by
  unfold updateForward at h
  simp only [bind_ok] at h
  obtain ⟨g1, h1, g2, h2, p, hp, h⟩ := h
  obtain ⟨g3, q3⟩ := p
  exact (((modN_frame h1 (fun x => ⟨rfl, rfl, rfl, rfl, rfl, rfl, rfl⟩)).trans
    (modN_frame h2 (fun x => ⟨rfl, rfl, rfl, rfl, rfl, rfl, rfl⟩))).trans
    (pushNextAlts_frame _ _ _ _ _ _ hp)).trans (fwdLoop_frame _ _ _ _ h)

/-! ### backward -/

/-- the fields the backward pass never writes (it exchanges `time_to_next` / `dist_to_next` between a split
    node and its fake when it relinks them) -/
def SameB (x y : Node α) : Prop :=
  y.speed = x.speed ∧ y.nextAlt = x.nextAlt ∧ y.prevAlt = x.prevAlt ∧ y.link = x.link ∧ y.ty = x.ty

def FrameB (g g' : Graph α) : Prop := g'.size = g.size ∧ ∀ i, SameB (nodeAt g i) (nodeAt g' i)

theorem FrameB.refl (g : Graph α) : FrameB g g := ⟨rfl, fun _ => ⟨rfl, rfl, rfl, rfl, rfl⟩⟩

theorem FrameB.trans {g g' g'' : Graph α} (h : FrameB g g') (h' : FrameB g' g'') : FrameB g g'' := by
  refine ⟨h'.1.trans h.1, fun i => ?_⟩
  obtain ⟨a1, a2, a3, a4, a5⟩ := h.2 i
  obtain ⟨b1, b2, b3, b4, b5⟩ := h'.2 i
  exact ⟨b1.trans a1, b2.trans a2, b3.trans a3, b4.trans a4, b5.trans a5⟩

theorem modN_frameB {g g' : Graph α} {i : Nat} {f : Node α → Node α}
    (h : modN g i f = .ok g') (hf : ∀ x, SameB x (f x)) : FrameB g g' := by
  unfold modN at h
  cases hx : g[i]? with
  | none => simp [hx] at h
  | some x =>
    simp only [hx] at h
    cases h
    refine ⟨by simp, fun j => ?_⟩
    unfold nodeAt
    rw [Array.getD_eq_getD_getElem?, Array.getD_eq_getD_getElem?]
    by_cases hj : i = j
    · subst hj
      have hi : i < g.size := by
        by_contra hc
        have : g[i]? = none := by simp; omega
        rw [this] at hx; cases hx
      rw [Array.getElem?_setIfInBounds_self, if_pos hi, hx]
      exact hf x
    · rw [Array.getElem?_setIfInBounds_ne hj]
      exact ⟨rfl, rfl, rfl, rfl, rfl⟩

theorem pushPrevAlts_frame : ∀ (f : Nat) (g : Graph α) (p : Array Bool) (q : List (α × α × Nat)) (i : Nat)
    (r : Graph α × Array Bool × List (α × α × Nat)), pushPrevAlts f g p q i = .ok r → FrameB g r.1
  | 0, g, p, q, i, r, h => by simp [pushPrevAlts] at h
  | f + 1, g, p, q, i, r, h => by
    unfold pushPrevAlts at h
    simp only [bind_ok] at h
    obtain ⟨c, _, h⟩ := h
    split at h
    · rw [pure_ok] at h; subst h; exact FrameB.refl g
    · simp only [bind_ok] at h
      obtain ⟨a, _, g1, hg1, p1, _, a2, _, ap, _, k, _, s, _, h⟩ := h
      exact (modN_frameB hg1 (fun x => ⟨rfl, rfl, rfl, rfl, rfl⟩)).trans (pushPrevAlts_frame f _ _ _ _ _ h)

theorem bwdChain_frame (timeSub : α) : ∀ (f : Nat) (g : Graph α) (p : Array Bool) (q : List (α × α × Nat))
    (c n : Nat) (r : Graph α × Array Bool × List (α × α × Nat) × Nat × Nat),
    bwdChain timeSub f g p q c n = .ok r → FrameB g r.1
  | 0, g, p, q, c, n, r, h => by simp [bwdChain] at h
  | f + 1, g, p, q, c, n, r, h => by
    unfold bwdChain at h
    simp only [bind_ok] at h
    obtain ⟨pp, _, u, _, g1, hg1, p1, _, pn, _, t, ht, pn2, _, h⟩ := h
    obtain ⟨g2, p2, q2⟩ := t
    have f1 := modN_frameB hg1 (fun x => ⟨rfl, rfl, rfl, rfl, rfl⟩)
    have f2 := pushPrevAlts_frame _ _ _ _ _ _ ht
    split at h
    · rw [pure_ok] at h; subst h; exact f1.trans f2
    · exact (f1.trans f2).trans (bwdChain_frame timeSub f _ _ _ _ _ _ h)

theorem bwdLoop_frame : ∀ (f : Nat) (g : Graph α) (p : Array Bool) (q : List (α × α × Nat)) (g' : Graph α),
    bwdLoop f g p q = .ok g' → FrameB g g'
  | 0, g, p, q, g', h => by simp [bwdLoop] at h
  | f + 1, g, p, q, g', h => by
    unfold bwdLoop at h
    split at h
    · cases h; exact FrameB.refl g
    · simp only [bind_ok] at h
      obtain ⟨c, _, pc, _, u1, _, pp, _, u2, _, idxPrev, _, g1, hg1, r, hr, h⟩ := h
      have f1 : FrameB g g1 := by
        split at hg1
        · simp only [bind_ok] at hg1
          obtain ⟨pn, _, ga, ha, gb, hb, gc, hc, gd, hd, s1, _, p1, _, ge, he, gf, hf, s2, _, p2, _, gg, hg, hh⟩ := hg1
          have m := fun {a b : Graph α} {i : Nat} {f : Node α → Node α} (h : modN a i f = .ok b)
            (hf : ∀ x, SameB x (f x)) => modN_frameB h hf
          exact (((m ha (fun x => ⟨rfl, rfl, rfl, rfl, rfl⟩)).trans (m hb (fun x => ⟨rfl, rfl, rfl, rfl, rfl⟩))).trans
            ((m hc (fun x => ⟨rfl, rfl, rfl, rfl, rfl⟩)).trans (m hd (fun x => ⟨rfl, rfl, rfl, rfl, rfl⟩)))).trans
            (((m he (fun x => ⟨rfl, rfl, rfl, rfl, rfl⟩)).trans (m hf (fun x => ⟨rfl, rfl, rfl, rfl, rfl⟩))).trans
            ((m hg (fun x => ⟨rfl, rfl, rfl, rfl, rfl⟩)).trans (m hh (fun x => ⟨rfl, rfl, rfl, rfl, rfl⟩))))
        · rw [pure_ok] at hg1; subst hg1; exact FrameB.refl g
      have f2 := bwdChain_frame _ _ _ _ _ _ _ _ hr
      obtain ⟨g2, p2, q2, ic, ip⟩ := r
      simp only at h
      obtain ⟨pp2, _, pn, _, cc, _, h⟩ := h
      split at h
      · split at h
        · simp only [bind_ok] at h
          obtain ⟨g3, hg3, cc2, _, g4, hg4, p3, _, p4, _, h⟩ := h
          exact (((f1.trans f2).trans (modN_frameB hg3 (fun x => ⟨rfl, rfl, rfl, rfl, rfl⟩))).trans
            (modN_frameB hg4 (fun x => ⟨rfl, rfl, rfl, rfl, rfl⟩))).trans (bwdLoop_frame f _ _ _ _ h)
        · simp only [bind_ok] at h
          obtain ⟨_, _, k, _, h⟩ := h
          exact (f1.trans f2).trans (bwdLoop_frame f _ _ _ _ h)
      · simp only [bind_ok] at h
        obtain ⟨_, _, _, _, h⟩ := h
        exact (f1.trans f2).trans (bwdLoop_frame f _ _ _ _ h)

/-- the backward pass keeps the vector's length and every node's event, speed and alternate links -/
theorem updateBackward_frame (g g' : Graph α) (h : updateBackward g = .ok g') : FrameB g g' := by
  unfold updateBackward at h
  simp only at h
  split at h
  · cases h
  · simp only [bind_ok] at h
    obtain ⟨p1, _, p2, _, st, _, sp, _, k, _, t, ht, h⟩ := h
    obtain ⟨g1, p3, q3⟩ := t
    exact (pushPrevAlts_frame _ _ _ _ _ _ ht).trans (bwdLoop_frame _ _ _ _ _ h)

end frames

end Altrios.Proofs.EstL
