import Altrios.History
import Mathlib.Tactic.SplitIfs
/-
  General lemmas about the tree model of the step / save_state / set_save_interval cascades
  (`Altrios/History.lean`).  Everything here is about ARBITRARY trees; the regenerated shapes
  only enter through the decidable well-formedness checks `wfStep`, `wfSave`, `wfSet`.
-/
namespace Altrios.Proofs.HistL
open Altrios Altrios.Hist

/-! ### predicates over all nodes -/

/- a predicate on (static info, counter, interval, history i-column) holds at every node -/
mutual
def AllT (P : Info → Nat → Option Nat → List Nat → Prop) : Tree → Prop
  | .node s i iv h kids => P s i iv h ∧ AllL P kids
def AllL (P : Info → Nat → Option Nat → List Nat → Prop) : List Tree → Prop
  | [] => True
  | t :: ts => AllT P t ∧ AllL P ts
end

/-- every step counter in the tree equals `c` -/
def PI (c : Nat) : Info → Nat → Option Nat → List Nat → Prop := fun s i _ _ => s.hasI = true → i = c
/-- every `save_interval` in the tree equals `n` -/
def PV (n : Option Nat) : Info → Nat → Option Nat → List Nat → Prop := fun s _ iv _ => s.hasInterval = true → iv = n
/-- every history in the tree has the `i` column `h` (same length, row k refers to the same step) -/
def PH (h : List Nat) : Info → Nat → Option Nat → List Nat → Prop := fun s _ _ hist => s.hasHist = true → hist = h

/-- **Aligned**: all step counters are `c`, all save intervals are `n`, all histories have the i-column `h`. -/
def Aligned (c : Nat) (n : Option Nat) (h : List Nat) (t : Tree) : Prop :=
  AllT (PI c) t ∧ AllT (PV n) t ∧ AllT (PH h) t

/- flat list of the nodes, for reading `AllT` as a plain quantifier -/
mutual
def nodes : Tree → List (Info × Nat × Option Nat × List Nat)
  | .node s i iv h kids => (s, i, iv, h) :: nodesL kids
def nodesL : List Tree → List (Info × Nat × Option Nat × List Nat)
  | [] => []
  | t :: ts => nodes t ++ nodesL ts
end

mutual
theorem AllT_iff (P : Info → Nat → Option Nat → List Nat → Prop) :
    ∀ t, AllT P t ↔ ∀ x ∈ nodes t, P x.1 x.2.1 x.2.2.1 x.2.2.2
  | .node s i iv h kids => by
    simp only [AllT, nodes, List.mem_cons, forall_eq_or_imp]
    rw [AllL_iff P kids]
theorem AllL_iff (P : Info → Nat → Option Nat → List Nat → Prop) :
    ∀ ts, AllL P ts ↔ ∀ x ∈ nodesL ts, P x.1 x.2.1 x.2.2.1 x.2.2.2
  | [] => by simp [AllL, nodesL]
  | t :: ts => by
    simp only [AllL, nodesL, List.mem_append]
    rw [AllT_iff P t, AllL_iff P ts]
    constructor
    · rintro ⟨a, b⟩ x (hx | hx)
      · exact a x hx
      · exact b x hx
    · intro hx
      exact ⟨fun x h => hx x (Or.inl h), fun x h => hx x (Or.inr h)⟩
end

/- Bool version for `decide` on concrete (generated) trees -/
mutual
def allB (p : Info → Nat → Option Nat → List Nat → Bool) : Tree → Bool
  | .node s i iv h kids => p s i iv h && allBL p kids
def allBL (p : Info → Nat → Option Nat → List Nat → Bool) : List Tree → Bool
  | [] => true
  | t :: ts => allB p t && allBL p ts
end

mutual
theorem allB_sound {p : Info → Nat → Option Nat → List Nat → Bool} {P : Info → Nat → Option Nat → List Nat → Prop}
    (hp : ∀ s i iv h, p s i iv h = true → P s i iv h) : ∀ t, allB p t = true → AllT P t
  | .node s i iv h kids => by
    simp only [allB, Bool.and_eq_true, AllT]
    exact fun ⟨a, b⟩ => ⟨hp _ _ _ _ a, allBL_sound hp kids b⟩
theorem allBL_sound {p : Info → Nat → Option Nat → List Nat → Bool} {P : Info → Nat → Option Nat → List Nat → Prop}
    (hp : ∀ s i iv h, p s i iv h = true → P s i iv h) : ∀ ts, allBL p ts = true → AllL P ts
  | [] => fun _ => trivial
  | t :: ts => by
    simp only [allBL, Bool.and_eq_true, AllL]
    exact fun ⟨a, b⟩ => ⟨allB_sound hp t a, allBL_sound hp ts b⟩
end

/-- a freshly constructed object: counters at `c0`, no rows -/
def freshB (c0 : Nat) : Tree → Bool :=
  allB (fun s i _ h => (!s.hasI || i == c0) && (!s.hasHist || h.isEmpty))

theorem freshB_sound (c0 : Nat) (t : Tree) (h : freshB c0 t = true) : AllT (PI c0) t ∧ AllT (PH []) t := by
  constructor
  · refine allB_sound (P := PI c0) ?_ t h
    intro s i iv hh hp hs
    simp only [Bool.and_eq_true, Bool.or_eq_true, Bool.not_eq_true', beq_iff_eq] at hp
    rcases hp.1 with h0 | h0
    · rw [hs] at h0; cases h0
    · exact h0
  · refine allB_sound (P := PH []) ?_ t h
    intro s i iv hh hp hs
    simp only [Bool.and_eq_true, Bool.or_eq_true, Bool.not_eq_true', List.isEmpty_iff] at hp
    rcases hp.2 with h0 | h0
    · rw [hs] at h0; cases h0
    · exact h0

theorem AllL_map {α : Type} (P : Info → Nat → Option Nat → List Nat → Prop) (f : α → Tree)
    (hf : ∀ a, AllT P (f a)) : ∀ l : List α, AllL P (l.map f)
  | [] => trivial
  | a :: l => ⟨hf a, AllL_map P f hf l⟩

/-! ### nothing to align: subtrees without counters / histories -/
mutual
theorem noI_PI (c : Nat) : ∀ t, anyI t = false → AllT (PI c) t
  | .node s i iv h kids => by
    simp only [anyI, Bool.or_eq_false_iff, AllT, PI]
    exact fun ⟨a, b⟩ => ⟨fun hs => (by rw [a] at hs; cases hs), noIL_PI c kids b⟩
theorem noIL_PI (c : Nat) : ∀ ts, anyIL ts = false → AllL (PI c) ts
  | [] => fun _ => trivial
  | t :: ts => by
    simp only [anyIL, Bool.or_eq_false_iff, AllL]
    exact fun ⟨a, b⟩ => ⟨noI_PI c t a, noIL_PI c ts b⟩
end
mutual
theorem noHist_PH (h' : List Nat) : ∀ t, anyHist t = false → AllT (PH h') t
  | .node s i iv h kids => by
    simp only [anyHist, Bool.or_eq_false_iff, AllT, PH]
    exact fun ⟨a, b⟩ => ⟨fun hs => (by rw [a] at hs; cases hs), noHistL_PH h' kids b⟩
theorem noHistL_PH (h' : List Nat) : ∀ ts, anyHistL ts = false → AllL (PH h') ts
  | [] => fun _ => trivial
  | t :: ts => by
    simp only [anyHistL, Bool.or_eq_false_iff, AllL]
    exact fun ⟨a, b⟩ => ⟨noHist_PH h' t a, noHistL_PH h' ts b⟩
end

/-! ### `step()` -/
theorem stepT_info (m : Nat) : ∀ t, (stepT m t).info = t.info
  | .node _ _ _ _ _ => by simp [stepT, Tree.info]

mutual
theorem anyI_stepT (m : Nat) : ∀ t, anyI (stepT m t) = anyI t
  | .node s i iv h kids => by simp only [stepT, anyI]; rw [anyIL_stepL m kids]
theorem anyIL_stepL (m : Nat) : ∀ ts, anyIL (stepL m ts) = anyIL ts
  | [] => rfl
  | t :: ts => by simp only [stepL, anyIL]; rw [anyI_stepT _ t, anyIL_stepL m ts]
end

/- `step` touches nothing but counters -/
mutual
theorem stepT_keeps {P : Info → Nat → Option Nat → List Nat → Prop}
    (hP : ∀ s i i' iv h, P s i iv h → P s i' iv h) (m : Nat) : ∀ t, AllT P t → AllT P (stepT m t)
  | .node s i iv h kids => by
    simp only [stepT, AllT]
    exact fun ⟨a, b⟩ => ⟨hP _ _ _ _ _ a, stepL_keeps hP m kids b⟩
theorem stepL_keeps {P : Info → Nat → Option Nat → List Nat → Prop}
    (hP : ∀ s i i' iv h, P s i iv h → P s i' iv h) (m : Nat) : ∀ ts, AllL P ts → AllL P (stepL m ts)
  | [] => fun _ => trivial
  | t :: ts => by
    simp only [stepL, AllL]
    exact fun ⟨a, b⟩ => ⟨stepT_keeps hP _ t a, stepL_keeps hP m ts b⟩
end

/- one `step()` of the root increments every counter exactly once -/
mutual
theorem stepT_PI (c : Nat) : ∀ t, wfStep t = true → AllT (PI c) t → AllT (PI (c + 1)) (stepT 1 t)
  | .node s i iv h kids => by
    simp only [wfStep, Bool.and_eq_true, stepT, AllT, PI]
    rintro ⟨w1, w2⟩ ⟨a, b⟩
    refine ⟨fun hs => ?_, stepL_PI c kids w2 b⟩
    rw [if_pos hs, beq_iff_eq] at w1
    rw [a hs, w1]
theorem stepL_PI (c : Nat) : ∀ ts, wfStepL ts = true → AllL (PI c) ts → AllL (PI (c + 1)) (stepL 1 ts)
  | [] => fun _ _ => trivial
  | t :: ts => by
    simp only [wfStepL, Bool.and_eq_true, Bool.or_eq_true, Bool.not_eq_true', beq_iff_eq, stepL, AllL]
    rintro ⟨w1, w2⟩ ⟨a, b⟩
    refine ⟨?_, stepL_PI c ts w2 b⟩
    rcases w1 with ⟨e, w⟩ | w
    · rw [e]; exact stepT_PI c t w a
    · exact noI_PI _ _ (by rw [anyI_stepT]; exact w)
end

/-! ### `save_state()` -/
/-- multiplicity with which a node is reached: once, unless the common gate is closed and the call
    sits under an ancestor's gate -/
def mu (o g : Bool) : Nat := if o || !g then 1 else 0

mutual
theorem anyHist_saveT (m : Nat) : ∀ t, anyHist (saveT m t) = anyHist t
  | .node s i iv h kids => by simp only [saveT, anyHist]; rw [anyHistL_saveL _ _ kids]
theorem anyHistL_saveL (a b : Nat) : ∀ ts, anyHistL (saveL a b ts) = anyHistL ts
  | [] => rfl
  | t :: ts => by simp only [saveL, anyHistL]; rw [anyHist_saveT _ t, anyHistL_saveL a b ts]
end

/- `save_state` touches nothing but histories -/
mutual
theorem saveT_keeps {P : Info → Nat → Option Nat → List Nat → Prop}
    (hP : ∀ s i iv h h', P s i iv h → P s i iv h') (m : Nat) : ∀ t, AllT P t → AllT P (saveT m t)
  | .node s i iv h kids => by
    simp only [saveT, AllT]
    exact fun ⟨a, b⟩ => ⟨hP _ _ _ _ _ a, saveL_keeps hP _ _ kids b⟩
theorem saveL_keeps {P : Info → Nat → Option Nat → List Nat → Prop}
    (hP : ∀ s i iv h h', P s i iv h → P s i iv h') (a b : Nat) : ∀ ts, AllL P ts → AllL P (saveL a b ts)
  | [] => fun _ => trivial
  | t :: ts => by
    simp only [saveL, AllL]
    exact fun ⟨x, y⟩ => ⟨saveT_keeps hP _ t x, saveL_keeps hP a b ts y⟩
end

/- In an aligned tree every gate evaluates to the same `o = gateOpen n c`.  A node reached with
    multiplicity `mu o gated` ends with the i-column `h ++ [c]` when the gate is open and `h` when it
    is closed — for either placement of the calls to nested objects (inside or outside the gate). -/
mutual
theorem saveT_PH (c : Nat) (n : Option Nat) (h : List Nat) :
    ∀ (t : Tree) (gated : Bool), wfSave gated t = true → AllT (PI c) t → AllT (PV n) t → AllT (PH h) t →
      AllT (PH (h ++ if gateOpen n c then [c] else [])) (saveT (mu (gateOpen n c) gated) t)
  | .node s i iv hist kids, gated => by
    simp only [wfSave, Bool.and_eq_true, Bool.or_eq_true, Bool.not_eq_true', beq_iff_eq, saveT, AllT, PI, PV, PH]
    rintro ⟨⟨⟨w1, w2⟩, w3⟩, w4⟩ ⟨a1, a2⟩ ⟨b1, b2⟩ ⟨c1, c2⟩
    -- the multiplicity inside this node's own gate
    have hmIn : (if s.hasInterval = true then (if gateOpen iv i = true then mu (gateOpen n c) gated else 0)
        else mu (gateOpen n c) gated) = mu (gateOpen n c) (gated || s.hasInterval) := by
      cases hiv : s.hasInterval
      · simp
      · have hI : s.hasI = true := by rcases w1 with w | w; · rw [hiv] at w; cases w
                                      · exact w
        rw [b1 hiv, a1 hI]
        cases gated <;> cases gateOpen n c <;> simp [mu]
    rw [hmIn]
    refine ⟨fun hs => ?_, saveL_PH c n h kids gated (gated || s.hasInterval) s.hasInterval w4 a2 b2 c2⟩
    have hI : s.hasI = true := by rcases w2 with w | w; · rw [hs] at w; cases w
                                  · exact w
    rcases w3 with w | ⟨w5, w6⟩
    · rw [hs] at w; cases w
    · have hg : (gated || s.hasInterval) = true := by
        rcases w6 with w | w <;> simp [w]
      rw [c1 hs, a1 hI, w5, hg]
      cases gateOpen n c <;> simp [mu]
theorem saveL_PH (c : Nat) (n : Option Nat) (h : List Nat) :
    ∀ (ts : List Tree) (gOut gIn hasIv : Bool), wfSaveL gOut gIn hasIv ts = true →
      AllL (PI c) ts → AllL (PV n) ts → AllL (PH h) ts →
      AllL (PH (h ++ if gateOpen n c then [c] else []))
        (saveL (mu (gateOpen n c) gOut) (mu (gateOpen n c) gIn) ts)
  | [], _, _, _ => fun _ _ _ _ => trivial
  | t :: ts, gOut, gIn, hasIv => by
    simp only [wfSaveL, Bool.and_eq_true, Bool.or_eq_true, Bool.not_eq_true', beq_iff_eq, saveL, AllL]
    rintro ⟨w1, w2⟩ ⟨a1, a2⟩ ⟨b1, b2⟩ ⟨c1, c2⟩
    refine ⟨?_, saveL_PH c n h ts gOut gIn hasIv w2 a2 b2 c2⟩
    rcases w1 with (⟨⟨e1, e2⟩, w⟩ | ⟨⟨⟨_, e1⟩, e2⟩, w⟩) | w
    · rw [e1, e2, Nat.mul_one, Nat.mul_zero, Nat.add_zero]
      exact saveT_PH c n h t gOut w a1 b1 c1
    · rw [e1, e2, Nat.mul_one, Nat.mul_zero, Nat.zero_add]
      exact saveT_PH c n h t gIn w a1 b1 c1
    · exact noHist_PH _ _ (by rw [anyHist_saveT]; exact w)
end

/- with aligned intervals different from `Some(0)` no reached gate divides by zero -/
mutual
theorem savePanics_false (n : Option Nat) (hn : n ≠ some 0) :
    ∀ (m : Nat) (t : Tree), AllT (PV n) t → savePanics m t = false
  | m, .node s i iv h kids => by
    simp only [AllT, PV, savePanics, Bool.or_eq_false_iff, Bool.and_eq_false_iff]
    rintro ⟨a, b⟩
    refine ⟨?_, savePanicsL_false n hn _ _ kids b⟩
    cases hiv : s.hasInterval
    · simp
    · right
      rw [a hiv]
      cases n with
      | none => rfl
      | some k =>
        have : k ≠ 0 := fun e => hn (by rw [e])
        simp [this]
theorem savePanicsL_false (n : Option Nat) (hn : n ≠ some 0) :
    ∀ (a b : Nat) (ts : List Tree), AllL (PV n) ts → savePanicsL a b ts = false
  | _, _, [] => fun _ => rfl
  | a, b, t :: ts => by
    simp only [AllL, savePanicsL, Bool.or_eq_false_iff]
    exact fun ⟨x, y⟩ => ⟨savePanics_false n hn _ t x, savePanicsL_false n hn a b ts y⟩
end

/-! ### `set_save_interval(v)` -/
/- `set_save_interval` touches nothing but intervals -/
mutual
theorem setT_keeps {P : Info → Nat → Option Nat → List Nat → Prop}
    (hP : ∀ s i iv iv' h, P s i iv h → P s i iv' h) (m : Nat) (deep : List (List Nat)) (v : Option Nat) :
    ∀ t, AllT P t → AllT P (setT m deep v t)
  | .node s i iv h kids => by
    simp only [setT, AllT]
    exact fun ⟨a, b⟩ => ⟨hP _ _ _ _ _ a, setL_keeps hP m _ v kids b⟩
theorem setL_keeps {P : Info → Nat → Option Nat → List Nat → Prop}
    (hP : ∀ s i iv iv' h, P s i iv h → P s i iv' h) (m : Nat) (deep : List (List Nat)) (v : Option Nat) :
    ∀ ts, AllL P ts → AllL P (setL m deep v ts)
  | [] => fun _ => trivial
  | t :: ts => by
    simp only [setL, AllL]
    exact fun ⟨x, y⟩ => ⟨setT_keeps hP _ _ v t x, setL_keeps hP m deep v ts y⟩
end

/- when the cascade's call table covers the tree, every `save_interval` is `v` afterwards —
    whatever the intervals were before -/
mutual
theorem setT_PV (v : Option Nat) : ∀ (t : Tree) (m : Nat) (deep : List (List Nat)),
    wfSet m deep t = true → AllT (PV v) (setT m deep v t)
  | .node s i iv h kids, m, deep => by
    simp only [wfSet, Bool.and_eq_true, Bool.or_eq_true, Bool.not_eq_true', setT, AllT, PV]
    rintro ⟨w1, w2⟩
    refine ⟨fun hs => ?_, setL_PV v kids m _ w2⟩
    rcases w1 with w | w
    · rw [hs] at w; cases w
    · rw [if_pos w]
theorem setL_PV (v : Option Nat) : ∀ (ts : List Tree) (m : Nat) (deep : List (List Nat)),
    wfSetL m deep ts = true → AllL (PV v) (setL m deep v ts)
  | [], _, _ => fun _ => trivial
  | t :: ts, m, deep => by
    simp only [wfSetL, Bool.and_eq_true, setL, AllL]
    exact fun ⟨x, y⟩ => ⟨setT_PV v t _ _ x, setL_PV v ts m deep y⟩
end

/- the static call tables are not changed by `set_save_interval` … -/
mutual
theorem setT_static (m : Nat) (deep : List (List Nat)) (v : Option Nat) :
    ∀ t, (wfStep (setT m deep v t) = wfStep t) ∧ (∀ g, wfSave g (setT m deep v t) = wfSave g t) ∧
      (∀ m' d', wfSet m' d' (setT m deep v t) = wfSet m' d' t) ∧ (setT m deep v t).info = t.info ∧
      anyI (setT m deep v t) = anyI t ∧ anyHist (setT m deep v t) = anyHist t
  | .node s i iv h kids => by
    have hk := setL_static m (setDeepNext m s deep) v kids
    simp only [setT, wfStep, wfSave, wfSet, anyI, anyHist, Tree.info]
    refine ⟨by rw [hk.1], fun g => by rw [hk.2.1], fun m' d' => by rw [hk.2.2.1], trivial, by rw [hk.2.2.2.1], by rw [hk.2.2.2.2]⟩
theorem setL_static (m : Nat) (deep : List (List Nat)) (v : Option Nat) :
    ∀ ts, (wfStepL (setL m deep v ts) = wfStepL ts) ∧
      (∀ a b c, wfSaveL a b c (setL m deep v ts) = wfSaveL a b c ts) ∧
      (∀ m' d', wfSetL m' d' (setL m deep v ts) = wfSetL m' d' ts) ∧
      anyIL (setL m deep v ts) = anyIL ts ∧ anyHistL (setL m deep v ts) = anyHistL ts
  | [] => ⟨rfl, fun _ _ _ => rfl, fun _ _ => rfl, rfl, rfl⟩
  | t :: ts => by
    have ht := setT_static (m * t.info.setCalls) (strip t.info.tag deep) v t
    have hts := setL_static m deep v ts
    simp only [setL, wfStepL, wfSaveL, wfSetL, anyIL, anyHistL]
    refine ⟨by rw [ht.2.2.2.1, ht.1, ht.2.2.2.2.1, hts.1], fun a b c => ?_, fun m' d' => ?_, by rw [ht.2.2.2.2.1, hts.2.2.2.1], by rw [ht.2.2.2.2.2, hts.2.2.2.2]⟩
    · rw [ht.2.2.2.1, ht.2.1, ht.2.1, ht.2.2.2.2.2, hts.2.1]
    · rw [ht.2.2.2.1, ht.2.2.1, hts.2.2.1]
end

/- … nor by `step` or `save_state` -/
mutual
theorem stepT_static (m : Nat) :
    ∀ t, (wfStep (stepT m t) = wfStep t) ∧ (∀ g, wfSave g (stepT m t) = wfSave g t) ∧
      (∀ m' d', wfSet m' d' (stepT m t) = wfSet m' d' t) ∧ anyHist (stepT m t) = anyHist t
  | .node s i iv h kids => by
    have hk := stepL_static m kids
    simp only [stepT, wfStep, wfSave, wfSet, anyHist]
    exact ⟨by rw [hk.1], fun g => by rw [hk.2.1], fun m' d' => by rw [hk.2.2.1], by rw [hk.2.2.2]⟩
theorem stepL_static (m : Nat) :
    ∀ ts, (wfStepL (stepL m ts) = wfStepL ts) ∧
      (∀ a b c, wfSaveL a b c (stepL m ts) = wfSaveL a b c ts) ∧
      (∀ m' d', wfSetL m' d' (stepL m ts) = wfSetL m' d' ts) ∧ anyHistL (stepL m ts) = anyHistL ts
  | [] => ⟨rfl, fun _ _ _ => rfl, fun _ _ => rfl, rfl⟩
  | t :: ts => by
    have ht := stepT_static (m * t.info.stepCalls) t
    have hts := stepL_static m ts
    simp only [stepL, wfStepL, wfSaveL, wfSetL, anyHistL]
    refine ⟨by rw [stepT_info, ht.1, anyI_stepT, hts.1], fun a b c => ?_, fun m' d' => ?_, by rw [ht.2.2.2, hts.2.2.2]⟩
    · rw [stepT_info, ht.2.1, ht.2.1, ht.2.2.2, hts.2.1]
    · rw [stepT_info, ht.2.2.1, hts.2.2.1]
end

theorem saveT_info (m : Nat) : ∀ t, (saveT m t).info = t.info
  | .node _ _ _ _ _ => by simp [saveT, Tree.info]

mutual
theorem anyI_saveT (m : Nat) : ∀ t, anyI (saveT m t) = anyI t
  | .node s i iv h kids => by simp only [saveT, anyI]; rw [anyIL_saveL _ _ kids]
theorem anyIL_saveL (a b : Nat) : ∀ ts, anyIL (saveL a b ts) = anyIL ts
  | [] => rfl
  | t :: ts => by simp only [saveL, anyIL]; rw [anyI_saveT _ t, anyIL_saveL a b ts]
end

mutual
theorem saveT_static (m : Nat) :
    ∀ t, (wfStep (saveT m t) = wfStep t) ∧ (∀ g, wfSave g (saveT m t) = wfSave g t) ∧
      (∀ m' d', wfSet m' d' (saveT m t) = wfSet m' d' t)
  | .node s i iv h kids => by
    have hk := saveL_static m (if s.hasInterval then (if gateOpen iv i then m else 0) else m) kids
    simp only [saveT, wfStep, wfSave, wfSet]
    exact ⟨by rw [hk.1], fun g => by rw [hk.2.1], fun m' d' => by rw [hk.2.2]⟩
theorem saveL_static (x y : Nat) :
    ∀ ts, (wfStepL (saveL x y ts) = wfStepL ts) ∧
      (∀ a b c, wfSaveL a b c (saveL x y ts) = wfSaveL a b c ts) ∧
      (∀ m' d', wfSetL m' d' (saveL x y ts) = wfSetL m' d' ts)
  | [] => ⟨rfl, fun _ _ _ => rfl, fun _ _ => rfl⟩
  | t :: ts => by
    have ht := saveT_static (x * t.info.saveOut + y * t.info.saveIn) t
    have hts := saveL_static x y ts
    simp only [saveL, wfStepL, wfSaveL, wfSetL]
    refine ⟨by rw [saveT_info, ht.1, anyI_saveT, hts.1], fun a b c => ?_, fun m' d' => ?_⟩
    · rw [saveT_info, ht.2.1, ht.2.1, anyHist_saveT, hts.2.1]
    · rw [saveT_info, ht.2.2, hts.2.2]
end

/-! ### well-formedness of `List.map`-built children (consists of any composition) -/
theorem wfStepL_map {α : Type} (f : α → Tree)
    (hf : ∀ a, (((f a).info.stepCalls == 1 && wfStep (f a)) || !anyI (f a)) = true) :
    ∀ l : List α, wfStepL (l.map f) = true
  | [] => rfl
  | a :: l => by simp only [List.map, wfStepL, Bool.and_eq_true]; exact ⟨hf a, wfStepL_map f hf l⟩

theorem wfSaveL_map {α : Type} (f : α → Tree) (gOut gIn hasIv : Bool)
    (hf : ∀ a, (((f a).info.saveOut == 1 && (f a).info.saveIn == 0 && wfSave gOut (f a))
      || (hasIv && (f a).info.saveOut == 0 && (f a).info.saveIn == 1 && wfSave gIn (f a))
      || !anyHist (f a)) = true) :
    ∀ l : List α, wfSaveL gOut gIn hasIv (l.map f) = true
  | [] => rfl
  | a :: l => by simp only [List.map, wfSaveL, Bool.and_eq_true]; exact ⟨hf a, wfSaveL_map f gOut gIn hasIv hf l⟩

theorem wfSetL_map {α : Type} (f : α → Tree) (m : Nat) (deep : List (List Nat))
    (hf : ∀ a, wfSet (m * (f a).info.setCalls) (strip (f a).info.tag deep) (f a) = true) :
    ∀ l : List α, wfSetL m deep (l.map f) = true
  | [] => rfl
  | a :: l => by simp only [List.map, wfSetL, Bool.and_eq_true]; exact ⟨hf a, wfSetL_map f m deep hf l⟩


/-! ### well-formedness of a node from facts about its children -/
theorem wfStepL_of_forall : ∀ kids : List Tree,
    (∀ k ∈ kids, (k.info.stepCalls = 1 ∧ wfStep k = true) ∨ anyI k = false) → wfStepL kids = true
  | [], _ => rfl
  | t :: ts, h => by
    simp only [wfStepL, Bool.and_eq_true, Bool.or_eq_true, Bool.not_eq_true', beq_iff_eq]
    exact ⟨(h t (List.mem_cons_self ..)).imp id id, wfStepL_of_forall ts (fun k hk => h k (List.mem_cons_of_mem _ hk))⟩

theorem wfStep_node {s : Info} {i : Nat} {iv : Option Nat} {h : List Nat} {kids : List Tree}
    (hs : (if s.hasI then s.stepSelf == 1 else true) = true)
    (hk : ∀ k ∈ kids, (k.info.stepCalls = 1 ∧ wfStep k = true) ∨ anyI k = false) :
    wfStep (.node s i iv h kids) = true := by
  simp only [wfStep, Bool.and_eq_true]
  exact ⟨hs, wfStepL_of_forall kids hk⟩

theorem wfSaveL_of_forall (gOut gIn hasIv : Bool) : ∀ kids : List Tree,
    (∀ k ∈ kids, (k.info.saveOut = 1 ∧ k.info.saveIn = 0 ∧ wfSave gOut k = true) ∨
      (hasIv = true ∧ k.info.saveOut = 0 ∧ k.info.saveIn = 1 ∧ wfSave gIn k = true) ∨ anyHist k = false) →
    wfSaveL gOut gIn hasIv kids = true
  | [], _ => rfl
  | t :: ts, h => by
    simp only [wfSaveL, Bool.and_eq_true, Bool.or_eq_true, Bool.not_eq_true', beq_iff_eq]
    refine ⟨?_, wfSaveL_of_forall gOut gIn hasIv ts (fun k hk => h k (List.mem_cons_of_mem _ hk))⟩
    rcases h t (List.mem_cons_self ..) with ⟨a, b, c⟩ | ⟨a, b, c, d⟩ | a
    · exact Or.inl (Or.inl ⟨⟨a, b⟩, c⟩)
    · exact Or.inl (Or.inr ⟨⟨⟨a, b⟩, c⟩, d⟩)
    · exact Or.inr a

theorem wfSave_node {g : Bool} {s : Info} {i : Nat} {iv : Option Nat} {h : List Nat} {kids : List Tree}
    (hs : ((!s.hasInterval || s.hasI) && (!s.hasHist || s.hasI) &&
      (!s.hasHist || (s.saveSelf == 1 && (g || s.hasInterval)))) = true)
    (hk : ∀ k ∈ kids, (k.info.saveOut = 1 ∧ k.info.saveIn = 0 ∧ wfSave g k = true) ∨
      (s.hasInterval = true ∧ k.info.saveOut = 0 ∧ k.info.saveIn = 1 ∧ wfSave (g || s.hasInterval) k = true) ∨
      anyHist k = false) :
    wfSave g (.node s i iv h kids) = true := by
  simp only [wfSave]
  rw [Bool.and_eq_true]
  exact ⟨hs, wfSaveL_of_forall _ _ _ kids hk⟩

theorem wfSetL_of_forall (m : Nat) (deep : List (List Nat)) : ∀ kids : List Tree,
    (∀ k ∈ kids, wfSet (m * k.info.setCalls) (strip k.info.tag deep) k = true) → wfSetL m deep kids = true
  | [], _ => rfl
  | t :: ts, h => by
    simp only [wfSetL, Bool.and_eq_true]
    exact ⟨h t (List.mem_cons_self ..), wfSetL_of_forall m deep ts (fun k hk => h k (List.mem_cons_of_mem _ hk))⟩

theorem wfSet_node {m : Nat} {deep : List (List Nat)} {s : Info} {i : Nat} {iv : Option Nat} {h : List Nat}
    {kids : List Tree} (hs : (!s.hasInterval || setHit m s deep) = true)
    (hk : ∀ k ∈ kids, wfSet (m * k.info.setCalls) (strip k.info.tag (setDeepNext m s deep)) k = true) :
    wfSet m deep (.node s i iv h kids) = true := by
  simp only [wfSet, Bool.and_eq_true]
  exact ⟨hs, wfSetL_of_forall _ _ kids hk⟩

theorem AllL_of_forall (P : Info → Nat → Option Nat → List Nat → Prop) : ∀ kids : List Tree,
    (∀ k ∈ kids, AllT P k) → AllL P kids
  | [], _ => trivial
  | t :: ts, h => ⟨h t (List.mem_cons_self ..), AllL_of_forall P ts (fun k hk => h k (List.mem_cons_of_mem _ hk))⟩

theorem AllL_forall (P : Info → Nat → Option Nat → List Nat → Prop) : ∀ kids : List Tree,
    AllL P kids → ∀ k ∈ kids, AllT P k
  | [], _, k, hk => by cases hk
  | t :: ts, h, k, hk => by
    rcases List.mem_cons.1 hk with rfl | hk
    · exact h.1
    · exact AllL_forall P ts h.2 k hk

theorem AllT_node {P : Info → Nat → Option Nat → List Nat → Prop} {s : Info} {i : Nat} {iv : Option Nat}
    {h : List Nat} {kids : List Tree} (hs : P s i iv h) (hk : ∀ k ∈ kids, AllT P k) :
    AllT P (.node s i iv h kids) :=
  ⟨hs, AllL_of_forall P kids hk⟩

/-! ### the state-free skeleton of a tree: everything the call tables depend on -/
mutual
def skel : Tree → Tree
  | .node s _ _ _ kids => .node s 0 none [] (skelL kids)
def skelL : List Tree → List Tree
  | [] => []
  | t :: ts => skel t :: skelL ts
end

theorem skel_info : ∀ t, (skel t).info = t.info
  | .node _ _ _ _ _ => by simp [skel, Tree.info]

mutual
theorem anyI_skel : ∀ t, anyI (skel t) = anyI t
  | .node s i iv h kids => by simp only [skel, anyI]; rw [anyIL_skel kids]
theorem anyIL_skel : ∀ ts, anyIL (skelL ts) = anyIL ts
  | [] => rfl
  | t :: ts => by simp only [skelL, anyIL]; rw [anyI_skel t, anyIL_skel ts]
end
mutual
theorem anyHist_skel : ∀ t, anyHist (skel t) = anyHist t
  | .node s i iv h kids => by simp only [skel, anyHist]; rw [anyHistL_skel kids]
theorem anyHistL_skel : ∀ ts, anyHistL (skelL ts) = anyHistL ts
  | [] => rfl
  | t :: ts => by simp only [skelL, anyHistL]; rw [anyHist_skel t, anyHistL_skel ts]
end
mutual
theorem wfStep_skel : ∀ t, wfStep (skel t) = wfStep t
  | .node s i iv h kids => by simp only [skel, wfStep]; rw [wfStepL_skel kids]
theorem wfStepL_skel : ∀ ts, wfStepL (skelL ts) = wfStepL ts
  | [] => rfl
  | t :: ts => by simp only [skelL, wfStepL]; rw [skel_info, wfStep_skel t, anyI_skel t, wfStepL_skel ts]
end
mutual
theorem wfSave_skel : ∀ t g, wfSave g (skel t) = wfSave g t
  | .node s i iv h kids, g => by simp only [skel, wfSave]; rw [wfSaveL_skel kids]
theorem wfSaveL_skel : ∀ ts a b c, wfSaveL a b c (skelL ts) = wfSaveL a b c ts
  | [], _, _, _ => rfl
  | t :: ts, a, b, c => by
    simp only [skelL, wfSaveL]; rw [skel_info, wfSave_skel t, wfSave_skel t, anyHist_skel t, wfSaveL_skel ts]
end
mutual
theorem wfSet_skel : ∀ t m d, wfSet m d (skel t) = wfSet m d t
  | .node s i iv h kids, m, d => by simp only [skel, wfSet]; rw [wfSetL_skel kids]
theorem wfSetL_skel : ∀ ts m d, wfSetL m d (skelL ts) = wfSetL m d ts
  | [], _, _ => rfl
  | t :: ts, m, d => by simp only [skelL, wfSetL]; rw [skel_info, wfSet_skel t, wfSetL_skel ts]
end
mutual
theorem wfSetOnly_skel : ∀ t m d, wfSetOnly m d (skel t) = wfSetOnly m d t
  | .node s i iv h kids, m, d => by simp only [skel, wfSetOnly]; rw [wfSetOnlyL_skel kids]
theorem wfSetOnlyL_skel : ∀ ts m d, wfSetOnlyL m d (skelL ts) = wfSetOnlyL m d ts
  | [], _, _ => rfl
  | t :: ts, m, d => by simp only [skelL, wfSetOnlyL]; rw [skel_info, wfSetOnly_skel t, wfSetOnlyL_skel ts]
end
mutual
theorem everyIvT_skel {q : Tree → Bool} (hq : ∀ t, q (skel t) = q t) : ∀ t, everyIvT q (skel t) = everyIvT q t
  | .node s i iv h kids => by
    have e := hq (.node s i iv h kids)
    simp only [skel] at e
    simp only [skel, everyIvT]; rw [e, everyIvL_skel hq kids]
theorem everyIvL_skel {q : Tree → Bool} (hq : ∀ t, q (skel t) = q t) : ∀ ts, everyIvL q (skelL ts) = everyIvL q ts
  | [] => rfl
  | t :: ts => by simp only [skelL, everyIvL]; rw [everyIvT_skel hq t, everyIvL_skel hq ts]
end

theorem setClean_skel (t : Tree) : setClean (skel t) = setClean t :=
  everyIvT_skel (fun t => wfSetOnly_skel t 1 []) t

/-- two trees with the same skeleton (two STATES of the same object tree) have the same call tables -/
theorem static_congr {t t' : Tree} (e : skel t' = skel t) :
    wfStep t' = wfStep t ∧ (∀ g, wfSave g t' = wfSave g t) ∧ (∀ m d, wfSet m d t' = wfSet m d t) ∧
    (∀ m d, wfSetOnly m d t' = wfSetOnly m d t) ∧ setClean t' = setClean t := by
  refine ⟨?_, fun g => ?_, fun m d => ?_, fun m d => ?_, ?_⟩
  · rw [← wfStep_skel t', e, wfStep_skel]
  · rw [← wfSave_skel t', e, wfSave_skel]
  · rw [← wfSet_skel t', e, wfSet_skel]
  · rw [← wfSetOnly_skel t', e, wfSetOnly_skel]
  · rw [← setClean_skel t', e, setClean_skel]

/- the operations do not change the skeleton -/
mutual
theorem skel_setT (m : Nat) (deep : List (List Nat)) (v : Option Nat) : ∀ t, skel (setT m deep v t) = skel t
  | .node s i iv h kids => by simp only [setT, skel]; rw [skelL_setL m _ v kids]
theorem skelL_setL (m : Nat) (deep : List (List Nat)) (v : Option Nat) : ∀ ts, skelL (setL m deep v ts) = skelL ts
  | [] => rfl
  | t :: ts => by simp only [setL, skelL]; rw [skel_setT _ _ v t, skelL_setL m deep v ts]
end

theorem skel_assignRoot (v : Option Nat) : ∀ t, skel (assignRoot v t) = skel t
  | .node _ _ _ _ _ => by simp only [assignRoot, skel]

mutual
theorem skel_atT {f : Tree → Tree} (hf : ∀ t, skel (f t) = skel t) : ∀ (t : Tree) (k : Nat), skel (atT f k t) = skel t
  | .node s i iv h kids, k => by
    simp only [atT]
    split
    · split
      · exact hf _
      · simp only [skel]; rw [skelL_atL hf kids]
    · simp only [skel]; rw [skelL_atL hf kids]
theorem skelL_atL {f : Tree → Tree} (hf : ∀ t, skel (f t) = skel t) : ∀ (ts : List Tree) (k : Nat), skelL (atL f k ts) = skelL ts
  | [], _ => rfl
  | t :: ts, k => by
    simp only [atL]
    split
    · simp only [skelL]; rw [skel_atT hf t]
    · simp only [skelL]; rw [skelL_atL hf ts]
end

theorem skel_pokeT (k : Nat) (v : Option Nat) (t : Tree) : skel (pokeT k v t) = skel t :=
  skel_atT (skel_assignRoot v) t k

theorem skel_setAtT (k : Nat) (v : Option Nat) (t : Tree) : skel (setAtT k v t) = skel t :=
  skel_atT (skel_setT 1 [] v) t k

/-! ### writes to nested intervals (`pokeT`, `setAtT`) -/
theorem assignRoot_keeps {P : Info → Nat → Option Nat → List Nat → Prop}
    (hP : ∀ s i iv iv' h, P s i iv h → P s i iv' h) (v : Option Nat) : ∀ t, AllT P t → AllT P (assignRoot v t)
  | .node s i iv h kids => by
    simp only [assignRoot, AllT]
    exact fun ⟨a, b⟩ => ⟨hP _ _ _ _ _ a, b⟩

/- a write at the k-th interval-carrying node touches what `f` touches, nothing else -/
mutual
theorem atT_keeps {P : Info → Nat → Option Nat → List Nat → Prop} {f : Tree → Tree}
    (hf : ∀ t, AllT P t → AllT P (f t)) : ∀ (t : Tree) (k : Nat), AllT P t → AllT P (atT f k t)
  | .node s i iv h kids, k => by
    intro ha
    simp only [atT]
    split
    · split
      · exact hf _ ha
      · simp only [AllT] at ha ⊢
        exact ⟨ha.1, atL_keeps hf kids _ ha.2⟩
    · simp only [AllT] at ha ⊢
      exact ⟨ha.1, atL_keeps hf kids _ ha.2⟩
theorem atL_keeps {P : Info → Nat → Option Nat → List Nat → Prop} {f : Tree → Tree}
    (hf : ∀ t, AllT P t → AllT P (f t)) : ∀ (ts : List Tree) (k : Nat), AllL P ts → AllL P (atL f k ts)
  | [], _ => fun h => h
  | t :: ts, k => by
    intro ha
    simp only [atL]
    split
    · simp only [AllL] at ha ⊢
      exact ⟨atT_keeps hf t k ha.1, ha.2⟩
    · simp only [AllL] at ha ⊢
      exact ⟨ha.1, atL_keeps hf ts _ ha.2⟩
end

theorem pokeT_keeps {P : Info → Nat → Option Nat → List Nat → Prop}
    (hP : ∀ s i iv iv' h, P s i iv h → P s i iv' h) (k : Nat) (v : Option Nat) (t : Tree) :
    AllT P t → AllT P (pokeT k v t) :=
  atT_keeps (assignRoot_keeps hP v) t k

theorem setAtT_keeps {P : Info → Nat → Option Nat → List Nat → Prop}
    (hP : ∀ s i iv iv' h, P s i iv h → P s i iv' h) (k : Nat) (v : Option Nat) (t : Tree) :
    AllT P t → AllT P (setAtT k v t) :=
  atT_keeps (setT_keeps hP 1 [] v) t k

mutual
theorem atT_info {f : Tree → Tree} (hf : ∀ t, (f t).info = t.info) : ∀ (t : Tree) (k : Nat), (atT f k t).info = t.info
  | .node s i iv h kids, k => by
    simp only [atT]
    split
    · split
      · exact hf _
      · rfl
    · rfl
end

theorem everyIvT_true : ∀ t, everyIvT (fun _ => true) t = true := by
  intro t
  have key : (∀ t, everyIvT (fun _ => true) t = true) ∧ (∀ ts, everyIvL (fun _ => true) ts = true) := by
    refine ⟨?_, ?_⟩
    · intro t
      induction t using Tree.rec (motive_2 := fun ts => everyIvL (fun _ => true) ts = true) with
      | node s i iv h kids ih => simp only [everyIvT, Bool.or_true, Bool.true_and]; exact ih
      | nil => rfl
      | cons t ts iht ihts => simp only [everyIvL, iht, ihts, Bool.and_self]
    · intro ts
      induction ts using Tree.rec_1 (motive_1 := fun t => everyIvT (fun _ => true) t = true) with
      | node s i iv h kids ih => simp only [everyIvT, Bool.or_true, Bool.true_and]; exact ih
      | nil => rfl
      | cons t ts iht ihts => simp only [everyIvL, iht, ihts, Bool.and_self]
  exact key.1 t

/- **absorption.**  The cascade started with `(m, deep)` covers the tree (`wfSet`).  If `f`, applied to a
    subtree whose root carries an interval and satisfies `q`, is undone by any covering cascade, then so
    is `f` applied at the k-th interval-carrying node. -/
mutual
theorem setT_absorbs_atT (v : Option Nat) {f : Tree → Tree} {q : Tree → Bool}
    (hfi : ∀ t, (f t).info = t.info)
    (hf : ∀ t m deep, t.info.hasInterval = true → q t = true → wfSet m deep t = true →
      setT m deep v (f t) = setT m deep v t) :
    ∀ (t : Tree) (k m : Nat) (deep : List (List Nat)), wfSet m deep t = true → everyIvT q t = true →
      setT m deep v (atT f k t) = setT m deep v t
  | .node s i iv h kids, k, m, deep => by
    intro w c
    simp only [atT]
    have w' := w
    have c' := c
    simp only [wfSet, Bool.and_eq_true] at w'
    simp only [everyIvT, Bool.and_eq_true, Bool.or_eq_true, Bool.not_eq_true'] at c'
    split
    · rename_i hs
      split
      · refine hf _ m deep hs ?_ w
        rcases c'.1 with x | x
        · rw [hs] at x; cases x
        · exact x
      · simp only [setT]
        rw [setL_absorbs_atL v hfi hf kids _ m _ w'.2 c'.2]
    · simp only [setT]
      rw [setL_absorbs_atL v hfi hf kids _ m _ w'.2 c'.2]
theorem setL_absorbs_atL (v : Option Nat) {f : Tree → Tree} {q : Tree → Bool}
    (hfi : ∀ t, (f t).info = t.info)
    (hf : ∀ t m deep, t.info.hasInterval = true → q t = true → wfSet m deep t = true →
      setT m deep v (f t) = setT m deep v t) :
    ∀ (ts : List Tree) (k m : Nat) (deep : List (List Nat)), wfSetL m deep ts = true → everyIvL q ts = true →
      setL m deep v (atL f k ts) = setL m deep v ts
  | [], _, _, _ => fun _ _ => rfl
  | t :: ts, k, m, deep => by
    intro w c
    simp only [wfSetL, Bool.and_eq_true] at w
    simp only [everyIvL, Bool.and_eq_true] at c
    simp only [atL]
    split
    · simp only [setL]
      rw [atT_info hfi t k, setT_absorbs_atT v hfi hf t k _ _ w.1 c.1]
    · simp only [setL]
      rw [setL_absorbs_atL v hfi hf ts _ m deep w.2 c.2]
end

/- a raw write to an object that has an interval is overwritten by any covering cascade -/
theorem setT_absorbs_assignRoot (v w : Option Nat) : ∀ (t : Tree) (m : Nat) (deep : List (List Nat)),
    t.info.hasInterval = true → wfSet m deep t = true → setT m deep v (assignRoot w t) = setT m deep v t
  | .node s i iv h kids, m, deep => by
    simp only [Tree.info, wfSet, Bool.and_eq_true, Bool.or_eq_true, Bool.not_eq_true', assignRoot, setT]
    rintro hs ⟨w1, _⟩
    rcases w1 with x | x
    · rw [hs] at x; cases x
    · rw [if_pos x, if_pos x]

/- a cascade that writes only objects with an interval is overwritten by any covering cascade -/
mutual
theorem setT_absorbs_setT (v w : Option Nat) : ∀ (t : Tree) (m : Nat) (deep : List (List Nat)) (m' : Nat) (deep' : List (List Nat)),
    wfSet m deep t = true → wfSetOnly m' deep' t = true →
    setT m deep v (setT m' deep' w t) = setT m deep v t
  | .node s i iv h kids, m, deep, m', deep' => by
    simp only [wfSet, wfSetOnly, Bool.and_eq_true, Bool.or_eq_true, Bool.not_eq_true', setT]
    rintro ⟨w1, w2⟩ ⟨c1, c2⟩
    rw [setL_absorbs_setL v w kids m _ m' _ w2 c2]
    congr 1
    cases hs : s.hasInterval
    · rcases c1 with x | x
      · rw [x]; simp
      · rw [hs] at x; cases x
    · rcases w1 with x | x
      · rw [hs] at x; cases x
      · rw [if_pos x, if_pos x]
theorem setL_absorbs_setL (v w : Option Nat) : ∀ (ts : List Tree) (m : Nat) (deep : List (List Nat)) (m' : Nat) (deep' : List (List Nat)),
    wfSetL m deep ts = true → wfSetOnlyL m' deep' ts = true →
    setL m deep v (setL m' deep' w ts) = setL m deep v ts
  | [], _, _, _, _ => fun _ _ => rfl
  | t :: ts, m, deep, m', deep' => by
    simp only [wfSetL, wfSetOnlyL, Bool.and_eq_true, setL]
    rintro ⟨w1, w2⟩ ⟨c1, c2⟩
    rw [(setT_static _ _ w t).2.2.2.1, setT_absorbs_setT v w t _ _ _ _ w1 c1, setL_absorbs_setL v w ts m deep m' deep' w2 c2]
end

/-- the top-level (or any covering) cascade undoes a raw write to a nested interval -/
theorem setT_absorbs_pokeT (v w : Option Nat) (k : Nat) (t : Tree) (m : Nat) (deep : List (List Nat))
    (hw : wfSet m deep t = true) : setT m deep v (pokeT k w t) = setT m deep v t :=
  setT_absorbs_atT v (q := fun _ => true)
    (fun t => by cases t; rfl)
    (fun t m deep hs _ hw => setT_absorbs_assignRoot v w t m deep hs hw) t k m deep hw (everyIvT_true t)

/-- … and a nested object's own setter, when that setter writes only objects with an interval -/
theorem setT_absorbs_setAtT (v w : Option Nat) (k : Nat) (t : Tree) (m : Nat) (deep : List (List Nat))
    (hw : wfSet m deep t = true) (hc : setClean t = true) : setT m deep v (setAtT k w t) = setT m deep v t :=
  setT_absorbs_atT v (q := wfSetOnly 1 [])
    (fun t => (setT_static 1 [] w t).2.2.2.1)
    (fun t m deep _ hq hw => setT_absorbs_setT v w t m deep 1 [] hw hq) t k m deep hw hc

/-! ### the new table obligation for `List.map`-built children and for a node from its children -/
theorem wfSetOnlyL_map {α : Type} (f : α → Tree) (m : Nat) (deep : List (List Nat))
    (hf : ∀ a, wfSetOnly (m * (f a).info.setCalls) (strip (f a).info.tag deep) (f a) = true) :
    ∀ l : List α, wfSetOnlyL m deep (l.map f) = true
  | [] => rfl
  | a :: l => by simp only [List.map, wfSetOnlyL, Bool.and_eq_true]; exact ⟨hf a, wfSetOnlyL_map f m deep hf l⟩

theorem everyIvL_map {α : Type} (q : Tree → Bool) (f : α → Tree) (hf : ∀ a, everyIvT q (f a) = true) :
    ∀ l : List α, everyIvL q (l.map f) = true
  | [] => rfl
  | a :: l => by simp only [List.map, everyIvL, Bool.and_eq_true]; exact ⟨hf a, everyIvL_map q f hf l⟩

theorem wfSetOnlyL_of_forall (m : Nat) (deep : List (List Nat)) : ∀ kids : List Tree,
    (∀ k ∈ kids, wfSetOnly (m * k.info.setCalls) (strip k.info.tag deep) k = true) → wfSetOnlyL m deep kids = true
  | [], _ => rfl
  | t :: ts, h => by
    simp only [wfSetOnlyL, Bool.and_eq_true]
    exact ⟨h t (List.mem_cons_self ..), wfSetOnlyL_of_forall m deep ts (fun k hk => h k (List.mem_cons_of_mem _ hk))⟩

theorem wfSetOnly_node {m : Nat} {deep : List (List Nat)} {s : Info} {i : Nat} {iv : Option Nat} {h : List Nat}
    {kids : List Tree} (hs : (!setHit m s deep || s.hasInterval) = true)
    (hk : ∀ k ∈ kids, wfSetOnly (m * k.info.setCalls) (strip k.info.tag (setDeepNext m s deep)) k = true) :
    wfSetOnly m deep (.node s i iv h kids) = true := by
  simp only [wfSetOnly, Bool.and_eq_true]
  exact ⟨hs, wfSetOnlyL_of_forall _ _ kids hk⟩

theorem everyIvL_of_forall (q : Tree → Bool) : ∀ kids : List Tree,
    (∀ k ∈ kids, everyIvT q k = true) → everyIvL q kids = true
  | [], _ => rfl
  | t :: ts, h => by
    simp only [everyIvL, Bool.and_eq_true]
    exact ⟨h t (List.mem_cons_self ..), everyIvL_of_forall q ts (fun k hk => h k (List.mem_cons_of_mem _ hk))⟩

theorem everyIvT_node {q : Tree → Bool} {s : Info} {i : Nat} {iv : Option Nat} {h : List Nat} {kids : List Tree}
    (hs : (!s.hasInterval || q (.node s i iv h kids)) = true) (hk : ∀ k ∈ kids, everyIvT q k = true) :
    everyIvT q (.node s i iv h kids) = true := by
  simp only [everyIvT, Bool.and_eq_true]
  exact ⟨hs, everyIvL_of_forall q kids hk⟩

/-! ### rows written by `k` successful iterations starting at counter `c` -/
def rows (n : Option Nat) (c k : Nat) : List Nat := (List.range' c k).filter (gateOpen n)

theorem rows_succ (n : Option Nat) (c k : Nat) :
    rows n c (k + 1) = rows n c k ++ (if gateOpen n (c + k) then [c + k] else []) := by
  unfold rows
  rw [List.range'_concat, List.filter_append]
  simp [List.filter_cons]

theorem rows_none (c k : Nat) : rows none c k = [] := by
  unfold rows
  simp [gateOpen]

theorem gateOpen_some (j x : Nat) (hj : j ≠ 0) : gateOpen (some j) x = decide (x % j = 0) := by
  have h1 : (j != 0) = true := by simp [hj]
  simp only [gateOpen, h1, Bool.true_and]
  by_cases h : x % j = 0 <;> simp [h]

theorem rows_some (j c k : Nat) (hj : j ≠ 0) :
    rows (some j) c k = (List.range' c k).filter (fun x => x % j = 0) := by
  unfold rows
  congr 1
  funext x
  exact gateOpen_some j x hj

/-- the number of multiples of `j` among `1..k` is `k / j` -/
theorem count_multiples (j k : Nat) (_hj : 0 < j) :
    ((List.range' 1 k).filter (fun x => x % j = 0)).length = k / j := by
  induction k with
  | zero => simp
  | succ k ih =>
    rw [List.range'_concat, List.filter_append, List.length_append, ih, Nat.succ_div]
    have e : 1 + 1 * k = k + 1 := by omega
    rw [e]
    by_cases hd : j ∣ k + 1
    · have : (k + 1) % j = 0 := Nat.mod_eq_zero_of_dvd hd
      simp [this, hd]
    · have : (k + 1) % j ≠ 0 := fun e => hd (Nat.dvd_of_mod_eq_zero e)
      simp [this, hd]

end Altrios.Proofs.HistL
