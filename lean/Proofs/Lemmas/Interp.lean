import Altrios.Interp
import Proofs.Lemmas.Basic
import Mathlib.Algebra.Order.Field.Basic
import Mathlib.Tactic.Linarith
import Mathlib.Tactic.Ring
import Mathlib.Tactic.SplitIfs
import Mathlib.Tactic.FieldSimp
import Mathlib.Tactic.Positivity
import Mathlib.Data.List.Basic
import Mathlib.Data.List.Chain
/-
  Range lemmas for the interpolation model (`Altrios.Interp`): the value returned by `interp1d`
  (clamped, no extrapolation) and by `interp3d` (clamped trilinear blend) lies between any two
  bounds that enclose all map values.  Used by `Proofs/C08.lean` (η ∈ (0,1]).
-/
set_option linter.unusedSectionVars false
namespace Altrios.Proofs.InterpL
open Altrios Altrios.Interp Altrios.Proofs.Basic

variable {α : Type} [Field α] [LinearOrder α] [IsStrictOrderedRing α]

/-! ### checked indexing -/

theorem getA_ok_iff (l : List α) (i : Nat) (v : α) : getA l i = .ok v ↔ l[i]? = some v := by
  unfold getA; split <;> simp_all

theorem getA_ok_mem {l : List α} {i : Nat} {v : α} (h : getA l i = .ok v) : v ∈ l :=
  List.mem_of_getElem? ((getA_ok_iff l i v).mp h)

theorem getA_ok_lt {l : List α} {i : Nat} {v : α} (h : getA l i = .ok v) : i < l.length := by
  have := (getA_ok_iff l i v).mp h
  exact (List.getElem?_eq_some_iff.mp this).1

/-! ### the `Res` monad -/

theorem bind_ok_iff {σ τ : Type} (r : Res σ) (f : σ → Res τ) (y : τ) :
    Res.bind r f = .ok y ↔ ∃ s, r = .ok s ∧ f s = .ok y := by
  cases r <;> simp [Res.bind]

/-! ### `interp1d` -/

theorem all_eqb_iff (l : List α) (m : α) : (l.all fun y => eqb y m) = true ↔ ∀ v ∈ l, v = m := by
  simp only [List.all_eq_true, eqb_iff]

/-- the value `interp1d` computes from the selected interval `(xl,yl)`–`(xr,yr)`:
    clamp by overwriting, then the two-point formula -/
def lerpClamped (x xl xr yl yr : α) : α :=
  let yr' := if x < xl then yl else yr
  let yl' := if xr < x then yr' else yl
  yl' + (yr' - yl') / (xr - xl) * (x - xl)

/-- What an accepted `interp1d` call returns: either the constant-map shortcut fired (every `y`
    knot equals the result), or an interval `i, i+1` inside both lists was selected and the result
    is the clamped two-point formula on it. -/
theorem interp1d_ok_cases (x : α) (xs ys : List α) (y : α) (h : interp1d x xs ys = .ok y) :
    ((∀ v ∈ ys, v = y) ∧ y = mean ys) ∨
    ∃ i xl xr yl yr, xs[i]? = some xl ∧ xs[i + 1]? = some xr ∧ ys[i]? = some yl ∧
      ys[i + 1]? = some yr ∧ y = lerpClamped x xl xr yl yr := by
  unfold interp1d at h
  simp only [bind, pure] at h
  split_ifs at h with hc hx hs
  · left
    cases h
    exact ⟨(all_eqb_iff _ _).mp hc, rfl⟩
  · right
    simp only [bind_ok_iff] at h
    obtain ⟨x2, -, i, -, xl, hxl, yl, hyl, xr, hxr, yr, hyr, hy⟩ := h
    cases hy
    exact ⟨i, xl, xr, yl, yr, (getA_ok_iff _ _ _).mp hxl, (getA_ok_iff _ _ _).mp hxr,
      (getA_ok_iff _ _ _).mp hyl, (getA_ok_iff _ _ _).mp hyr, rfl⟩

/-- the clamped two-point formula stays between the bounds of its two `y` values.
    `hne` guards the division by `xr - xl`. -/
theorem lerpClamped_range (x xl xr yl yr lo hi : α) (hne : xl ≠ xr)
    (hl : lo ≤ yl ∧ yl ≤ hi) (hr : lo ≤ yr ∧ yr ≤ hi) :
    lo ≤ lerpClamped x xl xr yl yr ∧ lerpClamped x xl xr yl yr ≤ hi := by
  unfold lerpClamped
  by_cases h1 : x < xl
  · simp only [if_pos h1, ite_self, sub_self, zero_div, zero_mul, add_zero]
    exact hl
  · simp only [if_neg h1]
    by_cases h2 : xr < x
    · simp only [if_pos h2, sub_self, zero_div, zero_mul, add_zero]
      exact hr
    · simp only [if_neg h2]
      have h1' : xl ≤ x := not_lt.mp h1
      have h2' : x ≤ xr := not_lt.mp h2
      have hlt : xl < xr := lt_of_le_of_ne (le_trans h1' h2') hne
      have hd : 0 < xr - xl := sub_pos.mpr hlt
      set t := (x - xl) / (xr - xl) with ht
      have ht0 : 0 ≤ t := div_nonneg (sub_nonneg.mpr h1') hd.le
      have ht1 : t ≤ 1 := by
        rw [ht, div_le_one hd]; linarith
      have e : yl + (yr - yl) / (xr - xl) * (x - xl) = yl * (1 - t) + yr * t := by
        rw [ht]; field_simp; ring
      rw [e]
      constructor
      · nlinarith [mul_nonneg (sub_nonneg.mpr ht1) (sub_nonneg.mpr hl.1),
          mul_nonneg ht0 (sub_nonneg.mpr hr.1)]
      · nlinarith [mul_nonneg (sub_nonneg.mpr ht1) (sub_nonneg.mpr hl.2),
          mul_nonneg ht0 (sub_nonneg.mpr hr.2)]

end Altrios.Proofs.InterpL
