import Altrios.Interp
import Proofs.Lemmas.Basic
import Mathlib.Algebra.Order.Field.Basic
import Mathlib.Tactic.Linarith
import Mathlib.Tactic.Ring
import Mathlib.Tactic.SplitIfs
import Mathlib.Tactic.FieldSimp
import Mathlib.Tactic.Positivity
import Mathlib.Data.List.Basic
import Mathlib.Data.List.Chain
/-
  Range lemmas for the interpolation model (`Altrios.Interp`): the value returned by `interp1d`
  (clamped, no extrapolation) and by `interp3d` (clamped trilinear blend) lies between any two
  bounds that enclose all map values.  Used by `Proofs/C08.lean` (η ∈ (0,1]).
-/
set_option linter.unusedSectionVars false
namespace Altrios.Proofs.InterpL
open Altrios Altrios.Interp Altrios.Proofs.Basic

variable {α : Type} [Field α] [LinearOrder α] [IsStrictOrderedRing α]

/-! ### checked indexing -/

theorem getA_ok_iff (l : List α) (i : Nat) (v : α) : getA l i = .ok v ↔ l[i]? = some v := by
  unfold getA; split <;> simp_all

theorem getA_ok_mem {l : List α} {i : Nat} {v : α} (h : getA l i = .ok v) : v ∈ l :=
  List.mem_of_getElem? ((getA_ok_iff l i v).mp h)

theorem getA_ok_lt {l : List α} {i : Nat} {v : α} (h : getA l i = .ok v) : i < l.length := by
  have := (getA_ok_iff l i v).mp h
  exact (List.getElem?_eq_some_iff.mp this).1

/-! ### the `Res` monad -/

theorem bind_ok_iff {σ τ : Type} (r : Res σ) (f : σ → Res τ) (y : τ) :
    Res.bind r f = .ok y ↔ ∃ s, r = .ok s ∧ f s = .ok y := by
  cases r <;> simp [Res.bind]

/-! ### `interp1d` -/

theorem all_eqb_iff (l : List α) (m : α) : (l.all fun y => eqb y m) = true ↔ ∀ v ∈ l, v = m := by
  simp only [List.all_eq_true, eqb_iff]

/-- the value `interp1d` computes from the selected interval `(xl,yl)`–`(xr,yr)`:
    clamp by overwriting, then the two-point formula -/
def lerpClamped (x xl xr yl yr : α) : α :=
  let yr' := if x < xl then yl else yr
  let yl' := if xr < x then yr' else yl
  yl' + (yr' - yl') / (xr - xl) * (x - xl)

/-- the `while` search returns the first index `i ≥ i0` whose right knot is not below `x` -/
theorem scan_ok (x : α) (xs : List α) (f i0 i : Nat) (h : scan x xs f i0 = .ok i) :
    i0 ≤ i ∧ (∀ j, i0 < j → j ≤ i → ∃ v, xs[j]? = some v ∧ v < x) ∧
      ∃ v, xs[i + 1]? = some v ∧ ¬ v < x := by
  induction f generalizing i0 with
  | zero => simp [scan] at h
  | succ f ih =>
    unfold scan at h
    simp only [bind, pure, bind_ok_iff] at h
    obtain ⟨v, hv, h⟩ := h
    rw [getA_ok_iff] at hv
    split_ifs at h with hlt
    · obtain ⟨h1, h2, h3⟩ := ih _ h
      refine ⟨by omega, fun j hj1 hj2 => ?_, h3⟩
      by_cases hj : j = i0 + 1
      · subst hj; exact ⟨v, hv, hlt⟩
      · exact h2 j (by omega) hj2
    · cases h
      exact ⟨le_refl _, fun j hj1 hj2 => by omega, v, hv, hlt⟩

/-- how `interp1d` selects the interval `i, i+1`: the last interval if its left knot is `≤ x`,
    otherwise the first interval whose right knot is not below `x` -/
def Sel (x : α) (xs : List α) (i : Nat) : Prop :=
  (i + 2 = xs.length ∧ ∃ v, xs[i]? = some v ∧ v ≤ x) ∨
  ((∀ j, 0 < j → j ≤ i → ∃ v, xs[j]? = some v ∧ v < x) ∧ ∃ v, xs[i + 1]? = some v ∧ ¬ v < x)

/-- What an accepted `interp1d` call returns: either the constant-map shortcut fired (every `y`
    knot equals the result), or an interval `i, i+1` inside both lists was selected and the result
    is the clamped two-point formula on it. -/
theorem interp1d_ok_cases (x : α) (xs ys : List α) (y : α) (h : interp1d x xs ys = .ok y) :
    ((∀ v ∈ ys, v = y) ∧ y = mean ys) ∨
    ∃ i xl xr yl yr, xs[i]? = some xl ∧ xs[i + 1]? = some xr ∧ ys[i]? = some yl ∧
      ys[i + 1]? = some yr ∧ Sel x xs i ∧ y = lerpClamped x xl xr yl yr := by
  unfold interp1d at h
  simp only [bind, pure] at h
  split_ifs at h with hc hx hs
  · left
    cases h
    exact ⟨(all_eqb_iff _ _).mp hc, rfl⟩
  · right
    simp only [bind_ok_iff] at h
    obtain ⟨x2, hx2, i, hi, xl, hxl, yl, hyl, xr, hxr, yr, hyr, hy⟩ := h
    cases hy
    refine ⟨i, xl, xr, yl, yr, (getA_ok_iff _ _ _).mp hxl, (getA_ok_iff _ _ _).mp hxr,
      (getA_ok_iff _ _ _).mp hyl, (getA_ok_iff _ _ _).mp hyr, ?_, rfl⟩
    split_ifs at hi with hle
    · cases hi
      exact Or.inl ⟨by omega, x2, (getA_ok_iff _ _ _).mp hx2, hle⟩
    · obtain ⟨-, h2, h3⟩ := scan_ok _ _ _ _ _ hi
      exact Or.inr ⟨h2, h3⟩

/-- the clamped two-point formula stays between the bounds of its two `y` values.
    `hne` guards the division by `xr - xl`. -/
theorem lerpClamped_range (x xl xr yl yr lo hi : α) (hne : xl ≠ xr)
    (hl : lo ≤ yl ∧ yl ≤ hi) (hr : lo ≤ yr ∧ yr ≤ hi) :
    lo ≤ lerpClamped x xl xr yl yr ∧ lerpClamped x xl xr yl yr ≤ hi := by
  unfold lerpClamped
  by_cases h1 : x < xl
  · simp only [if_pos h1, ite_self, sub_self, zero_div, zero_mul, add_zero]
    exact hl
  · simp only [if_neg h1]
    by_cases h2 : xr < x
    · simp only [if_pos h2, sub_self, zero_div, zero_mul, add_zero]
      exact hr
    · simp only [if_neg h2]
      have h1' : xl ≤ x := not_lt.mp h1
      have h2' : x ≤ xr := not_lt.mp h2
      have hlt : xl < xr := lt_of_le_of_ne (le_trans h1' h2') hne
      have hd : 0 < xr - xl := sub_pos.mpr hlt
      set t := (x - xl) / (xr - xl) with ht
      have ht0 : 0 ≤ t := div_nonneg (sub_nonneg.mpr h1') hd.le
      have ht1 : t ≤ 1 := by
        rw [ht, div_le_one hd]; linarith
      have e : yl + (yr - yl) / (xr - xl) * (x - xl) = yl * (1 - t) + yr * t := by
        rw [ht]; field_simp; ring
      rw [e]
      constructor
      · nlinarith [mul_nonneg (sub_nonneg.mpr ht1) (sub_nonneg.mpr hl.1),
          mul_nonneg ht0 (sub_nonneg.mpr hr.1)]
      · nlinarith [mul_nonneg (sub_nonneg.mpr ht1) (sub_nonneg.mpr hl.2),
          mul_nonneg ht0 (sub_nonneg.mpr hr.2)]

/-- **interp1d stays inside the range of its map** — x grid NOT assumed sorted.
    * `hys`  : forced — for `ys = []` the constant-map shortcut returns `mean [] = 0/0`.
    * `hsel` : guard for the division by `xr - xl` on the selected interval.  (In the ordered-field
      model `a / 0 = 0` and the clamps zero the numerator, so the proof could do without; at `Float`
      `0/0` is NaN, so the guard is what makes the statement honest.) -/
theorem interp1d_range_of_sel (x : α) (xs ys : List α) (y lo hi : α)
    (h : interp1d x xs ys = .ok y) (hys : ys ≠ [])
    (hsel : ∀ i xl xr, Sel x xs i → xs[i]? = some xl → xs[i + 1]? = some xr → xl ≠ xr)
    (hb : ∀ v ∈ ys, lo ≤ v ∧ v ≤ hi) : lo ≤ y ∧ y ≤ hi := by
  rcases interp1d_ok_cases x xs ys y h with ⟨hc, -⟩ | ⟨i, xl, xr, yl, yr, hxl, hxr, hyl, hyr, hs, rfl⟩
  · obtain ⟨v, hv⟩ := List.exists_mem_of_ne_nil ys hys
    rw [← hc v hv]; exact hb v hv
  · exact lerpClamped_range x xl xr yl yr lo hi (hsel i xl xr hs hxl hxr)
      (hb yl (List.mem_of_getElem? hyl)) (hb yr (List.mem_of_getElem? hyr))

/-- adjacency form: no two ADJACENT `x` knots are equal (the grid need not be sorted) -/
theorem interp1d_range (x : α) (xs ys : List α) (y lo hi : α)
    (h : interp1d x xs ys = .ok y) (hys : ys ≠ []) (hadj : xs.IsChain (· ≠ ·))
    (hb : ∀ v ∈ ys, lo ≤ v ∧ v ≤ hi) : lo ≤ y ∧ y ≤ hi := by
  refine interp1d_range_of_sel x xs ys y lo hi h hys (fun i xl xr _ hl hr => ?_) hb
  obtain ⟨h1, rfl⟩ := List.getElem?_eq_some_iff.mp hl
  obtain ⟨h2, rfl⟩ := List.getElem?_eq_some_iff.mp hr
  exact hadj.getElem i h2

/-- weakest list-level guard: only the FIRST and the LAST interval can be selected with equal ends
    (an interval `i ≥ 1` found by the scan has `xs[i] < x ≤ xs[i+1]`). -/
theorem interp1d_range_ends (x : α) (xs ys : List α) (y lo hi : α)
    (h : interp1d x xs ys = .ok y) (hys : ys ≠ [])
    (hfirst : ∀ a b, xs[0]? = some a → xs[1]? = some b → a ≠ b)
    (hlast : ∀ a b, xs[xs.length - 2]? = some a → xs[xs.length - 1]? = some b → a ≠ b)
    (hb : ∀ v ∈ ys, lo ≤ v ∧ v ≤ hi) : lo ≤ y ∧ y ≤ hi := by
  refine interp1d_range_of_sel x xs ys y lo hi h hys (fun i xl xr hs hl hr => ?_) hb
  rcases hs with ⟨hn, -⟩ | ⟨hj, v, hv, hnv⟩
  · have e1 : xs.length - 2 = i := by omega
    have e2 : xs.length - 1 = i + 1 := by omega
    exact hlast xl xr (by rw [e1]; exact hl) (by rw [e2]; exact hr)
  · rcases Nat.eq_zero_or_pos i with rfl | hpos
    · exact hfirst xl xr hl hr
    · obtain ⟨w, hw, hwx⟩ := hj i hpos (le_refl _)
      rw [hl] at hw; cases hw
      rw [hr] at hv; cases hv
      exact fun e => hnv (e ▸ hwx)

/-- two-point maps (the SOC ramps of the battery) -/
theorem interp1d_range_two (x a b ya yb y lo hi : α)
    (h : interp1d x [a, b] [ya, yb] = .ok y) (hab : a ≠ b)
    (ha : lo ≤ ya ∧ ya ≤ hi) (hb : lo ≤ yb ∧ yb ≤ hi) : lo ≤ y ∧ y ≤ hi := by
  refine interp1d_range x [a, b] [ya, yb] y lo hi h (by simp) (by simp [hab]) ?_
  intro v hv
  simp only [List.mem_cons, List.not_mem_nil, or_false] at hv
  rcases hv with rfl | rfl
  · exact ha
  · exact hb

/-- η ∈ (0,1] whenever all map values are (strict lower bound version of `interp1d_range`) -/
theorem interp1d_pos_le_one (x : α) (xs ys : List α) (y : α)
    (h : interp1d x xs ys = .ok y) (hys : ys ≠ []) (hadj : xs.IsChain (· ≠ ·))
    (hb : ∀ v ∈ ys, 0 < v ∧ v ≤ 1) : 0 < y ∧ y ≤ 1 := by
  rcases interp1d_ok_cases x xs ys y h with ⟨hc, -⟩ | ⟨i, xl, xr, yl, yr, hxl, hxr, hyl, hyr, -, rfl⟩
  · obtain ⟨v, hv⟩ := List.exists_mem_of_ne_nil ys hys
    rw [← hc v hv]; exact hb v hv
  · obtain ⟨h1, rfl⟩ := List.getElem?_eq_some_iff.mp hxl
    obtain ⟨h2, rfl⟩ := List.getElem?_eq_some_iff.mp hxr
    have hl := hb yl (List.mem_of_getElem? hyl)
    have hr := hb yr (List.mem_of_getElem? hyr)
    have := lerpClamped_range x _ _ yl yr (min yl yr) 1 (hadj.getElem i h2)
      ⟨min_le_left _ _, hl.2⟩ ⟨min_le_right _ _, hr.2⟩
    exact ⟨lt_of_lt_of_le (lt_min hl.1 hr.1) this.1, this.2⟩

/-- an accepted call that did not take the constant-map shortcut has both lists of length ≥ 2
    and, more precisely, the selected interval inside both -/
theorem interp1d_ok_lengths (x : α) (xs ys : List α) (y : α) (h : interp1d x xs ys = .ok y) :
    (∀ v ∈ ys, v = y) ∨ (2 ≤ xs.length ∧ 2 ≤ ys.length) := by
  rcases interp1d_ok_cases x xs ys y h with ⟨hc, -⟩ | ⟨i, xl, xr, yl, yr, -, hxr, -, hyr, -, -⟩
  · exact Or.inl hc
  · have h1 := (List.getElem?_eq_some_iff.mp hxr).1
    have h2 := (List.getElem?_eq_some_iff.mp hyr).1
    exact Or.inr ⟨by omega, by omega⟩

/-! ### `interp3d` -/

theorem windowPos_some (q : α) (l : List α) (i0 p : Nat) (h : windowPos q l i0 = some p) :
    i0 ≤ p ∧ ∃ a b, l[p - i0]? = some a ∧ l[p - i0 + 1]? = some b ∧ a ≤ q ∧ q < b := by
  induction l generalizing i0 with
  | nil => simp [windowPos] at h
  | cons a t ih =>
    cases t with
    | nil => simp [windowPos] at h
    | cons b t =>
      unfold windowPos at h
      split_ifs at h with hc
      · cases h
        exact ⟨le_refl _, a, b, by simp, by simp, hc.1, hc.2⟩
      · obtain ⟨h1, a', b', ha, hb, hq⟩ := ih _ h
        refine ⟨by omega, a', b', ?_, ?_, hq⟩
        · have : p - i0 = (p - (i0 + 1)) + 1 := by omega
          rw [this, List.getElem?_cons_succ]; exact ha
        · have : p - i0 + 1 = (p - (i0 + 1) + 1) + 1 := by omega
          rw [this, List.getElem?_cons_succ]; exact hb

theorem interpDiff_self (v a : α) : interpDiff v a a = 0 := by
  unfold interpDiff; rw [if_pos ((eqb_iff a a).mpr rfl)]

theorem interpDiff_between (v a b : α) (h1 : a ≤ v) (h2 : v < b) :
    0 ≤ interpDiff v a b ∧ interpDiff v a b ≤ 1 := by
  unfold interpDiff
  have hab : a < b := lt_of_le_of_lt h1 h2
  have hne : eqb a b = false := (eqb_false_iff a b).mpr (ne_of_lt hab)
  simp only [hne, Bool.false_eq_true, if_false]
  have hd : 0 < b - a := sub_pos.mpr hab
  exact ⟨div_nonneg (sub_nonneg.mpr h1) hd.le, by rw [div_le_one hd]; linarith⟩

/-- the blend weight computed from the indices `find_interp_indices` returns lies in `[0,1]`;
    no hypothesis on the axis is needed: a window is only selected when `a ≤ q < b`, which makes
    `a < b`, and the clamped / exact-hit outcomes return twice the same index (weight 0). -/
theorem findInterpIndices_weight (q : α) (axis : List α) (i0 i1 : Nat) (a b : α)
    (h : findInterpIndices q axis = .ok (i0, i1)) (ha : getA axis i0 = .ok a)
    (hb : getA axis i1 = .ok b) : 0 ≤ interpDiff q a b ∧ interpDiff q a b ≤ 1 := by
  have same : ∀ {i : Nat}, (i0, i1) = (i, i) → 0 ≤ interpDiff q a b ∧ interpDiff q a b ≤ 1 := by
    intro i e
    simp only [Prod.mk.injEq] at e
    obtain ⟨rfl, rfl⟩ := e
    rw [ha] at hb; cases hb
    rw [interpDiff_self]; exact ⟨le_refl _, zero_le_one⟩
  unfold findInterpIndices at h
  split at h
  · rename_i p hp
    obtain ⟨-, a', b', ha', hb', hq1, hq2⟩ := windowPos_some q axis 0 p hp
    simp only [Nat.sub_zero] at ha' hb'
    simp only [bind, pure, bind_ok_iff] at h
    obtain ⟨ap, hap, h⟩ := h
    split_ifs at h with e1
    · cases h; exact same rfl
    · simp only [bind_ok_iff] at h
      obtain ⟨ap1, hap1, h⟩ := h
      split_ifs at h with e2
      · cases h; exact same rfl
      · cases h
        rw [getA_ok_iff] at ha hb
        rw [ha'] at ha; rw [hb'] at hb
        cases ha; cases hb
        exact interpDiff_between q _ _ hq1 hq2
  · simp only [bind, pure, bind_ok_iff] at h
    obtain ⟨a0, -, h⟩ := h
    split_ifs at h with e1
    · cases h; exact same rfl
    · simp only [bind_ok_iff] at h
      obtain ⟨al, -, h⟩ := h
      split_ifs at h with e2
      cases h; exact same rfl

theorem get3_ok_mem (vals : List (List (List α))) (i j k : Nat) (c : α)
    (h : get3 vals i j k = .ok c) : ∃ a ∈ vals, ∃ b ∈ a, c ∈ b := by
  unfold get3 at h
  split at h
  · rename_i a ha
    split at h
    · rename_i b hb
      exact ⟨a, List.mem_of_getElem? ha, b, List.mem_of_getElem? hb, getA_ok_mem h⟩
    · cases h
  · cases h

/-- convex combination of two bounded values -/
theorem blend_range (c0 c1 t lo hi : α) (ht0 : 0 ≤ t) (ht1 : t ≤ 1)
    (h0 : lo ≤ c0 ∧ c0 ≤ hi) (h1 : lo ≤ c1 ∧ c1 ≤ hi) :
    lo ≤ c0 * (1 - t) + c1 * t ∧ c0 * (1 - t) + c1 * t ≤ hi := by
  constructor
  · nlinarith [mul_nonneg (sub_nonneg.mpr ht1) (sub_nonneg.mpr h0.1),
      mul_nonneg ht0 (sub_nonneg.mpr h1.1)]
  · nlinarith [mul_nonneg (sub_nonneg.mpr ht1) (sub_nonneg.mpr h0.2),
      mul_nonneg ht0 (sub_nonneg.mpr h1.2)]

/-- **interp3d stays inside the range of its table.**  No monotonicity of the axes is needed
    (see `findInterpIndices_weight`): the three weights are in `[0,1]` for ANY axes on which the
    call succeeds, and the result is an iterated convex combination of eight table entries. -/
theorem interp3d_range (x y z : α) (gx gy gz : List α) (vals : List (List (List α))) (v lo hi : α)
    (h : interp3d x y z gx gy gz vals = .ok v)
    (hb : ∀ a ∈ vals, ∀ b ∈ a, ∀ c ∈ b, lo ≤ c ∧ c ≤ hi) : lo ≤ v ∧ v ≤ hi := by
  unfold interp3d at h
  simp only [bind, pure, bind_ok_iff] at h
  obtain ⟨⟨xi0, xi1⟩, hx, ⟨yi0, yi1⟩, hy, ⟨zi0, zi1⟩, hz, ax0, hax0, ax1, hax1, ay0, hay0, ay1, hay1,
    az0, haz0, az1, haz1, c000, h000, c100, h100, c001, h001, c101, h101, c010, h010, c110, h110,
    c011, h011, c111, h111, hv⟩ := h
  cases hv
  have wx := findInterpIndices_weight x gx xi0 xi1 ax0 ax1 hx hax0 hax1
  have wy := findInterpIndices_weight y gy yi0 yi1 ay0 ay1 hy hay0 hay1
  have wz := findInterpIndices_weight z gz zi0 zi1 az0 az1 hz haz0 haz1
  have m : ∀ {i j k : Nat} {c : α}, get3 vals i j k = .ok c → lo ≤ c ∧ c ≤ hi := by
    intro i j k c hc
    obtain ⟨a, ha, b, hb', hcb⟩ := get3_ok_mem vals i j k c hc
    exact hb a ha b hb' c hcb
  exact blend_range _ _ _ lo hi wz.1 wz.2
    (blend_range _ _ _ lo hi wy.1 wy.2
      (blend_range _ _ _ lo hi wx.1 wx.2 (m h000) (m h100))
      (blend_range _ _ _ lo hi wx.1 wx.2 (m h010) (m h110)))
    (blend_range _ _ _ lo hi wy.1 wy.2
      (blend_range _ _ _ lo hi wx.1 wx.2 (m h001) (m h101))
      (blend_range _ _ _ lo hi wx.1 wx.2 (m h011) (m h111)))

/-- convex combination with a strict lower bound -/
theorem blend_pos (c0 c1 t : α) (ht0 : 0 ≤ t) (ht1 : t ≤ 1) (h0 : 0 < c0) (h1 : 0 < c1) :
    0 < c0 * (1 - t) + c1 * t := by
  rcases eq_or_lt_of_le ht0 with rfl | hpos
  · simpa using h0
  · have : 0 ≤ c0 * (1 - t) := mul_nonneg h0.le (sub_nonneg.mpr ht1)
    have : 0 < c1 * t := mul_pos h1 hpos
    linarith

/-- η ∈ (0,1] whenever all table entries are -/
theorem interp3d_pos_le_one (x y z : α) (gx gy gz : List α) (vals : List (List (List α))) (v : α)
    (h : interp3d x y z gx gy gz vals = .ok v)
    (hb : ∀ a ∈ vals, ∀ b ∈ a, ∀ c ∈ b, 0 < c ∧ c ≤ 1) : 0 < v ∧ v ≤ 1 := by
  refine ⟨?_, (interp3d_range x y z gx gy gz vals v 0 1 h
    (fun a ha b hb' c hc => ⟨(hb a ha b hb' c hc).1.le, (hb a ha b hb' c hc).2⟩)).2⟩
  unfold interp3d at h
  simp only [bind, pure, bind_ok_iff] at h
  obtain ⟨⟨xi0, xi1⟩, hx, ⟨yi0, yi1⟩, hy, ⟨zi0, zi1⟩, hz, ax0, hax0, ax1, hax1, ay0, hay0, ay1, hay1,
    az0, haz0, az1, haz1, c000, h000, c100, h100, c001, h001, c101, h101, c010, h010, c110, h110,
    c011, h011, c111, h111, hv⟩ := h
  cases hv
  have wx := findInterpIndices_weight x gx xi0 xi1 ax0 ax1 hx hax0 hax1
  have wy := findInterpIndices_weight y gy yi0 yi1 ay0 ay1 hy hay0 hay1
  have wz := findInterpIndices_weight z gz zi0 zi1 az0 az1 hz haz0 haz1
  have m : ∀ {i j k : Nat} {c : α}, get3 vals i j k = .ok c → 0 < c := by
    intro i j k c hc
    obtain ⟨a, ha, b, hb', hcb⟩ := get3_ok_mem vals i j k c hc
    exact (hb a ha b hb' c hcb).1
  exact blend_pos _ _ _ wz.1 wz.2
    (blend_pos _ _ _ wy.1 wy.2
      (blend_pos _ _ _ wx.1 wx.2 (m h000) (m h100))
      (blend_pos _ _ _ wx.1 wx.2 (m h010) (m h110)))
    (blend_pos _ _ _ wy.1 wy.2
      (blend_pos _ _ _ wx.1 wx.2 (m h001) (m h101))
      (blend_pos _ _ _ wx.1 wx.2 (m h011) (m h111)))

end Altrios.Proofs.InterpL
