import Lean
import Std.Data.HashSet
import Std.Data.HashMap
/-
  Two small tactics for the translator-tie proofs (Proofs/TrainKernels.lean).  The equalities
  `regenerated definition = hand-written definition` are proved by running both programs side by side; after
  unfolding, the terms of a long kernel (`solve_required_pwr` of the speed-limited simulation) are large because
  every `let` has been substituted.  These tactics keep that cheap.  They are ordinary tactics: whatever they do
  is checked by the kernel; nothing here is trusted.

    * `kshare`          in a goal `lhs = rhs`: every maximal arithmetic subterm that occurs, syntactically, on BOTH
                        sides is replaced by a fresh variable (a generalisation of the goal, hence sound); what
                        remains is the control structure over shared atoms.
    * `case_first_ite`  case analysis on the `Decidable` instance of the first `if` of the goal (pre-order) that does
                        not depend on a bound variable: in both cases every `if` with that instance reduces by `rfl`
                        (`ite_isTrue` / `ite_isFalse`), without rewriting.
-/
namespace Altrios.Proofs.KernelTac
open Lean Elab Tactic Meta

theorem ite_isTrue {σ : Sort _} (c : Prop) (h : c) (a b : σ) : @ite σ c (isTrue h) a b = a := rfl
theorem ite_isFalse {σ : Sort _} (c : Prop) (h : ¬c) (a b : σ) : @ite σ c (isFalse h) a b = b := rfl

/-- closed, fully applied arithmetic term: `+ - * /`, unary `-`, the model's `mn mx absv`, or a local function
    (`sqrt`) applied to one argument -/
def isNumericApp (env : Environment) (e : Expr) : Bool :=
  e.isApp && !e.hasLooseBVars &&
  (match e.getAppFn with
   | .const n _ =>
     (n == ``HAdd.hAdd || n == ``HSub.hSub || n == ``HMul.hMul || n == ``HDiv.hDiv || n == ``Neg.neg
        || n == `Altrios.mn || n == `Altrios.mx || n == `Altrios.absv)
     && (match env.find? n with
         | some ci => ci.type.getNumHeadForalls == e.getAppNumArgs
         | none => false)
   | .fvar _ => e.getAppNumArgs == 1
   | _ => false)

/-- all subterms of `e` satisfying `p` (second component; the first is the set of visited nodes) -/
partial def collectWhere (p : Expr → Bool) (e : Expr) : StateM (Std.HashSet Expr × Std.HashSet Expr) Unit := do
  if (← get).1.contains e then return
  modify fun (v, n) => (v.insert e, if p e then n.insert e else n)
  match e with
  | .app f a => collectWhere p f; collectWhere p a
  | .lam _ d b _ | .forallE _ d b _ => collectWhere p d; collectWhere p b
  | .letE _ t v b _ => collectWhere p t; collectWhere p v; collectWhere p b
  | .mdata _ b | .proj _ _ b => collectWhere p b
  | _ => pure ()

/-- the maximal subterms of `e` satisfying `p` (top-down, not entering a hit) -/
partial def maximalWhere (p : Expr → Bool) (e : Expr) : StateM (Std.HashSet Expr × Array Expr) Unit := do
  if (← get).1.contains e then return
  modify fun (v, n) => (v.insert e, n)
  if p e then
    modify fun (v, n) => (v, n.push e)
    return
  match e with
  | .app f a => maximalWhere p f; maximalWhere p a
  | .lam _ d b _ | .forallE _ d b _ => maximalWhere p d; maximalWhere p b
  | .letE _ t v b _ => maximalWhere p t; maximalWhere p v; maximalWhere p b
  | .mdata _ b | .proj _ _ b => maximalWhere p b
  | _ => pure ()

/-- `kshare`: generalise the maximal arithmetic subterms common to both sides of the goal `lhs = rhs` -/
elab "kshare" : tactic => do
  let g ← getMainGoal
  g.withContext do
  let env ← getEnv
  let t ← instantiateMVars (← g.getType)
  let some (_, lhs, rhs) := t.eq? | throwError "kshare: not an equation"
  let a := ((collectWhere (isNumericApp env) lhs).run ({}, {})).2.2
  let b := ((collectWhere (isNumericApp env) rhs).run ({}, {})).2.2
  let common (e : Expr) : Bool := isNumericApp env e && e.approxDepth > 3 && a.contains e && b.contains e
  let atoms := ((maximalWhere common t).run ({}, #[])).2.2
  if atoms.isEmpty then throwError "kshare: nothing to share"
  let mut tys := #[]
  for e in atoms do
    let ty ← inferType e
    tys := tys.push (`x, fun (_ : Array Expr) => (pure ty : TacticM Expr))
  let newTy ← withLocalDeclsD tys fun xs => do
    let m : Std.HashMap Expr Expr := (atoms.zip xs).foldl (fun m (e, x) => m.insert e x) {}
    mkForallFVars xs (t.replace (fun e => m[e]?))
  let g' ← mkFreshExprSyntheticOpaqueMVar newTy
  g.assign (mkAppN g' atoms)
  let (_, g'') ← g'.mvarId!.introNP atoms.size
  replaceMainGoal [g'']

/-- `case_first_ite`: see the header -/
elab "case_first_ite" : tactic => do
  let g ← getMainGoal
  g.withContext do
  let t ← instantiateMVars (← g.getType)
  let isCtor (e : Expr) : Bool := e.isAppOf ``Decidable.isTrue || e.isAppOf ``Decidable.isFalse
  match t.find? (fun t => t.isAppOfArity ``ite 5 && !(t.getArg! 2).hasLooseBVars && !(t.getArg! 1).hasLooseBVars
      && !isCtor (t.getArg! 2)) with
  | none => throwError "no if-then-else in the goal"
  | some it =>
    let inst := it.getArg! 2
    let c := it.getArg! 1
    let dty := mkApp (mkConst ``Decidable) c
    -- abstract the SYNTACTIC occurrences of the instance (the goal is in `dsimp +instances` normal form);
    -- `Expr.replace` is linear in the size of the term as a DAG
    let newTy ← withLocalDeclD `di dty fun x => do
      mkForallFVars #[x] (t.replace (fun e => if e == inst then some x else none))
    let g' ← mkFreshExprSyntheticOpaqueMVar newTy
    g.assign (mkApp g' inst)
    let (x, g'') ← g'.mvarId!.intro1
    let subgoals ← g''.cases x
    replaceMainGoal (subgoals.toList.map (·.mvarId))

end Altrios.Proofs.KernelTac
