import Altrios.Powertrain
import Altrios.Consist
import Proofs.Lemmas.Basic
import Mathlib.Algebra.Order.Field.Basic
import Mathlib.Tactic.Linarith
import Mathlib.Tactic.Ring
import Mathlib.Tactic.SplitIfs
import Mathlib.Data.List.Basic
import Mathlib.Data.List.Forall2
/-
  Helper lemmas for C01 (energy ledger): inversion of the `Res` monad `do` blocks, one-step
  specifications of the four powertrain components (`fcSolve`, `genReq`, `edrvReq`, `resSolve`),
  frame lemmas for the `set…` functions (they never touch a cumulative energy field), and
  linearity of `sumLeft`.
-/
set_option linter.unusedSectionVars false
namespace Altrios.Proofs.LedgerL
open Altrios Altrios.PT Altrios.CS Altrios.Interp Altrios.Proofs.Basic

variable {α : Type} [Field α] [LinearOrder α] [IsStrictOrderedRing α]

/-! ### `Res` monad inversion -/

theorem bind_ok {σ τ} (r : Res σ) (f : σ → Res τ) (y : τ) :
    (r >>= f) = .ok y ↔ ∃ x, r = .ok x ∧ f x = .ok y := by
  cases r <;> simp [bind, Res.bind]

theorem pure_ok {σ} (x y : σ) : (pure x : Res σ) = .ok y ↔ x = y := by
  simp [pure]

theorem ensure_ok (c : Bool) (tag : String) (u : Unit) : ensure c tag = .ok u ↔ c = true := by
  unfold ensure; cases c <;> simp

theorem ite_ok {σ} (c : Prop) [Decidable c] (a b : Res σ) (y : σ) :
    (if c then a else b) = .ok y ↔ (c ∧ a = .ok y) ∨ (¬ c ∧ b = .ok y) := by
  split_ifs with h <;> simp [h]

/-! ### Fuel converter -/

/-- what one accepted `fcSolve` call does to the ledger fields -/
structure FCStep (fc fc' : FC α) (req dt : α) : Prop where
  pwrBrake : fc'.state.pwrBrake = req
  pwrLoss : fc'.state.pwrLoss = fc'.state.pwrFuel - req
  energyBrake : fc'.state.energyBrake = fc.state.energyBrake + fc'.state.pwrBrake * dt
  energyFuel : fc'.state.energyFuel = fc.state.energyFuel + fc'.state.pwrFuel * dt
  energyLoss : fc'.state.energyLoss = fc.state.energyLoss + fc'.state.pwrLoss * dt
  energyIdleFuel : fc'.state.energyIdleFuel = fc.state.energyIdleFuel + fc'.state.pwrIdleFuel * dt

theorem fcSolve_spec {k : Consts α} {fc fc' : FC α} {req dt : α} {on al : Bool}
    (h : fcSolve k fc req dt on al = .ok fc') : FCStep fc fc' req dt := by
  unfold fcSolve at h
  simp only [bind_ok, pure_ok, ensure_ok, ite_ok, exists_const] at h
  rcases h with ⟨_, _, _, _, x, _, _, _, rfl⟩ | ⟨_, _, x, _, _, _, rfl⟩ <;> constructor <;> rfl

/-- `fcSetCurMax` touches `state.pwrOutMax` only (and the parameter `pwrOutMaxInit`) -/
theorem fcSetCurMax_frame {k : Consts α} {fc fc' : FC α} {dt : α}
    (h : fcSetCurMax k fc dt = .ok fc') :
    fc'.state.energyBrake = fc.state.energyBrake ∧ fc'.state.energyFuel = fc.state.energyFuel ∧
    fc'.state.energyLoss = fc.state.energyLoss ∧ fc'.state.energyIdleFuel = fc.state.energyIdleFuel := by
  unfold fcSetCurMax at h
  simp only [bind_ok, pure_ok, ensure_ok, exists_const] at h
  obtain ⟨_, rfl⟩ := h
  exact ⟨rfl, rfl, rfl, rfl⟩

/-! ### Generator -/

structure GenStep (g g' : Gen α) (prop aux dt : α) : Prop where
  pwrElecPropOut : g'.state.pwrElecPropOut = prop
  pwrElecAux : g'.state.pwrElecAux = aux
  pwrLoss : g'.state.pwrLoss = g'.state.pwrMechIn - (prop + aux)
  energyMechIn : g'.state.energyMechIn = g.state.energyMechIn + g'.state.pwrMechIn * dt
  energyElecPropOut : g'.state.energyElecPropOut = g.state.energyElecPropOut + g'.state.pwrElecPropOut * dt
  energyElecAux : g'.state.energyElecAux = g.state.energyElecAux + g'.state.pwrElecAux * dt
  energyLoss : g'.state.energyLoss = g.state.energyLoss + g'.state.pwrLoss * dt

theorem genReq_spec {g g' : Gen α} {prop aux dt : α}
    (h : genReq g prop aux dt = .ok g') : GenStep g g' prop aux dt := by
  unfold genReq at h
  simp only [bind_ok, pure_ok, ensure_ok, exists_const] at h
  obtain ⟨_, _, x, _, rfl⟩ := h
  constructor <;> rfl

theorem genSetCurMax_frame {g g' : Gen α} {pin aux : α}
    (h : genSetCurMax g pin aux = .ok g') :
    g'.state.energyMechIn = g.state.energyMechIn ∧
    g'.state.energyElecPropOut = g.state.energyElecPropOut ∧
    g'.state.energyElecAux = g.state.energyElecAux ∧ g'.state.energyLoss = g.state.energyLoss := by
  unfold genSetCurMax at h
  simp only [bind_ok, pure_ok] at h
  obtain ⟨_, _, _, _, rfl⟩ := h
  exact ⟨rfl, rfl, rfl, rfl⟩

/-! ### Electric drivetrain -/

structure EdrvStep (e e' : Edrv α) (req dt : α) : Prop where
  pwrMechPropOut : e'.state.pwrMechPropOut = mx req (-e.state.pwrMechRegenMax)
  pwrMechDynBrake : e'.state.pwrMechDynBrake = -(req - e'.state.pwrMechPropOut)
  dynBrake_nonneg : 0 ≤ e'.state.pwrMechDynBrake
  pwrElecPropIn : e'.state.pwrElecPropIn =
    if 0 < req then e'.state.pwrMechPropOut / e'.state.eta else e'.state.pwrMechPropOut * e'.state.eta
  pwrElecDynBrake : e'.state.pwrElecDynBrake = e'.state.pwrMechDynBrake * e'.state.eta
  pwrLoss : e'.state.pwrLoss = absv (e'.state.pwrMechPropOut - e'.state.pwrElecPropIn)
  regenMax : e'.state.pwrMechRegenMax = e.state.pwrMechRegenMax
  energyElecPropIn : e'.state.energyElecPropIn = e.state.energyElecPropIn + e'.state.pwrElecPropIn * dt
  energyMechPropOut : e'.state.energyMechPropOut = e.state.energyMechPropOut + e'.state.pwrMechPropOut * dt
  energyMechDynBrake : e'.state.energyMechDynBrake = e.state.energyMechDynBrake + e'.state.pwrMechDynBrake * dt
  energyElecDynBrake : e'.state.energyElecDynBrake = e.state.energyElecDynBrake + e'.state.pwrElecDynBrake * dt
  energyLoss : e'.state.energyLoss = e.state.energyLoss + e'.state.pwrLoss * dt

theorem edrvReq_spec {e e' : Edrv α} {req dt : α}
    (h : edrvReq e req dt = .ok e') : EdrvStep e e' req dt := by
  unfold edrvReq at h
  simp only [bind_ok, pure_ok, ensure_ok, exists_const, decide_eq_true_iff] at h
  obtain ⟨_, x, _, hd, rfl⟩ := h
  constructor <;> first | rfl | exact hd

theorem edrvSetCurMax_frame {e e' : Edrv α} {pin : α}
    (h : edrvSetCurMax e pin = .ok e') :
    e'.state.energyElecPropIn = e.state.energyElecPropIn ∧
    e'.state.energyMechPropOut = e.state.energyMechPropOut ∧
    e'.state.energyMechDynBrake = e.state.energyMechDynBrake ∧
    e'.state.energyElecDynBrake = e.state.energyElecDynBrake ∧
    e'.state.energyLoss = e.state.energyLoss ∧
    e'.state.pwrMechRegenMax = e.state.pwrMechRegenMax := by
  unfold edrvSetCurMax at h
  simp only [bind_ok, pure_ok] at h
  obtain ⟨_, _, _, _, rfl⟩ := h
  exact ⟨rfl, rfl, rfl, rfl, rfl, rfl⟩

theorem edrvSetRegenMax_frame {e e' : Edrv α} {pin : α}
    (h : edrvSetRegenMax e pin = .ok e') :
    e'.state.energyElecPropIn = e.state.energyElecPropIn ∧
    e'.state.energyMechPropOut = e.state.energyMechPropOut ∧
    e'.state.energyMechDynBrake = e.state.energyMechDynBrake ∧
    e'.state.energyElecDynBrake = e.state.energyElecDynBrake ∧
    e'.state.energyLoss = e.state.energyLoss ∧
    0 ≤ e'.state.pwrMechRegenMax := by
  unfold edrvSetRegenMax at h
  simp only [bind_ok, pure_ok, ensure_ok, exists_const, decide_eq_true_iff] at h
  obtain ⟨_, _, _, _, hr, rfl⟩ := h
  exact ⟨rfl, rfl, rfl, rfl, rfl, hr⟩

/-- the drivetrain's electrical input covers its mechanical output plus the reported loss,
    provided the regen limit is not negative and the efficiency used lies in `(0,1]` -/
theorem edrv_balance {e e' : Edrv α} {req dt : α} (s : EdrvStep e e' req dt)
    (hr : 0 ≤ e.state.pwrMechRegenMax) (h0 : 0 < e'.state.eta) (h1 : e'.state.eta ≤ 1) :
    e'.state.pwrElecPropIn = e'.state.pwrMechPropOut + e'.state.pwrLoss := by
  have hp := s.pwrMechPropOut
  rw [mx_eq_max] at hp
  rw [s.pwrLoss, absv_eq_abs, s.pwrElecPropIn]
  split_ifs with hq
  · have hpos : 0 < e'.state.pwrMechPropOut := by rw [hp]; exact lt_of_lt_of_le hq (le_max_left _ _)
    have : e'.state.pwrMechPropOut ≤ e'.state.pwrMechPropOut / e'.state.eta := by
      rw [le_div_iff₀ h0]; nlinarith
    rw [abs_of_nonpos (by linarith)]; ring
  · have hneg : e'.state.pwrMechPropOut ≤ 0 := by
      rw [hp]; exact max_le (not_lt.mp hq) (by linarith)
    have : e'.state.pwrMechPropOut ≤ e'.state.pwrMechPropOut * e'.state.eta := by nlinarith
    rw [abs_of_nonpos (by linarith)]; ring

/-! ### Reversible energy storage -/

structure ResStep (r r' : RES α) (prop aux dt : α) : Prop where
  pwrOutPropulsion : r'.state.pwrOutPropulsion = prop
  pwrAux : r'.state.pwrAux = aux
  pwrOutElectrical : r'.state.pwrOutElectrical = prop + aux
  pwrOutChemical : r'.state.pwrOutChemical =
    if 0 < r'.state.pwrOutElectrical then r'.state.pwrOutElectrical / r'.state.eta
    else r'.state.pwrOutElectrical * r'.state.eta
  pwrLoss : r'.state.pwrLoss = absv (r'.state.pwrOutChemical - r'.state.pwrOutElectrical)
  soc : r'.state.soc = r.state.soc - r'.state.pwrOutChemical * dt / r.energyCapacity
  energyCapacity : r'.energyCapacity = r.energyCapacity
  energyOutPropulsion : r'.state.energyOutPropulsion = r.state.energyOutPropulsion + r'.state.pwrOutPropulsion * dt
  energyAux : r'.state.energyAux = r.state.energyAux + r'.state.pwrAux * dt
  energyOutElectrical : r'.state.energyOutElectrical = r.state.energyOutElectrical + r'.state.pwrOutElectrical * dt
  energyOutChemical : r'.state.energyOutChemical = r.state.energyOutChemical + r'.state.pwrOutChemical * dt
  energyLoss : r'.state.energyLoss = r.state.energyLoss + r'.state.pwrLoss * dt

theorem resSolve_spec {k : Consts α} {r r' : RES α} {prop aux dt : α}
    (h : resSolve k r prop aux dt = .ok r') : ResStep r r' prop aux dt := by
  unfold resSolve at h
  simp only [bind_ok, pure_ok, ensure_ok, ite_ok, exists_const] at h
  obtain ⟨_, _, h⟩ := h
  rcases h with ⟨_, _, _, x, _, rfl⟩ | ⟨_, _, _, x, _, rfl⟩ <;> constructor <;> rfl

theorem resSetCurMax_frame {k : Consts α} {r r' : RES α} {aux cb db : α}
    (h : resSetCurMax k r aux cb db = .ok r') :
    r'.state.energyOutPropulsion = r.state.energyOutPropulsion ∧
    r'.state.energyAux = r.state.energyAux ∧
    r'.state.energyOutElectrical = r.state.energyOutElectrical ∧
    r'.state.energyOutChemical = r.state.energyOutChemical ∧
    r'.state.energyLoss = r.state.energyLoss ∧
    r'.state.soc = r.state.soc ∧ r'.energyCapacity = r.energyCapacity := by
  unfold resSetCurMax at h
  simp only [bind_ok, pure_ok] at h
  obtain ⟨_, _, _, _, rfl⟩ := h
  exact ⟨rfl, rfl, rfl, rfl, rfl, rfl, rfl⟩

theorem res_balance {r r' : RES α} {prop aux dt : α} (s : ResStep r r' prop aux dt)
    (h0 : 0 < r'.state.eta) (h1 : r'.state.eta ≤ 1) :
    r'.state.pwrOutChemical = r'.state.pwrOutElectrical + r'.state.pwrLoss := by
  rw [s.pwrLoss, absv_eq_abs, s.pwrOutChemical]
  split_ifs with hq
  · have : r'.state.pwrOutElectrical ≤ r'.state.pwrOutElectrical / r'.state.eta := by
      rw [le_div_iff₀ h0]; nlinarith
    rw [abs_of_nonneg (by linarith)]; ring
  · have hq' := not_lt.mp hq
    have : r'.state.pwrOutElectrical ≤ r'.state.pwrOutElectrical * r'.state.eta := by nlinarith
    rw [abs_of_nonneg (by linarith)]; ring

end Altrios.Proofs.LedgerL
