import Altrios.Powertrain
import Altrios.Consist
import Proofs.Lemmas.Basic
import Mathlib.Algebra.Order.Field.Basic
import Mathlib.Tactic.Linarith
import Mathlib.Tactic.Ring
import Mathlib.Tactic.SplitIfs
import Mathlib.Data.List.Basic
import Mathlib.Data.List.Forall2
/-
  Helper lemmas for C01 (energy ledger): inversion of the `Res` monad `do` blocks, one-step
  specifications of the four powertrain components (`fcSolve`, `genReq`, `edrvReq`, `resSolve`),
  frame lemmas for the `set…` functions (they never touch a cumulative energy field), and
  linearity of `sumLeft`.
-/
set_option linter.unusedSectionVars false
namespace Altrios.Proofs.LedgerL
open Altrios Altrios.PT Altrios.CS Altrios.Interp Altrios.Proofs.Basic

variable {α : Type} [Field α] [LinearOrder α] [IsStrictOrderedRing α]

/-! ### `Res` monad inversion -/

theorem bind_ok {σ τ} (r : Res σ) (f : σ → Res τ) (y : τ) :
    (r >>= f) = .ok y ↔ ∃ x, r = .ok x ∧ f x = .ok y := by
  cases r <;> simp [bind, Res.bind]

theorem pure_ok {σ} (x y : σ) : (pure x : Res σ) = .ok y ↔ x = y := by
  simp [pure]

theorem ensure_ok (c : Bool) (tag : String) (u : Unit) : ensure c tag = .ok u ↔ c = true := by
  unfold ensure; cases c <;> simp

theorem ite_ok {σ} (c : Prop) [Decidable c] (a b : Res σ) (y : σ) :
    (if c then a else b) = .ok y ↔ (c ∧ a = .ok y) ∨ (¬ c ∧ b = .ok y) := by
  split_ifs with h <;> simp [h]

/-! ### Fuel converter -/

/-- what one accepted `fcSolve` call does to the ledger fields -/
structure FCStep (fc fc' : FC α) (req dt : α) : Prop where
  pwrBrake : fc'.state.pwrBrake = req
  pwrLoss : fc'.state.pwrLoss = fc'.state.pwrFuel - req
  energyBrake : fc'.state.energyBrake = fc.state.energyBrake + fc'.state.pwrBrake * dt
  energyFuel : fc'.state.energyFuel = fc.state.energyFuel + fc'.state.pwrFuel * dt
  energyLoss : fc'.state.energyLoss = fc.state.energyLoss + fc'.state.pwrLoss * dt
  energyIdleFuel : fc'.state.energyIdleFuel = fc.state.energyIdleFuel + fc'.state.pwrIdleFuel * dt

theorem fcSolve_spec {k : Consts α} {fc fc' : FC α} {req dt : α} {on al : Bool}
    (h : fcSolve k fc req dt on al = .ok fc') : FCStep fc fc' req dt := by
  unfold fcSolve at h
  simp only [bind_ok, pure_ok, ensure_ok, ite_ok, exists_const] at h
  rcases h with ⟨_, _, _, _, x, _, _, _, rfl⟩ | ⟨_, _, x, _, _, _, rfl⟩ <;> constructor <;> rfl

/-- `fcSetCurMax` touches `state.pwrOutMax` only (and the parameter `pwrOutMaxInit`) -/
theorem fcSetCurMax_frame {k : Consts α} {fc fc' : FC α} {dt : α}
    (h : fcSetCurMax k fc dt = .ok fc') :
    fc'.state.energyBrake = fc.state.energyBrake ∧ fc'.state.energyFuel = fc.state.energyFuel ∧
    fc'.state.energyLoss = fc.state.energyLoss ∧ fc'.state.energyIdleFuel = fc.state.energyIdleFuel := by
  unfold fcSetCurMax at h
  simp only [bind_ok, pure_ok, ensure_ok, exists_const] at h
  obtain ⟨_, rfl⟩ := h
  exact ⟨rfl, rfl, rfl, rfl⟩

/-! ### Generator -/

structure GenStep (g g' : Gen α) (prop aux dt : α) : Prop where
  pwrElecPropOut : g'.state.pwrElecPropOut = prop
  pwrElecAux : g'.state.pwrElecAux = aux
  pwrLoss : g'.state.pwrLoss = g'.state.pwrMechIn - (prop + aux)
  energyMechIn : g'.state.energyMechIn = g.state.energyMechIn + g'.state.pwrMechIn * dt
  energyElecPropOut : g'.state.energyElecPropOut = g.state.energyElecPropOut + g'.state.pwrElecPropOut * dt
  energyElecAux : g'.state.energyElecAux = g.state.energyElecAux + g'.state.pwrElecAux * dt
  energyLoss : g'.state.energyLoss = g.state.energyLoss + g'.state.pwrLoss * dt

theorem genReq_spec {g g' : Gen α} {prop aux dt : α}
    (h : genReq g prop aux dt = .ok g') : GenStep g g' prop aux dt := by
  unfold genReq at h
  simp only [bind_ok, pure_ok, ensure_ok, exists_const] at h
  obtain ⟨_, _, x, _, rfl⟩ := h
  constructor <;> rfl

theorem genSetCurMax_frame {g g' : Gen α} {pin aux : α}
    (h : genSetCurMax g pin aux = .ok g') :
    g'.state.energyMechIn = g.state.energyMechIn ∧
    g'.state.energyElecPropOut = g.state.energyElecPropOut ∧
    g'.state.energyElecAux = g.state.energyElecAux ∧ g'.state.energyLoss = g.state.energyLoss := by
  unfold genSetCurMax at h
  simp only [bind_ok, pure_ok] at h
  obtain ⟨_, _, _, _, rfl⟩ := h
  exact ⟨rfl, rfl, rfl, rfl⟩

/-! ### Electric drivetrain -/

structure EdrvStep (e e' : Edrv α) (req dt : α) : Prop where
  pwrMechPropOut : e'.state.pwrMechPropOut = mx req (-e.state.pwrMechRegenMax)
  pwrMechDynBrake : e'.state.pwrMechDynBrake = -(req - e'.state.pwrMechPropOut)
  dynBrake_nonneg : 0 ≤ e'.state.pwrMechDynBrake
  pwrElecPropIn : e'.state.pwrElecPropIn =
    if 0 < req then e'.state.pwrMechPropOut / e'.state.eta else e'.state.pwrMechPropOut * e'.state.eta
  pwrElecDynBrake : e'.state.pwrElecDynBrake = e'.state.pwrMechDynBrake * e'.state.eta
  pwrLoss : e'.state.pwrLoss = absv (e'.state.pwrMechPropOut - e'.state.pwrElecPropIn)
  regenMax : e'.state.pwrMechRegenMax = e.state.pwrMechRegenMax
  energyElecPropIn : e'.state.energyElecPropIn = e.state.energyElecPropIn + e'.state.pwrElecPropIn * dt
  energyMechPropOut : e'.state.energyMechPropOut = e.state.energyMechPropOut + e'.state.pwrMechPropOut * dt
  energyMechDynBrake : e'.state.energyMechDynBrake = e.state.energyMechDynBrake + e'.state.pwrMechDynBrake * dt
  energyElecDynBrake : e'.state.energyElecDynBrake = e.state.energyElecDynBrake + e'.state.pwrElecDynBrake * dt
  energyLoss : e'.state.energyLoss = e.state.energyLoss + e'.state.pwrLoss * dt

theorem edrvReq_spec {e e' : Edrv α} {req dt : α}
    (h : edrvReq e req dt = .ok e') : EdrvStep e e' req dt := by
  unfold edrvReq at h
  simp only [bind_ok, pure_ok, ensure_ok, exists_const, decide_eq_true_iff] at h
  obtain ⟨_, x, _, hd, rfl⟩ := h
  constructor <;> first | rfl | exact hd

theorem edrvSetCurMax_frame {e e' : Edrv α} {pin : α}
    (h : edrvSetCurMax e pin = .ok e') :
    e'.state.energyElecPropIn = e.state.energyElecPropIn ∧
    e'.state.energyMechPropOut = e.state.energyMechPropOut ∧
    e'.state.energyMechDynBrake = e.state.energyMechDynBrake ∧
    e'.state.energyElecDynBrake = e.state.energyElecDynBrake ∧
    e'.state.energyLoss = e.state.energyLoss ∧
    e'.state.pwrMechRegenMax = e.state.pwrMechRegenMax := by
  unfold edrvSetCurMax at h
  simp only [bind_ok, pure_ok] at h
  obtain ⟨_, _, _, _, rfl⟩ := h
  exact ⟨rfl, rfl, rfl, rfl, rfl, rfl⟩

theorem edrvSetRegenMax_frame {e e' : Edrv α} {pin : α}
    (h : edrvSetRegenMax e pin = .ok e') :
    e'.state.energyElecPropIn = e.state.energyElecPropIn ∧
    e'.state.energyMechPropOut = e.state.energyMechPropOut ∧
    e'.state.energyMechDynBrake = e.state.energyMechDynBrake ∧
    e'.state.energyElecDynBrake = e.state.energyElecDynBrake ∧
    e'.state.energyLoss = e.state.energyLoss ∧
    0 ≤ e'.state.pwrMechRegenMax := by
  unfold edrvSetRegenMax at h
  simp only [bind_ok, pure_ok, ensure_ok, exists_const, decide_eq_true_iff] at h
  obtain ⟨_, _, _, _, hr, rfl⟩ := h
  exact ⟨rfl, rfl, rfl, rfl, rfl, hr⟩

/-- the drivetrain's electrical input covers its mechanical output plus the reported loss,
    provided the regen limit is not negative and the efficiency used lies in `(0,1]` -/
theorem edrv_balance {e e' : Edrv α} {req dt : α} (s : EdrvStep e e' req dt)
    (hr : 0 ≤ e.state.pwrMechRegenMax) (h0 : 0 < e'.state.eta) (h1 : e'.state.eta ≤ 1) :
    e'.state.pwrElecPropIn = e'.state.pwrMechPropOut + e'.state.pwrLoss := by
  have hp := s.pwrMechPropOut
  rw [mx_eq_max] at hp
  rw [s.pwrLoss, absv_eq_abs, s.pwrElecPropIn]
  split_ifs with hq
  · have hpos : 0 < e'.state.pwrMechPropOut := by rw [hp]; exact lt_of_lt_of_le hq (le_max_left _ _)
    have : e'.state.pwrMechPropOut ≤ e'.state.pwrMechPropOut / e'.state.eta := by
      rw [le_div_iff₀ h0]; nlinarith
    rw [abs_of_nonpos (by linarith)]; ring
  · have hneg : e'.state.pwrMechPropOut ≤ 0 := by
      rw [hp]; exact max_le (not_lt.mp hq) (by linarith)
    have : e'.state.pwrMechPropOut ≤ e'.state.pwrMechPropOut * e'.state.eta := by nlinarith
    rw [abs_of_nonpos (by linarith)]; ring

/-! ### Reversible energy storage -/

structure ResStep (r r' : RES α) (prop aux dt : α) : Prop where
  pwrOutPropulsion : r'.state.pwrOutPropulsion = prop
  pwrAux : r'.state.pwrAux = aux
  pwrOutElectrical : r'.state.pwrOutElectrical = prop + aux
  pwrOutChemical : r'.state.pwrOutChemical =
    if 0 < r'.state.pwrOutElectrical then r'.state.pwrOutElectrical / r'.state.eta
    else r'.state.pwrOutElectrical * r'.state.eta
  pwrLoss : r'.state.pwrLoss = absv (r'.state.pwrOutChemical - r'.state.pwrOutElectrical)
  soc : r'.state.soc = r.state.soc - r'.state.pwrOutChemical * dt / r.energyCapacity
  energyCapacity : r'.energyCapacity = r.energyCapacity
  energyOutPropulsion : r'.state.energyOutPropulsion = r.state.energyOutPropulsion + r'.state.pwrOutPropulsion * dt
  energyAux : r'.state.energyAux = r.state.energyAux + r'.state.pwrAux * dt
  energyOutElectrical : r'.state.energyOutElectrical = r.state.energyOutElectrical + r'.state.pwrOutElectrical * dt
  energyOutChemical : r'.state.energyOutChemical = r.state.energyOutChemical + r'.state.pwrOutChemical * dt
  energyLoss : r'.state.energyLoss = r.state.energyLoss + r'.state.pwrLoss * dt

theorem resSolve_spec {k : Consts α} {r r' : RES α} {prop aux dt : α}
    (h : resSolve k r prop aux dt = .ok r') : ResStep r r' prop aux dt := by
  unfold resSolve at h
  simp only [bind_ok, pure_ok, ensure_ok, ite_ok, exists_const] at h
  obtain ⟨_, _, h⟩ := h
  rcases h with ⟨_, _, _, x, _, rfl⟩ | ⟨_, _, _, x, _, rfl⟩ <;> constructor <;> rfl

theorem resSetCurMax_frame {k : Consts α} {r r' : RES α} {aux cb db : α}
    (h : resSetCurMax k r aux cb db = .ok r') :
    r'.state.energyOutPropulsion = r.state.energyOutPropulsion ∧
    r'.state.energyAux = r.state.energyAux ∧
    r'.state.energyOutElectrical = r.state.energyOutElectrical ∧
    r'.state.energyOutChemical = r.state.energyOutChemical ∧
    r'.state.energyLoss = r.state.energyLoss ∧
    r'.state.soc = r.state.soc ∧ r'.energyCapacity = r.energyCapacity := by
  unfold resSetCurMax at h
  simp only [bind_ok, pure_ok] at h
  obtain ⟨_, _, _, _, rfl⟩ := h
  exact ⟨rfl, rfl, rfl, rfl, rfl, rfl, rfl⟩

theorem res_balance {r r' : RES α} {prop aux dt : α} (s : ResStep r r' prop aux dt)
    (h0 : 0 < r'.state.eta) (h1 : r'.state.eta ≤ 1) :
    r'.state.pwrOutChemical = r'.state.pwrOutElectrical + r'.state.pwrLoss := by
  rw [s.pwrLoss, absv_eq_abs, s.pwrOutChemical]
  split_ifs with hq
  · have : r'.state.pwrOutElectrical ≤ r'.state.pwrOutElectrical / r'.state.eta := by
      rw [le_div_iff₀ h0]; nlinarith
    rw [abs_of_nonneg (by linarith)]; ring
  · have hq' := not_lt.mp hq
    have : r'.state.pwrOutElectrical ≤ r'.state.pwrOutElectrical * r'.state.eta := by nlinarith
    rw [abs_of_nonneg (by linarith)]; ring

/-! ### "Nothing cumulative changed" relations (for the `set…` functions) -/

structure FCSame (a b : FC α) : Prop where
  energyBrake : b.state.energyBrake = a.state.energyBrake
  energyFuel : b.state.energyFuel = a.state.energyFuel
  energyLoss : b.state.energyLoss = a.state.energyLoss
  energyIdleFuel : b.state.energyIdleFuel = a.state.energyIdleFuel

structure GenSame (a b : Gen α) : Prop where
  energyMechIn : b.state.energyMechIn = a.state.energyMechIn
  energyElecPropOut : b.state.energyElecPropOut = a.state.energyElecPropOut
  energyElecAux : b.state.energyElecAux = a.state.energyElecAux
  energyLoss : b.state.energyLoss = a.state.energyLoss

structure EdrvSame (a b : Edrv α) : Prop where
  energyElecPropIn : b.state.energyElecPropIn = a.state.energyElecPropIn
  energyMechPropOut : b.state.energyMechPropOut = a.state.energyMechPropOut
  energyMechDynBrake : b.state.energyMechDynBrake = a.state.energyMechDynBrake
  energyElecDynBrake : b.state.energyElecDynBrake = a.state.energyElecDynBrake
  energyLoss : b.state.energyLoss = a.state.energyLoss

structure ResSame (a b : RES α) : Prop where
  energyOutPropulsion : b.state.energyOutPropulsion = a.state.energyOutPropulsion
  energyAux : b.state.energyAux = a.state.energyAux
  energyOutElectrical : b.state.energyOutElectrical = a.state.energyOutElectrical
  energyOutChemical : b.state.energyOutChemical = a.state.energyOutChemical
  energyLoss : b.state.energyLoss = a.state.energyLoss
  soc : b.state.soc = a.state.soc
  energyCapacity : b.energyCapacity = a.energyCapacity

/-- same powertrain kind, same cumulative counters (and SOC / capacity) -/
def PtSame : Powertrain α → Powertrain α → Prop
  | .conv fc g e, .conv fc' g' e' => FCSame fc fc' ∧ GenSame g g' ∧ EdrvSame e e'
  | .bel r e, .bel r' e' => ResSame r r' ∧ EdrvSame e e'
  | _, _ => False

theorem PtSame.refl (p : Powertrain α) : PtSame p p := by
  cases p <;> simp only [PtSame] <;> refine ⟨?_, ?_⟩ <;> (try refine ⟨?_, ?_⟩) <;> constructor <;> rfl

/-- `Locomotive::set_cur_pwr_max_out` keeps every cumulative counter, and leaves a non-negative
    regeneration limit behind (`= 0` asserted for conventional units, `ensure!`d for BELs). -/
theorem locoSetCurMax_frame {k : Consts α} {l l' : Loco α} {dt : α}
    (h : locoSetCurMax k l dt = .ok l') :
    PtSame l.pt l'.pt ∧ 0 ≤ l'.pt.edrv.state.pwrMechRegenMax ∧
    l'.state.energyOut = l.state.energyOut ∧ l'.state.energyAux = l.state.energyAux ∧
    l'.state.pwrAux = l.state.pwrAux ∧ l'.assertLimits = l.assertLimits := by
  unfold locoSetCurMax at h
  split at h
  · rename_i fc g e hpt
    simp only [bind_ok, pure_ok, ite_ok, Bool.not_eq_false, reduceCtorEq,
      and_false, false_or, Bool.not_eq_eq_eq_not, Bool.not_true] at h
    obtain ⟨fc', hfc, g', hg, e', he, hz, rfl⟩ := h
    have hz' := (eqb_iff _ _).mp hz
    obtain ⟨f1, f2, f3, f4⟩ := fcSetCurMax_frame hfc
    obtain ⟨g1, g2, g3, g4⟩ := genSetCurMax_frame hg
    obtain ⟨e1, e2, e3, e4, e5, _⟩ := edrvSetCurMax_frame he
    rw [hpt]
    refine ⟨⟨⟨f1, f2, f3, f4⟩, ⟨g1, g2, g3, g4⟩, ⟨e1, e2, e3, e4, e5⟩⟩, ?_, rfl, rfl, rfl, rfl⟩
    show (0 : α) ≤ e'.state.pwrMechRegenMax
    rw [hz']
  · rename_i r e hpt
    simp only [bind_ok, pure_ok] at h
    obtain ⟨r', hr, e1, he1, e2, he2, rfl⟩ := h
    obtain ⟨r1, r2, r3, r4, r5, r6, r7⟩ := resSetCurMax_frame hr
    obtain ⟨a1, a2, a3, a4, a5, _⟩ := edrvSetCurMax_frame he1
    obtain ⟨b1, b2, b3, b4, b5, hreg⟩ := edrvSetRegenMax_frame he2
    rw [hpt]
    exact ⟨⟨⟨r1, r2, r3, r4, r5, r6, r7⟩,
      ⟨b1.trans a1, b2.trans a2, b3.trans a3, b4.trans a4, b5.trans a5⟩⟩, hreg, rfl, rfl, rfl, rfl⟩

/-! ### One `solve_energy_consumption` call on a whole unit -/

/-- component-wise description of one accepted locomotive solve -/
def PtStep (req dt aux : α) (on : Bool) : Powertrain α → Powertrain α → Prop
  | .conv fc g e, .conv fc' g' e' =>
      EdrvStep e e' req dt ∧ GenStep g g' e'.state.pwrElecPropIn (if on then aux else 0) dt ∧
      0 ≤ g'.state.pwrMechIn ∧ FCStep fc fc' g'.state.pwrMechIn dt
  | .bel r e, .bel r' e' =>
      EdrvStep e e' req dt ∧
      ResStep r r' e'.state.pwrElecPropIn
        (if 0 < e'.state.pwrElecPropIn then aux
         else mx (mn aux (r.state.pwrPropOutMax - e'.state.pwrElecPropIn)) 0) dt
  | _, _ => False

theorem convSolve_spec {k : Consts α} {fc : FC α} {g : Gen α} {e : Edrv α} {req dt aux : α}
    {on al : Bool} {pt : Powertrain α}
    (h : convSolve k fc g e req dt on aux al = .ok pt) : PtStep req dt aux on (.conv fc g e) pt := by
  unfold convSolve at h
  simp only [bind_ok, pure_ok, ensure_ok, exists_const, decide_eq_true_iff] at h
  obtain ⟨e', he, g', hg, hm, fc', hf, rfl⟩ := h
  exact ⟨edrvReq_spec he, genReq_spec hg, hm, fcSolve_spec hf⟩

theorem belSolve_spec {k : Consts α} {r : RES α} {e : Edrv α} {req dt aux : α} {pt : Powertrain α}
    (h : belSolve k r e req dt aux = .ok pt) : PtStep req dt aux true (.bel r e) pt := by
  unfold belSolve at h
  simp only [bind_ok, pure_ok] at h
  obtain ⟨e', he, r', hr, rfl⟩ := h
  refine ⟨edrvReq_spec he, ?_⟩
  split_ifs at hr ⊢ with hp
  · exact resSolve_spec hr
  · exact resSolve_spec hr

/-- inversion of `locoSolve` -/
theorem locoSolve_spec {k : Consts α} {l l' : Loco α} {req dt : α} {on : Option Bool}
    (h : locoSolve k l req dt on = .ok l') :
    PtStep req dt l.state.pwrAux (on.getD true) l.pt l'.pt ∧
    l'.state.pwrOut = l'.pt.edrv.state.pwrMechPropOut - l'.pt.edrv.state.pwrMechDynBrake ∧
    l'.state.energyOut = l.state.energyOut + l'.state.pwrOut * dt ∧
    l'.state.energyAux = l.state.energyAux + l.state.pwrAux * dt ∧
    l'.state.pwrAux = l.state.pwrAux := by
  unfold locoSolve at h
  simp only [bind_ok, pure_ok] at h
  obtain ⟨pt, hpt, rfl⟩ := h
  refine ⟨?_, rfl, rfl, rfl, rfl⟩
  split at hpt
  · rename_i fc g e hl; rw [hl]; exact convSolve_spec hpt
  · rename_i r e hl; rw [hl]
    have := belSolve_spec hpt
    cases pt with
    | conv => exact this.elim
    | bel => exact this

/-- inversion of `locoSimStep`: set_aux, then set_cur_pwr_max_out, then solve -/
theorem locoSimStep_inv {k : Consts α} {l l' : Loco α} {req dt : α} {on : Option Bool}
    (h : locoSimStep k l req dt on = .ok l') :
    ∃ l1, locoSetCurMax k (locoSetAux l on) dt = .ok l1 ∧ locoSolve k l1 req dt on = .ok l' := by
  unfold locoSimStep at h
  simp only [bind_ok, pure_ok, ensure_ok, exists_const] at h
  obtain ⟨l1, h1, l2, h2, _, rfl⟩ := h
  exact ⟨l1, h1, h2⟩

/-- every accepted unit solve delivers exactly the requested wheel power -/
theorem locoSolve_pwrOut {k : Consts α} {l l' : Loco α} {req dt : α} {on : Option Bool}
    (h : locoSolve k l req dt on = .ok l') : l'.state.pwrOut = req := by
  obtain ⟨hs, ho, _⟩ := locoSolve_spec h
  rw [ho]
  rcases hl : l.pt with ⟨fc, g, e⟩ | ⟨r, e⟩ <;> rcases hl' : l'.pt with ⟨fc', g', e'⟩ | ⟨r', e'⟩ <;>
    rw [hl, hl'] at hs <;> simp only [PtStep] at hs
  · show e'.state.pwrMechPropOut - e'.state.pwrMechDynBrake = req
    rw [hs.1.pwrMechDynBrake]; ring
  · show e'.state.pwrMechPropOut - e'.state.pwrMechDynBrake = req
    rw [hs.1.pwrMechDynBrake]; ring

/-! ### Linearity of `sumLeft` (through `sumLeft l = l.sum`) -/

theorem sumLeft_map_mul_right {ι : Type} (l : List ι) (f : ι → α) (c : α) :
    sumLeft (l.map (fun x => f x * c)) = sumLeft (l.map f) * c := by
  rw [sumLeft_eq_sum, sumLeft_eq_sum]
  induction l with
  | nil => simp
  | cons x xs ih => simp only [List.map_cons, List.sum_cons, ih]; ring

theorem sumLeft_map_add {ι : Type} (l : List ι) (f g : ι → α) :
    sumLeft (l.map (fun x => f x + g x)) = sumLeft (l.map f) + sumLeft (l.map g) := by
  rw [sumLeft_eq_sum, sumLeft_eq_sum, sumLeft_eq_sum]
  induction l with
  | nil => simp
  | cons x xs ih => simp only [List.map_cons, List.sum_cons, ih]; ring

theorem sumLeft_map_congr {ι : Type} (l l' : List ι) (f : ι → α)
    (h : List.Forall₂ (fun a b => f b = f a) l l') : sumLeft (l'.map f) = sumLeft (l.map f) := by
  induction h with
  | nil => rfl
  | cons hab _ ih => simp only [List.map_cons, sumLeft_cons, ih, hab]

/-- if every element's counter `f` advanced by its power `g` times `dt`, so did the sum -/
theorem sumLeft_map_step {ι : Type} (l l' : List ι) (f g : ι → α) (dt : α)
    (h : List.Forall₂ (fun a b => f b = f a + g b * dt) l l') :
    sumLeft (l'.map f) = sumLeft (l.map f) + sumLeft (l'.map g) * dt := by
  induction h with
  | nil => simp [sumLeft_nil]
  | cons hab _ ih => simp only [List.map_cons, sumLeft_cons, ih, hab]; ring

/-! ### Consist plumbing -/

theorem mapM'_forall2 {σ τ : Type} (f : σ → Res τ) (ls : List σ) (ls' : List τ)
    (h : mapM' f ls = .ok ls') : List.Forall₂ (fun a b => f a = .ok b) ls ls' := by
  induction ls generalizing ls' with
  | nil => simp only [mapM', Res.ok.injEq] at h; subst h; exact .nil
  | cons x xs ih =>
    simp only [mapM', bind_ok, pure_ok] at h
    obtain ⟨y, hy, ys, hys, rfl⟩ := h
    exact .cons hy (ih ys hys)

/-- `solveUnits` solves unit `i` with share `i`; with as many shares as units nothing is dropped -/
theorem solveUnits_spec {k : Consts α} {dt : α} {on : Option Bool} (ls : List (Loco α)) (ps : List α)
    (ls' : List (Loco α)) (h : solveUnits k dt on ls ps = .ok ls') (hlen : ps.length = ls.length) :
    List.Forall₂ (fun l l' => ∃ p, locoSolve k l p dt on = .ok l') ls ls' ∧
    ls'.map (·.state.pwrOut) = ps := by
  induction ls generalizing ps ls' with
  | nil =>
    cases ps with
    | nil => simp only [solveUnits, Res.ok.injEq] at h; subst h; exact ⟨.nil, rfl⟩
    | cons p ps => simp at hlen
  | cons l ls ih =>
    cases ps with
    | nil => simp at hlen
    | cons p ps =>
      simp only [solveUnits, bind_ok, pure_ok] at h
      obtain ⟨l', hl', ls'', hls, rfl⟩ := h
      obtain ⟨h1, h2⟩ := ih ps ls'' hls (by simpa using hlen)
      refine ⟨.cons ⟨p, hl'⟩ h1, ?_⟩
      simp only [List.map_cons, h2, locoSolve_pwrOut hl']

theorem splitNeg_length {locos : List (Loco α)} {s : ConsistState α} {v : List α}
    (h : splitNeg locos s = .ok v) : v.length = locos.length := by
  unfold splitNeg at h
  simp only [bind_ok, pure_ok, ite_ok, ensure_ok, exists_const] at h
  obtain ⟨w, hw, rfl⟩ := h
  rcases hw with ⟨_, rfl⟩ | ⟨_, _, rfl⟩ <;> simp [regenVec]

/-- every power-split policy returns exactly one share per unit -/
theorem shares_length (k : Consts α) (locos : List (Loco α)) (pdct : Policy) (s : ConsistState α)
    (req : α) (v : List α)
    (h : (if 0 < req then
            (match pdct with
             | .proportional => pure (splitProp locos s)
             | .resGreedy => splitGreedy k locos s)
          else if req < 0 then splitNeg locos s
          else pure (locos.map (fun _ => 0))) = Res.ok v) : v.length = locos.length := by
  split_ifs at h
  · cases pdct
    · simp only [pure_ok] at h; subst h; simp [splitProp]
    · simp only [splitGreedy] at h
      split_ifs at h <;> cases h <;> simp
  · exact splitNeg_length h
  · simp only [pure_ok] at h; subst h; simp

/-- inversion of `consistSolve` -/
theorem consistSolve_inv {k : Consts α} {c c' : Consist α} {req dt : α} {on : Option Bool}
    (h : consistSolve k c req dt on = .ok c') :
    ∃ shares : List α, shares.length = c.locos.length ∧
      solveUnits k dt on c.locos shares = .ok c'.locos ∧
      c'.state.pwrOut = sumLeft shares ∧
      c'.state.pwrFuel = sumLeft (c'.locos.map pwrFuelOf) ∧
      c'.state.pwrReves = sumLeft (c'.locos.map pwrChemOf) ∧
      c'.state.energyOut = c.state.energyOut + c'.state.pwrOut * dt ∧
      c'.state.energyFuel = c.state.energyFuel + c'.state.pwrFuel * dt ∧
      c'.state.energyRes = c.state.energyRes + c'.state.pwrReves * dt ∧
      c'.state.energyOutPos =
        (if 0 ≤ c'.state.pwrOut then c.state.energyOutPos + c'.state.pwrOut * dt else c.state.energyOutPos) ∧
      c'.state.energyOutNeg =
        (if 0 ≤ c'.state.pwrOut then c.state.energyOutNeg else c.state.energyOutNeg - c'.state.pwrOut * dt) := by
  unfold consistSolve at h
  cases hal : c.assertLimits <;>
  simp only [hal, bind_ok, pure_ok, ensure_ok, exists_const, if_true, if_false, Bool.false_eq_true] at h
  · obtain ⟨x, hx, x1, hs, rfl⟩ := h
    exact ⟨x, shares_length _ _ _ _ _ _ hx, hs, rfl, rfl, rfl, rfl, rfl, rfl, rfl, rfl⟩
  · obtain ⟨_, _, x, hx, _, x1, hs, rfl⟩ := h
    exact ⟨x, shares_length _ _ _ _ _ _ hx, hs, rfl, rfl, rfl, rfl, rfl, rfl, rfl, rfl⟩

/-- inversion of `consistSimStep` -/
theorem consistSimStep_inv {k : Consts α} {c c' : Consist α} {req dt : α}
    (h : consistSimStep k c req dt = .ok c') :
    ∃ locos1 : List (Loco α) , ∃ c1 : Consist α,
      mapM' (fun l => locoSetCurMax k l dt) (c.locos.map (fun l => locoSetAux l (some true))) = .ok locos1 ∧
      c1.locos = locos1 ∧ c1.state.energyOut = c.state.energyOut ∧
      c1.state.energyFuel = c.state.energyFuel ∧ c1.state.energyRes = c.state.energyRes ∧
      c1.state.energyOutPos = c.state.energyOutPos ∧ c1.state.energyOutNeg = c.state.energyOutNeg ∧
      consistSolve k c1 req dt (some true) = .ok c' := by
  unfold consistSimStep consistSetCurMax consistSetAux at h
  simp only [bind_ok, pure_ok] at h
  obtain ⟨c1, ⟨locos1, hm, rfl⟩, hs⟩ := h
  refine ⟨locos1, _, hm, ?_, ?_, ?_, ?_, ?_, ?_, hs⟩ <;> rfl

/-! ### Per-unit facts used by the consist roll-ups -/

theorem PtSame.fuel_chem {p q : Powertrain α} (h : PtSame p q) (s t : LocoState α) (a b : Bool) (x y u v : α) :
    energyFuelOf (⟨q, t, b, u, v⟩ : Loco α) = energyFuelOf (⟨p, s, a, x, y⟩ : Loco α) ∧
    energyChemOf (⟨q, t, b, u, v⟩ : Loco α) = energyChemOf (⟨p, s, a, x, y⟩ : Loco α) := by
  cases p <;> cases q <;> simp only [PtSame] at h
  · exact ⟨h.1.energyFuel, rfl⟩
  · exact ⟨rfl, h.1.energyOutChemical⟩

theorem locoSetCurMax_rollup {k : Consts α} {l l' : Loco α} {dt : α}
    (h : locoSetCurMax k l dt = .ok l') :
    energyFuelOf l' = energyFuelOf l ∧ energyChemOf l' = energyChemOf l ∧
    l'.state.energyOut = l.state.energyOut := by
  obtain ⟨hs, _, ho, _⟩ := locoSetCurMax_frame h
  obtain ⟨pt, st, al, x, y⟩ := l
  obtain ⟨pt', st', al', x', y'⟩ := l'
  obtain ⟨h1, h2⟩ := PtSame.fuel_chem hs st st' al al' x y x' y'
  exact ⟨h1, h2, ho⟩

theorem locoSetAux_rollup (l : Loco α) (on : Option Bool) :
    energyFuelOf (locoSetAux l on) = energyFuelOf l ∧ energyChemOf (locoSetAux l on) = energyChemOf l ∧
    (locoSetAux l on).state.energyOut = l.state.energyOut := ⟨rfl, rfl, rfl⟩

theorem locoSolve_rollup {k : Consts α} {l l' : Loco α} {req dt : α} {on : Option Bool}
    (h : locoSolve k l req dt on = .ok l') :
    energyFuelOf l' = energyFuelOf l + pwrFuelOf l' * dt ∧
    energyChemOf l' = energyChemOf l + pwrChemOf l' * dt ∧
    l'.state.energyOut = l.state.energyOut + l'.state.pwrOut * dt := by
  obtain ⟨hs, _, ho, _⟩ := locoSolve_spec h
  refine ⟨?_, ?_, ho⟩ <;>
  · obtain ⟨pt, st, al, x, y⟩ := l
    obtain ⟨pt', st', al', x', y'⟩ := l'
    cases pt <;> cases pt' <;> simp only [PtStep] at hs <;>
      simp only [energyFuelOf, pwrFuelOf, energyChemOf, pwrChemOf, zero_mul, add_zero]
    first | exact hs.2.2.2.energyFuel | exact hs.2.energyOutChemical

end Altrios.Proofs.LedgerL
