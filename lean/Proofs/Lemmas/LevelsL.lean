import Altrios.Train
import Proofs.Lemmas.Basic
import Proofs.Lemmas.Ledger
import Proofs.Lemmas.Split
import Proofs.C10
import Proofs.C01
import Mathlib.Algebra.Order.Field.Basic
import Mathlib.Tactic.Linarith
import Mathlib.Tactic.Ring
import Mathlib.Tactic.SplitIfs
import Mathlib.Data.List.Basic
import Mathlib.Data.List.Forall2
/-
  Helper lemmas for C11 (power and energy agree across train, consist and locomotive levels).

    §1  the wheel-power part of one train step (`ssRequiredPwr`, `slRequiredPwr`): the demand is
        clamped to the consist's published limits, every wheel-energy counter advances by
        demand × dt; the kinematic tails (`ssIntegrate`, `setLinkAndOffset`) do not touch them
    §2  `ssStep` / `slStep` taken apart: the consist part IS one `consistSimStep` with request
        `pwrWhlOut` of the NEW train state and the train's own `dt`
    §3  the consist delivers the request (`C10_sum` with the weakest limit hypotheses) and
        re-establishes `pwrDynBrakeMax = Σ ratings`
    §4  `StepAgree`: everything one accepted train step guarantees across the three levels
    §5  generic walks (`walkG`): append, invariants, "after every non-empty walk"
-/
set_option linter.unusedSectionVars false
set_option autoImplicit false
set_option linter.unusedSimpArgs false
namespace Altrios.Proofs.LevelsL
open Altrios Altrios.Tpc Altrios.Rs Altrios.PT Altrios.CS Altrios.Tr
open Altrios.Proofs.Basic Altrios.Proofs.LedgerL Altrios.Proofs.SplitL

variable {α : Type} [Field α] [LinearOrder α] [IsStrictOrderedRing α]

/-! ## §1  Wheel power and wheel energy of one train step -/

/-- the clamp `whl = min (max x (−negMax)) posMax` keeps the demand inside the consist's published
    limits: never above `pwr_out_max`, never more braking than `max pwr_dyn_brake_max 0` -/
theorem whl_bounds (x dyn outMax y : α) (h0 : 0 ≤ mn outMax (mx 0 y)) :
    mn (mx x (-(mx dyn 0))) (mn outMax (mx 0 y)) ≤ outMax ∧
    -(mn (mx x (-(mx dyn 0))) (mn outMax (mx 0 y))) ≤ max dyn 0 := by
  simp only [mn_eq_min, mx_eq_max] at h0 ⊢
  constructor
  · exact (min_le_right _ _).trans (min_le_left _ _)
  · have h1 : -(max dyn 0) ≤ min (max x (-(max dyn 0))) (min outMax (max 0 y)) :=
      le_min (le_max_right _ _) (by linarith [le_max_right dyn 0])
    linarith

/-- what the power part of one train step does to the wheel counters: `k ↦ k'` with step size `dt`
    against the consist limits `cs` -/
structure WhlStep (cs : ConsistState α) (k k' : Kin α) (dt : α) : Prop where
  dtEq : k'.dt = dt
  energyWhlOut : k'.energyWhlOut = k.energyWhlOut + k'.pwrWhlOut * dt
  energyWhlOutPos : k'.energyWhlOutPos =
    if 0 ≤ k'.pwrWhlOut then k.energyWhlOutPos + k'.pwrWhlOut * dt else k.energyWhlOutPos
  energyWhlOutNeg : k'.energyWhlOutNeg =
    if 0 ≤ k'.pwrWhlOut then k.energyWhlOutNeg else k.energyWhlOutNeg - k'.pwrWhlOut * dt
  massFreight : k'.massFreight = k.massFreight
  le_outMax : k'.pwrWhlOut ≤ cs.pwrOutMax
  ge_brake : -k'.pwrWhlOut ≤ max cs.pwrDynBrakeMax 0

/-- the wheel counters, the demand, `dt` and the freight mass are untouched -/
structure KinSame (k k' : Kin α) : Prop where
  dtEq : k'.dt = k.dt
  pwrWhlOut : k'.pwrWhlOut = k.pwrWhlOut
  energyWhlOut : k'.energyWhlOut = k.energyWhlOut
  energyWhlOutPos : k'.energyWhlOutPos = k.energyWhlOutPos
  energyWhlOutNeg : k'.energyWhlOutNeg = k.energyWhlOutNeg
  massFreight : k'.massFreight = k.massFreight

theorem WhlStep.trans_same {cs : ConsistState α} {k k₁ k' : Kin α} {dt : α}
    (h : WhlStep cs k k₁ dt) (hs : KinSame k₁ k') : WhlStep cs k k' dt :=
  ⟨hs.dtEq.trans h.dtEq, by rw [hs.energyWhlOut, hs.pwrWhlOut]; exact h.energyWhlOut,
   by rw [hs.energyWhlOutPos, hs.pwrWhlOut]; exact h.energyWhlOutPos,
   by rw [hs.energyWhlOutNeg, hs.pwrWhlOut]; exact h.energyWhlOutNeg,
   hs.massFreight.trans h.massFreight, by rw [hs.pwrWhlOut]; exact h.le_outMax,
   by rw [hs.pwrWhlOut]; exact h.ge_brake⟩

theorem setLinkAndOffset_same {lps : List (LinkPt α)} {s s' : TrainState α}
    (h : setLinkAndOffset lps s = .ok s') : KinSame s.k s'.k := by
  unfold setLinkAndOffset at h
  simp only at h
  split_ifs at h
  split at h
  · cases h
  · cases h; exact ⟨rfl, rfl, rfl, rfl, rfl, rfl⟩

theorem ssRequiredPwr_whl {c : TrConsts α} {cs : ConsistState α} {s s' : TrainState α}
    {vPrev vCur dtI : α} (h : ssRequiredPwr c cs s vPrev vCur dtI = .ok s') :
    WhlStep cs s.k s'.k dtI := by
  unfold ssRequiredPwr at h
  simp only [bind_ok, pure_ok, ensure_ok, exists_const, decide_eq_true_iff] at h
  obtain ⟨h0, rfl⟩ := h
  obtain ⟨b1, b2⟩ := whl_bounds
    (massCompound s / (c.two * dtI) * (vCur * vCur - vPrev * vPrev) + resNet s.r * (c.half * (vCur + vPrev)))
    cs.pwrDynBrakeMax cs.pwrOutMax (s.k.pwrWhlOut + cs.pwrRateOutMax * s.k.dt) h0
  exact ⟨rfl, rfl, rfl, rfl, rfl, b1, b2⟩

theorem ssIntegrate_same {c : TrConsts α} {lps : List (LinkPt α)} {s s' : TrainState α}
    {vPrev vCur tCur : α} (h : ssIntegrate c lps s vPrev vCur tCur = .ok s') : KinSame s.k s'.k := by
  unfold ssIntegrate at h
  simp only [bind_ok, pure_ok] at h
  obtain ⟨s₂, h2, rfl⟩ := h
  have := setLinkAndOffset_same h2
  exact ⟨this.dtEq, this.pwrWhlOut, this.energyWhlOut, this.energyWhlOutPos, this.energyWhlOutNeg,
    this.massFreight⟩

theorem slRequiredPwr_whl {c : TrConsts α} {sqrt : α → α} {fmc : α} {cs : ConsistState α}
    {fb fb' : FricBrake α} {bp bp' : BrakingPoints α} {s s' : TrainState α}
    (h : slRequiredPwr c sqrt fmc cs fb bp s = .ok (fb', bp', s')) :
    WhlStep cs s.k s'.k s.k.dt := by
  unfold slRequiredPwr at h
  simp only [bind_ok, pure_ok, ensure_ok, exists_const, decide_eq_true_iff] at h
  obtain ⟨hbr, ⟨bp1, limit, target⟩, hcs, h⟩ := h
  simp only [bind_ok, pure_ok, ensure_ok, exists_const, decide_eq_true_iff] at h
  obtain ⟨hpos, h⟩ := h
  split at h
  · cases h
  simp only [bind_ok, pure_ok, ensure_ok, exists_const, decide_eq_true_iff, Prod.mk.injEq] at h
  obtain ⟨fc, hfc, h1, h2, rfl, rfl, rfl⟩ := h
  obtain ⟨b1, b2⟩ := whl_bounds (fc * _) cs.pwrDynBrakeMax cs.pwrOutMax
    (s.k.pwrWhlOut + cs.pwrRateOutMax * s.k.dt) hpos
  exact ⟨rfl, rfl, rfl, rfl, rfl, b1, b2⟩

/-! ## §2  `ssStep` / `slStep` taken apart -/

/-- `set_pwr_aux; set_cur_pwr_max_out; solve_energy_consumption` IS `ConsistSimulation::solve_step` -/
theorem consistSimStep_of {k : Consts α} {c c₁ c' : Consist α} {req dt : α}
    (h1 : consistSetCurMax k (consistSetAux c (some true)) dt = .ok c₁)
    (h2 : consistSolve k c₁ req dt (some true) = .ok c') : consistSimStep k c req dt = .ok c' := by
  unfold consistSimStep
  simp only [bind_ok]
  exact ⟨c₁, h1, h2⟩

/-- **`SetSpeedTrainSim::solve_step` taken apart.**  The consist part is: publish the limits with
    `dt = tCur − tPrev`, then solve with request `pwrWhlOut` of the NEW train state and the same
    `dt`; the train's wheel counters advance with that very `dt`. -/
theorem ssStep_levels {kc : Consts α} {c : TrConsts α} {g rho : α} {t : Tpc α} {res res' : ResStrap α}
    {con con' : Consist α} {s s' : TrainState α} {vPrev vCur tPrev tCur : α}
    (h : ssStep kc c g rho t res con s vPrev vCur tPrev tCur = .ok (con', res', s')) :
    ∃ con₁ : Consist α,
      consistSetCurMax kc (consistSetAux con (some true)) (tCur - tPrev) = .ok con₁ ∧
      consistSolve kc con₁ s'.k.pwrWhlOut (tCur - tPrev) (some true) = .ok con' ∧
      WhlStep con₁.state s.k s'.k (tCur - tPrev) := by
  unfold ssStep at h
  simp only [bind_ok, pure_ok, ensure_ok, exists_const, decide_eq_true_iff, Prod.mk.injEq] at h
  obtain ⟨hv, hvp, con₁, h1, ⟨res₁, r₁⟩, h2, h⟩ := h
  simp only [bind_ok, pure_ok, Prod.mk.injEq] at h
  obtain ⟨s₁, h3, con₂, h4, s₂, h5, rfl, rfl, rfl⟩ := h
  have hw := ssRequiredPwr_whl h3
  have hs := ssIntegrate_same h5
  refine ⟨con₁, h1, ?_, hw.trans_same hs⟩
  rw [hs.pwrWhlOut]; exact h4

/-- **`SpeedLimitTrainSim::solve_step` taken apart**: as `ssStep_levels`, with `dt = state.dt`. -/
theorem slStep_levels {kc : Consts α} {c : TrConsts α} {sqrt : α → α} {g rho : α} {t : Tpc α}
    {res res' : ResStrap α} {con con' : Consist α} {ufm : List α} {fb fb' : FricBrake α}
    {bp bp' : BrakingPoints α} {s s' : TrainState α}
    (h : slStep kc c sqrt g rho t res con ufm fb bp s = .ok (con', res', fb', bp', s')) :
    ∃ con₁ : Consist α,
      consistSetCurMax kc (consistSetAux con (some true)) s.k.dt = .ok con₁ ∧
      consistSolve kc con₁ s'.k.pwrWhlOut s.k.dt (some true) = .ok con' ∧
      WhlStep con₁.state s.k s'.k s.k.dt := by
  unfold slStep at h
  simp only [bind_ok, pure_ok, Prod.mk.injEq] at h
  obtain ⟨con₁, h1, ⟨res₁, r₁⟩, h2, h⟩ := h
  simp only [bind_ok, pure_ok, Prod.mk.injEq] at h
  obtain ⟨⟨fb₁, bp₁, s₁⟩, h3, h⟩ := h
  simp only [bind_ok, pure_ok, Prod.mk.injEq] at h
  obtain ⟨con₂, h4, s₂, h5, rfl, rfl, rfl, rfl, rfl⟩ := h
  have hw := slRequiredPwr_whl h3
  have hs := setLinkAndOffset_same h5
  refine ⟨con₁, h1, ?_, hw.trans_same hs⟩
  rw [hs.pwrWhlOut, ← hw.dtEq]; exact h4

/-! ## §3  The consist delivers the request -/

open Altrios.Proofs.C10

/-- inversion of `consistSolve` that works with limit checking on or off -/
theorem consistSolve_shares {k : Consts α} {c c' : Consist α} {req dt : α} {on : Option Bool}
    (h : consistSolve k c req dt on = .ok c') :
    (∃ shares, sharesOf k c.pdct c.locos (stepState c.state c.locos req) req = .ok shares ∧
      c'.state.pwrOut = sumLeft shares) ∧
    c'.assertLimits = c.assertLimits ∧ c'.pdct = c.pdct ∧
    c'.state.pwrDynBrakeMax = dynBrakeMax c.locos ∧
    (c.assertLimits = true → -req ≤ c.state.pwrDynBrakeMax ∧ req ≤ c.state.pwrOutMax) := by
  unfold consistSolve at h
  cases hal : c.assertLimits <;>
  simp only [hal, bind_ok, pure_ok, ensure_ok, exists_const, if_true, if_false, Bool.false_eq_true,
    decide_eq_true_iff] at h
  · obtain ⟨x, hx, x1, hs, rfl⟩ := h
    exact ⟨⟨x, hx, rfl⟩, rfl, rfl, rfl, fun h => by cases h⟩
  · obtain ⟨h1, h2, x, hx, _, x1, hs, rfl⟩ := h
    exact ⟨⟨x, hx, rfl⟩, rfl, rfl, rfl, fun _ => ⟨h1, h2⟩⟩

/-- `C10_sum` with the braking bound required only when braking (the traction and coasting
    branches never look at it) -/
theorem sum_shares (k : Consts α) (pdct : Policy) (locos : List (Loco α)) (s : ConsistState α)
    (req : α) (v : List α) (hR : RegenOK locos) (hP : Published s locos) (hS : Stepped s req)
    (hle : req ≤ s.pwrOutMax) (hbr : req < 0 → -req ≤ dynBrakeMax locos)
    (hv : sharesOf k pdct locos s req = .ok v) : sumLeft v = req := by
  by_cases hneg : req < 0
  · exact C10_sum k pdct locos s req v hR hP hS hle (hbr hneg) hv
  · unfold sharesOf at hv
    split_ifs at hv with hpos
    · cases pdct with
      | proportional =>
        cases hv
        rw [C10_sum_prop locos s hP.outMax (ne_of_gt (lt_of_lt_of_le hpos hle)), hS.reqEq]
      | resGreedy =>
        simp only at hv
        by_cases hd : s.pwrOutDeficit = 0
        · have hle' := hS.out_nodef hd
          rw [C10_sum_greedy_nodeficit k locos s v hP.reves
            (ne_of_gt (lt_of_lt_of_le hpos hle')) hd hv, hS.reqEq]
        · obtain ⟨hD, hDpos⟩ := hS.out_def hd
          have hN : s.pwrOutMaxNonReves ≠ 0 := by
            rw [hP.nonReves]; apply ne_of_gt; linarith
          rw [C10_sum_greedy_deficit k locos s v hP hN hd (by rw [hS.reqEq]; exact hD) hv,
            hS.reqEq]
    · cases hv
      rw [sumLeft_eq_sum, sum_map_zero']
      exact le_antisymm (not_lt.mp hneg) (not_lt.mp hpos)

/-- **The inner call.**  A consist whose units' regen limits and whose sums are as
    `set_cur_pwr_max_out` publishes them delivers exactly a request that is within the published
    traction limit and, when braking, within the sum of the drivetrain ratings — whether or not
    `assert_limits` is set. -/
theorem consistSolve_delivers {k : Consts α} {c c' : Consist α} {req dt : α} {on : Option Bool}
    (hR : RegenOK c.locos) (hP : Published c.state c.locos)
    (hle : req ≤ c.state.pwrOutMax) (hbr : req < 0 → -req ≤ dynBrakeMax c.locos)
    (h : consistSolve k c req dt on = .ok c') : c'.state.pwrOut = req := by
  obtain ⟨⟨shares, hsh, hout⟩, _⟩ := consistSolve_shares h
  rw [hout]
  exact sum_shares k c.pdct c.locos _ req shares hR (published_step req hP) (stepped_step _ _ _)
    hle hbr hsh

/-- `set_cur_pwr_max_out` publishes non-negative regen limits, zero on fuel-burning units -/
theorem regenOK_of_setCurMax {k : Consts α} {c c₁ : Consist α} {dt : α}
    (h : consistSetCurMax k c dt = .ok c₁) : RegenOK c₁.locos := by
  obtain ⟨hmap, _⟩ := consistSetCurMax_ok h
  intro l1 hl1
  obtain ⟨l, _, hok⟩ := forall₂_exists_left (mapM'_ok hmap) l1 hl1
  obtain ⟨_, _, g3, g4, _⟩ := locoSetCurMax_ok hok
  exact ⟨g3, g4⟩

/-- the stored brake limit does not overstate the sum of the drivetrain ratings
    (`init()` and every step store exactly that sum) -/
def DynOK (c : Consist α) : Prop := c.state.pwrDynBrakeMax ≤ dynBrakeMax c.locos

theorem dynBrakeMax_setCurMax {k : Consts α} {c c₁ : Consist α} {dt : α}
    (h : consistSetCurMax k (consistSetAux c (some true)) dt = .ok c₁) :
    dynBrakeMax c₁.locos = dynBrakeMax c.locos ∧
    c₁.state.pwrDynBrakeMax = c.state.pwrDynBrakeMax ∧ c₁.assertLimits = c.assertLimits := by
  obtain ⟨hmap, _, _, _, _, hdb, hal, _⟩ := consistSetCurMax_ok h
  refine ⟨?_, hdb, hal⟩
  unfold dynBrakeMax
  congr 1
  have e : (consistSetAux c (some true)).locos.map (fun l => l.pt.edrv.pwrOutMax)
      = c.locos.map (fun l => l.pt.edrv.pwrOutMax) := by
    unfold consistSetAux; rw [List.map_map]; rfl
  rw [← e]
  exact (map_eq_of_forall₂ ((mapM'_ok hmap).imp
    (fun l l1 hl => (locoSetCurMax_ok hl).2.2.2.2.2.2.symm))).symm

theorem dynBrakeMax_solve {k : Consts α} {c c' : Consist α} {req dt : α} {on : Option Bool}
    (h : consistSolve k c req dt on = .ok c') : dynBrakeMax c'.locos = dynBrakeMax c.locos := by
  obtain ⟨shares, hlen, hsolve, _⟩ := consistSolve_inv h
  obtain ⟨hf, _⟩ := solveUnits_spec c.locos shares c'.locos hsolve hlen
  unfold dynBrakeMax
  congr 1
  exact (map_eq_of_forall₂ (hf.imp
    (fun l l' ⟨p, hl⟩ => (locoSolve_ok hl).2.2.2.2.2.symm))).symm

/-- **One consist step as the train drives it.**  `hle`/`hbr` are what the train's clamp
    guarantees (`WhlStep.le_outMax`, `WhlStep.ge_brake`) and also what `assert_limits` checks. -/
theorem simStep_delivers {k : Consts α} {c c₁ c' : Consist α} {req dt : α}
    (h1 : consistSetCurMax k (consistSetAux c (some true)) dt = .ok c₁)
    (h2 : consistSolve k c₁ req dt (some true) = .ok c')
    (hdyn : DynOK c) (hle : req ≤ c₁.state.pwrOutMax)
    (hbr : -req ≤ max c₁.state.pwrDynBrakeMax 0) :
    c'.state.pwrOut = req ∧ c'.state.pwrDynBrakeMax = dynBrakeMax c'.locos ∧
    c'.assertLimits = c.assertLimits := by
  obtain ⟨e1, e2, e3⟩ := dynBrakeMax_setCurMax h1
  obtain ⟨_, a1, _, a3, _⟩ := consistSolve_shares h2
  refine ⟨consistSolve_delivers (regenOK_of_setCurMax h1) (published_of_setCurMax h1) hle ?_ h2,
    by rw [a3, dynBrakeMax_solve h2], a1.trans e3⟩
  intro hneg
  rw [e1]
  unfold DynOK at hdyn
  rcases le_total c₁.state.pwrDynBrakeMax 0 with h0 | h0
  · rw [max_eq_right h0] at hbr; linarith
  · rw [max_eq_left h0, e2] at hbr; linarith

/-! ## §4  One train step seen from all three levels -/

open Altrios.Proofs.C01 in
/-- everything C11 says about one accepted train step `(k, con) ↦ (k', con')`
    (`k`, `k'` the `Kin` part of the train state before and after) -/
structure StepAgree (kc : Consts α) (con con' : Consist α) (k k' : Kin α) : Prop where
  /-- the consist went through exactly one `ConsistSimulation::solve_step` with the train's demand
      and the train's own (saved) step size -/
  simStep : consistSimStep kc con k'.pwrWhlOut k'.dt = .ok con'
  /-- train demand = consist delivery -/
  pwr : con'.state.pwrOut = k'.pwrWhlOut
  /-- … = Σ over the locomotives -/
  pwrSum : con'.state.pwrOut = sumLeft (con'.locos.map (·.state.pwrOut))
  whl : k'.energyWhlOut = k.energyWhlOut + k'.pwrWhlOut * k'.dt
  eOut : k'.energyWhlOut - k.energyWhlOut = con'.state.energyOut - con.state.energyOut
  eUnits : con'.state.energyOut - con.state.energyOut =
    sumLeft (con'.locos.map (·.state.energyOut)) - sumLeft (con.locos.map (·.state.energyOut))
  ePos : k'.energyWhlOutPos - k.energyWhlOutPos = con'.state.energyOutPos - con.state.energyOutPos
  eNeg : k'.energyWhlOutNeg - k.energyWhlOutNeg = con'.state.energyOutNeg - con.state.energyOutNeg
  /-- the sign split: the whole increment goes to the positive part iff the power is `≥ 0` -/
  ePosNeg : (0 ≤ k'.pwrWhlOut → k'.energyWhlOutPos - k.energyWhlOutPos = k'.pwrWhlOut * k'.dt ∧
      k'.energyWhlOutNeg = k.energyWhlOutNeg) ∧
    (k'.pwrWhlOut < 0 → k'.energyWhlOutNeg - k.energyWhlOutNeg = -(k'.pwrWhlOut * k'.dt) ∧
      k'.energyWhlOutPos = k.energyWhlOutPos)
  defects : consistDefects con' = consistDefects con
  dyn : con'.state.pwrDynBrakeMax = dynBrakeMax con'.locos
  assertLimits : con'.assertLimits = con.assertLimits
  massFreight : k'.massFreight = k.massFreight
  length : con'.locos.length = con.locos.length

open Altrios.Proofs.C01 in
theorem stepAgree_of {kc : Consts α} {con con₁ con' : Consist α} {k k' : Kin α} {dt : α}
    (h1 : consistSetCurMax kc (consistSetAux con (some true)) dt = .ok con₁)
    (h2 : consistSolve kc con₁ k'.pwrWhlOut dt (some true) = .ok con')
    (hw : WhlStep con₁.state k k' dt) (hdyn : DynOK con) : StepAgree kc con con' k k' := by
  have hsim := consistSimStep_of h1 h2
  obtain ⟨hp, hd, ha⟩ := simStep_delivers h1 h2 hdyn hw.le_outMax hw.ge_brake
  obtain ⟨c1, hs, e1, _, _, e4, e5, hf1, hf2⟩ := consistSimStep_units hsim
  obtain ⟨_, _, _, _, _, _, heo, _, _, hpos, hneg⟩ := consistSolve_inv hs
  obtain ⟨_, _, _, hsum, _⟩ := C01_consist_rollup kc c1 con' _ dt (some true) hs
  have hdef := C01_consist_step kc con con' _ dt hsim
  have h3 : con'.state.energyOut - sumLeft (con'.locos.map (·.state.energyOut)) =
      con.state.energyOut - sumLeft (con.locos.map (·.state.energyOut)) := by
    have := congrArg (fun l => l[2]?) hdef
    simpa [consistDefects] using this
  rw [hp] at heo hpos hneg
  have w1 := hw.energyWhlOut
  have w2 := hw.energyWhlOutPos
  have w3 := hw.energyWhlOutNeg
  rw [e1] at heo; rw [e4] at hpos; rw [e5] at hneg
  refine ⟨by rw [hw.dtEq]; exact hsim, hp, hsum, by rw [hw.dtEq]; exact w1, by rw [heo, w1]; ring,
    by linarith, ?_, ?_, ⟨?_, ?_⟩, hdef, hd, ha, hw.massFreight, ?_⟩
  · rw [hpos, w2]; split_ifs <;> ring
  · rw [hneg, w3]; split_ifs <;> ring
  · intro h0
    rw [w2, w3, if_pos h0, if_pos h0, hw.dtEq]
    exact ⟨by ring, rfl⟩
  · intro h0
    rw [w2, w3, if_neg (not_le.mpr h0), if_neg (not_le.mpr h0), hw.dtEq]
    exact ⟨by ring, rfl⟩
  · rw [← hf2.length_eq, ← hf1.length_eq]

/-! ## §5  Generic walks (`walk()` = left fold of `solve_step` over the step inputs) -/

/-- run `step` over the inputs in order; the first rejected step aborts the run -/
def walkG {σ ι : Type} (step : σ → ι → Res σ) : σ → List ι → Res σ
  | st, [] => .ok st
  | st, i :: is => step st i >>= fun st' => walkG step st' is

theorem walkG_append {σ ι : Type} (step : σ → ι → Res σ) (st fin : σ) (pre post : List ι) :
    walkG step st (pre ++ post) = .ok fin ↔
      ∃ mid, walkG step st pre = .ok mid ∧ walkG step mid post = .ok fin := by
  induction pre generalizing st with
  | nil => simp [walkG]
  | cons i is ih =>
    simp only [List.cons_append, walkG, bind_ok, ih]
    constructor
    · rintro ⟨s1, h1, mid, h2, h3⟩; exact ⟨mid, ⟨s1, h1, h2⟩, h3⟩
    · rintro ⟨mid, ⟨s1, h1, h2⟩, h3⟩; exact ⟨s1, h1, mid, h2, h3⟩

/-- an invariant of every accepted step is an invariant of every accepted walk -/
theorem walkG_invariant {σ ι : Type} {step : σ → ι → Res σ} (Inv : σ → Prop)
    (hstep : ∀ st i st', Inv st → step st i = .ok st' → Inv st')
    {st st' : σ} {is : List ι} (h0 : Inv st) (h : walkG step st is = .ok st') : Inv st' := by
  induction is generalizing st with
  | nil => simp only [walkG, Res.ok.injEq] at h; rw [← h]; exact h0
  | cons i is ih =>
    simp only [walkG, bind_ok] at h
    obtain ⟨s1, h1, h2⟩ := h
    exact ih (hstep st i s1 h0 h1) h2

/-- what every accepted step establishes holds after every NON-EMPTY accepted walk -/
theorem walkG_last {σ ι : Type} {step : σ → ι → Res σ} (Inv P : σ → Prop)
    (hstep : ∀ st i st', Inv st → step st i = .ok st' → Inv st')
    (hP : ∀ st i st', Inv st → step st i = .ok st' → P st')
    {st st' : σ} {is : List ι} (h0 : Inv st) (hne : is ≠ [])
    (h : walkG step st is = .ok st') : P st' := by
  rcases List.eq_nil_or_concat is with rfl | ⟨pre, i, rfl⟩
  · exact absurd rfl hne
  · rw [List.concat_eq_append] at h
    obtain ⟨mid, h1, h2⟩ := (walkG_append step st st' pre [i]).mp h
    have hm := walkG_invariant Inv hstep h0 h1
    simp only [walkG, bind_ok, Res.ok.injEq, exists_eq_right] at h2
    exact hP mid i st' hm h2

end Altrios.Proofs.LevelsL
