import Altrios.Powertrain
import Altrios.Consist
import Proofs.Lemmas.Basic
import Mathlib.Algebra.Order.Field.Basic
import Mathlib.Tactic.Linarith
import Mathlib.Tactic.Ring
import Mathlib.Tactic.FieldSimp
import Mathlib.Tactic.Positivity
import Mathlib.Tactic.SplitIfs
import Mathlib.Tactic.NormNum
import Mathlib.Algebra.Order.BigOperators.Group.List
/-
  Helper lemmas for C09 ("accepted steps respect ratings, transient limits, ramp rate and the
  SOC window"):
    * the `Res` monad (`bind_eq_ok`, `ensure_eq_ok`) and the tolerant comparisons as `Prop`s,
    * `interp1d` on a TWO-POINT map, fully evaluated (the battery derating ramps),
    * inversion lemmas "`f … = .ok new` ⇒ every `ensure!` held and `new` is this record" for
      the powertrain components, the two locomotive types and the consist,
    * the arithmetic core of the SOC-window argument.
-/
set_option linter.unusedSectionVars false
namespace Altrios.Proofs.LimitsL
open Altrios Altrios.Interp Altrios.PT Altrios.CS Altrios.Proofs.Basic

variable {α : Type} [Field α] [LinearOrder α] [IsStrictOrderedRing α]

/-! ### The `Res` monad -/

theorem bind_eq_ok {σ τ : Type} (r : Res σ) (f : σ → Res τ) (y : τ) :
    (r >>= f) = .ok y ↔ ∃ x, r = .ok x ∧ f x = .ok y := by
  cases r <;> simp [bind, Res.bind]

theorem pure_eq_ok {σ : Type} (x y : σ) : (pure x : Res σ) = .ok y ↔ x = y := by
  simp [pure]

theorem ensure_eq_ok (c : Bool) (tag : String) (u : Unit) :
    ensure c tag = .ok u ↔ c = true := by
  unfold ensure; cases c <;> simp

theorem isOk_iff {σ : Type} (r : Res σ) : r.isOk = true ↔ ∃ s, r = .ok s := by
  cases r <;> simp [Res.isOk]

/-- two chained calls both succeeded (used to build non-vacuity witnesses by evaluation) -/
theorem isOk_bind {σ τ : Type} {r : Res σ} {f : σ → Res τ} (h : (r >>= f).isOk = true) :
    ∃ x y, r = .ok x ∧ f x = .ok y := by
  obtain ⟨y, hy⟩ := (isOk_iff _).mp h
  obtain ⟨x, hx, hf⟩ := (bind_eq_ok _ _ _).mp hy
  exact ⟨x, y, hx, hf⟩

/-! ### The tolerant comparisons, as propositions (literal: strict, two branches) -/

/-- `utils::almost_le(a, b, tol)` as a proposition: `a < b·(1+tol) ∨ a < b + tol`. -/
def AlmostLe (a b tol : α) : Prop := a < b * (1 + tol) ∨ a < b + tol

/-- `utils::almost_ge(a, b, tol)` as a proposition: `a > b·(1−tol) ∨ a > b − tol`. -/
def AlmostGe (a b tol : α) : Prop := b * (1 - tol) < a ∨ b - tol < a

theorem almostLe_iff (a b tol : α) : almostLe a b tol = true ↔ AlmostLe a b tol := by
  unfold almostLe AlmostLe
  simp only [Bool.or_eq_true, decide_eq_true_iff]

theorem almostGe_iff (a b tol : α) : almostGe a b tol = true ↔ AlmostGe a b tol := by
  unfold almostGe AlmostGe
  simp only [Bool.or_eq_true, decide_eq_true_iff]

/-- what `AlmostLe` gives for a non-negative limit: at most the relative PLUS the absolute slack -/
theorem AlmostLe.lt_add {a b tol : α} (h : AlmostLe a b tol) (hb : 0 ≤ b) (ht : 0 ≤ tol) :
    a < b * (1 + tol) + tol := by
  rcases h with h | h
  · linarith
  · nlinarith [mul_nonneg hb ht]

/-- what `AlmostGe a (-c)` gives for a non-negative limit `c`: `-a < c + tol`
    (the relative branch is the TIGHTER one on the negative side) -/
theorem AlmostGe.neg_lt_add {a c tol : α} (h : AlmostGe a (-c) tol) (hc : 0 ≤ c) (ht : 0 ≤ tol) :
    -a < c + tol := by
  rcases h with h | h
  · nlinarith [mul_nonneg hc ht]
  · linarith

/-! ### `interp1d` on a two-point map -/

theorem mean_two (ya yb : α) : mean [ya, yb] = (ya + yb) / 2 := by
  simp only [mean, sumLeft, lenA, List.foldl_cons, List.foldl_nil, zero_add]
  norm_num

theorem half_eq_left (ya yb : α) : ya = (ya + yb) / 2 ↔ ya = yb := by
  constructor
  · intro h; linarith
  · intro h; subst h; ring

theorem all_eqb_mean_two (ya yb : α) :
    ([ya, yb].all (fun y => eqb y (mean [ya, yb]))) = decide (ya = yb) := by
  rw [mean_two]
  simp only [List.all_cons, List.all_nil, Bool.and_true]
  by_cases h : ya = yb
  · subst h
    have : (ya + ya) / 2 = ya := by ring
    simp [this, (eqb_iff ya ya).mpr rfl]
  · have h1 : eqb ya ((ya + yb) / 2) = false := by
      rw [eqb_false_iff]; intro h'; exact h ((half_eq_left ya yb).mp h')
    simp [h1, h]

/-- `interp1d` on a two-point map, fully evaluated: constant map ⇒ that constant (whatever the
    grid); degenerate grid ⇒ `Err`; a DECREASING grid with the query strictly inside ⇒ the
    `while x > x_data[i+1]` search runs off the end (index panic); otherwise the clamped line. -/
theorem interp1d_two (x a b ya yb : α) :
    interp1d x [a, b] [ya, yb] =
      if ya = yb then .ok ya
      else if a = b then .err "all-x-equal"
      else if x < a ∧ b < x then .panic "index"
      else .ok ((if b < x then (if x < a then ya else yb) else ya) +
            ((if x < a then ya else yb) - (if b < x then (if x < a then ya else yb) else ya))
              / (b - a) * (x - a)) := by
  unfold interp1d
  simp only [all_eqb_mean_two]
  by_cases hy : ya = yb
  · subst hy
    have : mean [ya, ya] = ya := by rw [mean_two]; ring
    simp [this]
  · simp only [hy, decide_false, Bool.false_eq_true, if_false]
    by_cases hx : a = b
    · simp [hx]
    · simp only [hx, decide_false, Bool.false_eq_true, if_false]
      simp only [List.length_cons, List.length_nil, getA, scan]
      by_cases h1 : a ≤ x
      · have : ¬ x < a := not_lt.mpr h1
        simp [h1, this, bind, Res.bind, pure]
      · have h1' : x < a := not_le.mp h1
        by_cases h2 : b < x
        · simp [h1, h1', h2, bind, Res.bind]
        · simp [h1, h1', h2, bind, Res.bind, pure]

/-- a constant two-point map returns the constant for every query and every grid -/
theorem interp1d_const_two (x : α) (xs : List α) (c : α) : interp1d x xs [c, c] = .ok c := by
  unfold interp1d
  have : mean [c, c] = c := by rw [mean_two]; ring
  simp [this, (eqb_iff c c).mpr rfl]

/-- degenerate grid with a non-constant map: `Err` -/
theorem interp1d_two_degenerate (x a ya yb : α) (hy : ya ≠ yb) :
    interp1d x [a, a] [ya, yb] = .err "all-x-equal" := by
  rw [interp1d_two, if_neg hy, if_pos rfl]

/-- decreasing grid, query strictly inside: index panic -/
theorem interp1d_two_decreasing_panic (x a b ya yb : α) (hy : ya ≠ yb) (h1 : b < x) (h2 : x < a) :
    interp1d x [a, b] [ya, yb] = .panic "index" := by
  rw [interp1d_two, if_neg hy, if_neg (ne_of_gt (h1.trans h2)), if_pos ⟨h2, h1⟩]

/-- increasing grid: the exact clamped-linear formula (in the form the code computes it) -/
theorem interp1d_two_lt (x a b ya yb : α) (hab : a < b) :
    interp1d x [a, b] [ya, yb] =
      .ok (if x ≤ a then ya else if b ≤ x then yb else ya + (yb - ya) / (b - a) * (x - a)) := by
  have hne : a ≠ b := ne_of_lt hab
  have hba : b - a ≠ 0 := sub_ne_zero.mpr (ne_of_gt hab)
  rw [interp1d_two]
  by_cases hy : ya = yb
  · subst hy; simp
  · rw [if_neg hy, if_neg hne, if_neg (fun h => absurd (h.2.trans h.1) (not_lt.mpr hab.le))]
    congr 1
    by_cases h1 : x < a
    · have : ¬ b < x := not_lt.mpr ((h1.trans hab).le)
      simp [h1, h1.le, this]
    · have h1' : a ≤ x := not_lt.mp h1
      by_cases h2 : b < x
      · have : ¬ x ≤ a := not_le.mpr (hab.trans h2)
        simp [h1, h2, this, h2.le]
      · have h2' : x ≤ b := not_lt.mp h2
        by_cases h3 : x ≤ a
        · have : x = a := le_antisymm h3 h1'
          subst this; simp [h2]
        · by_cases h4 : b ≤ x
          · have : x = b := le_antisymm h2' h4
            subst this
            simp only [h1, h2, h3, if_false, le_refl, if_true]
            field_simp
            ring
          · simp [h1, h2, h3, h4]

/-- a point of the segment `ya + (yb-ya)/(b-a)·(x-a)`, `a ≤ x ≤ b`, lies between the end values -/
theorem seg_range (x a b ya yb : α) (hab : a < b) (h1 : a ≤ x) (h2 : x ≤ b) :
    min ya yb ≤ ya + (yb - ya) / (b - a) * (x - a) ∧
    ya + (yb - ya) / (b - a) * (x - a) ≤ max ya yb := by
  have hba : 0 < b - a := sub_pos.mpr hab
  have e : ya + (yb - ya) / (b - a) * (x - a) = ya + (yb - ya) * ((x - a) / (b - a)) := by
    field_simp
  have t0 : 0 ≤ (x - a) / (b - a) := div_nonneg (sub_nonneg.mpr h1) hba.le
  have t1 : (x - a) / (b - a) ≤ 1 := by rw [div_le_one hba]; linarith
  rw [e]
  rcases le_total ya yb with hy | hy
  · rw [min_eq_left hy, max_eq_right hy]
    constructor <;> nlinarith [mul_nonneg (sub_nonneg.mpr hy) t0,
      mul_nonneg (sub_nonneg.mpr hy) (sub_nonneg.mpr t1)]
  · rw [min_eq_right hy, max_eq_left hy]
    constructor <;> nlinarith [mul_nonneg (sub_nonneg.mpr hy) t0,
      mul_nonneg (sub_nonneg.mpr hy) (sub_nonneg.mpr t1)]

/-- **two-point `interp1d` never leaves the range of its values** (no hypothesis on the grid: a
    degenerate grid gives `Err`/a constant, a decreasing one a clamp value or a panic). -/
theorem interp1d_two_range (x a b ya yb v : α) (h : interp1d x [a, b] [ya, yb] = .ok v) :
    min ya yb ≤ v ∧ v ≤ max ya yb := by
  rw [interp1d_two] at h
  by_cases hy : ya = yb
  · rw [if_pos hy] at h; cases h; subst hy; simp
  · rw [if_neg hy] at h
    by_cases hx : a = b
    · rw [if_pos hx] at h; cases h
    · rw [if_neg hx] at h
      by_cases hp : x < a ∧ b < x
      · rw [if_pos hp] at h; cases h
      · rw [if_neg hp] at h
        rcases lt_or_gt_of_ne hx with hab | hab
        · -- increasing grid: use the closed formula
          have := interp1d_two_lt x a b ya yb hab
          rw [interp1d_two, if_neg hy, if_neg hx, if_neg hp] at this
          rw [this] at h
          cases h
          split_ifs with c1 c2
          · exact ⟨min_le_left _ _, le_max_left _ _⟩
          · exact ⟨min_le_right _ _, le_max_right _ _⟩
          · exact seg_range x a b ya yb hab (not_le.mp c1).le (not_le.mp c2).le
        · -- decreasing grid, query outside `(b, a)`: a clamp value
          cases h
          by_cases h1 : x < a
          · have h2 : ¬ b < x := fun h2 => hp ⟨h1, h2⟩
            simp only [h1, h2, if_true, if_false, sub_self, zero_div, zero_mul, add_zero]
            exact ⟨min_le_left _ _, le_max_left _ _⟩
          · have h2 : b < x := lt_of_lt_of_le hab (not_lt.mp h1)
            simp only [h1, h2, if_true, if_false, sub_self, zero_div, zero_mul, add_zero]
            exact ⟨min_le_right _ _, le_max_right _ _⟩

/-! ### Inversion lemmas: what an `Ok` outcome of each component call means -/

/-- the `simp` set that turns `do`-block `= .ok _` hypotheses into conjunctions -/
macro "res_inv" " at " h:ident : tactic =>
  `(tactic| simp only [Bool.false_eq_true, if_false, if_true, bind_eq_ok, ensure_eq_ok, pure_eq_ok,
      exists_and_left, exists_const, decide_eq_true_iff, Bool.and_eq_true, Bool.or_eq_true,
      mx_eq_max, mn_eq_min, absv_eq_abs] at $h:ident)

theorem fcSetCurMax_ok {k : Consts α} {fc fc' : FC α} {dt : α}
    (h : fcSetCurMax k fc dt = .ok fc') :
    0 < dt ∧ fc' = { fc with
      pwrOutMaxInit := max fc.pwrOutMaxInit (fc.pwrOutMax / k.ten),
      state := { fc.state with
        pwrOutMax := max (min (fc.state.pwrBrake + fc.pwrOutMax / fc.pwrRampLag * dt) fc.pwrOutMax)
                      (max fc.pwrOutMaxInit (fc.pwrOutMax / k.ten)) } } := by
  unfold fcSetCurMax at h
  res_inv at h
  exact ⟨h.1, h.2.symm⟩

theorem fcSolve_ok {k : Consts α} {fc fc' : FC α} {req dt : α} {on lim : Bool}
    (h : fcSolve k fc req dt on lim = .ok fc') :
    (lim = true → almostLe req fc.pwrOutMax k.tol = true ∧
                  almostLe req fc.state.pwrOutMax k.tol = true) ∧
    0 ≤ req ∧ fc'.state.pwrBrake = req ∧ fc'.pwrOutMax = fc.pwrOutMax ∧
    fc'.state.pwrOutMax = fc.state.pwrOutMax ∧ fc'.pwrOutMaxInit = fc.pwrOutMaxInit ∧
    fc'.pwrRampLag = fc.pwrRampLag := by
  unfold fcSolve at h
  cases lim
  · res_inv at h
    obtain ⟨h0, _, _, _, _, rfl⟩ := h
    exact ⟨by simp, h0, rfl, rfl, rfl, rfl, rfl⟩
  · res_inv at h
    obtain ⟨h1, h2, h0, _, _, _, _, rfl⟩ := h
    exact ⟨fun _ => ⟨h1, h2⟩, h0, rfl, rfl, rfl, rfl, rfl⟩

theorem genReq_ok {g g' : Gen α} {prop aux dt : α} (h : genReq g prop aux dt = .ok g') :
    0 ≤ prop ∧ prop + aux ≤ g.pwrOutMax ∧ g'.state.pwrElecPropOut = prop ∧
    g'.state.pwrElecAux = aux ∧ g'.pwrOutMax = g.pwrOutMax := by
  unfold genReq at h
  res_inv at h
  obtain ⟨h0, h1, _, _, rfl⟩ := h
  exact ⟨h0, h1, rfl, rfl, rfl⟩

theorem edrvReq_ok {e e' : Edrv α} {req dt : α} (h : edrvReq e req dt = .ok e') :
    req ≤ e.pwrOutMax ∧ e'.pwrOutMax = e.pwrOutMax ∧ e'.state.pwrOutReq = req ∧
    e'.state.pwrMechPropOut = max req (-e.state.pwrMechRegenMax) ∧
    e'.state.pwrMechDynBrake = -(req - max req (-e.state.pwrMechRegenMax)) ∧
    0 ≤ e'.state.pwrMechDynBrake ∧
    e'.state.pwrMechRegenMax = e.state.pwrMechRegenMax ∧
    e'.state.pwrMechOutMax = e.state.pwrMechOutMax := by
  unfold edrvReq at h
  res_inv at h
  obtain ⟨h0, _, _, h1, rfl⟩ := h
  exact ⟨h0, rfl, rfl, rfl, rfl, h1, rfl, rfl⟩

/-- the full record an accepted battery step produces, with every `ensure!` it passed -/
theorem resSolve_ok {k : Consts α} {r r' : RES α} {prop aux dt : α}
    (h : resSolve k r prop aux dt = .ok r') :
    (r.state.soc ≤ r.state.maxSoc ∨ 0 ≤ prop) ∧ (r.state.minSoc ≤ r.state.soc ∨ prop ≤ 0) ∧
    (0 ≤ prop + aux → almostLe (prop + aux) r.pwrOutMax k.tol = true ∧
                      almostLe (prop + aux) r.state.pwrDischMax k.tol = true) ∧
    (prop + aux < 0 → almostGe (prop + aux) (-r.pwrOutMax) k.tol = true ∧
                      almostGe (prop + aux) (-r.state.pwrChargeMax) k.tol = true) ∧
    ∃ eta, interp3d r.state.temperature r.state.soc ((prop + aux) / r.capWh)
              r.gridT r.gridSoc r.gridC r.etaVals = .ok eta ∧
      r' = { r with state := { r.state with
        pwrOutPropulsion := prop, pwrAux := aux, pwrOutElectrical := prop + aux, eta := eta,
        pwrOutChemical := (if 0 < prop + aux then (prop + aux) / eta else (prop + aux) * eta),
        pwrLoss := |(if 0 < prop + aux then (prop + aux) / eta else (prop + aux) * eta) - (prop + aux)|,
        energyOutPropulsion := r.state.energyOutPropulsion + prop * dt,
        energyAux := r.state.energyAux + aux * dt,
        energyOutElectrical := r.state.energyOutElectrical + (prop + aux) * dt,
        energyOutChemical := r.state.energyOutChemical +
          (if 0 < prop + aux then (prop + aux) / eta else (prop + aux) * eta) * dt,
        energyLoss := r.state.energyLoss +
          |(if 0 < prop + aux then (prop + aux) / eta else (prop + aux) * eta) - (prop + aux)| * dt,
        soc := r.state.soc -
          (if 0 < prop + aux then (prop + aux) / eta else (prop + aux) * eta) * dt / r.energyCapacity } } := by
  unfold resSolve at h
  by_cases he : 0 ≤ prop + aux
  · simp only [he, if_true] at h
    res_inv at h
    obtain ⟨g1, g2, l1, l2, eta, h3, rfl⟩ := h
    refine ⟨g1, g2, fun _ => ⟨l1, l2⟩, fun hn => absurd he (not_le.mpr hn), eta, ?_, rfl⟩
    revert h3
    cases interp3d r.state.temperature r.state.soc ((prop + aux) / r.capWh)
      r.gridT r.gridSoc r.gridC r.etaVals <;> simp
  · simp only [he, if_false] at h
    res_inv at h
    obtain ⟨g1, g2, l1, l2, eta, h3, rfl⟩ := h
    refine ⟨g1, g2, fun hp => absurd hp he, fun _ => ⟨l1, l2⟩, eta, ?_, rfl⟩
    revert h3
    cases interp3d r.state.temperature r.state.soc ((prop + aux) / r.capWh)
      r.gridT r.gridSoc r.gridC r.etaVals <;> simp

/-! ### Battery limits: the four SOC knots `resSetCurMax` publishes -/

/-- `soc_hi_ramp_start.unwrap_or(max_soc - 0.05)` -/
def resHi (k : Consts α) (r : RES α) : α :=
  match r.socHiRampStart with | some v => v | none => r.maxSoc - k.c005
/-- `soc_lo_ramp_start.unwrap_or(min_soc + 0.05)` -/
def resLo (k : Consts α) (r : RES α) : α :=
  match r.socLoRampStart with | some v => v | none => r.minSoc + k.c005
/-- published `state.soc_lo_ramp_start` (`cb` = charge buffer, 0 for locomotives) -/
def sLo (k : Consts α) (r : RES α) (cb : α) : α := min (resLo k r + cb / r.energyCapacity) r.maxSoc
/-- published `state.min_soc` -/
def sMin (r : RES α) (cb : α) : α := min (r.minSoc + cb / r.energyCapacity) r.maxSoc
/-- published `state.soc_hi_ramp_start` (`db` = discharge buffer) -/
def sHi (k : Consts α) (r : RES α) (db : α) : α := max (resHi k r - db / r.energyCapacity) r.minSoc
/-- published `state.max_soc` -/
def sMax (r : RES α) (db : α) : α := max (r.maxSoc - db / r.energyCapacity) r.minSoc

theorem resSetCurMax_ok {k : Consts α} {r r' : RES α} {aux cb db : α}
    (h : resSetCurMax k r aux cb db = .ok r') :
    ∃ d c, interp1d r.state.soc [sMin r cb, sLo k r cb] [0, r.pwrOutMax] = .ok d ∧
      interp1d r.state.soc [sHi k r db, sMax r db] [r.pwrOutMax, 0] = .ok c ∧
      r' = { r with
        socHiRampStart := some (resHi k r), socLoRampStart := some (resLo k r),
        state := { r.state with
          socLoRampStart := sLo k r cb, minSoc := sMin r cb,
          socHiRampStart := sHi k r db, maxSoc := sMax r db,
          pwrDischMax := d, pwrChargeMax := c,
          pwrPropOutMax := d - aux, pwrRegenOutMax := c + aux } } := by
  unfold resSetCurMax at h
  res_inv at h
  obtain ⟨d, hd, c, hc, rfl⟩ := h
  exact ⟨d, c, hd, hc, rfl⟩

/-- conversely: if both ramps evaluate, the call is accepted (so the `Ok` hypothesis of the
    limit theorems is exactly "both interpolations succeed") -/
theorem resSetCurMax_of_interp {k : Consts α} {r : RES α} {aux cb db d c : α}
    (hd : interp1d r.state.soc [sMin r cb, sLo k r cb] [0, r.pwrOutMax] = .ok d)
    (hc : interp1d r.state.soc [sHi k r db, sMax r db] [r.pwrOutMax, 0] = .ok c) :
    (resSetCurMax k r aux cb db).isOk = true := by
  unfold resSetCurMax
  simp only [mx_eq_max, mn_eq_min]
  unfold sMin sLo resLo at hd
  unfold sHi sMax resHi at hc
  cases h1 : r.socLoRampStart <;> cases h2 : r.socHiRampStart <;>
    simp only [h1, h2] at hd hc ⊢ <;>
    simp only [hd, hc, bind, Res.bind, pure, Res.isOk]

/-! ### Drivetrain / generator limit setters -/

theorem edrvSetCurMax_ok {e e' : Edrv α} {pin : α} (h : edrvSetCurMax e pin = .ok e') :
    ∃ cache eta, e' = { e with
      inFracInterp := cache,
      state := { e.state with pwrMechOutMax := min e.pwrOutMax (pin * eta) } } := by
  unfold edrvSetCurMax at h
  res_inv at h
  obtain ⟨cache, _, eta, _, rfl⟩ := h
  exact ⟨cache, eta, rfl⟩

theorem edrvSetRegenMax_ok {e e' : Edrv α} {rin : α} (h : edrvSetRegenMax e rin = .ok e') :
    ∃ cache eta, 0 ≤ min (rin * eta) e.pwrOutMax ∧ e' = { e with
      inFracInterp := cache,
      state := { e.state with pwrMechRegenMax := min (rin * eta) e.pwrOutMax } } := by
  unfold edrvSetRegenMax at h
  res_inv at h
  obtain ⟨cache, _, eta, _, h0, rfl⟩ := h
  exact ⟨cache, eta, h0, rfl⟩

theorem genSetCurMax_ok {g g' : Gen α} {pin aux : α} (h : genSetCurMax g pin aux = .ok g') :
    ∃ cache eta, g' = { g with
      inFracInterp := cache,
      state := { g.state with
        pwrElecOutMax := min (pin * eta) g.pwrOutMax,
        pwrElecPropOutMax := min (pin * eta) g.pwrOutMax - aux } } := by
  unfold genSetCurMax at h
  res_inv at h
  obtain ⟨cache, _, eta, _, rfl⟩ := h
  exact ⟨cache, eta, rfl⟩

/-! ### Locomotive: `set_cur_pwr_max_out` -/

/-- Conventional unit: what an accepted `locoSetCurMax` did. -/
theorem locoSetCurMax_conv_ok {k : Consts α} {l l' : Loco α} {dt : α} {fc : FC α} {gen : Gen α}
    {edrv : Edrv α} (hpt : l.pt = .conv fc gen edrv) (h : locoSetCurMax k l dt = .ok l') :
    ∃ fc' gen' edrv', l'.pt = .conv fc' gen' edrv' ∧
      fcSetCurMax k fc dt = .ok fc' ∧
      edrv'.pwrOutMax = edrv.pwrOutMax ∧ gen'.pwrOutMax = gen.pwrOutMax ∧
      (∃ eta, gen'.state.pwrElecOutMax = min (fc'.state.pwrOutMax * eta) gen.pwrOutMax ∧
              gen'.state.pwrElecPropOutMax = gen'.state.pwrElecOutMax - l.state.pwrAux) ∧
      (∃ eta, edrv'.state.pwrMechOutMax = min edrv.pwrOutMax (gen'.state.pwrElecPropOutMax * eta)) ∧
      edrv'.state.pwrMechRegenMax = edrv.state.pwrMechRegenMax ∧
      edrv.state.pwrMechRegenMax = 0 ∧
      l'.state.pwrOutMax = edrv'.state.pwrMechOutMax ∧
      l'.state.pwrRegenMax = edrv'.state.pwrMechRegenMax ∧
      l'.state.pwrAux = l.state.pwrAux ∧ l'.assertLimits = l.assertLimits := by
  unfold locoSetCurMax at h
  rw [hpt] at h
  simp only [bind_eq_ok] at h
  obtain ⟨fc', hfc, gen1, hgen, e1, he, h⟩ := h
  obtain ⟨c1, eta1, rfl⟩ := genSetCurMax_ok hgen
  obtain ⟨c2, eta2, rfl⟩ := edrvSetCurMax_ok he
  simp only at h
  split at h
  · cases h
  · rename_i hz
    rw [pure_eq_ok] at h
    subst h
    have hz' : edrv.state.pwrMechRegenMax = 0 := by
      rw [← eqb_iff]
      simpa using hz
    exact ⟨fc', _, _, rfl, hfc, rfl, rfl, ⟨eta1, rfl, rfl⟩, ⟨eta2, rfl⟩, rfl, hz', rfl, rfl, rfl, rfl⟩

/-- Battery-electric unit: what an accepted `locoSetCurMax` did. -/
theorem locoSetCurMax_bel_ok {k : Consts α} {l l' : Loco α} {dt : α} {res : RES α}
    {edrv : Edrv α} (hpt : l.pt = .bel res edrv) (h : locoSetCurMax k l dt = .ok l') :
    ∃ res' edrv', l'.pt = .bel res' edrv' ∧
      resSetCurMax k res l.state.pwrAux 0 0 = .ok res' ∧
      edrv'.pwrOutMax = edrv.pwrOutMax ∧
      (∃ eta, edrv'.state.pwrMechOutMax = min edrv.pwrOutMax (res'.state.pwrPropOutMax * eta)) ∧
      (∃ eta, edrv'.state.pwrMechRegenMax = min (res'.state.pwrRegenOutMax * eta) edrv.pwrOutMax ∧
              0 ≤ edrv'.state.pwrMechRegenMax) ∧
      l'.state.pwrOutMax = edrv'.state.pwrMechOutMax ∧
      l'.state.pwrRegenMax = edrv'.state.pwrMechRegenMax ∧
      l'.state.pwrAux = l.state.pwrAux ∧ l'.assertLimits = l.assertLimits := by
  unfold locoSetCurMax at h
  rw [hpt] at h
  simp only [bind_eq_ok] at h
  obtain ⟨res', hres, e1, he1, e2, he2, h⟩ := h
  obtain ⟨c1, eta1, rfl⟩ := edrvSetCurMax_ok he1
  obtain ⟨c2, eta2, h0, rfl⟩ := edrvSetRegenMax_ok he2
  rw [pure_eq_ok] at h
  subst h
  exact ⟨res', _, rfl, hres, rfl, ⟨eta1, rfl⟩, ⟨eta2, rfl, h0⟩, rfl, rfl, rfl, rfl⟩

/-! ### Battery derating ramps in closed form -/

/-- discharge limit as a function of SOC: 0 up to `sMin`, the rating `P` from `sLo`, linear between -/
def dischRamp (P sMin sLo soc : α) : α :=
  if soc ≤ sMin then 0 else if sLo ≤ soc then P else P * (soc - sMin) / (sLo - sMin)

/-- charge limit as a function of SOC: the rating `P` up to `sHi`, 0 from `sMax`, linear between -/
def chargeRamp (P sHi sMax soc : α) : α :=
  if soc ≤ sHi then P else if sMax ≤ soc then 0 else P * (sMax - soc) / (sMax - sHi)

theorem interp1d_disch (soc a b P : α) (hab : a < b) :
    interp1d soc [a, b] [0, P] = .ok (dischRamp P a b soc) := by
  rw [interp1d_two_lt soc a b 0 P hab]
  unfold dischRamp
  have hba : b - a ≠ 0 := sub_ne_zero.mpr (ne_of_gt hab)
  congr 1
  split_ifs
  · rfl
  · rfl
  · field_simp; ring

theorem interp1d_charge (soc a b P : α) (hab : a < b) :
    interp1d soc [a, b] [P, 0] = .ok (chargeRamp P a b soc) := by
  rw [interp1d_two_lt soc a b P 0 hab]
  unfold chargeRamp
  have hba : b - a ≠ 0 := sub_ne_zero.mpr (ne_of_gt hab)
  congr 1
  split_ifs
  · rfl
  · rfl
  · field_simp; ring

theorem dischRamp_nonneg (P a b soc : α) (hab : a < b) (hP : 0 ≤ P) : 0 ≤ dischRamp P a b soc := by
  unfold dischRamp
  split_ifs with h1 h2
  · exact le_refl _
  · exact hP
  · exact div_nonneg (mul_nonneg hP (sub_nonneg.mpr (not_le.mp h1).le)) (sub_pos.mpr hab).le

theorem chargeRamp_nonneg (P a b soc : α) (hab : a < b) (hP : 0 ≤ P) : 0 ≤ chargeRamp P a b soc := by
  unfold chargeRamp
  split_ifs with h1 h2
  · exact hP
  · exact le_refl _
  · exact div_nonneg (mul_nonneg hP (sub_nonneg.mpr (not_le.mp h2).le)) (sub_pos.mpr hab).le

/-! ### Arithmetic core of the SOC window -/

/-- chemical power drawn for an electrical power `elec` at efficiency `eta` (as coded) -/
def chem (elec eta : α) : α := if 0 < elec then elec / eta else elec * eta

/-- **Lower side.**  If the accepted electrical power is at most the derated discharge limit times
    `(1+tol)` plus an absolute slack `a`, and one step at `(1+tol)·rating` cannot cross the whole
    low ramp (`H_dt`), then SOC falls at most `a·dt/(ηlo·cap)` below `min soc sMin`. -/
theorem soc_lower_core (soc elec eta dt cap P tol a sMin sLo etaLo : α)
    (hdt : 0 < dt) (hcap : 0 < cap) (hlo : 0 < etaLo) (heta : etaLo ≤ eta)
    (ha : 0 ≤ a) (hs : sMin < sLo)
    (hD : 0 < elec → elec ≤ dischRamp P sMin sLo soc * (1 + tol) + a)
    (Hdt : P * (1 + tol) * dt ≤ etaLo * cap * (sLo - sMin)) :
    min soc sMin - a * dt / (etaLo * cap) ≤ soc - chem elec eta * dt / cap := by
  have heta0 : 0 < eta := lt_of_lt_of_le hlo heta
  have hq : 0 < etaLo * cap := mul_pos hlo hcap
  have hslack : 0 ≤ a * dt / (etaLo * cap) := div_nonneg (mul_nonneg ha hdt.le) hq.le
  unfold chem
  by_cases he : 0 < elec
  · rw [if_pos he]
    have hD' := hD he
    -- chem·dt/cap ≤ elec·dt/(etaLo·cap)
    have h1 : elec / eta * dt / cap ≤ elec * dt / (etaLo * cap) := by
      rw [div_mul_eq_mul_div, div_div]
      exact div_le_div_of_nonneg_left (mul_nonneg he.le hdt.le) hq
        (mul_le_mul_of_nonneg_right heta hcap.le)
    have h2 : elec * dt / (etaLo * cap) ≤
        (dischRamp P sMin sLo soc * (1 + tol)) * dt / (etaLo * cap) + a * dt / (etaLo * cap) := by
      rw [← add_div, ← add_mul]
      exact div_le_div_of_nonneg_right (mul_le_mul_of_nonneg_right hD' hdt.le) hq.le
    -- the relative part never crosses `sMin`
    have h3 : (dischRamp P sMin sLo soc * (1 + tol)) * dt / (etaLo * cap) ≤ soc - min soc sMin := by
      rw [div_le_iff₀ hq]
      unfold dischRamp
      have hsl : 0 < sLo - sMin := sub_pos.mpr hs
      split_ifs with c1 c2
      · rw [min_eq_left c1]; simp
      · have : sMin ≤ soc := hs.le.trans c2
        rw [min_eq_right this]
        calc P * (1 + tol) * dt ≤ etaLo * cap * (sLo - sMin) := Hdt
          _ ≤ etaLo * cap * (soc - sMin) := by
              apply mul_le_mul_of_nonneg_left _ hq.le; linarith
          _ = (soc - sMin) * (etaLo * cap) := by ring
      · have c1' : sMin < soc := not_le.mp c1
        rw [min_eq_right c1'.le]
        have : P * (soc - sMin) / (sLo - sMin) * (1 + tol) * dt
            = (P * (1 + tol) * dt) * ((soc - sMin) / (sLo - sMin)) := by
          field_simp
        rw [this]
        calc (P * (1 + tol) * dt) * ((soc - sMin) / (sLo - sMin))
            ≤ (etaLo * cap * (sLo - sMin)) * ((soc - sMin) / (sLo - sMin)) := by
              apply mul_le_mul_of_nonneg_right Hdt
              exact div_nonneg (sub_pos.mpr c1').le hsl.le
          _ = (soc - sMin) * (etaLo * cap) := by field_simp
    linarith
  · rw [if_neg he]
    have he' : elec ≤ 0 := not_lt.mp he
    have : elec * eta * dt / cap ≤ 0 :=
      div_nonpos_of_nonpos_of_nonneg
        (mul_nonpos_of_nonpos_of_nonneg (mul_nonpos_of_nonpos_of_nonneg he' heta0.le) hdt.le) hcap.le
    have := min_le_left soc sMin
    linarith

/-- **Upper side.**  Symmetric; efficiency enters as a factor (`chem = elec·η` when charging). -/
theorem soc_upper_core (soc elec eta dt cap P a sHi sMax etaHi : α)
    (hdt : 0 < dt) (hcap : 0 < cap) (heta0 : 0 ≤ eta) (heta : eta ≤ etaHi)
    (hP : 0 ≤ P) (ha : 0 ≤ a) (hs : sHi < sMax)
    (hC : elec < 0 → -elec ≤ chargeRamp P sHi sMax soc + a)
    (Hdt : P * etaHi * dt ≤ cap * (sMax - sHi)) :
    soc - chem elec eta * dt / cap ≤ max soc sMax + a * etaHi * dt / cap := by
  have hhi : 0 ≤ etaHi := heta0.trans heta
  have hslack : 0 ≤ a * etaHi * dt / cap :=
    div_nonneg (mul_nonneg (mul_nonneg ha hhi) hdt.le) hcap.le
  unfold chem
  by_cases he : 0 < elec
  · rw [if_pos he]
    have : 0 ≤ elec / eta * dt / cap :=
      div_nonneg (mul_nonneg (div_nonneg he.le heta0) hdt.le) hcap.le
    have := le_max_left soc sMax
    linarith
  · rw [if_neg he]
    rcases eq_or_lt_of_le (not_lt.mp he) with h0 | hneg
    · rw [h0]; simp only [zero_mul, zero_div, sub_zero]
      have := le_max_left soc sMax
      linarith
    · have hC' := hC hneg
      have hC0 := chargeRamp_nonneg P sHi sMax soc hs hP
      have h1 : -(elec * eta * dt / cap) ≤
          chargeRamp P sHi sMax soc * etaHi * dt / cap + a * etaHi * dt / cap := by
        rw [← add_div, ← add_mul, ← add_mul, ← neg_div]
        apply div_le_div_of_nonneg_right _ hcap.le
        have : -(elec * eta * dt) = (-elec) * eta * dt := by ring
        rw [this]
        apply mul_le_mul_of_nonneg_right _ hdt.le
        exact mul_le_mul hC' heta heta0 (by linarith)
      have h3 : chargeRamp P sHi sMax soc * etaHi * dt / cap ≤ max soc sMax - soc := by
        rw [div_le_iff₀ hcap]
        unfold chargeRamp
        have hsl : 0 < sMax - sHi := sub_pos.mpr hs
        split_ifs with c1 c2
        · have : soc ≤ sMax := c1.trans hs.le
          rw [max_eq_right this]
          calc P * etaHi * dt ≤ cap * (sMax - sHi) := Hdt
            _ ≤ cap * (sMax - soc) := by apply mul_le_mul_of_nonneg_left _ hcap.le; linarith
            _ = (sMax - soc) * cap := by ring
        · rw [max_eq_left c2]; simp
        · have c2' : soc < sMax := not_le.mp c2
          rw [max_eq_right c2'.le]
          have : P * (sMax - soc) / (sMax - sHi) * etaHi * dt
              = (P * etaHi * dt) * ((sMax - soc) / (sMax - sHi)) := by
            field_simp
          rw [this]
          calc (P * etaHi * dt) * ((sMax - soc) / (sMax - sHi))
              ≤ (cap * (sMax - sHi)) * ((sMax - soc) / (sMax - sHi)) := by
                apply mul_le_mul_of_nonneg_right Hdt
                exact div_nonneg (sub_pos.mpr c2').le hsl.le
            _ = (sMax - soc) * cap := by field_simp
      linarith

/-! ### Consist -/

theorem mapM'_nil {σ τ : Type} (f : σ → Res τ) : mapM' f [] = .ok [] := rfl

theorem mapM'_cons_ok {σ τ : Type} (f : σ → Res τ) (x : σ) (xs : List σ) (ys : List τ) :
    mapM' f (x :: xs) = .ok ys ↔ ∃ y ys', f x = .ok y ∧ mapM' f xs = .ok ys' ∧ ys = y :: ys' := by
  rw [mapM']
  simp only [bind_eq_ok, pure_eq_ok]
  constructor
  · rintro ⟨y, hy, ys', hys, rfl⟩; exact ⟨y, ys', hy, hys, rfl⟩
  · rintro ⟨y, ys', hy, hys, rfl⟩; exact ⟨y, hy, ys', hys, rfl⟩

/-- every element of an accepted `mapM'` is the accepted image of some input element -/
theorem mapM'_ok_mem {σ τ : Type} (f : σ → Res τ) (xs : List σ) (ys : List τ)
    (h : mapM' f xs = .ok ys) : ∀ y ∈ ys, ∃ x ∈ xs, f x = .ok y := by
  induction xs generalizing ys with
  | nil => rw [mapM'_nil] at h; cases h; simp
  | cons x xs ih =>
    rw [mapM'_cons_ok] at h
    obtain ⟨y, ys', hy, hys, rfl⟩ := h
    intro z hz
    rcases List.mem_cons.mp hz with rfl | hz
    · exact ⟨x, by simp, hy⟩
    · obtain ⟨x', hx', hf⟩ := ih ys' hys z hz
      exact ⟨x', by simp [hx'], hf⟩

theorem mapM'_ok_length {σ τ : Type} (f : σ → Res τ) (xs : List σ) (ys : List τ)
    (h : mapM' f xs = .ok ys) : ys.length = xs.length := by
  induction xs generalizing ys with
  | nil => rw [mapM'_nil] at h; cases h; rfl
  | cons x xs ih =>
    rw [mapM'_cons_ok] at h
    obtain ⟨y, ys', _, hys, rfl⟩ := h
    simp [ih ys' hys]

theorem consistSetCurMax_ok {k : Consts α} {c c' : Consist α} {dt : α}
    (h : consistSetCurMax k c dt = .ok c') :
    mapM' (fun l => locoSetCurMax k l dt) c.locos = .ok c'.locos ∧
    c'.state.pwrOutMax = sumLeft (c'.locos.map (·.state.pwrOutMax)) ∧
    c'.state.pwrRegenMax = sumLeft (c'.locos.map (·.state.pwrRegenMax)) ∧
    c'.state.pwrRateOutMax = sumLeft (c'.locos.map (·.state.pwrRateOutMax)) ∧
    c'.state.pwrOutMaxReves =
      sumLeft (c'.locos.map (fun l => if l.pt.isBel then l.state.pwrOutMax else 0)) ∧
    c'.state.pwrOutMaxNonReves = c'.state.pwrOutMax - c'.state.pwrOutMaxReves ∧
    c'.state.pwrDynBrakeMax = c.state.pwrDynBrakeMax ∧
    c'.assertLimits = c.assertLimits := by
  unfold consistSetCurMax at h
  simp only [bind_eq_ok, pure_eq_ok] at h
  obtain ⟨locos, hl, rfl⟩ := h
  exact ⟨hl, rfl, rfl, rfl, rfl, rfl, rfl, rfl⟩

theorem consistSolve_ok {k : Consts α} {c c' : Consist α} {req dt : α} {on : Option Bool}
    (h : consistSolve k c req dt on = .ok c') (hA : c.assertLimits = true) :
    -req ≤ c.state.pwrDynBrakeMax ∧ req ≤ c.state.pwrOutMax ∧
    almostEq req c'.state.pwrOut k.eps = true ∧
    c'.state.pwrOutReq = req ∧ c'.state.pwrOutMax = c.state.pwrOutMax ∧
    c'.state.pwrDynBrakeMax = dynBrakeMax c.locos := by
  unfold consistSolve at h
  simp only [hA, if_true, bind_eq_ok, ensure_eq_ok, pure_eq_ok, exists_and_left, exists_const,
    decide_eq_true_iff] at h
  obtain ⟨h1, h2, shares, _, h3, locos, _, rfl⟩ := h
  exact ⟨h1, h2, h3, rfl, rfl, rfl⟩

/-! ### Reading values out of a `Res` (for decidable examples over `ℚ`) -/

/-- project an `Ok` outcome through `f`; `none` on `Err`/panic -/
def okVal {σ τ : Type} (r : Res σ) (f : σ → τ) : Option τ :=
  match r with
  | .ok s => some (f s)
  | _ => none

theorem okVal_eq_some {σ τ : Type} (r : Res σ) (f : σ → τ) (v : τ) :
    okVal r f = some v ↔ ∃ s, r = .ok s ∧ f s = v := by
  cases r <;> simp [okVal]

/-! ### `interp3d` on one-point grids (constant-efficiency battery used in the examples) -/

theorem findInterpIndices_single (q a : α) : findInterpIndices q [a] = .ok (0, 0) := by
  unfold findInterpIndices
  simp only [windowPos, getA, List.getElem?_cons_zero, bind, Res.bind, pure, List.length_cons,
    List.length_nil]
  by_cases h : q ≤ a
  · simp [h]
  · have : a ≤ q := (not_le.mp h).le
    simp [h, this]

theorem interp3d_single (x y z gx gy gz v : α) :
    interp3d x y z [gx] [gy] [gz] [[[v]]] = .ok v := by
  unfold interp3d
  simp only [findInterpIndices_single, bind, Res.bind, pure, getA, get3, interpDiff,
    List.getElem?_cons_zero, (eqb_iff _ _).mpr rfl, if_true]
  congr 1
  ring

/-! ### Battery-electric locomotive: `solve_energy_consumption` and the simulation step -/

/-- what `belSolve` asks of the battery: the drivetrain's electrical input `pin` and the
    auxiliary load, reduced to `max (min aux (prop_out_max − pin)) 0` when `pin ≤ 0` -/
theorem belSolve_inv {k : Consts α} {res : RES α} {edrv : Edrv α} {req dt aux : α}
    {pt : Powertrain α} (h : belSolve k res edrv req dt aux = .ok pt) :
    ∃ res' edrv' aux', pt = .bel res' edrv' ∧ edrvReq edrv req dt = .ok edrv' ∧
      resSolve k res edrv'.state.pwrElecPropIn aux' dt = .ok res' ∧
      (0 < edrv'.state.pwrElecPropIn → aux' = aux) ∧
      (¬ 0 < edrv'.state.pwrElecPropIn →
        aux' = max (min aux (res.state.pwrPropOutMax - edrv'.state.pwrElecPropIn)) 0) := by
  unfold belSolve at h
  simp only [bind_eq_ok, pure_eq_ok, mx_eq_max, mn_eq_min] at h
  obtain ⟨e', he, r', hr, rfl⟩ := h
  by_cases hp : 0 < e'.state.pwrElecPropIn
  · rw [if_pos hp] at hr
    exact ⟨r', e', aux, rfl, he, hr, fun _ => rfl, fun hn => absurd hp hn⟩
  · rw [if_neg hp] at hr
    exact ⟨r', e', _, rfl, he, hr, fun hp' => absurd hp' hp, fun _ => rfl⟩

theorem locoSolve_bel_ok {k : Consts α} {l l' : Loco α} {req dt : α} {on : Option Bool}
    {res : RES α} {edrv : Edrv α} (hpt : l.pt = .bel res edrv)
    (h : locoSolve k l req dt on = .ok l') :
    belSolve k res edrv req dt l.state.pwrAux = .ok l'.pt ∧
    l'.pwrAuxOffset = l.pwrAuxOffset ∧ l'.pwrAuxTractionCoeff = l.pwrAuxTractionCoeff ∧
    l'.assertLimits = l.assertLimits := by
  unfold locoSolve at h
  rw [hpt] at h
  simp only [bind_eq_ok, pure_eq_ok] at h
  obtain ⟨pt, hb, rfl⟩ := h
  exact ⟨hb, rfl, rfl, rfl⟩

theorem locoSetCurMax_params {k : Consts α} {l l' : Loco α} {dt : α}
    (h : locoSetCurMax k l dt = .ok l') :
    l'.pwrAuxOffset = l.pwrAuxOffset ∧ l'.pwrAuxTractionCoeff = l.pwrAuxTractionCoeff := by
  unfold locoSetCurMax at h
  cases hpt : l.pt with
  | conv fc gen edrv =>
    rw [hpt] at h
    simp only [bind_eq_ok] at h
    obtain ⟨_, _, _, _, _, _, h⟩ := h
    split at h
    · cases h
    · rw [pure_eq_ok] at h; subst h; exact ⟨rfl, rfl⟩
  | bel res edrv =>
    rw [hpt] at h
    simp only [bind_eq_ok, pure_eq_ok] at h
    obtain ⟨_, _, _, _, _, _, rfl⟩ := h
    exact ⟨rfl, rfl⟩

/-- the auxiliary load `set_pwr_aux` computes is non-negative for non-negative coefficients -/
theorem locoSetAux_nonneg (l : Loco α) (on : Option Bool) (h0 : 0 ≤ l.pwrAuxOffset)
    (h1 : 0 ≤ l.pwrAuxTractionCoeff) : 0 ≤ (locoSetAux l on).state.pwrAux := by
  unfold locoSetAux
  simp only [absv_eq_abs]
  split_ifs
  · exact add_nonneg h0 (mul_nonneg h1 (abs_nonneg _))
  · exact le_refl _

theorem locoSetAux_params (l : Loco α) (on : Option Bool) :
    (locoSetAux l on).pt = l.pt ∧ (locoSetAux l on).pwrAuxOffset = l.pwrAuxOffset ∧
    (locoSetAux l on).pwrAuxTractionCoeff = l.pwrAuxTractionCoeff := ⟨rfl, rfl, rfl⟩

/-- one `LocomotiveSimulation::solve_step` of a battery unit, seen from the battery -/
theorem locoSimStep_bel_ok {k : Consts α} {l l' : Loco α} {req dt : α} {on : Option Bool}
    {res : RES α} {edrv : Edrv α} (hpt : l.pt = .bel res edrv)
    (h : locoSimStep k l req dt on = .ok l') :
    ∃ aux res1 edrv1, aux = (locoSetAux l on).state.pwrAux ∧
      resSetCurMax k res aux 0 0 = .ok res1 ∧
      belSolve k res1 edrv1 req dt aux = .ok l'.pt ∧
      l'.pwrAuxOffset = l.pwrAuxOffset ∧ l'.pwrAuxTractionCoeff = l.pwrAuxTractionCoeff := by
  unfold locoSimStep at h
  simp only [bind_eq_ok, ensure_eq_ok, pure_eq_ok, exists_and_left, exists_const] at h
  obtain ⟨l1, h1, l2, h2, _, rfl⟩ := h
  have hpt0 : (locoSetAux l on).pt = .bel res edrv := hpt
  obtain ⟨res1, edrv1, hp1, hres, _, _, _, _, _, haux, _⟩ := locoSetCurMax_bel_ok hpt0 h1
  obtain ⟨hb, o1, o2, _⟩ := locoSolve_bel_ok hp1 h2
  obtain ⟨p1, p2⟩ := locoSetCurMax_params h1
  rw [haux] at hb
  exact ⟨_, res1, edrv1, rfl, hres, hb, o1.trans p1, o2.trans p2⟩

end Altrios.Proofs.LimitsL
