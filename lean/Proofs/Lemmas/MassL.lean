import Altrios.Mass
import Proofs.Lemmas.Basic
import Mathlib.Algebra.Order.Field.Basic
import Mathlib.Tactic.Linarith
import Mathlib.Tactic.Ring
import Mathlib.Tactic.FieldSimp
import Mathlib.Tactic.SplitIfs
import Mathlib.Data.List.Basic
/-
  Helper lemmas about the mass / traction-limit model (`Altrios.Mass`), used by `Proofs/C20.lean`.
-/
set_option linter.unusedSectionVars false
set_option linter.unusedVariables false
namespace Altrios.Proofs.MassL
open Altrios Altrios.Mass

variable {α : Type} [Field α] [LinearOrder α] [IsStrictOrderedRing α]

/-! ### primitives -/

theorem fne_iff (a b : α) : fne a b = true ↔ a ≠ b := by
  unfold fne
  simp only [Bool.not_eq_true', Bool.and_eq_false_iff, decide_eq_false_iff_not, not_le]
  constructor
  · rintro (h | h) rfl <;> exact lt_irrefl _ h
  · intro h
    rcases lt_or_gt_of_ne h with h | h
    · exact Or.inr h
    · exact Or.inl h

theorem fne_false_iff (a b : α) : fne a b = false ↔ a = b := by
  rw [← Bool.not_eq_true, fne_iff, not_not]

theorem almostEq_self (x eps : α) (h : 0 < eps) : almostEq x x eps = true := by
  unfold almostEq
  simp only [sub_self, zero_div, Bool.or_eq_true, decide_eq_true_eq]
  left
  unfold absv
  simp [h]

theorem almostEq_of_eq (x y eps : α) (h : 0 < eps) (e : x = y) : almostEq x y eps = true := by
  subst e; exact almostEq_self x eps h

/-! ### components -/

/-- the component's invariant: stored and derived mass, when both known, are almost equal -/
def CompInv (k : MC α) (c : Comp α) : Prop :=
  ∀ m d, c.mass = some m → compDerived c = some d → almostEq m d k.eps = true

/-- no zero divisor in the component: `rating ≠ 0`, `specific ≠ 0` when known -/
def CompGood (c : Comp α) : Prop := c.rating ≠ 0 ∧ ∀ sp, c.specific = some sp → sp ≠ 0

theorem compDerived_some (c : Comp α) (d : α) :
    compDerived c = some d ↔ ∃ sp, c.specific = some sp ∧ d = c.rating / sp := by
  unfold compDerived
  cases h : c.specific with
  | none => simp
  | some sp => simp [eq_comm]

theorem compDerived_none (c : Comp α) : compDerived c = none ↔ c.specific = none := by
  unfold compDerived
  cases h : c.specific <;> simp

/-- `set_mass` on a component never fails -/
theorem compSetMass_total (c : Comp α) (new : Option α) (se : MassSE) :
    ∃ c', compSetMass c new se = .ok c' := by
  unfold compSetMass
  cases hd : compDerived c with
  | none => cases new <;> simp
  | some d =>
    cases new with
    | none => simp
    | some nm =>
      obtain ⟨sp, hsp, _⟩ := (compDerived_some c d).mp hd
      simp only
      split_ifs
      · cases se <;> simp [hsp]
      · simp

/-- the getter succeeds exactly on consistent components, and then returns the stored mass -/
theorem compMass_ok_iff (k : MC α) (c : Comp α) (r : Option α) :
    compMass k c = .ok r ↔ (r = c.mass ∧ CompInv k c) := by
  unfold compMass CompInv
  cases hd : compDerived c with
  | none =>
    simp only [reduceCtorEq, false_implies, implies_true, and_true, Res.ok.injEq]
    exact eq_comm
  | some d =>
    cases hm : c.mass with
    | none =>
      simp only [reduceCtorEq, false_implies, implies_true, and_true, Res.ok.injEq]
      exact eq_comm
    | some m =>
      simp only [Option.some.injEq]
      split_ifs with h
      · constructor
        · intro e; cases e; exact ⟨rfl, fun m' d' e1 e2 => by subst e1; subst e2; exact h⟩
        · rintro ⟨e, _⟩; rw [e]
      · constructor
        · intro e; cases e
        · rintro ⟨_, h2⟩; exact absurd (h2 m d rfl rfl) h

theorem compMass_not_panic (k : MC α) (c : Comp α) (e : String) : compMass k c ≠ .panic e := by
  unfold compMass
  split
  · split_ifs <;> simp
  · simp

theorem compInv_expunge (k : MC α) (c : Comp α) : CompInv k (compExpunge c) := by
  intro m d hm _; simp [compExpunge] at hm

theorem compMass_expunge (k : MC α) (c : Comp α) : compMass k (compExpunge c) = .ok none := by
  rw [compMass_ok_iff]; exact ⟨rfl, compInv_expunge k c⟩

/-! ### what `set_mass` does to a component, option by option -/

theorem compSetMass_clear (c c' : Comp α) (se : MassSE) (h : compSetMass c none se = .ok c') :
    c' = { c with specific := none, mass := none } := by
  unfold compSetMass at h
  cases hd : compDerived c <;> simp [hd] at h <;> exact h.symm

theorem compSetMass_underived (c c' : Comp α) (nm : α) (se : MassSE) (hd : compDerived c = none)
    (h : compSetMass c (some nm) se = .ok c') : c' = { c with mass := some nm } := by
  unfold compSetMass at h
  simp [hd] at h; exact h.symm

theorem compSetMass_same (c c' : Comp α) (nm : α) (se : MassSE) (hd : compDerived c = some nm)
    (h : compSetMass c (some nm) se = .ok c') : c' = { c with mass := some nm } := by
  unfold compSetMass at h
  have : fne nm nm = false := (fne_false_iff nm nm).mpr rfl
  simp [hd, this] at h; exact h.symm

theorem compSetMass_extensive (c c' : Comp α) (d nm : α) (hd : compDerived c = some d) (hne : d ≠ nm)
    (h : compSetMass c (some nm) .extensive = .ok c') :
    ∃ sp, c.specific = some sp ∧ c' = { c with rating := sp * nm, mass := some nm } := by
  unfold compSetMass at h
  have : fne d nm = true := (fne_iff d nm).mpr hne
  obtain ⟨sp, hsp, _⟩ := (compDerived_some c d).mp hd
  simp only [hd, this, hsp, if_true] at h
  cases h
  exact ⟨sp, hsp, by rw [hsp]⟩

theorem compSetMass_intensive (c c' : Comp α) (d nm : α) (hd : compDerived c = some d) (hne : d ≠ nm)
    (h : compSetMass c (some nm) .intensive = .ok c') :
    c' = { c with specific := some (c.rating / nm), mass := some nm } := by
  unfold compSetMass at h
  have : fne d nm = true := (fne_iff d nm).mpr hne
  simp [hd, this] at h; exact h.symm

theorem compSetMass_none (c c' : Comp α) (d nm : α) (hd : compDerived c = some d) (hne : d ≠ nm)
    (h : compSetMass c (some nm) .none = .ok c') :
    c' = { c with specific := none, mass := some nm } := by
  unfold compSetMass at h
  have : fne d nm = true := (fne_iff d nm).mpr hne
  simp [hd, this] at h; exact h.symm

/-- the division guards under which a side effect can be applied: only asked for when there is
    something to resolve (derived mass known and different from the new one) -/
def CompGuard (c : Comp α) (new : Option α) (se : MassSE) : Prop :=
  ∀ d nm, compDerived c = some d → new = some nm → d ≠ nm →
    (se = .extensive → ∀ sp, c.specific = some sp → sp ≠ 0) ∧
    (se = .intensive → c.rating ≠ 0 ∧ nm ≠ 0)

/-- after ANY accepted `set_mass`, from ANY state, the component is consistent -/
theorem compSetMass_inv (k : MC α) (heps : 0 < k.eps) (c c' : Comp α) (new : Option α) (se : MassSE)
    (hg : CompGuard c new se) (h : compSetMass c new se = .ok c') : CompInv k c' := by
  intro m dd hm hdd
  cases new with
  | none => rw [compSetMass_clear c c' se h] at hm; simp at hm
  | some nm =>
    cases hd : compDerived c with
    | none =>
      rw [compSetMass_underived c c' nm se hd h] at hdd
      have : compDerived ({ c with mass := some nm } : Comp α) = compDerived c := rfl
      rw [this, hd] at hdd; cases hdd
    | some d =>
      by_cases hne : d = nm
      · subst hne
        rw [compSetMass_same c c' d se hd h] at hm hdd
        have : compDerived ({ c with mass := some d } : Comp α) = compDerived c := rfl
        rw [this, hd] at hdd
        simp at hm hdd; subst hm; subst hdd
        exact almostEq_self _ _ heps
      · obtain ⟨g1, g2⟩ := hg d nm hd rfl hne
        cases se with
        | none =>
          rw [compSetMass_none c c' d nm hd hne h] at hdd
          simp [compDerived] at hdd
        | extensive =>
          obtain ⟨sp, hsp, e⟩ := compSetMass_extensive c c' d nm hd hne h
          have hsp0 := g1 rfl sp hsp
          rw [e] at hm hdd
          simp [compDerived, hsp] at hm hdd
          subst hm; subst hdd
          apply almostEq_of_eq _ _ _ heps
          field_simp
        | intensive =>
          obtain ⟨hr, hn⟩ := g2 rfl
          rw [compSetMass_intensive c c' d nm hd hne h] at hm hdd
          simp [compDerived] at hm hdd
          subst hm; subst hdd
          apply almostEq_of_eq _ _ _ heps
          field_simp

/-- zero divisors do not appear as long as no new mass is zero -/
theorem compSetMass_good (c c' : Comp α) (new : Option α) (se : MassSE) (hc : CompGood c)
    (hn : ∀ nm, new = some nm → nm ≠ 0) (h : compSetMass c new se = .ok c') : CompGood c' := by
  obtain ⟨hr, hs⟩ := hc
  cases new with
  | none => rw [compSetMass_clear c c' se h]; exact ⟨hr, by simp⟩
  | some nm =>
    have hnm := hn nm rfl
    cases hd : compDerived c with
    | none => rw [compSetMass_underived c c' nm se hd h]; exact ⟨hr, hs⟩
    | some d =>
      by_cases hne : d = nm
      · subst hne; rw [compSetMass_same c c' d se hd h]; exact ⟨hr, hs⟩
      · cases se with
        | none => rw [compSetMass_none c c' d nm hd hne h]; exact ⟨hr, by simp⟩
        | extensive =>
          obtain ⟨sp, hsp, e⟩ := compSetMass_extensive c c' d nm hd hne h
          rw [e]; exact ⟨mul_ne_zero (hs sp hsp) hnm, hs⟩
        | intensive =>
          rw [compSetMass_intensive c c' d nm hd hne h]
          refine ⟨hr, ?_⟩
          intro sp e; simp at e; subst e
          exact div_ne_zero hr hnm

theorem compGood_guard (c : Comp α) (new : Option α) (se : MassSE) (hc : CompGood c)
    (hn : ∀ nm, new = some nm → nm ≠ 0) : CompGuard c new se := by
  intro d nm _ hnew _
  exact ⟨fun _ sp hsp => hc.2 sp hsp, fun _ => ⟨hc.1, hn nm hnew⟩⟩

/-! ### locomotive -/

/-- mass half of the invariant: stored mass and mass derived from the parts, both known → almost equal -/
def InvMass (k : MC α) (l : Loco α) : Prop :=
  ∀ m d, l.mass = some m → locoDerived k l = .ok (some d) → almostEq m d k.eps = true

/-- force half: adhesion coefficient and mass both known → `force_max` almost equals `μ·m·g` -/
def InvForce (k : MC α) (l : Loco α) : Prop :=
  ∀ μ m, l.mu = some μ → l.mass = some m → almostEq l.forceMax (μ * m * k.g) k.eps = true

def Inv (k : MC α) (l : Loco α) : Prop := InvMass k l ∧ InvForce k l

theorem locoDerived_congr (k : MC α) (l l' : Loco α) (h1 : l'.pt = l.pt)
    (h2 : l'.baseline = l.baseline) (h3 : l'.ballast = l.ballast) :
    locoDerived k l' = locoDerived k l := by
  unfold locoDerived; rw [h1, h2, h3]

theorem invMass_congr (k : MC α) (l l' : Loco α) (h0 : l'.mass = l.mass) (h1 : l'.pt = l.pt)
    (h2 : l'.baseline = l.baseline) (h3 : l'.ballast = l.ballast) : InvMass k l' ↔ InvMass k l := by
  unfold InvMass; rw [h0, locoDerived_congr k l l' h1 h2 h3]

theorem checkForceMax_iff (k : MC α) (l : Loco α) : locoCheckForceMax k l = true ↔ InvForce k l := by
  unfold locoCheckForceMax InvForce
  cases hmu : l.mu with
  | none => simp
  | some μ =>
    cases hm : l.mass with
    | none => simp
    | some m => simp

/-- after `expunge_mass_fields` the derived mass of a real (non-dummy) locomotive is never a value:
    the components are blank, `baseline_mass`/`ballast_mass` are kept -/
theorem locoDerived_expunge (k : MC α) (l : Loco α) (hnd : l.pt.isDummy = false) (d : α) :
    locoDerived k (locoExpunge l) ≠ .ok (some d) := by
  unfold locoDerived locoExpunge
  cases hb : l.baseline <;> cases hc : l.ballast <;> cases hp : l.pt <;>
    simp [hp, compMass_expunge, bind, Res.bind, PT.isDummy] at hnd ⊢

/-- what an `Ok(Some(m))` answer of `mass()` means -/
theorem locoMass_ok_some (k : MC α) (l : Loco α) (m : α) (h : locoMass k l = .ok (some m)) :
    (∀ m', l.mass = some m' → m' = m) ∧ InvMass k l ∧
      (l.mass = none → locoDerived k l = .ok (some m)) := by
  unfold locoMass at h
  unfold InvMass
  cases hd : locoDerived k l with
  | err e => simp [hd] at h
  | panic e => simp [hd] at h
  | ok d =>
    cases d with
    | none =>
      cases hm : l.mass with
      | none => simp [hd, hm] at h
      | some m0 => simp [hd, hm, optOr] at h; subst h; simp
    | some dm =>
      cases hm : l.mass with
      | none => simp [hd, hm, optOr] at h; subst h; simp
      | some m0 =>
        simp only [hd, hm] at h
        split_ifs at h with ha
        · simp at h; subst h
          refine ⟨by simp, ?_, by simp⟩
          intro m' d' e1 e2; simp at e1 e2; subst e1; subst e2; exact ha

/-- `mass()` succeeds (with whatever answer) → the mass half of the invariant holds -/
theorem locoMass_ok_inv (k : MC α) (l : Loco α) (r : Option α) (h : locoMass k l = .ok r) :
    InvMass k l := by
  cases r with
  | some m => exact (locoMass_ok_some k l m h).2.1
  | none =>
    unfold locoMass at h
    intro m d hm hd
    simp only [hd, hm] at h
    split_ifs at h with ha
    cases h

/-- the state handed to the tail of `set_mass`, if the call gets that far -/
def setMassMid (k : MC α) (l : Loco α) (new : Option α) : Option (Loco α) :=
  match locoDerived k l with
  | .ok d =>
    match new with
    | some nm =>
      some { (match d with
          | some dm => if fne dm nm then locoExpunge l else l
          | none => l) with mass := some nm }
    | none =>
      match d with
      | some dm => some { l with mass := some dm }
      | none => none
  | _ => none

theorem locoSetMass_eq (k : MC α) (l : Loco α) (new : Option α) (se : MassSE) :
    locoSetMass k l new se =
      if se ≠ MassSE.none then ⟨l, false⟩
      else match setMassMid k l new with
        | some l1 => locoSetMassFinish k l1
        | none => ⟨l, false⟩ := by
  unfold locoSetMass setMassMid
  split_ifs
  · rfl
  · cases locoDerived k l with
    | err e => rfl
    | panic e => rfl
    | ok d =>
      cases new with
      | some nm => rfl
      | none => cases d <;> rfl

/-- everything about the state `set_mass` reaches before its final `mu()?`/`mass()?` -/
theorem setMassMid_spec (k : MC α) (heps : 0 < k.eps) (l l1 : Loco α) (new : Option α)
    (h : setMassMid k l new = some l1) :
    ∃ nm, l1.mass = some nm ∧ l1.mu = l.mu ∧ l1.forceMax = l.forceMax ∧
      l1.baseline = l.baseline ∧ l1.ballast = l.ballast ∧
      (l1.pt = l.pt ∨ (l1.pt = (locoExpunge l).pt ∧
          ∃ dm, locoDerived k l = .ok (some dm) ∧ dm ≠ nm)) ∧
      (new = some nm ∨ (new = none ∧ locoDerived k l = .ok (some nm))) ∧
      (l.pt.isDummy = false → InvMass k l1) := by
  unfold setMassMid at h
  cases hd : locoDerived k l with
  | err e => simp [hd] at h
  | panic e => simp [hd] at h
  | ok d =>
    simp only [hd] at h
    cases new with
    | none =>
      cases d with
      | none => simp at h
      | some dm =>
        simp at h; subst h
        refine ⟨dm, rfl, rfl, rfl, rfl, rfl, Or.inl rfl, Or.inr ⟨rfl, rfl⟩, ?_⟩
        intro _ m d' e1 e2
        have : locoDerived k ({ l with mass := some dm } : Loco α) = locoDerived k l :=
          locoDerived_congr k l _ rfl rfl rfl
        rw [this, hd] at e2
        simp at e1 e2; subst e1; subst e2
        exact almostEq_self _ _ heps
    | some nm =>
      simp at h
      cases d with
      | none =>
        simp at h; subst h
        refine ⟨nm, rfl, rfl, rfl, rfl, rfl, Or.inl rfl, Or.inl rfl, ?_⟩
        intro _ m d' e1 e2
        have : locoDerived k ({ l with mass := some nm } : Loco α) = locoDerived k l :=
          locoDerived_congr k l _ rfl rfl rfl
        rw [this, hd] at e2; simp at e2
      | some dm =>
        simp only at h
        by_cases hne : dm = nm
        · have hf : fne dm nm = false := (fne_false_iff dm nm).mpr hne
          simp [hf] at h; subst h
          refine ⟨nm, rfl, rfl, rfl, rfl, rfl, Or.inl rfl, Or.inl rfl, ?_⟩
          intro _ m d' e1 e2
          have : locoDerived k ({ l with mass := some nm } : Loco α) = locoDerived k l :=
            locoDerived_congr k l _ rfl rfl rfl
          rw [this, hd] at e2
          simp at e1 e2; subst e1; subst e2
          exact almostEq_of_eq _ _ _ heps hne.symm
        · have hf : fne dm nm = true := (fne_iff dm nm).mpr hne
          simp [hf] at h; subst h
          refine ⟨nm, rfl, rfl, rfl, rfl, rfl, Or.inr ⟨rfl, dm, rfl, hne⟩, Or.inl rfl, ?_⟩
          intro hnd m d' e1 e2
          have : locoDerived k ({ locoExpunge l with mass := some nm } : Loco α) =
              locoDerived k (locoExpunge l) := locoDerived_congr k _ _ rfl rfl rfl
          rw [this] at e2
          exact absurd e2 (locoDerived_expunge k l hnd d')

/-- the tail of `set_mass`: accepted exactly when `check_force_max` passes on the NEW mass with the
    OLD force, `mu` is known and `mass()` succeeds; then only `force_max` is rewritten -/
theorem finish_ok (k : MC α) (l1 : Loco α) (hok : (locoSetMassFinish k l1).ok = true) :
    ∃ μ m, l1.mu = some μ ∧ locoCheckForceMax k l1 = true ∧ locoMass k l1 = .ok (some m) ∧
      (locoSetMassFinish k l1).st = { l1 with forceMax := μ * m * k.g } := by
  unfold locoSetMassFinish locoMu at hok ⊢
  by_cases hc : locoCheckForceMax k l1 = true
  · simp only [hc, if_true] at hok ⊢
    cases hmu : l1.mu with
    | none => simp [hmu] at hok
    | some μ =>
      simp only [hmu] at hok ⊢
      cases hm : locoMass k l1 with
      | err e => simp [hm] at hok
      | panic e => simp [hm] at hok
      | ok r =>
        cases r with
        | none => simp [hm] at hok
        | some m => exact ⟨μ, m, rfl, trivial, rfl, rfl⟩
  · simp [hc] at hok

/-- rejected or not, the tail of `set_mass` changes at most `force_max` -/
theorem finish_st (k : MC α) (l1 : Loco α) :
    (locoSetMassFinish k l1).st = l1 ∨ ∃ x, (locoSetMassFinish k l1).st = { l1 with forceMax := x } := by
  unfold locoSetMassFinish
  split
  · split
    · exact Or.inr ⟨_, rfl⟩
    · exact Or.inl rfl
  · exact Or.inl rfl

/-! ### consist -/

/-- the mass a unit reports (0 when it reports none / an error; only used under the hypothesis
    that it reports a value) -/
def massOf (k : MC α) (l : Loco α) : α :=
  match locoMass k l with
  | .ok (some m) => m
  | _ => 0

theorem massOf_eq (k : MC α) (l : Loco α) (m : α) (h : locoMass k l = .ok (some m)) :
    massOf k l = m := by
  unfold massOf; rw [h]

theorem consistSumFold_all_some (k : MC α) (ls : List (Loco α)) (acc : α)
    (h : ∀ l ∈ ls, ∃ m, locoMass k l = .ok (some m)) :
    consistSumFold k acc ls = .ok (acc + (ls.map (massOf k)).sum) := by
  induction ls generalizing acc with
  | nil => simp [consistSumFold]
  | cons l ls ih =>
    obtain ⟨m, hm⟩ := h l (by simp)
    unfold consistSumFold
    simp only [bind, Res.bind, hm]
    rw [ih (m + acc) (fun l' hl' => h l' (by simp [hl'])), List.map_cons, List.sum_cons,
      massOf_eq k l m hm]
    congr 1; ring

/-- the homogeneity fold: Ok only if every unit answers Ok with the same known/unknown status -/
theorem consistNoneFold_ok (k : MC α) (ls : List (Loco α)) (acc r : Bool)
    (h : consistNoneFold k acc ls = .ok r) :
    r = acc ∧ ∀ l ∈ ls, ∃ m, locoMass k l = .ok m ∧ m.isNone = acc := by
  induction ls with
  | nil => simp [consistNoneFold] at h; exact ⟨h.symm, by simp⟩
  | cons l ls ih =>
    unfold consistNoneFold at h
    cases hm : locoMass k l with
    | err e => simp [bind, Res.bind, hm] at h
    | panic e => simp [bind, Res.bind, hm] at h
    | ok m =>
      simp only [bind, Res.bind, hm] at h
      split_ifs at h with hc
      obtain ⟨h1, h2⟩ := ih h
      refine ⟨h1, ?_⟩
      intro l' hl'
      rcases List.mem_cons.mp hl' with e | e
      · subst e; exact ⟨m, hm, (by simpa using hc : acc = m.isNone).symm⟩
      · exact h2 l' e

theorem consistNoneFold_all (k : MC α) (ls : List (Loco α)) (acc : Bool)
    (h : ∀ l ∈ ls, ∃ m, locoMass k l = .ok m ∧ m.isNone = acc) :
    consistNoneFold k acc ls = .ok acc := by
  induction ls with
  | nil => rfl
  | cons l ls ih =>
    obtain ⟨m, hm, hn⟩ := h l (by simp)
    unfold consistNoneFold
    simp only [bind, Res.bind, hm, hn, beq_self_eq_true, if_true]
    exact ih (fun l' hl' => h l' (by simp [hl']))

theorem consistForceFold_ok (k : MC α) (ls : List (Loco α)) (acc : α)
    (h : ∀ l ∈ ls, locoCheckForceMax k l = true) :
    consistForceFold k acc ls = .ok (acc + (ls.map (fun l => l.forceMax)).sum) := by
  induction ls generalizing acc with
  | nil => simp [consistForceFold]
  | cons l ls ih =>
    unfold consistForceFold locoForceMax
    simp only [h l (by simp), if_true, bind, Res.bind]
    rw [ih (l.forceMax + acc) (fun l' hl' => h l' (by simp [hl'])), List.map_cons, List.sum_cons]
    congr 1; ring

theorem consistForceFold_units (k : MC α) (ls : List (Loco α)) (acc r : α)
    (h : consistForceFold k acc ls = .ok r) : ∀ l ∈ ls, locoCheckForceMax k l = true := by
  induction ls generalizing acc with
  | nil => simp
  | cons l ls ih =>
    unfold consistForceFold locoForceMax at h
    by_cases hc : locoCheckForceMax k l = true
    · simp only [hc, if_true, bind, Res.bind] at h
      intro l' hl'
      rcases List.mem_cons.mp hl' with e | e
      · subst e; exact hc
      · exact ih _ h l' e
    · simp [hc, bind, Res.bind] at h

/-! ### train -/

/-- the static mass one vehicle type contributes: `(base + freight) · n` -/
def carMass (cast : Nat → α) (n : List (Nat × Nat)) (rv : RV α) : α :=
  match nCars n rv.key with
  | some c => (rv.base + rv.freight) * cast c
  | none => 0

theorem carsMassFold_ok (cast : Nat → α) (n : List (Nat × Nat)) (rvs : List (RV α)) (acc : α)
    (h : ∀ rv ∈ rvs, ∃ c, nCars n rv.key = some c) :
    carsMassFold cast n acc rvs = .ok (acc + (rvs.map (carMass cast n)).sum) := by
  induction rvs generalizing acc with
  | nil => simp [carsMassFold]
  | cons rv rvs ih =>
    obtain ⟨c, hc⟩ := h rv (by simp)
    unfold carsMassFold
    simp only [hc]
    rw [ih _ (fun rv' h' => h rv' (by simp [h'])), List.map_cons, List.sum_cons]
    unfold carMass; simp only [hc]
    congr 1; ring

theorem carsMassFold_missing (cast : Nat → α) (n : List (Nat × Nat)) (rvs : List (RV α)) (acc r : α)
    (h : carsMassFold cast n acc rvs = .ok r) : ∀ rv ∈ rvs, ∃ c, nCars n rv.key = some c := by
  induction rvs generalizing acc with
  | nil => simp
  | cons rv rvs ih =>
    unfold carsMassFold at h
    cases hc : nCars n rv.key with
    | none => simp [hc] at h
    | some c =>
      simp only [hc] at h
      intro rv' h'
      rcases List.mem_cons.mp h' with e | e
      · subst e; exact ⟨c, hc⟩
      · exact ih _ h rv' e

theorem checkRvKeys_lookup (rvs : List (RV α)) (n : List (Nat × Nat)) (h : checkRvKeys rvs n = true) :
    ∀ rv ∈ rvs, ∃ c, nCars n rv.key = some c := by
  unfold checkRvKeys at h
  simp only [Bool.and_eq_true, List.all_eq_true] at h
  intro rv hrv
  have := h.1 rv hrv
  exact Option.isSome_iff_exists.mp this

end Altrios.Proofs.MassL
