import Altrios.Network
import Mathlib.Order.Defs.LinearOrder
import Mathlib.Order.Basic
import Mathlib.Tactic.SplitIfs
import Mathlib.Data.List.Basic
/-
  Helper lemmas for C16 (network validation): the IEEE comparison tables of `Num`, the
  `windows(2)` combinators versus `List.Pairwise`, and for every element validator of
  `Altrios/Network.lean` its characterisation by the corresponding documented rule.
-/
set_option linter.unusedSectionVars false
set_option linter.unusedVariables false
namespace Altrios.Proofs.NetL
open Altrios Altrios.Net

variable {α : Type} [LinearOrder α]

/-! ### `Num`: IEEE comparisons -/

theorem lt_trans' {a b c : Num α} (h1 : a.lt b = true) (h2 : b.lt c = true) : a.lt c = true := by
  cases a <;> cases b <;> cases c <;> simp_all [Num.lt]
  exact lt_trans h1 h2

theorem lt_irrefl' (a : Num α) : a.lt a = false := by
  cases a <;> simp [Num.lt]

theorem lt_asymm' {a b : Num α} (h : a.lt b = true) : b.lt a = false := by
  cases a <;> cases b <;> simp_all [Num.lt]
  exact le_of_lt h

theorem eq_symm' (a b : Num α) : a.eq b = b.eq a := by
  cases a <;> cases b <;> simp [Num.eq, eq_comm]

theorem eq_trans' {a b c : Num α} (h1 : a.eq b = true) (h2 : b.eq c = true) : a.eq c = true := by
  cases a <;> cases b <;> cases c <;> simp_all [Num.eq]

theorem lt_of_lt_of_eq' {a b c : Num α} (h1 : a.lt b = true) (h2 : b.eq c = true) :
    a.lt c = true := by
  cases a <;> cases b <;> cases c <;> simp_all [Num.lt, Num.eq]

theorem lt_of_eq_of_lt' {a b c : Num α} (h1 : a.eq b = true) (h2 : b.lt c = true) :
    a.lt c = true := by
  cases a <;> cases b <;> cases c <;> simp_all [Num.lt, Num.eq]

theorem eq_false_of_lt {a b : Num α} (h : a.lt b = true) : a.eq b = false := by
  cases a <;> cases b <;> simp_all [Num.lt, Num.eq]
  exact ne_of_lt h

theorem eq_false_of_gt {a b : Num α} (h : b.lt a = true) : a.eq b = false := by
  rw [eq_symm']; exact eq_false_of_lt h

theorem le_of_lt' {a b : Num α} (h : a.lt b = true) : a.le b = true := by
  simp [Num.le, h]

theorem le_of_eq' {a b : Num α} (h : a.eq b = true) : a.le b = true := by
  simp [Num.le, h]

theorem le_iff {a b : Num α} : a.le b = true ↔ a.lt b = true ∨ a.eq b = true := by
  simp [Num.le]

theorem le_trans' {a b c : Num α} (h1 : a.le b = true) (h2 : b.le c = true) : a.le c = true := by
  rw [le_iff] at *
  rcases h1 with h1 | h1 <;> rcases h2 with h2 | h2
  · exact Or.inl (lt_trans' h1 h2)
  · exact Or.inl (lt_of_lt_of_eq' h1 h2)
  · exact Or.inl (lt_of_eq_of_lt' h1 h2)
  · exact Or.inr (eq_trans' h1 h2)

theorem le_antisymm' {a b : Num α} (h1 : a.le b = true) (h2 : b.le a = true) : a.eq b = true := by
  rw [le_iff] at *
  rcases h1 with h1 | h1
  · rcases h2 with h2 | h2
    · rw [lt_asymm' h1] at h2; cases h2
    · rw [eq_symm']; exact h2
  · exact h1

theorem lt_of_lt_of_le' {a b c : Num α} (h1 : a.lt b = true) (h2 : b.le c = true) :
    a.lt c = true := by
  rw [le_iff] at h2
  rcases h2 with h2 | h2
  · exact lt_trans' h1 h2
  · exact lt_of_lt_of_eq' h1 h2

theorem lt_of_le_of_lt' {a b c : Num α} (h1 : a.le b = true) (h2 : b.lt c = true) :
    a.lt c = true := by
  rw [le_iff] at h1
  rcases h1 with h1 | h1
  · exact lt_trans' h1 h2
  · exact lt_of_eq_of_lt' h1 h2

theorem not_lt_of_le' {a b : Num α} (h : a.le b = true) : b.lt a = false := by
  rw [le_iff] at h
  rcases h with h | h
  · exact lt_asymm' h
  · cases a <;> cases b <;> simp_all [Num.lt, Num.eq]

theorem nan_left_of_lt {a b : Num α} (h : a.lt b = true) : a.isNan = false := by
  cases a <;> cases b <;> simp_all [Num.lt, Num.isNan]
theorem nan_right_of_lt {a b : Num α} (h : a.lt b = true) : b.isNan = false := by
  cases a <;> cases b <;> simp_all [Num.lt, Num.isNan]
theorem nan_left_of_eq {a b : Num α} (h : a.eq b = true) : a.isNan = false := by
  cases a <;> cases b <;> simp_all [Num.eq, Num.isNan]
theorem nan_right_of_eq {a b : Num α} (h : a.eq b = true) : b.isNan = false := by
  cases a <;> cases b <;> simp_all [Num.eq, Num.isNan]
theorem nan_left_of_le {a b : Num α} (h : a.le b = true) : a.isNan = false := by
  rw [le_iff] at h; rcases h with h | h
  · exact nan_left_of_lt h
  · exact nan_left_of_eq h
theorem nan_right_of_le {a b : Num α} (h : a.le b = true) : b.isNan = false := by
  rw [le_iff] at h; rcases h with h | h
  · exact nan_right_of_lt h
  · exact nan_right_of_eq h

/-- on numbers (no NaN) the order is total: `¬ (a > b)` is `a ≤ b` -/
theorem le_of_not_gt {a b : Num α} (ha : a.isNan = false) (hb : b.isNan = false)
    (h : b.lt a = false) : a.le b = true := by
  cases a <;> cases b <;> simp_all [Num.lt, Num.le, Num.eq, Num.isNan]
  exact lt_or_eq_of_le h

theorem gt_def (a b : Num α) : a.gt b = b.lt a := rfl
theorem ge_def (a b : Num α) : a.ge b = b.le a := rfl
theorem ne_def (a b : Num α) : a.ne b = !(a.eq b) := rfl

/-- on numbers, `¬ (a ≥ b)` is `a < b` -/
theorem lt_of_not_ge {a b : Num α} (ha : a.isNan = false) (hb : b.isNan = false)
    (h : b.le a = false) : a.lt b = true := by
  cases a with
  | fin x =>
    cases b with
    | fin y =>
      simp_all [Num.lt, Num.le, Num.eq, Num.isNan]
      exact lt_of_le_of_ne h.1 (fun e => h.2 e.symm)
    | _ => simp_all [Num.lt, Num.le, Num.eq, Num.isNan]
  | _ => cases b <;> simp_all [Num.lt, Num.le, Num.eq, Num.isNan]

theorem not_ge_of_lt {a b : Num α} (h : a.lt b = true) : b.le a = false := by
  cases hle : b.le a
  · rfl
  · rw [not_lt_of_le' hle] at h; cases h

theorem finite_iff (x : Num α) : x.isFinite = true ↔ (x.isNan = false ∧ x.isInfinite = false) := by
  cases x <;> simp [Num.isFinite, Num.isNan, Num.isInfinite]

/-! ### `partial_cmp` and the `si_chk_*` helpers -/

theorem partialCmp_lt {a b : Num α} : Num.partialCmp a b = some .lt ↔ a.lt b = true := by
  unfold Num.partialCmp; split_ifs <;> simp_all

theorem partialCmp_eq {a b : Num α} : Num.partialCmp a b = some .eq ↔ a.eq b = true := by
  unfold Num.partialCmp
  split_ifs with h1 h2 h3 <;> simp_all
  exact eq_false_of_lt h1

theorem partialCmp_gt {a b : Num α} : Num.partialCmp a b = some .gt ↔ b.lt a = true := by
  unfold Num.partialCmp
  split_ifs with h1 h2 h3 <;> simp_all
  · exact lt_asymm' h1
  · have := eq_false_of_gt (a := a) (b := b); grind

theorem partialCmp_cases (a b : Num α) :
    (Num.partialCmp a b = some .lt ∧ a.lt b = true) ∨
    (Num.partialCmp a b = some .eq ∧ a.eq b = true ∧ a.lt b = false) ∨
    (Num.partialCmp a b = some .gt ∧ b.lt a = true ∧ a.lt b = false ∧ a.eq b = false) ∨
    (Num.partialCmp a b = none ∧ a.lt b = false ∧ a.eq b = false ∧ b.lt a = false) := by
  unfold Num.partialCmp
  split_ifs with h1 h2 h3 <;> simp_all

theorem chkGez_iff (c : NumCfg α) (x : Num α) :
    chkGez c x = true ↔ Num.le (.fin c.zero) x = true := by
  unfold chkGez
  rcases partialCmp_cases x (.fin c.zero) with h | h | h | h <;> rw [h.1] <;> simp only [le_iff]
  · simp [lt_asymm' h.2, eq_false_of_gt h.2]
  · simp [eq_symm' _ x, h.2.1]
  · simp [h.2.1]
  · simp [h.2.2.2, eq_symm' _ x, h.2.2.1]

theorem chkGtz_iff (c : NumCfg α) (x : Num α) :
    chkGtz c x = true ↔ Num.lt (.fin c.zero) x = true := by
  unfold chkGtz
  rcases partialCmp_cases x (.fin c.zero) with h | h | h | h <;> rw [h.1]
  · simp [lt_asymm' h.2]
  · have := eq_false_of_lt (a := Num.fin c.zero) (b := x)
    rw [eq_symm'] at this
    simp only [reduceCtorEq, false_iff, Bool.not_eq_true]
    cases hh : (Num.fin c.zero).lt x
    · rfl
    · rw [this hh] at h; simp at h
  · simp [h.2.1]
  · simp [h.2.2.2]

theorem chkEqz_iff (c : NumCfg α) (x : Num α) :
    chkEqz c x = true ↔ Num.eq x (.fin c.zero) = true := by
  simp [chkEqz, Num.ne]

theorem chkNumFin_iff (x : Num α) : chkNumFin x = true ↔ x.isFinite = true := by
  cases x <;> simp [chkNumFin, Num.isFinite, Num.isNan, Num.isInfinite]

theorem chkNum_iff (x : Num α) : chkNum x = true ↔ x.isNan = false := by
  simp [chkNum]

/-! ### `windows(2)` -/

section win
variable {β : Type}

theorem win2any_eq_not_all (p : β → β → Bool) (l : List β) :
    win2any p l = !(win2all (fun a b => !(p a b)) l) := by
  induction l with
  | nil => rfl
  | cons a t ih =>
    cases t with
    | nil => rfl
    | cons b t' => simp only [win2any, win2all, ih, Bool.not_and, Bool.not_not]

theorem win2all_cons_cons (p : β → β → Bool) (a b : β) (t : List β) :
    win2all p (a :: b :: t) = (p a b && win2all p (b :: t)) := rfl

/-- neighbouring pairs, by index -/
theorem win2all_iff_index (p : β → β → Bool) (l : List β) :
    win2all p l = true ↔ ∀ i a b, l[i]? = some a → l[i + 1]? = some b → p a b = true := by
  induction l with
  | nil => simp [win2all]
  | cons x t ih =>
    cases t with
    | nil => simp [win2all]
    | cons y t' =>
      rw [win2all_cons_cons, Bool.and_eq_true, ih]
      constructor
      · rintro ⟨h0, h⟩ i a b ha hb
        cases i with
        | zero => simp at ha hb; subst ha; subst hb; exact h0
        | succ j => exact h j a b (by simpa using ha) (by simpa using hb)
      · intro h
        exact ⟨h 0 x y (by simp) (by simp), fun i a b ha hb => h (i + 1) a b (by simpa using ha) (by simpa using hb)⟩

theorem win2all_of_pairwise (p : β → β → Bool) (l : List β)
    (h : l.Pairwise (fun a b => p a b = true)) : win2all p l = true := by
  induction l with
  | nil => rfl
  | cons x t ih =>
    cases t with
    | nil => rfl
    | cons y t' =>
      rw [win2all_cons_cons, Bool.and_eq_true]
      rw [List.pairwise_cons] at h
      exact ⟨h.1 y (by simp), ih h.2⟩

/-- neighbouring pairs give all pairs when the relation is transitive on the members -/
theorem pairwise_of_win2all (p : β → β → Bool) (l : List β)
    (htr : ∀ a ∈ l, ∀ b ∈ l, ∀ c ∈ l, p a b = true → p b c = true → p a c = true)
    (h : win2all p l = true) : l.Pairwise (fun a b => p a b = true) := by
  induction l with
  | nil => exact List.Pairwise.nil
  | cons x t ih =>
    cases t with
    | nil => exact List.pairwise_singleton _ _
    | cons y t' =>
      rw [win2all_cons_cons, Bool.and_eq_true] at h
      have ih' := ih (fun a ha b hb c hc => htr a (by simp [ha]) b (by simp [hb]) c (by simp [hc])) h.2
      rw [List.pairwise_cons]
      refine ⟨?_, ih'⟩
      intro z hz
      rw [List.mem_cons] at hz
      rcases hz with rfl | hz
      · exact h.1
      · rw [List.pairwise_cons] at ih'
        exact htr x (by simp) y (by simp) z (by simp [hz]) h.1 (ih'.1 z hz)

theorem win2all_map {γ : Type} (f : β → γ) (p : γ → γ → Bool) (l : List β) :
    win2all p (l.map f) = win2all (fun a b => p (f a) (f b)) l := by
  induction l with
  | nil => rfl
  | cons x t ih =>
    cases t with
    | nil => rfl
    | cons y t' =>
      simp only [List.map_cons, win2all_cons_cons] at ih ⊢
      rw [ih]

theorem win2all_congr (p q : β → β → Bool) (l : List β)
    (h : ∀ a ∈ l, ∀ b ∈ l, p a b = q a b) : win2all p l = win2all q l := by
  induction l with
  | nil => rfl
  | cons x t ih =>
    cases t with
    | nil => rfl
    | cons y t' =>
      rw [win2all_cons_cons, win2all_cons_cons, h x (by simp) y (by simp),
        ih (fun a ha b hb => h a (by simp [ha]) b (by simp [hb]))]

/-- in a pairwise-related list every element is the last one or related to it -/
theorem rel_last_of_pairwise (R : β → β → Prop) (l : List β) (la : β)
    (hp : l.Pairwise R) (hl : l.getLast? = some la) : ∀ x ∈ l, x = la ∨ R x la := by
  induction l with
  | nil => simp
  | cons y t ih =>
    intro x hx
    rw [List.pairwise_cons] at hp
    cases t with
    | nil =>
      simp at hl hx; subst hl; exact Or.inl hx
    | cons z t' =>
      have hl' : (z :: t').getLast? = some la := by simpa [List.getLast?_cons_cons] using hl
      have hla : la ∈ z :: t' := List.mem_of_getLast? hl'
      rw [List.mem_cons] at hx
      rcases hx with rfl | hx
      · exact Or.inr (hp.1 la hla)
      · exact ih hp.2 hl' x hx

/-- … and is the first one or the first is related to it -/
theorem rel_head_of_pairwise (R : β → β → Prop) (l : List β) (f : β)
    (hp : l.Pairwise R) (hf : l.head? = some f) : ∀ x ∈ l, x = f ∨ R f x := by
  cases l with
  | nil => simp
  | cons y t =>
    simp at hf; subst hf
    intro x hx
    rw [List.pairwise_cons] at hp
    rw [List.mem_cons] at hx
    rcases hx with rfl | hx
    · exact Or.inl rfl
    · exact Or.inr (hp.1 x hx)

end win

/-! ### offset profiles (elevations, headings) -/

theorem spanErr_none_iff (c : NumCfg α) (offs : List (Num α)) (len : Num α) :
    spanErr c offs len = none ↔ offs = [] := by
  cases offs with
  | nil => simp [spanErr]
  | cons a t =>
    have : ((a :: t).getLast?).isSome := by simp
    obtain ⟨l, hl⟩ := Option.isSome_iff_exists.mp this
    simp [spanErr, hl]

theorem spanErr_false_iff (c : NumCfg α) (offs : List (Num α)) (len : Num α) :
    spanErr c offs len = some false ↔
      (∃ o, offs.head? = some o ∧ Num.eq o (.fin c.zero) = true) ∧
      (∃ o, offs.getLast? = some o ∧ Num.eq o len = true) := by
  unfold spanErr
  cases h1 : offs.head? with
  | none => simp
  | some f =>
    cases h2 : offs.getLast? with
    | none => simp
    | some l => simp [Num.ne]

theorem profile_iff (c : NumCfg α) (offs : List (Num α)) (len : Num α) :
    (offs.all (chkGez c) = true ∧ 2 ≤ offs.length ∧ win2all Num.lt offs = true ∧
      spanErr c offs len = some false) ↔ ProfileOK c offs len := by
  constructor
  · rintro ⟨_, h2, h3, h4⟩
    rw [spanErr_false_iff] at h4
    exact ⟨h2, pairwise_of_win2all _ _ (fun a _ b _ c _ => lt_trans') h3, h4.1, h4.2⟩
  · rintro ⟨h2, hs, hf, hl⟩
    refine ⟨?_, h2, win2all_of_pairwise _ _ hs, (spanErr_false_iff c offs len).mpr ⟨hf, hl⟩⟩
    rw [List.all_eq_true]
    intro x hx
    obtain ⟨f, hf1, hf2⟩ := hf
    rw [chkGez_iff]
    rcases rel_head_of_pairwise _ offs f hs hf1 x hx with rfl | h
    · rw [eq_symm'] at hf2; exact le_of_eq' hf2
    · rw [eq_symm'] at hf2; exact le_of_lt' (lt_of_eq_of_lt' hf2 h)

theorem elevs_all_iff (c : NumCfg α) (es : List (Elev α)) :
    es.all (elevValid c) = true ↔
      ((es.map (·.offset)).all (chkGez c) = true ∧ ∀ e ∈ es, e.elev.isFinite = true) := by
  simp only [List.all_eq_true, List.mem_map, elevValid, Bool.and_eq_true, chkNumFin_iff]
  constructor
  · intro h
    exact ⟨by rintro x ⟨e, he, rfl⟩; exact (h e he).1, fun e he => (h e he).2⟩
  · rintro ⟨h1, h2⟩ e he
    exact ⟨h1 _ ⟨e, he, rfl⟩, h2 e he⟩

theorem elevs_iff (c : NumCfg α) (es : List (Elev α)) (len : Num α) :
    ((!es.isEmpty && elevsValid c es) = true ∧ spanErr c (es.map (·.offset)) len = some false) ↔
      ElevsOK c es len := by
  constructor
  · rintro ⟨h1, h2⟩
    rw [Bool.and_eq_true] at h1
    obtain ⟨hne, hv⟩ := h1
    unfold elevsValid at hv
    rw [if_neg (by simpa using hne)] at hv
    simp only [Bool.and_eq_true, decide_eq_true_eq] at hv
    obtain ⟨⟨ha, hl⟩, hw⟩ := hv
    rw [elevs_all_iff] at ha
    refine ⟨(profile_iff c _ len).mp ⟨ha.1, by simpa using hl, ?_, h2⟩, ha.2⟩
    rw [win2all_map]; exact hw
  · rintro ⟨hp, hf⟩
    have hp' := (profile_iff c _ len).mpr hp
    obtain ⟨h1, h2, h3, h4⟩ := hp'
    have hne : es ≠ [] := by
      intro h; subst h; simp at h2
    refine ⟨?_, h4⟩
    rw [Bool.and_eq_true]
    refine ⟨by simpa using hne, ?_⟩
    unfold elevsValid
    rw [if_neg (by simpa using hne)]
    simp only [Bool.and_eq_true, decide_eq_true_eq]
    refine ⟨⟨(elevs_all_iff c es).mpr ⟨h1, hf⟩, by simpa using h2⟩, ?_⟩
    rw [win2all_map] at h3; exact h3

theorem headingValid_iff (c : NumCfg α) (h : Heading α) :
    headingValid c h = true ↔
      (chkGez c h.offset = true ∧ Num.le (.fin c.zero) h.heading = true ∧
        Num.lt h.heading (.fin c.rev) = true) := by
  unfold headingValid
  simp only [Bool.and_eq_true, Bool.not_eq_true', ge_def, chkGez_iff]
  constructor
  · rintro ⟨⟨h1, h2⟩, h3⟩
    exact ⟨h1, h2, lt_of_not_ge (nan_right_of_le h2) (by simp [Num.isNan]) h3⟩
  · rintro ⟨h1, h2, h3⟩
    exact ⟨⟨h1, h2⟩, not_ge_of_lt h3⟩

theorem headings_all_iff (c : NumCfg α) (hs : List (Heading α)) :
    hs.all (headingValid c) = true ↔
      ((hs.map (·.offset)).all (chkGez c) = true ∧
        ∀ h ∈ hs, Num.le (.fin c.zero) h.heading = true ∧ Num.lt h.heading (.fin c.rev) = true) := by
  simp only [List.all_eq_true, List.mem_map, headingValid_iff]
  constructor
  · intro h
    exact ⟨by rintro x ⟨e, he, rfl⟩; exact (h e he).1, fun e he => (h e he).2⟩
  · rintro ⟨h1, h2⟩ e he
    exact ⟨h1 _ ⟨e, he, rfl⟩, h2 e he⟩

theorem headings_iff (c : NumCfg α) (hs : List (Heading α)) (len : Num α) :
    ((hs.isEmpty || (!hs.isEmpty && headingsValid c hs)) = true ∧
      (if hs.isEmpty then some false else spanErr c (hs.map (·.offset)) len) = some false) ↔
      HeadingsOK c hs len := by
  unfold HeadingsOK
  cases hs with
  | nil => simp
  | cons h0 t =>
    simp only [List.isEmpty_cons, Bool.false_or, Bool.not_false, Bool.true_and, Bool.false_eq_true,
      if_false, reduceCtorEq, false_or]
    constructor
    · rintro ⟨hv, h2⟩
      unfold headingsValid at hv
      rw [if_neg (by simp)] at hv
      simp only [Bool.and_eq_true, decide_eq_true_eq] at hv
      obtain ⟨⟨ha, hl⟩, hw⟩ := hv
      rw [headings_all_iff] at ha
      refine ⟨(profile_iff c _ len).mp ⟨ha.1, by simpa using hl, ?_, h2⟩, ha.2⟩
      rw [win2all_map]; exact hw
    · rintro ⟨hp, hf⟩
      obtain ⟨h1, h2, h3, h4⟩ := (profile_iff c _ len).mpr hp
      refine ⟨?_, h4⟩
      unfold headingsValid
      rw [if_neg (by simp)]
      simp only [Bool.and_eq_true, decide_eq_true_eq]
      refine ⟨⟨(headings_all_iff c _).mpr ⟨h1, hf⟩, by simpa using h2⟩, ?_⟩
      rw [win2all_map] at h3; exact h3

/-! ### speed limits -/

theorem speedLimitValid_iff (c : NumCfg α) (s : SpeedLimit α) :
    speedLimitValid c s = true ↔ SpeedLimitOK c s := by
  unfold speedLimitValid SpeedLimitOK
  simp only [Bool.and_eq_true, Bool.not_eq_true', gt_def, chkGez_iff, chkNum_iff]
  constructor
  · rintro ⟨⟨⟨h1, h2⟩, h3⟩, h4⟩
    exact ⟨h1, le_of_not_gt (nan_right_of_le h1) (nan_right_of_le h2) h4, h3⟩
  · rintro ⟨h1, h2, h3⟩
    exact ⟨⟨⟨h1, le_trans' h1 h2⟩, h3⟩, not_lt_of_le' h2⟩

/-- the derived lexicographic `<=`, component-wise -/
theorem slLe_iff (a b : SpeedLimit α) :
    slLe a b = true ↔
      (Num.lt a.offsetStart b.offsetStart = true ∨
        (Num.eq a.offsetStart b.offsetStart = true ∧
          (Num.lt a.offsetEnd b.offsetEnd = true ∨
            (Num.eq a.offsetEnd b.offsetEnd = true ∧ Num.le a.speed b.speed = true)))) := by
  unfold slLe slPartialCmp
  rcases partialCmp_cases a.offsetStart b.offsetStart with h | h | h | h <;> rw [h.1]
  · simp [h.2]
  · simp only [h.2.2, h.2.1, Bool.false_eq_true, false_or, true_and]
    rcases partialCmp_cases a.offsetEnd b.offsetEnd with g | g | g | g <;> rw [g.1]
    · simp [g.2]
    · simp only [g.2.2, g.2.1, Bool.false_eq_true, false_or, true_and]
      rcases partialCmp_cases a.speed b.speed with k | k | k | k <;> rw [k.1]
      · simp [le_iff, k.2]
      · simp [le_iff, k.2.1]
      · simp [le_iff, k.2.2.1, k.2.2.2]
      · simp [le_iff, k.2.1, k.2.2.1]
    · simp [g.2.2.1, g.2.2.2]
    · simp [g.2.1, g.2.2.1]
  · simp [h.2.2.1, h.2.2.2]
  · simp [h.2.1, h.2.2.1]

theorem slLe_trans {a b c : SpeedLimit α} (h1 : slLe a b = true) (h2 : slLe b c = true) :
    slLe a c = true := by
  rw [slLe_iff] at *
  rcases h1 with h1 | ⟨h1, h1'⟩
  · rcases h2 with h2 | ⟨h2, _⟩
    · exact Or.inl (lt_trans' h1 h2)
    · exact Or.inl (lt_of_lt_of_eq' h1 h2)
  · rcases h2 with h2 | ⟨h2, h2'⟩
    · exact Or.inl (lt_of_eq_of_lt' h1 h2)
    · refine Or.inr ⟨eq_trans' h1 h2, ?_⟩
      rcases h1' with h1' | ⟨h1', h1''⟩
      · rcases h2' with h2' | ⟨h2', _⟩
        · exact Or.inl (lt_trans' h1' h2')
        · exact Or.inl (lt_of_lt_of_eq' h1' h2')
      · rcases h2' with h2' | ⟨h2', h2''⟩
        · exact Or.inl (lt_of_eq_of_lt' h1' h2')
        · exact Or.inr ⟨eq_trans' h1' h2', le_trans' h1'' h2''⟩

/-- sorted by (start, end, …): if the outer two of three have the same bounds, so do the first two -/
theorem sameBounds_squeeze {a b x : SpeedLimit α} (h1 : slLe a b = true) (h2 : slLe b x = true)
    (h3 : slSameBounds a x = true) : slSameBounds a b = true := by
  rw [slLe_iff] at h1 h2
  unfold slSameBounds at *
  rw [Bool.and_eq_true] at *
  obtain ⟨hs, he⟩ := h3
  rcases h1 with h1 | ⟨h1, h1'⟩
  · -- a.start < b.start ≤ x.start = a.start
    exfalso
    have : Num.lt a.offsetStart x.offsetStart = true := by
      rcases h2 with h2 | ⟨h2, _⟩
      · exact lt_trans' h1 h2
      · exact lt_of_lt_of_eq' h1 h2
    rw [eq_false_of_lt this] at hs; cases hs
  · refine ⟨h1, ?_⟩
    rcases h2 with h2 | ⟨h2, h2'⟩
    · exfalso
      have := lt_of_eq_of_lt' h1 h2
      rw [eq_false_of_lt this] at hs; cases hs
    · -- a.end ≤ b.end ≤ x.end = a.end
      have hab : Num.le a.offsetEnd b.offsetEnd = true := by
        rcases h1' with h | ⟨h, _⟩
        · exact le_of_lt' h
        · exact le_of_eq' h
      have hbx : Num.le b.offsetEnd x.offsetEnd = true := by
        rcases h2' with h | ⟨h, _⟩
        · exact le_of_lt' h
        · exact le_of_eq' h
      have hxa : Num.le x.offsetEnd a.offsetEnd = true := by
        rw [eq_symm'] at he; exact le_of_eq' he
      exact le_antisymm' hab (le_trans' hbx hxa)

/-- in a sorted list, "no two neighbours with the same bounds" is "no two with the same bounds" -/
theorem unique_of_sorted (ls : List (SpeedLimit α))
    (hs : ls.Pairwise (fun a b => slLe a b = true))
    (hu : win2all (fun a b => !(slSameBounds a b)) ls = true) :
    ls.Pairwise (fun a b => slSameBounds a b = false) := by
  induction ls with
  | nil => exact List.Pairwise.nil
  | cons a t ih =>
    cases t with
    | nil => exact List.pairwise_singleton _ _
    | cons b t' =>
      rw [win2all_cons_cons, Bool.and_eq_true] at hu
      rw [List.pairwise_cons] at hs
      have ih' := ih hs.2 hu.2
      rw [List.pairwise_cons]
      refine ⟨?_, ih'⟩
      intro x hx
      have hab : slSameBounds a b = false := by simpa using hu.1
      rw [List.mem_cons] at hx
      rcases hx with rfl | hx
      · exact hab
      · cases hax : slSameBounds a x
        · rfl
        · have hbx : slLe b x = true := (List.pairwise_cons.mp hs.2).1 x hx
          rw [sameBounds_squeeze (hs.1 b (by simp)) hbx hax] at hab; cases hab

theorem speedLimits_iff (c : NumCfg α) (ls : List (SpeedLimit α)) (hne : ls ≠ []) :
    speedLimitsValid c ls = true ↔
      ((∀ l ∈ ls, SpeedLimitOK c l) ∧ ls.Pairwise (fun a b => slLe a b = true) ∧
        ls.Pairwise (fun a b => slSameBounds a b = false)) := by
  unfold speedLimitsValid
  rw [if_neg (by simpa using hne)]
  constructor
  · intro h
    by_cases hall : ls.all (speedLimitValid c) = true
    · rw [if_neg (by simp [hall])] at h
      rw [List.all_eq_true] at hall
      rw [Bool.and_eq_true, win2any_eq_not_all] at h
      have hs := pairwise_of_win2all slLe ls (fun a _ b _ c _ h1 h2 => slLe_trans h1 h2) h.2
      refine ⟨fun l hl => (speedLimitValid_iff c l).mp (hall l hl), hs, unique_of_sorted ls hs ?_⟩
      simpa using h.1
    · rw [if_pos (by simp [hall])] at h; cases h
  · rintro ⟨h1, h2, h3⟩
    have hall : ls.all (speedLimitValid c) = true := by
      rw [List.all_eq_true]; exact fun l hl => (speedLimitValid_iff c l).mpr (h1 l hl)
    rw [if_neg (by simp [hall]), Bool.and_eq_true, win2any_eq_not_all]
    refine ⟨?_, win2all_of_pairwise _ _ h2⟩
    simp only [Bool.not_not]
    apply win2all_of_pairwise
    exact h3.imp (fun h => by simp [h])

/-! ### speed parameters -/

theorem speedParamValid_iff (c : NumCfg α) (p : SpeedParam α) :
    speedParamValid c p = true ↔ SpeedParamOK c p := by
  unfold speedParamValid SpeedParamOK
  have hg := chkGez_iff c p.limitVal
  unfold chkGez at hg
  rw [Bool.and_eq_true, hg]
  simp only [Bool.not_eq_true', Bool.and_eq_false_iff, decide_eq_false_iff_not]
  constructor
  · rintro ⟨h1, h2⟩
    exact ⟨h1, fun ht => h2.resolve_left (fun h => h ht)⟩
  · rintro ⟨h1, h2⟩
    refine ⟨h1, ?_⟩
    by_cases ht : p.limitType = .axleCount
    · exact Or.inr (h2 ht)
    · exact Or.inl ht

theorem speedParams_iff (c : NumCfg α) (ps : List (SpeedParam α)) :
    speedParamsValid c ps = true ↔
      ((∀ p ∈ ps, SpeedParamOK c p) ∧
        ∀ i a b, ps[i]? = some a → ps[i + 1]? = some b → spEq a b = false) := by
  unfold speedParamsValid
  constructor
  · intro h
    by_cases hall : ps.all (speedParamValid c) = true
    · rw [if_neg (by simp [hall])] at h
      rw [List.all_eq_true] at hall
      rw [win2any_eq_not_all] at h
      simp only [Bool.not_not] at h
      rw [win2all_iff_index] at h
      exact ⟨fun p hp => (speedParamValid_iff c p).mp (hall p hp),
        fun i a b ha hb => by simpa using h i a b ha hb⟩
    · rw [if_pos (by simp [hall])] at h; cases h
  · rintro ⟨h1, h2⟩
    have hall : ps.all (speedParamValid c) = true := by
      rw [List.all_eq_true]; exact fun l hl => (speedParamValid_iff c l).mpr (h1 l hl)
    rw [if_neg (by simp [hall]), win2any_eq_not_all]
    simp only [Bool.not_not]
    rw [win2all_iff_index]
    exact fun i a b ha hb => by simp [h2 i a b ha hb]

/-! ### speed sets -/

/-- a speed set that has restrictions is valid exactly when it is well-formed -/
theorem speedSet_real_iff (c : NumCfg α) (s : SpeedSet α) :
    ((!s.speedLimits.isEmpty && speedSetValid c s) = true) ↔ SpeedSetOK c s := by
  constructor
  · intro h
    rw [Bool.and_eq_true] at h
    obtain ⟨hne, hv⟩ := h
    have hne' : s.speedLimits ≠ [] := by simpa using hne
    unfold speedSetValid at hv
    rw [if_neg (by simpa using hne')] at hv
    simp only [Bool.and_eq_true] at hv
    obtain ⟨⟨_, hl⟩, hp⟩ := hv
    rw [speedLimits_iff c _ hne'] at hl
    rw [speedParams_iff] at hp
    exact ⟨hne', hl.1, hl.2.1, hl.2.2, hp.1, hp.2⟩
  · rintro ⟨hne, h1, h2, h3, h4, h5⟩
    rw [Bool.and_eq_true]
    refine ⟨by simpa using hne, ?_⟩
    unfold speedSetValid
    rw [if_neg (by simpa using hne)]
    simp only [Bool.and_eq_true]
    exact ⟨⟨by simpa using hne, (speedLimits_iff c _ hne).mpr ⟨h1, h2, h3⟩⟩,
      (speedParams_iff c _).mpr ⟨h4, h5⟩⟩

/-- a speed set without restrictions (only allowed on the dummy link) -/
theorem speedSet_fake_iff (c : NumCfg α) (s : SpeedSet α) :
    ((s.speedLimits.isEmpty && speedSetValid c s) = true) ↔
      (s.speedLimits = [] ∧ s.speedParams = [] ∧ s.isHeadEnd = false) := by
  constructor
  · intro h
    rw [Bool.and_eq_true] at h
    obtain ⟨he, hv⟩ := h
    have he' : s.speedLimits = [] := by simpa using he
    unfold speedSetValid at hv
    rw [if_pos he] at hv
    simp only [Bool.and_eq_true, Bool.not_eq_true'] at hv
    exact ⟨he', by simpa using hv.1.2, hv.2⟩
  · rintro ⟨h1, h2, h3⟩
    unfold speedSetValid
    simp [h1, h2, h3, speedLimitsValid]

theorem speedSets_iff (c : NumCfg α) (m : List (TrainType × SpeedSet α)) :
    speedSetsValid c m = true ↔ ∀ kv ∈ m, SpeedSetOK c kv.2 := by
  unfold speedSetsValid
  rw [List.all_eq_true]
  exact forall₂_congr (fun kv _ => speedSet_real_iff c kv.2)

theorem speedFields_iff (c : NumCfg α) (l : Link α) :
    speedFieldsOk c l = true ↔ SpeedFieldsOK c l := by
  unfold speedFieldsOk SpeedFieldsOK
  by_cases he : l.speedSets = []
  · simp only [he, List.isEmpty_nil, Bool.not_true, Bool.false_eq_true, if_false, ne_eq,
      not_true_eq_false, false_and, true_and, false_or]
    cases hs : l.speedSet with
    | none => simp
    | some s =>
      have := speedSet_real_iff c s
      simp only [Bool.and_eq_true, Bool.not_eq_true', List.isEmpty_eq_false_iff] at this
      simpa using this
  · have : l.speedSets.isEmpty = false := by simpa using he
    simp only [this, Bool.not_false, if_true, Bool.and_eq_true, speedSets_iff, ne_eq, he,
      not_false_eq_true, true_and, false_and, or_false, Option.isNone_iff_eq_none]
    exact ⟨fun h => ⟨h.2, h.1⟩, fun h => ⟨h.2, h.1⟩⟩

/-! ### catenary sections -/

theorem catValid_iff (c : NumCfg α) (x : CatPowerLimit α) :
    catValid c x = true ↔
      (Num.le (.fin c.zero) x.offsetStart = true ∧ Num.le x.offsetStart x.offsetEnd = true ∧
        Num.le (.fin c.zero) x.powerLimit = true) := by
  unfold catValid
  simp only [Bool.and_eq_true, Bool.not_eq_true', gt_def, chkGez_iff]
  constructor
  · rintro ⟨⟨⟨h1, h2⟩, h3⟩, h4⟩
    exact ⟨h1, le_of_not_gt (nan_right_of_le h1) (nan_right_of_le h2) h4, h3⟩
  · rintro ⟨h1, h2, h3⟩
    exact ⟨⟨⟨h1, le_trans' h1 h2⟩, h3⟩, not_lt_of_le' h2⟩

theorem catSpanErr_none_iff (c : NumCfg α) (xs : List (CatPowerLimit α)) (len : Num α) :
    catSpanErr c xs len = none ↔ xs = [] := by
  cases xs with
  | nil => simp [catSpanErr]
  | cons a t =>
    have : ((a :: t).getLast?).isSome := by simp
    obtain ⟨l, hl⟩ := Option.isSome_iff_exists.mp this
    simp [catSpanErr, hl]

theorem cats_iff (c : NumCfg α) (xs : List (CatPowerLimit α)) (len : Num α)
    (hlen : len.isNan = false) :
    (catsValid c xs = true ∧
      (if xs.isEmpty then some false else catSpanErr c xs len) = some false) ↔
      CatsOK c xs len := by
  have hcongr : ∀ (hall : ∀ x ∈ xs, catValid c x = true),
      win2all (fun a b => !(Num.gt a.offsetEnd b.offsetStart)) xs =
      win2all (fun a b => Num.le a.offsetEnd b.offsetStart) xs := by
    intro hall
    apply win2all_congr
    intro a ha b hb
    have hav := (catValid_iff c a).mp (hall a ha)
    have hbv := (catValid_iff c b).mp (hall b hb)
    rw [gt_def]
    cases hle : Num.le a.offsetEnd b.offsetStart
    · cases hlt : Num.lt b.offsetStart a.offsetEnd
      · rw [le_of_not_gt (nan_right_of_le hav.2.1) (nan_right_of_le hbv.1) hlt] at hle; cases hle
      · rfl
    · simp [not_lt_of_le' hle]
  constructor
  · rintro ⟨hv, hspan⟩
    unfold catsValid at hv
    by_cases hall : xs.all (catValid c) = true
    · rw [if_neg (by simp [hall]), win2any_eq_not_all] at hv
      simp only [Bool.not_not] at hv
      rw [List.all_eq_true] at hall
      rw [hcongr hall] at hv
      have hpw : xs.Pairwise (fun a b => Num.le a.offsetEnd b.offsetStart = true) := by
        apply pairwise_of_win2all (fun (a b : CatPowerLimit α) => Num.le a.offsetEnd b.offsetStart) xs _ hv
        intro a _ b hb d _ h1 h2
        exact le_trans' h1 (le_trans' ((catValid_iff c b).mp (hall b hb)).2.1 h2)
      refine ⟨?_, hpw⟩
      intro x hx
      have hxv := (catValid_iff c x).mp (hall x hx)
      refine ⟨hxv.1, hxv.2.1, ?_, hxv.2.2⟩
      have hne : xs ≠ [] := List.ne_nil_of_mem hx
      rw [if_neg (by simpa using hne)] at hspan
      unfold catSpanErr at hspan
      cases hh : xs.head? with
      | none => simp [hh] at hspan
      | some f =>
        cases hl : xs.getLast? with
        | none => simp [hh, hl] at hspan
        | some la =>
          simp only [hh, hl, Option.some.injEq, Bool.or_eq_false_iff, gt_def] at hspan
          have hla : la ∈ xs := List.mem_of_getLast? hl
          have hlav := (catValid_iff c la).mp (hall la hla)
          have hlast : Num.le la.offsetEnd len = true :=
            le_of_not_gt (nan_right_of_le hlav.2.1) hlen hspan.2
          rcases rel_last_of_pairwise _ xs la hpw hl x hx with rfl | hr
          · exact hlast
          · exact le_trans' hr (le_trans' hlav.2.1 hlast)
    · rw [if_pos (by simp [hall])] at hv; cases hv
  · rintro ⟨he, hd⟩
    have hall : ∀ x ∈ xs, catValid c x = true :=
      fun x hx => (catValid_iff c x).mpr ⟨(he x hx).1, (he x hx).2.1, (he x hx).2.2.2⟩
    constructor
    · unfold catsValid
      rw [if_neg (by simp [List.all_eq_true.mpr hall]), win2any_eq_not_all]
      simp only [Bool.not_not]
      rw [hcongr hall]
      exact win2all_of_pairwise _ _ hd
    · by_cases hne : xs = []
      · simp [hne]
      · rw [if_neg (by simpa using hne)]
        unfold catSpanErr
        cases hh : xs.head? with
        | none => simp at hh; exact absurd hh hne
        | some f =>
          cases hl : xs.getLast? with
          | none => simp at hl; exact absurd hl hne
          | some la =>
            have hf : f ∈ xs := List.mem_of_head? hh
            have hla : la ∈ xs := List.mem_of_getLast? hl
            simp only [Option.some.injEq, Bool.or_eq_false_iff, gt_def]
            exact ⟨not_lt_of_le' (he f hf).1, not_lt_of_le' (he la hla).2.2.1⟩

/-! ### `ObjState for Link` -/

theorem headSpan_ne_none (c : NumCfg α) (hs : List (Heading α)) (len : Num α) :
    (if hs.isEmpty then some false else spanErr c (hs.map (·.offset)) len) ≠ none := by
  cases hs with
  | nil => simp
  | cons a t =>
    simp only [List.isEmpty_cons, Bool.false_eq_true, if_false, ne_eq, spanErr_none_iff]
    simp

theorem catSpan_ne_none (c : NumCfg α) (xs : List (CatPowerLimit α)) (len : Num α) :
    (if xs.isEmpty then some false else catSpanErr c xs len) ≠ none := by
  cases xs with
  | nil => simp
  | cons a t =>
    simp only [List.isEmpty_cons, Bool.false_eq_true, if_false, ne_eq, catSpanErr_none_iff]
    simp

theorem validateLink_fake (c : NumCfg α) (l : Link α) (h0 : l.idxCurr = 0) :
    validateLink c l = .ok ↔ DummyLink c l := by
  unfold validateLink
  rw [if_pos h0]
  have hsplit : ∀ b : Bool, ((if b = true then Outcome.ok else Outcome.err) = Outcome.ok) ↔ b = true := by
    intro b; cases b <;> simp
  rw [hsplit]
  simp only [Bool.and_eq_true, decide_eq_true_eq, chkEqz_iff]
  have he : (l.elevs.isEmpty = true ∧ elevsValid c l.elevs = true) ↔ l.elevs = [] := by
    constructor
    · intro h; simpa using h.1
    · intro h; simp [h, elevsValid]
  have hh : (l.headings.isEmpty = true ∧ headingsValid c l.headings = true) ↔ l.headings = [] := by
    constructor
    · intro h; simpa using h.1
    · intro h; simp [h, headingsValid]
  have hm : (l.speedSets.isEmpty = true ∧ speedSetsValid c l.speedSets = true) ↔ l.speedSets = [] := by
    constructor
    · intro h; simpa using h.1
    · intro h; simp [h, speedSetsValid]
  rw [he, hh, hm]
  cases hss : l.speedSet with
  | none =>
    simp only [and_true]
    constructor
    · rintro ⟨⟨⟨⟨⟨⟨⟨⟨⟨⟨h1, h2⟩, h3⟩, h4⟩, h5⟩, h6⟩, h7⟩, h8⟩, h9⟩, h10⟩, h12⟩
      exact ⟨h5, h6, h1, h2, h3, h4, h7, h8, h9, h10, Or.inl hss, by simpa using h12⟩
    · rintro ⟨h5, h6, h1, h2, h3, h4, h7, h8, h9, h10, _, h12⟩
      exact ⟨⟨⟨⟨⟨⟨⟨⟨⟨⟨h1, h2⟩, h3⟩, h4⟩, h5⟩, h6⟩, h7⟩, h8⟩, h9⟩, h10⟩, by simpa using h12⟩
  | some s =>
    have hf := speedSet_fake_iff c s
    simp only [hf]
    constructor
    · rintro ⟨⟨⟨⟨⟨⟨⟨⟨⟨⟨⟨h1, h2⟩, h3⟩, h4⟩, h5⟩, h6⟩, h7⟩, h8⟩, h9⟩, h10⟩, h11⟩, h12⟩
      exact ⟨h5, h6, h1, h2, h3, h4, h7, h8, h9, h10, Or.inr ⟨s, hss, h11⟩, by simpa using h12⟩
    · rintro ⟨h5, h6, h1, h2, h3, h4, h7, h8, h9, h10, h11, h12⟩
      refine ⟨⟨⟨⟨⟨⟨⟨⟨⟨⟨⟨h1, h2⟩, h3⟩, h4⟩, h5⟩, h6⟩, h7⟩, h8⟩, h9⟩, h10⟩, ?_⟩, by simpa using h12⟩
      rcases h11 with h11 | ⟨s', hs', h11⟩
      · rw [hss] at h11; cases h11
      · rw [hss] at hs'; cases hs'; exact h11

/-- the real branch, with the three `unwrap` sites resolved -/
theorem validateLink_real_eq (c : NumCfg α) (l : Link α) (h0 : l.idxCurr ≠ 0) :
    validateLink c l =
      if !(chkGtz c l.length &&
           (!l.elevs.isEmpty && elevsValid c l.elevs) &&
           (l.headings.isEmpty || (!l.headings.isEmpty && headingsValid c l.headings)) &&
           speedFieldsOk c l &&
           catsValid c l.catPowerLimits)
      then .err
      else
        match spanErr c (l.elevs.map (·.offset)) l.length,
          (if l.headings.isEmpty then some false else spanErr c (l.headings.map (·.offset)) l.length),
          (if l.catPowerLimits.isEmpty then some false else catSpanErr c l.catPowerLimits l.length) with
        | some eElev, some eHead, some eCat =>
          if (decide (l.idxFlip ≠ 0) &&
              (decide (l.idxCurr = l.idxFlip) || decide (l.idxNext = l.idxFlip) ||
               decide (l.idxNextAlt = l.idxFlip) || decide (l.idxPrev = l.idxFlip) ||
               decide (l.idxPrevAlt = l.idxFlip))) ||
             (decide (l.idxNextAlt ≠ 0) && decide (l.idxNext = 0)) ||
             (decide (l.idxPrevAlt ≠ 0) && decide (l.idxPrev = 0)) || eElev || eHead || eCat
          then .err else .ok
        | _, _, _ => .panic := by
  unfold validateLink
  rw [if_neg h0]
  generalize (!(chkGtz c l.length &&
           (!l.elevs.isEmpty && elevsValid c l.elevs) &&
           (l.headings.isEmpty || (!l.headings.isEmpty && headingsValid c l.headings)) &&
           speedFieldsOk c l &&
           catsValid c l.catPowerLimits)) = A
  cases A
  · simp only [Bool.false_eq_true, if_false]
    have h2 := headSpan_ne_none c l.headings l.length
    have h3 := catSpan_ne_none c l.catPowerLimits l.length
    cases hE : spanErr c (l.elevs.map (·.offset)) l.length with
    | none => rfl
    | some e1 =>
      cases hH : (if l.headings.isEmpty then some false else spanErr c (l.headings.map (·.offset)) l.length) with
      | none => exact absurd hH h2
      | some e2 =>
        cases hC : (if l.catPowerLimits.isEmpty then some false else catSpanErr c l.catPowerLimits l.length) with
        | none => exact absurd hC h3
        | some e3 => rfl
  · rfl

theorem validateLink_real (c : NumCfg α) (l : Link α) (h0 : l.idxCurr ≠ 0) :
    validateLink c l = .ok ↔ LinkOK c l := by
  rw [validateLink_real_eq c l h0]
  constructor
  · intro h
    by_cases hA : (chkGtz c l.length &&
           (!l.elevs.isEmpty && elevsValid c l.elevs) &&
           (l.headings.isEmpty || (!l.headings.isEmpty && headingsValid c l.headings)) &&
           speedFieldsOk c l &&
           catsValid c l.catPowerLimits) = true
    · rw [if_neg (by simp [hA])] at h
      simp only [Bool.and_eq_true (chkGtz c l.length && _ && _ && _),
        Bool.and_eq_true (chkGtz c l.length && _ && _),
        Bool.and_eq_true (chkGtz c l.length && _),
        Bool.and_eq_true (chkGtz c l.length)] at hA
      obtain ⟨⟨⟨⟨hlen, hel⟩, hhd⟩, hsp⟩, hct⟩ := hA
      rw [chkGtz_iff] at hlen
      split at h
      next e1 e2 e3 hE hH hC =>
        split at h
        · cases h
        · rename_i hcond
          simp only [Bool.or_eq_true, not_or, Bool.not_eq_true, Bool.and_eq_false_iff,
            Bool.or_eq_false_iff, decide_eq_false_iff_not, ne_eq, not_not] at hcond
          obtain ⟨⟨⟨⟨⟨hfl, hna⟩, hpa⟩, he1⟩, he2⟩, he3⟩ := hcond
          subst he1; subst he2; subst he3
          exact {
            real := h0
            length := hlen
            elevs := (elevs_iff c _ _).mp ⟨hel, hE⟩
            headings := (headings_iff c _ _).mp ⟨hhd, hH⟩
            speed := (speedFields_iff c l).mp hsp
            cats := (cats_iff c _ _ (nan_right_of_lt hlen)).mp ⟨hct, hC⟩
            flipDistinct := by omega
            nextAlt := by omega
            prevAlt := by omega }
      next => cases h
    · rw [if_pos (by rw [Bool.not_eq_true', Bool.eq_false_iff]; exact hA)] at h; cases h
  · intro h
    have hel := (elevs_iff c l.elevs l.length).mpr h.elevs
    have hhd := (headings_iff c l.headings l.length).mpr h.headings
    have hsp := (speedFields_iff c l).mpr h.speed
    have hct := (cats_iff c l.catPowerLimits l.length (nan_right_of_lt h.length)).mpr h.cats
    have hlen := (chkGtz_iff c l.length).mpr h.length
    rw [if_neg (by simp [hlen, hel.1, hhd.1, hsp, hct.1]), hel.2, hhd.2, hct.2]
    have hfd := h.flipDistinct
    have hna := h.nextAlt
    have hpa := h.prevAlt
    simp only [Bool.or_false]
    rw [if_neg]
    simp only [Bool.or_eq_true, Bool.and_eq_true, decide_eq_true_eq, ne_eq]
    omega

theorem validateLink_ne_panic (c : NumCfg α) (l : Link α) : validateLink c l ≠ .panic := by
  by_cases h0 : l.idxCurr = 0
  · unfold validateLink
    rw [if_pos h0]
    split_ifs <;> simp
  · rw [validateLink_real_eq c l h0]
    by_cases hA : (chkGtz c l.length &&
           (!l.elevs.isEmpty && elevsValid c l.elevs) &&
           (l.headings.isEmpty || (!l.headings.isEmpty && headingsValid c l.headings)) &&
           speedFieldsOk c l &&
           catsValid c l.catPowerLimits) = true
    · rw [if_neg (by simp [hA])]
      have hne : l.elevs ≠ [] := by
        intro he; simp [he] at hA
      have h1 : spanErr c (l.elevs.map (·.offset)) l.length ≠ none := by
        rw [ne_eq, spanErr_none_iff]; simpa using hne
      have h2 := headSpan_ne_none c l.headings l.length
      have h3 := catSpan_ne_none c l.catPowerLimits l.length
      obtain ⟨e1, he1⟩ := Option.ne_none_iff_exists'.mp h1
      obtain ⟨e2, he2⟩ := Option.ne_none_iff_exists'.mp h2
      obtain ⟨e3, he3⟩ := Option.ne_none_iff_exists'.mp h3
      rw [he1, he2, he3]
      simp only
      split_ifs <;> simp
    · rw [if_pos (by rw [Bool.not_eq_true', Bool.eq_false_iff]; exact hA)]; simp

/-! ### `ObjState for [Link]` -/

theorem combine_ok_iff (os : List Outcome) : combine os = .ok ↔ ∀ o ∈ os, o = .ok := by
  induction os with
  | nil => simp [combine]
  | cons o t ih =>
    cases o with
    | ok => simp [combine, ih]
    | err =>
      simp only [combine, List.mem_cons, forall_eq_or_imp, reduceCtorEq, false_and, iff_false]
      cases combine t <;> simp
    | panic => simp [combine]

theorem combine_ne_panic (os : List Outcome) (h : ∀ o ∈ os, o ≠ .panic) : combine os ≠ .panic := by
  induction os with
  | nil => simp [combine]
  | cons o t ih =>
    have iht := ih (fun o ho => h o (by simp [ho]))
    cases o with
    | ok => simpa [combine] using iht
    | err =>
      simp only [combine]
      cases hc : combine t with
      | ok => simp
      | err => simp
      | panic => exact absurd hc iht
    | panic => exact absurd rfl (h .panic (by simp))

theorem mem_crossAll (n : List (Link α)) (i : Nat) (rest : List (Link α)) (o : Outcome) :
    o ∈ crossAll n i rest ↔ ∃ k l, rest[k]? = some l ∧ o = crossLink n (i + k) l := by
  induction rest generalizing i with
  | nil => simp [crossAll]
  | cons x t ih =>
    simp only [crossAll, List.mem_cons, ih]
    constructor
    · rintro (rfl | ⟨k, l, hk, rfl⟩)
      · exact ⟨0, x, by simp, by simp⟩
      · exact ⟨k + 1, l, by simpa using hk, by rw [show i + (k + 1) = i + 1 + k by omega]⟩
    · rintro ⟨k, l, hk, rfl⟩
      cases k with
      | zero => simp at hk; subst hk; exact Or.inl (by simp)
      | succ k' =>
        exact Or.inr ⟨k', l, by simpa using hk, by rw [show i + (k' + 1) = i + 1 + k' by omega]⟩

/-- the cross-reference rules about one link (the fields of `Consistent` at one position) -/
structure CrossOK (n : List (Link α)) (i : Nat) (l : Link α) : Prop where
  index : l.idxCurr = i
  refs : l.idxFlip < n.length ∧ l.idxNext < n.length ∧ l.idxNextAlt < n.length ∧
    l.idxPrev < n.length ∧ l.idxPrevAlt < n.length
  flip : l.idxFlip ≠ 0 → ∃ f, n[l.idxFlip]? = some f ∧ f.idxFlip = i
  nextRecip : ∀ j, (j = l.idxNext ∨ j = l.idxNextAlt) → j ≠ 0 →
    ∃ m, n[j]? = some m ∧ (m.idxPrev = i ∨ m.idxPrevAlt = i)
  prevRecip : ∀ j, (j = l.idxPrev ∨ j = l.idxPrevAlt) → j ≠ 0 →
    ∃ m, n[j]? = some m ∧ (m.idxNext = i ∨ m.idxNextAlt = i)
  switchNext : l.idxNextAlt ≠ 0 →
    ∀ j, (j = l.idxNext ∨ j = l.idxNextAlt) → ∀ m, n[j]? = some m → m.idxPrevAlt = 0
  switchPrev : l.idxPrevAlt ≠ 0 →
    ∀ j, (j = l.idxPrev ∨ j = l.idxPrevAlt) → ∀ m, n[j]? = some m → m.idxNextAlt = 0

theorem crossLink_oob (n : List (Link α)) (i : Nat) (l : Link α)
    (h : ¬ (l.idxFlip < n.length ∧ l.idxNext < n.length ∧ l.idxNextAlt < n.length ∧
      l.idxPrev < n.length ∧ l.idxPrevAlt < n.length)) : crossLink n i l = .err := by
  unfold crossLink
  rw [if_pos]
  simp only [List.any_cons, List.any_nil, Bool.or_false, Bool.or_eq_true, decide_eq_true_eq]
  omega

/-- with all references in range, the loop body never indexes out of bounds and its verdict is
    the disjunction of the individual checks -/
theorem crossLink_inrange (n : List (Link α)) (i : Nat) (l f a b p q : Link α)
    (hf : n[l.idxFlip]? = some f) (ha : n[l.idxNext]? = some a) (hb : n[l.idxNextAlt]? = some b)
    (hp : n[l.idxPrev]? = some p) (hq : n[l.idxPrevAlt]? = some q) :
    crossLink n i l =
      if (decide (l.idxCurr ≠ i) || decide (l.idxFlip = l.idxCurr) ||
          (decide (l.idxFlip ≠ 0) && decide (f.idxFlip ≠ l.idxCurr)) ||
          (if l.idxNext ≠ 0 then
            (!(isLinkedPrev a l.idxCurr) || (decide (l.idxNextAlt ≠ 0) && decide (a.idxPrevAlt ≠ 0)) ||
             !(isLinkedPrev b l.idxCurr) || (decide (l.idxNextAlt ≠ 0) && decide (b.idxPrevAlt ≠ 0)))
           else decide (l.idxNextAlt ≠ 0)) ||
          (if l.idxPrev ≠ 0 then
            (!(isLinkedNext p l.idxCurr) || (decide (l.idxPrevAlt ≠ 0) && decide (p.idxNextAlt ≠ 0)) ||
             !(isLinkedNext q l.idxCurr) || (decide (l.idxPrevAlt ≠ 0) && decide (q.idxNextAlt ≠ 0)))
           else decide (l.idxPrevAlt ≠ 0))) = true
      then .err else .ok := by
  have hr : ¬ ([l.idxFlip, l.idxNext, l.idxNextAlt, l.idxPrev, l.idxPrevAlt].any
      (fun j => decide (n.length ≤ j)) = true) := by
    have h1 := (List.getElem?_eq_some_iff.mp hf).1
    have h2 := (List.getElem?_eq_some_iff.mp ha).1
    have h3 := (List.getElem?_eq_some_iff.mp hb).1
    have h4 := (List.getElem?_eq_some_iff.mp hp).1
    have h5 := (List.getElem?_eq_some_iff.mp hq).1
    simp only [List.any_cons, List.any_nil, Bool.or_false, Bool.or_eq_true, decide_eq_true_eq]
    omega
  unfold crossLink
  rw [if_neg hr]
  unfold nextErr prevErr
  rw [hf, ha, hb, hp, hq]
  by_cases h1 : l.idxFlip = 0 <;> by_cases h2 : l.idxNext = 0 <;> by_cases h3 : l.idxPrev = 0 <;>
    simp [h1, h2, h3]

theorem nextPart_iff (l a b : Link α) (ha0 : a.idxCurr = 0 ↔ l.idxNext = 0)
    (hb0 : b.idxCurr = 0 ↔ l.idxNextAlt = 0) (hna : l.idxNextAlt ≠ 0 → l.idxNext ≠ 0) :
    (if l.idxNext ≠ 0 then
        (!(isLinkedPrev a l.idxCurr) || (decide (l.idxNextAlt ≠ 0) && decide (a.idxPrevAlt ≠ 0)) ||
         !(isLinkedPrev b l.idxCurr) || (decide (l.idxNextAlt ≠ 0) && decide (b.idxPrevAlt ≠ 0)))
       else decide (l.idxNextAlt ≠ 0)) = false ↔
      ((l.idxNext = 0 ∨ a.idxPrev = l.idxCurr ∨ a.idxPrevAlt = l.idxCurr) ∧
       (l.idxNextAlt = 0 ∨ b.idxPrev = l.idxCurr ∨ b.idxPrevAlt = l.idxCurr) ∧
       (l.idxNextAlt = 0 ∨ (a.idxPrevAlt = 0 ∧ b.idxPrevAlt = 0))) := by
  by_cases h2 : l.idxNext = 0
  · simp only [h2, ne_eq, not_true_eq_false, if_false, decide_eq_false_iff_not, not_not, true_or,
      true_and]
    constructor <;> intro h <;> omega
  · simp only [h2, isLinkedPrev, ne_eq, not_false_eq_true, if_true, Bool.or_eq_false_iff,
      Bool.and_eq_false_iff, Bool.not_eq_false', decide_eq_false_iff_not, decide_eq_true_eq,
      Bool.or_eq_true, not_not, false_or]
    constructor <;> intro h <;> omega

theorem prevPart_iff (l p q : Link α) (hp0 : p.idxCurr = 0 ↔ l.idxPrev = 0)
    (hq0 : q.idxCurr = 0 ↔ l.idxPrevAlt = 0) (hpa : l.idxPrevAlt ≠ 0 → l.idxPrev ≠ 0) :
    (if l.idxPrev ≠ 0 then
        (!(isLinkedNext p l.idxCurr) || (decide (l.idxPrevAlt ≠ 0) && decide (p.idxNextAlt ≠ 0)) ||
         !(isLinkedNext q l.idxCurr) || (decide (l.idxPrevAlt ≠ 0) && decide (q.idxNextAlt ≠ 0)))
       else decide (l.idxPrevAlt ≠ 0)) = false ↔
      ((l.idxPrev = 0 ∨ p.idxNext = l.idxCurr ∨ p.idxNextAlt = l.idxCurr) ∧
       (l.idxPrevAlt = 0 ∨ q.idxNext = l.idxCurr ∨ q.idxNextAlt = l.idxCurr) ∧
       (l.idxPrevAlt = 0 ∨ (p.idxNextAlt = 0 ∧ q.idxNextAlt = 0))) := by
  by_cases h2 : l.idxPrev = 0
  · simp only [h2, ne_eq, not_true_eq_false, if_false, decide_eq_false_iff_not, not_not, true_or,
      true_and]
    constructor <;> intro h <;> omega
  · simp only [h2, isLinkedNext, ne_eq, not_false_eq_true, if_true, Bool.or_eq_false_iff,
      Bool.and_eq_false_iff, Bool.not_eq_false', decide_eq_false_iff_not, decide_eq_true_eq,
      Bool.or_eq_true, not_not, false_or]
    constructor <;> intro h <;> omega

theorem crossLink_ok_iff (n : List (Link α)) (i : Nat) (l : Link α)
    (H0 : ∀ j m, n[j]? = some m → (m.idxCurr = 0 ↔ j = 0))
    (hcurr : l.idxCurr ≠ 0)
    (hfd : l.idxFlip ≠ 0 → l.idxFlip ≠ l.idxCurr)
    (hna : l.idxNextAlt ≠ 0 → l.idxNext ≠ 0) (hpa : l.idxPrevAlt ≠ 0 → l.idxPrev ≠ 0) :
    crossLink n i l = .ok ↔ CrossOK n i l := by
  by_cases hr : (l.idxFlip < n.length ∧ l.idxNext < n.length ∧ l.idxNextAlt < n.length ∧
      l.idxPrev < n.length ∧ l.idxPrevAlt < n.length)
  · obtain ⟨r1, r2, r3, r4, r5⟩ := hr
    have hf := List.getElem?_eq_getElem r1
    have ha := List.getElem?_eq_getElem r2
    have hb := List.getElem?_eq_getElem r3
    have hp := List.getElem?_eq_getElem r4
    have hq := List.getElem?_eq_getElem r5
    generalize n[l.idxFlip] = f at hf
    generalize n[l.idxNext] = a at ha
    generalize n[l.idxNextAlt] = b at hb
    generalize n[l.idxPrev] = p at hp
    generalize n[l.idxPrevAlt] = q at hq
    rw [crossLink_inrange n i l f a b p q hf ha hb hp hq]
    have hite : ∀ (b : Bool), ((if b = true then Outcome.err else Outcome.ok) = .ok) ↔ b = false := by
      intro b; cases b <;> simp
    rw [hite, Bool.or_eq_false_iff, Bool.or_eq_false_iff, Bool.or_eq_false_iff, Bool.or_eq_false_iff,
      nextPart_iff l a b (H0 _ a ha) (H0 _ b hb) hna, prevPart_iff l p q (H0 _ p hp) (H0 _ q hq) hpa]
    simp only [Bool.and_eq_false_iff, decide_eq_false_iff_not, ne_eq, not_not]
    constructor
    · rintro ⟨⟨⟨⟨h1, h1'⟩, h2⟩, h3, h4, h7⟩, h5, h6, h8⟩
      subst h1
      refine ⟨rfl, ⟨r1, r2, r3, r4, r5⟩, fun hne => ⟨f, hf, h2.resolve_left hne⟩, ?_, ?_, ?_, ?_⟩
      · rintro j (rfl | rfl) hj
        · exact ⟨a, ha, h3.resolve_left hj⟩
        · exact ⟨b, hb, h4.resolve_left hj⟩
      · rintro j (rfl | rfl) hj
        · exact ⟨p, hp, h5.resolve_left hj⟩
        · exact ⟨q, hq, h6.resolve_left hj⟩
      · rintro hne j (rfl | rfl) m hm
        · rw [ha] at hm; cases hm; exact (h7.resolve_left hne).1
        · rw [hb] at hm; cases hm; exact (h7.resolve_left hne).2
      · rintro hne j (rfl | rfl) m hm
        · rw [hp] at hm; cases hm; exact (h8.resolve_left hne).1
        · rw [hq] at hm; cases hm; exact (h8.resolve_left hne).2
    · intro h
      have hi := h.index
      subst hi
      refine ⟨⟨⟨⟨rfl, ?_⟩, ?_⟩, ?_, ?_, ?_⟩, ?_, ?_, ?_⟩
      · intro he
        have := hfd (by omega)
        exact this he
      · by_cases hne : l.idxFlip = 0
        · exact Or.inl hne
        · obtain ⟨f', hf', h'⟩ := h.flip hne
          rw [hf] at hf'; cases hf'; exact Or.inr h'
      · by_cases hne : l.idxNext = 0
        · exact Or.inl hne
        · obtain ⟨m, hm, h'⟩ := h.nextRecip _ (Or.inl rfl) hne
          rw [ha] at hm; cases hm; exact Or.inr h'
      · by_cases hne : l.idxNextAlt = 0
        · exact Or.inl hne
        · obtain ⟨m, hm, h'⟩ := h.nextRecip _ (Or.inr rfl) hne
          rw [hb] at hm; cases hm; exact Or.inr h'
      · by_cases hne : l.idxNextAlt = 0
        · exact Or.inl hne
        · exact Or.inr ⟨h.switchNext hne _ (Or.inl rfl) a ha, h.switchNext hne _ (Or.inr rfl) b hb⟩
      · by_cases hne : l.idxPrev = 0
        · exact Or.inl hne
        · obtain ⟨m, hm, h'⟩ := h.prevRecip _ (Or.inl rfl) hne
          rw [hp] at hm; cases hm; exact Or.inr h'
      · by_cases hne : l.idxPrevAlt = 0
        · exact Or.inl hne
        · obtain ⟨m, hm, h'⟩ := h.prevRecip _ (Or.inr rfl) hne
          rw [hq] at hm; cases hm; exact Or.inr h'
      · by_cases hne : l.idxPrevAlt = 0
        · exact Or.inl hne
        · exact Or.inr ⟨h.switchPrev hne _ (Or.inl rfl) p hp, h.switchPrev hne _ (Or.inr rfl) q hq⟩
  · rw [crossLink_oob n i l hr]
    constructor
    · intro h; cases h
    · intro h; exact absurd h.refs hr

theorem crossLink_ne_panic (n : List (Link α)) (i : Nat) (l : Link α) :
    crossLink n i l ≠ .panic := by
  by_cases hr : (l.idxFlip < n.length ∧ l.idxNext < n.length ∧ l.idxNextAlt < n.length ∧
      l.idxPrev < n.length ∧ l.idxPrevAlt < n.length)
  · obtain ⟨r1, r2, r3, r4, r5⟩ := hr
    rw [crossLink_inrange n i l _ _ _ _ _ (List.getElem?_eq_getElem r1) (List.getElem?_eq_getElem r2)
      (List.getElem?_eq_getElem r3) (List.getElem?_eq_getElem r4) (List.getElem?_eq_getElem r5)]
    split_ifs <;> simp
  · rw [crossLink_oob n i l hr]; simp

end Altrios.Proofs.NetL
