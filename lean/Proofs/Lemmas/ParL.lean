import Altrios.Par
import Mathlib.Data.List.Basic
import Mathlib.Data.List.Perm.Basic
import Mathlib.Data.List.Nodup
import Mathlib.Data.List.Range
/-
  Helper lemmas for C18 (`Altrios/Par.lean`): closed forms of `runSchedule` and `runSerial`
  (what each element is after a run; which errors were produced), Bool ↔ Prop bridges for
  `nodupB` / `isArrangement`, and the order-independence lemmas for folds over hash containers.
-/
namespace Altrios.Proofs.ParL
open Altrios.Par

variable {ε χ : Type}

/-! ### one step -/

theorem stepAt_fst_length (walk : Walk ε χ) (st : St ε χ) (j : Nat) :
    (stepAt walk st j).1.length = st.1.length := by
  unfold stepAt
  split
  · rfl
  · split <;> simp

theorem stepAt_fst_getElem? (walk : Walk ε χ) (st : St ε χ) (j i : Nat) :
    (stepAt walk st j).1[i]? =
      if i = j then (st.1[j]?).map (fun e => (walk e).1) else st.1[i]? := by
  unfold stepAt
  split
  · next h =>
    split_ifs with hij
    · subst hij; simp [h]
    · rfl
  · next e h =>
    have hj : j < st.1.length := (List.getElem?_eq_some_iff.mp h).1
    have he : st.1[j] = e := (List.getElem?_eq_some_iff.mp h).2
    split
    · next e' hw =>
      simp only [List.getElem?_set]
      by_cases hij : i = j
      · subst hij; simp [hj, he, hw]
      · have : ¬ j = i := fun h => hij h.symm
        simp [hij, this]
    · next e' err hw =>
      simp only [List.getElem?_set]
      by_cases hij : i = j
      · subst hij; simp [hj, he, hw]
      · have : ¬ j = i := fun h => hij h.symm
        simp [hij, this]

/-- the error (if any) that walking element `j` of `b` produces, tagged with `j` -/
def errOf (walk : Walk ε χ) (b : List ε) (j : Nat) : Option (Nat × χ) :=
  (b[j]?).bind (fun e => ((walk e).2).map (fun err => (j, err)))

theorem stepAt_snd (walk : Walk ε χ) (st : St ε χ) (j : Nat) :
    (stepAt walk st j).2 = st.2 ++ (errOf walk st.1 j).toList := by
  unfold stepAt errOf
  split
  · next h => simp [h]
  · next e h =>
    split
    · next e' hw => simp [h, hw]
    · next e' err hw => simp [h, hw]

theorem errOf_congr (walk : Walk ε χ) (b b' : List ε) (k : Nat) (h : b'[k]? = b[k]?) :
    errOf walk b' k = errOf walk b k := by
  unfold errOf; rw [h]

/-! ### a whole run (fold over the processed indices) -/

theorem foldl_fst_getElem? (walk : Walk ε χ) (l : List Nat) (hl : l.Nodup) (st : St ε χ) (i : Nat) :
    (l.foldl (stepAt walk) st).1[i]? =
      if i ∈ l then (st.1[i]?).map (fun e => (walk e).1) else st.1[i]? := by
  induction l generalizing st with
  | nil => simp
  | cons j t ih =>
    have hj : j ∉ t := (List.nodup_cons.mp hl).1
    have ht : t.Nodup := (List.nodup_cons.mp hl).2
    rw [List.foldl_cons, ih ht, stepAt_fst_getElem?]
    by_cases hij : i = j
    · subst hij; simp [hj]
    · simp [hij]

theorem foldl_fst_length (walk : Walk ε χ) (l : List Nat) (st : St ε χ) :
    (l.foldl (stepAt walk) st).1.length = st.1.length := by
  induction l generalizing st with
  | nil => rfl
  | cons j t ih => rw [List.foldl_cons, ih, stepAt_fst_length]

theorem foldl_snd (walk : Walk ε χ) (l : List Nat) (hl : l.Nodup) (st : St ε χ) :
    (l.foldl (stepAt walk) st).2 = st.2 ++ l.filterMap (errOf walk st.1) := by
  induction l generalizing st with
  | nil => simp
  | cons j t ih =>
    have hj : j ∉ t := (List.nodup_cons.mp hl).1
    have ht : t.Nodup := (List.nodup_cons.mp hl).2
    rw [List.foldl_cons, ih ht, stepAt_snd]
    have hc : t.filterMap (errOf walk (stepAt walk st j).1) = t.filterMap (errOf walk st.1) := by
      apply List.filterMap_congr
      intro k hk
      apply errOf_congr
      rw [stepAt_fst_getElem?]
      have : k ≠ j := fun h => hj (h ▸ hk)
      simp [this]
    rw [hc, List.filterMap_cons]
    cases h : errOf walk st.1 j <;> simp

/-- closed form of the batch after a run: walked where processed, untouched elsewhere -/
theorem run_fst (walk : Walk ε χ) (b : List ε) (s : Sched) (hs : s.processed.Nodup) :
    (runSchedule walk b s).1 =
      b.mapIdx (fun i e => if i ∈ s.processed then (walk e).1 else e) := by
  apply List.ext_getElem?
  intro i
  unfold runSchedule
  rw [foldl_fst_getElem? walk _ hs, List.getElem?_mapIdx]
  by_cases hi : i ∈ s.processed
  · simp [hi]
  · simp [hi]

/-- closed form of the errors produced by a run -/
theorem run_snd (walk : Walk ε χ) (b : List ε) (s : Sched) (hs : s.processed.Nodup) :
    (runSchedule walk b s).2 = s.processed.filterMap (errOf walk b) := by
  unfold runSchedule
  rw [foldl_snd walk _ hs]; simp

theorem processed_nodup (s : Sched) (h : s.order.Nodup) : s.processed.Nodup :=
  List.Nodup.sublist (List.take_sublist _ _) h

theorem errOf_eq_some (walk : Walk ε χ) (b : List ε) (j : Nat) (p : Nat × χ) :
    errOf walk b j = some p ↔ ∃ (h : j < b.length), (walk b[j]).2 = some p.2 ∧ p.1 = j := by
  unfold errOf
  constructor
  · intro h
    cases hb : b[j]? with
    | none => simp [hb] at h
    | some e =>
      obtain ⟨hj, he⟩ := List.getElem?_eq_some_iff.mp hb
      simp only [hb, Option.bind_some, Option.map_eq_some_iff] at h
      obtain ⟨err, h1, h2⟩ := h
      subst h2
      exact ⟨hj, by rw [he]; exact h1, rfl⟩
  · rintro ⟨hj, hw, hp⟩
    rw [List.getElem?_eq_getElem hj]
    obtain ⟨p1, p2⟩ := p
    simp only at hw hp
    subst hp
    simp [hw]

theorem errOf_eq_none (walk : Walk ε χ) (b : List ε) (j : Nat) :
    errOf walk b j = none ↔ failsAt walk b j = false := by
  unfold errOf failsAt fails
  cases b[j]? with
  | none => simp
  | some e => cases (walk e).2 <;> simp

/-! ### Bool ↔ Prop bridges -/

theorem nodupB_iff (l : List Nat) : nodupB l = true ↔ l.Nodup := by
  induction l with
  | nil => simp [nodupB]
  | cons x xs ih => simp [nodupB, ih, List.nodup_cons]

theorem isArrangement_iff (n : Nat) (l : List Nat) :
    isArrangement n l = true ↔ l.Nodup ∧ (∀ i ∈ l, i < n) ∧ (∀ i, i < n → i ∈ l) := by
  unfold isArrangement
  simp [nodupB_iff, and_assoc]

theorem arrangement_length {n : Nat} {l : List Nat} (h : isArrangement n l = true) : l.length = n := by
  obtain ⟨hn, hlt, hall⟩ := (isArrangement_iff n l).mp h
  have hp : l.Perm (List.range n) := by
    rw [List.perm_ext_iff_of_nodup hn List.nodup_range]
    intro a; simp only [List.mem_range]; exact ⟨hlt a, hall a⟩
  simpa using hp.length_eq

theorem admissible_iff (walk : Walk ε χ) (b : List ε) (s : Sched) :
    s.admissible walk b = true ↔
      isArrangement b.length s.order = true ∧
        (s.order.length ≤ s.stop ∨ ∃ i ∈ s.processed, failsAt walk b i = true) := by
  unfold Sched.admissible
  simp

/-- a complete run processes everything -/
theorem processed_of_complete (s : Sched) (h : s.order.length ≤ s.stop) : s.processed = s.order := by
  unfold Sched.processed; exact List.take_of_length_le h

/-! ### the serial loop -/

theorem firstFail_some (walk : Walk ε χ) (b : List ε) (k : Nat) (h : firstFail walk b = some k) :
    ∃ (hk : k < b.length), fails walk b[k] = true ∧ ∀ j (hj : j < k), fails walk (b[j]'(by omega)) = false := by
  induction b generalizing k with
  | nil => simp [firstFail] at h
  | cons e es ih =>
    unfold firstFail at h
    split_ifs at h with hf
    · cases h
      exact ⟨by simp, by simpa using hf, by intro j hj; omega⟩
    · cases hff : firstFail walk es with
      | none => simp [hff] at h
      | some k' =>
        simp [hff] at h
        subst h
        obtain ⟨hk, h1, h2⟩ := ih k' hff
        refine ⟨by simp; omega, by simpa using h1, ?_⟩
        intro j hj
        cases j with
        | zero => simpa using hf
        | succ j' => simpa using h2 j' (by omega)

theorem firstFail_none (walk : Walk ε χ) (b : List ε) (h : firstFail walk b = none) :
    ∀ e ∈ b, fails walk e = false := by
  induction b with
  | nil => simp
  | cons e es ih =>
    unfold firstFail at h
    split_ifs at h with hf
    cases hff : firstFail walk es with
    | some k' => simp [hff] at h
    | none =>
      intro x hx
      rcases List.mem_cons.mp hx with rfl | hx
      · simpa using hf
      · exact ih hff x hx

/-- the number of elements the serial loop walks -/
def serialStop (walk : Walk ε χ) (b : List ε) : Nat :=
  match firstFail walk b with | some k => k + 1 | none => b.length

theorem serialGo_fst (walk : Walk ε χ) (k : Nat) (b : List ε) :
    (serialGo walk k b).1 = b.mapIdx (fun i e => if i < serialStop walk b then (walk e).1 else e) := by
  induction b generalizing k with
  | nil => simp [serialGo]
  | cons e es ih =>
    rw [List.mapIdx_cons]
    unfold serialGo
    cases hw : walk e with
    | mk e' r =>
      cases r with
      | some err =>
        have hf : fails walk e = true := by simp [fails, hw]
        have hs : serialStop walk (e :: es) = 1 := by simp [serialStop, firstFail, hf]
        simp only [hs]
        congr 1
        apply List.ext_getElem?; intro i; simp [List.getElem?_mapIdx]
      | none =>
        have hf : fails walk e = false := by simp [fails, hw]
        have hs : serialStop walk (e :: es) = serialStop walk es + 1 := by
          simp only [serialStop, firstFail, hf]
          cases firstFail walk es <;> simp
        simp only [hs]
        congr 1
        rw [ih]; apply List.ext_getElem?; intro i; simp [List.getElem?_mapIdx]

theorem serialGo_snd (walk : Walk ε χ) (k : Nat) (b : List ε) :
    (serialGo walk k b).2 =
      (firstFail walk b).bind (fun j => (b[j]?).bind (fun e => ((walk e).2).map (fun err => (k + j, err)))) := by
  induction b generalizing k with
  | nil => simp [serialGo, firstFail]
  | cons e es ih =>
    unfold serialGo
    cases hw : walk e with
    | mk e' r =>
      cases r with
      | some err =>
        have hf : fails walk e = true := by simp [fails, hw]
        simp [firstFail, hf, hw]
      | none =>
        have hf : fails walk e = false := by simp [fails, hw]
        simp only [firstFail, hf]
        rw [ih]
        cases firstFail walk es with
        | none => simp
        | some j =>
          simp only [Option.map_some, Option.bind_some, List.getElem?_cons_succ, Bool.false_eq_true,
            ↓reduceIte]
          cases es[j]? with
          | none => simp
          | some x =>
            have : k + 1 + j = k + (j + 1) := by omega
            simp [this]

/-! ### folds over hash containers -/

theorem carsTotal_eq_sum (l : List Nat) (a : Nat) :
    l.foldl (fun acc n => n + acc) a = a + l.sum := by
  induction l generalizing a with
  | nil => simp
  | cons x xs ih => rw [List.foldl_cons, ih, List.sum_cons]; omega

theorem carsTotal_perm {l₁ l₂ : List Nat} (h : l₁.Perm l₂) : carsTotal l₁ = carsTotal l₂ := by
  unfold carsTotal
  rw [carsTotal_eq_sum, carsTotal_eq_sum, h.sum_nat]

theorem checkedAdd_none (max : Nat) (l : List Nat) : l.foldl (checkedAdd max) none = none := by
  induction l with
  | nil => rfl
  | cons y ys ih => rw [List.foldl_cons]; exact ih

theorem carsTotalChecked_go (max : Nat) (l : List Nat) (a : Nat) (ha : a ≤ max) :
    l.foldl (checkedAdd max) (some a) = if a + l.sum ≤ max then some (a + l.sum) else none := by
  induction l generalizing a with
  | nil => simp [ha]
  | cons x xs ih =>
    rw [List.foldl_cons, List.sum_cons]
    by_cases hx : x + a ≤ max
    · simp only [checkedAdd, hx, ↓reduceIte]
      rw [ih _ hx]
      have : x + a + xs.sum = a + (x + xs.sum) := by omega
      rw [this]
    · simp only [checkedAdd, hx, ↓reduceIte]
      rw [checkedAdd_none]
      have : ¬ a + (x + xs.sum) ≤ max := by omega
      simp [this]

theorem carsTotalChecked_eq (max : Nat) (l : List Nat) :
    carsTotalChecked max l = if carsTotal l ≤ max then some (carsTotal l) else none := by
  unfold carsTotalChecked carsTotal
  rw [carsTotalChecked_go _ _ _ (Nat.zero_le _), carsTotal_eq_sum]

theorem carsTotalWrapping_go (m : Nat) (l : List Nat) (a : Nat) :
    l.foldl (fun acc n => (n + acc) % m) (a % m) = (a + l.sum) % m := by
  induction l generalizing a with
  | nil => simp
  | cons x xs ih =>
    rw [List.foldl_cons, List.sum_cons]
    have : (x + a % m) % m = (x + a) % m := by rw [Nat.add_mod, Nat.mod_mod, ← Nat.add_mod]
    rw [this, ih]
    congr 1; omega

theorem findEntry_perm {κ ν : Type} [BEq κ] [LawfulBEq κ] {l₁ l₂ : List (κ × ν)} (h : l₁.Perm l₂)
    (hk : (l₁.map Prod.fst).Nodup) (k : κ) : findEntry l₁ k = findEntry l₂ k := by
  unfold findEntry
  induction h with
  | nil => rfl
  | cons x _ ih =>
    simp only [List.find?_cons]
    split
    · rfl
    · exact ih (List.nodup_cons.mp (by simpa using hk)).2
  | swap x y l =>
    simp only [List.find?_cons]
    by_cases hx : (x.1 == k) = true <;> by_cases hy : (y.1 == k) = true
    · exfalso
      have h1 : x.1 = k := by simpa using hx
      have h2 : y.1 = k := by simpa using hy
      simp only [List.map_cons, List.nodup_cons, List.mem_cons] at hk
      exact hk.1 (Or.inl (h2.trans h1.symm))
    · simp [hx, hy]
    · simp [hx, hy]
    · simp [hx, hy]
  | trans h₁ _ ih₁ ih₂ =>
    rw [ih₁ hk]
    exact ih₂ ((h₁.map Prod.fst).nodup_iff.mp hk)

theorem validateSlice_isEmpty {ν μ : Type} (check : ν → List μ) (k : Nat) (l : List ν) :
    (validateSlice check k l).isEmpty = l.all (fun v => (check v).isEmpty) := by
  induction l generalizing k with
  | nil => rfl
  | cons v vs ih =>
    simp only [validateSlice, List.all_cons]
    rw [← ih (k + 1)]
    cases h : check v <;> simp

end Altrios.Proofs.ParL
