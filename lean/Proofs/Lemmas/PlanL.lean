import Altrios.FreePath
import Mathlib.Data.List.Basic
import Mathlib.Data.List.Perm.Basic
import Mathlib.Data.List.Chain
import Mathlib.Tactic.SplitIfs
import Mathlib.Order.Basic
/-
  Helper lemmas for `Proofs/C05.lean`: the outcome monad, the raw/checked accesses, the sentinel
  scans of `Altrios/FreePath.lean`.
-/
set_option linter.unusedSectionVars false
namespace Altrios.Proofs.PlanL
open Altrios Altrios.FreePath

/-! ### outcome monad -/

@[simp] theorem bind_ok {σ τ} (v : σ) (f : σ → Out τ) : (Out.ok v >>= f) = f v := rfl
@[simp] theorem bind_fault {σ τ} (e : Fault) (f : σ → Out τ) : (Out.fault e >>= f) = Out.fault e := rfl
@[simp] theorem pure_eq {σ} (v : σ) : (pure v : Out σ) = Out.ok v := rfl

/-- neither undefined behaviour (raw access out of range) nor out of loop fuel -/
def Safe {σ} (r : Out σ) : Prop := r ≠ .fault .oob ∧ r ≠ .fault .fuel

theorem safe_ok {σ} (v : σ) : Safe (Out.ok v) := by constructor <;> simp
theorem safe_assert {σ} : Safe (Out.fault .assert : Out σ) := by constructor <;> simp
theorem safe_index {σ} : Safe (Out.fault .index : Out σ) := by constructor <;> simp
theorem safe_overflow {σ} : Safe (Out.fault .overflow : Out σ) := by constructor <;> simp
theorem safe_unreachable {σ} : Safe (Out.fault .unreachable : Out σ) := by constructor <;> simp

theorem safe_bind {σ τ} (r : Out σ) (f : σ → Out τ) (hr : Safe r) (hf : ∀ v, r = .ok v → Safe (f v)) :
    Safe (r >>= f) := by
  cases r with
  | ok v => exact hf v rfl
  | fault e =>
    rw [bind_fault]
    refine ⟨fun h => hr.1 ?_, fun h => hr.2 ?_⟩
    · cases h; rfl
    · cases h; rfl

/-! ### accesses -/

theorem rawGet_of_lt {τ} (v : List τ) (i : Nat) (h : i < v.length) : rawGet v i = .ok v[i] := by
  unfold rawGet; rw [List.getElem?_eq_getElem h]

theorem rawGet_eq_ok {τ} (v : List τ) (i : Nat) (x : τ) : rawGet v i = .ok x ↔ v[i]? = some x := by
  unfold rawGet
  cases h : v[i]? with
  | none => simp
  | some y => simp [Out.ok.injEq]

theorem rawSet_of_lt {τ} (v : List τ) (i : Nat) (x : τ) (h : i < v.length) :
    rawSet v i x = .ok (v.set i x) := by
  unfold rawSet; rw [if_pos h]

theorem chkGet_safe {τ} (v : List τ) (i : Nat) : Safe (chkGet v i) := by
  unfold chkGet; cases v[i]? with
  | none => exact safe_index
  | some x => exact safe_ok x

theorem chkGet_eq_ok {τ} (v : List τ) (i : Nat) (x : τ) : chkGet v i = .ok x ↔ v[i]? = some x := by
  unfold chkGet
  cases h : v[i]? with
  | none => simp
  | some y => simp [Out.ok.injEq]

/-! ### the generic raw scan `while p(v[i]) { i += 1 }` -/

/-- `while p(*v.get_unchecked(i)) { i += 1 }` -/
def scanP {τ} (p : τ → Bool) (v : List τ) : Nat → Nat → Out Nat
  | 0, _ => .fault .fuel
  | f + 1, i =>
    match v[i]? with
    | none => .fault .oob
    | some x => if p x then scanP p v f (i + 1) else .ok i

theorem scanTrain_eq (dn : List DivNode) (s : Nat) (f i : Nat) :
    scanTrain dn s f i = scanP (fun x => decide (x.1 ≠ s)) dn f i := by
  induction f generalizing i with
  | zero => rfl
  | succ f ih =>
    unfold scanTrain scanP rawGet
    cases h : dn[i]? with
    | none => rfl
    | some x =>
      simp only [bind_ok]
      by_cases hx : x.1 ≠ s
      · simp only [hx, ite_true, decide_true, ne_eq, not_false_eq_true]; exact ih (i + 1)
      · simp only [hx, ite_false, decide_false]; simp

theorem scanSingle_eq (path : List Nat) (c : Nat) (f i : Nat) :
    scanSingle path c f i = scanP (fun x => decide (x ≠ c)) path f i := by
  induction f generalizing i with
  | zero => rfl
  | succ f ih =>
    unfold scanSingle scanP rawGet
    cases h : path[i]? with
    | none => rfl
    | some x =>
      simp only [bind_ok]
      by_cases hx : x ≠ c
      · simp only [hx, ite_true, decide_true, ne_eq, not_false_eq_true]; exact ih (i + 1)
      · simp only [hx, ite_false, decide_false]; simp

theorem scanEq_eq (tb : List Nat) (c : Nat) (f i : Nat) :
    scanEq tb c f i = scanP (fun x => decide (x ≠ c)) tb f i := by
  induction f generalizing i with
  | zero => rfl
  | succ f ih =>
    unfold scanEq scanP rawGet
    cases h : tb[i]? with
    | none => rfl
    | some x =>
      simp only [bind_ok]
      by_cases hx : x ≠ c
      · simp only [hx, ite_true, decide_true, ne_eq, not_false_eq_true]; exact ih (i + 1)
      · simp only [hx, ite_false, decide_false]; simp

/-- A raw scan that starts at or before an in-range stopper `e` (an index where `p` is false) returns
    the first index `j ∈ [i, e]` where `p` is false: every access is in range, the loop terminates. -/
theorem scanP_spec {τ} (p : τ → Bool) (v : List τ) :
    ∀ (f i e : Nat) (he : e < v.length), i ≤ e → p v[e] = false → e - i < f →
      ∃ j, ∃ hj : j < v.length, scanP p v f i = .ok j ∧ i ≤ j ∧ j ≤ e ∧ p v[j] = false ∧
        ∀ k (hk : k < v.length), i ≤ k → k < j → p v[k] = true := by
  intro f
  induction f with
  | zero => intro i e _ _ _ h; omega
  | succ f ih =>
    intro i e he hie hpe hf
    have hi : i < v.length := by omega
    unfold scanP
    rw [List.getElem?_eq_getElem hi]
    by_cases hp : p v[i] = true
    · simp only [hp, ite_true]
      have hne : i ≠ e := by
        intro h; subst h; rw [hp] at hpe; cases hpe
      obtain ⟨j, hj, h1, h2, h3, h4, h5⟩ := ih (i + 1) e he (by omega) hpe (by omega)
      refine ⟨j, hj, h1, by omega, h3, h4, ?_⟩
      intro k hk hik hkj
      by_cases hki : k = i
      · subst hki; exact hp
      · exact h5 k hk (by omega) hkj
    · have hp' : p v[i] = false := by simpa using hp
      simp only [hp', Bool.false_eq_true, ite_false]
      exact ⟨i, hi, rfl, le_refl _, hie, hp', fun k _ h1 h2 => by omega⟩

/-! ### `calc_idx_sentinels` -/

/-- the checked scan: terminates (fuel), never touches memory out of range; it either stops on the first
    node at/after `i` whose disp index differs, or panics on the bounds check when there is none -/
theorem scanDisp_spec (dn : List DivNode) (d : Nat) :
    ∀ (f i : Nat), dn.length - i < f →
      (∃ j, ∃ hj : j < dn.length, scanDisp dn d f i = .ok j ∧ i ≤ j ∧ dn[j].2 ≠ d ∧
          ∀ k (hk : k < dn.length), i ≤ k → k < j → dn[k].2 = d) ∨
      (scanDisp dn d f i = .fault .index ∧ ∀ k (hk : k < dn.length), i ≤ k → dn[k].2 = d) := by
  intro f
  induction f with
  | zero => intro i h; omega
  | succ f ih =>
    intro i hf
    unfold scanDisp chkGet
    by_cases hi : i < dn.length
    · rw [List.getElem?_eq_getElem hi]
      simp only [bind_ok]
      by_cases hd : dn[i].2 = d
      · simp only [hd, ite_true]
        rcases ih (i + 1) (by omega) with ⟨j, hj, h1, h2, h3, h4⟩ | ⟨h1, h2⟩
        · left
          refine ⟨j, hj, h1, by omega, h3, ?_⟩
          intro k hk hik hkj
          by_cases hki : k = i
          · subst hki; exact hd
          · exact h4 k hk (by omega) hkj
        · right
          refine ⟨h1, ?_⟩
          intro k hk hik
          by_cases hki : k = i
          · subst hki; exact hd
          · exact h2 k hk (by omega)
      · simp only [hd, ite_false]
        left
        exact ⟨i, hi, rfl, le_refl _, hd, fun k _ h1 h2 => by omega⟩
    · rw [List.getElem?_eq_none (by omega)]
      right
      exact ⟨rfl, fun k hk hik => by omega⟩

/-- what `calc_idx_sentinels` returns when its two leading `assert!`s pass -/
theorem calcIdxSentinels_spec (divIdx s : Nat) (dn : List DivNode)
    (h1 : divIdx < dn.length) (h2 : ∀ l, dn.getLast? = some l → l.1 = s) :
    ∃ i, ∃ hi : i < dn.length, divIdx ≤ i ∧ dn[i].1 = s ∧
      (∀ k (hk : k < dn.length), divIdx ≤ k → k < i → dn[k].1 ≠ s) ∧
      ((∃ j, calcIdxSentinels divIdx s dn = .ok (dn[i].2, j) ∧ i < j ∧ j ≤ dn.length ∧
          (∀ k (hk : k < dn.length), i < k → k < j → dn[k].2 = dn[i].2) ∧
          (∀ hj : j < dn.length, dn[j].2 ≠ dn[i].2) ∧ (j = dn.length → i + 1 = dn.length)) ∨
       (calcIdxSentinels divIdx s dn = .fault .index ∧ i + 1 < dn.length ∧
          ∀ k (hk : k < dn.length), i < k → dn[k].2 = dn[i].2)) := by
  have hlen : dn.length - 1 < dn.length := by omega
  have hlast : dn.getLast? = some dn[dn.length - 1] := by
    rw [List.getLast?_eq_getElem?, List.getElem?_eq_getElem hlen]
  have hs : dn[dn.length - 1].1 = s := h2 _ hlast
  obtain ⟨i, hi, hscan, hdi, hie, hpi, hbefore⟩ :=
    scanP_spec (fun x : DivNode => decide (x.1 ≠ s)) dn (dn.length + 1) divIdx (dn.length - 1) hlen
      (by omega) (by simp [hs]) (by omega)
  have hpi' : dn[i].1 = s := by simpa using hpi
  refine ⟨i, hi, hdi, hpi', ?_, ?_⟩
  · intro k hk h1 h2
    have := hbefore k hk h1 h2
    simpa using this
  · unfold calcIdxSentinels
    rw [if_neg (by omega), hlast]
    simp only [hs, ne_eq, not_true_eq_false, ite_false]
    rw [scanTrain_eq, hscan]
    simp only [bind_ok, rawGet_of_lt dn i hi]
    by_cases hj : i + 1 < dn.length
    · rw [if_pos hj]
      rcases scanDisp_spec dn dn[i].2 (dn.length + 1) (i + 1) (by omega) with
        ⟨j, hjl, e1, e2, e3, e4⟩ | ⟨e1, e2⟩
      · left
        refine ⟨j, ?_, by omega, by omega, ?_, fun _ => e3, fun h => by omega⟩
        · rw [e1]; rfl
        · intro k hk hik hkj; exact e4 k hk (by omega) hkj
      · right
        refine ⟨?_, hj, fun k hk hik => e2 k hk (by omega)⟩
        rw [e1]; rfl
    · rw [if_neg hj]
      left
      refine ⟨i + 1, rfl, by omega, by omega, fun k hk h1 h2 => by omega, fun h => by omega, fun _ => ?_⟩
      omega

/-- for ALL arguments: `calc_idx_sentinels` never reads out of range and its loops terminate -/
theorem calcIdxSentinels_safe (divIdx s : Nat) (dn : List DivNode) :
    Safe (calcIdxSentinels divIdx s dn) := by
  by_cases h1 : divIdx < dn.length
  · by_cases h2 : ∀ l, dn.getLast? = some l → l.1 = s
    · obtain ⟨i, hi, _, _, _, h⟩ := calcIdxSentinels_spec divIdx s dn h1 h2
      rcases h with ⟨j, e, _⟩ | ⟨e, _⟩
      · rw [e]; exact safe_ok _
      · rw [e]; exact safe_index
    · unfold calcIdxSentinels
      rw [if_neg (by omega)]
      cases hl : dn.getLast? with
      | none => exact safe_assert
      | some l =>
        have : l.1 ≠ s := by
          intro hls; apply h2; intro l' hl'; rw [hl] at hl'; cases hl'; exact hls
        simp only [this, ne_eq, not_false_eq_true, ite_true]
        exact safe_assert
  · unfold calcIdxSentinels
    rw [if_pos h1]
    exact safe_assert

/-! ### `find_train_intersect` -/

theorem wrapSub_self (m : Nat) : wrapSub m m = 0 := by
  unfold wrapSub
  generalize W = w
  rw [Nat.add_sub_cancel_left]
  exact Nat.mod_self w

theorem asU32_of_lt (m : Nat) (h : m < 4294967296) : asU32 m = m := by
  unfold asU32; exact Nat.mod_eq_of_lt h

/-- the flattened `Range` loop started at or before a stopper at `sentinel` (a value inside the window):
    all raw reads in range, terminates at some `j ∈ [i, sentinel]`, or panics on the checked
    `links_blocked[..]`.  (Only explicit rewriting below: a kernel defeq check that wanders into
    `wrapSub`'s `% 2^64` does not come back.) -/
theorem scanRange_spec (path blocked : List Nat) (mn df sentinel : Nat) (hs : sentinel < path.length)
    (hstop : ¬ wrapSub path[sentinel] mn > df) :
    ∀ (f i : Nat), i ≤ sentinel → sentinel - i < f →
      (∃ j, scanRange path blocked mn df sentinel f i = .ok j ∧ i ≤ j ∧ j ≤ sentinel) ∨
      scanRange path blocked mn df sentinel f i = .fault .index := by
  intro f
  induction f with
  | zero => intro i _ h; omega
  | succ f ih =>
    intro i hi hf
    have hil : i < path.length := by omega
    unfold scanRange
    rw [rawGet_of_lt path i hil, bind_ok]
    by_cases hw : wrapSub path[i] mn > df
    · rw [if_pos hw]
      have hne : i ≠ sentinel := by
        intro h; subst h; exact hstop hw
      rcases ih (i + 1) (by omega) (by omega) with ⟨j, e, h1, h2⟩ | e
      · left; exact ⟨j, e, by omega, h2⟩
      · right; exact e
    · rw [if_neg hw]
      by_cases his : i = sentinel
      · rw [if_pos his]; left; exact ⟨i, rfl, le_refl _, hi⟩
      · rw [if_neg his]
        unfold chkGet
        cases hb : blocked[path[i]]? with
        | none => right; rw [bind_fault]
        | some b =>
          rw [bind_ok]
          by_cases hb0 : b ≠ 0
          · rw [if_pos hb0]; left; exact ⟨i, rfl, le_refl _, hi⟩
          · rw [if_neg hb0]
            rcases ih (i + 1) (by omega) (by omega) with ⟨j, e, h1, h2⟩ | e
            · left; exact ⟨j, e, by omega, h2⟩
            · right; exact e

theorem scanCheck_spec (path blocked : List Nat) (sentinel : Nat) (hs : sentinel < path.length) :
    ∀ (f i : Nat), i ≤ sentinel → sentinel - i < f →
      (∃ j, scanCheck path blocked sentinel f i = .ok j ∧ i ≤ j ∧ j ≤ sentinel) ∨
      scanCheck path blocked sentinel f i = .fault .index := by
  intro f
  induction f with
  | zero => intro i _ h; omega
  | succ f ih =>
    intro i hi hf
    unfold scanCheck
    by_cases his : i < sentinel
    · rw [if_pos his, rawGet_of_lt path i (by omega)]
      simp only [bind_ok]
      unfold chkGet
      cases hb : blocked[path[i]]? with
      | none => right; rfl
      | some b =>
        simp only [bind_ok]
        by_cases hb0 : b ≠ 0
        · rw [if_pos hb0]; left; exact ⟨i, rfl, le_refl _, hi⟩
        · rw [if_neg hb0]
          rcases ih (i + 1) (by omega) (by omega) with ⟨j, e, h1, h2⟩ | e
          · left; exact ⟨j, e, by omega, h2⟩
          · right; exact e
    · rw [if_neg his]; left; exact ⟨i, rfl, le_refl _, hi⟩

theorem set_set_self (path : List Nat) (s c : Nat) (hs : s < path.length) :
    (path.set s c).set s path[s] = path := by
  rw [List.set_set]; exact List.set_getElem_self hs

/-- `find_train_intersect` when the search is entered (`idx_split < idx_sentinel`), its `assert!` passes and
    — FORCED for the `Range` arm — `link_idx_min` fits in `u32`: every raw access is in range, the loop
    terminates inside `[idx_split, idx_sentinel]`, the overwritten sentinel slot is restored. -/
theorem findTrainIntersect_spec (split sentinel : Nat) (t : LinkOpt) (path blocked : List Nat)
    (h1 : split < sentinel) (h2 : sentinel < path.length)
    (ht : ∀ mn df, t = .range mn df → mn < 4294967296) :
    (∃ i, findTrainIntersect split sentinel t path blocked = .ok (i, path) ∧ split ≤ i ∧ i ≤ sentinel) ∨
    findTrainIntersect split sentinel t path blocked = .fault .index ∨
    (t = .none ∧ findTrainIntersect split sentinel t path blocked = .fault .unreachable) := by
  unfold findTrainIntersect
  rw [if_neg (by omega), if_neg (by omega)]
  cases t with
  | none => right; right; exact ⟨rfl, rfl⟩
  | single c =>
    simp only [rawGet_of_lt path sentinel h2, rawSet_of_lt path sentinel c h2, bind_ok]
    have hl : (path.set sentinel c).length = path.length := List.length_set
    have hs' : sentinel < (path.set sentinel c).length := by omega
    obtain ⟨j, hj, e, hj1, hj2, _, _⟩ :=
      scanP_spec (fun x : Nat => decide (x ≠ c)) (path.set sentinel c) (path.length + 1) split sentinel hs'
        (by omega) (by simp) (by omega)
    rw [scanSingle_eq, e]
    simp only [bind_ok, rawSet_of_lt _ sentinel _ hs', set_set_self path sentinel c h2]
    left; exact ⟨j, rfl, hj1, hj2⟩
  | range mn df =>
    have hmn := ht mn df rfl
    have hl : (path.set sentinel (asU32 mn)).length = path.length := List.length_set
    have hs' : sentinel < (path.set sentinel (asU32 mn)).length := by omega
    have hstop : ¬ wrapSub (path.set sentinel (asU32 mn))[sentinel] mn > df := by
      rw [List.getElem_set_self, asU32_of_lt mn hmn, wrapSub_self]; omega
    simp only []
    rw [rawGet_of_lt path sentinel h2, bind_ok, rawSet_of_lt path sentinel _ h2, bind_ok]
    rcases scanRange_spec (path.set sentinel (asU32 mn)) blocked mn df sentinel hs' hstop
        (path.length + 1) split (by omega) (by omega) with ⟨j, e, hj1, hj2⟩ | e
    · rw [e, bind_ok, rawSet_of_lt _ sentinel _ hs', bind_ok, set_set_self path sentinel _ h2]
      left; exact ⟨j, rfl, hj1, hj2⟩
    · rw [e, bind_fault]; right; left; rfl
  | check =>
    rcases scanCheck_spec path blocked sentinel h2 (path.length + 1) split (by omega) (by omega) with
      ⟨j, e, hj1, hj2⟩ | e
    · rw [e]; left; exact ⟨j, rfl, hj1, hj2⟩
    · rw [e]; right; left; rfl

/-- for ALL arguments with `link_idx_min < 2^32` -/
theorem findTrainIntersect_safe (split sentinel : Nat) (t : LinkOpt) (path blocked : List Nat)
    (ht : ∀ mn df, t = .range mn df → mn < 4294967296) :
    Safe (findTrainIntersect split sentinel t path blocked) := by
  by_cases h1 : split < sentinel
  · by_cases h2 : sentinel < path.length
    · rcases findTrainIntersect_spec split sentinel t path blocked h1 h2 ht with
        ⟨i, e, _⟩ | e | ⟨_, e⟩
      · rw [e]; exact safe_ok _
      · rw [e]; exact safe_index
      · rw [e]; exact safe_unreachable
    · unfold findTrainIntersect
      rw [if_neg (by omega), if_pos h2]; exact safe_assert
  · unfold findTrainIntersect
    rw [if_pos (by omega)]; exact safe_ok _

/-! ### `add_blocking_trains` -/

/-- one dedup search: raw scan from `b` over `tb ++ ta :: news` (the sentinel slot `tb.length` holds the
    searched value): stops inside `[b, tb.length]`, and stops ON the sentinel iff `ta` is not in `tb[b..]` -/
theorem scanEq_sentinel (tb news : List Nat) (ta b : Nat) (hb : b ≤ tb.length) :
    ∃ j, scanEq (tb ++ ta :: news) ta ((tb ++ ta :: news).length + 1) b = .ok j ∧
      (j = tb.length ↔ ta ∉ tb.drop b) := by
  have hlen : tb.length < (tb ++ ta :: news).length := by simp
  have hstop : (tb ++ ta :: news)[tb.length] = ta := by
    rw [List.getElem_append_right (le_refl _)]; simp
  obtain ⟨j, hj, e, h1, h2, h3, h4⟩ :=
    scanP_spec (fun x : Nat => decide (x ≠ ta)) (tb ++ ta :: news) ((tb ++ ta :: news).length + 1) b
      tb.length hlen hb (by simp [hstop]) (by omega)
  refine ⟨j, by rw [scanEq_eq, e], ?_⟩
  constructor
  · intro hjn hmem
    obtain ⟨k, hk, hkx⟩ := List.mem_drop_iff_getElem.mp hmem
    have hk' : b + k < (tb ++ ta :: news).length := by omega
    have := h4 (b + k) hk' (by omega) (by omega)
    rw [List.getElem_append_left (by omega : b + k < tb.length)] at this
    simp [hkx] at this
  · intro hnot
    by_contra hne
    have hjlt : j < tb.length := by omega
    have hx : (tb ++ ta :: news)[j] = ta := by simpa using h3
    rw [List.getElem_append_left hjlt] at hx
    apply hnot
    apply List.mem_drop_iff_getElem.mpr
    refine ⟨j - b, by omega, ?_⟩
    have : b + (j - b) = j := by omega
    simp only [this]; exact hx

theorem getD_some (tb : List Nat) (ia : Nat) (h : ia < tb.length) : tb[ia]? = some (tb.getD ia 0) := by
  simp [List.getD, List.getElem?_eq_getElem h]

/-- the new trains collected by the loop: those read through the add view that are not in the base view -/
def addNews (tb bs : List Nat) : List Nat → List Nat → List Nat
  | [], news => news
  | ia :: rest, news => addNews tb bs rest (if tb.getD ia 0 ∈ bs then news else news ++ [tb.getD ia 0])

/-- the value left in the sentinel slot -/
def lastS (tb : List Nat) : List Nat → Nat → Nat
  | [], s => s
  | ia :: rest, _ => lastS tb rest (tb.getD ia 0)

theorem mem_addNews (tb bs : List Nat) (x : Nat) : ∀ (ias news : List Nat),
    x ∈ addNews tb bs ias news ↔ x ∈ news ∨ (x ∉ bs ∧ ∃ ia ∈ ias, tb.getD ia 0 = x) := by
  intro ias
  induction ias with
  | nil => intro news; simp [addNews]
  | cons ia rest ih =>
    intro news
    unfold addNews
    rw [ih]
    by_cases hm : tb.getD ia 0 ∈ bs
    · rw [if_pos hm]
      constructor
      · rintro (h | ⟨h1, ib, h2, h3⟩)
        · left; exact h
        · right; exact ⟨h1, ib, by simp [h2], h3⟩
      · rintro (h | ⟨h1, ib, h2, h3⟩)
        · left; exact h
        · rcases List.mem_cons.mp h2 with rfl | h2
          · rw [h3] at hm; exact absurd hm h1
          · right; exact ⟨h1, ib, h2, h3⟩
    · rw [if_neg hm]
      constructor
      · rintro (h | ⟨h1, ib, h2, h3⟩)
        · rcases List.mem_append.mp h with h | h
          · left; exact h
          · right
            have : x = tb.getD ia 0 := by simpa using h
            subst this
            exact ⟨hm, ia, by simp, rfl⟩
        · right; exact ⟨h1, ib, by simp [h2], h3⟩
      · rintro (h | ⟨h1, ib, h2, h3⟩)
        · left; exact List.mem_append.mpr (Or.inl h)
        · rcases List.mem_cons.mp h2 with rfl | h2
          · left; rw [h3]; simp
          · right; exact ⟨h1, ib, h2, h3⟩

/-- the `for idx_add in …` loop when every `idx_add` lies in the original buffer and the base view ends at
    the buffer end: exact result -/
theorem addLoop_eq (tb : List Nat) (base : View) (hb : base.1 ≤ base.2) (hl : tb.length = base.2) :
    ∀ (ias : List Nat) (s : Nat) (news : List Nat), (∀ ia ∈ ias, ia < tb.length) →
      addLoop base ias (tb ++ s :: news) =
        .ok (tb ++ lastS tb ias s :: addNews tb (tb.drop base.1) ias news) := by
  intro ias
  induction ias with
  | nil => intro s news _; rfl
  | cons ia rest ih =>
    intro s news hia
    have hi : ia < tb.length := hia ia (by simp)
    have hget : tb.getD ia 0 = tb[ia] := by simp [List.getD, List.getElem?_eq_getElem hi]
    unfold addLoop
    have h1 : chkGet (tb ++ s :: news) ia = .ok tb[ia] := by
      rw [chkGet_eq_ok, List.getElem?_append_left hi, List.getElem?_eq_getElem hi]
    have h2 : rawSet (tb ++ s :: news) base.2 tb[ia] = .ok (tb ++ tb[ia] :: news) := by
      rw [rawSet_of_lt _ _ _ (by simp; omega), List.set_append, if_neg (by omega)]
      have : base.2 - tb.length = 0 := by omega
      rw [this]; rfl
    rw [h1, bind_ok, h2, bind_ok]
    obtain ⟨j, e, hj⟩ := scanEq_sentinel tb news tb[ia] base.1 (by omega)
    rw [e, bind_ok]
    unfold addNews lastS
    rw [hget]
    by_cases hm : tb[ia] ∈ tb.drop base.1
    · have hjn : j ≠ base.2 := by
        intro h; exact (hj.mp (by omega)) hm
      rw [if_neg hjn, if_pos hm]
      exact ih tb[ia] news (fun ib hib => hia ib (by simp [hib]))
    · have hjn : j = base.2 := by rw [← hl]; exact hj.mpr hm
      rw [if_pos hjn, if_neg hm]
      have : tb ++ tb[ia] :: news ++ [tb[ia]] = tb ++ tb[ia] :: (news ++ [tb[ia]]) := by simp
      rw [this]
      exact ih tb[ia] (news ++ [tb[ia]]) (fun ib hib => hia ib (by simp [hib]))

/-- the loop on ANY index list and ANY buffer with the sentinel slot allocated: no raw access out of range,
    terminates -/
theorem addLoop_safe (base : View) (hb : base.1 ≤ base.2) :
    ∀ (ias cur : List Nat), base.2 < cur.length →
      Safe (addLoop base ias cur) ∧ ∀ out, addLoop base ias cur = .ok out → cur.length ≤ out.length := by
  intro ias
  induction ias with
  | nil => intro cur _; exact ⟨safe_ok _, fun out h => by cases h; exact le_refl _⟩
  | cons ia rest ih =>
    intro cur hc
    unfold addLoop
    cases hget : chkGet cur ia with
    | fault e =>
      have := chkGet_safe cur ia
      rw [hget] at this
      rw [bind_fault]
      refine ⟨?_, fun out h => by cases h⟩
      exact ⟨fun h => this.1 (by cases h; rfl), fun h => this.2 (by cases h; rfl)⟩
    | ok ta =>
      rw [bind_ok, rawSet_of_lt cur base.2 ta hc, bind_ok]
      have hl : (cur.set base.2 ta).length = cur.length := List.length_set
      have hstop : (cur.set base.2 ta)[base.2]'(by omega) = ta := List.getElem_set_self _
      obtain ⟨j, hj, e, _⟩ :=
        scanP_spec (fun x : Nat => decide (x ≠ ta)) (cur.set base.2 ta) ((cur.set base.2 ta).length + 1)
          base.1 base.2 (by omega) hb (by simp [hstop]) (by omega)
      rw [scanEq_eq, e, bind_ok]
      by_cases hjb : j = base.2
      · rw [if_pos hjb]
        obtain ⟨h1, h2⟩ := ih (cur.set base.2 ta ++ [ta]) (by simp; omega)
        exact ⟨h1, fun out h => by have := h2 out h; simp at this; omega⟩
      · rw [if_neg hjb]
        obtain ⟨h1, h2⟩ := ih (cur.set base.2 ta) (by omega)
        exact ⟨h1, fun out h => by have := h2 out h; omega⟩

/-- for ALL arguments: `add_blocking_trains` never touches memory out of range and terminates -/
theorem addBlockingTrains_safe (tb : List Nat) (base add : View) :
    Safe (addBlockingTrains tb base add) := by
  unfold addBlockingTrains
  by_cases h1 : base.1 ≤ base.2
  · rw [if_neg (by omega)]
    by_cases h2 : tb.length = base.2
    · rw [if_neg (by omega)]
      by_cases h3 : add.2 < add.1
      · rw [if_pos h3]; exact safe_overflow
      · rw [if_neg h3]
        obtain ⟨hs, hlen⟩ := addLoop_safe base h1 (List.range' add.1 (add.2 - add.1)) (tb ++ [0])
          (by simp; omega)
        apply safe_bind _ _ hs
        intro out hout
        have hol := hlen out hout
        cases hg : out.getLast? with
        | none => exact safe_assert
        | some save => exact safe_ok _
    · rw [if_pos (by omega)]; exact safe_assert
  · rw [if_pos h1]; exact safe_assert

/-- `add_blocking_trains` when its two `assert!`s pass and the add view lies in the buffer: the buffer keeps
    its old content as a prefix (the sentinel slot is gone), the appended part is exactly the set of trains
    of the add view that are not in the base view, the returned view is `[base.begin, len)`. -/
theorem addBlockingTrains_spec (tb : List Nat) (base add : View)
    (h1 : base.1 ≤ base.2) (h2 : tb.length = base.2) (h3 : add.1 ≤ add.2) (h4 : add.2 ≤ tb.length) :
    ∃ out, addBlockingTrains tb base add = .ok (out, (base.1, out.length)) ∧
      out.take tb.length = tb ∧
      ∀ x, x ∈ out.drop tb.length ↔
        (x ∉ tb.drop base.1 ∧ ∃ ia, add.1 ≤ ia ∧ ia < add.2 ∧ tb[ia]? = some x) := by
  unfold addBlockingTrains
  rw [if_neg (by omega), if_neg (by omega), if_neg (by omega)]
  have hias : ∀ ia ∈ List.range' add.1 (add.2 - add.1), ia < tb.length := by
    intro ia hia
    obtain ⟨i, hi, rfl⟩ := List.mem_range'.mp hia
    omega
  have hloop := addLoop_eq tb base h1 h2 (List.range' add.1 (add.2 - add.1)) 0 [] hias
  have happ : tb ++ [0] = tb ++ 0 :: [] := rfl
  rw [happ, hloop, bind_ok]
  generalize hN : addNews tb (tb.drop base.1) (List.range' add.1 (add.2 - add.1)) [] = N
  generalize lastS tb (List.range' add.1 (add.2 - add.1)) 0 = sl
  have hmemN : ∀ x, x ∈ N ↔ (x ∉ tb.drop base.1 ∧ ∃ ia, add.1 ≤ ia ∧ ia < add.2 ∧ tb[ia]? = some x) := by
    intro x
    rw [← hN, mem_addNews]
    simp only [List.not_mem_nil, false_or]
    constructor
    · rintro ⟨hx, ia, hia, hg⟩
      refine ⟨hx, ia, ?_⟩
      obtain ⟨i, hi, rfl⟩ := List.mem_range'.mp hia
      have hlt : add.1 + 1 * i < tb.length := by omega
      refine ⟨by omega, by omega, ?_⟩
      rw [← hg]; exact getD_some tb _ hlt
    · rintro ⟨hx, ia, ha1, ha2, hg⟩
      refine ⟨hx, ia, ?_, ?_⟩
      · apply List.mem_range'.mpr
        exact ⟨ia - add.1, by omega, by omega⟩
      · simp [List.getD, hg]
  rcases List.eq_nil_or_concat N with hNn | ⟨N', z, hNc⟩
  · subst hNn
    have hg : (tb ++ [sl]).getLast? = some sl := List.getLast?_concat
    rw [hg]
    simp only [List.dropLast_concat]
    rw [if_neg (by omega)]
    refine ⟨tb, rfl, by simp, ?_⟩
    intro x
    rw [← hmemN]; simp
  · rw [List.concat_eq_append] at hNc
    subst hNc
    have e1 : tb ++ sl :: (N' ++ [z]) = (tb ++ sl :: N') ++ [z] := by simp
    rw [e1, List.getLast?_concat]
    simp only [List.dropLast_concat]
    rw [if_pos (by simp; omega)]
    have e2 : (tb ++ sl :: N').set base.2 z = tb ++ z :: N' := by
      rw [List.set_append, if_neg (by omega)]
      have : base.2 - tb.length = 0 := by omega
      rw [this]; rfl
    rw [e2]
    refine ⟨tb ++ z :: N', rfl, by simp, ?_⟩
    intro x
    rw [← hmemN, List.drop_left' rfl]
    simp only [List.mem_cons, List.mem_append]
    tauto

/-! ### `add_all_blocking_trains`, `concat_train_idx_views` -/

theorem addAllBlockingTrains_safe (tb : List Nat) (large small : View) :
    Safe (addAllBlockingTrains tb large small) := by
  unfold addAllBlockingTrains
  by_cases h1 : large.2 < large.1
  · rw [if_pos h1]; exact safe_overflow
  · rw [if_neg h1]
    by_cases h2 : small.2 < small.1
    · rw [if_pos h2]; exact safe_overflow
    · rw [if_neg h2]
      by_cases h3 : tb.length < large.2
      · rw [if_pos h3]; exact safe_index
      · rw [if_neg h3]; exact addBlockingTrains_safe _ _ _

theorem concatViews_safe (tb : List Nat) (view add : View) : Safe (concatViews tb view add) := by
  unfold concatViews
  split_ifs
  · exact safe_ok _
  · exact safe_ok _
  · exact addBlockingTrains_safe _ _ _
  · exact addBlockingTrains_safe _ _ _
  · exact safe_overflow
  · exact safe_overflow
  · exact addAllBlockingTrains_safe _ _ _
  · exact addAllBlockingTrains_safe _ _ _


/-! ### the old buffer content is never disturbed -/

/-- the loop writes only the sentinel slot `base.2` and beyond: the first `base.2` entries are untouched -/
theorem addLoop_prefix (base : View) :
    ∀ (ias cur out : List Nat), base.2 < cur.length → addLoop base ias cur = .ok out →
      out.take base.2 = cur.take base.2 ∧ cur.length ≤ out.length := by
  intro ias
  induction ias with
  | nil => intro cur out _ h; cases h; exact ⟨rfl, le_refl _⟩
  | cons ia rest ih =>
    intro cur out hc h
    unfold addLoop at h
    cases hget : chkGet cur ia with
    | fault e => rw [hget, bind_fault] at h; cases h
    | ok ta =>
      rw [hget, bind_ok, rawSet_of_lt cur base.2 ta hc, bind_ok] at h
      have hl : (cur.set base.2 ta).length = cur.length := List.length_set
      cases hscan : scanEq (cur.set base.2 ta) ta ((cur.set base.2 ta).length + 1) base.1 with
      | fault e => rw [hscan, bind_fault] at h; cases h
      | ok j =>
        rw [hscan, bind_ok] at h
        have htake : (cur.set base.2 ta).take base.2 = cur.take base.2 :=
          List.take_set_of_le (le_refl _)
        by_cases hjb : j = base.2
        · rw [if_pos hjb] at h
          obtain ⟨h1, h2⟩ := ih (cur.set base.2 ta ++ [ta]) out (by simp; omega) h
          refine ⟨?_, by simp at h2; omega⟩
          rw [h1, List.take_append_of_le_length (by omega), htake]
        · rw [if_neg hjb] at h
          obtain ⟨h1, h2⟩ := ih (cur.set base.2 ta) out (by omega) h
          exact ⟨by rw [h1, htake], by omega⟩

/-- `add_blocking_trains`, ALL arguments: when it returns, the old buffer is a prefix of the new one (the
    sentinel slot it wrote lies beyond it) and the returned view is `[base.begin, new length)` -/
theorem addBlockingTrains_prefix (tb : List Nat) (base add : View) (out : List Nat) (v : View)
    (h : addBlockingTrains tb base add = .ok (out, v)) :
    out.take tb.length = tb ∧ tb.length ≤ out.length ∧ v = (base.1, out.length) := by
  unfold addBlockingTrains at h
  by_cases h1 : base.1 ≤ base.2
  · rw [if_neg (by omega)] at h
    by_cases h2 : tb.length = base.2
    · rw [if_neg (by omega)] at h
      by_cases h3 : add.2 < add.1
      · rw [if_pos h3] at h; cases h
      · rw [if_neg h3] at h
        cases hloop : addLoop base (List.range' add.1 (add.2 - add.1)) (tb ++ [0]) with
        | fault e => rw [hloop, bind_fault] at h; cases h
        | ok tb1 =>
          rw [hloop, bind_ok] at h
          obtain ⟨hp, hlen⟩ := addLoop_prefix base _ (tb ++ [0]) tb1 (by simp; omega) hloop
          have hlen' : tb.length + 1 ≤ tb1.length := by simpa using hlen
          have hp' : tb1.take tb.length = tb := by
            rw [← h2] at hp; rw [hp]; simp
          cases hg : tb1.getLast? with
          | none => rw [hg] at h; cases h
          | some save =>
            rw [hg] at h
            simp only [Out.ok.injEq, Prod.mk.injEq] at h
            obtain ⟨ho, hv⟩ := h
            have hdl : tb1.dropLast.take tb.length = tb := by
              rw [List.dropLast_eq_take, List.take_take, Nat.min_eq_left (by omega)]; exact hp'
            have hdll : tb1.dropLast.length = tb1.length - 1 := List.length_dropLast
            by_cases hlt : base.2 < tb1.dropLast.length
            · rw [if_pos hlt] at ho hv
              subst ho
              refine ⟨?_, by rw [List.length_set]; omega, hv.symm⟩
              rw [List.take_set_of_le (by omega)]; exact hdl
            · rw [if_neg hlt] at ho hv
              subst ho
              exact ⟨hdl, by omega, hv.symm⟩
    · rw [if_pos (by omega)] at h; cases h
  · rw [if_pos h1] at h; cases h

theorem addAllBlockingTrains_prefix (tb : List Nat) (large small : View) (out : List Nat) (v : View)
    (h : addAllBlockingTrains tb large small = .ok (out, v)) :
    out.take tb.length = tb ∧ tb.length ≤ out.length := by
  unfold addAllBlockingTrains at h
  split_ifs at h
  obtain ⟨h1, h2, _⟩ := addBlockingTrains_prefix _ _ _ out v h
  have hl : tb.length ≤ (tb ++ List.take (large.2 - large.1) (List.drop large.1 tb)).length := by simp
  refine ⟨?_, by omega⟩
  have := congrArg (List.take tb.length) h1
  rw [List.take_take, Nat.min_eq_left hl, List.take_append_of_le_length (le_refl _), List.take_length] at this
  exact this

theorem concatViews_prefix (tb : List Nat) (view add : View) (out : List Nat) (v : View)
    (h : concatViews tb view add = .ok (out, v)) :
    out.take tb.length = tb ∧ tb.length ≤ out.length := by
  unfold concatViews at h
  split_ifs at h
  · cases h; simp
  · cases h; simp
  · obtain ⟨h1, h2, _⟩ := addBlockingTrains_prefix _ _ _ out v h; exact ⟨h1, h2⟩
  · obtain ⟨h1, h2, _⟩ := addBlockingTrains_prefix _ _ _ out v h; exact ⟨h1, h2⟩
  · exact addAllBlockingTrains_prefix _ _ _ out v h
  · exact addAllBlockingTrains_prefix _ _ _ out v h

/-! ### `LinkOptType::new` -/

/-- every link index stored in the value is at most `B`; `Check` is not an intermediate value -/
def LinkOpt.bounded (B : Nat) : LinkOpt → Prop
  | .none => True
  | .single l => l ≤ B
  | .range a b => a ≤ b ∧ b ≤ B
  | .check => False

theorem linkOptFold_bounded (onPath : List Nat) (B : Nat) :
    ∀ (bl : List Nat) (acc : LinkOpt), (∀ l ∈ bl, l ≤ B) → LinkOpt.bounded B acc →
      ∃ t, linkOptFold onPath bl acc = .ok t ∧ LinkOpt.bounded B t := by
  intro bl
  induction bl with
  | nil => intro acc _ h; exact ⟨acc, rfl, h⟩
  | cons l ls ih =>
    intro acc hbl hacc
    have hl : l ≤ B := hbl l (by simp)
    have hls : ∀ x ∈ ls, x ≤ B := fun x hx => hbl x (by simp [hx])
    unfold linkOptFold
    by_cases hc : onPath.contains l = true
    · rw [if_pos hc]
      cases acc with
      | none => exact ih _ hls hl
      | single p =>
        apply ih _ hls
        have hp : p ≤ B := hacc
        exact ⟨by omega, by omega⟩
      | range a b =>
        apply ih _ hls
        obtain ⟨h1, h2⟩ := hacc
        exact ⟨by omega, by omega⟩
      | check => exact absurd hacc id
    · rw [if_neg hc]; exact ih acc hls hacc

/-- `LinkOptType::new` never fails, and its `Single`/`Range` parameters are bounded by the link indices it
    was given: with `u32` link indices `link_idx_min < 2^32` — the precondition of the `Range` search. -/
theorem linkOptNew_bounded (blocking onPath : List Nat) (B : Nat) (hbl : ∀ l ∈ blocking, l ≤ B) :
    ∃ t, linkOptNew blocking onPath = .ok t ∧
      (∀ mn df, t = .range mn df → mn ≤ B ∧ df ≤ 16) ∧ (∀ c, t = .single c → c ≤ B) := by
  obtain ⟨t, e, hb⟩ := linkOptFold_bounded onPath B blocking .none hbl trivial
  unfold linkOptNew
  rw [e, bind_ok]
  cases t with
  | none => exact ⟨.none, rfl, fun _ _ h => (by cases h), fun _ h => (by cases h)⟩
  | single p => exact ⟨.single p, rfl, fun _ _ h => (by cases h), fun c h => (by cases h; exact hb)⟩
  | check => exact absurd hb id
  | range a b =>
    obtain ⟨h1, h2⟩ := hb
    simp only []
    rw [if_neg (by omega)]
    by_cases hd : b - a ≤ 16
    · rw [if_pos hd]
      exact ⟨.range a (b - a), rfl, fun mn df h => (by cases h; exact ⟨by omega, hd⟩), fun _ h => (by cases h)⟩
    · rw [if_neg hd]
      exact ⟨.check, rfl, fun _ _ h => (by cases h), fun _ h => (by cases h)⟩

/-! ### queue bookkeeping -/

section queue
variable {α : Type} [LT α] [DecidableLT α]

theorem popMin_eq_none (q : List (α × Nat)) : popMin q = none ↔ q = [] := by
  cases q with
  | nil => simp [popMin]
  | cons x xs =>
    simp only [popMin, reduceCtorEq, iff_false]
    cases popMin xs with
    | none => simp
    | some mr => obtain ⟨m, r⟩ := mr; simp only []; split_ifs <;> simp

/-- `pop` removes exactly one element -/
theorem popMin_perm : ∀ (q : List (α × Nat)) (m : α × Nat) (r : List (α × Nat)),
    popMin q = some (m, r) → q.Perm (m :: r) := by
  intro q
  induction q with
  | nil => intro m r h; simp [popMin] at h
  | cons x xs ih =>
    intro m r h
    unfold popMin at h
    cases hp : popMin xs with
    | none =>
      rw [hp] at h
      have hx : xs = [] := (popMin_eq_none xs).mp hp
      simp only [Option.some.injEq, Prod.mk.injEq] at h
      obtain ⟨rfl, rfl⟩ := h
      rw [hx]
    | some mr =>
      obtain ⟨m', r'⟩ := mr
      rw [hp] at h
      have hperm := ih m' r' hp
      simp only [] at h
      split_ifs at h with hk
      · simp only [Option.some.injEq, Prod.mk.injEq] at h
        obtain ⟨rfl, rfl⟩ := h
        exact (List.Perm.cons x hperm).trans (List.Perm.swap _ _ _)
      · simp only [Option.some.injEq, Prod.mk.injEq] at h
        obtain ⟨rfl, rfl⟩ := h
        exact List.Perm.refl _

/-- the train indices held by the three containers -/
def ids (s : QSt α) : List Nat := s.queue.map (·.2) ++ (s.parked.map (·.2) ++ s.finished)

/-- one iteration moves the popped train between containers and nothing else: the multiset of train
    indices over queue + parked + finished is unchanged -/
theorem qStep_ids (s s' : QSt α) (a : Ans α) (i : Nat) (h : qStep s a = some (i, s')) :
    (ids s').Perm (ids s) ∧ i ∈ s.queue.map (·.2) := by
  unfold qStep at h
  cases hp : popMin s.queue with
  | none => rw [hp] at h; simp at h
  | some mr =>
    obtain ⟨⟨t, j⟩, q⟩ := mr
    rw [hp] at h
    have hperm : (s.queue.map (·.2)).Perm (j :: q.map (·.2)) := by
      have := (popMin_perm s.queue (t, j) q hp).map (·.2)
      simpa using this
    have hmem : j ∈ s.queue.map (·.2) := hperm.symm.subset (by simp)
    simp only [] at h
    have hcount := fun x => List.perm_iff_count.mp hperm x
    split_ifs at h with hb hf
    all_goals
      simp only [Option.some.injEq, Prod.mk.injEq] at h
      obtain ⟨rfl, rfl⟩ := h
      refine ⟨?_, hmem⟩
      apply List.perm_iff_count.mpr
      intro x
      have hc := hcount x
      unfold ids
      simp only [List.map_append, List.map_cons, List.map_nil, List.count_append, List.count_cons,
        List.count_nil] at hc ⊢
      split_ifs at hc ⊢ <;> omega

theorem qRun_ids : ∀ (as : List (Ans α)) (s : QSt α), (ids (qRun s as).2).Perm (ids s) := by
  intro as
  induction as with
  | nil => intro s; exact List.Perm.refl _
  | cons a as ih =>
    intro s
    unfold qRun
    cases hq : qStep s a with
    | none => exact List.Perm.refl _
    | some is' =>
      obtain ⟨i, s'⟩ := is'
      simp only []
      exact (ih s').trans (qStep_ids s s' a i hq).1

theorem map_snd_zipIdxFrom {τ} : ∀ (l : List τ) (k : Nat), (zipIdxFrom l k).map (·.2) = List.range' k l.length := by
  intro l
  induction l with
  | nil => intro k; rfl
  | cons x xs ih => intro k; simp [zipIdxFrom, ih, List.range'_succ]

theorem ids_qInit (deps : List α) : ids (qInit deps) = List.range' 1 deps.length := by
  unfold ids qInit
  simp [map_snd_zipIdxFrom]

end queue

end Altrios.Proofs.PlanL
