import Altrios.FreePath
import Mathlib.Data.List.Basic
import Mathlib.Data.List.Perm.Basic
import Mathlib.Data.List.Chain
import Mathlib.Tactic.SplitIfs
import Mathlib.Order.Basic
/-
  Helper lemmas for `Proofs/C05.lean`: the outcome monad, the raw/checked accesses, the sentinel
  scans of `Altrios/FreePath.lean`.
-/
namespace Altrios.Proofs.PlanL
open Altrios Altrios.FreePath

/-! ### outcome monad -/

@[simp] theorem bind_ok {σ τ} (v : σ) (f : σ → Out τ) : (Out.ok v >>= f) = f v := rfl
@[simp] theorem bind_fault {σ τ} (e : Fault) (f : σ → Out τ) : (Out.fault e >>= f) = Out.fault e := rfl
@[simp] theorem pure_eq {σ} (v : σ) : (pure v : Out σ) = Out.ok v := rfl

/-- neither undefined behaviour (raw access out of range) nor out of loop fuel -/
def Safe {σ} (r : Out σ) : Prop := r ≠ .fault .oob ∧ r ≠ .fault .fuel

theorem safe_ok {σ} (v : σ) : Safe (Out.ok v) := by constructor <;> simp
theorem safe_assert {σ} : Safe (Out.fault .assert : Out σ) := by constructor <;> simp
theorem safe_index {σ} : Safe (Out.fault .index : Out σ) := by constructor <;> simp
theorem safe_overflow {σ} : Safe (Out.fault .overflow : Out σ) := by constructor <;> simp
theorem safe_unreachable {σ} : Safe (Out.fault .unreachable : Out σ) := by constructor <;> simp

theorem safe_bind {σ τ} (r : Out σ) (f : σ → Out τ) (hr : Safe r) (hf : ∀ v, r = .ok v → Safe (f v)) :
    Safe (r >>= f) := by
  cases r with
  | ok v => exact hf v rfl
  | fault e =>
    rw [bind_fault]
    refine ⟨fun h => hr.1 ?_, fun h => hr.2 ?_⟩
    · cases h; rfl
    · cases h; rfl

/-! ### accesses -/

theorem rawGet_of_lt {τ} (v : List τ) (i : Nat) (h : i < v.length) : rawGet v i = .ok v[i] := by
  unfold rawGet; rw [List.getElem?_eq_getElem h]

theorem rawGet_eq_ok {τ} (v : List τ) (i : Nat) (x : τ) : rawGet v i = .ok x ↔ v[i]? = some x := by
  unfold rawGet
  cases h : v[i]? with
  | none => simp
  | some y => simp [Out.ok.injEq]

theorem rawSet_of_lt {τ} (v : List τ) (i : Nat) (x : τ) (h : i < v.length) :
    rawSet v i x = .ok (v.set i x) := by
  unfold rawSet; rw [if_pos h]

theorem chkGet_safe {τ} (v : List τ) (i : Nat) : Safe (chkGet v i) := by
  unfold chkGet; cases v[i]? with
  | none => exact safe_index
  | some x => exact safe_ok x

theorem chkGet_eq_ok {τ} (v : List τ) (i : Nat) (x : τ) : chkGet v i = .ok x ↔ v[i]? = some x := by
  unfold chkGet
  cases h : v[i]? with
  | none => simp
  | some y => simp [Out.ok.injEq]

/-! ### the generic raw scan `while p(v[i]) { i += 1 }` -/

/-- `while p(*v.get_unchecked(i)) { i += 1 }` -/
def scanP {τ} (p : τ → Bool) (v : List τ) : Nat → Nat → Out Nat
  | 0, _ => .fault .fuel
  | f + 1, i =>
    match v[i]? with
    | none => .fault .oob
    | some x => if p x then scanP p v f (i + 1) else .ok i

theorem scanTrain_eq (dn : List DivNode) (s : Nat) (f i : Nat) :
    scanTrain dn s f i = scanP (fun x => decide (x.1 ≠ s)) dn f i := by
  induction f generalizing i with
  | zero => rfl
  | succ f ih =>
    unfold scanTrain scanP rawGet
    cases h : dn[i]? with
    | none => rfl
    | some x =>
      simp only [bind_ok]
      by_cases hx : x.1 ≠ s
      · simp only [hx, ite_true, decide_true, ne_eq, not_false_eq_true]; exact ih (i + 1)
      · simp only [hx, ite_false, decide_false]; simp

theorem scanSingle_eq (path : List Nat) (c : Nat) (f i : Nat) :
    scanSingle path c f i = scanP (fun x => decide (x ≠ c)) path f i := by
  induction f generalizing i with
  | zero => rfl
  | succ f ih =>
    unfold scanSingle scanP rawGet
    cases h : path[i]? with
    | none => rfl
    | some x =>
      simp only [bind_ok]
      by_cases hx : x ≠ c
      · simp only [hx, ite_true, decide_true, ne_eq, not_false_eq_true]; exact ih (i + 1)
      · simp only [hx, ite_false, decide_false]; simp

theorem scanEq_eq (tb : List Nat) (c : Nat) (f i : Nat) :
    scanEq tb c f i = scanP (fun x => decide (x ≠ c)) tb f i := by
  induction f generalizing i with
  | zero => rfl
  | succ f ih =>
    unfold scanEq scanP rawGet
    cases h : tb[i]? with
    | none => rfl
    | some x =>
      simp only [bind_ok]
      by_cases hx : x ≠ c
      · simp only [hx, ite_true, decide_true, ne_eq, not_false_eq_true]; exact ih (i + 1)
      · simp only [hx, ite_false, decide_false]; simp

/-- A raw scan that starts at or before an in-range stopper `e` (an index where `p` is false) returns
    the first index `j ∈ [i, e]` where `p` is false: every access is in range, the loop terminates. -/
theorem scanP_spec {τ} (p : τ → Bool) (v : List τ) :
    ∀ (f i e : Nat) (he : e < v.length), i ≤ e → p v[e] = false → e - i < f →
      ∃ j, ∃ hj : j < v.length, scanP p v f i = .ok j ∧ i ≤ j ∧ j ≤ e ∧ p v[j] = false ∧
        ∀ k (hk : k < v.length), i ≤ k → k < j → p v[k] = true := by
  intro f
  induction f with
  | zero => intro i e _ _ _ h; omega
  | succ f ih =>
    intro i e he hie hpe hf
    have hi : i < v.length := by omega
    unfold scanP
    rw [List.getElem?_eq_getElem hi]
    by_cases hp : p v[i] = true
    · simp only [hp, ite_true]
      have hne : i ≠ e := by
        intro h; subst h; rw [hp] at hpe; cases hpe
      obtain ⟨j, hj, h1, h2, h3, h4, h5⟩ := ih (i + 1) e he (by omega) hpe (by omega)
      refine ⟨j, hj, h1, by omega, h3, h4, ?_⟩
      intro k hk hik hkj
      by_cases hki : k = i
      · subst hki; exact hp
      · exact h5 k hk (by omega) hkj
    · have hp' : p v[i] = false := by simpa using hp
      simp only [hp', Bool.false_eq_true, ite_false]
      exact ⟨i, hi, rfl, le_refl _, hie, hp', fun k _ h1 h2 => by omega⟩

/-! ### `calc_idx_sentinels` -/

/-- the checked scan: terminates (fuel), never touches memory out of range; it either stops on the first
    node at/after `i` whose disp index differs, or panics on the bounds check when there is none -/
theorem scanDisp_spec (dn : List DivNode) (d : Nat) :
    ∀ (f i : Nat), dn.length - i < f →
      (∃ j, ∃ hj : j < dn.length, scanDisp dn d f i = .ok j ∧ i ≤ j ∧ dn[j].2 ≠ d ∧
          ∀ k (hk : k < dn.length), i ≤ k → k < j → dn[k].2 = d) ∨
      (scanDisp dn d f i = .fault .index ∧ ∀ k (hk : k < dn.length), i ≤ k → dn[k].2 = d) := by
  intro f
  induction f with
  | zero => intro i h; omega
  | succ f ih =>
    intro i hf
    unfold scanDisp chkGet
    by_cases hi : i < dn.length
    · rw [List.getElem?_eq_getElem hi]
      simp only [bind_ok]
      by_cases hd : dn[i].2 = d
      · simp only [hd, ite_true]
        rcases ih (i + 1) (by omega) with ⟨j, hj, h1, h2, h3, h4⟩ | ⟨h1, h2⟩
        · left
          refine ⟨j, hj, h1, by omega, h3, ?_⟩
          intro k hk hik hkj
          by_cases hki : k = i
          · subst hki; exact hd
          · exact h4 k hk (by omega) hkj
        · right
          refine ⟨h1, ?_⟩
          intro k hk hik
          by_cases hki : k = i
          · subst hki; exact hd
          · exact h2 k hk (by omega)
      · simp only [hd, ite_false]
        left
        exact ⟨i, hi, rfl, le_refl _, hd, fun k _ h1 h2 => by omega⟩
    · rw [List.getElem?_eq_none (by omega)]
      right
      exact ⟨rfl, fun k hk hik => by omega⟩

/-- what `calc_idx_sentinels` returns when its two leading `assert!`s pass -/
theorem calcIdxSentinels_spec (divIdx s : Nat) (dn : List DivNode)
    (h1 : divIdx < dn.length) (h2 : ∀ l, dn.getLast? = some l → l.1 = s) :
    ∃ i, ∃ hi : i < dn.length, divIdx ≤ i ∧ dn[i].1 = s ∧
      (∀ k (hk : k < dn.length), divIdx ≤ k → k < i → dn[k].1 ≠ s) ∧
      ((∃ j, calcIdxSentinels divIdx s dn = .ok (dn[i].2, j) ∧ i < j ∧ j ≤ dn.length ∧
          (∀ k (hk : k < dn.length), i < k → k < j → dn[k].2 = dn[i].2) ∧
          (∀ hj : j < dn.length, dn[j].2 ≠ dn[i].2) ∧ (j = dn.length → i + 1 = dn.length)) ∨
       (calcIdxSentinels divIdx s dn = .fault .index ∧ i + 1 < dn.length ∧
          ∀ k (hk : k < dn.length), i < k → dn[k].2 = dn[i].2)) := by
  have hlen : dn.length - 1 < dn.length := by omega
  have hlast : dn.getLast? = some dn[dn.length - 1] := by
    rw [List.getLast?_eq_getElem?, List.getElem?_eq_getElem hlen]
  have hs : dn[dn.length - 1].1 = s := h2 _ hlast
  obtain ⟨i, hi, hscan, hdi, hie, hpi, hbefore⟩ :=
    scanP_spec (fun x : DivNode => decide (x.1 ≠ s)) dn (dn.length + 1) divIdx (dn.length - 1) hlen
      (by omega) (by simp [hs]) (by omega)
  have hpi' : dn[i].1 = s := by simpa using hpi
  refine ⟨i, hi, hdi, hpi', ?_, ?_⟩
  · intro k hk h1 h2
    have := hbefore k hk h1 h2
    simpa using this
  · unfold calcIdxSentinels
    rw [if_neg (by omega), hlast]
    simp only [hs, ne_eq, not_true_eq_false, ite_false]
    rw [scanTrain_eq, hscan]
    simp only [bind_ok, rawGet_of_lt dn i hi]
    by_cases hj : i + 1 < dn.length
    · rw [if_pos hj]
      rcases scanDisp_spec dn dn[i].2 (dn.length + 1) (i + 1) (by omega) with
        ⟨j, hjl, e1, e2, e3, e4⟩ | ⟨e1, e2⟩
      · left
        refine ⟨j, ?_, by omega, by omega, ?_, fun _ => e3, fun h => by omega⟩
        · rw [e1]; rfl
        · intro k hk hik hkj; exact e4 k hk (by omega) hkj
      · right
        refine ⟨?_, hj, fun k hk hik => e2 k hk (by omega)⟩
        rw [e1]; rfl
    · rw [if_neg hj]
      left
      refine ⟨i + 1, rfl, by omega, by omega, fun k hk h1 h2 => by omega, fun h => by omega, fun _ => ?_⟩
      omega

/-- for ALL arguments: `calc_idx_sentinels` never reads out of range and its loops terminate -/
theorem calcIdxSentinels_safe (divIdx s : Nat) (dn : List DivNode) :
    Safe (calcIdxSentinels divIdx s dn) := by
  by_cases h1 : divIdx < dn.length
  · by_cases h2 : ∀ l, dn.getLast? = some l → l.1 = s
    · obtain ⟨i, hi, _, _, _, h⟩ := calcIdxSentinels_spec divIdx s dn h1 h2
      rcases h with ⟨j, e, _⟩ | ⟨e, _⟩
      · rw [e]; exact safe_ok _
      · rw [e]; exact safe_index
    · unfold calcIdxSentinels
      rw [if_neg (by omega)]
      cases hl : dn.getLast? with
      | none => exact safe_assert
      | some l =>
        have : l.1 ≠ s := by
          intro hls; apply h2; intro l' hl'; rw [hl] at hl'; cases hl'; exact hls
        simp only [this, ne_eq, not_false_eq_true, ite_true]
        exact safe_assert
  · unfold calcIdxSentinels
    rw [if_pos h1]
    exact safe_assert

/-! ### `find_train_intersect` -/

theorem wrapSub_self (m : Nat) : wrapSub m m = 0 := by
  unfold wrapSub
  generalize W = w
  rw [Nat.add_sub_cancel_left]
  exact Nat.mod_self w

theorem asU32_of_lt (m : Nat) (h : m < 4294967296) : asU32 m = m := by
  unfold asU32; exact Nat.mod_eq_of_lt h

/-- the flattened `Range` loop started at or before a stopper at `sentinel` (a value inside the window):
    all raw reads in range, terminates at some `j ∈ [i, sentinel]`, or panics on the checked
    `links_blocked[..]`.  (Only explicit rewriting below: a kernel defeq check that wanders into
    `wrapSub`'s `% 2^64` does not come back.) -/
theorem scanRange_spec (path blocked : List Nat) (mn df sentinel : Nat) (hs : sentinel < path.length)
    (hstop : ¬ wrapSub path[sentinel] mn > df) :
    ∀ (f i : Nat), i ≤ sentinel → sentinel - i < f →
      (∃ j, scanRange path blocked mn df sentinel f i = .ok j ∧ i ≤ j ∧ j ≤ sentinel) ∨
      scanRange path blocked mn df sentinel f i = .fault .index := by
  intro f
  induction f with
  | zero => intro i _ h; omega
  | succ f ih =>
    intro i hi hf
    have hil : i < path.length := by omega
    unfold scanRange
    rw [rawGet_of_lt path i hil, bind_ok]
    by_cases hw : wrapSub path[i] mn > df
    · rw [if_pos hw]
      have hne : i ≠ sentinel := by
        intro h; subst h; exact hstop hw
      rcases ih (i + 1) (by omega) (by omega) with ⟨j, e, h1, h2⟩ | e
      · left; exact ⟨j, e, by omega, h2⟩
      · right; exact e
    · rw [if_neg hw]
      by_cases his : i = sentinel
      · rw [if_pos his]; left; exact ⟨i, rfl, le_refl _, hi⟩
      · rw [if_neg his]
        unfold chkGet
        cases hb : blocked[path[i]]? with
        | none => right; rw [bind_fault]
        | some b =>
          rw [bind_ok]
          by_cases hb0 : b ≠ 0
          · rw [if_pos hb0]; left; exact ⟨i, rfl, le_refl _, hi⟩
          · rw [if_neg hb0]
            rcases ih (i + 1) (by omega) (by omega) with ⟨j, e, h1, h2⟩ | e
            · left; exact ⟨j, e, by omega, h2⟩
            · right; exact e

theorem scanCheck_spec (path blocked : List Nat) (sentinel : Nat) (hs : sentinel < path.length) :
    ∀ (f i : Nat), i ≤ sentinel → sentinel - i < f →
      (∃ j, scanCheck path blocked sentinel f i = .ok j ∧ i ≤ j ∧ j ≤ sentinel) ∨
      scanCheck path blocked sentinel f i = .fault .index := by
  intro f
  induction f with
  | zero => intro i _ h; omega
  | succ f ih =>
    intro i hi hf
    unfold scanCheck
    by_cases his : i < sentinel
    · rw [if_pos his, rawGet_of_lt path i (by omega)]
      simp only [bind_ok]
      unfold chkGet
      cases hb : blocked[path[i]]? with
      | none => right; rfl
      | some b =>
        simp only [bind_ok]
        by_cases hb0 : b ≠ 0
        · rw [if_pos hb0]; left; exact ⟨i, rfl, le_refl _, hi⟩
        · rw [if_neg hb0]
          rcases ih (i + 1) (by omega) (by omega) with ⟨j, e, h1, h2⟩ | e
          · left; exact ⟨j, e, by omega, h2⟩
          · right; exact e
    · rw [if_neg his]; left; exact ⟨i, rfl, le_refl _, hi⟩

theorem set_set_self (path : List Nat) (s c : Nat) (hs : s < path.length) :
    (path.set s c).set s path[s] = path := by
  rw [List.set_set]; exact List.set_getElem_self hs

/-- `find_train_intersect` when the search is entered (`idx_split < idx_sentinel`), its `assert!` passes and
    — FORCED for the `Range` arm — `link_idx_min` fits in `u32`: every raw access is in range, the loop
    terminates inside `[idx_split, idx_sentinel]`, the overwritten sentinel slot is restored. -/
theorem findTrainIntersect_spec (split sentinel : Nat) (t : LinkOpt) (path blocked : List Nat)
    (h1 : split < sentinel) (h2 : sentinel < path.length)
    (ht : ∀ mn df, t = .range mn df → mn < 4294967296) :
    (∃ i, findTrainIntersect split sentinel t path blocked = .ok (i, path) ∧ split ≤ i ∧ i ≤ sentinel) ∨
    findTrainIntersect split sentinel t path blocked = .fault .index ∨
    (t = .none ∧ findTrainIntersect split sentinel t path blocked = .fault .unreachable) := by
  unfold findTrainIntersect
  rw [if_neg (by omega), if_neg (by omega)]
  cases t with
  | none => right; right; exact ⟨rfl, rfl⟩
  | single c =>
    simp only [rawGet_of_lt path sentinel h2, rawSet_of_lt path sentinel c h2, bind_ok]
    have hl : (path.set sentinel c).length = path.length := List.length_set
    have hs' : sentinel < (path.set sentinel c).length := by omega
    obtain ⟨j, hj, e, hj1, hj2, _, _⟩ :=
      scanP_spec (fun x : Nat => decide (x ≠ c)) (path.set sentinel c) (path.length + 1) split sentinel hs'
        (by omega) (by simp) (by omega)
    rw [scanSingle_eq, e]
    simp only [bind_ok, rawSet_of_lt _ sentinel _ hs', set_set_self path sentinel c h2]
    left; exact ⟨j, rfl, hj1, hj2⟩
  | range mn df =>
    have hmn := ht mn df rfl
    have hl : (path.set sentinel (asU32 mn)).length = path.length := List.length_set
    have hs' : sentinel < (path.set sentinel (asU32 mn)).length := by omega
    have hstop : ¬ wrapSub (path.set sentinel (asU32 mn))[sentinel] mn > df := by
      rw [List.getElem_set_self, asU32_of_lt mn hmn, wrapSub_self]; omega
    simp only []
    rw [rawGet_of_lt path sentinel h2, bind_ok, rawSet_of_lt path sentinel _ h2, bind_ok]
    rcases scanRange_spec (path.set sentinel (asU32 mn)) blocked mn df sentinel hs' hstop
        (path.length + 1) split (by omega) (by omega) with ⟨j, e, hj1, hj2⟩ | e
    · rw [e, bind_ok, rawSet_of_lt _ sentinel _ hs', bind_ok, set_set_self path sentinel _ h2]
      left; exact ⟨j, rfl, hj1, hj2⟩
    · rw [e, bind_fault]; right; left; rfl
  | check =>
    rcases scanCheck_spec path blocked sentinel h2 (path.length + 1) split (by omega) (by omega) with
      ⟨j, e, hj1, hj2⟩ | e
    · rw [e]; left; exact ⟨j, rfl, hj1, hj2⟩
    · rw [e]; right; left; rfl

/-- for ALL arguments with `link_idx_min < 2^32` -/
theorem findTrainIntersect_safe (split sentinel : Nat) (t : LinkOpt) (path blocked : List Nat)
    (ht : ∀ mn df, t = .range mn df → mn < 4294967296) :
    Safe (findTrainIntersect split sentinel t path blocked) := by
  by_cases h1 : split < sentinel
  · by_cases h2 : sentinel < path.length
    · rcases findTrainIntersect_spec split sentinel t path blocked h1 h2 ht with
        ⟨i, e, _⟩ | e | ⟨_, e⟩
      · rw [e]; exact safe_ok _
      · rw [e]; exact safe_index
      · rw [e]; exact safe_unreachable
    · unfold findTrainIntersect
      rw [if_neg (by omega), if_pos h2]; exact safe_assert
  · unfold findTrainIntersect
    rw [if_pos (by omega)]; exact safe_ok _

end Altrios.Proofs.PlanL
