import Altrios.Resist
import Proofs.Lemmas.Basic
import Mathlib.Algebra.Order.Field.Basic
import Mathlib.Tactic.Linarith
import Mathlib.Tactic.Ring
import Mathlib.Tactic.FieldSimp
import Mathlib.Tactic.SplitIfs
import Mathlib.Tactic.LinearCombination
import Mathlib.Data.List.Basic
/-
  Helper lemmas for C07 (`Proofs/C07.lean`): the cached linear search `calc_idx` over a
  piecewise-linear cumulative profile (`PathResCoeff` = `PRC`).

    * `Profile pts`            : offsets strictly increasing, `net` continuous along the slopes
    * `cntLt / cntLe`          : number of points with `off < x` / `off ≤ x`
    * `segOf  pts x`           : forward  convention, the `i` with `off_i <  x ≤ off_{i+1}` (clamped at 0)
    * `segOfB pts x`           : backward convention, the `i` with `off_i ≤ x <  off_{i+1}` (clamped at 0)
    * `Seg pts i x`            : `x` lies in the CLOSED segment `i` (first / last segment extrapolate)
    * `E pts x`                : declarative cumulative value, `prcVal pts[segOf pts x] x`
    * `scanFwd_spec/scanBwd_spec`, `calcIdx_fwd_gen/calcIdx_bwd_gen` : what the loops return for ANY
      in-range hint (`max hint (segOf x)` resp. `min hint (segOfB x)`)
-/
set_option linter.unusedSectionVars false
namespace Altrios.Proofs.ResistL
open Altrios Altrios.Tpc Altrios.Rs

variable {α : Type} [Field α] [LinearOrder α] [IsStrictOrderedRing α]

/-! ### the profile invariant -/

/-- strictly increasing offsets -/
def Sorted (pts : List (PRC α)) : Prop := pts.Pairwise (fun p q => p.off < q.off)

/-- The invariant of `PathTpc::extend` on `grades` / `curves`: offsets strictly increasing and the
    cumulative value `net` of every point is the value of the previous segment's line there. -/
structure Profile (pts : List (PRC α)) : Prop where
  sorted : Sorted pts
  cont : ∀ (i : Nat) (h : i + 1 < pts.length),
    pts[i + 1].net = pts[i].net + pts[i].coeff * (pts[i + 1].off - pts[i].off)

theorem profile_nil : Profile ([] : List (PRC α)) :=
  ⟨List.Pairwise.nil, fun i h => absurd h (by simp)⟩

theorem profile_singleton (p : PRC α) : Profile [p] :=
  ⟨List.pairwise_singleton _ _, fun i h => absurd h (by simp)⟩

theorem profile_cons_cons (p q : PRC α) (t : List (PRC α)) :
    Profile (p :: q :: t) ↔
      (p.off < q.off ∧ q.net = p.net + p.coeff * (q.off - p.off)) ∧ Profile (q :: t) := by
  constructor
  · rintro ⟨hs, hc⟩
    have hs' := List.pairwise_cons.mp hs
    refine ⟨⟨hs'.1 q (by simp), by simpa using hc 0 (by simp)⟩, hs'.2, ?_⟩
    intro i h
    exact hc (i + 1) (by simpa using h)
  · rintro ⟨⟨h1, h2⟩, hs, hc⟩
    refine ⟨?_, ?_⟩
    · refine List.pairwise_cons.mpr ⟨?_, hs⟩
      intro r hr
      rcases List.mem_cons.mp hr with rfl | hr
      · exact h1
      · exact lt_trans h1 ((List.pairwise_cons.mp hs).1 r hr)
    · intro i h
      cases i with
      | zero => simpa using h2
      | succ i => exact hc i (by simpa using h)

theorem Sorted.lt {pts : List (PRC α)} (hs : Sorted pts) {i j : Nat} (hij : i < j)
    (hj : j < pts.length) : (pts[i]'(lt_trans hij hj)).off < pts[j].off :=
  List.pairwise_iff_getElem.mp hs i j (lt_trans hij hj) hj hij

theorem Sorted.le {pts : List (PRC α)} (hs : Sorted pts) {i j : Nat} (hij : i ≤ j)
    (hj : j < pts.length) : (pts[i]'(lt_of_le_of_lt hij hj)).off ≤ pts[j].off := by
  rcases Nat.lt_or_eq_of_le hij with h | rfl
  · exact le_of_lt (hs.lt h hj)
  · exact le_refl _

/-- continuity: the lines of segment `i` and `i+1` agree at the breakpoint `off_{i+1}` -/
theorem Profile.prcVal_boundary {pts : List (PRC α)} (hp : Profile pts) (i : Nat)
    (h : i + 1 < pts.length) :
    prcVal (pts[i]'(Nat.lt_of_succ_lt h)) pts[i + 1].off = prcVal pts[i + 1] pts[i + 1].off := by
  unfold prcVal
  rw [hp.cont i h]; ring

/-! ### counting points left of `x` -/

/-- number of points with `off < x` -/
def cntLt (pts : List (PRC α)) (x : α) : Nat := pts.countP (fun p => decide (p.off < x))
/-- number of points with `off ≤ x` -/
def cntLe (pts : List (PRC α)) (x : α) : Nat := pts.countP (fun p => decide (p.off ≤ x))

/-- in a sorted list a downward closed predicate holds exactly on the first `countP` points -/
theorem countP_iff {P : PRC α → Bool}
    (hP : ∀ p q : PRC α, p.off < q.off → P q = true → P p = true) :
    ∀ (pts : List (PRC α)), Sorted pts → ∀ (j : Nat) (h : j < pts.length),
      (P pts[j] = true ↔ j < pts.countP P) := by
  intro pts
  induction pts with
  | nil => intro _ j h; simp at h
  | cons p t ih =>
    intro hs j h
    have hs' := List.pairwise_cons.mp hs
    rw [List.countP_cons]
    by_cases hp : P p = true
    · cases j with
      | zero => simp [hp]
      | succ j =>
        have := ih hs'.2 j (by simpa using h)
        simp only [List.getElem_cons_succ, hp, if_true]
        rw [this]; omega
    · have hall : ∀ q ∈ t, ¬ P q = true := fun q hq hq' => hp (hP p q (hs'.1 q hq) hq')
      have h0 : t.countP P = 0 := List.countP_eq_zero.mpr hall
      cases j with
      | zero => simp [hp, h0]
      | succ j =>
        have hm : t[j]'(by simpa using h) ∈ t := List.getElem_mem _
        simp only [List.getElem_cons_succ, hp, h0]
        simp [hall _ hm]

theorem lt_iff_cntLt {pts : List (PRC α)} (hs : Sorted pts) (x : α) (j : Nat) (h : j < pts.length) :
    pts[j].off < x ↔ j < cntLt pts x := by
  have := countP_iff (P := fun p => decide (p.off < x))
    (fun p q hpq hq => by
      simp only [decide_eq_true_eq] at hq ⊢; exact lt_trans hpq hq) pts hs j h
  simpa [cntLt] using this

theorem le_iff_cntLe {pts : List (PRC α)} (hs : Sorted pts) (x : α) (j : Nat) (h : j < pts.length) :
    pts[j].off ≤ x ↔ j < cntLe pts x := by
  have := countP_iff (P := fun p => decide (p.off ≤ x))
    (fun p q hpq hq => by
      simp only [decide_eq_true_eq] at hq ⊢; exact le_trans (le_of_lt hpq) hq) pts hs j h
  simpa [cntLe] using this

theorem cntLt_le_length (pts : List (PRC α)) (x : α) : cntLt pts x ≤ pts.length :=
  List.countP_le_length
theorem cntLe_le_length (pts : List (PRC α)) (x : α) : cntLe pts x ≤ pts.length :=
  List.countP_le_length

theorem cntLt_le_cntLe (pts : List (PRC α)) (x : α) : cntLt pts x ≤ cntLe pts x := by
  unfold cntLt cntLe
  apply List.countP_mono_left
  intro p _ hp
  simp only [decide_eq_true_eq] at hp ⊢; exact le_of_lt hp

theorem cntLt_mono (pts : List (PRC α)) {x y : α} (hxy : x ≤ y) : cntLt pts x ≤ cntLt pts y := by
  unfold cntLt
  apply List.countP_mono_left
  intro p _ hp
  simp only [decide_eq_true_eq] at hp ⊢; exact lt_of_lt_of_le hp hxy

theorem cntLe_mono (pts : List (PRC α)) {x y : α} (hxy : x ≤ y) : cntLe pts x ≤ cntLe pts y := by
  unfold cntLe
  apply List.countP_mono_left
  intro p _ hp
  simp only [decide_eq_true_eq] at hp ⊢; exact le_trans hp hxy

theorem cntLe_le_cntLt (pts : List (PRC α)) {x y : α} (hxy : x < y) : cntLe pts x ≤ cntLt pts y := by
  unfold cntLt cntLe
  apply List.countP_mono_left
  intro p _ hp
  simp only [decide_eq_true_eq] at hp ⊢; exact lt_of_le_of_lt hp hxy

/-- strictly increasing offsets: at most one point sits exactly on `x` -/
theorem cntLe_le_cntLt_succ {pts : List (PRC α)} (hs : Sorted pts) (x : α) :
    cntLe pts x ≤ cntLt pts x + 1 := by
  by_contra hcon
  have hlen := cntLe_le_length pts x
  have h1 : cntLt pts x + 1 < pts.length := by omega
  have a : pts[cntLt pts x + 1].off ≤ x := (le_iff_cntLe hs x _ h1).mpr (by omega)
  have b : ¬ (pts[cntLt pts x]'(by omega)).off < x := fun hb =>
    absurd ((lt_iff_cntLt hs x _ (by omega)).mp hb) (lt_irrefl _)
  have c := hs.lt (Nat.lt_succ_self (cntLt pts x)) h1
  exact b (lt_of_lt_of_le c a)

/-! ### the declarative segment index and cumulative value -/

/-- forward convention: the `i` with `off_i < x ≤ off_{i+1}`; `0` for `x ≤ off_0`, `n-1` beyond the end -/
def segOf (pts : List (PRC α)) (x : α) : Nat := cntLt pts x - 1
/-- backward convention: the `i` with `off_i ≤ x < off_{i+1}`; `0` for `x < off_0`, `n-1` at/after the end -/
def segOfB (pts : List (PRC α)) (x : α) : Nat := cntLe pts x - 1

/-- `x` lies in the closed segment `i` (`[off_i, off_{i+1}]`; segment `0` extends to `-∞`, the last one to `+∞`) -/
def Seg (pts : List (PRC α)) (i : Nat) (x : α) : Prop :=
  ∃ h : i < pts.length, (i = 0 ∨ pts[i].off ≤ x) ∧ (∀ h' : i + 1 < pts.length, x ≤ pts[i + 1].off)

/-- declarative cumulative value (elevation for `grades`, cumulative curve resistance for `curves`)
    at `x`: the line of the segment containing `x`.  `0` on the empty list (every theorem that uses
    `E` assumes a non-empty list, see `E_eq`). -/
def E (pts : List (PRC α)) (x : α) : α :=
  match pts[segOf pts x]? with
  | some p => prcVal p x
  | none => 0

theorem segOf_lt_length {pts : List (PRC α)} (hne : pts ≠ []) (x : α) : segOf pts x < pts.length := by
  have := cntLt_le_length pts x
  have : 0 < pts.length := List.length_pos_iff.mpr hne
  unfold segOf; omega

theorem segOfB_lt_length {pts : List (PRC α)} (hne : pts ≠ []) (x : α) : segOfB pts x < pts.length := by
  have := cntLe_le_length pts x
  have : 0 < pts.length := List.length_pos_iff.mpr hne
  unfold segOfB; omega

theorem E_eq {pts : List (PRC α)} (x : α) (h : segOf pts x < pts.length) :
    E pts x = prcVal pts[segOf pts x] x := by
  unfold E; rw [List.getElem?_eq_getElem h]

theorem segOf_le_segOfB (pts : List (PRC α)) (x : α) : segOf pts x ≤ segOfB pts x := by
  have := cntLt_le_cntLe pts x
  unfold segOf segOfB; omega

theorem segOfB_le_segOf_succ {pts : List (PRC α)} (hs : Sorted pts) (x : α) :
    segOfB pts x ≤ segOf pts x + 1 := by
  have := cntLe_le_cntLt_succ hs x
  unfold segOf segOfB; omega

theorem segOf_mono (pts : List (PRC α)) {x y : α} (hxy : x ≤ y) : segOf pts x ≤ segOf pts y := by
  have := cntLt_mono pts hxy
  unfold segOf; omega

theorem segOfB_mono (pts : List (PRC α)) {x y : α} (hxy : x ≤ y) : segOfB pts x ≤ segOfB pts y := by
  have := cntLe_mono pts hxy
  unfold segOfB; omega

/-- the closed segments containing `x` are exactly those between the two conventions -/
theorem seg_iff {pts : List (PRC α)} (hs : Sorted pts) (hne : pts ≠ []) (i : Nat) (x : α) :
    Seg pts i x ↔ segOf pts x ≤ i ∧ i ≤ segOfB pts x := by
  have hlen : 0 < pts.length := List.length_pos_iff.mpr hne
  have hc1 := cntLt_le_length pts x
  have hc2 := cntLe_le_length pts x
  constructor
  · rintro ⟨hi, h1, h2⟩
    constructor
    · by_cases h' : i + 1 < pts.length
      · have : ¬ (i + 1 < cntLt pts x) := fun hh =>
          absurd ((lt_iff_cntLt hs x _ h').mpr hh) (not_lt.mpr (h2 h'))
        unfold segOf; omega
      · unfold segOf; omega
    · rcases h1 with rfl | h1
      · exact Nat.zero_le _
      · have := (le_iff_cntLe hs x i hi).mp h1
        unfold segOfB; omega
  · rintro ⟨h1, h2⟩
    have hi : i < pts.length := lt_of_le_of_lt h2 (segOfB_lt_length hne x)
    refine ⟨hi, ?_, ?_⟩
    · by_cases h0 : i = 0
      · exact Or.inl h0
      · right
        apply (le_iff_cntLe hs x i hi).mpr
        unfold segOfB at h2; omega
    · intro h'
      apply not_lt.mp
      intro hh
      have := (lt_iff_cntLt hs x _ h').mp hh
      unfold segOf at h1; omega

theorem seg_segOf {pts : List (PRC α)} (hs : Sorted pts) (hne : pts ≠ []) (x : α) :
    Seg pts (segOf pts x) x :=
  (seg_iff hs hne _ x).mpr ⟨le_refl _, segOf_le_segOfB pts x⟩

theorem seg_segOfB {pts : List (PRC α)} (hs : Sorted pts) (hne : pts ≠ []) (x : α) :
    Seg pts (segOfB pts x) x :=
  (seg_iff hs hne _ x).mpr ⟨segOf_le_segOfB pts x, le_refl _⟩

/-- **Value lemma.**  Whatever closed segment containing `x` is used, its line gives `E pts x`:
    continuity makes the boundary convention irrelevant. -/
theorem prcVal_of_seg {pts : List (PRC α)} (hp : Profile pts) {i : Nat} {x : α} (h : Seg pts i x) :
    prcVal (pts[i]'h.1) x = E pts x := by
  have hne : pts ≠ [] := by
    intro h0; have := h.1; simp [h0] at this
  have hk := segOf_lt_length hne x
  rw [E_eq x hk]
  have hb := (seg_iff hp.sorted hne i x).mp h
  have hb2 := segOfB_le_segOf_succ hp.sorted x
  by_cases hik : i = segOf pts x
  · subst hik; rfl
  · -- then `i = segOf + 1 = segOfB` and `x` is the breakpoint `off_i`
    have hi1 : i = segOf pts x + 1 := by omega
    have hi2 : i = segOfB pts x := by omega
    obtain ⟨hi, h1, _⟩ := h
    have hx1 : pts[i].off ≤ x := by
      rcases h1 with h0 | h1
      · omega
      · exact h1
    have hx2 : x ≤ pts[i].off := by
      have := (seg_segOf hp.sorted hne x).2.2 (by omega)
      simpa [← hi1] using this
    have hx : x = pts[i].off := le_antisymm hx2 hx1
    have hbd := hp.prcVal_boundary (segOf pts x) (by omega)
    simp only [← hi1] at hbd
    unfold prcVal at hbd ⊢
    linear_combination (-1 : α) * hbd + (pts[i].coeff - pts[segOf pts x].coeff) * hx

/-! ### the two loops -/

theorem getP_eq {pts : List (PRC α)} {i : Nat} (h : i < pts.length) : getP pts i = .ok pts[i] := by
  unfold getP; rw [List.getElem?_eq_getElem h]

theorem getP_oob {pts : List (PRC α)} {i : Nat} (h : pts.length ≤ i) : getP pts i = .panic "index" := by
  unfold getP; rw [List.getElem?_eq_none h]

/-- the forward loop started at `i` stops at the first `k ≥ i` whose right end is not left of `x` -/
theorem scanFwd_spec (pts : List (PRC α)) (x : α) :
    ∀ (fuel i k : Nat) (_hik : i ≤ k) (hk : k + 1 < pts.length), k - i < fuel →
      (∀ j (hj : j < k), i ≤ j → (pts[j + 1]'(by omega)).off < x) → ¬ pts[k + 1].off < x →
      scanFwd pts x fuel i = .ok k := by
  intro fuel
  induction fuel with
  | zero => intro i k _ _ h; omega
  | succ f ih =>
    intro i k hik hk hf hlt hstop
    unfold scanFwd
    rw [getP_eq (by omega : i + 1 < pts.length)]
    simp only [bind, Res.bind]
    rcases Nat.lt_or_eq_of_le hik with hlt' | rfl
    · rw [if_pos (hlt i hlt' (le_refl _))]
      exact ih (i + 1) k hlt' hk (by omega) (fun j hj hij => hlt j hj (by omega)) hstop
    · rw [if_neg hstop]; rfl

/-- the backward loop started at `i` stops at the first `k ≤ i` whose left end is not right of `x` -/
theorem scanBwd_spec (pts : List (PRC α)) (x : α) :
    ∀ (fuel i k : Nat) (hki : k ≤ i) (hi : i < pts.length), i - k < fuel →
      (∀ j (hj : j ≤ i), k < j → x < (pts[j]'(by omega)).off) → ¬ x < (pts[k]'(by omega)).off →
      scanBwd pts x fuel i = .ok k := by
  intro fuel
  induction fuel with
  | zero => intro i k _ _ h; omega
  | succ f ih =>
    intro i k hki hi hf hlt hstop
    unfold scanBwd
    rw [getP_eq hi]
    simp only [bind, Res.bind]
    rcases Nat.lt_or_eq_of_le hki with hlt' | rfl
    · rw [if_pos (hlt i (le_refl _) hlt'), if_neg (by omega)]
      exact ih (i - 1) k (by omega) (by omega) (by omega) (fun j hj hkj => hlt j (by omega) hkj) hstop
    · rw [if_neg hstop]; rfl

theorem getLast?_eq_getElem_of {pts : List (PRC α)} {l : PRC α} (hl : pts.getLast? = some l) :
    ∃ h : pts.length - 1 < pts.length, pts[pts.length - 1] = l := by
  rw [List.getLast?_eq_getElem?] at hl
  obtain ⟨h, he⟩ := List.getElem?_eq_some_iff.mp hl
  exact ⟨h, he⟩

theorem head?_eq_getElem_of {pts : List (PRC α)} {p : PRC α} (hh : pts.head? = some p) :
    ∃ h : 0 < pts.length, pts[0] = p := by
  cases pts with
  | nil => simp at hh
  | cons a t => simp at hh; exact ⟨by simp, by simpa using hh⟩

/-- **`calc_idx`, forward / unknown direction, ANY in-range hint.**  The result is
    `max hint (segOf pts x)`: the true index if the hint is not beyond it, the stale hint otherwise. -/
theorem calcIdx_fwd_gen {pts : List (PRC α)} (hs : Sorted pts) {dir : Dir} (hdir : dir ≠ .bwd)
    {l : PRC α} (hl : pts.getLast? = some l) {x : α} (hx : x ≤ l.off)
    {idx : Nat} (hidx : idx + 1 < pts.length) :
    calcIdx pts x idx dir = .ok (max idx (segOf pts x)) := by
  obtain ⟨hn, hle⟩ := getLast?_eq_getElem_of hl
  unfold calcIdx
  rw [if_pos hdir, hl]
  simp only [if_pos hx]
  have hc : cntLt pts x ≤ pts.length - 1 := by
    have : ¬ (pts.length - 1 < cntLt pts x) := fun hh =>
      absurd ((lt_iff_cntLt hs x _ hn).mpr hh) (not_lt.mpr (by rw [hle]; exact hx))
    omega
  have hk : max idx (segOf pts x) + 1 < pts.length := by unfold segOf; omega
  refine scanFwd_spec pts x _ idx _ (le_max_left _ _) hk ?_ ?_ ?_
  · omega
  · intro j hj hij
    apply (lt_iff_cntLt hs x _ _).mpr
    unfold segOf at hj; omega
  · intro hh
    have := (lt_iff_cntLt hs x _ hk).mp hh
    unfold segOf at this; omega

/-- **`calc_idx`, backward direction, ANY in-range hint.**  The result is `min hint (segOfB pts x)`. -/
theorem calcIdx_bwd_gen {pts : List (PRC α)} (hs : Sorted pts)
    {p0 : PRC α} (hh : pts.head? = some p0) {x : α} (hx : p0.off ≤ x)
    {idx : Nat} (hidx : idx < pts.length) :
    calcIdx pts x idx .bwd = .ok (min idx (segOfB pts x)) := by
  obtain ⟨hn, hhe⟩ := head?_eq_getElem_of hh
  unfold calcIdx
  rw [if_neg (by simp), hh]
  simp only [if_pos hx]
  have hc : 1 ≤ cntLe pts x := (le_iff_cntLe hs x 0 hn).mp (by rw [hhe]; exact hx)
  have hc2 := cntLe_le_length pts x
  refine scanBwd_spec pts x _ idx _ (min_le_left _ _) hidx ?_ ?_ ?_
  · omega
  · intro j hj hkj
    apply not_le.mp
    intro hh'
    have := (le_iff_cntLe hs x j (by omega)).mp hh'
    unfold segOfB at hkj; omega
  · apply not_lt.mpr
    apply (le_iff_cntLe hs x _ _).mpr
    unfold segOfB; omega

theorem segOf_succ_lt {pts : List (PRC α)} (hs : Sorted pts) (h2 : 2 ≤ pts.length)
    {l : PRC α} (hl : pts.getLast? = some l) {x : α} (hx : x ≤ l.off) :
    segOf pts x + 1 < pts.length := by
  obtain ⟨hn, hle⟩ := getLast?_eq_getElem_of hl
  have : ¬ (pts.length - 1 < cntLt pts x) := fun hh =>
    absurd ((lt_iff_cntLt hs x _ hn).mpr hh) (not_lt.mpr (by rw [hle]; exact hx))
  unfold segOf; omega

/-! ### `path_res::Strap::calc_res` -/

/-- the difference quotient of a line is its slope -/
theorem diffquot_same_seg {pts : List (PRC α)} (hp : Profile pts) {i : Nat} {x y len : α}
    (hx : Seg pts i x) (hy : Seg pts i y) (hlen : 0 < len) (hxy : y = x - len) :
    (E pts x - E pts y) / len = (pts[i]'hx.1).coeff := by
  rw [← prcVal_of_seg hp hx, ← prcVal_of_seg hp hy]
  unfold prcVal
  have : len ≠ 0 := ne_of_gt hlen
  rw [hxy]; field_simp; ring

/-- **`Strap::calc_res`, forward / unknown direction**, for cached indices that are in range and not
    beyond the (left-closed) true indices.  Both branches return the difference quotient of the
    declarative profile; the new cached indices are `max old (segOf ·)`. -/
theorem strapCoeff_fwd_gen {pts : List (PRC α)} (hp : Profile pts) {dir : Dir} (hdir : dir ≠ .bwd)
    {l : PRC α} (hl : pts.getLast? = some l) {offset offsetBack length : α}
    (hlen : 0 < length) (hback : offsetBack = offset - length) (hx : offset ≤ l.off)
    {s : StrapIdx} (hf : s.front + 1 < pts.length) (hb : s.back + 1 < pts.length)
    (hif : s.front ≤ segOfB pts offset) (hib : s.back ≤ segOfB pts offsetBack) :
    strapCoeff pts s offset offsetBack length dir =
      .ok (⟨max s.front (segOf pts offset), max s.back (segOf pts offsetBack)⟩,
           (E pts offset - E pts offsetBack) / length) := by
  have hs := hp.sorted
  have hne : pts ≠ [] := by intro h0; simp [h0] at hf
  have hbo : offsetBack ≤ offset := by rw [hback]; linarith
  have hxb : offsetBack ≤ l.off := le_trans hbo hx
  have hmono := segOf_mono pts hbo
  have hmonoB := segOfB_mono pts hbo
  have hsf : Seg pts (max s.front (segOf pts offset)) offset :=
    (seg_iff hs hne _ _).mpr ⟨le_max_right _ _, max_le hif (segOf_le_segOfB _ _)⟩
  have hsb : Seg pts (max s.back (segOf pts offsetBack)) offsetBack :=
    (seg_iff hs hne _ _).mpr ⟨le_max_right _ _, max_le hib (segOf_le_segOfB _ _)⟩
  have cF : ∀ d : Dir, d ≠ .bwd → calcIdx pts offset s.front d = .ok (max s.front (segOf pts offset)) :=
    fun d hd => calcIdx_fwd_gen hs hd hl hx hf
  have cB : ∀ d : Dir, d ≠ .bwd → calcIdx pts offsetBack s.back d = .ok (max s.back (segOf pts offsetBack)) :=
    fun d hd => calcIdx_fwd_gen hs hd hl hxb hb
  have hl0 : (!decide (0 < length)) = false := by simp [hlen]
  cases dir with
  | bwd => exact absurd rfl hdir
  | fwd =>
    unfold strapCoeff
    simp only [cF .fwd (by simp), bind, Res.bind, pure]
    by_cases heq : max s.front (segOf pts offset) = s.back
    · -- coincident indices: the stale `back` is the true one
      have hbb : max s.back (segOf pts offsetBack) = s.back := by omega
      rw [if_pos heq, getP_eq hsf.1]
      simp only [Res.bind]
      rw [hbb] at hsb ⊢
      have hsb' : Seg pts (max s.front (segOf pts offset)) offsetBack := by rw [heq]; exact hsb
      rw [diffquot_same_seg hp hsf hsb' hlen hback]
    · rw [if_neg heq]
      simp only [cB .fwd (by simp), Res.bind, getP_eq hsf.1, getP_eq hsb.1, hl0, Bool.false_eq_true,
        if_false]
      rw [prcVal_of_seg hp hsf, prcVal_of_seg hp hsb]
  | unk =>
    unfold strapCoeff
    simp only [cF .unk (by simp), cB .unk (by simp), bind, Res.bind, pure]
    by_cases heq : max s.front (segOf pts offset) = max s.back (segOf pts offsetBack)
    · rw [if_pos heq, getP_eq hsf.1]
      simp only [Res.bind]
      have hsb' : Seg pts (max s.front (segOf pts offset)) offsetBack := by rw [heq]; exact hsb
      rw [diffquot_same_seg hp hsf hsb' hlen hback]
    · rw [if_neg heq]
      simp only [Res.bind, getP_eq hsf.1, getP_eq hsb.1, hl0, Bool.false_eq_true, if_false]
      rw [prcVal_of_seg hp hsf, prcVal_of_seg hp hsb]

/-- **`Strap::calc_res`, backward direction**, for cached indices that are in range and not before the
    (right-closed) true indices.  The new cached indices are `min old (segOfB ·)`. -/
theorem strapCoeff_bwd_gen {pts : List (PRC α)} (hp : Profile pts)
    {p0 : PRC α} (hh : pts.head? = some p0) {offset offsetBack length : α}
    (hlen : 0 < length) (hback : offsetBack = offset - length) (hx : p0.off ≤ offsetBack)
    {s : StrapIdx} (hf : s.front < pts.length) (hb : s.back < pts.length)
    (hif : segOf pts offset ≤ s.front) (hib : segOf pts offsetBack ≤ s.back) :
    strapCoeff pts s offset offsetBack length .bwd =
      .ok (⟨min s.front (segOfB pts offset), min s.back (segOfB pts offsetBack)⟩,
           (E pts offset - E pts offsetBack) / length) := by
  have hs := hp.sorted
  have hne : pts ≠ [] := by intro h0; simp [h0] at hf
  have hbo : offsetBack ≤ offset := by rw [hback]; linarith
  have hxf : p0.off ≤ offset := le_trans hx hbo
  have hmono := segOf_mono pts hbo
  have hmonoB := segOfB_mono pts hbo
  have hsf : Seg pts (min s.front (segOfB pts offset)) offset :=
    (seg_iff hs hne _ _).mpr ⟨le_min hif (segOf_le_segOfB _ _), min_le_right _ _⟩
  have hsb : Seg pts (min s.back (segOfB pts offsetBack)) offsetBack :=
    (seg_iff hs hne _ _).mpr ⟨le_min hib (segOf_le_segOfB _ _), min_le_right _ _⟩
  have cF : calcIdx pts offset s.front .bwd = .ok (min s.front (segOfB pts offset)) :=
    calcIdx_bwd_gen hs hh hxf hf
  have cB : calcIdx pts offsetBack s.back .bwd = .ok (min s.back (segOfB pts offsetBack)) :=
    calcIdx_bwd_gen hs hh hx hb
  have hl0 : (!decide (0 < length)) = false := by simp [hlen]
  unfold strapCoeff
  simp only [cB, bind, Res.bind, pure]
  by_cases heq : s.front = min s.back (segOfB pts offsetBack)
  · -- coincident indices: the stale `front` is the true one
    have hff : min s.front (segOfB pts offset) = s.front := by omega
    rw [if_pos heq]
    rw [hff] at hsf ⊢
    rw [getP_eq hsf.1]
    simp only [Res.bind]
    have hsb' : Seg pts s.front offsetBack := by rw [heq]; exact hsb
    rw [diffquot_same_seg hp hsf hsb' hlen hback]
  · rw [if_neg heq]
    simp only [cF, Res.bind, getP_eq hsf.1, getP_eq hsb.1, hl0, Bool.false_eq_true, if_false]
    rw [prcVal_of_seg hp hsf, prcVal_of_seg hp hsb]

end Altrios.Proofs.ResistL
