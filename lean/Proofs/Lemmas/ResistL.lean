import Altrios.Resist
import Proofs.Lemmas.Basic
import Mathlib.Algebra.Order.Field.Basic
import Mathlib.Tactic.Linarith
import Mathlib.Tactic.Ring
import Mathlib.Tactic.FieldSimp
import Mathlib.Tactic.SplitIfs
import Mathlib.Tactic.LinearCombination
import Mathlib.Data.List.Basic
/-
  Helper lemmas for C07 (`Proofs/C07.lean`): the cached linear search `calc_idx` over a
  piecewise-linear cumulative profile (`PathResCoeff` = `PRC`).

    * `Profile pts`            : offsets strictly increasing, `net` continuous along the slopes
    * `cntLt / cntLe`          : number of points with `off < x` / `off ≤ x`
    * `segOf  pts x`           : forward  convention, the `i` with `off_i <  x ≤ off_{i+1}` (clamped at 0)
    * `segOfB pts x`           : backward convention, the `i` with `off_i ≤ x <  off_{i+1}` (clamped at 0)
    * `Seg pts i x`            : `x` lies in the CLOSED segment `i` (first / last segment extrapolate)
    * `E pts x`                : declarative cumulative value, `prcVal pts[segOf pts x] x`
    * `scanFwd_spec/scanBwd_spec`, `calcIdx_fwd_gen/calcIdx_bwd_gen` : what the loops return for ANY
      in-range hint (`max hint (segOf x)` resp. `min hint (segOfB x)`)
-/
set_option linter.unusedSectionVars false
namespace Altrios.Proofs.ResistL
open Altrios Altrios.Tpc Altrios.Rs

variable {α : Type} [Field α] [LinearOrder α] [IsStrictOrderedRing α]

/-! ### the profile invariant -/

/-- strictly increasing offsets -/
def Sorted (pts : List (PRC α)) : Prop := pts.Pairwise (fun p q => p.off < q.off)

/-- The invariant of `PathTpc::extend` on `grades` / `curves`: offsets strictly increasing and the
    cumulative value `net` of every point is the value of the previous segment's line there. -/
structure Profile (pts : List (PRC α)) : Prop where
  sorted : Sorted pts
  cont : ∀ (i : Nat) (h : i + 1 < pts.length),
    pts[i + 1].net = pts[i].net + pts[i].coeff * (pts[i + 1].off - pts[i].off)

theorem profile_nil : Profile ([] : List (PRC α)) :=
  ⟨List.Pairwise.nil, fun i h => absurd h (by simp)⟩

theorem profile_singleton (p : PRC α) : Profile [p] :=
  ⟨List.pairwise_singleton _ _, fun i h => absurd h (by simp)⟩

theorem profile_cons_cons (p q : PRC α) (t : List (PRC α)) :
    Profile (p :: q :: t) ↔
      (p.off < q.off ∧ q.net = p.net + p.coeff * (q.off - p.off)) ∧ Profile (q :: t) := by
  constructor
  · rintro ⟨hs, hc⟩
    have hs' := List.pairwise_cons.mp hs
    refine ⟨⟨hs'.1 q (by simp), by simpa using hc 0 (by simp)⟩, hs'.2, ?_⟩
    intro i h
    exact hc (i + 1) (by simpa using h)
  · rintro ⟨⟨h1, h2⟩, hs, hc⟩
    refine ⟨?_, ?_⟩
    · refine List.pairwise_cons.mpr ⟨?_, hs⟩
      intro r hr
      rcases List.mem_cons.mp hr with rfl | hr
      · exact h1
      · exact lt_trans h1 ((List.pairwise_cons.mp hs).1 r hr)
    · intro i h
      cases i with
      | zero => simpa using h2
      | succ i => exact hc i (by simpa using h)

theorem Sorted.lt {pts : List (PRC α)} (hs : Sorted pts) {i j : Nat} (hij : i < j)
    (hj : j < pts.length) : (pts[i]'(lt_trans hij hj)).off < pts[j].off :=
  List.pairwise_iff_getElem.mp hs i j (lt_trans hij hj) hj hij

theorem Sorted.le {pts : List (PRC α)} (hs : Sorted pts) {i j : Nat} (hij : i ≤ j)
    (hj : j < pts.length) : (pts[i]'(lt_of_le_of_lt hij hj)).off ≤ pts[j].off := by
  rcases Nat.lt_or_eq_of_le hij with h | rfl
  · exact le_of_lt (hs.lt h hj)
  · exact le_refl _

/-- continuity: the lines of segment `i` and `i+1` agree at the breakpoint `off_{i+1}` -/
theorem Profile.prcVal_boundary {pts : List (PRC α)} (hp : Profile pts) (i : Nat)
    (h : i + 1 < pts.length) :
    prcVal (pts[i]'(Nat.lt_of_succ_lt h)) pts[i + 1].off = prcVal pts[i + 1] pts[i + 1].off := by
  unfold prcVal
  rw [hp.cont i h]; ring

/-! ### counting points left of `x` -/

/-- number of points with `off < x` -/
def cntLt (pts : List (PRC α)) (x : α) : Nat := pts.countP (fun p => decide (p.off < x))
/-- number of points with `off ≤ x` -/
def cntLe (pts : List (PRC α)) (x : α) : Nat := pts.countP (fun p => decide (p.off ≤ x))

/-- in a sorted list a downward closed predicate holds exactly on the first `countP` points -/
theorem countP_iff {P : PRC α → Bool}
    (hP : ∀ p q : PRC α, p.off < q.off → P q = true → P p = true) :
    ∀ (pts : List (PRC α)), Sorted pts → ∀ (j : Nat) (h : j < pts.length),
      (P pts[j] = true ↔ j < pts.countP P) := by
  intro pts
  induction pts with
  | nil => intro _ j h; simp at h
  | cons p t ih =>
    intro hs j h
    have hs' := List.pairwise_cons.mp hs
    rw [List.countP_cons]
    by_cases hp : P p = true
    · cases j with
      | zero => simp [hp]
      | succ j =>
        have := ih hs'.2 j (by simpa using h)
        simp only [List.getElem_cons_succ, hp, if_true]
        rw [this]; omega
    · have hall : ∀ q ∈ t, ¬ P q = true := fun q hq hq' => hp (hP p q (hs'.1 q hq) hq')
      have h0 : t.countP P = 0 := List.countP_eq_zero.mpr hall
      cases j with
      | zero => simp [hp, h0]
      | succ j =>
        have hm : t[j]'(by simpa using h) ∈ t := List.getElem_mem _
        simp only [List.getElem_cons_succ, hp, h0]
        simp [hall _ hm]

theorem lt_iff_cntLt {pts : List (PRC α)} (hs : Sorted pts) (x : α) (j : Nat) (h : j < pts.length) :
    pts[j].off < x ↔ j < cntLt pts x := by
  have := countP_iff (P := fun p => decide (p.off < x))
    (fun p q hpq hq => by
      simp only [decide_eq_true_eq] at hq ⊢; exact lt_trans hpq hq) pts hs j h
  simpa [cntLt] using this

theorem le_iff_cntLe {pts : List (PRC α)} (hs : Sorted pts) (x : α) (j : Nat) (h : j < pts.length) :
    pts[j].off ≤ x ↔ j < cntLe pts x := by
  have := countP_iff (P := fun p => decide (p.off ≤ x))
    (fun p q hpq hq => by
      simp only [decide_eq_true_eq] at hq ⊢; exact le_trans (le_of_lt hpq) hq) pts hs j h
  simpa [cntLe] using this

theorem cntLt_le_length (pts : List (PRC α)) (x : α) : cntLt pts x ≤ pts.length :=
  List.countP_le_length
theorem cntLe_le_length (pts : List (PRC α)) (x : α) : cntLe pts x ≤ pts.length :=
  List.countP_le_length

theorem cntLt_le_cntLe (pts : List (PRC α)) (x : α) : cntLt pts x ≤ cntLe pts x := by
  unfold cntLt cntLe
  apply List.countP_mono_left
  intro p _ hp
  simp only [decide_eq_true_eq] at hp ⊢; exact le_of_lt hp

theorem cntLt_mono (pts : List (PRC α)) {x y : α} (hxy : x ≤ y) : cntLt pts x ≤ cntLt pts y := by
  unfold cntLt
  apply List.countP_mono_left
  intro p _ hp
  simp only [decide_eq_true_eq] at hp ⊢; exact lt_of_lt_of_le hp hxy

theorem cntLe_mono (pts : List (PRC α)) {x y : α} (hxy : x ≤ y) : cntLe pts x ≤ cntLe pts y := by
  unfold cntLe
  apply List.countP_mono_left
  intro p _ hp
  simp only [decide_eq_true_eq] at hp ⊢; exact le_trans hp hxy

theorem cntLe_le_cntLt (pts : List (PRC α)) {x y : α} (hxy : x < y) : cntLe pts x ≤ cntLt pts y := by
  unfold cntLt cntLe
  apply List.countP_mono_left
  intro p _ hp
  simp only [decide_eq_true_eq] at hp ⊢; exact lt_of_le_of_lt hp hxy

/-- strictly increasing offsets: at most one point sits exactly on `x` -/
theorem cntLe_le_cntLt_succ {pts : List (PRC α)} (hs : Sorted pts) (x : α) :
    cntLe pts x ≤ cntLt pts x + 1 := by
  by_contra hcon
  have hlen := cntLe_le_length pts x
  have h1 : cntLt pts x + 1 < pts.length := by omega
  have a : pts[cntLt pts x + 1].off ≤ x := (le_iff_cntLe hs x _ h1).mpr (by omega)
  have b : ¬ (pts[cntLt pts x]'(by omega)).off < x := fun hb =>
    absurd ((lt_iff_cntLt hs x _ (by omega)).mp hb) (lt_irrefl _)
  have c := hs.lt (Nat.lt_succ_self (cntLt pts x)) h1
  exact b (lt_of_lt_of_le c a)

/-! ### the declarative segment index and cumulative value -/

/-- forward convention: the `i` with `off_i < x ≤ off_{i+1}`; `0` for `x ≤ off_0`, `n-1` beyond the end -/
def segOf (pts : List (PRC α)) (x : α) : Nat := cntLt pts x - 1
/-- backward convention: the `i` with `off_i ≤ x < off_{i+1}`; `0` for `x < off_0`, `n-1` at/after the end -/
def segOfB (pts : List (PRC α)) (x : α) : Nat := cntLe pts x - 1

/-- `x` lies in the closed segment `i` (`[off_i, off_{i+1}]`; segment `0` extends to `-∞`, the last one to `+∞`) -/
def Seg (pts : List (PRC α)) (i : Nat) (x : α) : Prop :=
  ∃ h : i < pts.length, (i = 0 ∨ pts[i].off ≤ x) ∧ (∀ h' : i + 1 < pts.length, x ≤ pts[i + 1].off)

/-- declarative cumulative value (elevation for `grades`, cumulative curve resistance for `curves`)
    at `x`: the line of the segment containing `x`.  `0` on the empty list (every theorem that uses
    `E` assumes a non-empty list, see `E_eq`). -/
def E (pts : List (PRC α)) (x : α) : α :=
  match pts[segOf pts x]? with
  | some p => prcVal p x
  | none => 0

theorem segOf_lt_length {pts : List (PRC α)} (hne : pts ≠ []) (x : α) : segOf pts x < pts.length := by
  have := cntLt_le_length pts x
  have : 0 < pts.length := List.length_pos_iff.mpr hne
  unfold segOf; omega

theorem segOfB_lt_length {pts : List (PRC α)} (hne : pts ≠ []) (x : α) : segOfB pts x < pts.length := by
  have := cntLe_le_length pts x
  have : 0 < pts.length := List.length_pos_iff.mpr hne
  unfold segOfB; omega

theorem E_eq {pts : List (PRC α)} (x : α) (h : segOf pts x < pts.length) :
    E pts x = prcVal pts[segOf pts x] x := by
  unfold E; rw [List.getElem?_eq_getElem h]

theorem segOf_le_segOfB (pts : List (PRC α)) (x : α) : segOf pts x ≤ segOfB pts x := by
  have := cntLt_le_cntLe pts x
  unfold segOf segOfB; omega

theorem segOfB_le_segOf_succ {pts : List (PRC α)} (hs : Sorted pts) (x : α) :
    segOfB pts x ≤ segOf pts x + 1 := by
  have := cntLe_le_cntLt_succ hs x
  unfold segOf segOfB; omega

theorem segOf_mono (pts : List (PRC α)) {x y : α} (hxy : x ≤ y) : segOf pts x ≤ segOf pts y := by
  have := cntLt_mono pts hxy
  unfold segOf; omega

theorem segOfB_mono (pts : List (PRC α)) {x y : α} (hxy : x ≤ y) : segOfB pts x ≤ segOfB pts y := by
  have := cntLe_mono pts hxy
  unfold segOfB; omega

/-- the closed segments containing `x` are exactly those between the two conventions -/
theorem seg_iff {pts : List (PRC α)} (hs : Sorted pts) (hne : pts ≠ []) (i : Nat) (x : α) :
    Seg pts i x ↔ segOf pts x ≤ i ∧ i ≤ segOfB pts x := by
  have hlen : 0 < pts.length := List.length_pos_iff.mpr hne
  have hc1 := cntLt_le_length pts x
  have hc2 := cntLe_le_length pts x
  constructor
  · rintro ⟨hi, h1, h2⟩
    constructor
    · by_cases h' : i + 1 < pts.length
      · have : ¬ (i + 1 < cntLt pts x) := fun hh =>
          absurd ((lt_iff_cntLt hs x _ h').mpr hh) (not_lt.mpr (h2 h'))
        unfold segOf; omega
      · unfold segOf; omega
    · rcases h1 with rfl | h1
      · exact Nat.zero_le _
      · have := (le_iff_cntLe hs x i hi).mp h1
        unfold segOfB; omega
  · rintro ⟨h1, h2⟩
    have hi : i < pts.length := lt_of_le_of_lt h2 (segOfB_lt_length hne x)
    refine ⟨hi, ?_, ?_⟩
    · by_cases h0 : i = 0
      · exact Or.inl h0
      · right
        apply (le_iff_cntLe hs x i hi).mpr
        unfold segOfB at h2; omega
    · intro h'
      apply not_lt.mp
      intro hh
      have := (lt_iff_cntLt hs x _ h').mp hh
      unfold segOf at h1; omega

theorem seg_segOf {pts : List (PRC α)} (hs : Sorted pts) (hne : pts ≠ []) (x : α) :
    Seg pts (segOf pts x) x :=
  (seg_iff hs hne _ x).mpr ⟨le_refl _, segOf_le_segOfB pts x⟩

theorem seg_segOfB {pts : List (PRC α)} (hs : Sorted pts) (hne : pts ≠ []) (x : α) :
    Seg pts (segOfB pts x) x :=
  (seg_iff hs hne _ x).mpr ⟨segOf_le_segOfB pts x, le_refl _⟩

/-- **Value lemma.**  Whatever closed segment containing `x` is used, its line gives `E pts x`:
    continuity makes the boundary convention irrelevant. -/
theorem prcVal_of_seg {pts : List (PRC α)} (hp : Profile pts) {i : Nat} {x : α} (h : Seg pts i x) :
    prcVal (pts[i]'h.1) x = E pts x := by
  have hne : pts ≠ [] := by
    intro h0; have := h.1; simp [h0] at this
  have hk := segOf_lt_length hne x
  rw [E_eq x hk]
  have hb := (seg_iff hp.sorted hne i x).mp h
  have hb2 := segOfB_le_segOf_succ hp.sorted x
  by_cases hik : i = segOf pts x
  · subst hik; rfl
  · -- then `i = segOf + 1 = segOfB` and `x` is the breakpoint `off_i`
    have hi1 : i = segOf pts x + 1 := by omega
    have hi2 : i = segOfB pts x := by omega
    obtain ⟨hi, h1, _⟩ := h
    have hx1 : pts[i].off ≤ x := by
      rcases h1 with h0 | h1
      · omega
      · exact h1
    have hx2 : x ≤ pts[i].off := by
      have := (seg_segOf hp.sorted hne x).2.2 (by omega)
      simpa [← hi1] using this
    have hx : x = pts[i].off := le_antisymm hx2 hx1
    have hbd := hp.prcVal_boundary (segOf pts x) (by omega)
    simp only [← hi1] at hbd
    unfold prcVal at hbd ⊢
    linear_combination (-1 : α) * hbd + (pts[i].coeff - pts[segOf pts x].coeff) * hx

/-! ### the two loops -/

theorem getP_eq {pts : List (PRC α)} {i : Nat} (h : i < pts.length) : getP pts i = .ok pts[i] := by
  unfold getP; rw [List.getElem?_eq_getElem h]

theorem getP_oob {pts : List (PRC α)} {i : Nat} (h : pts.length ≤ i) : getP pts i = .panic "index" := by
  unfold getP; rw [List.getElem?_eq_none h]

/-- the forward loop started at `i` stops at the first `k ≥ i` whose right end is not left of `x` -/
theorem scanFwd_spec (pts : List (PRC α)) (x : α) :
    ∀ (fuel i k : Nat) (_hik : i ≤ k) (hk : k + 1 < pts.length), k - i < fuel →
      (∀ j (hj : j < k), i ≤ j → (pts[j + 1]'(by omega)).off < x) → ¬ pts[k + 1].off < x →
      scanFwd pts x fuel i = .ok k := by
  intro fuel
  induction fuel with
  | zero => intro i k _ _ h; omega
  | succ f ih =>
    intro i k hik hk hf hlt hstop
    unfold scanFwd
    rw [getP_eq (by omega : i + 1 < pts.length)]
    simp only [bind, Res.bind]
    rcases Nat.lt_or_eq_of_le hik with hlt' | rfl
    · rw [if_pos (hlt i hlt' (le_refl _))]
      exact ih (i + 1) k hlt' hk (by omega) (fun j hj hij => hlt j hj (by omega)) hstop
    · rw [if_neg hstop]; rfl

/-- the backward loop started at `i` stops at the first `k ≤ i` whose left end is not right of `x` -/
theorem scanBwd_spec (pts : List (PRC α)) (x : α) :
    ∀ (fuel i k : Nat) (hki : k ≤ i) (hi : i < pts.length), i - k < fuel →
      (∀ j (hj : j ≤ i), k < j → x < (pts[j]'(by omega)).off) → ¬ x < (pts[k]'(by omega)).off →
      scanBwd pts x fuel i = .ok k := by
  intro fuel
  induction fuel with
  | zero => intro i k _ _ h; omega
  | succ f ih =>
    intro i k hki hi hf hlt hstop
    unfold scanBwd
    rw [getP_eq hi]
    simp only [bind, Res.bind]
    rcases Nat.lt_or_eq_of_le hki with hlt' | rfl
    · rw [if_pos (hlt i (le_refl _) hlt'), if_neg (by omega)]
      exact ih (i - 1) k (by omega) (by omega) (by omega) (fun j hj hkj => hlt j (by omega) hkj) hstop
    · rw [if_neg hstop]; rfl

theorem getLast?_eq_getElem_of {pts : List (PRC α)} {l : PRC α} (hl : pts.getLast? = some l) :
    ∃ h : pts.length - 1 < pts.length, pts[pts.length - 1] = l := by
  rw [List.getLast?_eq_getElem?] at hl
  obtain ⟨h, he⟩ := List.getElem?_eq_some_iff.mp hl
  exact ⟨h, he⟩

theorem head?_eq_getElem_of {pts : List (PRC α)} {p : PRC α} (hh : pts.head? = some p) :
    ∃ h : 0 < pts.length, pts[0] = p := by
  cases pts with
  | nil => simp at hh
  | cons a t => simp at hh; exact ⟨by simp, by simpa using hh⟩

/-- **`calc_idx`, forward / unknown direction, ANY in-range hint.**  The result is
    `max hint (segOf pts x)`: the true index if the hint is not beyond it, the stale hint otherwise. -/
theorem calcIdx_fwd_gen {pts : List (PRC α)} (hs : Sorted pts) {dir : Dir} (hdir : dir ≠ .bwd)
    {l : PRC α} (hl : pts.getLast? = some l) {x : α} (hx : x ≤ l.off)
    {idx : Nat} (hidx : idx + 1 < pts.length) :
    calcIdx pts x idx dir = .ok (max idx (segOf pts x)) := by
  obtain ⟨hn, hle⟩ := getLast?_eq_getElem_of hl
  unfold calcIdx
  rw [if_pos hdir, hl]
  simp only [if_pos hx]
  have hc : cntLt pts x ≤ pts.length - 1 := by
    have : ¬ (pts.length - 1 < cntLt pts x) := fun hh =>
      absurd ((lt_iff_cntLt hs x _ hn).mpr hh) (not_lt.mpr (by rw [hle]; exact hx))
    omega
  have hk : max idx (segOf pts x) + 1 < pts.length := by unfold segOf; omega
  refine scanFwd_spec pts x _ idx _ (le_max_left _ _) hk ?_ ?_ ?_
  · omega
  · intro j hj hij
    apply (lt_iff_cntLt hs x _ _).mpr
    unfold segOf at hj; omega
  · intro hh
    have := (lt_iff_cntLt hs x _ hk).mp hh
    unfold segOf at this; omega

/-- **`calc_idx`, backward direction, ANY in-range hint.**  The result is `min hint (segOfB pts x)`. -/
theorem calcIdx_bwd_gen {pts : List (PRC α)} (hs : Sorted pts)
    {p0 : PRC α} (hh : pts.head? = some p0) {x : α} (hx : p0.off ≤ x)
    {idx : Nat} (hidx : idx < pts.length) :
    calcIdx pts x idx .bwd = .ok (min idx (segOfB pts x)) := by
  obtain ⟨hn, hhe⟩ := head?_eq_getElem_of hh
  unfold calcIdx
  rw [if_neg (by simp), hh]
  simp only [if_pos hx]
  have hc : 1 ≤ cntLe pts x := (le_iff_cntLe hs x 0 hn).mp (by rw [hhe]; exact hx)
  have hc2 := cntLe_le_length pts x
  refine scanBwd_spec pts x _ idx _ (min_le_left _ _) hidx ?_ ?_ ?_
  · omega
  · intro j hj hkj
    apply not_le.mp
    intro hh'
    have := (le_iff_cntLe hs x j (by omega)).mp hh'
    unfold segOfB at hkj; omega
  · apply not_lt.mpr
    apply (le_iff_cntLe hs x _ _).mpr
    unfold segOfB; omega

theorem segOf_succ_lt {pts : List (PRC α)} (hs : Sorted pts) (h2 : 2 ≤ pts.length)
    {l : PRC α} (hl : pts.getLast? = some l) {x : α} (hx : x ≤ l.off) :
    segOf pts x + 1 < pts.length := by
  obtain ⟨hn, hle⟩ := getLast?_eq_getElem_of hl
  have : ¬ (pts.length - 1 < cntLt pts x) := fun hh =>
    absurd ((lt_iff_cntLt hs x _ hn).mpr hh) (not_lt.mpr (by rw [hle]; exact hx))
  unfold segOf; omega

/-! ### `path_res::Strap::calc_res` -/

/-- the difference quotient of a line is its slope -/
theorem diffquot_same_seg {pts : List (PRC α)} (hp : Profile pts) {i : Nat} {x y len : α}
    (hx : Seg pts i x) (hy : Seg pts i y) (hlen : 0 < len) (hxy : y = x - len) :
    (E pts x - E pts y) / len = (pts[i]'hx.1).coeff := by
  rw [← prcVal_of_seg hp hx, ← prcVal_of_seg hp hy]
  unfold prcVal
  have : len ≠ 0 := ne_of_gt hlen
  rw [hxy]; field_simp; ring

/-- **`Strap::calc_res`, forward / unknown direction**, for cached indices that are in range and not
    beyond the (left-closed) true indices.  Both branches return the difference quotient of the
    declarative profile; the new cached indices are `max old (segOf ·)`. -/
theorem strapCoeff_fwd_gen {pts : List (PRC α)} (hp : Profile pts) {dir : Dir} (hdir : dir ≠ .bwd)
    {l : PRC α} (hl : pts.getLast? = some l) {offset offsetBack length : α}
    (hlen : 0 < length) (hback : offsetBack = offset - length) (hx : offset ≤ l.off)
    {s : StrapIdx} (hf : s.front + 1 < pts.length) (hb : s.back + 1 < pts.length)
    (hif : s.front ≤ segOfB pts offset) (hib : s.back ≤ segOfB pts offsetBack) :
    strapCoeff pts s offset offsetBack length dir =
      .ok (⟨max s.front (segOf pts offset), max s.back (segOf pts offsetBack)⟩,
           (E pts offset - E pts offsetBack) / length) := by
  have hs := hp.sorted
  have hne : pts ≠ [] := by intro h0; simp [h0] at hf
  have hbo : offsetBack ≤ offset := by rw [hback]; linarith
  have hxb : offsetBack ≤ l.off := le_trans hbo hx
  have hmono := segOf_mono pts hbo
  have hmonoB := segOfB_mono pts hbo
  have hsf : Seg pts (max s.front (segOf pts offset)) offset :=
    (seg_iff hs hne _ _).mpr ⟨le_max_right _ _, max_le hif (segOf_le_segOfB _ _)⟩
  have hsb : Seg pts (max s.back (segOf pts offsetBack)) offsetBack :=
    (seg_iff hs hne _ _).mpr ⟨le_max_right _ _, max_le hib (segOf_le_segOfB _ _)⟩
  have cF : ∀ d : Dir, d ≠ .bwd → calcIdx pts offset s.front d = .ok (max s.front (segOf pts offset)) :=
    fun d hd => calcIdx_fwd_gen hs hd hl hx hf
  have cB : ∀ d : Dir, d ≠ .bwd → calcIdx pts offsetBack s.back d = .ok (max s.back (segOf pts offsetBack)) :=
    fun d hd => calcIdx_fwd_gen hs hd hl hxb hb
  have hl0 : (!decide (0 < length)) = false := by simp [hlen]
  cases dir with
  | bwd => exact absurd rfl hdir
  | fwd =>
    unfold strapCoeff
    simp only [cF .fwd (by simp), bind, Res.bind, pure]
    by_cases heq : max s.front (segOf pts offset) = s.back
    · -- coincident indices: the stale `back` is the true one
      have hbb : max s.back (segOf pts offsetBack) = s.back := by omega
      rw [if_pos heq, getP_eq hsf.1]
      simp only
      rw [hbb] at hsb ⊢
      have hsb' : Seg pts (max s.front (segOf pts offset)) offsetBack := by rw [heq]; exact hsb
      rw [diffquot_same_seg hp hsf hsb' hlen hback]
    · rw [if_neg heq]
      simp only [cB .fwd (by simp), getP_eq hsf.1, getP_eq hsb.1, hl0, Bool.false_eq_true,
        if_false]
      rw [prcVal_of_seg hp hsf, prcVal_of_seg hp hsb]
  | unk =>
    unfold strapCoeff
    simp only [cF .unk (by simp), cB .unk (by simp), bind, Res.bind, pure]
    by_cases heq : max s.front (segOf pts offset) = max s.back (segOf pts offsetBack)
    · rw [if_pos heq, getP_eq hsf.1]
      simp only
      have hsb' : Seg pts (max s.front (segOf pts offset)) offsetBack := by rw [heq]; exact hsb
      rw [diffquot_same_seg hp hsf hsb' hlen hback]
    · rw [if_neg heq]
      simp only [getP_eq hsf.1, getP_eq hsb.1, hl0, Bool.false_eq_true, if_false]
      rw [prcVal_of_seg hp hsf, prcVal_of_seg hp hsb]

/-- **`Strap::calc_res`, backward direction**, for cached indices that are in range and not before the
    (right-closed) true indices.  The new cached indices are `min old (segOfB ·)`. -/
theorem strapCoeff_bwd_gen {pts : List (PRC α)} (hp : Profile pts)
    {p0 : PRC α} (hh : pts.head? = some p0) {offset offsetBack length : α}
    (hlen : 0 < length) (hback : offsetBack = offset - length) (hx : p0.off ≤ offsetBack)
    {s : StrapIdx} (hf : s.front < pts.length) (hb : s.back < pts.length)
    (hif : segOf pts offset ≤ s.front) (hib : segOf pts offsetBack ≤ s.back) :
    strapCoeff pts s offset offsetBack length .bwd =
      .ok (⟨min s.front (segOfB pts offset), min s.back (segOfB pts offsetBack)⟩,
           (E pts offset - E pts offsetBack) / length) := by
  have hs := hp.sorted
  have hne : pts ≠ [] := by intro h0; simp [h0] at hf
  have hbo : offsetBack ≤ offset := by rw [hback]; linarith
  have hxf : p0.off ≤ offset := le_trans hx hbo
  have hmono := segOf_mono pts hbo
  have hmonoB := segOfB_mono pts hbo
  have hsf : Seg pts (min s.front (segOfB pts offset)) offset :=
    (seg_iff hs hne _ _).mpr ⟨le_min hif (segOf_le_segOfB _ _), min_le_right _ _⟩
  have hsb : Seg pts (min s.back (segOfB pts offsetBack)) offsetBack :=
    (seg_iff hs hne _ _).mpr ⟨le_min hib (segOf_le_segOfB _ _), min_le_right _ _⟩
  have cF : calcIdx pts offset s.front .bwd = .ok (min s.front (segOfB pts offset)) :=
    calcIdx_bwd_gen hs hh hxf hf
  have cB : calcIdx pts offsetBack s.back .bwd = .ok (min s.back (segOfB pts offsetBack)) :=
    calcIdx_bwd_gen hs hh hx hb
  have hl0 : (!decide (0 < length)) = false := by simp [hlen]
  unfold strapCoeff
  simp only [cB, bind, Res.bind, pure]
  by_cases heq : s.front = min s.back (segOfB pts offsetBack)
  · -- coincident indices: the stale `front` is the true one
    have hff : min s.front (segOfB pts offset) = s.front := by omega
    rw [if_pos heq]
    rw [hff] at hsf ⊢
    rw [getP_eq hsf.1]
    simp only
    have hsb' : Seg pts s.front offsetBack := by rw [heq]; exact hsb
    rw [diffquot_same_seg hp hsf hsb' hlen hback]
  · rw [if_neg heq]
    simp only [cF, getP_eq hsf.1, getP_eq hsb.1, hl0, Bool.false_eq_true, if_false]
    rw [prcVal_of_seg hp hsf, prcVal_of_seg hp hsb]

/-! ### no panic: `Post r Q` = "`r` is not a panic, and if it is `ok v` then `Q v`" -/

def Post {σ : Type} (r : Res σ) (Q : σ → Prop) : Prop :=
  match r with
  | .ok v => Q v
  | .err _ => True
  | .panic _ => False

theorem Post.bind {σ τ : Type} {r : Res σ} {f : σ → Res τ} {Q : σ → Prop} {R : τ → Prop}
    (h : Post r Q) (hf : ∀ v, Q v → Post (f v) R) : Post (r >>= f) R := by
  cases r with
  | ok v => exact hf v h
  | err e => exact True.intro
  | panic e => exact h.elim

theorem Post.mono {σ : Type} {r : Res σ} {Q R : σ → Prop} (h : Post r Q) (hqr : ∀ v, Q v → R v) :
    Post r R := by
  cases r with
  | ok v => exact hqr v h
  | err e => exact True.intro
  | panic e => exact h.elim

theorem Post.noPanic {σ : Type} {r : Res σ} {Q : σ → Prop} (h : Post r Q) (m : String) :
    r ≠ .panic m := by
  intro e; rw [e] at h; exact h

theorem Post.of_ok {σ : Type} {r : Res σ} {Q : σ → Prop} {v : σ} (h : Post r Q) (e : r = .ok v) : Q v := by
  rw [e] at h; exact h

/-- forward loop, no sortedness needed: if the last offset is not left of `x` the loop stays in range -/
theorem scanFwd_post (pts : List (PRC α)) (x : α)
    (hlast : ∀ (j : Nat) (h : j < pts.length), pts.length ≤ j + 1 → ¬ pts[j].off < x) :
    ∀ (fuel i : Nat), i + 1 < pts.length → pts.length - 1 - i ≤ fuel →
      Post (scanFwd pts x fuel i) (fun k => i ≤ k ∧ k + 1 < pts.length) := by
  intro fuel
  induction fuel with
  | zero => intro i h1 h2; omega
  | succ f ih =>
    intro i h1 h2
    unfold scanFwd
    rw [getP_eq h1]
    simp only [bind, Res.bind]
    split_ifs with hlt
    · have h3 : i + 2 < pts.length := by
        by_contra hcon
        exact hlast (i + 1) h1 (by omega) hlt
      exact (ih (i + 1) h3 (by omega)).mono (fun k hk => ⟨by omega, hk.2⟩)
    · exact ⟨le_refl _, h1⟩

/-- backward loop, no sortedness needed: if the first offset is not right of `x` there is no underflow -/
theorem scanBwd_post (pts : List (PRC α)) (x : α)
    (hfirst : ∀ h : 0 < pts.length, ¬ x < pts[0].off) :
    ∀ (fuel i : Nat), i < pts.length → i < fuel → Post (scanBwd pts x fuel i) (fun k => k ≤ i) := by
  intro fuel
  induction fuel with
  | zero => intro i _ h; omega
  | succ f ih =>
    intro i h1 h2
    unfold scanBwd
    rw [getP_eq h1]
    simp only [bind, Res.bind]
    split_ifs with hlt h0
    · subst h0; exact absurd hlt (hfirst h1)
    · exact (ih (i - 1) (by omega) (by omega)).mono (fun k hk => by omega)
    · exact le_refl _

/-- **`calc_idx` never panics on an in-range hint (forward / unknown).**  No assumption on `x` or
    on the ordering of the list: a failed `ensure!` is an `Err`, not a panic. -/
theorem calcIdx_post_fwd (pts : List (PRC α)) (x : α) {dir : Dir} (hdir : dir ≠ .bwd) {idx : Nat}
    (hidx : idx + 1 < pts.length) :
    Post (calcIdx pts x idx dir) (fun k => idx ≤ k ∧ k + 1 < pts.length) := by
  unfold calcIdx
  rw [if_pos hdir]
  cases hl : pts.getLast? with
  | none =>
    rw [List.getLast?_eq_none_iff] at hl
    simp [hl] at hidx
  | some l =>
    obtain ⟨hn, hle⟩ := getLast?_eq_getElem_of hl
    simp only
    split_ifs with hx
    · apply scanFwd_post pts x _ _ idx hidx (by omega)
      intro j hj hj2
      have : j = pts.length - 1 := by omega
      subst this
      rw [hle]; exact not_lt.mpr hx
    · exact True.intro

/-- **`calc_idx` never panics on an in-range hint (backward).** -/
theorem calcIdx_post_bwd (pts : List (PRC α)) (x : α) {idx : Nat} (hidx : idx < pts.length) :
    Post (calcIdx pts x idx .bwd) (fun k => k ≤ idx) := by
  unfold calcIdx
  rw [if_neg (by simp)]
  cases hh : pts.head? with
  | none =>
    rw [List.head?_eq_none_iff] at hh
    simp [hh] at hidx
  | some p0 =>
    obtain ⟨hn, hhe⟩ := head?_eq_getElem_of hh
    simp only
    split_ifs with hx
    · apply scanBwd_post pts x _ _ idx hidx (by omega)
      intro _
      rw [hhe]; exact not_lt.mpr hx
    · exact True.intro

/-- cached indices that the loops can start from without an out-of-range access -/
def InRange (dir : Dir) (n : Nat) (s : StrapIdx) : Prop :=
  match dir with
  | .bwd => s.front < n ∧ s.back < n
  | _ => s.front + 1 < n ∧ s.back + 1 < n

theorem getP_post {pts : List (PRC α)} {i : Nat} (h : i < pts.length) :
    Post (getP pts i) (fun _ => True) := by
  rw [getP_eq h]; exact True.intro

/-- **`Strap::calc_res` never panics** on in-range cached indices and a positive train length, and
    the new cached indices are in range again. -/
theorem strapCoeff_post (pts : List (PRC α)) (s : StrapIdx) (offset offsetBack length : α) (dir : Dir)
    (hlen : 0 < length) (hs : InRange dir pts.length s) :
    Post (strapCoeff pts s offset offsetBack length dir) (fun r => InRange dir pts.length r.1) := by
  have hl0 : (!decide (0 < length)) = false := by simp [hlen]
  cases dir with
  | fwd =>
    obtain ⟨h1, h2⟩ := hs
    unfold strapCoeff
    simp only [hl0, Bool.false_eq_true, if_false]
    refine Post.bind (Q := fun s' : StrapIdx => s'.front + 1 < pts.length ∧ s'.back = s.back) ?_ ?_
    · exact (calcIdx_post_fwd pts offset (by simp) h1).bind (fun k hk => ⟨hk.2, rfl⟩)
    · rintro s' ⟨hf', hb'⟩
      split_ifs with heq
      · exact (getP_post (by omega)).bind (fun p _ => ⟨hf', by rw [← heq]; exact hf'⟩)
      · refine Post.bind (Q := fun s'' : StrapIdx => s''.front + 1 < pts.length ∧ s''.back + 1 < pts.length) ?_ ?_
        · exact (calcIdx_post_fwd pts offsetBack (by simp) (by rw [hb']; exact h2)).bind
            (fun k hk => ⟨hf', hk.2⟩)
        · rintro s'' ⟨hf'', hb''⟩
          refine (getP_post (by omega)).bind (fun pf _ => ?_)
          refine (getP_post (by omega)).bind (fun pb _ => ?_)
          exact ⟨hf'', hb''⟩
  | unk =>
    obtain ⟨h1, h2⟩ := hs
    unfold strapCoeff
    simp only [hl0, Bool.false_eq_true, if_false]
    refine Post.bind (Q := fun s' : StrapIdx => s'.front + 1 < pts.length ∧ s'.back + 1 < pts.length) ?_ ?_
    · refine (calcIdx_post_fwd pts offset (by simp) h1).bind (fun f hf => ?_)
      exact (calcIdx_post_fwd pts offsetBack (by simp) h2).bind (fun b hb => ⟨hf.2, hb.2⟩)
    · rintro s' ⟨hf', hb'⟩
      split_ifs with heq
      · exact (getP_post (by omega)).bind (fun p _ => ⟨hf', hb'⟩)
      · refine Post.bind (Q := fun s'' : StrapIdx => s'' = s') rfl ?_
        rintro s'' rfl
        refine (getP_post (by omega)).bind (fun pf _ => ?_)
        refine (getP_post (by omega)).bind (fun pb _ => ?_)
        exact ⟨hf', hb'⟩
  | bwd =>
    obtain ⟨h1, h2⟩ := hs
    unfold strapCoeff
    simp only [hl0, Bool.false_eq_true, if_false]
    refine Post.bind (Q := fun s' : StrapIdx => s'.front = s.front ∧ s'.back < pts.length) ?_ ?_
    · exact (calcIdx_post_bwd pts offsetBack h2).bind (fun k hk => ⟨rfl, lt_of_le_of_lt hk h2⟩)
    · rintro s' ⟨hf', hb'⟩
      split_ifs with heq
      · exact (getP_post (by omega)).bind (fun p _ => ⟨by rw [hf']; exact h1, hb'⟩)
      · refine Post.bind (Q := fun s'' : StrapIdx => s''.front < pts.length ∧ s''.back < pts.length) ?_ ?_
        · exact (calcIdx_post_bwd pts offset (by rw [hf']; exact h1)).bind
            (fun k hk => ⟨lt_of_le_of_lt hk (by rw [hf']; exact h1), hb'⟩)
        · rintro s'' ⟨hf'', hb''⟩
          refine (getP_post hf'').bind (fun pf _ => ?_)
          refine (getP_post hb'').bind (fun pb _ => ?_)
          exact ⟨hf'', hb''⟩

theorem InRange.front_lt {dir : Dir} {n : Nat} {s : StrapIdx} (h : InRange dir n s) : s.front < n := by
  cases dir <;> (obtain ⟨h1, _⟩ := h; omega)
theorem InRange.back_lt {dir : Dir} {n : Nat} {s : StrapIdx} (h : InRange dir n s) : s.back < n := by
  cases dir <;> (obtain ⟨_, h2⟩ := h; omega)

/-- **`Strap::update_res` never panics** on in-range cached indices and a positive train length;
    the in-range condition is re-established. -/
theorem updateRes_post (g rho : α) (grades curves : List (PRC α)) (r : ResStrap α) (st : ResState α)
    (dir : Dir) (hlen : 0 < st.length) (hg : InRange dir grades.length r.grade)
    (hc : InRange dir curves.length r.curve) :
    Post (updateRes g rho grades curves r st dir)
      (fun out => InRange dir grades.length out.1.grade ∧ InRange dir curves.length out.1.curve) := by
  unfold updateRes
  refine (strapCoeff_post grades r.grade _ _ _ dir hlen hg).bind ?_
  rintro ⟨gi, gc⟩ hgi
  refine (strapCoeff_post curves r.curve _ _ _ dir hlen hc).bind ?_
  rintro ⟨ci, cc⟩ hci
  refine (getP_post hgi.front_lt).bind (fun pf _ => ?_)
  refine (getP_post hgi.back_lt).bind (fun pb _ => ?_)
  exact ⟨hgi, hci⟩

/-! ### `method::Strap::update_res`: the explicit result -/

/-- the scalar (non-path) part of the new train state -/
def scalarState (g rho : α) (r : ResStrap α) (st : ResState α) : ResState α :=
  { st with offsetBack := st.offset - st.length, weightStatic := st.massStatic * g,
            resBearing := r.bearingForce, resRolling := r.rollingRatio * (st.massStatic * g),
            resDavisB := r.davisB * st.speed * (st.massStatic * g),
            resAero := r.cdArea * rho * st.speed * st.speed }

theorem updateRes_ok_of {g rho : α} {grades curves : List (PRC α)} {r : ResStrap α} {st : ResState α}
    {dir : Dir} {gi ci : StrapIdx} {gc cc : α}
    (h1 : strapCoeff grades r.grade st.offset (st.offset - st.length) st.length dir = .ok (gi, gc))
    (h2 : strapCoeff curves r.curve st.offset (st.offset - st.length) st.length dir = .ok (ci, cc))
    (hf : gi.front < grades.length) (hb : gi.back < grades.length) :
    updateRes g rho grades curves r st dir =
      .ok ({ r with grade := gi, curve := ci },
           { scalarState g rho r st with
               resGrade := gc * (st.massStatic * g), resCurve := cc * (st.massStatic * g),
               gradeFront := grades[gi.front].coeff, gradeBack := grades[gi.back].coeff,
               elevFront := prcVal grades[gi.front] st.offset }) := by
  unfold updateRes
  simp only [h1, h2, getP_eq hf, getP_eq hb, bind, Res.bind, pure, scalarState]

/-- every accepted `update_res` has the scalar part given by the definitions, whatever the path -/
theorem updateRes_scalars {g rho : α} {grades curves : List (PRC α)} {r r' : ResStrap α}
    {st st' : ResState α} {dir : Dir} (h : updateRes g rho grades curves r st dir = .ok (r', st')) :
    (st'.offset = st.offset ∧ st'.speed = st.speed ∧ st'.length = st.length ∧
      st'.massStatic = st.massStatic) ∧
    (r'.bearingForce = r.bearingForce ∧ r'.rollingRatio = r.rollingRatio ∧ r'.davisB = r.davisB ∧
      r'.cdArea = r.cdArea) ∧
    st'.offsetBack = st.offset - st.length ∧
    st'.weightStatic = st.massStatic * g ∧
    st'.resBearing = r.bearingForce ∧
    st'.resRolling = r.rollingRatio * st'.weightStatic ∧
    st'.resDavisB = r.davisB * st.speed * st'.weightStatic ∧
    st'.resAero = r.cdArea * rho * st.speed * st.speed := by
  unfold updateRes at h
  simp only [bind, Res.bind, pure] at h
  split at h
  next gv hgv =>
    split at h
    next cv hcv =>
      split at h
      next pf hpf =>
        split at h
        next pb hpb =>
          injection h with h
          injection h with hr hst
          subst hr; subst hst
          simp
        all_goals cases h
      all_goals cases h
    all_goals cases h
  all_goals cases h

/-! ### the hint invariant along runs -/

/-- The invariant of the cached indices of one `path_res::Strap` when the train front is at `x`:
    both indices leave room for the forward loop's look-ahead (`idx + 1` in range) and each points
    at a closed segment containing its position. -/
structure StrapInv (pts : List (PRC α)) (len : α) (s : StrapIdx) (x : α) : Prop where
  frontR : s.front + 1 < pts.length
  backR : s.back + 1 < pts.length
  front : Seg pts s.front x
  back : Seg pts s.back (x - len)

/-- one step is admissible after the front was at `x`: forward / unknown direction to a position not
    behind `x` (and not beyond the end), or backward direction to a position not ahead of `x`
    (rear not before the start) -/
def StepOK (len lastOff firstOff x : α) (x' : α) (dir : Dir) : Prop :=
  (dir ≠ .bwd ∧ x ≤ x' ∧ x' ≤ lastOff) ∨ (dir = .bwd ∧ x' ≤ x ∧ firstOff ≤ x' - len)

/-- **One step keeps the invariant and returns the right coefficient**, whatever mixture of
    directions: forward steps may follow backward ones and vice versa. -/
theorem strapCoeff_step {pts : List (PRC α)} (hp : Profile pts) {len : α} (hlen : 0 < len)
    {l p0 : PRC α} (hl : pts.getLast? = some l) (hh : pts.head? = some p0)
    {s : StrapIdx} {x : α} (hinv : StrapInv pts len s x) {x' : α} {dir : Dir}
    (hstep : StepOK len l.off p0.off x x' dir) :
    ∃ s', strapCoeff pts s x' (x' - len) len dir = .ok (s', (E pts x' - E pts (x' - len)) / len) ∧
      StrapInv pts len s' x' := by
  have hs := hp.sorted
  have hne : pts ≠ [] := by intro h0; have := hinv.frontR; simp [h0] at this
  have hF := (seg_iff hs hne _ _).mp hinv.front
  have hB := (seg_iff hs hne _ _).mp hinv.back
  rcases hstep with ⟨hd, hxx, hxl⟩ | ⟨hd, hxx, hxf⟩
  · have hif : s.front ≤ segOfB pts x' := le_trans hF.2 (segOfB_mono pts hxx)
    have hib : s.back ≤ segOfB pts (x' - len) := le_trans hB.2 (segOfB_mono pts (by linarith))
    refine ⟨_, strapCoeff_fwd_gen hp hd hl hlen rfl hxl hinv.frontR hinv.backR hif hib, ?_, ?_, ?_, ?_⟩
    · have := segOf_succ_lt hs (by have := hinv.frontR; omega) hl hxl
      have := hinv.frontR
      show max _ _ + 1 < _; omega
    · have := segOf_succ_lt hs (by have := hinv.frontR; omega) hl (x := x' - len) (by linarith)
      have := hinv.backR
      show max _ _ + 1 < _; omega
    · exact (seg_iff hs hne _ _).mpr ⟨le_max_right _ _, max_le hif (segOf_le_segOfB _ _)⟩
    · exact (seg_iff hs hne _ _).mpr ⟨le_max_right _ _, max_le hib (segOf_le_segOfB _ _)⟩
  · subst hd
    have hif : segOf pts x' ≤ s.front := le_trans (segOf_mono pts hxx) hF.1
    have hib : segOf pts (x' - len) ≤ s.back := le_trans (segOf_mono pts (by linarith)) hB.1
    refine ⟨_, strapCoeff_bwd_gen hp hh hlen rfl hxf (by have := hinv.frontR; omega)
      (by have := hinv.backR; omega) hif hib, ?_, ?_, ?_, ?_⟩
    · have := hinv.frontR
      show min _ _ + 1 < _; omega
    · have := hinv.backR
      show min _ _ + 1 < _; omega
    · exact (seg_iff hs hne _ _).mpr ⟨le_min hif (segOf_le_segOfB _ _), min_le_right _ _⟩
    · exact (seg_iff hs hne _ _).mpr ⟨le_min hib (segOf_le_segOfB _ _), min_le_right _ _⟩

/-- a run of `Strap::calc_res` calls, each fed the cached indices left by the previous one
    (specification-level driver; `len` is the train length) -/
def strapRun (pts : List (PRC α)) (len : α) : StrapIdx → List (α × Dir) → Res (StrapIdx × List α)
  | s, [] => .ok (s, [])
  | s, (x, d) :: rest =>
    match strapCoeff pts s x (x - len) len d with
    | .ok (s', c) =>
      match strapRun pts len s' rest with
      | .ok (s'', cs) => .ok (s'', c :: cs)
      | .err e => .err e
      | .panic e => .panic e
    | .err e => .err e
    | .panic e => .panic e

/-- every step of the run is admissible after the previous one -/
def StepsOK (len lastOff firstOff : α) : α → List (α × Dir) → Prop
  | _, [] => True
  | x, (x', d) :: rest => StepOK len lastOff firstOff x x' d ∧ StepsOK len lastOff firstOff x' rest

/-- **Hint invariant along runs.**  Starting from valid cached indices, every coefficient returned along
    an admissible run (forward steps with non-decreasing positions, backward steps with
    non-increasing positions, in any mixture — in particular `Unk` at the end of the path followed
    by `Bwd` steps, as `BrakingPoints::recalc` does) is the difference quotient of the declarative
    profile, and the invariant holds again at the end. -/
theorem strapRun_correct {pts : List (PRC α)} (hp : Profile pts) {len : α} (hlen : 0 < len)
    {l p0 : PRC α} (hl : pts.getLast? = some l) (hh : pts.head? = some p0) :
    ∀ (steps : List (α × Dir)) (s : StrapIdx) (x : α), StrapInv pts len s x →
      StepsOK len l.off p0.off x steps →
      ∃ s', strapRun pts len s steps =
          .ok (s', steps.map (fun xd => (E pts xd.1 - E pts (xd.1 - len)) / len)) ∧
        StrapInv pts len s' (steps.foldl (fun _ xd => xd.1) x) := by
  intro steps
  induction steps with
  | nil => intro s x hinv _; exact ⟨s, rfl, hinv⟩
  | cons xd rest ih =>
    obtain ⟨x', d⟩ := xd
    intro s x hinv hsteps
    obtain ⟨hstep, hrest⟩ := hsteps
    obtain ⟨s1, h1, hinv1⟩ := strapCoeff_step hp hlen hl hh hinv hstep
    obtain ⟨s2, h2, hinv2⟩ := ih s1 x' hinv1 hrest
    refine ⟨s2, ?_, hinv2⟩
    simp only [strapRun, h1, h2, List.map_cons]

/-- a run of `calc_idx` queries, each with the previous answer as hint -/
def idxRun (pts : List (PRC α)) (dir : Dir) : Nat → List α → Res (List Nat)
  | _, [] => .ok []
  | h, x :: xs =>
    match calcIdx pts x h dir with
    | .ok i =>
      match idxRun pts dir i xs with
      | .ok is => .ok (i :: is)
      | .err e => .err e
      | .panic e => .panic e
    | .err e => .err e
    | .panic e => .panic e

/-- forward queries `x₁ ≤ x₂ ≤ …`, hint not beyond the first true index: every answer is the true index -/
theorem idxRun_fwd {pts : List (PRC α)} (hs : Sorted pts) (h2 : 2 ≤ pts.length) {dir : Dir}
    (hdir : dir ≠ .bwd) {l : PRC α} (hl : pts.getLast? = some l) :
    ∀ (xs : List α) (h : Nat), xs.Pairwise (· ≤ ·) → (∀ x ∈ xs, x ≤ l.off) →
      (∀ x ∈ xs.head?, h ≤ segOf pts x) →
      idxRun pts dir h xs = .ok (xs.map (segOf pts)) := by
  intro xs
  induction xs with
  | nil => intro h _ _ _; rfl
  | cons x xs ih =>
    intro h hpw hle hh
    have hpw' := List.pairwise_cons.mp hpw
    have hx : x ≤ l.off := hle x (by simp)
    have hhx : h ≤ segOf pts x := hh x (by simp)
    have hlt := segOf_succ_lt hs h2 hl hx
    have e1 : calcIdx pts x h dir = .ok (segOf pts x) := by
      rw [calcIdx_fwd_gen hs hdir hl hx (by omega), max_eq_right hhx]
    have e2 := ih (segOf pts x) hpw'.2 (fun y hy => hle y (by simp [hy]))
      (fun y hy => by
        cases xs with
        | nil => simp at hy
        | cons z zs =>
          simp at hy; subst hy
          exact segOf_mono pts (hpw'.1 _ (by simp)))
    simp only [idxRun, e1, e2, List.map_cons]

/-- backward queries `x₁ ≥ x₂ ≥ …`, hint not before the first true (left-closed) index -/
theorem idxRun_bwd {pts : List (PRC α)} (hs : Sorted pts)
    {p0 : PRC α} (hh0 : pts.head? = some p0) :
    ∀ (xs : List α) (h : Nat), xs.Pairwise (· ≥ ·) → (∀ x ∈ xs, p0.off ≤ x) → h < pts.length →
      (∀ x ∈ xs.head?, segOfB pts x ≤ h) →
      idxRun pts .bwd h xs = .ok (xs.map (segOfB pts)) := by
  have hne : pts ≠ [] := by intro h0; simp [h0] at hh0
  intro xs
  induction xs with
  | nil => intro h _ _ _ _; rfl
  | cons x xs ih =>
    intro h hpw hle hlt hh
    have hpw' := List.pairwise_cons.mp hpw
    have hx : p0.off ≤ x := hle x (by simp)
    have hhx : segOfB pts x ≤ h := hh x (by simp)
    have e1 : calcIdx pts x h .bwd = .ok (segOfB pts x) := by
      rw [calcIdx_bwd_gen hs hh0 hx hlt, min_eq_right hhx]
    have e2 := ih (segOfB pts x) hpw'.2 (fun y hy => hle y (by simp [hy])) (segOfB_lt_length hne x)
      (fun y hy => by
        cases xs with
        | nil => simp at hy
        | cons z zs =>
          simp at hy; subst hy
          exact segOfB_mono pts (hpw'.1 _ (by simp)))
    simp only [idxRun, e1, e2, List.map_cons]

/-! ### stability across `PathTpc::extend`

`extend` overwrites the slope of the LAST point (it was the `0` placeholder) and appends new points:
`grades' = setLast grades (fun g => { g with coeff := c }) ++ more`.  Offsets of the old points are
unchanged and the new ones lie beyond them, so segment indices, cached indices and the profile
value at every position up to the old end are unchanged. -/

theorem setLast_eq (pts : List (PRC α)) (f : PRC α → PRC α) (hne : pts ≠ []) :
    setLast pts f = pts.dropLast ++ [f (pts.getLast hne)] := by
  unfold setLast
  have h := List.dropLast_append_getLast hne
  generalize pts.dropLast = d at h ⊢
  generalize pts.getLast hne = a at h ⊢
  subst h
  simp

theorem setLast_length (pts : List (PRC α)) (f : PRC α → PRC α) : (setLast pts f).length = pts.length := by
  by_cases hne : pts = []
  · subst hne; simp [setLast]
  · rw [setLast_eq pts f hne]
    have : 0 < pts.length := List.length_pos_iff.mpr hne
    simp; omega

theorem setLast_getElem_off (pts : List (PRC α)) (f : PRC α → PRC α) (hf : ∀ p, (f p).off = p.off)
    (i : Nat) (h : i < pts.length) :
    ((setLast pts f)[i]'(by rw [setLast_length]; exact h)).off = pts[i].off := by
  have hne : pts ≠ [] := by intro h0; simp [h0] at h
  have e := setLast_eq pts f hne
  have hl := setLast_length pts f
  by_cases hi : i < pts.length - 1
  · have : (setLast pts f)[i]'(by omega) = pts[i] := by
      simp only [e]
      rw [List.getElem_append_left (by simp; exact hi)]
      simp
    rw [this]
  · have hi' : i = pts.length - 1 := by omega
    have : (setLast pts f)[i]'(by omega) = f (pts.getLast hne) := by
      simp only [e]
      rw [List.getElem_append_right (by simp; omega)]
      simp
    rw [this, hf, List.getLast_eq_getElem]
    congr 1
    simp only [hi']

theorem setLast_getElem_lt (pts : List (PRC α)) (f : PRC α → PRC α)
    (i : Nat) (h : i + 1 < pts.length) :
    (setLast pts f)[i]'(by rw [setLast_length]; omega) = pts[i] := by
  have hne : pts ≠ [] := by intro h0; simp [h0] at h
  simp only [setLast_eq pts f hne]
  rw [List.getElem_append_left (by simp; omega)]
  simp

/-- the counts depend on the offsets only -/
theorem countP_off_congr (P : α → Bool) :
    ∀ (a b : List (PRC α)), a.map (·.off) = b.map (·.off) →
      a.countP (fun p => P p.off) = b.countP (fun p => P p.off) := by
  intro a b h
  have : ∀ c : List (PRC α), c.countP (fun p => P p.off) = (c.map (·.off)).countP P := by
    intro c; rw [List.countP_map]; rfl
  rw [this a, this b, h]

theorem setLast_map_off (pts : List (PRC α)) (f : PRC α → PRC α) (hf : ∀ p, (f p).off = p.off) :
    (setLast pts f).map (·.off) = pts.map (·.off) := by
  apply List.ext_getElem
  · simp [setLast_length]
  · intro i h1 h2
    simp only [List.getElem_map]
    exact setLast_getElem_off pts f hf i (by simpa using h2)

/-- **Across `extend`, positions up to the old end keep their segment indices** (both conventions). -/
theorem segOf_extend {pts more : List (PRC α)} {f : PRC α → PRC α} (hf : ∀ p, (f p).off = p.off)
    (hs : Sorted (setLast pts f ++ more)) {l : PRC α} (hl : pts.getLast? = some l)
    {x : α} (hx : x ≤ l.off) :
    segOf (setLast pts f ++ more) x = segOf pts x ∧ segOfB (setLast pts f ++ more) x = segOfB pts x := by
  have hne : pts ≠ [] := by intro h0; simp [h0] at hl
  have hlast : l = pts.getLast hne := by
    rw [List.getLast?_eq_some_getLast hne] at hl; exact (Option.some.inj hl).symm
  -- every appended point lies beyond the old end
  have hmore : ∀ q ∈ more, l.off < q.off := by
    intro q hq
    have hpa := List.pairwise_append.mp hs
    have : f (pts.getLast hne) ∈ setLast pts f := by rw [setLast_eq pts f hne]; simp
    have := hpa.2.2 _ this q hq
    rwa [hf, ← hlast] at this
  have h1 : cntLt more x = 0 := by
    unfold cntLt
    apply List.countP_eq_zero.mpr
    intro q hq
    simp only [decide_eq_true_eq, not_lt]
    exact le_of_lt (lt_of_le_of_lt hx (hmore q hq))
  have h2 : cntLe more x = 0 := by
    unfold cntLe
    apply List.countP_eq_zero.mpr
    intro q hq
    simp only [decide_eq_true_eq, not_le]
    exact lt_of_le_of_lt hx (hmore q hq)
  have h3 : cntLt (setLast pts f) x = cntLt pts x :=
    countP_off_congr (fun o => decide (o < x)) _ _ (setLast_map_off pts f hf)
  have h4 : cntLe (setLast pts f) x = cntLe pts x :=
    countP_off_congr (fun o => decide (o ≤ x)) _ _ (setLast_map_off pts f hf)
  constructor
  · unfold segOf
    have : cntLt (setLast pts f ++ more) x = cntLt (setLast pts f) x + cntLt more x := by
      unfold cntLt; rw [List.countP_append]
    rw [this, h1, h3]; rfl
  · unfold segOfB
    have : cntLe (setLast pts f ++ more) x = cntLe (setLast pts f) x + cntLe more x := by
      unfold cntLe; rw [List.countP_append]
    rw [this, h2, h4]; rfl

/-- **Across `extend`, the profile value up to the old end is unchanged** (the overwritten slope of the
    old last point is never used there, provided the old list had at least one segment). -/
theorem E_extend {pts more : List (PRC α)} {f : PRC α → PRC α} (hf : ∀ p, (f p).off = p.off)
    (hs : Sorted (setLast pts f ++ more)) (hs0 : Sorted pts) (h2 : 2 ≤ pts.length)
    {l : PRC α} (hl : pts.getLast? = some l) {x : α} (hx : x ≤ l.off) :
    E (setLast pts f ++ more) x = E pts x := by
  have hlt := segOf_succ_lt hs0 h2 hl hx
  have hseg := (segOf_extend hf hs hl hx).1
  have hlen := setLast_length pts f
  rw [E_eq x (by rw [hseg, List.length_append, hlen]; omega), E_eq x (by omega)]
  simp only [hseg]
  rw [List.getElem_append_left (by rw [hlen]; omega), setLast_getElem_lt pts f _ hlt]

/-- **Across `extend`, cached indices stay valid**: the strap invariant transfers to the extended list. -/
theorem StrapInv_extend {pts more : List (PRC α)} {f : PRC α → PRC α} (hf : ∀ p, (f p).off = p.off)
    (hs : Sorted (setLast pts f ++ more)) (hs0 : Sorted pts)
    {l : PRC α} (hl : pts.getLast? = some l) {len : α} (hlen : 0 ≤ len) {s : StrapIdx} {x : α}
    (hx : x ≤ l.off) (hinv : StrapInv pts len s x) : StrapInv (setLast pts f ++ more) len s x := by
  have hne : pts ≠ [] := by intro h0; simp [h0] at hl
  have hlen' : pts.length ≤ (setLast pts f ++ more).length := by
    rw [List.length_append, setLast_length]; omega
  have hne' : setLast pts f ++ more ≠ [] := by
    have : 0 < pts.length := List.length_pos_iff.mpr hne
    exact List.length_pos_iff.mp (by omega)
  have e1 := segOf_extend hf hs hl hx
  have e2 := segOf_extend hf hs hl (x := x - len) (by linarith)
  refine ⟨by have := hinv.frontR; omega, by have := hinv.backR; omega, ?_, ?_⟩
  · rw [seg_iff hs hne', e1.1, e1.2, ← seg_iff hs0 hne]; exact hinv.front
  · rw [seg_iff hs hne', e2.1, e2.2, ← seg_iff hs0 hne]; exact hinv.back

/-! ### the declarative indices are characterised by their defining inequalities -/

/-- `segOf pts x` is THE index `i` with `off_i < x ≤ off_{i+1}` (`i = 0` also covers `x ≤ off_0`) -/
theorem segOf_unique {pts : List (PRC α)} (hs : Sorted pts) {i : Nat} {x : α} (hi : i + 1 < pts.length)
    (h1 : i = 0 ∨ (pts[i]'(by omega)).off < x) (h2 : x ≤ pts[i + 1].off) : segOf pts x = i := by
  have a : ¬ (i + 1 < cntLt pts x) := fun hh =>
    absurd ((lt_iff_cntLt hs x _ hi).mpr hh) (not_lt.mpr h2)
  rcases h1 with rfl | h1
  · unfold segOf; omega
  · have := (lt_iff_cntLt hs x i (by omega)).mp h1
    unfold segOf; omega

/-- `segOfB pts x` is THE index `i` with `off_i ≤ x < off_{i+1}` (the last index also covers `x ≥ off_{n-1}`) -/
theorem segOfB_unique {pts : List (PRC α)} (hs : Sorted pts) {i : Nat} {x : α} (hi : i < pts.length)
    (h1 : pts[i].off ≤ x) (h2 : ∀ h : i + 1 < pts.length, x < pts[i + 1].off) : segOfB pts x = i := by
  have a := (le_iff_cntLe hs x i hi).mp h1
  have b := cntLe_le_length pts x
  by_cases h : i + 1 < pts.length
  · have : ¬ (i + 1 < cntLe pts x) := fun hh =>
      absurd ((le_iff_cntLe hs x _ h).mpr hh) (not_le.mpr (h2 h))
    unfold segOfB; omega
  · unfold segOfB; omega

/-! ### `PathTpc::extend` really has the shape assumed by `segOf_extend` / `E_extend` / `StrapInv_extend`

`Extends pts pts'`: `pts'` is `pts` with its last point rewritten (offset kept) followed by new points.
`extend` (initial-elevation fix-up, `pushGrades`, `pushCurves`, the no-elevation / no-heading
branches, folded over the link path) satisfies it for `grades` and for `curves`. -/

theorem setLast_eq' {β : Type} (l : List β) (f : β → β) (hne : l ≠ []) :
    setLast l f = l.dropLast ++ [f (l.getLast hne)] := by
  unfold setLast
  have h := List.dropLast_append_getLast hne
  generalize l.dropLast = d at h ⊢
  generalize l.getLast hne = a at h ⊢
  subst h
  simp

theorem setLast_nil {β : Type} (f : β → β) : setLast ([] : List β) f = [] := rfl

theorem setLast_append {β : Type} (a l : List β) (f : β → β) (hne : l ≠ []) :
    setLast (a ++ l) f = a ++ setLast l f := by
  rw [setLast_eq' (a ++ l) f (by simp [hne]), setLast_eq' l f hne,
    List.dropLast_append_of_ne_nil hne]
  simp [List.getLast_append_right hne]

theorem setLast_setLast {β : Type} (l : List β) (f f' : β → β) :
    setLast (setLast l f) f' = setLast l (f' ∘ f) := by
  by_cases hne : l = []
  · subst hne; rfl
  · rw [setLast_eq' l f hne, setLast_append _ _ _ (by simp), setLast_eq' l _ hne]
    simp [setLast]

/-- `pts'` arises from `pts` by rewriting the last point (keeping its offset) and appending -/
def Extends (pts pts' : List (PRC α)) : Prop :=
  ∃ (f : PRC α → PRC α) (more : List (PRC α)), (∀ p, (f p).off = p.off) ∧ pts' = setLast pts f ++ more

theorem setLast_id {β : Type} (l : List β) : setLast l id = l := by
  by_cases hne : l = []
  · subst hne; rfl
  · rw [setLast_eq' l id hne]; simp [List.dropLast_append_getLast hne]

theorem Extends.append (pts more : List (PRC α)) : Extends pts (pts ++ more) :=
  ⟨id, more, fun _ => rfl, by rw [setLast_id]⟩

theorem Extends.of_setLast (pts : List (PRC α)) (f : PRC α → PRC α) (hf : ∀ p, (f p).off = p.off) :
    Extends pts (setLast pts f) :=
  ⟨f, [], hf, (List.append_nil _).symm⟩

theorem Extends.refl (pts : List (PRC α)) : Extends pts pts := by
  simpa using Extends.append pts []

theorem Extends.trans {a b c : List (PRC α)} (h1 : Extends a b) (h2 : Extends b c) : Extends a c := by
  obtain ⟨f, more, hf, rfl⟩ := h1
  obtain ⟨f', more', hf', rfl⟩ := h2
  by_cases hm : more = []
  · subst hm
    refine ⟨f' ∘ f, more', fun p => by simp [hf', hf], ?_⟩
    rw [List.append_nil, setLast_setLast]
  · refine ⟨f, setLast more f' ++ more', hf, ?_⟩
    rw [setLast_append _ _ _ hm, List.append_assoc]

theorem pushGrades_extends (grades : List (PRC α)) (base resNet : α) (elevs : List (Elev α)) :
    Extends grades (pushGrades grades base resNet elevs).1 := by
  fun_induction pushGrades grades base resNet elevs with
  | case1 grades resNet p c t grade net grades' ih =>
    refine Extends.trans ⟨fun g => { g with coeff := grade }, [⟨base + c.off, 0, net⟩], fun _ => rfl, rfl⟩ ih
  | case2 grades resNet l h => exact Extends.refl _

theorem pushCurves_extends (g : GeoConsts α) (par : TrainPar α) (curves : List (PRC α)) (base resNet : α)
    (hs : List (Heading α)) :
    Extends curves (pushCurves g par curves base resNet hs).1 := by
  fun_induction pushCurves g par curves base resNet hs with
  | case1 curves resNet p c t len coeff net curves' ih =>
    refine Extends.trans ⟨fun x => { x with coeff := coeff }, [⟨base + c.off, 0, net⟩], fun _ => rfl, rfl⟩ ih
  | case2 curves resNet l h => exact Extends.refl _

theorem extendGeometry_extends {g : GeoConsts α} {net : List (Link α)} {t t' : Tpc α} {idx : Nat}
    (h : extendGeometry g net t idx = .ok t') :
    Extends t.grades t'.grades ∧ Extends t.curves t'.curves := by
  unfold extendGeometry at h
  simp only [bind, Res.bind, pure] at h
  split at h
  next link hlink =>
    split at h
    next lastG hG =>
      split at h
      next lastC hC =>
        injection h with h
        subst h
        constructor
        · show Extends t.grades (if _ then _ else _)
          split_ifs
          · exact Extends.append _ _
          · exact pushGrades_extends _ _ _ _
        · show Extends t.curves (if _ then _ else _)
          split_ifs
          · exact Extends.append _ _
          · exact pushCurves_extends _ _ _ _ _ _
      all_goals cases h
    all_goals cases h
  all_goals cases h
theorem foldR_invariant {σ β : Type} {f : σ → β → Res σ} (R : σ → σ → Prop)
    (hrefl : ∀ s, R s s) (htrans : ∀ a b c, R a b → R b c → R a c)
    (hstep : ∀ s x s', f s x = .ok s' → R s s') :
    ∀ (l : List β) (s s' : σ), foldR f s l = .ok s' → R s s' := by
  intro l
  induction l with
  | nil => intro s s' h; simp only [foldR] at h; injection h with h; subst h; exact hrefl s
  | cons x xs ih =>
    intro s s' h
    simp only [foldR, bind, Res.bind] at h
    split at h
    next s1 h1 => exact htrans _ _ _ (hstep s x s1 h1) (ih s1 s' h)
    all_goals cases h

theorem extendLinkPoint_geometry {toU32 : α → Nat} {net : List (Link α)} {t t' : Tpc α} {idx : Nat}
    (h : extendLinkPoint toU32 net t idx = .ok t') : t'.grades = t.grades ∧ t'.curves = t.curves := by
  unfold extendLinkPoint at h
  simp only [bind, Res.bind, pure] at h
  repeat' (split at h)
  all_goals first
    | cases h; done
    | (injection h with h; subst h; exact ⟨rfl, rfl⟩)

theorem extend_extends {toU32 : α → Nat} {g : GeoConsts α} {net : List (Link α)} {t t' : Tpc α}
    {path : List Nat} (h : extend toU32 g net t path = .ok t') :
    Extends t.grades t'.grades ∧ Extends t.curves t'.curves := by
  unfold extend at h
  simp only [bind, Res.bind, pure] at h
  split at h
  rotate_left; cases h; cases h
  split at h
  rotate_left; cases h; cases h
  split at h
  rotate_left; cases h; cases h
  split at h
  rotate_left; cases h; cases h
  split at h
  rotate_left; cases h; cases h
  next t1 h1 =>
  have hinit : Extends t.grades t1.grades ∧ t1.curves = t.curves := by
    repeat' (split at h1)
    all_goals first
      | cases h1; done
      | (injection h1 with h1; subst h1; exact ⟨Extends.refl _, rfl⟩)
      | (injection h1 with h1; subst h1
         exact ⟨Extends.of_setLast _ _ (fun _ => rfl), rfl⟩)
  split at h
  rotate_left; cases h; cases h
  next t2 h2 =>
  have hlp : t2.grades = t1.grades ∧ t2.curves = t1.curves :=
    foldR_invariant (fun a b : Tpc α => b.grades = a.grades ∧ b.curves = a.curves)
      (fun _ => ⟨rfl, rfl⟩) (fun a b c h1 h2 => ⟨h2.1.trans h1.1, h2.2.trans h1.2⟩)
      (fun s x s' hs => extendLinkPoint_geometry hs) path t1 t2 h2
  have hgeo : Extends t2.grades t'.grades ∧ Extends t2.curves t'.curves :=
    foldR_invariant (fun a b : Tpc α => Extends a.grades b.grades ∧ Extends a.curves b.curves)
      (fun _ => ⟨Extends.refl _, Extends.refl _⟩)
      (fun a b c h1 h2 => ⟨h1.1.trans h2.1, h1.2.trans h2.2⟩)
      (fun s x s' hs => extendGeometry_extends hs) path t2 t' h
  rw [hlp.1, hlp.2] at hgeo
  rw [hinit.2] at hgeo
  exact ⟨hinit.1.trans hgeo.1, hgeo.2⟩

end Altrios.Proofs.ResistL
