import Altrios.SpeedPoints
import Mathlib.Algebra.Order.Field.Basic
import Mathlib.Tactic.Linarith
import Mathlib.Tactic.Ring
import Mathlib.Tactic.SplitIfs
import Mathlib.Data.List.Basic
import Mathlib.Data.List.Chain
import Mathlib.Data.List.TakeWhile
/-
  Helper lemmas about the structural speed-point model (`Altrios.SP`): the profile fold `valAt`,
  `dedup`, the `A ++ B ++ C` split made by `insertGeneral`, and the four facts about one
  `insertSpeed` call (exactness, sortedness, no equal neighbours, first offset unchanged) stated
  with plain `List.Pairwise` / `List.IsChain`.   Used by `Proofs/C13.lean` and `Proofs/C02.lean`.
-/
set_option linter.unusedSectionVars false
namespace Altrios.Proofs.SPL
open Altrios Altrios.SP

variable {α : Type} [Field α] [LinearOrder α] [IsStrictOrderedRing α]

/-! ### `mn`, `absv`, `minSpeed` -/

theorem mn_eq_min (a b : α) : mn a b = min a b := by
  unfold mn; split_ifs with h
  · exact (min_eq_right (le_of_lt h)).symm
  · exact (min_eq_left (not_lt.mp h)).symm

theorem absv_eq_abs (a : α) : absv a = |a| := by
  unfold absv; split_ifs with h
  · exact (abs_of_neg h).symm
  · exact (abs_of_nonneg (not_lt.mp h)).symm

theorem minSpeed_eq (a b : α) :
    minSpeed a b = if 0 ≤ a ∧ 0 ≤ b then min a b else -(min |a| |b|) := by
  unfold minSpeed; simp only [mn_eq_min, absv_eq_abs]

theorem abs_minSpeed (a b : α) : |minSpeed a b| = min |a| |b| := by
  rw [minSpeed_eq]; split_ifs with h
  · rw [abs_of_nonneg (le_min h.1 h.2), abs_of_nonneg h.1, abs_of_nonneg h.2]
  · rw [abs_neg, abs_of_nonneg (le_min (abs_nonneg _) (abs_nonneg _))]

/-! ### valAt -/

theorem valAt_nil (d x : α) : valAt d ([] : List (Pt α)) x = d := rfl

theorem valAt_cons (d : α) (p : Pt α) (ps : List (Pt α)) (x : α) :
    valAt d (p :: ps) x = valAt (if p.off ≤ x then p.spd else d) ps x := rfl

theorem valAt_append (d : α) (A B : List (Pt α)) (x : α) :
    valAt d (A ++ B) x = valAt (valAt d A x) B x := by
  unfold valAt; rw [List.foldl_append]

theorem valAt_of_all_gt (d : α) (l : List (Pt α)) (x : α) (h : ∀ q ∈ l, x < q.off) :
    valAt d l x = d := by
  induction l with
  | nil => rfl
  | cons p ps ih =>
    rw [valAt_cons, if_neg (not_le.mpr (h p (by simp)))]
    exact ih (fun q hq => h q (by simp [hq]))

theorem valAt_of_all_spd (d : α) (l : List (Pt α)) (x : α) (h : ∀ q ∈ l, q.spd = d) :
    valAt d l x = d := by
  induction l with
  | nil => rfl
  | cons p ps ih =>
    rw [valAt_cons, h p (by simp), ite_self]
    exact ih (fun q hq => h q (by simp [hq]))

theorem valAt_of_all_le (d : α) (l : List (Pt α)) (x : α) (pe : Pt α)
    (h : ∀ q ∈ l, q.off ≤ x) (hl : l.getLast? = some pe) : valAt d l x = pe.spd := by
  have := List.dropLast_append_getLast? pe (by rw [hl]; rfl)
  rw [← this, valAt_append, valAt_cons, valAt_nil, if_pos]
  exact h pe (by rw [← this]; simp)

theorem valAt_indep (d d' : α) (l : List (Pt α)) (x : α) (h : ∃ q ∈ l, q.off ≤ x) :
    valAt d l x = valAt d' l x := by
  induction l generalizing d d' with
  | nil => simp at h
  | cons p ps ih =>
    rw [valAt_cons, valAt_cons]
    by_cases hp : p.off ≤ x
    · rw [if_pos hp, if_pos hp]
    · rw [if_neg hp, if_neg hp]
      obtain ⟨q, hq, hqx⟩ := h
      rcases List.mem_cons.mp hq with rfl | hq
      · exact absurd hqx hp
      · exact ih _ _ ⟨q, hq, hqx⟩

/-- lowering every point of a list lowers the profile -/
theorem valAt_map_min (d v : α) (l : List (Pt α)) (x : α) :
    valAt (minSpeed d v) (l.map (fun p => (⟨p.off, minSpeed p.spd v⟩ : Pt α))) x
      = minSpeed (valAt d l x) v := by
  induction l generalizing d with
  | nil => rfl
  | cons p ps ih =>
    rw [List.map_cons, valAt_cons, valAt_cons]
    by_cases hp : p.off ≤ x
    · simp only [if_pos hp]; exact ih _
    · simp only [if_neg hp]; exact ih _

/-! ### dedup -/

theorem eqb_iff (a b : α) : eqb a b = true ↔ a = b := by
  unfold eqb
  simp only [Bool.and_eq_true, Bool.not_eq_true', decide_eq_false_iff_not, not_lt]
  constructor
  · rintro ⟨h1, h2⟩; exact le_antisymm h2 h1
  · rintro rfl; exact ⟨le_refl _, le_refl _⟩

theorem neb_iff (a b : α) : neb a b = true ↔ a ≠ b := by
  unfold neb
  rw [Bool.not_eq_true', ← Bool.not_eq_true, eqb_iff]

theorem dedup_nil (cur : Option α) : dedup cur ([] : List (Pt α)) = [] := by
  unfold dedup; rfl

theorem dedup_none_cons (p : Pt α) (ps : List (Pt α)) :
    dedup none (p :: ps) = p :: dedup (some p.spd) ps := by
  rw [dedup]

theorem dedup_some_cons (c : α) (p : Pt α) (ps : List (Pt α)) :
    dedup (some c) (p :: ps) = if c = p.spd then dedup (some c) ps else p :: dedup (some p.spd) ps := by
  rw [dedup]
  by_cases h : c = p.spd
  · simp [h, (eqb_iff _ _).mpr rfl]
  · have : eqb c p.spd = false := by rw [← Bool.not_eq_true, eqb_iff]; exact h
    simp [h, this]

theorem dedup_sublist (cur : Option α) (l : List (Pt α)) : (dedup cur l).Sublist l := by
  induction l generalizing cur with
  | nil => rw [dedup_nil]
  | cons p ps ih =>
    cases cur with
    | none => rw [dedup_none_cons]; exact (ih _).cons_cons _
    | some c =>
      rw [dedup_some_cons]; split_ifs
      · exact (ih _).cons _
      · exact (ih _).cons_cons _

theorem valAt_dedup (d : α) (cur : Option α) (l : List (Pt α)) (x : α)
    (hs : l.Pairwise (fun a b => a.off ≤ b.off))
    (hc : ∀ c, cur = some c → c = d ∨ ∀ q ∈ l, x < q.off) :
    valAt d (dedup cur l) x = valAt d l x := by
  induction l generalizing d cur with
  | nil => rw [dedup_nil]
  | cons p ps ih =>
    have hs' := (List.pairwise_cons.mp hs)
    have key : valAt d (p :: dedup (some p.spd) ps) x = valAt d (p :: ps) x := by
      rw [valAt_cons, valAt_cons]
      apply ih _ _ hs'.2
      intro c hc'
      cases hc'
      by_cases hp : p.off ≤ x
      · left; rw [if_pos hp]
      · right; intro q hq; exact lt_of_lt_of_le (not_le.mp hp) (hs'.1 q hq)
    cases cur with
    | none => rw [dedup_none_cons]; exact key
    | some c =>
      rw [dedup_some_cons]; split_ifs with h
      · rcases hc c rfl with hcd | hall
        · rw [valAt_cons, ← h, hcd, ite_self]
          exact ih _ _ hs'.2 (fun c' hc' => by cases hc'; exact Or.inl rfl)
        · rw [valAt_of_all_gt _ _ _ hall]
          exact valAt_of_all_gt _ _ _ (fun q hq => hall q ((dedup_sublist _ _).subset hq |> List.mem_cons_of_mem _))
      · exact key

/-- the output of `dedup` has no equal-valued neighbours and does not start with `cur` -/
theorem dedup_chain (cur : Option α) (l : List (Pt α)) :
    (dedup cur l).IsChain (fun a b => a.spd ≠ b.spd) ∧
      ∀ c, cur = some c → ∀ h ∈ (dedup cur l).head?, c ≠ h.spd := by
  induction l generalizing cur with
  | nil => rw [dedup_nil]; simp
  | cons p ps ih =>
    have key : (p :: dedup (some p.spd) ps).IsChain (fun a b => a.spd ≠ b.spd) := by
      rw [List.isChain_cons]
      exact ⟨fun y hy => (ih (some p.spd)).2 _ rfl y hy, (ih _).1⟩
    cases cur with
    | none => rw [dedup_none_cons]; exact ⟨key, by simp⟩
    | some c =>
      rw [dedup_some_cons]; split_ifs with h
      · exact ih _
      · refine ⟨key, ?_⟩
        intro c' hc' q hq
        cases hc'
        simp only [List.head?_cons, Option.mem_def, Option.some.injEq] at hq
        subst hq; exact h

theorem lastSpd_nil : lastSpd ([] : List (Pt α)) = none := rfl

theorem lastSpd_cons (p : Pt α) (ps : List (Pt α)) :
    lastSpd (p :: ps) = (lastSpd ps).or (some p.spd) := by
  unfold lastSpd
  rw [List.getLast?_cons]
  cases ps.getLast? <;> rfl

theorem lastSpd_of_getLast? {l : List (Pt α)} {a : Pt α} (h : l.getLast? = some a) :
    lastSpd l = some a.spd := by
  unfold lastSpd; rw [h]; rfl

theorem lastSpd_append (A B : List (Pt α)) : lastSpd (A ++ B) = (lastSpd B).or (lastSpd A) := by
  unfold lastSpd
  rw [List.getLast?_append]
  cases B.getLast? <;> simp

/-- the speed in force after the deduplicated list is the speed in force after the list -/
theorem dedup_last (cur : Option α) (l : List (Pt α)) :
    (lastSpd (dedup cur l)).or cur = (lastSpd l).or cur := by
  induction l generalizing cur with
  | nil => rw [dedup_nil]
  | cons p ps ih =>
    have key : (lastSpd (p :: dedup (some p.spd) ps)).or cur = (lastSpd (p :: ps)).or cur := by
      rw [lastSpd_cons, lastSpd_cons, ih]
    cases cur with
    | none => rw [dedup_none_cons]; exact key
    | some c =>
      rw [dedup_some_cons]; split_ifs with h
      · rw [ih, lastSpd_cons, ← h]
        cases lastSpd ps <;> rfl
      · exact key


/-! ### sorted lists, `takeWhile` / `dropWhile` -/

abbrev SortedOff (l : List (Pt α)) : Prop := l.Pairwise (fun a b => a.off ≤ b.off)

theorem dropWhile_all_not (f : Pt α → Bool)
    (hmono : ∀ a b : Pt α, a.off ≤ b.off → f b = true → f a = true)
    (l : List (Pt α)) (hs : SortedOff l) : ∀ q ∈ l.dropWhile f, f q = false := by
  induction l with
  | nil => simp
  | cons p ps ih =>
    have hs' := List.pairwise_cons.mp hs
    by_cases hp : f p = true
    · rw [List.dropWhile_cons_of_pos hp]; exact ih hs'.2
    · rw [List.dropWhile_cons_of_neg hp]
      intro q hq
      rcases List.mem_cons.mp hq with rfl | hq
      · simpa using hp
      · by_contra hq'
        exact hp (hmono _ _ (hs'.1 q hq) (by simpa using hq'))

/-! ### the pieces of `insertGeneral` -/

def startRaw (A B : List (Pt α)) (l : Lim α) : List (Pt α) :=
  match A.getLast? with
  | some a =>
    (match B.head? with
     | some b => if l.s < b.off then [⟨l.s, a.spd⟩] else []
     | none => [⟨l.s, a.spd⟩])
  | none => []

def bupd (B : List (Pt α)) (pe : Pt α) (l : Lim α) : List (Pt α) :=
  if pe.off < l.e then B else B.dropLast

def tailPt (pe : Pt α) (l : Lim α) : Pt α := if pe.off < l.e then ⟨l.e, pe.spd⟩ else pe

def cand (A B : List (Pt α)) (pe : Pt α) (l : Lim α) : List (Pt α) :=
  (startRaw A B l ++ bupd B pe l).map (fun p => (⟨p.off, minSpeed p.spd l.v⟩ : Pt α)) ++ [tailPt pe l]

theorem insertGeneral_eq (pts : List (Pt α)) (l : Lim α) :
    insertGeneral pts l =
      (let A := pts.takeWhile (fun p => decide (p.off < l.s))
       let rest := pts.dropWhile (fun p => decide (p.off < l.s))
       let B := rest.takeWhile (fun p => decide (p.off ≤ l.e))
       let C := rest.dropWhile (fun p => decide (p.off ≤ l.e))
       match (A ++ B).getLast? with
       | none => pts
       | some pe => A ++ dedup (lastSpd A) (cand A B pe l) ++ C) := rfl


/-- `pts = A ++ B ++ C` as `insertGeneral` sees it -/
structure Split (pts : List (Pt α)) (l : Lim α) (A B C : List (Pt α)) (pe : Pt α) : Prop where
  eq : pts = A ++ B ++ C
  hA : ∀ p ∈ A, p.off < l.s
  hB : ∀ p ∈ B, l.s ≤ p.off ∧ p.off ≤ l.e
  hC : ∀ p ∈ C, l.e < p.off
  last : (A ++ B).getLast? = some pe
  head : ∀ h ∈ (A ++ B).head?, h.off ≤ l.s
  sorted : SortedOff pts
  le : l.s ≤ l.e

theorem insertGeneral_split (pts : List (Pt α)) (l : Lim α) (hs : SortedOff pts) (hle : l.s ≤ l.e)
    (hhead : ∃ p ps, pts = p :: ps ∧ p.off ≤ l.s) :
    ∃ A B C pe, Split pts l A B C pe ∧
      insertGeneral pts l = A ++ dedup (lastSpd A) (cand A B pe l) ++ C := by
  obtain ⟨p, ps, hpts, hp⟩ := hhead
  have e1 := List.takeWhile_append_dropWhile (p := fun p : Pt α => decide (p.off < l.s)) (l := pts)
  have e2 := List.takeWhile_append_dropWhile (p := fun p : Pt α => decide (p.off ≤ l.e))
    (l := pts.dropWhile (fun p => decide (p.off < l.s)))
  have hrest : SortedOff (pts.dropWhile (fun p => decide (p.off < l.s))) :=
    hs.sublist (List.dropWhile_sublist _)
  have hA : ∀ q ∈ pts.takeWhile (fun p => decide (p.off < l.s)), q.off < l.s := fun q hq => by
    simpa using List.mem_takeWhile_imp hq
  have hR : ∀ q ∈ pts.dropWhile (fun p => decide (p.off < l.s)), l.s ≤ q.off := fun q hq => by
    have := dropWhile_all_not (fun p : Pt α => decide (p.off < l.s))
      (fun a b hab hb => by simp only [decide_eq_true_eq] at hb ⊢; exact lt_of_le_of_lt hab hb) pts hs q hq
    simpa using this
  have hB : ∀ q ∈ (pts.dropWhile (fun p => decide (p.off < l.s))).takeWhile (fun p => decide (p.off ≤ l.e)),
      l.s ≤ q.off ∧ q.off ≤ l.e := fun q hq =>
    ⟨hR q ((List.takeWhile_sublist _).subset hq), by simpa using List.mem_takeWhile_imp hq⟩
  have hC : ∀ q ∈ (pts.dropWhile (fun p => decide (p.off < l.s))).dropWhile (fun p => decide (p.off ≤ l.e)),
      l.e < q.off := fun q hq => by
    have := dropWhile_all_not (fun p : Pt α => decide (p.off ≤ l.e))
      (fun a b hab hb => by simp only [decide_eq_true_eq] at hb ⊢; exact le_trans hab hb) _ hrest q hq
    simpa using this
  -- the head of `A ++ B` is the head of `pts`
  have hhd : ((pts.takeWhile (fun p => decide (p.off < l.s))) ++
      (pts.dropWhile (fun p => decide (p.off < l.s))).takeWhile (fun p => decide (p.off ≤ l.e))).head?
        = some p := by
    subst hpts
    by_cases h : p.off < l.s
    · simp [h]
    · have : p.off ≤ l.e := le_trans hp hle
      simp [h, this]
  have hne : ((pts.takeWhile (fun p => decide (p.off < l.s))) ++
      (pts.dropWhile (fun p => decide (p.off < l.s))).takeWhile (fun p => decide (p.off ≤ l.e))).getLast?
        ≠ none := by
    intro h
    rw [List.getLast?_eq_none_iff] at h
    rw [h] at hhd; simp at hhd
  obtain ⟨pe, hpe⟩ := Option.ne_none_iff_exists'.mp hne
  refine ⟨_, _, _, pe, ⟨?_, hA, hB, hC, hpe, ?_, hs, hle⟩, ?_⟩
  · rw [List.append_assoc, e2, e1]
  · intro h hh; rw [hhd] at hh; cases hh; exact hp
  · rw [insertGeneral_eq]; simp only [hpe]


theorem startRaw_cases (A B : List (Pt α)) (l : Lim α) :
    startRaw A B l = [] ∨ ∃ a, A.getLast? = some a ∧ startRaw A B l = [⟨l.s, a.spd⟩] := by
  unfold startRaw
  cases hA : A.getLast? with
  | none => left; rfl
  | some a =>
    cases hB : B.head? with
    | none => right; exact ⟨a, rfl, rfl⟩
    | some b =>
      by_cases h : l.s < b.off
      · right; exact ⟨a, rfl, by simp [h]⟩
      · left; simp [h]

namespace Split
variable {pts A B C : List (Pt α)} {l : Lim α} {pe : Pt α}

theorem sortedAB (S : Split pts l A B C pe) : SortedOff (A ++ B) := by
  have := S.sorted; rw [S.eq] at this
  exact (List.pairwise_append.mp this).1

theorem sortedA (S : Split pts l A B C pe) : SortedOff A := (List.pairwise_append.mp S.sortedAB).1
theorem sortedB (S : Split pts l A B C pe) : SortedOff B := (List.pairwise_append.mp S.sortedAB).2.1
theorem sortedC (S : Split pts l A B C pe) : SortedOff C := by
  have := S.sorted; rw [S.eq] at this
  exact (List.pairwise_append.mp this).2.1

theorem pe_mem (S : Split pts l A B C pe) : pe ∈ A ++ B := List.mem_of_getLast? S.last

theorem pe_le (S : Split pts l A B C pe) : pe.off ≤ l.e := by
  rcases List.mem_append.mp S.pe_mem with h | h
  · exact le_trans (le_of_lt (S.hA _ h)) S.le
  · exact (S.hB _ h).2

theorem tail_off (S : Split pts l A B C pe) : (tailPt pe l).off = l.e := by
  unfold tailPt; split_ifs with h
  · rfl
  · exact le_antisymm S.pe_le (not_lt.mp h)

theorem tail_spd (pe : Pt α) (l : Lim α) : (tailPt pe l).spd = pe.spd := by
  unfold tailPt; split_ifs <;> rfl

theorem bupd_split (S : Split pts l A B C pe) :
    ∃ R, B = bupd B pe l ++ R ∧ ∀ r ∈ R, r.off = l.e := by
  unfold bupd; split_ifs with h
  · exact ⟨[], by simp, by simp⟩
  · have he : pe.off = l.e := le_antisymm S.pe_le (not_lt.mp h)
    have hl := S.last
    rw [List.getLast?_append] at hl
    cases hB : B.getLast? with
    | none =>
      rw [hB] at hl
      have : pe ∈ A := List.mem_of_getLast? (by simpa using hl)
      exact absurd (S.hA _ this) (by rw [he]; exact not_lt.mpr S.le)
    | some b =>
      rw [hB] at hl
      have hb : b = pe := by simpa using hl
      subst hb
      refine ⟨[b], (List.dropLast_append_getLast? b (by rw [hB]; rfl)).symm, ?_⟩
      intro r hr; rw [List.mem_singleton.mp hr]; exact he

theorem startRaw_off (A B : List (Pt α)) (l : Lim α) : ∀ q ∈ startRaw A B l, q.off = l.s := by
  intro q hq
  rcases startRaw_cases A B l with h | ⟨a, _, h⟩ <;> rw [h] at hq
  · simp at hq
  · rw [List.mem_singleton.mp hq]

theorem startRaw_spd (A B : List (Pt α)) (l : Lim α) (d : α) (hd : ∀ a ∈ A.getLast?, d = a.spd) :
    ∀ q ∈ startRaw A B l, q.spd = d := by
  intro q hq
  rcases startRaw_cases A B l with h | ⟨a, ha, h⟩ <;> rw [h] at hq
  · simp at hq
  · rw [List.mem_singleton.mp hq]; exact (hd a ha).symm

theorem start_exists (S : Split pts l A B C pe) :
    (∃ q ∈ startRaw A B l, q.off = l.s) ∨ (∃ b ∈ B, b.off ≤ l.s) := by
  unfold startRaw
  cases hA : A.getLast? with
  | none =>
    right
    rw [List.getLast?_eq_none_iff] at hA
    subst hA
    have hl := S.last
    have hh := S.head
    simp only [List.nil_append] at hl hh
    cases B with
    | nil => simp at hl
    | cons b B' => exact ⟨b, by simp, hh b rfl⟩
  | some a =>
    cases hB : B.head? with
    | none => left; exact ⟨_, List.mem_singleton.mpr rfl, rfl⟩
    | some b =>
      by_cases h : l.s < b.off
      · left; simp [h]
      · right; exact ⟨b, List.mem_of_mem_head? hB, not_lt.mp h⟩

theorem bupd_sub (B : List (Pt α)) (pe : Pt α) (l : Lim α) : (bupd B pe l).Sublist B := by
  unfold bupd; split_ifs
  · exact List.Sublist.refl _
  · exact List.dropLast_sublist _

theorem cand_ge (S : Split pts l A B C pe) : ∀ q ∈ cand A B pe l, l.s ≤ q.off := by
  intro q hq
  unfold cand at hq
  simp only [List.mem_append, List.mem_map, List.mem_singleton] at hq
  rcases hq with ⟨r, hr | hr, rfl⟩ | rfl
  · exact le_of_eq (startRaw_off A B l r hr).symm
  · exact (S.hB r ((bupd_sub B pe l).subset hr)).1
  · rw [S.tail_off]; exact S.le

theorem cand_le (S : Split pts l A B C pe) : ∀ q ∈ cand A B pe l, q.off ≤ l.e := by
  intro q hq
  unfold cand at hq
  simp only [List.mem_append, List.mem_map, List.mem_singleton] at hq
  rcases hq with ⟨r, hr | hr, rfl⟩ | rfl
  · rw [startRaw_off A B l r hr]; exact S.le
  · exact (S.hB r ((bupd_sub B pe l).subset hr)).2
  · rw [S.tail_off]

theorem cand_sorted (S : Split pts l A B C pe) : SortedOff (cand A B pe l) := by
  unfold cand
  rw [SortedOff, List.pairwise_append]
  refine ⟨?_, List.pairwise_singleton _ _, ?_⟩
  · rw [List.pairwise_map, List.pairwise_append]
    refine ⟨?_, S.sortedB.sublist (bupd_sub B pe l), ?_⟩
    · rcases startRaw_cases A B l with h | ⟨a, _, h⟩ <;> rw [h] <;> simp
    · intro a ha b hb
      show a.off ≤ b.off
      rw [startRaw_off A B l a ha]
      exact (S.hB b ((bupd_sub B pe l).subset hb)).1
  · intro a ha b hb
    rw [List.mem_singleton.mp hb, S.tail_off]
    exact S.cand_le a (by unfold cand; exact List.mem_append_left _ ha)

theorem cand_last (A B : List (Pt α)) (pe : Pt α) (l : Lim α) : lastSpd (cand A B pe l) = some pe.spd := by
  unfold cand lastSpd
  rw [List.getLast?_concat]
  simp [tail_spd]

theorem cand_val_hi (S : Split pts l A B C pe) (x : α) (hx : l.e ≤ x) (d : α) :
    valAt d (cand A B pe l) x = pe.spd := by
  unfold cand
  rw [valAt_append, valAt_cons, valAt_nil, S.tail_off, if_pos hx, tail_spd]

theorem cand_val_mid (S : Split pts l A B C pe) (x : α) (hx : l.s ≤ x) (hx' : x < l.e) (d : α)
    (hd : ∀ a ∈ A.getLast?, d = a.spd) :
    valAt d (cand A B pe l) x = minSpeed (valAt d B x) l.v := by
  obtain ⟨R, hR, hRe⟩ := S.bupd_split
  have hex : ∃ q ∈ startRaw A B l ++ bupd B pe l, q.off ≤ x := by
    rcases S.start_exists with ⟨q, hq, hqs⟩ | ⟨b, hb, hbs⟩
    · exact ⟨q, List.mem_append_left _ hq, by rw [hqs]; exact hx⟩
    · refine ⟨b, List.mem_append_right _ ?_, le_trans hbs hx⟩
      rw [hR] at hb
      rcases List.mem_append.mp hb with h | h
      · exact h
      · exfalso
        have := hRe b h
        rw [this] at hbs
        exact absurd (lt_of_le_of_lt (le_trans hbs hx) hx') (lt_irrefl _)
  have hB : valAt d B x = valAt d (bupd B pe l) x := by
    conv_lhs => rw [hR]
    rw [valAt_append]
    exact valAt_of_all_gt _ _ _ (fun r hr => by rw [hRe r hr]; exact hx')
  unfold cand
  rw [valAt_append, valAt_cons, valAt_nil, S.tail_off, if_neg (not_le.mpr hx')]
  rw [valAt_indep d (minSpeed d l.v) _ x
    (by obtain ⟨q, hq, hqx⟩ := hex; exact ⟨_, List.mem_map_of_mem hq, hqx⟩)]
  rw [valAt_map_min, valAt_append, valAt_of_all_spd d _ x (startRaw_spd A B l d hd), hB]

end Split


namespace Split
variable {pts A B C : List (Pt α)} {l : Lim α} {pe : Pt α}

/-- the list `insertGeneral` returns -/
abbrev result (A B C : List (Pt α)) (pe : Pt α) (l : Lim α) : List (Pt α) :=
  A ++ dedup (lastSpd A) (cand A B pe l) ++ C

theorem exact (S : Split pts l A B C pe) (x : α) :
    val (result A B C pe l) x =
      if l.s ≤ x ∧ x < l.e then minSpeed (val pts x) l.v else val pts x := by
  unfold val result
  rw [S.eq]
  simp only [valAt_append]
  have hd : ∀ a ∈ A.getLast?, l.s ≤ x → valAt 0 A x = a.spd := fun a ha hx =>
    valAt_of_all_le _ _ _ _ (fun q hq => le_trans (le_of_lt (S.hA q hq)) hx) ha
  rw [valAt_dedup _ _ _ _ S.cand_sorted]
  · by_cases h1 : l.s ≤ x
    · by_cases h2 : x < l.e
      · rw [if_pos ⟨h1, h2⟩, S.cand_val_mid x h1 h2 _ (fun a ha => hd a ha h1)]
        rw [valAt_of_all_gt _ C x (fun q hq => lt_trans h2 (S.hC q hq)),
          valAt_of_all_gt _ C x (fun q hq => lt_trans h2 (S.hC q hq))]
      · rw [if_neg (fun h => h2 h.2), S.cand_val_hi x (not_lt.mp h2), ← valAt_append 0 A B x,
          valAt_of_all_le 0 (A ++ B) x pe _ S.last]
        intro q hq
        rcases List.mem_append.mp hq with h | h
        · exact le_trans (le_of_lt (S.hA q h)) h1
        · exact le_trans (S.hB q h).2 (not_lt.mp h2)
    · have hx := not_le.mp h1
      rw [if_neg (fun h => h1 h.1),
        valAt_of_all_gt _ (cand A B pe l) x (fun q hq => lt_of_lt_of_le hx (S.cand_ge q hq)),
        valAt_of_all_gt _ B x (fun q hq => lt_of_lt_of_le hx (S.hB q hq).1)]
  · intro c hc
    by_cases h1 : l.s ≤ x
    · left
      cases ha : A.getLast? with
      | none => rw [lastSpd, ha] at hc; simp at hc
      | some a =>
        rw [lastSpd_of_getLast? ha, Option.some.injEq] at hc
        rw [← hc]; exact (hd a ha h1).symm
    · right
      exact fun q hq => lt_of_lt_of_le (not_le.mp h1) (S.cand_ge q hq)

theorem result_sorted (S : Split pts l A B C pe) : SortedOff (result A B C pe l) := by
  unfold result
  have hD : ∀ q ∈ dedup (lastSpd A) (cand A B pe l), q ∈ cand A B pe l :=
    fun q hq => (dedup_sublist _ _).subset hq
  rw [SortedOff, List.pairwise_append, List.pairwise_append]
  refine ⟨⟨S.sortedA, S.cand_sorted.sublist (dedup_sublist _ _), ?_⟩, S.sortedC, ?_⟩
  · intro a ha d hd
    exact le_trans (le_of_lt (S.hA a ha)) (S.cand_ge d (hD d hd))
  · intro z hz c hc
    rcases List.mem_append.mp hz with h | h
    · exact le_of_lt (lt_of_lt_of_le (S.hA z h) (le_trans S.le (le_of_lt (S.hC c hc))))
    · exact le_of_lt (lt_of_le_of_lt (S.cand_le z (hD z h)) (S.hC c hc))

theorem result_chain (S : Split pts l A B C pe) (hc : pts.IsChain (fun a b => a.spd ≠ b.spd)) :
    (result A B C pe l).IsChain (fun a b => a.spd ≠ b.spd) := by
  unfold result
  rw [S.eq] at hc
  obtain ⟨hAB, hC, hlink⟩ := List.isChain_append.mp hc
  refine List.isChain_append.mpr ⟨List.isChain_append.mpr ⟨hAB.left_of_append, (dedup_chain _ _).1, ?_⟩, hC, ?_⟩
  · intro a ha y hy
    refine (dedup_chain (lastSpd A) (cand A B pe l)).2 a.spd ?_ y hy
    exact lastSpd_of_getLast? (Option.mem_def.mp ha)
  · intro z hz y hy
    have h1 : lastSpd (A ++ dedup (lastSpd A) (cand A B pe l)) = some z.spd :=
      lastSpd_of_getLast? (Option.mem_def.mp hz)
    rw [lastSpd_append, dedup_last, cand_last] at h1
    simp only [Option.some_or, Option.some.injEq] at h1
    rw [← h1]
    exact hlink pe S.last y hy

theorem result_head (S : Split pts l A B C pe) (p : Pt α) (ps : List (Pt α)) (hp : pts = p :: ps) :
    ∃ p' ps', result A B C pe l = p' :: ps' ∧ p'.off = p.off := by
  unfold result
  cases A with
  | cons a A' =>
    have := S.eq; rw [hp] at this
    simp only [List.cons_append] at this
    rw [List.cons.injEq] at this
    exact ⟨a, _, rfl, by rw [this.1]⟩
  | nil =>
    have hl := S.last
    simp only [List.nil_append] at hl ⊢
    rw [lastSpd_nil]
    cases B with
    | nil => simp at hl
    | cons b B' =>
      have hb : p = b := by
        have := S.eq; rw [hp] at this
        simp only [List.nil_append, List.cons_append] at this
        exact (List.cons.injEq _ _ _ _ ▸ this).1
      subst hb
      have hsr : startRaw ([] : List (Pt α)) (p :: B') l = [] := rfl
      unfold cand bupd
      rw [hsr, List.nil_append]
      by_cases h : pe.off < l.e
      · rw [if_pos h, List.map_cons, List.cons_append, dedup_none_cons]
        exact ⟨_, _, rfl, rfl⟩
      · rw [if_neg h]
        cases B' with
        | nil =>
          simp only [List.getLast?_singleton, Option.some.injEq] at hl
          subst hl
          simp only [List.dropLast_singleton, List.map_nil, List.nil_append]
          rw [dedup_none_cons]
          refine ⟨_, _, rfl, ?_⟩
          unfold tailPt; rw [if_neg h]
        | cons b' B'' =>
          rw [List.dropLast_cons_cons, List.map_cons, List.cons_append, dedup_none_cons]
          exact ⟨_, _, rfl, rfl⟩

end Split


/-! ### the "at or after the last point" branch of `insertSpeed` -/

theorem sorted_le_last {pts : List (Pt α)} {last : Pt α} (hs : SortedOff pts)
    (hl : pts.getLast? = some last) : ∀ q ∈ pts, q.off ≤ last.off := by
  have h := List.dropLast_append_getLast? last (by rw [hl]; rfl)
  rw [← h] at hs
  intro q hq
  rw [← h] at hq
  rcases List.mem_append.mp hq with hq | hq
  · exact (List.pairwise_append.mp hs).2.2 q hq last (by simp)
  · rw [List.mem_singleton.mp hq]

theorem val_of_last_le {pts : List (Pt α)} {last : Pt α} (hs : SortedOff pts)
    (hl : pts.getLast? = some last) (x : α) (hx : last.off ≤ x) : val pts x = last.spd :=
  valAt_of_all_le _ _ _ _ (fun q hq => le_trans (sorted_le_last hs hl q hq) hx) hl

theorem insertSpeed_general {pts : List (Pt α)} {last : Pt α} (l : Lim α)
    (hl : pts.getLast? = some last) (h : ¬ last.off ≤ l.s) :
    insertSpeed pts l = insertGeneral pts l := by
  unfold insertSpeed; rw [hl]; simp only [if_neg h]

theorem insertSpeed_tail_cases {pts : List (Pt α)} {last : Pt α} (l : Lim α)
    (hl : pts.getLast? = some last) (h : last.off ≤ l.s) :
    (last.spd = minSpeed last.spd l.v ∧ insertSpeed pts l = pts) ∨
    (last.spd ≠ minSpeed last.spd l.v ∧ last.off < l.s ∧
      insertSpeed pts l = pts ++ [⟨l.s, minSpeed last.spd l.v⟩, ⟨l.e, last.spd⟩]) ∨
    (last.spd ≠ minSpeed last.spd l.v ∧ last.off = l.s ∧
      (∃ q, pts.dropLast.getLast? = some q ∧ q.spd = minSpeed last.spd l.v) ∧
      insertSpeed pts l = pts.dropLast ++ [⟨l.e, last.spd⟩]) ∨
    (last.spd ≠ minSpeed last.spd l.v ∧ last.off = l.s ∧
      (∀ q ∈ pts.dropLast.getLast?, q.spd ≠ minSpeed last.spd l.v) ∧
      insertSpeed pts l =
        pts.dropLast ++ [⟨last.off, minSpeed last.spd l.v⟩, ⟨l.e, last.spd⟩]) := by
  unfold insertSpeed; rw [hl]; simp only [if_pos h]
  by_cases hne : last.spd = minSpeed last.spd l.v
  · left
    have : neb last.spd (minSpeed last.spd l.v) = false := by
      rw [← Bool.not_eq_true, neb_iff]; exact not_not.mpr hne
    exact ⟨hne, by rw [this]; rfl⟩
  · right
    have hneb : neb last.spd (minSpeed last.spd l.v) = true := (neb_iff _ _).mpr hne
    rw [hneb]; simp only [if_true]
    by_cases hlt : last.off < l.s
    · left; exact ⟨hne, hlt, by rw [if_pos hlt]⟩
    · right
      have heq : last.off = l.s := le_antisymm h (not_lt.mp hlt)
      rw [if_neg hlt]
      cases hq : pts.dropLast.getLast? with
      | none => right; exact ⟨hne, heq, by simp, rfl⟩
      | some q =>
        simp only
        by_cases hqe : q.spd = minSpeed last.spd l.v
        · left; exact ⟨hne, heq, ⟨q, rfl, hqe⟩, by rw [if_pos ((eqb_iff _ _).mpr hqe)]⟩
        · right
          have : eqb q.spd (minSpeed last.spd l.v) = false := by
            rw [← Bool.not_eq_true, eqb_iff]; exact hqe
          refine ⟨hne, heq, ?_, by rw [this]; rfl⟩
          intro q' hq'; cases hq'; exact hqe


/-! ### the four facts about one `insertSpeed` call -/

section Insert
variable (pts : List (Pt α)) (l : Lim α) (hs : SortedOff pts) (hle : l.s ≤ l.e)
  (hhead : ∃ p ps, pts = p :: ps ∧ p.off ≤ l.s)
include hs hle hhead

theorem insertSpeed_exact (x : α) :
    val (insertSpeed pts l) x =
      if l.s ≤ x ∧ x < l.e then minSpeed (val pts x) l.v else val pts x := by
  obtain ⟨last, hl⟩ : ∃ last, pts.getLast? = some last := by
    obtain ⟨p, ps, rfl, _⟩ := hhead
    exact ⟨_, List.getLast?_cons⟩
  by_cases h : last.off ≤ l.s
  · have K : ∀ x, l.s ≤ x → valAt 0 pts x = last.spd :=
      fun x hx => val_of_last_le hs hl x (le_trans h hx)
    have hD : pts.dropLast ++ [last] = pts := List.dropLast_append_getLast? last (by rw [hl]; rfl)
    have V : valAt 0 pts x = if last.off ≤ x then last.spd else valAt 0 pts.dropLast x := by
      conv_lhs => rw [← hD]
      rw [valAt_append, valAt_cons, valAt_nil]
    have hDle : ∀ q ∈ pts.dropLast, q.off ≤ last.off :=
      fun q hq => sorted_le_last hs hl q (hD ▸ List.mem_append_left _ hq)
    unfold val
    rcases insertSpeed_tail_cases l hl h with ⟨he, hr⟩ | ⟨hne, hlt, hr⟩ |
      ⟨hne, heq, ⟨q, hq, hqe⟩, hr⟩ | ⟨hne, heq, hq, hr⟩ <;> rw [hr]
    · by_cases hc : l.s ≤ x ∧ x < l.e
      · rw [if_pos hc, K x hc.1, ← he]
      · rw [if_neg hc]
    · rw [valAt_append]; simp only [valAt_cons, valAt_nil]
      by_cases h1 : l.s ≤ x
      · by_cases h2 : x < l.e
        · have h3 := not_le.mpr h2
          simp only [h1, h2, h3, and_self, ↓reduceIte, K x h1]
        · have h3 := not_lt.mp h2
          simp only [h2, h3, and_false, ↓reduceIte, K x h1]
      · have h3 : ¬ l.e ≤ x := fun hh => h1 (le_trans hle hh)
        simp only [h1, h3, false_and, ↓reduceIte]
    · rw [valAt_append]; simp only [valAt_cons, valAt_nil]
      by_cases h1 : l.s ≤ x
      · by_cases h2 : x < l.e
        · have h3 := not_le.mpr h2
          simp only [h1, h2, h3, and_self, ↓reduceIte, K x h1, ← hqe]
          exact valAt_of_all_le _ _ _ _ (fun r hr => le_trans (hDle r hr) (heq ▸ h1)) hq
        · have h3 := not_lt.mp h2
          simp only [h2, h3, and_false, ↓reduceIte, K x h1]
      · have h3 : ¬ l.e ≤ x := fun hh => h1 (le_trans hle hh)
        simp only [h1, h3, false_and, ↓reduceIte, V, heq]
    · rw [valAt_append]; simp only [valAt_cons, valAt_nil]
      by_cases h1 : l.s ≤ x
      · by_cases h2 : x < l.e
        · have h3 := not_le.mpr h2
          simp only [heq, h1, h2, h3, and_self, ↓reduceIte, K x h1]
        · have h3 := not_lt.mp h2
          simp only [h2, h3, and_false, ↓reduceIte, K x h1]
      · have h3 : ¬ l.e ≤ x := fun hh => h1 (le_trans hle hh)
        simp only [heq, h1, h3, false_and, ↓reduceIte, V]
  · rw [insertSpeed_general l hl h]
    obtain ⟨A, B, C, pe, S, hr⟩ := insertGeneral_split pts l hs hle hhead
    rw [hr]; exact S.exact x

theorem insertSpeed_sorted : SortedOff (insertSpeed pts l) := by
  obtain ⟨last, hl⟩ : ∃ last, pts.getLast? = some last := by
    obtain ⟨p, ps, rfl, _⟩ := hhead
    exact ⟨_, List.getLast?_cons⟩
  by_cases h : last.off ≤ l.s
  · have hD : pts.dropLast ++ [last] = pts := List.dropLast_append_getLast? last (by rw [hl]; rfl)
    have hDle : ∀ q ∈ pts.dropLast, q.off ≤ last.off :=
      fun q hq => sorted_le_last hs hl q (hD ▸ List.mem_append_left _ hq)
    have hDs : SortedOff pts.dropLast := hs.sublist (List.dropLast_sublist _)
    rcases insertSpeed_tail_cases l hl h with ⟨he, hr⟩ | ⟨hne, hlt, hr⟩ |
      ⟨hne, heq, _, hr⟩ | ⟨hne, heq, hq, hr⟩ <;> rw [hr]
    · exact hs
    · rw [SortedOff, List.pairwise_append]
      refine ⟨hs, by simpa using hle, ?_⟩
      intro a ha b hb
      have ha' := le_trans (sorted_le_last hs hl a ha) h
      simp only [List.mem_cons, List.not_mem_nil, or_false] at hb
      rcases hb with rfl | rfl
      · exact ha'
      · exact le_trans ha' hle
    · rw [SortedOff, List.pairwise_append]
      refine ⟨hDs, List.pairwise_singleton _ _, ?_⟩
      intro a ha b hb
      rw [List.mem_singleton.mp hb]
      exact le_trans (le_trans (hDle a ha) h) hle
    · rw [SortedOff, List.pairwise_append]
      refine ⟨hDs, by simpa using le_trans h hle, ?_⟩
      intro a ha b hb
      simp only [List.mem_cons, List.not_mem_nil, or_false] at hb
      rcases hb with rfl | rfl
      · exact hDle a ha
      · exact le_trans (le_trans (hDle a ha) h) hle
  · rw [insertSpeed_general l hl h]
    obtain ⟨A, B, C, pe, S, hr⟩ := insertGeneral_split pts l hs hle hhead
    rw [hr]; exact S.result_sorted

theorem insertSpeed_chain (hc : pts.IsChain (fun a b => a.spd ≠ b.spd)) :
    (insertSpeed pts l).IsChain (fun a b => a.spd ≠ b.spd) := by
  obtain ⟨last, hl⟩ : ∃ last, pts.getLast? = some last := by
    obtain ⟨p, ps, rfl, _⟩ := hhead
    exact ⟨_, List.getLast?_cons⟩
  by_cases h : last.off ≤ l.s
  · have hDc : pts.dropLast.IsChain (fun a b => a.spd ≠ b.spd) := hc.dropLast
    rcases insertSpeed_tail_cases l hl h with ⟨he, hr⟩ | ⟨hne, hlt, hr⟩ |
      ⟨hne, heq, ⟨q, hq, hqe⟩, hr⟩ | ⟨hne, heq, hq, hr⟩ <;> rw [hr]
    · exact hc
    · refine List.isChain_append.mpr ⟨hc, by simpa using Ne.symm hne, ?_⟩
      intro a ha b hb
      rw [hl] at ha; cases ha
      simp only [List.head?_cons, Option.mem_def, Option.some.injEq] at hb
      subst hb; exact hne
    · refine List.isChain_append.mpr ⟨hDc, List.isChain_singleton _, ?_⟩
      intro a ha b hb
      rw [hq] at ha; cases ha
      simp only [List.head?_cons, Option.mem_def, Option.some.injEq] at hb
      subst hb; rw [hqe]; exact Ne.symm hne
    · refine List.isChain_append.mpr ⟨hDc, by simpa using Ne.symm hne, ?_⟩
      intro a ha b hb
      simp only [List.head?_cons, Option.mem_def, Option.some.injEq] at hb
      subst hb; exact hq a ha
  · rw [insertSpeed_general l hl h]
    obtain ⟨A, B, C, pe, S, hr⟩ := insertGeneral_split pts l hs hle hhead
    rw [hr]; exact S.result_chain hc

theorem insertSpeed_head (p : Pt α) (ps : List (Pt α)) (hp : pts = p :: ps) :
    ∃ p' ps', insertSpeed pts l = p' :: ps' ∧ p'.off = p.off := by
  obtain ⟨last, hl⟩ : ∃ last, pts.getLast? = some last := by
    rw [hp]; exact ⟨_, List.getLast?_cons⟩
  by_cases h : last.off ≤ l.s
  · have hD : pts.dropLast ++ [last] = pts := List.dropLast_append_getLast? last (by rw [hl]; rfl)
    have hcases : (∃ ps', pts.dropLast = p :: ps') ∨ (pts.dropLast = [] ∧ last = p) := by
      cases hd : pts.dropLast with
      | nil => right; rw [hd, hp] at hD; simp only [List.nil_append, List.cons.injEq] at hD; exact ⟨rfl, hD.1⟩
      | cons d ds =>
        left; rw [hd, hp] at hD; simp only [List.cons_append, List.cons.injEq] at hD
        exact ⟨ds, by rw [hD.1]⟩
    rcases insertSpeed_tail_cases l hl h with ⟨he, hr⟩ | ⟨hne, hlt, hr⟩ |
      ⟨hne, heq, ⟨q, hq, hqe⟩, hr⟩ | ⟨hne, heq, hq, hr⟩ <;> rw [hr]
    · exact ⟨p, ps, hp, rfl⟩
    · rw [hp]; exact ⟨p, _, rfl, rfl⟩
    · rcases hcases with ⟨ps', h'⟩ | ⟨h', _⟩
      · rw [h']; exact ⟨p, _, rfl, rfl⟩
      · rw [h'] at hq; simp at hq
    · rcases hcases with ⟨ps', h'⟩ | ⟨h', h''⟩
      · rw [h']; exact ⟨p, _, rfl, rfl⟩
      · rw [h', h'']; exact ⟨_, _, rfl, rfl⟩
  · rw [insertSpeed_general l hl h]
    obtain ⟨A, B, C, pe, S, hr⟩ := insertGeneral_split pts l hs hle hhead
    rw [hr]; exact S.result_head p ps hp

end Insert

end Altrios.Proofs.SPL
