import Altrios.SpeedPoints
import Proofs.Lemmas.SP
import Mathlib.Algebra.Order.Field.Basic
import Mathlib.Tactic.Linarith
import Mathlib.Tactic.SplitIfs
import Mathlib.Data.List.Basic
import Mathlib.Data.List.Chain
import Mathlib.Data.List.TakeWhile
/-
  The literal transcription `insertSpeedIdx` of `insert_speed` (indices, every `self[i]` a checked
  access, loops with fuel) computes the structural `insertSpeed`.   Used by `Proofs/C13Lit.lean`.

    * the phases of the general branch are named (`startStep`, `restoreStep`, `finalStep`,
      `generalIdx`, `tailIdx`) and `insertSpeedIdx_unfold` is `rfl`;
    * checked list primitives on `X ++ p :: Y` at index `|X|`;
    * `findStart_spec` / `findEnd_spec`: the two scans return `|A|` and `|A ++ B| - 1`;
    * `updLoop_spec`: the `while` loop is `dedup` over the updated points; `finalStep_spec`;
    * `generalIdx_spec`, `tailIdx_spec`, `insertSpeedIdx_eq_of_gap`, `insertSpeedIdx_eq_iff`:
      equality holds under the Bool contract `pre` exactly when `GapOK` holds;
    * strictly increasing offsets are preserved by restrictions of positive length
      (`insertSpeed_strict`), which re-establishes `pre` including `noTriple` (`pre_of_strict`);
    * `Inv.step`, `addSpeedsIdx_eq`.
-/
set_option linter.unusedSectionVars false
namespace Altrios.Proofs.SPLit
open Altrios Altrios.SP Altrios.Proofs.SPL

variable {α : Type} [Field α] [LinearOrder α] [IsStrictOrderedRing α]

/-! ### the phases of the general branch, named -/

def startStep (pts : List (Pt α)) (l : Lim α) (is ie : Nat) (pS : Pt α) :
    Res (List (Pt α) × Nat × Nat) :=
  if l.s < pS.off then do
    if is = 0 then .panic "underflow" else
    let q ← getP pts (is - 1)
    let spOld := q.spd
    let spNew := minSpeed spOld l.v
    if neb spOld spNew then do
      let pts ← insertAt pts is ⟨l.s, spNew⟩
      pure (pts, is + 1, ie + 1)
    else pure (pts, is, ie)
  else pure (pts, is, ie)

def restoreStep (pts : List (Pt α)) (l : Lim α) (ie : Nat) (peOld : Pt α) :
    Res (List (Pt α) × Nat) :=
  if peOld.off < l.e then
    let spOld := peOld.spd
    if neb spOld (minSpeed spOld l.v) then do
      let pts ← insertAt pts (ie + 1) ⟨l.e, spOld⟩
      pure (pts, ie + 1)
    else pure (pts, ie)
  else pure (pts, ie)

def finalStep (pts : List (Pt α)) (is : Nat) : Res (List (Pt α)) :=
  if is > 0 then do
    let a ← getP pts (is - 1)
    let b ← getP pts is
    if eqb a.spd b.spd then removeAt pts is else pure pts
  else pure pts

def generalIdx (pts : List (Pt α)) (l : Lim α) : Res (List (Pt α)) := do
  let n := pts.length
  let is ← findStart pts l.s (n + 1) 0
  let ie ← findEnd pts l.e (n + 1) (n - 1)
  let peOld ← getP pts ie
  let pS ← getP pts is
  let (pts, is, ie) ← startStep pts l is ie pS
  let (pts, ie) ← restoreStep pts l ie peOld
  let (pts, is) ← updLoop l.v (pts.length + 2) pts is ie
  finalStep pts is

def tailIdx (pts : List (Pt α)) (l : Lim α) (last : Pt α) : Res (List (Pt α)) := do
  let n := pts.length
  let spOld := last.spd
  let spNew := minSpeed spOld l.v
  if neb spOld spNew then
    if last.off < l.s then
      pure (pts ++ [⟨l.s, spNew⟩, ⟨l.e, spOld⟩])
    else
      let mergePrev ← (if n > 1 then do
                          let q ← getP pts (n - 2)
                          pure (eqb q.spd spNew)
                        else pure false)
      if mergePrev then
        pure (pts.set (n - 1) ⟨l.e, last.spd⟩)
      else
        pure (pts.set (n - 1) ⟨last.off, spNew⟩ ++ [⟨l.e, spOld⟩])
  else pure pts

theorem insertSpeedIdx_unfold (pts : List (Pt α)) (l : Lim α) :
    insertSpeedIdx pts l =
      (if !(pre pts l) then .panic "debug_assert" else do
        let last ← getP pts (pts.length - 1)
        if last.off ≤ l.s then tailIdx pts l last else generalIdx pts l) := rfl

/-! ### checked list primitives on `X ++ p :: Y` -/

theorem getP_mid (X Y : List (Pt α)) (p : Pt α) : getP (X ++ p :: Y) X.length = .ok p := by
  unfold getP; simp

theorem getP_mid' (X Y : List (Pt α)) (p : Pt α) (i : Nat) (h : i = X.length) :
    getP (X ++ p :: Y) i = .ok p := by subst h; exact getP_mid X Y p

theorem insertAt_mid (X Y : List (Pt α)) (p : Pt α) :
    insertAt (X ++ Y) X.length p = .ok (X ++ p :: Y) := by
  unfold insertAt
  rw [if_pos (by simp)]
  congr 1
  induction X with
  | nil => cases Y <;> simp
  | cons x X ih => simp [ih]

theorem removeAt_mid (X Y : List (Pt α)) (p : Pt α) :
    removeAt (X ++ p :: Y) X.length = .ok (X ++ Y) := by
  unfold removeAt
  rw [if_pos (by simp)]
  congr 1
  induction X with
  | nil => simp
  | cons x X ih => simp [ih]

theorem setSpd_mid (X Y : List (Pt α)) (p : Pt α) (v : α) :
    setSpd (X ++ p :: Y) X.length v = .ok (X ++ ⟨p.off, v⟩ :: Y) := by
  unfold setSpd
  simp

theorem ok_bind {σ τ} (a : σ) (f : σ → Res τ) : (Res.ok a >>= f) = f a := rfl
theorem pure_eq_ok {σ} (a : σ) : (pure a : Res σ) = .ok a := rfl

/-- `findStart` stops at the first point that is not strictly before `start` -/
theorem findStart_spec (s : α) (A2 : List (Pt α)) : ∀ (A1 R : List (Pt α)) (r : Pt α) (f : Nat),
    (∀ p ∈ A2, p.off < s) → ¬ r.off < s → A2.length < f →
    findStart (A1 ++ A2 ++ r :: R) s f A1.length = .ok (A1.length + A2.length) := by
  induction A2 with
  | nil =>
    intro A1 R r f _ hr hf
    obtain ⟨f, rfl⟩ : ∃ f', f = f' + 1 := ⟨f - 1, by simp at hf; omega⟩
    rw [findStart, List.append_nil, getP_mid, ok_bind, if_neg hr]; rfl
  | cons x A2 ih =>
    intro A1 R r f hA hr hf
    obtain ⟨f, rfl⟩ : ∃ f', f = f' + 1 := ⟨f - 1, by simp at hf; omega⟩
    rw [findStart, List.append_assoc, List.cons_append, getP_mid, ok_bind,
      if_pos (hA x (by simp))]
    have := ih (A1 ++ [x]) R r f (fun p hp => hA p (by simp [hp])) hr (by simpa using hf)
    simp only [List.append_assoc, List.cons_append, List.nil_append, List.length_append,
      List.length_cons, List.length_nil] at this ⊢
    rw [this]; congr 1; omega

/-- `findEnd` stops, scanning down, at the last point that is not strictly after `end` -/
theorem findEnd_spec (e : α) (P' : List (Pt α)) (pe : Pt α) (C1 : List (Pt α)) :
    ∀ (C2 : List (Pt α)) (f : Nat),
    (∀ c ∈ C1, e < c.off) → ¬ e < pe.off → C1.length < f →
    findEnd (P' ++ pe :: (C1 ++ C2)) e f (P'.length + C1.length) = .ok P'.length := by
  induction C1 using List.reverseRecOn with
  | nil =>
    intro C2 f _ hpe hf
    obtain ⟨f, rfl⟩ : ∃ f', f = f' + 1 := ⟨f - 1, by simp at hf; omega⟩
    rw [findEnd, List.nil_append, List.length_nil, Nat.add_zero, getP_mid, ok_bind, if_neg hpe]; rfl
  | append_singleton C1 c ih =>
    intro C2 f hC hpe hf
    obtain ⟨f, rfl⟩ : ∃ f', f = f' + 1 := ⟨f - 1, by simp at hf; omega⟩
    have hget : getP (P' ++ pe :: (C1 ++ [c] ++ C2)) (P'.length + (C1 ++ [c]).length) = .ok c := by
      have : P' ++ pe :: (C1 ++ [c] ++ C2) = (P' ++ pe :: C1) ++ c :: C2 := by simp
      rw [this]; apply getP_mid'; simp
    rw [findEnd, hget, ok_bind, if_pos (hC c (by simp)), if_neg (by simp)]
    have := ih ([c] ++ C2) f (fun p hp => hC p (by simp [hp])) hpe (by simpa using hf)
    simp only [List.append_assoc, List.length_append, List.length_cons, List.length_nil] at this ⊢
    rw [← this]; congr 1


/-- the update applied to in-range points -/
def upd (v : α) (p : Pt α) : Pt α := ⟨p.off, minSpeed p.spd v⟩

theorem lastSpd_concat (X : List (Pt α)) (q : Pt α) : lastSpd (X ++ [q]) = some q.spd := by
  unfold lastSpd; simp

/-- the `while idx_start < idx_end` loop is `dedup` over the updated points -/
theorem updLoop_spec (v : α) (M : List (Pt α)) : ∀ (X Y L : List (Pt α)) (f is ie : Nat),
    M.length < f → L = X ++ M ++ Y → is = X.length → ie = X.length + M.length →
    updLoop v f L is ie =
      .ok (X ++ dedup (lastSpd X) (M.map (upd v)) ++ Y,
           X.length + (dedup (lastSpd X) (M.map (upd v))).length) := by
  induction M with
  | nil =>
    intro X Y L f is ie hf hL his hie
    subst hL his hie
    obtain ⟨f, rfl⟩ : ∃ f', f = f' + 1 := ⟨f - 1, by simp at hf; omega⟩
    rw [updLoop, if_neg (by simp)]
    simp [dedup_nil]
  | cons p M ih =>
    intro X Y L f is ie hf hL his hie
    subst hL his hie
    obtain ⟨f, rfl⟩ : ∃ f', f = f' + 1 := ⟨f - 1, by simp at hf; omega⟩
    have hf' : M.length < f := by simpa using hf
    rw [updLoop, if_pos (by simp)]
    have e1 : X ++ p :: M ++ Y = X ++ p :: (M ++ Y) := by simp
    rw [e1, getP_mid, ok_bind]
    -- the non-merging continuation
    have keep : (setSpd (X ++ p :: (M ++ Y)) X.length (minSpeed p.spd v) >>= fun pts =>
        updLoop v f pts (X.length + 1) (X.length + (p :: M).length)) =
        .ok (X ++ upd v p :: dedup (some (upd v p).spd) (M.map (upd v)) ++ Y,
          X.length + (upd v p :: dedup (some (upd v p).spd) (M.map (upd v))).length) := by
      rw [setSpd_mid, ok_bind]
      have := ih (X ++ [upd v p]) Y (X ++ ⟨p.off, minSpeed p.spd v⟩ :: (M ++ Y)) f (X.length + 1)
        (X.length + (p :: M).length) hf' (by simp [upd]) (by simp) (by simp; omega)
      rw [this, lastSpd_concat]
      congr 2
      · simp
      · simp; omega
    simp only []
    rcases List.eq_nil_or_concat' X with rfl | ⟨X', q, rfl⟩
    · simp only [List.length_nil, gt_iff_lt, Nat.lt_irrefl, if_false, pure_eq_ok, ok_bind,
        Bool.false_eq_true]
      rw [List.map_cons, lastSpd_nil, dedup_none_cons]
      exact keep
    · rw [if_pos (by simp)]
      have e2 : (X' ++ [q]).length - 1 = X'.length := by simp
      have e3 : X' ++ [q] ++ p :: (M ++ Y) = X' ++ q :: (p :: (M ++ Y)) := by simp
      rw [e2, e3, getP_mid, ok_bind, pure_eq_ok, ok_bind, ← e3, lastSpd_concat, List.map_cons,
        dedup_some_cons]
      by_cases hm : q.spd = minSpeed p.spd v
      · rw [if_pos ((eqb_iff _ _).mpr hm), if_pos (show q.spd = (upd v p).spd from hm), removeAt_mid, ok_bind]
        have := ih (X' ++ [q]) Y (X' ++ [q] ++ (M ++ Y)) f (X' ++ [q]).length
          ((X' ++ [q]).length + (p :: M).length - 1) hf' (by simp) rfl (by simp)
        rw [lastSpd_concat] at this
        exact this
      · have : eqb q.spd (minSpeed p.spd v) = false := by
          rw [← Bool.not_eq_true, eqb_iff]; exact hm
        rw [this, if_neg (show ¬ q.spd = (upd v p).spd from hm)]
        exact keep

theorem dedup_append (cur : Option α) (L1 L2 : List (Pt α)) :
    dedup cur (L1 ++ L2) = dedup cur L1 ++ dedup ((lastSpd L1).or cur) L2 := by
  induction L1 generalizing cur with
  | nil => rw [dedup_nil, lastSpd_nil]; simp
  | cons p ps ih =>
    have key : dedup (some p.spd) (ps ++ L2) =
        dedup (some p.spd) ps ++ dedup ((lastSpd (p :: ps)).or cur) L2 := by
      rw [ih, lastSpd_cons]; cases lastSpd ps <;> simp
    cases cur with
    | none => rw [List.cons_append, dedup_none_cons, dedup_none_cons, List.cons_append, key]
    | some c =>
      rw [List.cons_append, dedup_some_cons, dedup_some_cons]
      split_ifs with h
      · rw [ih, lastSpd_cons, ← h]; cases lastSpd ps <;> simp
      · rw [List.cons_append, key]

/-- the final neighbour merge is one more `dedup` step -/
theorem finalStep_spec (Z Y : List (Pt α)) (y : Pt α) :
    finalStep (Z ++ y :: Y) Z.length = .ok (Z ++ dedup (lastSpd Z) [y] ++ Y) := by
  unfold finalStep
  rcases List.eq_nil_or_concat' Z with rfl | ⟨Z', q, rfl⟩
  · simp [lastSpd_nil, dedup_none_cons, dedup_nil, pure_eq_ok]
  · rw [if_pos (by simp)]
    have e2 : (Z' ++ [q]).length - 1 = Z'.length := by simp
    have e3 : Z' ++ [q] ++ y :: Y = Z' ++ q :: (y :: Y) := by simp
    rw [e2, e3, getP_mid, ok_bind, ← e3, getP_mid, ok_bind, lastSpd_concat, dedup_some_cons, dedup_nil]
    by_cases hm : q.spd = y.spd
    · rw [if_pos ((eqb_iff _ _).mpr hm), if_pos hm, removeAt_mid]; simp
    · have : eqb q.spd y.spd = false := by rw [← Bool.not_eq_true, eqb_iff]; exact hm
      rw [this, if_neg hm]; simp [pure_eq_ok, dedup_nil]

/-- extend `A` by the points of `L` that change the speed in force -/
def ext (A L : List (Pt α)) : List (Pt α) := A ++ dedup (lastSpd A) L

theorem lastSpd_ext (A L : List (Pt α)) : lastSpd (ext A L) = (lastSpd L).or (lastSpd A) := by
  unfold ext; rw [lastSpd_append, dedup_last]

theorem ext_append (A L1 L2 : List (Pt α)) : ext A (L1 ++ L2) = ext (ext A L1) L2 := by
  rw [ext, dedup_append, ← lastSpd_ext, ← List.append_assoc]; rfl

theorem ext_nil (A : List (Pt α)) : ext A [] = A := by unfold ext; rw [dedup_nil]; simp

theorem ext_length (A L : List (Pt α)) : (ext A L).length = A.length + (dedup (lastSpd A) L).length := by
  unfold ext; simp

/-! ### the "at or after the last point" branch -/

theorem tailIdx_spec (D : List (Pt α)) (last : Pt α) (l : Lim α) (h : last.off ≤ l.s) :
    tailIdx (D ++ [last]) l last = .ok (insertSpeed (D ++ [last]) l) := by
  unfold tailIdx insertSpeed
  simp only [List.getLast?_concat, if_pos h, List.dropLast_concat]
  by_cases hne : neb last.spd (minSpeed last.spd l.v) = true
  · simp only [hne, if_true]
    by_cases hlt : last.off < l.s
    · simp only [if_pos hlt]; rfl
    · simp only [if_neg hlt]
      have hset : ∀ x : Pt α, (D ++ [last]).set ((D ++ [last]).length - 1) x = D ++ [x] := by
        intro x; simp
      rcases List.eq_nil_or_concat' D with rfl | ⟨D', q, rfl⟩
      · simp [pure_eq_ok, ok_bind]
      · have e2 : (D' ++ [q] ++ [last]).length - 2 = D'.length := by simp
        have e3 : D' ++ [q] ++ [last] = D' ++ q :: [last] := by simp
        rw [if_pos (by simp), e2, hset, hset]
        conv_lhs => rw [e3, getP_mid]
        simp only [ok_bind, pure_eq_ok, List.getLast?_concat]
        by_cases hq : eqb q.spd (minSpeed last.spd l.v) = true
        · simp [hq]
        · simp [hq]
  · simp only [hne]; rfl


/-! ### the general branch -/

/-- robust form of `findStart_spec` -/
theorem findStart_eq (s : α) (A R L : List (Pt α)) (r : Pt α) (f : Nat) (hL : L = A ++ r :: R)
    (hA : ∀ p ∈ A, p.off < s) (hr : ¬ r.off < s) (hf : A.length < f) :
    findStart L s f 0 = .ok A.length := by
  have := findStart_spec s A [] R r f hA hr hf
  simpa [hL] using this

/-- robust form of `findEnd_spec` -/
theorem findEnd_eq (e : α) (P' C L : List (Pt α)) (pe : Pt α) (f i : Nat) (hL : L = P' ++ pe :: C)
    (hC : ∀ c ∈ C, e < c.off) (hpe : ¬ e < pe.off) (hf : C.length < f)
    (hi : i = P'.length + C.length) : findEnd L e f i = .ok P'.length := by
  have := findEnd_spec e P' pe C [] f hC hpe hf
  subst hL hi
  simpa using this

/-- the start point the literal code inserts -/
def startIns (A B : List (Pt α)) (l : Lim α) : List (Pt α) :=
  dedup (lastSpd A) ((startRaw A B l).map (upd l.v))

/-- the restored end point the literal code inserts -/
def endIns (pe : Pt α) (l : Lim α) : List (Pt α) :=
  if pe.off < l.e ∧ pe.spd ≠ minSpeed pe.spd l.v then [⟨l.e, pe.spd⟩] else []

theorem restoreStep_spec (Q C : List (Pt α)) (l : Lim α) (ie : Nat) (pe : Pt α)
    (hie : ie + 1 = Q.length) :
    restoreStep (Q ++ C) l ie pe = .ok (Q ++ endIns pe l ++ C, ie + (endIns pe l).length) := by
  unfold restoreStep endIns
  by_cases h1 : pe.off < l.e
  · by_cases h2 : pe.spd = minSpeed pe.spd l.v
    · have : neb pe.spd (minSpeed pe.spd l.v) = false := by
        rw [← Bool.not_eq_true, neb_iff]; exact not_not.mpr h2
      have e : ¬ (pe.off < l.e ∧ pe.spd ≠ minSpeed pe.spd l.v) := fun h => h.2 h2
      simp only [if_pos h1, this, Bool.false_eq_true, if_false, pure_eq_ok, if_neg e]
      simp
    · have : neb pe.spd (minSpeed pe.spd l.v) = true := (neb_iff _ _).mpr h2
      have e : pe.off < l.e ∧ pe.spd ≠ minSpeed pe.spd l.v := ⟨h1, h2⟩
      simp only [if_pos h1, this, if_true, if_pos e]
      rw [hie, insertAt_mid, ok_bind, pure_eq_ok]
      simp [hie]
  · have e : ¬ (pe.off < l.e ∧ pe.spd ≠ minSpeed pe.spd l.v) := fun h => h1 h.1
    simp only [if_neg h1, if_neg e, pure_eq_ok]
    simp


theorem startStep_spec {pts A B C : List (Pt α)} {l : Lim α} {pe : Pt α}
    (S : Split pts l A B C pe) (r : Pt α) (R : List (Pt α)) (hr : B ++ C = r :: R) (ie : Nat) :
    startStep pts l A.length ie r =
      .ok (A ++ startIns A B l ++ B ++ C, A.length + (startIns A B l).length,
           ie + (startIns A B l).length) := by
  unfold startStep
  by_cases hlt : l.s < r.off
  · rw [if_pos hlt]
    rcases List.eq_nil_or_concat' A with rfl | ⟨A', a, rfl⟩
    · exfalso
      cases B with
      | nil => have := S.last; simp at this
      | cons b B' =>
        simp only [List.cons_append, List.cons.injEq] at hr
        have := S.head b (by simp)
        rw [hr.1] at this
        exact absurd hlt (not_lt.mpr this)
    · have hsr : startRaw (A' ++ [a]) B l = [⟨l.s, a.spd⟩] := by
        unfold startRaw
        rw [List.getLast?_concat]
        cases B with
        | nil => rfl
        | cons b B' =>
          simp only [List.cons_append, List.cons.injEq] at hr
          simp [hr.1, hlt]
      have hpts : pts = A' ++ a :: (B ++ C) := by rw [S.eq]; simp
      have e2 : (A' ++ [a]).length - 1 = A'.length := by simp
      rw [if_neg (by simp), e2]
      conv_lhs => rw [hpts, getP_mid, ok_bind]
      simp only [startIns, hsr, List.map_cons, List.map_nil, lastSpd_concat, dedup_some_cons,
        dedup_nil, upd]
      by_cases hm : a.spd = minSpeed a.spd l.v
      · have : neb a.spd (minSpeed a.spd l.v) = false := by
          rw [← Bool.not_eq_true, neb_iff]; exact not_not.mpr hm
        simp only [this, Bool.false_eq_true, if_false, if_pos hm, pure_eq_ok]
        simp
      · have : neb a.spd (minSpeed a.spd l.v) = true := (neb_iff _ _).mpr hm
        have e3 : A' ++ a :: (B ++ C) = (A' ++ [a]) ++ (B ++ C) := by simp
        simp only [this, if_true, if_neg hm]
        rw [e3, insertAt_mid, ok_bind, pure_eq_ok]
        simp
  · rw [if_neg hlt]
    have hsr : startRaw A B l = [] := by
      unfold startRaw
      cases B with
      | nil =>
        exfalso
        have : r ∈ C := by rw [List.nil_append] at hr; rw [hr]; simp
        exact hlt (lt_of_le_of_lt S.le (S.hC r this))
      | cons b B' =>
        simp only [List.cons_append, List.cons.injEq] at hr
        cases A.getLast? <;> simp [hr.1, hlt]
    simp [startIns, hsr, dedup_nil, pure_eq_ok, S.eq]


theorem updLoop_done (v : α) (f : Nat) (L : List (Pt α)) (is ie : Nat) (h : ¬ is < ie) :
    updLoop v (f + 1) L is ie = .ok (L, is) := by
  rw [updLoop, if_neg h]

theorem cand_eq (A B : List (Pt α)) (pe : Pt α) (l : Lim α) :
    cand A B pe l = (startRaw A B l ++ bupd B pe l).map (upd l.v) ++ [tailPt pe l] := rfl

theorem upd_self (v : α) (p : Pt α) (h : p.spd = minSpeed p.spd v) : upd v p = p := by
  cases p; simp only [upd] at h ⊢; rw [← h]

/-- what the loop and the final merge see (`M` then `y`) deduplicates to the structural candidates -/
theorem cand_dedup {pts A B C : List (Pt α)} {l : Lim α} {pe : Pt α}
    (S : Split pts l A B C pe) (M : List (Pt α)) (y : Pt α) (h : B ++ endIns pe l = M ++ [y])
    (cur : Option α) :
    dedup cur (cand A B pe l) = dedup cur ((startRaw A B l ++ M).map (upd l.v) ++ [y]) := by
  rw [cand_eq]
  unfold endIns at h
  by_cases hc : pe.off < l.e ∧ pe.spd ≠ minSpeed pe.spd l.v
  · rw [if_pos hc] at h
    obtain ⟨h1, h2⟩ := List.append_inj' h rfl
    simp only [List.cons.injEq, and_true] at h2
    rw [← h1, ← h2]
    unfold bupd tailPt; rw [if_pos hc.1, if_pos hc.1]
  · rw [if_neg hc, List.append_nil] at h
    have hy : pe = y := by
      have := S.last
      rw [h, ← List.append_assoc, List.getLast?_concat] at this
      exact (Option.some.inj this).symm
    subst hy
    by_cases h1 : pe.off < l.e
    · have h2 : pe.spd = minSpeed pe.spd l.v := by
        by_contra h2; exact hc ⟨h1, h2⟩
      unfold bupd tailPt; rw [if_pos h1, if_pos h1, h]
      have : (startRaw A (M ++ [pe]) l ++ (M ++ [pe])).map (upd l.v) ++ [(⟨l.e, pe.spd⟩ : Pt α)] =
          ((startRaw A (M ++ [pe]) l ++ M).map (upd l.v) ++ [pe]) ++ [⟨l.e, pe.spd⟩] := by
        simp [upd_self l.v pe h2]
      rw [this, dedup_append, lastSpd_concat, Option.some_or, dedup_some_cons, if_pos rfl, dedup_nil,
        List.append_nil]
    · unfold bupd tailPt; rw [if_neg h1, if_neg h1, h, List.dropLast_concat]

/-- the literal and structural results differ only when a non-binding restriction falls strictly
    inside a gap between two neighbours that carry the same speed -/
def GapOK (pts : List (Pt α)) (l : Lim α) : Prop :=
  ∀ X Y a c, pts = X ++ a :: c :: Y → a.off < l.s → l.e < c.off →
    minSpeed a.spd l.v = a.spd → a.spd ≠ c.spd

/-- the state of the literal code when it reaches the `while` loop -/
theorem generalIdx_prefix {pts A B C : List (Pt α)} {l : Lim α} {pe : Pt α}
    (S : Split pts l A B C pe) (last : Pt α) (hl : pts.getLast? = some last)
    (hgt : ¬ last.off ≤ l.s) (P' : List (Pt α)) (hP : A ++ B = P' ++ [pe]) :
    generalIdx pts l =
      (updLoop l.v ((A ++ startIns A B l ++ B ++ endIns pe l ++ C).length + 2)
          (A ++ startIns A B l ++ B ++ endIns pe l ++ C)
          (A.length + (startIns A B l).length)
          (P'.length + (startIns A B l).length + (endIns pe l).length) >>= fun x =>
        finalStep x.1 x.2) := by
  -- the first point not before `start`
  obtain ⟨r, R, hr⟩ : ∃ r R, B ++ C = r :: R := by
    cases hBC : B ++ C with
    | nil =>
      exfalso
      have : pts = A := by rw [S.eq, List.append_assoc, hBC, List.append_nil]
      exact hgt (le_of_lt (S.hA last (this ▸ List.mem_of_getLast? hl)))
    | cons r R => exact ⟨r, R, rfl⟩
  have hrs : ¬ r.off < l.s := by
    have : r ∈ B ++ C := by rw [hr]; simp
    rcases List.mem_append.mp this with h | h
    · exact not_lt.mpr (S.hB r h).1
    · exact not_lt.mpr (le_trans S.le (le_of_lt (S.hC r h)))
  have hlen : A.length + B.length = P'.length + 1 := by
    have := congrArg List.length hP; simpa using this
  have hpts1 : pts = A ++ r :: R := by rw [S.eq, List.append_assoc, hr]
  have hpts2 : pts = P' ++ pe :: C := by rw [S.eq, hP]; simp
  have hn : pts.length = P'.length + 1 + C.length := by rw [hpts2]; simp; omega
  have hfs : findStart pts l.s (pts.length + 1) 0 = .ok A.length :=
    findStart_eq l.s A R pts r _ hpts1 S.hA hrs (by rw [hpts1]; simp; omega)
  have hfe : findEnd pts l.e (pts.length + 1) (pts.length - 1) = .ok P'.length :=
    findEnd_eq l.e P' C pts pe _ _ hpts2 S.hC (not_lt.mpr S.pe_le) (by omega) (by omega)
  have hg1 : getP pts P'.length = .ok pe := by rw [hpts2, getP_mid]
  have hg2 : getP pts A.length = .ok r := by rw [hpts1, getP_mid]
  have hss := startStep_spec S r R hr P'.length
  have hrs' := restoreStep_spec (A ++ startIns A B l ++ B) C l (P'.length + (startIns A B l).length)
    pe (by simp; omega)
  unfold generalIdx
  simp only []
  rw [hfs, ok_bind, hfe, ok_bind, hg1, ok_bind, hg2, ok_bind, hss, ok_bind]
  simp only []
  rw [hrs', ok_bind]

/-- Nothing in range and the restriction does not bind: `idx_start = idx_end + 1`, the loop is
    skipped and the final merge compares the two neighbours of the gap — the second of which lies
    OUTSIDE the restriction.  The structural definition leaves the list alone. -/
theorem generalIdx_gap {pts A C : List (Pt α)} {l : Lim α} {pe : Pt α}
    (S : Split pts l A [] C pe) (last : Pt α) (hl : pts.getLast? = some last)
    (hgt : ¬ last.off ≤ l.s) (hm : pe.spd = minSpeed pe.spd l.v) :
    ∃ P' r R, A = P' ++ [pe] ∧ C = r :: R ∧ pts = P' ++ pe :: r :: R ∧ pe.off < l.s ∧ l.e < r.off ∧
      generalIdx pts l = .ok (P' ++ pe :: (dedup (some pe.spd) [r] ++ R)) ∧
      A ++ dedup (lastSpd A) (cand A [] pe l) ++ C = pts := by
  obtain ⟨P', hP⟩ : ∃ P', A ++ [] = P' ++ [pe] :=
    ⟨(A ++ []).dropLast, (List.dropLast_append_getLast? pe (by rw [S.last]; rfl)).symm⟩
  have hpre := generalIdx_prefix S last hl hgt P' hP
  rw [List.append_nil] at hP
  obtain ⟨r, R, hr⟩ : ∃ r R, C = r :: R := by
    cases hC : C with
    | nil =>
      exfalso
      have : pts = A := by rw [S.eq, hC]; simp
      exact hgt (le_of_lt (S.hA last (this ▸ List.mem_of_getLast? hl)))
    | cons r R => exact ⟨r, R, rfl⟩
  have hpeA : pe ∈ A := by rw [hP]; simp
  have hpe_e : pe.off < l.e := lt_of_lt_of_le (S.hA pe hpeA) S.le
  have hE : endIns pe l = [] := by
    unfold endIns; rw [if_neg (fun h => h.2 hm)]
  have hsr : startRaw A [] l = [⟨l.s, pe.spd⟩] := by
    unfold startRaw; rw [hP, List.getLast?_concat]; rfl
  have hSl : startIns A [] l = [] := by
    unfold startIns
    rw [hsr, hP, lastSpd_concat, List.map_cons, List.map_nil, dedup_some_cons,
      if_pos (show pe.spd = (upd l.v ⟨l.s, pe.spd⟩).spd from hm), dedup_nil]
  have hpts : pts = P' ++ pe :: r :: R := by rw [S.eq, hP, hr]; simp
  refine ⟨P', r, R, hP, hr, hpts, S.hA pe hpeA, S.hC r (by rw [hr]; simp), ?_, ?_⟩
  · rw [hpre, hE, hSl]
    simp only [List.append_nil, List.length_nil, Nat.add_zero]
    rw [updLoop_done _ _ _ _ _ (by rw [hP]; simp), ok_bind]
    simp only []
    rw [hr, finalStep_spec, hP, lastSpd_concat]
    simp
  · have htl : tailPt pe l = ⟨l.e, pe.spd⟩ := by unfold tailPt; rw [if_pos hpe_e]
    have hbu : bupd ([] : List (Pt α)) pe l = [] := by unfold bupd; simp
    rw [cand_eq, hsr, hbu, htl, hP, lastSpd_concat]
    simp only [List.append_nil, List.map_cons, List.map_nil, List.cons_append, List.nil_append]
    rw [dedup_some_cons, if_pos (show pe.spd = (upd l.v ⟨l.s, pe.spd⟩).spd from hm),
      dedup_some_cons, if_pos rfl, dedup_nil, hpts, hr]
    simp

theorem generalIdx_spec {pts A B C : List (Pt α)} {l : Lim α} {pe : Pt α}
    (S : Split pts l A B C pe) (last : Pt α) (hl : pts.getLast? = some last)
    (hgt : ¬ last.off ≤ l.s) (hg : GapOK pts l) :
    generalIdx pts l = .ok (A ++ dedup (lastSpd A) (cand A B pe l) ++ C) := by
  rcases List.eq_nil_or_concat' (B ++ endIns pe l) with hnil | ⟨M, y, hMy⟩
  · obtain ⟨hB, hE⟩ := List.append_eq_nil_iff.mp hnil
    subst hB
    have hpeA : pe ∈ A := by have := S.pe_mem; simpa using this
    have hpe_e : pe.off < l.e := lt_of_lt_of_le (S.hA pe hpeA) S.le
    have hm : pe.spd = minSpeed pe.spd l.v := by
      by_contra h2
      unfold endIns at hE; rw [if_pos ⟨hpe_e, h2⟩] at hE; simp at hE
    obtain ⟨P', r, R, _, _, hpts, h1, h2, hlit, hstr⟩ := generalIdx_gap S last hl hgt hm
    rw [hlit, hstr, dedup_some_cons, if_neg (hg P' R pe r hpts h1 h2 hm.symm), dedup_nil, hpts]
    simp
  · -- the loop runs over `M`, the final merge looks at `y`
    obtain ⟨P', hP⟩ : ∃ P', A ++ B = P' ++ [pe] :=
      ⟨(A ++ B).dropLast, (List.dropLast_append_getLast? pe (by rw [S.last]; rfl)).symm⟩
    have hlen : A.length + B.length = P'.length + 1 := by
      have := congrArg List.length hP; simpa using this
    have hlen2 : B.length + (endIns pe l).length = M.length + 1 := by
      have := congrArg List.length hMy; simpa using this
    have hL : A ++ startIns A B l ++ B ++ endIns pe l ++ C =
        (A ++ startIns A B l) ++ M ++ y :: C := by
      have : A ++ startIns A B l ++ B ++ endIns pe l ++ C =
          (A ++ startIns A B l) ++ (B ++ endIns pe l) ++ C := by simp
      rw [this, hMy]; simp
    have hloop := updLoop_spec l.v M (A ++ startIns A B l) (y :: C)
      (A ++ startIns A B l ++ B ++ endIns pe l ++ C)
      ((A ++ startIns A B l ++ B ++ endIns pe l ++ C).length + 2)
      (A.length + (startIns A B l).length)
      (P'.length + (startIns A B l).length + (endIns pe l).length)
      (by simp; omega) hL (by simp) (by simp; omega)
    rw [generalIdx_prefix S last hl hgt P' hP, hloop, ok_bind]
    simp only []
    have hfin := finalStep_spec (ext (A ++ startIns A B l) (M.map (upd l.v))) C y
    rw [ext_length] at hfin
    unfold ext at hfin
    rw [hfin, cand_dedup S M y hMy]
    -- purely structural: three `ext` steps are one
    congr 1
    change ext (ext (A ++ startIns A B l) (M.map (upd l.v))) [y] ++ C = _
    have hX : A ++ startIns A B l = ext A ((startRaw A B l).map (upd l.v)) := rfl
    rw [hX, ← ext_append, ← ext_append, List.map_append]
    unfold ext
    simp only [List.append_assoc]

/-! ### the Bool contract, unpacked -/

theorem sortedOff_imp (pts : List (Pt α)) (h : sortedOff pts = true) : SortedOff pts := by
  induction pts with
  | nil => exact List.Pairwise.nil
  | cons a t ih =>
    cases t with
    | nil => exact List.pairwise_singleton _ _
    | cons b t =>
      simp only [sortedOff, Bool.and_eq_true, decide_eq_true_eq] at h
      have hb := ih h.2
      refine List.pairwise_cons.mpr ⟨?_, hb⟩
      intro q hq
      rcases List.mem_cons.mp hq with rfl | hq
      · exact h.1
      · exact le_trans h.1 ((List.pairwise_cons.mp hb).1 q hq)

theorem pre_unpack (pts : List (Pt α)) (l : Lim α) (h : pre pts l = true) :
    SortedOff pts ∧ l.s ≤ l.e ∧ ∃ p ps, pts = p :: ps ∧ p.off ≤ l.s := by
  simp only [pre, Bool.and_eq_true, decide_eq_true_eq] at h
  obtain ⟨⟨⟨⟨⟨⟨⟨_, _⟩, hse⟩, _⟩, _⟩, hsort⟩, _⟩, hhead⟩ := h
  refine ⟨sortedOff_imp pts hsort, hse, ?_⟩
  cases pts with
  | nil => simp at hhead
  | cons p ps => exact ⟨p, ps, rfl, by simpa using hhead⟩

theorem getP_last (pts : List (Pt α)) (last : Pt α) (hl : pts.getLast? = some last) :
    getP pts (pts.length - 1) = .ok last := by
  have hD : pts.dropLast ++ [last] = pts := List.dropLast_append_getLast? last (by rw [hl]; rfl)
  conv_lhs => rw [← hD]
  apply getP_mid'; simp

theorem insertSpeedIdx_general (pts : List (Pt α)) (l : Lim α) (h : pre pts l = true)
    (last : Pt α) (hl : pts.getLast? = some last) (hc : ¬ last.off ≤ l.s) :
    insertSpeedIdx pts l = generalIdx pts l := by
  rw [insertSpeedIdx_unfold, h]
  simp only [Bool.not_true, Bool.false_eq_true, if_false]
  rw [getP_last pts last hl, ok_bind, if_neg hc]

/-- **The literal transcription computes the structural definition**: no out-of-range index, no
    fuel exhaustion, no underflow, and the same list. -/
theorem insertSpeedIdx_eq_of_gap (pts : List (Pt α)) (l : Lim α) (h : pre pts l = true)
    (hg : GapOK pts l) : insertSpeedIdx pts l = .ok (insertSpeed pts l) := by
  obtain ⟨hs, hle, hhead⟩ := pre_unpack pts l h
  obtain ⟨last, hl⟩ : ∃ last, pts.getLast? = some last := by
    obtain ⟨p, ps, rfl, _⟩ := hhead
    exact ⟨_, List.getLast?_cons⟩
  by_cases hc : last.off ≤ l.s
  · have hD : pts.dropLast ++ [last] = pts := List.dropLast_append_getLast? last (by rw [hl]; rfl)
    rw [insertSpeedIdx_unfold, h]
    simp only [Bool.not_true, Bool.false_eq_true, if_false]
    rw [getP_last pts last hl, ok_bind, if_pos hc, ← hD]; exact tailIdx_spec _ last l hc
  · rw [insertSpeedIdx_general pts l h last hl hc, insertSpeed_general l hl hc]
    obtain ⟨A, B, C, pe, S, hr⟩ := insertGeneral_split pts l hs hle hhead
    rw [hr]; exact generalIdx_spec S last hl hc hg

/-- canonical input (no two neighbours with the same speed) has no bad gap -/
theorem gapOK_of_chain (pts : List (Pt α)) (l : Lim α)
    (hc : pts.IsChain (fun a b => a.spd ≠ b.spd)) : GapOK pts l := by
  intro X Y a c hpts _ _ _
  rw [hpts] at hc
  have := (List.isChain_append.mp hc).2.1
  exact (List.isChain_cons_cons.mp this).1

/-- `GapOK` is forced: when it fails the literal code (and the Rust text) removes the point
    `c` after the gap — which lies outside `[start, end]` — and the structural definition keeps it. -/
theorem insertSpeedIdx_ne_of_not_gap (pts : List (Pt α)) (l : Lim α) (h : pre pts l = true)
    (X Y : List (Pt α)) (a c : Pt α) (hpts : pts = X ++ a :: c :: Y) (ha : a.off < l.s)
    (hc : l.e < c.off) (hm : minSpeed a.spd l.v = a.spd) (hac : a.spd = c.spd) :
    insertSpeedIdx pts l = .ok (X ++ a :: Y) ∧ insertSpeed pts l = pts := by
  obtain ⟨hs, hle, hhead⟩ := pre_unpack pts l h
  have hs' := hs
  rw [hpts] at hs'
  obtain ⟨hsX, hsR, hXR⟩ := List.pairwise_append.mp hs'
  have hXa : ∀ p ∈ X ++ [a], p.off < l.s := by
    intro p hp
    rcases List.mem_append.mp hp with hp | hp
    · exact lt_of_le_of_lt (hXR p hp a (by simp)) ha
    · rw [List.mem_singleton.mp hp]; exact ha
  have hcY : ∀ p ∈ c :: Y, l.e < p.off := by
    intro p hp
    rcases List.mem_cons.mp hp with rfl | hp
    · exact hc
    · exact lt_of_lt_of_le hc
        ((List.pairwise_cons.mp (List.pairwise_cons.mp hsR).2).1 p hp)
  obtain ⟨last, hl⟩ : ∃ last, (c :: Y).getLast? = some last := ⟨_, List.getLast?_cons⟩
  have hl' : pts.getLast? = some last := by
    rw [hpts, List.getLast?_append, List.getLast?_cons_cons, hl]; rfl
  have hgt : ¬ last.off ≤ l.s :=
    not_le.mpr (lt_of_le_of_lt hle (hcY last (List.mem_of_getLast? hl)))
  have S : Split pts l (X ++ [a]) [] (c :: Y) a := by
    refine ⟨by rw [hpts]; simp, hXa, by simp, hcY, by simp, ?_, hs, hle⟩
    intro p hp
    have : p ∈ X ++ [a] := by
      rw [List.append_nil] at hp; exact List.mem_of_mem_head? hp
    exact le_of_lt (hXa p this)
  obtain ⟨P', r, R, hP, hr, _, _, _, hlit, hstr⟩ := generalIdx_gap S last hl' hgt hm.symm
  obtain ⟨hP1, _⟩ := List.append_inj' hP rfl
  rw [List.cons.injEq] at hr
  obtain ⟨hr1, hr2⟩ := hr
  subst hP1 hr1 hr2
  refine ⟨?_, ?_⟩
  · rw [insertSpeedIdx_general pts l h last hl' hgt, hlit, dedup_some_cons, if_pos hac, dedup_nil]
    simp
  · rw [insertSpeed_general l hl' hgt, insertGeneral_eq]
    have hnc : ¬ c.off < l.s := not_lt.mpr (le_of_lt (lt_of_le_of_lt hle hc))
    have e0 : pts = (X ++ [a]) ++ c :: Y := by rw [hpts]; simp
    have e1 : pts.takeWhile (fun p => decide (p.off < l.s)) = X ++ [a] := by
      rw [e0, List.takeWhile_append_of_pos (by simpa using hXa), List.takeWhile_cons_of_neg (by simpa using hnc)]
      simp
    have e2 : pts.dropWhile (fun p => decide (p.off < l.s)) = c :: Y := by
      rw [e0, List.dropWhile_append_of_pos (by simpa using hXa), List.dropWhile_cons_of_neg (by simpa using hnc)]
    have e3 : (c :: Y).takeWhile (fun p => decide (p.off ≤ l.e)) = [] :=
      List.takeWhile_cons_of_neg (by simpa using hc)
    have e4 : (c :: Y).dropWhile (fun p => decide (p.off ≤ l.e)) = c :: Y :=
      List.dropWhile_cons_of_neg (by simpa using hc)
    simp only [e1, e2, e3, e4, List.append_nil, List.getLast?_concat]
    exact hstr

/-- under the contract, the two definitions agree exactly when there is no bad gap -/
theorem insertSpeedIdx_eq_iff (pts : List (Pt α)) (l : Lim α) (h : pre pts l = true) :
    insertSpeedIdx pts l = .ok (insertSpeed pts l) ↔ GapOK pts l := by
  refine ⟨?_, insertSpeedIdx_eq_of_gap pts l h⟩
  intro heq X Y a c hpts ha hc hm hac
  obtain ⟨h1, h2⟩ := insertSpeedIdx_ne_of_not_gap pts l h X Y a c hpts ha hc hm hac
  rw [h1, h2, hpts] at heq
  have := congrArg List.length (Res.ok.inj heq)
  simp at this

/-! ### strictly increasing offsets are preserved by restrictions of positive length -/

/-- offsets strictly increasing -/
abbrev StrictOff (l : List (Pt α)) : Prop := l.Pairwise (fun a b => a.off < b.off)

theorem StrictOff.sorted {l : List (Pt α)} (h : StrictOff l) : SortedOff l :=
  List.Pairwise.imp (fun h => le_of_lt h) h

section SplitStrict
variable {pts A B C : List (Pt α)} {l : Lim α} {pe : Pt α}

theorem split_strictB (S : Split pts l A B C pe) (hst : StrictOff pts) : StrictOff B := by
  have := hst; rw [S.eq] at this
  exact (List.pairwise_append.mp (List.pairwise_append.mp this).1).2.1

theorem split_startRaw_lt (S : Split pts l A B C pe) : ∀ q ∈ startRaw A B l, ∀ b ∈ B, l.s < b.off := by
  intro q hq b hb
  unfold startRaw at hq
  cases hA : A.getLast? with
  | none => rw [hA] at hq; simp at hq
  | some a =>
    rw [hA] at hq
    cases B with
    | nil => simp at hb
    | cons b0 B' =>
      simp only [List.head?_cons] at hq
      by_cases h : l.s < b0.off
      · rcases List.mem_cons.mp hb with rfl | hb'
        · exact h
        · exact lt_of_lt_of_le h ((List.pairwise_cons.mp S.sortedB).1 b hb')
      · rw [if_neg h] at hq; simp at hq

theorem split_bupd_lt (S : Split pts l A B C pe) (hst : StrictOff pts) :
    ∀ b ∈ bupd B pe l, b.off < l.e := by
  intro b hb
  unfold bupd at hb
  by_cases h : pe.off < l.e
  · rw [if_pos h] at hb
    exact lt_of_le_of_lt (sorted_le_last S.sortedAB S.last b (List.mem_append_right _ hb)) h
  · rw [if_neg h] at hb
    have he : pe.off = l.e := le_antisymm S.pe_le (not_lt.mp h)
    have hl := S.last
    rw [List.getLast?_append] at hl
    cases hB : B.getLast? with
    | none => rw [List.getLast?_eq_none_iff.mp hB] at hb; simp at hb
    | some b' =>
      rw [hB] at hl
      have hb' : b' = pe := by simpa using hl
      subst hb'
      have hD := List.dropLast_append_getLast? b' (by rw [hB]; rfl)
      have hsB := split_strictB S hst
      rw [← hD] at hsB
      rw [← he]
      exact (List.pairwise_append.mp hsB).2.2 b hb b' (by simp)

theorem split_cand_strict (S : Split pts l A B C pe) (hst : StrictOff pts) (hlt : l.s < l.e) :
    StrictOff (cand A B pe l) := by
  unfold cand
  rw [StrictOff, List.pairwise_append]
  refine ⟨?_, List.pairwise_singleton _ _, ?_⟩
  · rw [List.pairwise_map, List.pairwise_append]
    refine ⟨?_, (split_strictB S hst).sublist (Split.bupd_sub B pe l), ?_⟩
    · rcases startRaw_cases A B l with h | ⟨a, _, h⟩ <;> rw [h] <;> simp
    · intro a ha b hb
      show a.off < b.off
      rw [Split.startRaw_off A B l a ha]
      exact split_startRaw_lt S a ha b ((Split.bupd_sub B pe l).subset hb)
  · intro a ha b hb
    rw [List.mem_singleton.mp hb, S.tail_off]
    obtain ⟨a', ha', rfl⟩ := List.mem_map.mp ha
    show a'.off < l.e
    rcases List.mem_append.mp ha' with h | h
    · rw [Split.startRaw_off A B l a' h]; exact hlt
    · exact split_bupd_lt S hst a' h

theorem split_result_strict (S : Split pts l A B C pe) (hst : StrictOff pts) (hlt : l.s < l.e) :
    StrictOff (Split.result A B C pe l) := by
  unfold Split.result
  have hD : ∀ q ∈ dedup (lastSpd A) (cand A B pe l), q ∈ cand A B pe l :=
    fun q hq => (dedup_sublist _ _).subset hq
  have hst' := hst
  rw [S.eq] at hst'
  obtain ⟨hAB, hC, _⟩ := List.pairwise_append.mp hst'
  rw [StrictOff, List.pairwise_append, List.pairwise_append]
  refine ⟨⟨(List.pairwise_append.mp hAB).1, (split_cand_strict S hst hlt).sublist (dedup_sublist _ _), ?_⟩,
    hC, ?_⟩
  · intro a ha d hd
    exact lt_of_lt_of_le (S.hA a ha) (S.cand_ge d (hD d hd))
  · intro z hz c hc
    rcases List.mem_append.mp hz with h | h
    · exact lt_of_lt_of_le (S.hA z h) (le_trans S.le (le_of_lt (S.hC c hc)))
    · exact lt_of_le_of_lt (S.cand_le z (hD z h)) (S.hC c hc)

end SplitStrict

theorem strict_lt_last {pts : List (Pt α)} {last : Pt α} (hs : StrictOff pts)
    (hl : pts.getLast? = some last) : ∀ q ∈ pts.dropLast, q.off < last.off := by
  have h := List.dropLast_append_getLast? last (by rw [hl]; rfl)
  rw [← h] at hs
  intro q hq
  exact (List.pairwise_append.mp hs).2.2 q hq last (by simp)

/-- a restriction of positive length keeps the offsets strictly increasing -/
theorem insertSpeed_strict (pts : List (Pt α)) (l : Lim α) (hst : StrictOff pts) (hlt : l.s < l.e)
    (hhead : ∃ p ps, pts = p :: ps ∧ p.off ≤ l.s) : StrictOff (insertSpeed pts l) := by
  have hs := hst.sorted
  have hle := le_of_lt hlt
  obtain ⟨last, hl⟩ : ∃ last, pts.getLast? = some last := by
    obtain ⟨p, ps, rfl, _⟩ := hhead
    exact ⟨_, List.getLast?_cons⟩
  by_cases h : last.off ≤ l.s
  · have hDlt := strict_lt_last hst hl
    have hDs : StrictOff pts.dropLast := hst.sublist (List.dropLast_sublist _)
    rcases insertSpeed_tail_cases l hl h with ⟨he, hr⟩ | ⟨hne, hlt', hr⟩ |
      ⟨hne, heq, _, hr⟩ | ⟨hne, heq, hq, hr⟩ <;> rw [hr]
    · exact hst
    · rw [StrictOff, List.pairwise_append]
      refine ⟨hst, by simpa using hlt, ?_⟩
      intro a ha b hb
      have ha' := lt_of_le_of_lt (sorted_le_last hs hl a ha) hlt'
      simp only [List.mem_cons, List.not_mem_nil, or_false] at hb
      rcases hb with rfl | rfl
      · exact ha'
      · exact lt_trans ha' hlt
    · rw [StrictOff, List.pairwise_append]
      refine ⟨hDs, List.pairwise_singleton _ _, ?_⟩
      intro a ha b hb
      rw [List.mem_singleton.mp hb]
      exact lt_of_lt_of_le (hDlt a ha) (le_trans h hle)
    · rw [StrictOff, List.pairwise_append]
      refine ⟨hDs, by simpa using lt_of_le_of_lt h hlt, ?_⟩
      intro a ha b hb
      simp only [List.mem_cons, List.not_mem_nil, or_false] at hb
      rcases hb with rfl | rfl
      · exact hDlt a ha
      · exact lt_of_lt_of_le (hDlt a ha) (le_trans h hle)
  · rw [insertSpeed_general l hl h]
    obtain ⟨A, B, C, pe, S, hr⟩ := insertGeneral_split pts l hs hle hhead
    rw [hr]; exact split_result_strict S hst hlt

/-! ### re-establishing the Bool contract -/

theorem sortedOff_of (pts : List (Pt α)) (h : SortedOff pts) : sortedOff pts = true := by
  induction pts with
  | nil => rfl
  | cons a t ih =>
    cases t with
    | nil => rfl
    | cons b t =>
      have h' := List.pairwise_cons.mp h
      simp only [sortedOff, Bool.and_eq_true, decide_eq_true_eq]
      exact ⟨h'.1 b (by simp), ih h'.2⟩

theorem noTriple_of (pts : List (Pt α)) (h : StrictOff pts) : noTriple pts = true := by
  induction pts with
  | nil => rfl
  | cons a t ih =>
    have h' := List.pairwise_cons.mp h
    match t, ih, h' with
    | [], _, _ => rfl
    | [_], _, _ => rfl
    | b :: c :: t, ih, h' =>
      simp only [noTriple, Bool.and_eq_true, Bool.not_eq_true']
      refine ⟨?_, ih h'.2⟩
      rw [← Bool.not_eq_true, eqb_iff]
      exact ne_of_lt (h'.1 c (by simp))

/-- a strictly increasing list that starts at offset 0 satisfies the Bool contract for every
    well-formed restriction -/
theorem pre_of_strict (pts : List (Pt α)) (l : Lim α) (hst : StrictOff pts)
    (hhead : ∃ p ps, pts = p :: ps ∧ p.off = 0) (h0 : 0 ≤ l.s) (hle : l.s ≤ l.e) :
    pre pts l = true := by
  obtain ⟨p, ps, rfl, hp⟩ := hhead
  have hall : ∀ q ∈ p :: ps, 0 ≤ q.off := by
    intro q hq
    rcases List.mem_cons.mp hq with rfl | hq
    · exact le_of_eq hp.symm
    · exact hp ▸ le_of_lt ((List.pairwise_cons.mp hst).1 q hq)
  simp only [pre, Bool.and_eq_true, decide_eq_true_eq, List.all_eq_true]
  refine ⟨⟨⟨⟨⟨⟨⟨h0, le_trans h0 hle⟩, hle⟩, by simp⟩, hall⟩, sortedOff_of _ hst.sorted⟩,
    noTriple_of _ hst⟩, ?_⟩
  simp [hp, h0]

/-! ### the point the literal code drops in the gap case does not change the profile -/

theorem val_remove_dup (X Y : List (Pt α)) (a c : Pt α) (hle : a.off ≤ c.off)
    (hac : a.spd = c.spd) (x : α) : val (X ++ a :: Y) x = val (X ++ a :: c :: Y) x := by
  unfold val
  rw [valAt_append, valAt_append, valAt_cons, valAt_cons, valAt_cons]
  congr 1
  by_cases hc : c.off ≤ x
  · rw [if_pos hc, if_pos (le_trans hle hc), hac]
  · rw [if_neg hc]

/-! ### `GapOK` as a Bool (for generators and `decide`) -/

/-- some neighbours `a, c` straddle the restriction, carry the same speed, and the restriction
    does not bind on `a` -/
def gapBad (l : Lim α) : List (Pt α) → Bool
  | a :: c :: t =>
    (decide (a.off < l.s) && decide (l.e < c.off) && eqb (minSpeed a.spd l.v) a.spd &&
      eqb a.spd c.spd) || gapBad l (c :: t)
  | _ => false

theorem gapOK_iff (pts : List (Pt α)) (l : Lim α) : GapOK pts l ↔ gapBad l pts = false := by
  induction pts with
  | nil =>
    refine ⟨fun _ => rfl, fun _ X Y a c h => ?_⟩
    simp at h
  | cons a t ih =>
    cases t with
    | nil =>
      refine ⟨fun _ => rfl, fun _ X Y a' c h => ?_⟩
      have := congrArg List.length h
      simp at this
      omega
    | cons c t =>
      have hstep : GapOK (a :: c :: t) l ↔
          (a.off < l.s → l.e < c.off → minSpeed a.spd l.v = a.spd → a.spd ≠ c.spd) ∧
            GapOK (c :: t) l := by
        constructor
        · intro h
          refine ⟨h [] t a c rfl, ?_⟩
          intro X Y a' c' heq
          exact h (a :: X) Y a' c' (by rw [heq]; rfl)
        · rintro ⟨h1, h2⟩ X Y a' c' heq
          cases X with
          | nil =>
            simp only [List.nil_append, List.cons.injEq] at heq
            obtain ⟨rfl, rfl, _⟩ := heq
            exact h1
          | cons x X =>
            simp only [List.cons_append, List.cons.injEq] at heq
            exact h2 X Y a' c' heq.2
      rw [hstep, ih]
      simp only [gapBad, Bool.or_eq_false_iff, Bool.and_eq_false_iff, decide_eq_false_iff_not]
      constructor
      · rintro ⟨h1, h2⟩
        refine ⟨?_, h2⟩
        by_cases ha : a.off < l.s
        · by_cases hc : l.e < c.off
          · by_cases hm : minSpeed a.spd l.v = a.spd
            · right
              rw [← Bool.not_eq_true, eqb_iff]; exact h1 ha hc hm
            · left; right
              rw [← Bool.not_eq_true, eqb_iff]; exact hm
          · left; left; right; exact hc
        · left; left; left; exact ha
      · rintro ⟨h1, h2⟩
        refine ⟨?_, h2⟩
        intro ha hc hm hac
        rcases h1 with ((h | h) | h) | h
        · exact h ha
        · exact h hc
        · rw [← Bool.not_eq_true, eqb_iff] at h; exact h hm
        · rw [← Bool.not_eq_true, eqb_iff] at h; exact h hac

/-! ### the invariant `insert_speed` maintains on profiles built with restrictions of positive length -/

/-- strictly increasing offsets, first offset 0, no two neighbours with the same speed -/
structure Inv (pts : List (Pt α)) : Prop where
  strict : StrictOff pts
  head : ∃ p ps, pts = p :: ps ∧ p.off = 0
  chain : pts.IsChain (fun a b => a.spd ≠ b.spd)

theorem Inv.pre {pts : List (Pt α)} (h : Inv pts) (l : Lim α) (h0 : 0 ≤ l.s) (hle : l.s ≤ l.e) :
    pre pts l = true := pre_of_strict pts l h.strict h.head h0 hle

/-- one literal call on an invariant-satisfying list: no panic, structural result, invariant kept -/
theorem Inv.step {pts : List (Pt α)} (h : Inv pts) (l : Lim α) (h0 : 0 ≤ l.s) (hlt : l.s < l.e) :
    insertSpeedIdx pts l = .ok (insertSpeed pts l) ∧ Inv (insertSpeed pts l) := by
  have hle := le_of_lt hlt
  have hhead : ∃ p ps, pts = p :: ps ∧ p.off ≤ l.s := by
    obtain ⟨p, ps, hp, hp0⟩ := h.head
    exact ⟨p, ps, hp, hp0 ▸ h0⟩
  refine ⟨insertSpeedIdx_eq_of_gap pts l (h.pre l h0 hle) (gapOK_of_chain pts l h.chain),
    insertSpeed_strict pts l h.strict hlt hhead, ?_,
    insertSpeed_chain pts l h.strict.sorted hle hhead h.chain⟩
  obtain ⟨p, ps, hp, hp0⟩ := h.head
  obtain ⟨p', ps', e, ho⟩ := insertSpeed_head pts l h.strict.sorted hle hhead p ps hp
  exact ⟨p', ps', e, ho.trans hp0⟩

theorem Inv.init (vmax : α) : Inv [(⟨0, vmax⟩ : Pt α)] :=
  ⟨List.pairwise_singleton _ _, ⟨_, _, rfl, rfl⟩, List.isChain_singleton _⟩

/-- `PathTpc::add_speeds` over the literal `insert_speed` equals the structural one, never
    panics, and keeps the invariant (so the result chains link by link) -/
theorem addSpeedsIdx_eq (toU32 : α → Nat) (pts : List (Pt α)) (tp : TrainP α) (ps : List (SParam α))
    (isHeadEnd : Bool) (lims : List (Lim α)) (base : α) (h : Inv pts)
    (hl : ∀ l ∈ lims, l.v < tp.speedMax →
      0 ≤ (shiftLim base (lengthAdd tp isHeadEnd) l).s ∧
        (shiftLim base (lengthAdd tp isHeadEnd) l).s < (shiftLim base (lengthAdd tp isHeadEnd) l).e) :
    addSpeedsIdx toU32 pts tp ps isHeadEnd lims base =
        .ok (addSpeeds toU32 pts tp ps isHeadEnd lims base) ∧
      Inv (addSpeeds toU32 pts tp ps isHeadEnd lims base) := by
  unfold addSpeedsIdx addSpeeds
  split_ifs with happ
  · induction lims generalizing pts with
    | nil => exact ⟨rfl, h⟩
    | cons l ls ih =>
      rw [List.foldlM_cons, List.foldl_cons]
      by_cases hv : l.v < tp.speedMax
      · obtain ⟨h1, h2⟩ := hl l (by simp) hv
        obtain ⟨e1, i1⟩ := h.step _ h1 h2
        rw [if_pos hv, if_pos hv, e1, ok_bind]
        exact ih _ i1 (fun l' hl' => hl l' (by simp [hl']))
      · rw [if_neg hv, if_neg hv, pure_eq_ok, ok_bind]
        exact ih _ h (fun l' hl' => hl l' (by simp [hl']))
  · exact ⟨rfl, h⟩

end Altrios.Proofs.SPLit
