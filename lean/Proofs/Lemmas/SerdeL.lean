/-
  Helper lemmas for C17 (structural model of the serde codecs, Altrios/Serde.lean).
  Everything is parametric in the `Defaults` `D`.
-/
import Altrios.Serde

namespace Altrios.Proofs.SerdeL
open Altrios.Serde

/-! ## `Val.beq` is equality -/

mutual
theorem beq_eq : ∀ (a b : Val), Val.beq a b = true → a = b
  | .atom a, b, h => by cases b <;> simp [Val.beq] at h ⊢; exact h
  | .unit, b, h => by cases b <;> simp [Val.beq] at h ⊢
  | .none, b, h => by cases b <;> simp [Val.beq] at h ⊢
  | .some a, b, h => by
      cases b with
      | some b => simp only [Val.beq] at h; rw [beq_eq a b h]
      | _ => simp [Val.beq] at h
  | .seq a, b, h => by
      cases b with
      | seq b => simp only [Val.beq] at h; rw [beqL_eq a b h]
      | _ => simp [Val.beq] at h
  | .tuple a, b, h => by
      cases b with
      | tuple b => simp only [Val.beq] at h; rw [beqL_eq a b h]
      | _ => simp [Val.beq] at h
  | .variant i a, b, h => by
      cases b with
      | variant j b => simp [Val.beq] at h; rw [h.1, beq_eq a b h.2]
      | _ => simp [Val.beq] at h
theorem beqL_eq : ∀ (a b : List Val), Val.beqL a b = true → a = b
  | [], b, h => by cases b <;> simp [Val.beqL] at h ⊢
  | a :: as, b, h => by
      cases b with
      | nil => simp [Val.beqL] at h
      | cons b bs => simp [Val.beqL] at h; rw [beq_eq a b h.1, beqL_eq as bs h.2]
end

mutual
theorem beq_refl : ∀ (a : Val), Val.beq a a = true
  | .atom a => by simp [Val.beq]
  | .unit => by simp [Val.beq]
  | .none => by simp [Val.beq]
  | .some a => by simp only [Val.beq]; exact beq_refl a
  | .seq a => by simp only [Val.beq]; exact beqL_refl a
  | .tuple a => by simp only [Val.beq]; exact beqL_refl a
  | .variant i a => by simp [Val.beq]; exact beq_refl a
theorem beqL_refl : ∀ (a : List Val), Val.beqL a a = true
  | [] => by simp [Val.beqL]
  | a :: as => by simp [Val.beqL]; exact ⟨beq_refl a, beqL_refl as⟩
end

theorem beq_def (a b : Val) : (a == b) = Val.beq a b := rfl

instance : LawfulBEq Val where
  eq_of_beq h := beq_eq _ _ h
  rfl := beq_refl _

theorem beq_iff (a b : Val) : (a == b) = true ↔ a = b := beq_iff_eq

/-! ## small list facts -/

theorem mapM_map_some {α β γ : Type} (f : β → Option γ) (g : α → β) (h : α → γ) :
    ∀ (vs : List α), (∀ v ∈ vs, f (g v) = some (h v)) → (vs.map g).mapM f = some (vs.map h)
  | [], _ => by simp
  | v :: vs, hv => by
      have h1 := hv v (by simp)
      have h2 := mapM_map_some f g h vs (fun w hw => hv w (by simp [hw]))
      simp [List.mapM_cons, h1, h2]

/-- shape of a well-typed map entry -/
theorem entry_shape (P : Val → Bool) (e : Val)
    (h : (match e with | .tuple [.atom _, v] => P v | _ => false) = true) :
    ∃ k v, e = .tuple [.atom k, v] ∧ P v = true := by
  split at h
  · exact ⟨_, _, rfl, h⟩
  · simp at h

/-! ## `lookup` in the written field list -/

theorem lookup_append_none (k : String) :
    ∀ (l1 l2 : List (String × SVal)), lookup k l1 = none → lookup k (l1 ++ l2) = lookup k l2
  | [], _, _ => rfl
  | (k', v) :: r, l2, h => by
      simp only [lookup, List.cons_append] at h ⊢
      split at h
      · simp at h
      · rename_i hk; simp only [hk]; exact lookup_append_none k r l2 h

theorem lookup_snoc_none (k k' : String) (s : SVal) (l : List (String × SVal))
    (h : lookup k l = none) (hk : k' ≠ k) : lookup k (l ++ [(k', s)]) = none := by
  rw [lookup_append_none k l _ h]; simp [lookup, hk]

theorem lookup_enc_none (D : Defaults) (k : String) :
    ∀ (fs : Fields) (vs : List Val), k ∉ fieldKeys fs → lookup k (encSelfFields D fs vs) = none
  | .nil, _, _ => by simp [encSelfFields, lookup]
  | .cons _ _ _, [], _ => by simp [encSelfFields, lookup]
  | .cons a t r, v :: vs, h => by
      simp only [encSelfFields]
      simp only [fieldKeys] at h
      split
      · rename_i hc
        apply lookup_enc_none D k r vs
        cases hs : a.skip
        · simp [hs] at h; exact h.2
        · simpa [hs] using h
      · rename_i hc
        have hs : a.skip = false := by
          cases hs : a.skip
          · rfl
          · simp [hs] at hc
        simp [hs] at h
        simp only [lookup]
        have : (a.key == k) = false := by simp; exact fun e => h.1 e.symm
        simp only [this]
        exact lookup_enc_none D k r vs h.2

/-- what `decSelfFields` needs of the object `l` it searches, for the fields `fs` still to be read -/
def lookOK (D : Defaults) (l : List (String × SVal)) : Fields → List Val → Prop
  | .cons a t r, v :: vs =>
      (a.skip = false →
        lookup a.key l = if skipHit D a t v then none else some (encSelf D t v)) ∧ lookOK D l r vs
  | _, _ => True

theorem nodup_cons (x : String) (xs : List String) :
    nodup (x :: xs) = true ↔ x ∉ xs ∧ nodup xs = true := by
  simp [nodup]

/-- keys nodup ⇒ in the full written field list (`pre` = what the earlier fields wrote) every
    written field is found with its own encoding and every omitted one is not found -/
theorem lookOK_enc (D : Defaults) :
    ∀ (fs : Fields) (vs : List Val) (pre : List (String × SVal)),
      nodup (fieldKeys fs) = true → (∀ k ∈ fieldKeys fs, lookup k pre = none) →
      lookOK D (pre ++ encSelfFields D fs vs) fs vs
  | .nil, _, _, _, _ => by simp [lookOK]
  | .cons _ _ _, [], _, _, _ => by simp [lookOK]
  | .cons a t r, v :: vs, pre, hnd, hpre => by
      simp only [lookOK]
      cases hs : a.skip
      · -- a serialized field
        simp only [fieldKeys, hs, Bool.false_eq_true, if_false] at hnd hpre
        rw [nodup_cons] at hnd
        have hk : lookup a.key pre = none := hpre _ (by simp)
        cases hh : skipHit D a t v
        · -- written
          have henc : encSelfFields D (.cons a t r) (v :: vs)
              = (a.key, encSelf D t v) :: encSelfFields D r vs := by
            simp [encSelfFields, hs, hh]
          rw [henc]
          refine ⟨fun _ => ?_, ?_⟩
          · rw [lookup_append_none _ _ _ hk]; simp [lookup]
          · have : pre ++ (a.key, encSelf D t v) :: encSelfFields D r vs
                = (pre ++ [(a.key, encSelf D t v)]) ++ encSelfFields D r vs := by simp
            rw [this]
            apply lookOK_enc D r vs _ hnd.2
            intro k hkr
            apply lookup_snoc_none _ _ _ _ (hpre k (by simp [hkr]))
            intro e; subst e; exact hnd.1 hkr
        · -- omitted
          have henc : encSelfFields D (.cons a t r) (v :: vs) = encSelfFields D r vs := by
            simp [encSelfFields, hh]
          rw [henc]
          refine ⟨fun _ => ?_, ?_⟩
          · rw [lookup_append_none _ _ _ hk]; simp
            exact lookup_enc_none D _ r vs hnd.1
          · exact lookOK_enc D r vs pre hnd.2 (fun k hkr => hpre k (by simp [hkr]))
      · -- `skip`
        simp only [fieldKeys, hs, if_true] at hnd hpre
        have henc : encSelfFields D (.cons a t r) (v :: vs) = encSelfFields D r vs := by
          simp [encSelfFields, hs]
        rw [henc]
        exact ⟨fun h => by simp at h, lookOK_enc D r vs pre hnd hpre⟩

theorem lookOK_encSelfFields (D : Defaults) (fs : Fields) (vs : List Val)
    (h : nodup (fieldKeys fs) = true) : lookOK D (encSelfFields D fs vs) fs vs := by
  have := lookOK_enc D fs vs [] h (fun _ _ => rfl)
  simpa using this

/-! ## shape of an encoded enum value; non-nullable types never encode to `null` -/

theorem encVariant_shape (D : Defaults) :
    ∀ (vs : Variants) (i : Nat) (v : Val), fitsVariant vs i v = true →
      (∃ n, n ∈ variantNames vs ∧ encSelfVariant D vs i v = .atom n) ∨
      (∃ n p, n ∈ variantNames vs ∧ encSelfVariant D vs i v = .obj [(n, p)])
  | .nil, _, _, h => by simp [fitsVariant] at h
  | .unit n _, 0, _, _ => Or.inl ⟨n, by simp [variantNames], by simp [encSelfVariant]⟩
  | .newtype n t _, 0, v, _ =>
      Or.inr ⟨n, encSelf D t v, by simp [variantNames], by simp [encSelfVariant]⟩
  | .unit _ r, i + 1, v, h => by
      simp only [fitsVariant] at h
      simp only [encSelfVariant, variantNames]
      rcases encVariant_shape D r i v h with ⟨n, hn, e⟩ | ⟨n, p, hn, e⟩
      · exact Or.inl ⟨n, by simp [hn], e⟩
      · exact Or.inr ⟨n, p, by simp [hn], e⟩
  | .newtype _ _ r, i + 1, v, h => by
      simp only [fitsVariant] at h
      simp only [encSelfVariant, variantNames]
      rcases encVariant_shape D r i v h with ⟨n, hn, e⟩ | ⟨n, p, hn, e⟩
      · exact Or.inl ⟨n, by simp [hn], e⟩
      · exact Or.inr ⟨n, p, by simp [hn], e⟩

theorem enc_ne_null (D : Defaults) :
    ∀ (t : Ty) (v : Val), nullable t = false → fits t v = true → encSelf D t v ≠ .null
  | .atom _, v, _, h => by cases v <;> simp [fits, encSelf] at h ⊢
  | .unit, _, hn, _ => by simp [nullable] at hn
  | .opt _, _, hn, _ => by simp [nullable] at hn
  | .seq _, v, _, h => by cases v <;> simp [fits, encSelf] at h ⊢
  | .map _ _, v, _, h => by cases v <;> simp [fits, encSelf] at h ⊢
  | .tuple _, v, _, h => by cases v <;> simp [fits, encSelf] at h ⊢
  | .newtype _ t, v, hn, h => by
      simp only [nullable] at hn; simp only [fits] at h; simp only [encSelf]
      exact enc_ne_null D t v hn h
  | .struct _ _, v, _, h => by cases v <;> simp [fits, encSelf] at h ⊢
  | .enum _ vs, v, _, h => by
      cases v with
      | variant i v =>
        simp only [fits] at h; simp only [encSelf]
        rcases encVariant_shape D vs i v h with ⟨n, _, e⟩ | ⟨n, p, _, e⟩ <;> simp [e]
      | _ => simp [fits] at h

theorem decSelf_opt_of_ne_null (D : Defaults) (t : Ty) (s : SVal) (h : s ≠ .null) :
    decSelf D (.opt t) s = (decSelf D t s).map .some := by
  cases s <;> simp [decSelf] at h ⊢

/-- a hit field comes back, from the absent key, as the value it was equal to -/
theorem missing_of_hit (D : Defaults) (a : FieldAttr) (t : Ty) (v : Val)
    (hs : a.skip = false) (hok : fieldOK a t = true) (hh : skipHit D a t v = true) :
    missing D a t = some v := by
  unfold fieldOK at hok; unfold skipHit at hh; unfold missing
  simp only [hs, Bool.false_eq_true, if_false] at hok
  cases hsi : a.skipIf with
  | never => simp [hsi] at hh
  | eqDefault =>
    simp only [hsi] at hh hok
    have hv : v = dfl D t := by simpa using hh
    rcases (by simpa using hok : a.dflt = .std ∨ (a.dflt = .none ∧ isOpt t = true)) with hd | ⟨hd, ho⟩
    · simp [hd, hv]
    · cases t <;> simp [isOpt] at ho
      simp [hd, isOpt, hv, dfl]
  | isNone =>
    simp only [hsi] at hh hok
    have hv : v = .none := by simpa using hh
    have hok' : isOpt t = true ∧ (a.dflt = .std ∨ a.dflt = .none) := by simpa using hok
    obtain ⟨ho, hd | hd⟩ := hok'
    · cases t <;> simp [isOpt] at ho
      simp [hd, hv, dfl]
    · simp [hd, ho, hv]

/-! ## (1) the self-describing round trip -/

mutual
theorem selfRT (D : Defaults) : ∀ (t : Ty) (v : Val), wf t = true → fits t v = true →
    decSelf D t (encSelf D t v) = some (norm D t v)
  | .atom _, v, _, h => by cases v <;> simp [fits] at h; simp [encSelf, decSelf, norm]
  | .unit, v, _, h => by cases v <;> simp [fits] at h; simp [encSelf, decSelf, norm]
  | .opt t, v, hw, h => by
      cases v with
      | none => simp [encSelf, decSelf, norm]
      | some v =>
        simp only [wf, Bool.and_eq_true, Bool.not_eq_true'] at hw
        simp only [fits] at h
        simp only [encSelf, norm]
        rw [decSelf_opt_of_ne_null D t _ (enc_ne_null D t v hw.1 h), selfRT D t v hw.2 h]; rfl
      | _ => simp [fits] at h
  | .seq t, v, hw, h => by
      cases v with
      | seq vs =>
        simp only [wf] at hw
        simp only [fits, List.all_eq_true] at h
        simp only [encSelf, decSelf, norm]
        rw [mapM_map_some (decSelf D t) (encSelf D t) (norm D t) vs
          (fun v hv => selfRT D t v hw (h v hv))]; rfl
      | _ => simp [fits] at h
  | .map _ t, v, hw, h => by
      cases v with
      | seq es =>
        simp only [wf] at hw
        simp only [fits, List.all_eq_true] at h
        simp only [encSelf, decSelf, norm]
        rw [mapM_map_some _ _ (fun e => match e with
          | .tuple [.atom k, v] => Val.tuple [.atom k, norm D t v]
          | e => e) es ?_]; rfl
        intro e he
        obtain ⟨k, v, rfl, hf⟩ := entry_shape _ e (h e he)
        simp [selfRT D t v hw hf]
      | _ => simp [fits] at h
  | .tuple ts, v, hw, h => by
      cases v with
      | tuple vs =>
        simp only [wf] at hw; simp only [fits] at h
        simp only [encSelf, decSelf, norm]
        rw [selfRTTys D ts vs hw h]; rfl
      | _ => simp [fits] at h
  | .newtype _ t, v, hw, h => by
      simp only [wf] at hw; simp only [fits] at h
      simp only [encSelf, decSelf, norm]; exact selfRT D t v hw h
  | .struct _ fs, v, hw, h => by
      cases v with
      | tuple vs =>
        simp only [wf, Bool.and_eq_true] at hw; simp only [fits] at h
        simp only [encSelf, decSelf, norm]
        rw [selfRTFields D fs vs _ hw.1 h (lookOK_encSelfFields D fs vs hw.2)]; rfl
      | _ => simp [fits] at h
  | .enum _ vs, v, hw, h => by
      cases v with
      | variant i v =>
        simp only [wf, Bool.and_eq_true] at hw; simp only [fits] at h
        simp only [encSelf, decSelf, norm]
        rw [selfRTVariant D vs i v 0 hw.1 hw.2 h]; simp
      | _ => simp [fits] at h
theorem selfRTTys (D : Defaults) : ∀ (ts : Tys) (vs : List Val), wfTys ts = true →
    fitsTys ts vs = true → decSelfTys D ts (encSelfTys D ts vs) = some (normTys D ts vs)
  | .nil, vs, _, h => by
      cases vs <;> simp [fitsTys] at h; simp [encSelfTys, decSelfTys, normTys]
  | .cons t r, vs, hw, h => by
      cases vs with
      | nil => simp [fitsTys] at h
      | cons v vs =>
        simp only [wfTys, Bool.and_eq_true] at hw; simp only [fitsTys, Bool.and_eq_true] at h
        simp only [encSelfTys, decSelfTys, normTys, selfRT D t v hw.1 h.1,
          selfRTTys D r vs hw.2 h.2]
theorem selfRTFields (D : Defaults) : ∀ (fs : Fields) (vs : List Val) (l : List (String × SVal)),
    wfFields fs = true → fitsFields fs vs = true → lookOK D l fs vs →
    decSelfFields D fs l = some (normFields D fs vs)
  | .nil, vs, l, _, h, _ => by
      cases vs <;> simp [fitsFields] at h; simp [decSelfFields, normFields]
  | .cons a t r, vs, l, hw, h, hl => by
      cases vs with
      | nil => simp [fitsFields] at h
      | cons v vs =>
        simp only [wfFields, Bool.and_eq_true] at hw
        simp only [fitsFields, Bool.and_eq_true] at h
        simp only [lookOK] at hl
        have ih := selfRTFields D r vs l hw.2 h.2 hl.2
        simp only [decSelfFields, normFields, ih]
        cases hs : a.skip
        · have hlk := hl.1 hs
          cases hh : skipHit D a t v
          · simp [hh] at hlk; simp [hlk, selfRT D t v hw.1.2 h.1]
          · simp [hh] at hlk; simp [hlk, missing_of_hit D a t v hs hw.1.1 hh]
        · simp
theorem selfRTVariant (D : Defaults) : ∀ (vs : Variants) (i : Nat) (v : Val) (i0 : Nat),
    wfVariants vs = true → nodup (variantNames vs) = true → fitsVariant vs i v = true →
    decSelfVariant D vs i0 (encSelfVariant D vs i v)
      = some (.variant (i0 + i) (normVariant D vs i v))
  | .nil, _, _, _, _, _, h => by simp [fitsVariant] at h
  | .unit n r, 0, v, i0, _, _, h => by
      simp only [fitsVariant] at h
      have : v = .unit := by simpa using h
      simp [encSelfVariant, decSelfVariant, normVariant, this]
  | .newtype n t r, 0, v, i0, hw, _, h => by
      simp only [fitsVariant] at h; simp only [wfVariants, Bool.and_eq_true] at hw
      simp [encSelfVariant, decSelfVariant, normVariant, selfRT D t v hw.1 h]
  | .unit n r, i + 1, v, i0, hw, hnd, h => by
      simp only [fitsVariant] at h; simp only [wfVariants] at hw
      simp only [variantNames] at hnd; rw [nodup_cons] at hnd
      have ih := selfRTVariant D r i v (i0 + 1) hw hnd.2 h
      simp only [encSelfVariant, normVariant]
      rcases encVariant_shape D r i v h with ⟨m, hm, e⟩ | ⟨m, p, hm, e⟩
      · rw [e] at ih ⊢
        have hne : (m == n) = false := by simp; intro e; subst e; exact hnd.1 hm
        simp only [decSelfVariant, hne]; rw [ih, show i0 + 1 + i = i0 + (i + 1) by omega]; simp
      · rw [e] at ih ⊢
        simp only [decSelfVariant]; rw [ih, show i0 + 1 + i = i0 + (i + 1) by omega]
  | .newtype n t r, i + 1, v, i0, hw, hnd, h => by
      simp only [fitsVariant] at h; simp only [wfVariants, Bool.and_eq_true] at hw
      simp only [variantNames] at hnd; rw [nodup_cons] at hnd
      have ih := selfRTVariant D r i v (i0 + 1) hw.2 hnd.2 h
      simp only [encSelfVariant, normVariant]
      rcases encVariant_shape D r i v h with ⟨m, hm, e⟩ | ⟨m, p, hm, e⟩
      · rw [e] at ih ⊢
        simp only [decSelfVariant]; rw [ih, show i0 + 1 + i = i0 + (i + 1) by omega]
      · rw [e] at ih ⊢
        have hne : (m == n) = false := by simp; intro e; subst e; exact hnd.1 hm
        simp only [decSelfVariant, hne]; rw [ih, show i0 + 1 + i = i0 + (i + 1) by omega]; simp
end

end Altrios.Proofs.SerdeL
