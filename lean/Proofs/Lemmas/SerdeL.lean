/-
  Helper lemmas for C17 (structural model of the serde codecs, Altrios/Serde.lean).
  Everything is parametric in the `Defaults` `D`.
-/
import Altrios.Serde

namespace Altrios.Proofs.SerdeL
open Altrios.Serde

/-! ## `Val.beq` is equality -/

mutual
theorem beq_eq : ∀ (a b : Val), Val.beq a b = true → a = b
  | .atom a, b, h => by cases b <;> simp [Val.beq] at h ⊢; exact h
  | .unit, b, h => by cases b <;> simp [Val.beq] at h ⊢
  | .none, b, h => by cases b <;> simp [Val.beq] at h ⊢
  | .some a, b, h => by
      cases b with
      | some b => simp only [Val.beq] at h; rw [beq_eq a b h]
      | _ => simp [Val.beq] at h
  | .seq a, b, h => by
      cases b with
      | seq b => simp only [Val.beq] at h; rw [beqL_eq a b h]
      | _ => simp [Val.beq] at h
  | .tuple a, b, h => by
      cases b with
      | tuple b => simp only [Val.beq] at h; rw [beqL_eq a b h]
      | _ => simp [Val.beq] at h
  | .variant i a, b, h => by
      cases b with
      | variant j b => simp [Val.beq] at h; rw [h.1, beq_eq a b h.2]
      | _ => simp [Val.beq] at h
theorem beqL_eq : ∀ (a b : List Val), Val.beqL a b = true → a = b
  | [], b, h => by cases b <;> simp [Val.beqL] at h ⊢
  | a :: as, b, h => by
      cases b with
      | nil => simp [Val.beqL] at h
      | cons b bs => simp [Val.beqL] at h; rw [beq_eq a b h.1, beqL_eq as bs h.2]
end

mutual
theorem beq_refl : ∀ (a : Val), Val.beq a a = true
  | .atom a => by simp [Val.beq]
  | .unit => by simp [Val.beq]
  | .none => by simp [Val.beq]
  | .some a => by simp only [Val.beq]; exact beq_refl a
  | .seq a => by simp only [Val.beq]; exact beqL_refl a
  | .tuple a => by simp only [Val.beq]; exact beqL_refl a
  | .variant i a => by simp [Val.beq]; exact beq_refl a
theorem beqL_refl : ∀ (a : List Val), Val.beqL a a = true
  | [] => by simp [Val.beqL]
  | a :: as => by simp [Val.beqL]; exact ⟨beq_refl a, beqL_refl as⟩
end

theorem beq_def (a b : Val) : (a == b) = Val.beq a b := rfl

instance : LawfulBEq Val where
  eq_of_beq h := beq_eq _ _ h
  rfl := beq_refl _

theorem beq_iff (a b : Val) : (a == b) = true ↔ a = b := beq_iff_eq

/-- decidable equality through the model's own `Val.beq` (for `decide` in the examples) -/
instance : DecidableEq Val := fun a b => decidable_of_iff _ (beq_iff a b)

/-! ## small list facts -/

theorem mapM_map_some {α β γ : Type} (f : β → Option γ) (g : α → β) (h : α → γ) :
    ∀ (vs : List α), (∀ v ∈ vs, f (g v) = some (h v)) → (vs.map g).mapM f = some (vs.map h)
  | [], _ => by simp
  | v :: vs, hv => by
      have h1 := hv v (by simp)
      have h2 := mapM_map_some f g h vs (fun w hw => hv w (by simp [hw]))
      simp [List.mapM_cons, h1, h2]

/-- shape of a well-typed map entry -/
theorem entry_shape (P : Val → Bool) (e : Val)
    (h : (match e with | .tuple [.atom _, v] => P v | _ => false) = true) :
    ∃ k v, e = .tuple [.atom k, v] ∧ P v = true := by
  split at h
  · exact ⟨_, _, rfl, h⟩
  · simp at h

/-! ## `lookup` in the written field list -/

theorem lookup_append_none (k : String) :
    ∀ (l1 l2 : List (String × SVal)), lookup k l1 = none → lookup k (l1 ++ l2) = lookup k l2
  | [], _, _ => rfl
  | (k', v) :: r, l2, h => by
      simp only [lookup, List.cons_append] at h ⊢
      split at h
      · simp at h
      · rename_i hk; simp only [hk]; exact lookup_append_none k r l2 h

theorem lookup_snoc_none (k k' : String) (s : SVal) (l : List (String × SVal))
    (h : lookup k l = none) (hk : k' ≠ k) : lookup k (l ++ [(k', s)]) = none := by
  rw [lookup_append_none k l _ h]; simp [lookup, hk]

theorem lookup_enc_none (D : Defaults) (k : String) :
    ∀ (fs : Fields) (vs : List Val), k ∉ fieldKeys fs → lookup k (encSelfFields D fs vs) = none
  | .nil, _, _ => by simp [encSelfFields, lookup]
  | .cons _ _ _, [], _ => by simp [encSelfFields, lookup]
  | .cons a t r, v :: vs, h => by
      simp only [encSelfFields]
      simp only [fieldKeys] at h
      split
      · rename_i hc
        apply lookup_enc_none D k r vs
        cases hs : a.skip
        · simp [hs] at h; exact h.2
        · simpa [hs] using h
      · rename_i hc
        have hs : a.skip = false := by
          cases hs : a.skip
          · rfl
          · simp [hs] at hc
        simp [hs] at h
        simp only [lookup]
        have : (a.key == k) = false := by simp; exact fun e => h.1 e.symm
        simp only [this]
        exact lookup_enc_none D k r vs h.2

/-- what `decSelfFields` needs of the object `l` it searches, for the fields `fs` still to be read -/
def lookOK (D : Defaults) (l : List (String × SVal)) : Fields → List Val → Prop
  | .cons a t r, v :: vs =>
      (a.skip = false →
        lookup a.key l = if skipHit D a t v then none else some (encSelf D t v)) ∧ lookOK D l r vs
  | _, _ => True

theorem nodup_cons (x : String) (xs : List String) :
    nodup (x :: xs) = true ↔ x ∉ xs ∧ nodup xs = true := by
  simp [nodup]

/-- keys nodup ⇒ in the full written field list (`pre` = what the earlier fields wrote) every
    written field is found with its own encoding and every omitted one is not found -/
theorem lookOK_enc (D : Defaults) :
    ∀ (fs : Fields) (vs : List Val) (pre : List (String × SVal)),
      nodup (fieldKeys fs) = true → (∀ k ∈ fieldKeys fs, lookup k pre = none) →
      lookOK D (pre ++ encSelfFields D fs vs) fs vs
  | .nil, _, _, _, _ => by simp [lookOK]
  | .cons _ _ _, [], _, _, _ => by simp [lookOK]
  | .cons a t r, v :: vs, pre, hnd, hpre => by
      simp only [lookOK]
      cases hs : a.skip
      · -- a serialized field
        simp only [fieldKeys, hs, Bool.false_eq_true, if_false] at hnd hpre
        rw [nodup_cons] at hnd
        have hk : lookup a.key pre = none := hpre _ (by simp)
        cases hh : skipHit D a t v
        · -- written
          have henc : encSelfFields D (.cons a t r) (v :: vs)
              = (a.key, encSelf D t v) :: encSelfFields D r vs := by
            simp [encSelfFields, hs, hh]
          rw [henc]
          refine ⟨fun _ => ?_, ?_⟩
          · rw [lookup_append_none _ _ _ hk]; simp [lookup]
          · have : pre ++ (a.key, encSelf D t v) :: encSelfFields D r vs
                = (pre ++ [(a.key, encSelf D t v)]) ++ encSelfFields D r vs := by simp
            rw [this]
            apply lookOK_enc D r vs _ hnd.2
            intro k hkr
            apply lookup_snoc_none _ _ _ _ (hpre k (by simp [hkr]))
            intro e; subst e; exact hnd.1 hkr
        · -- omitted
          have henc : encSelfFields D (.cons a t r) (v :: vs) = encSelfFields D r vs := by
            simp [encSelfFields, hh]
          rw [henc]
          refine ⟨fun _ => ?_, ?_⟩
          · rw [lookup_append_none _ _ _ hk]; simp
            exact lookup_enc_none D _ r vs hnd.1
          · exact lookOK_enc D r vs pre hnd.2 (fun k hkr => hpre k (by simp [hkr]))
      · -- `skip`
        simp only [fieldKeys, hs, if_true] at hnd hpre
        have henc : encSelfFields D (.cons a t r) (v :: vs) = encSelfFields D r vs := by
          simp [encSelfFields, hs]
        rw [henc]
        exact ⟨fun h => by simp at h, lookOK_enc D r vs pre hnd hpre⟩

theorem lookOK_encSelfFields (D : Defaults) (fs : Fields) (vs : List Val)
    (h : nodup (fieldKeys fs) = true) : lookOK D (encSelfFields D fs vs) fs vs := by
  have := lookOK_enc D fs vs [] h (fun _ _ => rfl)
  simpa using this

/-! ## typing that does not look at `#[serde(skip)]` fields

The codecs never read or write the value of a `skip` field, so the self-describing round trip
holds of every value that is well typed EXCEPT possibly inside `skip` fields (`fitsW`).  This is
what makes the second round trip unconditional in the `Default` impls. -/

mutual
def fitsW : Ty → Val → Bool
  | .atom _, .atom _ => true
  | .unit, .unit => true
  | .opt _, .none => true
  | .opt t, .some v => fitsW t v
  | .seq t, .seq vs => vs.all (fitsW t)
  | .map _ t, .seq es => es.all (fun e => match e with
      | .tuple [.atom _, v] => fitsW t v
      | _ => false)
  | .tuple ts, .tuple vs => fitsWTys ts vs
  | .newtype _ t, v => fitsW t v
  | .struct _ fs, .tuple vs => fitsWFields fs vs
  | .enum _ vs, .variant i v => fitsWVariant vs i v
  | _, _ => false
def fitsWTys : Tys → List Val → Bool
  | .nil, [] => true
  | .cons t r, v :: vs => fitsW t v && fitsWTys r vs
  | _, _ => false
def fitsWFields : Fields → List Val → Bool
  | .nil, [] => true
  | .cons a t r, v :: vs => (a.skip || fitsW t v) && fitsWFields r vs
  | _, _ => false
def fitsWVariant : Variants → Nat → Val → Bool
  | .nil, _, _ => false
  | .unit _ _, 0, v => v == .unit
  | .newtype _ t _, 0, v => fitsW t v
  | .unit _ r, i + 1, v => fitsWVariant r i v
  | .newtype _ _ r, i + 1, v => fitsWVariant r i v
end

mutual
theorem fits_fitsW : ∀ (t : Ty) (v : Val), fits t v = true → fitsW t v = true
  | .atom _, v, h => by cases v <;> simp [fits] at h; simp [fitsW]
  | .unit, v, h => by cases v <;> simp [fits] at h; simp [fitsW]
  | .opt t, v, h => by
      cases v with
      | none => simp [fitsW]
      | some v => simp only [fits] at h; simp only [fitsW]; exact fits_fitsW t v h
      | _ => simp [fits] at h
  | .seq t, v, h => by
      cases v with
      | seq vs =>
        simp only [fits, List.all_eq_true] at h
        simp only [fitsW, List.all_eq_true]
        exact fun w hw => fits_fitsW t w (h w hw)
      | _ => simp [fits] at h
  | .map _ t, v, h => by
      cases v with
      | seq es =>
        simp only [fits, List.all_eq_true] at h
        simp only [fitsW, List.all_eq_true]
        intro e he
        obtain ⟨k, w, rfl, hf⟩ := entry_shape _ e (h e he)
        exact fits_fitsW t w hf
      | _ => simp [fits] at h
  | .tuple ts, v, h => by
      cases v with
      | tuple vs => simp only [fits] at h; simp only [fitsW]; exact fitsTys_fitsW ts vs h
      | _ => simp [fits] at h
  | .newtype _ t, v, h => by simp only [fits] at h; simp only [fitsW]; exact fits_fitsW t v h
  | .struct _ fs, v, h => by
      cases v with
      | tuple vs => simp only [fits] at h; simp only [fitsW]; exact fitsFields_fitsW fs vs h
      | _ => simp [fits] at h
  | .enum _ vs, v, h => by
      cases v with
      | variant i v => simp only [fits] at h; simp only [fitsW]; exact fitsVariant_fitsW vs i v h
      | _ => simp [fits] at h
theorem fitsTys_fitsW : ∀ (ts : Tys) (vs : List Val), fitsTys ts vs = true →
    fitsWTys ts vs = true
  | .nil, vs, h => by cases vs <;> simp [fitsTys] at h; simp [fitsWTys]
  | .cons _ _, [], h => by simp [fitsTys] at h
  | .cons t r, v :: vs, h => by
      simp only [fitsTys, Bool.and_eq_true] at h
      simp only [fitsWTys, Bool.and_eq_true]
      exact ⟨fits_fitsW t v h.1, fitsTys_fitsW r vs h.2⟩
theorem fitsFields_fitsW : ∀ (fs : Fields) (vs : List Val), fitsFields fs vs = true →
    fitsWFields fs vs = true
  | .nil, vs, h => by cases vs <;> simp [fitsFields] at h; simp [fitsWFields]
  | .cons _ _ _, [], h => by simp [fitsFields] at h
  | .cons a t r, v :: vs, h => by
      simp only [fitsFields, Bool.and_eq_true] at h
      simp only [fitsWFields, Bool.and_eq_true, Bool.or_eq_true]
      exact ⟨Or.inr (fits_fitsW t v h.1), fitsFields_fitsW r vs h.2⟩
theorem fitsVariant_fitsW : ∀ (vs : Variants) (i : Nat) (v : Val), fitsVariant vs i v = true →
    fitsWVariant vs i v = true
  | .nil, _, _, h => by simp [fitsVariant] at h
  | .unit _ _, 0, _, h => by simpa [fitsVariant, fitsWVariant] using h
  | .newtype _ t _, 0, v, h => by
      simp only [fitsVariant] at h; simp only [fitsWVariant]; exact fits_fitsW t v h
  | .unit _ r, i + 1, v, h => by
      simp only [fitsVariant] at h; simp only [fitsWVariant]; exact fitsVariant_fitsW r i v h
  | .newtype _ _ r, i + 1, v, h => by
      simp only [fitsVariant] at h; simp only [fitsWVariant]; exact fitsVariant_fitsW r i v h
end

/-! ## shape of an encoded enum value; non-nullable types never encode to `null` -/

theorem encVariant_shape (D : Defaults) :
    ∀ (vs : Variants) (i : Nat) (v : Val), fitsWVariant vs i v = true →
      (∃ n, n ∈ variantNames vs ∧ encSelfVariant D vs i v = .atom n) ∨
      (∃ n p, n ∈ variantNames vs ∧ encSelfVariant D vs i v = .obj [(n, p)])
  | .nil, _, _, h => by simp [fitsWVariant] at h
  | .unit n _, 0, _, _ => Or.inl ⟨n, by simp [variantNames], by simp [encSelfVariant]⟩
  | .newtype n t _, 0, v, _ =>
      Or.inr ⟨n, encSelf D t v, by simp [variantNames], by simp [encSelfVariant]⟩
  | .unit _ r, i + 1, v, h => by
      simp only [fitsWVariant] at h
      simp only [encSelfVariant, variantNames]
      rcases encVariant_shape D r i v h with ⟨n, hn, e⟩ | ⟨n, p, hn, e⟩
      · exact Or.inl ⟨n, by simp [hn], e⟩
      · exact Or.inr ⟨n, p, by simp [hn], e⟩
  | .newtype _ _ r, i + 1, v, h => by
      simp only [fitsWVariant] at h
      simp only [encSelfVariant, variantNames]
      rcases encVariant_shape D r i v h with ⟨n, hn, e⟩ | ⟨n, p, hn, e⟩
      · exact Or.inl ⟨n, by simp [hn], e⟩
      · exact Or.inr ⟨n, p, by simp [hn], e⟩

theorem enc_ne_null (D : Defaults) :
    ∀ (t : Ty) (v : Val), nullable t = false → fitsW t v = true → encSelf D t v ≠ .null
  | .atom _, v, _, h => by cases v <;> simp [fitsW, encSelf] at h ⊢
  | .unit, _, hn, _ => by simp [nullable] at hn
  | .opt _, _, hn, _ => by simp [nullable] at hn
  | .seq _, v, _, h => by cases v <;> simp [fitsW, encSelf] at h ⊢
  | .map _ _, v, _, h => by cases v <;> simp [fitsW, encSelf] at h ⊢
  | .tuple _, v, _, h => by cases v <;> simp [fitsW, encSelf] at h ⊢
  | .newtype _ t, v, hn, h => by
      simp only [nullable] at hn; simp only [fitsW] at h; simp only [encSelf]
      exact enc_ne_null D t v hn h
  | .struct _ _, v, _, h => by cases v <;> simp [fitsW, encSelf] at h ⊢
  | .enum _ vs, v, _, h => by
      cases v with
      | variant i v =>
        simp only [fitsW] at h; simp only [encSelf]
        rcases encVariant_shape D vs i v h with ⟨n, _, e⟩ | ⟨n, p, _, e⟩ <;> simp [e]
      | _ => simp [fitsW] at h

theorem decSelf_opt_of_ne_null (D : Defaults) (t : Ty) (s : SVal) (h : s ≠ .null) :
    decSelf D (.opt t) s = (decSelf D t s).map .some := by
  cases s <;> simp [decSelf] at h ⊢

/-- a hit field comes back, from the absent key, as the value it was equal to -/
theorem missing_of_hit (D : Defaults) (a : FieldAttr) (t : Ty) (v : Val)
    (hs : a.skip = false) (hok : fieldOK a t = true) (hh : skipHit D a t v = true) :
    missing D a t = some v := by
  unfold fieldOK at hok; unfold skipHit at hh; unfold missing
  simp only [hs, Bool.false_eq_true, if_false] at hok
  cases hsi : a.skipIf with
  | never => simp [hsi] at hh
  | eqDefault =>
    simp only [hsi] at hh hok
    have hv : v = dfl D t := by simpa using hh
    rcases (by simpa using hok : a.dflt = .std ∨ (a.dflt = .none ∧ isOpt t = true)) with hd | ⟨hd, ho⟩
    · simp [hd, hv]
    · cases t <;> simp [isOpt] at ho
      simp [hd, isOpt, hv, dfl]
  | isNone =>
    simp only [hsi] at hh hok
    have hv : v = .none := by simpa using hh
    have hok' : isOpt t = true ∧ (a.dflt = .std ∨ a.dflt = .none) := by simpa using hok
    obtain ⟨ho, hd | hd⟩ := hok'
    · cases t <;> simp [isOpt] at ho
      simp [hd, hv, dfl]
    · simp [hd, ho, hv]

/-! ## (1) the self-describing round trip -/

mutual
theorem selfRTW (D : Defaults) : ∀ (t : Ty) (v : Val), wf t = true → fitsW t v = true →
    decSelf D t (encSelf D t v) = some (norm D t v)
  | .atom _, v, _, h => by cases v <;> simp [fitsW] at h; simp [encSelf, decSelf, norm]
  | .unit, v, _, h => by cases v <;> simp [fitsW] at h; simp [encSelf, decSelf, norm]
  | .opt t, v, hw, h => by
      cases v with
      | none => simp [encSelf, decSelf, norm]
      | some v =>
        simp only [wf, Bool.and_eq_true, Bool.not_eq_true'] at hw
        simp only [fitsW] at h
        simp only [encSelf, norm]
        rw [decSelf_opt_of_ne_null D t _ (enc_ne_null D t v hw.1 h), selfRTW D t v hw.2 h]; rfl
      | _ => simp [fitsW] at h
  | .seq t, v, hw, h => by
      cases v with
      | seq vs =>
        simp only [wf] at hw
        simp only [fitsW, List.all_eq_true] at h
        simp only [encSelf, decSelf, norm]
        rw [mapM_map_some (decSelf D t) (encSelf D t) (norm D t) vs
          (fun v hv => selfRTW D t v hw (h v hv))]; rfl
      | _ => simp [fitsW] at h
  | .map _ t, v, hw, h => by
      cases v with
      | seq es =>
        simp only [wf] at hw
        simp only [fitsW, List.all_eq_true] at h
        simp only [encSelf, decSelf, norm]
        rw [mapM_map_some _ _ (fun e => match e with
          | .tuple [.atom k, v] => Val.tuple [.atom k, norm D t v]
          | e => e) es ?_]; rfl
        intro e he
        obtain ⟨k, v, rfl, hf⟩ := entry_shape _ e (h e he)
        simp [selfRTW D t v hw hf]
      | _ => simp [fitsW] at h
  | .tuple ts, v, hw, h => by
      cases v with
      | tuple vs =>
        simp only [wf] at hw; simp only [fitsW] at h
        simp only [encSelf, decSelf, norm]
        rw [selfRTWTys D ts vs hw h]; rfl
      | _ => simp [fitsW] at h
  | .newtype _ t, v, hw, h => by
      simp only [wf] at hw; simp only [fitsW] at h
      simp only [encSelf, decSelf, norm]; exact selfRTW D t v hw h
  | .struct _ fs, v, hw, h => by
      cases v with
      | tuple vs =>
        simp only [wf, Bool.and_eq_true] at hw; simp only [fitsW] at h
        simp only [encSelf, decSelf, norm]
        rw [selfRTWFields D fs vs _ hw.1 h (lookOK_encSelfFields D fs vs hw.2)]; rfl
      | _ => simp [fitsW] at h
  | .enum _ vs, v, hw, h => by
      cases v with
      | variant i v =>
        simp only [wf, Bool.and_eq_true] at hw; simp only [fitsW] at h
        simp only [encSelf, decSelf, norm]
        rw [selfRTWVariant D vs i v 0 hw.1 hw.2 h]; simp
      | _ => simp [fitsW] at h
theorem selfRTWTys (D : Defaults) : ∀ (ts : Tys) (vs : List Val), wfTys ts = true →
    fitsWTys ts vs = true → decSelfTys D ts (encSelfTys D ts vs) = some (normTys D ts vs)
  | .nil, vs, _, h => by
      cases vs <;> simp [fitsWTys] at h; simp [encSelfTys, decSelfTys, normTys]
  | .cons t r, vs, hw, h => by
      cases vs with
      | nil => simp [fitsWTys] at h
      | cons v vs =>
        simp only [wfTys, Bool.and_eq_true] at hw; simp only [fitsWTys, Bool.and_eq_true] at h
        simp only [encSelfTys, decSelfTys, normTys, selfRTW D t v hw.1 h.1,
          selfRTWTys D r vs hw.2 h.2]
theorem selfRTWFields (D : Defaults) : ∀ (fs : Fields) (vs : List Val) (l : List (String × SVal)),
    wfFields fs = true → fitsWFields fs vs = true → lookOK D l fs vs →
    decSelfFields D fs l = some (normFields D fs vs)
  | .nil, vs, l, _, h, _ => by
      cases vs <;> simp [fitsWFields] at h; simp [decSelfFields, normFields]
  | .cons a t r, vs, l, hw, h, hl => by
      cases vs with
      | nil => simp [fitsWFields] at h
      | cons v vs =>
        simp only [wfFields, Bool.and_eq_true] at hw
        simp only [fitsWFields, Bool.and_eq_true] at h
        simp only [lookOK] at hl
        have ih := selfRTWFields D r vs l hw.2 h.2 hl.2
        simp only [decSelfFields, normFields, ih]
        cases hs : a.skip
        · have hlk := hl.1 hs
          have hf : fitsW t v = true := by simpa [hs] using h.1
          cases hh : skipHit D a t v
          · simp [hh] at hlk; simp [hlk, selfRTW D t v hw.1.2 hf]
          · simp [hh] at hlk; simp [hlk, missing_of_hit D a t v hs hw.1.1 hh]
        · simp
theorem selfRTWVariant (D : Defaults) : ∀ (vs : Variants) (i : Nat) (v : Val) (i0 : Nat),
    wfVariants vs = true → nodup (variantNames vs) = true → fitsWVariant vs i v = true →
    decSelfVariant D vs i0 (encSelfVariant D vs i v)
      = some (.variant (i0 + i) (normVariant D vs i v))
  | .nil, _, _, _, _, _, h => by simp [fitsWVariant] at h
  | .unit n r, 0, v, i0, _, _, h => by
      simp only [fitsWVariant] at h
      have : v = .unit := by simpa using h
      simp [encSelfVariant, decSelfVariant, normVariant, this]
  | .newtype n t r, 0, v, i0, hw, _, h => by
      simp only [fitsWVariant] at h; simp only [wfVariants, Bool.and_eq_true] at hw
      simp [encSelfVariant, decSelfVariant, normVariant, selfRTW D t v hw.1 h]
  | .unit n r, i + 1, v, i0, hw, hnd, h => by
      simp only [fitsWVariant] at h; simp only [wfVariants] at hw
      simp only [variantNames] at hnd; rw [nodup_cons] at hnd
      have ih := selfRTWVariant D r i v (i0 + 1) hw hnd.2 h
      simp only [encSelfVariant, normVariant]
      rcases encVariant_shape D r i v h with ⟨m, hm, e⟩ | ⟨m, p, hm, e⟩
      · rw [e] at ih ⊢
        have hne : (m == n) = false := by simp; intro e; subst e; exact hnd.1 hm
        simp only [decSelfVariant, hne]; rw [ih, show i0 + 1 + i = i0 + (i + 1) by omega]; simp
      · rw [e] at ih ⊢
        simp only [decSelfVariant]; rw [ih, show i0 + 1 + i = i0 + (i + 1) by omega]
  | .newtype n t r, i + 1, v, i0, hw, hnd, h => by
      simp only [fitsWVariant] at h; simp only [wfVariants, Bool.and_eq_true] at hw
      simp only [variantNames] at hnd; rw [nodup_cons] at hnd
      have ih := selfRTWVariant D r i v (i0 + 1) hw.2 hnd.2 h
      simp only [encSelfVariant, normVariant]
      rcases encVariant_shape D r i v h with ⟨m, hm, e⟩ | ⟨m, p, hm, e⟩
      · rw [e] at ih ⊢
        simp only [decSelfVariant]; rw [ih, show i0 + 1 + i = i0 + (i + 1) by omega]
      · rw [e] at ih ⊢
        have hne : (m == n) = false := by simp; intro e; subst e; exact hnd.1 hm
        simp only [decSelfVariant, hne]; rw [ih, show i0 + 1 + i = i0 + (i + 1) by omega]; simp
end

/-- (1) for the model's own typing predicate -/
theorem selfRT (D : Defaults) (t : Ty) (v : Val) (hw : wf t = true) (hf : fits t v = true) :
    decSelf D t (encSelf D t v) = some (norm D t v) :=
  selfRTW D t v hw (fits_fitsW t v hf)

/-! ## (2) `norm` is idempotent -/

theorem normEntry_idem (f : Val → Val) (hf : ∀ v, f (f v) = f v) (e : Val) :
    (match (match e with | .tuple [.atom k, v] => Val.tuple [.atom k, f v] | e => e) with
      | .tuple [.atom k, v] => Val.tuple [.atom k, f v] | e => e)
    = (match e with | .tuple [.atom k, v] => Val.tuple [.atom k, f v] | e => e) := by
  by_cases h : ∃ k v, e = .tuple [.atom k, v]
  · obtain ⟨k, v, rfl⟩ := h; simp [hf]
  · have : (match (generalizing := false) e with
        | .tuple [.atom k, v] => Val.tuple [.atom k, f v] | e => e) = e := by
      split
      · exact absurd ⟨_, _, rfl⟩ h
      · rfl
    rw [this, this]

mutual
theorem norm_idem (D : Defaults) : ∀ (t : Ty) (v : Val), norm D t (norm D t v) = norm D t v
  | .atom _, v => by cases v <;> simp [norm]
  | .unit, v => by cases v <;> simp [norm]
  | .opt t, v => by cases v <;> simp [norm, norm_idem D t]
  | .seq t, v => by cases v <;> simp [norm, norm_idem D t]
  | .map _ t, v => by
      cases v with
      | seq es =>
        simp only [norm, List.map_map]
        congr 1
        apply List.map_congr_left
        intro e _
        exact normEntry_idem _ (norm_idem D t) e
      | _ => simp [norm]
  | .tuple ts, v => by cases v <;> simp [norm, normTys_idem D ts]
  | .newtype _ t, v => by simp only [norm]; exact norm_idem D t v
  | .struct _ fs, v => by cases v <;> simp [norm, normFields_idem D fs]
  | .enum _ vs, v => by cases v <;> simp [norm, normVariant_idem D vs]
theorem normTys_idem (D : Defaults) : ∀ (ts : Tys) (vs : List Val),
    normTys D ts (normTys D ts vs) = normTys D ts vs
  | .nil, vs => by simp [normTys]
  | .cons t r, [] => by simp [normTys]
  | .cons t r, v :: vs => by simp [normTys, norm_idem D t v, normTys_idem D r vs]
theorem normFields_idem (D : Defaults) : ∀ (fs : Fields) (vs : List Val),
    normFields D fs (normFields D fs vs) = normFields D fs vs
  | .nil, vs => by simp [normFields]
  | .cons a t r, [] => by simp [normFields]
  | .cons a t r, v :: vs => by
      simp only [normFields, normFields_idem D r vs]
      congr 1
      cases hs : a.skip
      · cases hh : skipHit D a t v
        · simp only [Bool.false_eq_true, if_false, norm_idem D t v]
          split <;> rfl
        · simp [hh]
      · simp
theorem normVariant_idem (D : Defaults) : ∀ (vs : Variants) (i : Nat) (v : Val),
    normVariant D vs i (normVariant D vs i v) = normVariant D vs i v
  | .nil, _, _ => by simp [normVariant]
  | .unit _ _, 0, _ => by simp [normVariant]
  | .newtype _ t _, 0, v => by simp [normVariant, norm_idem D t v]
  | .unit _ r, i + 1, v => by simp only [normVariant]; exact normVariant_idem D r i v
  | .newtype _ _ r, i + 1, v => by simp only [normVariant]; exact normVariant_idem D r i v
end

/-! ## (3) the defaults of `skip` fields are well typed ⇒ `norm` preserves typing -/

mutual
/-- for every `#[serde(skip)]` field (of type `t'`) that `norm` resets, `dfl D t'` is a value of
    type `t'` -/
def skipFit (D : Defaults) : Ty → Bool
  | .opt t => skipFit D t
  | .seq t => skipFit D t
  | .map _ t => skipFit D t
  | .tuple ts => skipFitTys D ts
  | .newtype _ t => skipFit D t
  | .struct _ fs => skipFitFields D fs
  | .enum _ vs => skipFitVariants D vs
  | _ => true
def skipFitTys (D : Defaults) : Tys → Bool
  | .nil => true
  | .cons t r => skipFit D t && skipFitTys D r
def skipFitFields (D : Defaults) : Fields → Bool
  | .nil => true
  | .cons a t r => (if a.skip then fits t (dfl D t) else skipFit D t) && skipFitFields D r
def skipFitVariants (D : Defaults) : Variants → Bool
  | .nil => true
  | .unit _ r => skipFitVariants D r
  | .newtype _ t r => skipFit D t && skipFitVariants D r
end

mutual
theorem fits_norm (D : Defaults) : ∀ (t : Ty) (v : Val), skipFit D t = true → fits t v = true →
    fits t (norm D t v) = true
  | .atom _, v, _, h => by cases v <;> simp [fits] at h; simp [norm, fits]
  | .unit, v, _, h => by cases v <;> simp [fits] at h; simp [norm, fits]
  | .opt t, v, hs, h => by
      cases v with
      | none => simp [norm, fits]
      | some v =>
        simp only [skipFit] at hs; simp only [fits] at h
        simp only [norm, fits]; exact fits_norm D t v hs h
      | _ => simp [fits] at h
  | .seq t, v, hs, h => by
      cases v with
      | seq vs =>
        simp only [skipFit] at hs; simp only [fits, List.all_eq_true] at h
        simp only [norm, fits, List.all_eq_true, List.mem_map]
        rintro _ ⟨w, hw, rfl⟩; exact fits_norm D t w hs (h w hw)
      | _ => simp [fits] at h
  | .map _ t, v, hs, h => by
      cases v with
      | seq es =>
        simp only [skipFit] at hs; simp only [fits, List.all_eq_true] at h
        simp only [norm, fits, List.all_eq_true, List.mem_map]
        rintro _ ⟨e, he, rfl⟩
        obtain ⟨k, w, rfl, hf⟩ := entry_shape _ e (h e he)
        simp only []
        exact fits_norm D t w hs hf
      | _ => simp [fits] at h
  | .tuple ts, v, hs, h => by
      cases v with
      | tuple vs =>
        simp only [skipFit] at hs; simp only [fits] at h
        simp only [norm, fits]; exact fitsTys_norm D ts vs hs h
      | _ => simp [fits] at h
  | .newtype _ t, v, hs, h => by
      simp only [skipFit] at hs; simp only [fits] at h
      simp only [norm, fits]; exact fits_norm D t v hs h
  | .struct _ fs, v, hs, h => by
      cases v with
      | tuple vs =>
        simp only [skipFit] at hs; simp only [fits] at h
        simp only [norm, fits]; exact fitsFields_norm D fs vs hs h
      | _ => simp [fits] at h
  | .enum _ vs, v, hs, h => by
      cases v with
      | variant i v =>
        simp only [skipFit] at hs; simp only [fits] at h
        simp only [norm, fits]; exact fitsVariant_norm D vs i v hs h
      | _ => simp [fits] at h
theorem fitsTys_norm (D : Defaults) : ∀ (ts : Tys) (vs : List Val), skipFitTys D ts = true →
    fitsTys ts vs = true → fitsTys ts (normTys D ts vs) = true
  | .nil, vs, _, h => by cases vs <;> simp [fitsTys] at h; simp [normTys, fitsTys]
  | .cons t r, [], _, h => by simp [fitsTys] at h
  | .cons t r, v :: vs, hs, h => by
      simp only [skipFitTys, Bool.and_eq_true] at hs
      simp only [fitsTys, Bool.and_eq_true] at h
      simp only [normTys, fitsTys, Bool.and_eq_true]
      exact ⟨fits_norm D t v hs.1 h.1, fitsTys_norm D r vs hs.2 h.2⟩
theorem fitsFields_norm (D : Defaults) : ∀ (fs : Fields) (vs : List Val),
    skipFitFields D fs = true → fitsFields fs vs = true →
    fitsFields fs (normFields D fs vs) = true
  | .nil, vs, _, h => by cases vs <;> simp [fitsFields] at h; simp [normFields, fitsFields]
  | .cons a t r, [], _, h => by simp [fitsFields] at h
  | .cons a t r, v :: vs, hs, h => by
      simp only [skipFitFields, Bool.and_eq_true] at hs
      simp only [fitsFields, Bool.and_eq_true] at h
      simp only [normFields, fitsFields, Bool.and_eq_true]
      refine ⟨?_, fitsFields_norm D r vs hs.2 h.2⟩
      cases hsk : a.skip
      · simp only [hsk, Bool.false_eq_true, if_false] at hs ⊢
        split
        · exact h.1
        · exact fits_norm D t v hs.1 h.1
      · simp only [hsk, if_true] at hs ⊢; exact hs.1
theorem fitsVariant_norm (D : Defaults) : ∀ (vs : Variants) (i : Nat) (v : Val),
    skipFitVariants D vs = true → fitsVariant vs i v = true →
    fitsVariant vs i (normVariant D vs i v) = true
  | .nil, _, _, _, h => by simp [fitsVariant] at h
  | .unit _ _, 0, _, _, h => by simpa [normVariant] using h
  | .newtype _ t _, 0, v, hs, h => by
      simp only [skipFitVariants, Bool.and_eq_true] at hs
      simp only [fitsVariant] at h
      simp only [normVariant, fitsVariant]; exact fits_norm D t v hs.1 h
  | .unit _ r, i + 1, v, hs, h => by
      simp only [skipFitVariants] at hs; simp only [fitsVariant] at h
      simp only [normVariant, fitsVariant]; exact fitsVariant_norm D r i v hs h
  | .newtype _ _ r, i + 1, v, hs, h => by
      simp only [skipFitVariants, Bool.and_eq_true] at hs; simp only [fitsVariant] at h
      simp only [normVariant, fitsVariant]; exact fitsVariant_norm D r i v hs.2 h
end

/-! `norm` preserves the `skip`-blind typing, whatever the defaults are -/

mutual
theorem fitsW_norm (D : Defaults) : ∀ (t : Ty) (v : Val), fitsW t v = true →
    fitsW t (norm D t v) = true
  | .atom _, v, h => by cases v <;> simp [fitsW] at h; simp [norm, fitsW]
  | .unit, v, h => by cases v <;> simp [fitsW] at h; simp [norm, fitsW]
  | .opt t, v, h => by
      cases v with
      | none => simp [norm, fitsW]
      | some v =>
        simp only [fitsW] at h
        simp only [norm, fitsW]; exact fitsW_norm D t v h
      | _ => simp [fitsW] at h
  | .seq t, v, h => by
      cases v with
      | seq vs =>
        simp only [fitsW, List.all_eq_true] at h
        simp only [norm, fitsW, List.all_eq_true, List.mem_map]
        rintro _ ⟨w, hw, rfl⟩; exact fitsW_norm D t w (h w hw)
      | _ => simp [fitsW] at h
  | .map _ t, v, h => by
      cases v with
      | seq es =>
        simp only [fitsW, List.all_eq_true] at h
        simp only [norm, fitsW, List.all_eq_true, List.mem_map]
        rintro _ ⟨e, he, rfl⟩
        obtain ⟨k, w, rfl, hf⟩ := entry_shape _ e (h e he)
        simp only []
        exact fitsW_norm D t w hf
      | _ => simp [fitsW] at h
  | .tuple ts, v, h => by
      cases v with
      | tuple vs =>
        simp only [fitsW] at h
        simp only [norm, fitsW]; exact fitsWTys_norm D ts vs h
      | _ => simp [fitsW] at h
  | .newtype _ t, v, h => by
      simp only [fitsW] at h
      simp only [norm, fitsW]; exact fitsW_norm D t v h
  | .struct _ fs, v, h => by
      cases v with
      | tuple vs =>
        simp only [fitsW] at h
        simp only [norm, fitsW]; exact fitsWFields_norm D fs vs h
      | _ => simp [fitsW] at h
  | .enum _ vs, v, h => by
      cases v with
      | variant i v =>
        simp only [fitsW] at h
        simp only [norm, fitsW]; exact fitsWVariant_norm D vs i v h
      | _ => simp [fitsW] at h
theorem fitsWTys_norm (D : Defaults) : ∀ (ts : Tys) (vs : List Val),
    fitsWTys ts vs = true → fitsWTys ts (normTys D ts vs) = true
  | .nil, vs, h => by cases vs <;> simp [fitsWTys] at h; simp [normTys, fitsWTys]
  | .cons t r, [], h => by simp [fitsWTys] at h
  | .cons t r, v :: vs, h => by
      simp only [fitsWTys, Bool.and_eq_true] at h
      simp only [normTys, fitsWTys, Bool.and_eq_true]
      exact ⟨fitsW_norm D t v h.1, fitsWTys_norm D r vs h.2⟩
theorem fitsWFields_norm (D : Defaults) : ∀ (fs : Fields) (vs : List Val),
    fitsWFields fs vs = true → fitsWFields fs (normFields D fs vs) = true
  | .nil, vs, h => by cases vs <;> simp [fitsWFields] at h; simp [normFields, fitsWFields]
  | .cons a t r, [], h => by simp [fitsWFields] at h
  | .cons a t r, v :: vs, h => by
      simp only [fitsWFields, Bool.and_eq_true] at h
      simp only [normFields, fitsWFields, Bool.and_eq_true]
      refine ⟨?_, fitsWFields_norm D r vs h.2⟩
      cases hsk : a.skip
      · have hf : fitsW t v = true := by simpa [hsk] using h.1
        simp only [Bool.false_eq_true, if_false, Bool.false_or]
        split
        · exact hf
        · exact fitsW_norm D t v hf
      · rfl
theorem fitsWVariant_norm (D : Defaults) : ∀ (vs : Variants) (i : Nat) (v : Val),
    fitsWVariant vs i v = true → fitsWVariant vs i (normVariant D vs i v) = true
  | .nil, _, _, h => by simp [fitsWVariant] at h
  | .unit _ _, 0, _, h => by simpa [normVariant] using h
  | .newtype _ t _, 0, v, h => by
      simp only [fitsWVariant] at h
      simp only [normVariant, fitsWVariant]; exact fitsW_norm D t v h
  | .unit _ r, i + 1, v, h => by
      simp only [fitsWVariant] at h
      simp only [normVariant, fitsWVariant]; exact fitsWVariant_norm D r i v h
  | .newtype _ _ r, i + 1, v, h => by
      simp only [fitsWVariant] at h
      simp only [normVariant, fitsWVariant]; exact fitsWVariant_norm D r i v h
end

/-- (3), unconditional in the `Default` impls: the second round trip returns exactly what the
    first load returned -/
theorem selfRT_second (D : Defaults) (t : Ty) (v : Val) (hw : wf t = true)
    (hf : fitsW t v = true) : decSelf D t (encSelf D t (norm D t v)) = some (norm D t v) := by
  have h := selfRTW D t (norm D t v) hw (fitsW_norm D t v hf)
  rwa [norm_idem] at h

/-! ## (4 ⇐) positional round trip of a value without a hit field -/

theorem decMany_flatten {α : Type} (f : List Tok → Option (Val × List Tok)) (g : α → List Tok)
    (h : α → Val) : ∀ (vs : List α) (rest : List Tok),
      (∀ v ∈ vs, ∀ rest, f (g v ++ rest) = some (h v, rest)) →
      decMany f vs.length ((vs.map g).flatten ++ rest) = some (vs.map h, rest)
  | [], rest, _ => by simp [decMany]
  | v :: vs, rest, hv => by
      have h1 := hv v (by simp) ((vs.map g).flatten ++ rest)
      have h2 := decMany_flatten f g h vs rest (fun w hw => hv w (by simp [hw]))
      simp only [List.length_cons, List.map_cons, List.flatten_cons, List.append_assoc, decMany,
        h1, h2]

mutual
theorem posRT (D : Defaults) : ∀ (t : Ty) (v : Val) (rest : List Tok), fits t v = true →
    noHit D t v = true → decSeq D t (encSeq D t v ++ rest) = some (norm D t v, rest)
  | .atom _, v, rest, h, _ => by
      cases v <;> simp [fits] at h; simp [encSeq, decSeq, norm]
  | .unit, v, rest, h, _ => by
      cases v <;> simp [fits] at h; simp [encSeq, decSeq, norm]
  | .opt t, v, rest, h, hn => by
      cases v with
      | none => simp [encSeq, decSeq, norm]
      | some v =>
        simp only [fits] at h; simp only [noHit] at hn
        simp only [encSeq, norm, List.cons_append, decSeq, posRT D t v rest h hn]; rfl
      | _ => simp [fits] at h
  | .seq t, v, rest, h, hn => by
      cases v with
      | seq vs =>
        simp only [fits, List.all_eq_true] at h; simp only [noHit, List.all_eq_true] at hn
        simp only [encSeq, norm, List.cons_append, decSeq]
        rw [decMany_flatten (decSeq D t) (encSeq D t) (norm D t) vs rest
          (fun v hv rest => posRT D t v rest (h v hv) (hn v hv))]; rfl
      | _ => simp [fits] at h
  | .map _ t, v, rest, h, hn => by
      cases v with
      | seq es =>
        simp only [fits, List.all_eq_true] at h; simp only [noHit, List.all_eq_true] at hn
        simp only [encSeq, norm, List.cons_append, decSeq]
        rw [decMany_flatten _ _ (fun e => match e with
          | .tuple [.atom k, v] => Val.tuple [.atom k, norm D t v]
          | e => e) es rest ?_]; rfl
        intro e he rest
        obtain ⟨k, v, rfl, hf⟩ := entry_shape _ e (h e he)
        have hn' := hn _ he
        simp only [] at hn'
        simp [posRT D t v rest hf hn']
      | _ => simp [fits] at h
  | .tuple ts, v, rest, h, hn => by
      cases v with
      | tuple vs =>
        simp only [fits] at h; simp only [noHit] at hn
        simp only [encSeq, norm, decSeq, posRTTys D ts vs rest h hn]; rfl
      | _ => simp [fits] at h
  | .newtype _ t, v, rest, h, hn => by
      simp only [fits] at h; simp only [noHit] at hn
      simp only [encSeq, norm, decSeq]; exact posRT D t v rest h hn
  | .struct _ fs, v, rest, h, hn => by
      cases v with
      | tuple vs =>
        simp only [fits] at h; simp only [noHit] at hn
        simp only [encSeq, norm, decSeq, posRTFields D fs vs rest h hn]; rfl
      | _ => simp [fits] at h
  | .enum _ vs, v, rest, h, hn => by
      cases v with
      | variant i v =>
        simp only [fits] at h; simp only [noHit] at hn
        simp only [encSeq, norm, List.cons_append, decSeq, posRTVariant D vs i v rest h hn]; rfl
      | _ => simp [fits] at h
theorem posRTTys (D : Defaults) : ∀ (ts : Tys) (vs : List Val) (rest : List Tok),
    fitsTys ts vs = true → noHitTys D ts vs = true →
    decSeqTys D ts (encSeqTys D ts vs ++ rest) = some (normTys D ts vs, rest)
  | .nil, vs, rest, h, _ => by
      cases vs <;> simp [fitsTys] at h; simp [encSeqTys, decSeqTys, normTys]
  | .cons t r, [], _, h, _ => by simp [fitsTys] at h
  | .cons t r, v :: vs, rest, h, hn => by
      simp only [fitsTys, Bool.and_eq_true] at h; simp only [noHitTys, Bool.and_eq_true] at hn
      simp only [encSeqTys, normTys, decSeqTys, List.append_assoc,
        posRT D t v _ h.1 hn.1, posRTTys D r vs rest h.2 hn.2]
theorem posRTFields (D : Defaults) : ∀ (fs : Fields) (vs : List Val) (rest : List Tok),
    fitsFields fs vs = true → noHitFields D fs vs = true →
    decSeqFields D fs (encSeqFields D fs vs ++ rest) = some (normFields D fs vs, rest)
  | .nil, vs, rest, h, _ => by
      cases vs <;> simp [fitsFields] at h; simp [encSeqFields, decSeqFields, normFields]
  | .cons a t r, [], _, h, _ => by simp [fitsFields] at h
  | .cons a t r, v :: vs, rest, h, hn => by
      simp only [fitsFields, Bool.and_eq_true] at h
      simp only [noHitFields, Bool.and_eq_true] at hn
      have ih := posRTFields D r vs rest h.2 hn.2
      cases hs : a.skip
      · have hn1 : skipHit D a t v = false ∧ noHit D t v = true := by simpa [hs] using hn.1
        simp only [encSeqFields, normFields, decSeqFields, hs, hn1.1, Bool.or_self,
          Bool.false_eq_true, if_false, List.append_assoc, posRT D t v _ h.1 hn1.2, ih]
      · simp only [encSeqFields, normFields, decSeqFields, hs, Bool.true_or, if_true,
          List.nil_append, ih]
theorem posRTVariant (D : Defaults) : ∀ (vs : Variants) (i : Nat) (v : Val) (rest : List Tok),
    fitsVariant vs i v = true → noHitVariant D vs i v = true →
    decSeqVariant D vs i (encSeqVariant D vs i v ++ rest) = some (normVariant D vs i v, rest)
  | .nil, _, _, _, h, _ => by simp [fitsVariant] at h
  | .unit _ _, 0, v, rest, h, _ => by
      simp only [fitsVariant] at h
      have : v = .unit := by simpa using h
      simp [encSeqVariant, decSeqVariant, normVariant, this]
  | .newtype _ t _, 0, v, rest, h, hn => by
      simp only [fitsVariant] at h; simp only [noHitVariant] at hn
      simp only [encSeqVariant, decSeqVariant, normVariant]; exact posRT D t v rest h hn
  | .unit _ r, i + 1, v, rest, h, hn => by
      simp only [fitsVariant] at h; simp only [noHitVariant] at hn
      simp only [encSeqVariant, decSeqVariant, normVariant]; exact posRTVariant D r i v rest h hn
  | .newtype _ _ r, i + 1, v, rest, h, hn => by
      simp only [fitsVariant] at h; simp only [noHitVariant] at hn
      simp only [encSeqVariant, decSeqVariant, normVariant]; exact posRTVariant D r i v rest h hn
end

/-! ## (4 ⇒) what the positional reader accepts is the FULL encoding -/

mutual
/-- positional encoding that writes every non-`skip` field, whatever its `skip_serializing_if`
    predicate says — the only stream the derived positional `Deserialize` reads back -/
def encFull : Ty → Val → List Tok
  | .atom _, .atom s => [.atom s]
  | .unit, _ => []
  | .opt _, .none => [.tag false]
  | .opt t, .some v => .tag true :: encFull t v
  | .seq t, .seq vs => .len vs.length :: (vs.map (encFull t)).flatten
  | .map _ t, .seq es => .len es.length :: (es.map (fun e => match e with
      | .tuple [.atom k, v] => Tok.atom k :: encFull t v
      | _ => [])).flatten
  | .tuple ts, .tuple vs => encFullTys ts vs
  | .newtype _ t, v => encFull t v
  | .struct _ fs, .tuple vs => encFullFields fs vs
  | .enum _ vs, .variant i v => .var i :: encFullVariant vs i v
  | _, _ => []
def encFullTys : Tys → List Val → List Tok
  | .cons t r, v :: vs => encFull t v ++ encFullTys r vs
  | _, _ => []
def encFullFields : Fields → List Val → List Tok
  | .cons a t r, v :: vs => (if a.skip then [] else encFull t v) ++ encFullFields r vs
  | _, _ => []
def encFullVariant : Variants → Nat → Val → List Tok
  | .nil, _, _ => []
  | .unit _ _, 0, _ => []
  | .newtype _ t _, 0, v => encFull t v
  | .unit _ r, i + 1, v => encFullVariant r i v
  | .newtype _ _ r, i + 1, v => encFullVariant r i v
end

theorem decMany_inj (f : List Tok → Option (Val × List Tok)) (g : Val → List Tok)
    (hf : ∀ toks w rest, f toks = some (w, rest) → toks = g w ++ rest) :
    ∀ (n : Nat) (toks : List Tok) (ws : List Val) (rest : List Tok),
      decMany f n toks = some (ws, rest) → ws.length = n ∧ toks = (ws.map g).flatten ++ rest
  | 0, toks, ws, rest, h => by
      simp only [decMany, Option.some.injEq, Prod.mk.injEq] at h
      obtain ⟨rfl, rfl⟩ := h; simp
  | n + 1, toks, ws, rest, h => by
      simp only [decMany] at h
      cases h1 : f toks with
      | none => simp [h1] at h
      | some p =>
        obtain ⟨w, r1⟩ := p
        simp only [h1] at h
        cases h2 : decMany f n r1 with
        | none => simp [h2] at h
        | some q =>
          obtain ⟨ws', r2⟩ := q
          simp only [h2, Option.some.injEq, Prod.mk.injEq] at h
          obtain ⟨rfl, rfl⟩ := h
          have e1 := hf toks w r1 h1
          have e2 := decMany_inj f g hf n r1 ws' r2 h2
          refine ⟨by simp [e2.1], ?_⟩
          rw [e1, e2.2]; simp

theorem map_pair_some {α β : Type} (o : Option (α × List Tok)) (F : α → β) (w : β)
    (rest : List Tok) (h : o.map (fun p => (F p.1, p.2)) = some (w, rest)) :
    ∃ x, o = some (x, rest) ∧ F x = w := by
  cases o with
  | none => simp at h
  | some p =>
    obtain ⟨x, r⟩ := p
    simp only [Option.map_some, Option.some.injEq, Prod.mk.injEq] at h
    exact ⟨x, by simp [h.2], h.1⟩

mutual
theorem decSeq_inj (D : Defaults) : ∀ (t : Ty) (toks : List Tok) (w : Val) (rest : List Tok),
    decSeq D t toks = some (w, rest) → toks = encFull t w ++ rest
  | .atom _, toks, w, rest, h => by
      cases toks with
      | nil => simp [decSeq] at h
      | cons tk r =>
        cases tk <;> simp [decSeq] at h
        obtain ⟨rfl, rfl⟩ := h; simp [encFull]
  | .unit, toks, w, rest, h => by
      simp only [decSeq, Option.some.injEq, Prod.mk.injEq] at h
      obtain ⟨rfl, rfl⟩ := h; simp [encFull]
  | .opt t, toks, w, rest, h => by
      cases toks with
      | nil => simp [decSeq] at h
      | cons tk r =>
        cases tk with
        | tag b =>
          cases b
          · simp only [decSeq, Option.some.injEq, Prod.mk.injEq] at h
            obtain ⟨rfl, rfl⟩ := h; simp [encFull]
          · simp only [decSeq] at h
            obtain ⟨x, hx, rfl⟩ := map_pair_some _ _ _ _ h
            simp [encFull, decSeq_inj D t r x rest hx]
        | _ => simp [decSeq] at h
  | .seq t, toks, w, rest, h => by
      cases toks with
      | nil => simp [decSeq] at h
      | cons tk r =>
        cases tk with
        | len n =>
          simp only [decSeq] at h
          obtain ⟨ws, hx, rfl⟩ := map_pair_some _ _ _ _ h
          have := decMany_inj (decSeq D t) (encFull t) (decSeq_inj D t) n r ws rest hx
          simp [encFull, this.1, this.2]
        | _ => simp [decSeq] at h
  | .map _ t, toks, w, rest, h => by
      cases toks with
      | nil => simp [decSeq] at h
      | cons tk r =>
        cases tk with
        | len n =>
          simp only [decSeq] at h
          obtain ⟨ws, hx, rfl⟩ := map_pair_some _ _ _ _ h
          have := decMany_inj _ (fun e => match e with
            | .tuple [.atom k, v] => Tok.atom k :: encFull t v
            | _ => []) ?_ n r ws rest hx
          · simp [encFull, this.1, this.2]
          · intro toks w rest hf
            split at hf
            · rename_i k r1
              obtain ⟨x, hx, rfl⟩ :=
                map_pair_some _ (fun x => Val.tuple [Val.atom k, x]) _ _ hf
              simp [decSeq_inj D t _ x rest hx]
            · simp at hf
        | _ => simp [decSeq] at h
  | .tuple ts, toks, w, rest, h => by
      simp only [decSeq] at h
      obtain ⟨ws, hx, rfl⟩ := map_pair_some _ _ _ _ h
      simp only [encFull]; exact decSeqTys_inj D ts toks ws rest hx
  | .newtype _ t, toks, w, rest, h => by
      simp only [decSeq] at h; simp only [encFull]; exact decSeq_inj D t toks w rest h
  | .struct _ fs, toks, w, rest, h => by
      simp only [decSeq] at h
      obtain ⟨ws, hx, rfl⟩ := map_pair_some _ _ _ _ h
      simp only [encFull]; exact decSeqFields_inj D fs toks ws rest hx
  | .enum _ vs, toks, w, rest, h => by
      cases toks with
      | nil => simp [decSeq] at h
      | cons tk r =>
        cases tk with
        | var i =>
          simp only [decSeq] at h
          obtain ⟨x, hx, rfl⟩ := map_pair_some _ _ _ _ h
          simp [encFull, decSeqVariant_inj D vs i r x rest hx]
        | _ => simp [decSeq] at h
theorem decSeqTys_inj (D : Defaults) : ∀ (ts : Tys) (toks : List Tok) (ws : List Val)
    (rest : List Tok), decSeqTys D ts toks = some (ws, rest) → toks = encFullTys ts ws ++ rest
  | .nil, toks, ws, rest, h => by
      simp only [decSeqTys, Option.some.injEq, Prod.mk.injEq] at h
      obtain ⟨rfl, rfl⟩ := h; simp [encFullTys]
  | .cons t r, toks, ws, rest, h => by
      simp only [decSeqTys] at h
      cases h1 : decSeq D t toks with
      | none => simp [h1] at h
      | some p =>
        obtain ⟨w, r1⟩ := p
        simp only [h1] at h
        cases h2 : decSeqTys D r r1 with
        | none => simp [h2] at h
        | some q =>
          obtain ⟨ws', r2⟩ := q
          simp only [h2, Option.some.injEq, Prod.mk.injEq] at h
          obtain ⟨rfl, rfl⟩ := h
          rw [decSeq_inj D t toks w r1 h1, decSeqTys_inj D r r1 ws' r2 h2]
          simp [encFullTys]
theorem decSeqFields_inj (D : Defaults) : ∀ (fs : Fields) (toks : List Tok) (ws : List Val)
    (rest : List Tok), decSeqFields D fs toks = some (ws, rest) →
      toks = encFullFields fs ws ++ rest
  | .nil, toks, ws, rest, h => by
      simp only [decSeqFields, Option.some.injEq, Prod.mk.injEq] at h
      obtain ⟨rfl, rfl⟩ := h; simp [encFullFields]
  | .cons a t r, toks, ws, rest, h => by
      simp only [decSeqFields] at h
      cases hs : a.skip
      · simp only [hs, Bool.false_eq_true, if_false] at h
        cases h1 : decSeq D t toks with
        | none => simp [h1] at h
        | some p =>
          obtain ⟨w, r1⟩ := p
          simp only [h1] at h
          cases h2 : decSeqFields D r r1 with
          | none => simp [h2] at h
          | some q =>
            obtain ⟨ws', r2⟩ := q
            simp only [h2, Option.some.injEq, Prod.mk.injEq] at h
            obtain ⟨rfl, rfl⟩ := h
            rw [decSeq_inj D t toks w r1 h1, decSeqFields_inj D r r1 ws' r2 h2]
            simp [encFullFields, hs]
      · simp only [hs, if_true] at h
        cases h2 : decSeqFields D r toks with
        | none => simp [h2] at h
        | some q =>
          obtain ⟨ws', r2⟩ := q
          simp only [h2, Option.some.injEq, Prod.mk.injEq] at h
          obtain ⟨rfl, rfl⟩ := h
          rw [decSeqFields_inj D r toks ws' r2 h2]
          simp [encFullFields, hs]
theorem decSeqVariant_inj (D : Defaults) : ∀ (vs : Variants) (i : Nat) (toks : List Tok)
    (w : Val) (rest : List Tok), decSeqVariant D vs i toks = some (w, rest) →
      toks = encFullVariant vs i w ++ rest
  | .nil, _, _, _, _, h => by simp [decSeqVariant] at h
  | .unit _ _, 0, toks, w, rest, h => by
      simp only [decSeqVariant, Option.some.injEq, Prod.mk.injEq] at h
      obtain ⟨rfl, rfl⟩ := h; simp [encFullVariant]
  | .newtype _ t _, 0, toks, w, rest, h => by
      simp only [decSeqVariant] at h; simp only [encFullVariant]
      exact decSeq_inj D t toks w rest h
  | .unit _ r, i + 1, toks, w, rest, h => by
      simp only [decSeqVariant] at h; simp only [encFullVariant]
      exact decSeqVariant_inj D r i toks w rest h
  | .newtype _ _ r, i + 1, toks, w, rest, h => by
      simp only [decSeqVariant] at h; simp only [encFullVariant]
      exact decSeqVariant_inj D r i toks w rest h
end

/-! ## (4 ⇒) the written stream is never longer than the full one, and as long only without a hit -/

mutual
theorem posMin_le : ∀ (t : Ty) (w : Val), fits t w = true → posMin t ≤ (encFull t w).length
  | .atom _, w, h => by cases w <;> simp [fits] at h; simp [posMin, encFull]
  | .unit, _, _ => by simp [posMin]
  | .opt _, w, h => by cases w <;> simp [fits] at h <;> simp [posMin, encFull]
  | .seq _, w, h => by cases w <;> simp [fits] at h <;> simp [posMin, encFull]
  | .map _ _, w, h => by cases w <;> simp [fits] at h <;> simp [posMin, encFull]
  | .tuple ts, w, h => by
      cases w with
      | tuple ws => simp only [fits] at h; simp only [posMin, encFull]; exact posMinTys_le ts ws h
      | _ => simp [fits] at h
  | .newtype _ t, w, h => by
      simp only [fits] at h; simp only [posMin, encFull]; exact posMin_le t w h
  | .struct _ fs, w, h => by
      cases w with
      | tuple ws =>
        simp only [fits] at h; simp only [posMin, encFull]; exact posMinFields_le fs ws h
      | _ => simp [fits] at h
  | .enum _ _, w, h => by cases w <;> simp [fits] at h; simp [posMin, encFull]
theorem posMinTys_le : ∀ (ts : Tys) (ws : List Val), fitsTys ts ws = true →
    posMinTys ts ≤ (encFullTys ts ws).length
  | .nil, _, _ => by simp [posMinTys]
  | .cons _ _, [], h => by simp [fitsTys] at h
  | .cons t r, w :: ws, h => by
      simp only [fitsTys, Bool.and_eq_true] at h
      have h1 := posMin_le t w h.1
      have h2 := posMinTys_le r ws h.2
      simp only [posMinTys, encFullTys, List.length_append]; omega
theorem posMinFields_le : ∀ (fs : Fields) (ws : List Val), fitsFields fs ws = true →
    posMinFields fs ≤ (encFullFields fs ws).length
  | .nil, _, _ => by simp [posMinFields]
  | .cons _ _ _, [], h => by simp [fitsFields] at h
  | .cons a t r, w :: ws, h => by
      simp only [fitsFields, Bool.and_eq_true] at h
      have h1 := posMin_le t w h.1
      have h2 := posMinFields_le r ws h.2
      simp only [posMinFields, encFullFields, List.length_append]
      cases hs : a.skip
      · simp only [Bool.false_or, Bool.false_eq_true, if_false]
        split <;> omega
      · simp only [Bool.true_or, if_true, List.length_nil]; omega
end

theorem flatten_len {α : Type} (g h : α → List Tok) (P : α → Prop) : ∀ (vs : List α),
    (∀ v ∈ vs, (g v).length ≤ (h v).length ∧ ((g v).length = (h v).length → P v)) →
    ((vs.map g).flatten).length ≤ ((vs.map h).flatten).length ∧
    (((vs.map g).flatten).length = ((vs.map h).flatten).length → ∀ v ∈ vs, P v)
  | [], _ => by simp
  | v :: vs, hv => by
      have h1 := hv v (by simp)
      have h2 := flatten_len g h P vs (fun w hw => hv w (by simp [hw]))
      simp only [List.map_cons, List.flatten_cons, List.length_append, List.mem_cons,
        forall_eq_or_imp]
      refine ⟨by omega, fun e => ⟨h1.2 (by omega), h2.2 (by omega)⟩⟩

mutual
theorem len_le (D : Defaults) : ∀ (t : Ty) (v : Val), fits t v = true → posWF t = true →
    (encSeq D t v).length ≤ (encFull t (norm D t v)).length ∧
    ((encSeq D t v).length = (encFull t (norm D t v)).length → noHit D t v = true)
  | .atom _, v, h, _ => by
      cases v <;> simp [fits] at h; simp [encSeq, norm, encFull, noHit]
  | .unit, v, h, _ => by
      cases v <;> simp [fits] at h; simp [encSeq, encFull, noHit]
  | .opt t, v, h, hp => by
      cases v with
      | none => simp [encSeq, norm, encFull, noHit]
      | some v =>
        simp only [fits] at h; simp only [posWF] at hp
        have ih := len_le D t v h hp
        simp only [encSeq, norm, encFull, noHit, List.length_cons]
        exact ⟨by omega, fun e => ih.2 (by omega)⟩
      | _ => simp [fits] at h
  | .seq t, v, h, hp => by
      cases v with
      | seq vs =>
        simp only [fits, List.all_eq_true] at h; simp only [posWF] at hp
        have ih := flatten_len (encSeq D t) (fun v => encFull t (norm D t v))
          (fun v => noHit D t v = true) vs (fun v hv => len_le D t v (h v hv) hp)
        simp only [encSeq, norm, encFull, noHit, List.length_cons, List.map_map,
          List.all_eq_true]
        exact ⟨Nat.succ_le_succ ih.1, fun e => ih.2 (Nat.succ.inj e)⟩
      | _ => simp [fits] at h
  | .map _ t, v, h, hp => by
      cases v with
      | seq es =>
        simp only [fits, List.all_eq_true] at h; simp only [posWF] at hp
        have ih := flatten_len
          (fun e => match e with
            | .tuple [.atom k, v] => Tok.atom k :: encSeq D t v
            | _ => [])
          (fun e => (fun e => match e with
            | .tuple [.atom k, v] => Tok.atom k :: encFull t v
            | _ => []) ((fun e => match e with
            | .tuple [.atom k, v] => Val.tuple [.atom k, norm D t v]
            | e => e) e))
          (fun e => (match e with
            | .tuple [.atom _, v] => noHit D t v
            | _ => true) = true) es ?_
        · simp only [encSeq, norm, encFull, noHit, List.length_cons, List.map_map,
            List.all_eq_true]
          exact ⟨Nat.succ_le_succ ih.1, fun e => ih.2 (Nat.succ.inj e)⟩
        · intro e he
          obtain ⟨k, v, rfl, hf⟩ := entry_shape _ e (h e he)
          have := len_le D t v hf hp
          simp only [List.length_cons]
          exact ⟨by omega, fun e => this.2 (by omega)⟩
      | _ => simp [fits] at h
  | .tuple ts, v, h, hp => by
      cases v with
      | tuple vs =>
        simp only [fits] at h; simp only [posWF] at hp
        simp only [encSeq, norm, encFull, noHit]; exact lenTys_le D ts vs h hp
      | _ => simp [fits] at h
  | .newtype _ t, v, h, hp => by
      simp only [fits] at h; simp only [posWF] at hp
      simp only [encSeq, norm, encFull, noHit]; exact len_le D t v h hp
  | .struct _ fs, v, h, hp => by
      cases v with
      | tuple vs =>
        simp only [fits] at h; simp only [posWF] at hp
        simp only [encSeq, norm, encFull, noHit]; exact lenFields_le D fs vs h hp
      | _ => simp [fits] at h
  | .enum _ vs, v, h, hp => by
      cases v with
      | variant i v =>
        simp only [fits] at h; simp only [posWF] at hp
        have ih := lenVariant_le D vs i v h hp
        simp only [encSeq, norm, encFull, noHit, List.length_cons]
        exact ⟨by omega, fun e => ih.2 (by omega)⟩
      | _ => simp [fits] at h
theorem lenTys_le (D : Defaults) : ∀ (ts : Tys) (vs : List Val), fitsTys ts vs = true →
    posWFTys ts = true →
    (encSeqTys D ts vs).length ≤ (encFullTys ts (normTys D ts vs)).length ∧
    ((encSeqTys D ts vs).length = (encFullTys ts (normTys D ts vs)).length →
      noHitTys D ts vs = true)
  | .nil, vs, h, _ => by
      cases vs <;> simp [fitsTys] at h; simp [encSeqTys, encFullTys, noHitTys]
  | .cons _ _, [], h, _ => by simp [fitsTys] at h
  | .cons t r, v :: vs, h, hp => by
      simp only [fitsTys, Bool.and_eq_true] at h; simp only [posWFTys, Bool.and_eq_true] at hp
      have i1 := len_le D t v h.1 hp.1
      have i2 := lenTys_le D r vs h.2 hp.2
      simp only [encSeqTys, normTys, encFullTys, noHitTys, List.length_append, Bool.and_eq_true]
      exact ⟨by omega, fun e => ⟨i1.2 (by omega), i2.2 (by omega)⟩⟩
theorem lenFields_le (D : Defaults) : ∀ (fs : Fields) (vs : List Val), fitsFields fs vs = true →
    posWFFields fs = true →
    (encSeqFields D fs vs).length ≤ (encFullFields fs (normFields D fs vs)).length ∧
    ((encSeqFields D fs vs).length = (encFullFields fs (normFields D fs vs)).length →
      noHitFields D fs vs = true)
  | .nil, vs, h, _ => by
      cases vs <;> simp [fitsFields] at h
      simp [encSeqFields, encFullFields, noHitFields]
  | .cons _ _ _, [], h, _ => by simp [fitsFields] at h
  | .cons a t r, v :: vs, h, hp => by
      simp only [fitsFields, Bool.and_eq_true] at h
      simp only [posWFFields, Bool.and_eq_true] at hp
      have i1 := len_le D t v h.1 hp.1.2
      have i2 := lenFields_le D r vs h.2 hp.2
      have pm := posMin_le t v h.1
      simp only [encSeqFields, normFields, encFullFields, noHitFields, List.length_append,
        Bool.and_eq_true]
      cases hs : a.skip
      · cases hh : skipHit D a t v
        · simp only [Bool.or_self, Bool.false_eq_true, if_false, Bool.false_or, Bool.not_false,
            Bool.true_and]
          exact ⟨by omega, fun e => ⟨i1.2 (by omega), i2.2 (by omega)⟩⟩
        · -- a hit field: nothing written, but the reader expects ≥ posMin t > 0 tokens
          have hne : a.skipIf ≠ .never := by
            intro e; simp [skipHit, e] at hh
          have hpos : 0 < posMin t := by
            have := hp.1.1; simp only [Bool.or_eq_true, beq_iff_eq, decide_eq_true_eq] at this
            rcases this with e | e
            · exact absurd e hne
            · exact e
          simp only [Bool.or_true, if_true, Bool.false_eq_true, if_false, List.length_nil]
          exact ⟨by omega, fun e => by omega⟩
      · simp only [Bool.true_or, if_true, List.length_nil]
        exact ⟨by omega, fun e => ⟨trivial, i2.2 (by omega)⟩⟩
theorem lenVariant_le (D : Defaults) : ∀ (vs : Variants) (i : Nat) (v : Val),
    fitsVariant vs i v = true → posWFVariants vs = true →
    (encSeqVariant D vs i v).length ≤ (encFullVariant vs i (normVariant D vs i v)).length ∧
    ((encSeqVariant D vs i v).length = (encFullVariant vs i (normVariant D vs i v)).length →
      noHitVariant D vs i v = true)
  | .nil, _, _, h, _ => by simp [fitsVariant] at h
  | .unit _ _, 0, _, _, _ => by simp [encSeqVariant, encFullVariant, noHitVariant]
  | .newtype _ t _, 0, v, h, hp => by
      simp only [fitsVariant] at h; simp only [posWFVariants, Bool.and_eq_true] at hp
      simp only [encSeqVariant, normVariant, encFullVariant, noHitVariant]
      exact len_le D t v h hp.1
  | .unit _ r, i + 1, v, h, hp => by
      simp only [fitsVariant] at h; simp only [posWFVariants] at hp
      simp only [encSeqVariant, normVariant, encFullVariant, noHitVariant]
      exact lenVariant_le D r i v h hp
  | .newtype _ _ r, i + 1, v, h, hp => by
      simp only [fitsVariant] at h; simp only [posWFVariants, Bool.and_eq_true] at hp
      simp only [encSeqVariant, normVariant, encFullVariant, noHitVariant]
      exact lenVariant_le D r i v h hp.2
end

/-- (4 ⇒) a positional stream that decodes to `norm v` exactly is one without a hit field -/
theorem noHit_of_posRT (D : Defaults) (t : Ty) (v : Val) (hp : posWF t = true)
    (h : fits t v = true) (hrt : decSeq D t (encSeq D t v) = some (norm D t v, [])) :
    noHit D t v = true := by
  have e := decSeq_inj D t _ _ _ hrt
  rw [List.append_nil] at e
  exact (len_le D t v h hp).2 (by rw [← e])

/-! ## a concrete `Defaults` for the examples -/

mutual
/-- a canonical well-typed inhabitant (every enum of the crate has ≥ 1 variant) -/
def canon : Ty → Val
  | .atom _ => .atom "0"
  | .unit => .unit
  | .opt _ => .none
  | .seq _ => .seq []
  | .map _ _ => .seq []
  | .tuple ts => .tuple (canonTys ts)
  | .newtype _ t => canon t
  | .struct _ fs => .tuple (canonFields fs)
  | .enum _ vs => canonVariant vs
def canonTys : Tys → List Val
  | .nil => []
  | .cons t r => canon t :: canonTys r
def canonFields : Fields → List Val
  | .nil => []
  | .cons _ t r => canon t :: canonFields r
def canonVariant : Variants → Val
  | .nil => .variant 0 .unit
  | .unit _ _ => .variant 0 .unit
  | .newtype _ t _ => .variant 0 (canon t)
end

/-- `Default::default()` = the canonical inhabitant; every `default = "path"` function returns
    the leaf `"fn"` -/
def canonD : Defaults := ⟨canon, fun _ => .atom "fn"⟩

end Altrios.Proofs.SerdeL
