import Altrios.Consist
import Proofs.Lemmas.Basic
import Mathlib.Algebra.Order.Field.Basic
import Mathlib.Tactic.Linarith
import Mathlib.Tactic.Ring
import Mathlib.Tactic.FieldSimp
import Mathlib.Tactic.Positivity
import Mathlib.Tactic.SplitIfs
import Mathlib.Data.List.Basic
import Mathlib.Data.List.Forall2
import Mathlib.Algebra.BigOperators.Group.List.Basic
import Mathlib.Algebra.BigOperators.Ring.List
import Mathlib.Algebra.Order.BigOperators.Group.List
/-
  Helper lemmas for C10 (consist power split): list sums, the closed form of every share vector
  (`splitProp`, `splitGreedy`, `splitNeg` all return `locos.map f` for an explicit per-unit `f`),
  the sum and the per-unit bounds of each of the five branches with raw (weakest) hypotheses,
  and what one `edrvReq` / `locoSolve` / `solveUnits` call does with a share.
  Used by `Proofs/C10.lean`.
-/
set_option linter.unusedSectionVars false
namespace Altrios.Proofs.SplitL
open Altrios Altrios.PT Altrios.CS Altrios.Proofs.Basic

variable {α : Type} [Field α] [LinearOrder α] [IsStrictOrderedRing α]

/-! ### list sums -/
section sums
variable {ι : Type}

theorem sum_map_div_mul (L : List ι) (f : ι → α) (d r : α) :
    (L.map (fun l => f l / d * r)).sum = (L.map f).sum / d * r := by
  induction L with
  | nil => simp
  | cons x xs ih => simp only [List.map_cons, List.sum_cons, ih]; ring

theorem sum_map_mul (L : List ι) (f : ι → α) (r : α) :
    (L.map (fun l => f l * r)).sum = (L.map f).sum * r := by
  induction L with
  | nil => simp
  | cons x xs ih => simp only [List.map_cons, List.sum_cons, ih]; ring

theorem sum_map_neg (L : List ι) (f : ι → α) :
    (L.map (fun l => -f l)).sum = -(L.map f).sum := by
  induction L with
  | nil => simp
  | cons x xs ih => simp only [List.map_cons, List.sum_cons, ih]; ring

theorem sum_map_sub (L : List ι) (f g : ι → α) :
    (L.map (fun l => f l - g l)).sum = (L.map f).sum - (L.map g).sum := by
  induction L with
  | nil => simp
  | cons x xs ih => simp only [List.map_cons, List.sum_cons, ih]; ring

theorem sum_map_add (L : List ι) (f g : ι → α) :
    (L.map (fun l => f l + g l)).sum = (L.map f).sum + (L.map g).sum := by
  induction L with
  | nil => simp
  | cons x xs ih => simp only [List.map_cons, List.sum_cons, ih]; ring

/-- a sum over an `if` splits into the sum over the units satisfying `p` and the rest -/
theorem sum_map_ite (L : List ι) (p : ι → Bool) (f g : ι → α) :
    (L.map (fun l => if p l then f l else g l)).sum =
      (L.map (fun l => if p l then f l else 0)).sum +
      (L.map (fun l => if p l then 0 else g l)).sum := by
  induction L with
  | nil => simp
  | cons x xs ih =>
    simp only [List.map_cons, List.sum_cons, ih]
    cases p x <;> simp <;> ring

theorem sum_map_compl (L : List ι) (p : ι → Bool) (f : ι → α) :
    (L.map f).sum = (L.map (fun l => if p l then f l else 0)).sum +
      (L.map (fun l => if p l then 0 else f l)).sum := by
  rw [← sum_map_ite]; simp

/-- if `f` vanishes off `p`, restricting the sum to `p` changes nothing -/
theorem sum_map_ite_of_zero (L : List ι) (p : ι → Bool) (f : ι → α)
    (h : ∀ l ∈ L, p l = false → f l = 0) :
    (L.map (fun l => if p l then f l else 0)).sum = (L.map f).sum := by
  congr 1
  apply List.map_congr_left
  intro l hl
  cases hp : p l
  · simp [h l hl hp]
  · simp

theorem sum_map_zero' (L : List ι) : (L.map (fun _ => (0 : α))).sum = 0 := by
  induction L with
  | nil => simp
  | cons x xs ih => simp
end sums

/-! ### scalar facts -/

/-- a share `p / d * r` with `0 ≤ r ≤ d`, `0 < d` lies between `0` and `p` when `0 ≤ p` -/
theorem frac_mul_bounds {p d r : α} (hp : 0 ≤ p) (hd : 0 < d) (hr0 : 0 ≤ r) (hr : r ≤ d) :
    0 ≤ p / d * r ∧ p / d * r ≤ p := by
  have h1 : p / d * r = p * (r / d) := by ring
  have h2 : 0 ≤ r / d := div_nonneg hr0 hd.le
  have h3 : r / d ≤ 1 := (div_le_one hd).mpr hr
  rw [h1]; exact ⟨mul_nonneg hp h2, mul_le_of_le_one_right hp h3⟩

/-- `almost_eq(x, x, eps)` holds for every positive `eps` (also when `x + x = 0`) -/
theorem almostEq_self (x eps : α) (heps : 0 < eps) : almostEq x x eps = true := by
  unfold almostEq
  have : absv (x - x) < eps := by rw [absv_eq_abs, sub_self, abs_zero]; exact heps
  simp only [Bool.or_eq_true, decide_eq_true_iff]
  exact Or.inr this

/-! ### closed forms: every share vector is `locos.map f` -/

/-- per-unit share of `Proportional::solve_positive_traction` -/
def propShare (s : ConsistState α) (l : Loco α) : α :=
  l.state.pwrOutMax / s.pwrOutMax * s.pwrOutReq

/-- per-unit share of `RESGreedy::solve_positive_traction` -/
def greedyShare (s : ConsistState α) (l : Loco α) : α :=
  if eqb s.pwrOutDeficit 0 then
    (if l.pt.isBel then l.state.pwrOutMax / s.pwrOutMaxReves * s.pwrOutReq else 0)
  else
    (if l.pt.isBel then l.state.pwrOutMax
     else l.state.pwrOutMax / s.pwrOutMaxNonReves * s.pwrOutDeficit)

/-- `frac` of `solve_negative_traction` -/
def negFrac (s : ConsistState α) : α :=
  if eqb s.pwrRegenMax 0 then 0 else mn (-s.pwrOutReq / s.pwrRegenMax) 1

/-- one entry of `get_pwr_regen_vec` -/
def regenOf (frac : α) (l : Loco α) : α :=
  if l.pt.isBel then l.state.pwrRegenMax * frac else 0

/-- one entry of `pwr_surplus_vec`: drivetrain rating minus assigned regeneration -/
def surplusOf (frac : α) (l : Loco α) : α := l.pt.edrv.pwrOutMax - regenOf frac l

/-- `pwr_surplus_sum` -/
def surplusSum (locos : List (Loco α)) (s : ConsistState α) : α :=
  sumLeft (locos.map (surplusOf (negFrac s)))

/-- `surplus_frac` -/
def surplusFrac (locos : List (Loco α)) (s : ConsistState α) : α :=
  s.pwrRegenDeficit / surplusSum locos s

/-- per-unit share of `solve_negative_traction` -/
def negShare (locos : List (Loco α)) (s : ConsistState α) (l : Loco α) : α :=
  if eqb s.pwrRegenDeficit 0 then -(regenOf (negFrac s) l)
  else -(surplusOf (negFrac s) l * surplusFrac locos s + regenOf (negFrac s) l)

theorem splitProp_eq (locos : List (Loco α)) (s : ConsistState α) :
    splitProp locos s = locos.map (propShare s) := rfl

/-- `splitGreedy` only ever panics with its own tag, and only when the sum check fails -/
theorem splitGreedy_cases (k : Consts α) (locos : List (Loco α)) (s : ConsistState α) :
    splitGreedy k locos s =
      if almostEq (sumLeft (locos.map (greedyShare s))) s.pwrOutReq k.eps
      then .ok (locos.map (greedyShare s)) else .panic "res-greedy-sum" := by
  have hv : (if eqb s.pwrOutDeficit 0 = true then
      locos.map (fun l => if l.pt.isBel then l.state.pwrOutMax / s.pwrOutMaxReves * s.pwrOutReq else 0)
    else
      locos.map (fun l => if l.pt.isBel then l.state.pwrOutMax
                          else l.state.pwrOutMax / s.pwrOutMaxNonReves * s.pwrOutDeficit))
      = locos.map (greedyShare s) := by
    split_ifs with hd
    · apply List.map_congr_left; intro l _; simp only [greedyShare, hd, if_true]
    · apply List.map_congr_left; intro l _; simp [greedyShare, hd]
  unfold splitGreedy
  simp only [hv]

theorem splitGreedy_ok {k : Consts α} {locos : List (Loco α)} {s : ConsistState α} {v : List α}
    (h : splitGreedy k locos s = .ok v) : v = locos.map (greedyShare s) := by
  rw [splitGreedy_cases] at h
  split_ifs at h
  cases h; rfl

theorem surplus_zip (locos : List (Loco α)) (f : α) :
    List.zipWith (fun (l : Loco α) r => l.pt.edrv.pwrOutMax - r) locos (regenVec locos f)
      = locos.map (surplusOf f) := by
  unfold regenVec
  rw [List.zipWith_map_right, List.zipWith_self]
  rfl

theorem brake_zip (locos : List (Loco α)) (f sf : α) :
    List.zipWith (fun sp r => sp * sf + r) (locos.map (surplusOf f)) (regenVec locos f)
      = locos.map (fun l => surplusOf f l * sf + regenOf f l) := by
  unfold regenVec
  rw [List.zipWith_map, List.zipWith_self]
  rfl

/-- `solve_negative_traction` in closed form: the only failure is the `surplus-frac` check -/
theorem splitNeg_cases (locos : List (Loco α)) (s : ConsistState α) :
    splitNeg locos s =
      if eqb s.pwrRegenDeficit 0 = true then .ok (locos.map (negShare locos s))
      else if 0 ≤ surplusFrac locos s ∧ surplusFrac locos s ≤ 1
        then .ok (locos.map (negShare locos s)) else .err "surplus-frac" := by
  unfold splitNeg
  simp only [bind, Res.bind, pure]
  have hf : (if eqb s.pwrRegenMax 0 = true then 0 else mn (-s.pwrOutReq / s.pwrRegenMax) 1)
      = negFrac s := rfl
  rw [hf, surplus_zip, brake_zip]
  have hss : sumLeft (locos.map (surplusOf (negFrac s))) = surplusSum locos s := rfl
  rw [hss]
  have hsf : s.pwrRegenDeficit / surplusSum locos s = surplusFrac locos s := rfl
  rw [hsf]
  by_cases hd : eqb s.pwrRegenDeficit 0 = true
  · rw [if_pos hd, if_pos hd]
    show Res.ok (List.map (fun x => -x) (regenVec locos (negFrac s))) = _
    congr 1
    unfold regenVec
    rw [List.map_map]
    apply List.map_congr_left; intro l _
    simp [negShare, hd, regenOf]
  · rw [if_neg hd, if_neg hd]
    by_cases hc : 0 ≤ surplusFrac locos s ∧ surplusFrac locos s ≤ 1
    · have he : ensure (decide (0 ≤ surplusFrac locos s) && decide (surplusFrac locos s ≤ 1))
          "surplus-frac" = .ok () := by
        simp [ensure, hc.1, hc.2]
      rw [he, if_pos hc]
      show Res.ok (List.map (fun x => -x) _) = _
      congr 1
      rw [List.map_map]
      apply List.map_congr_left; intro l _
      simp [negShare, hd]
    · have he : ensure (decide (0 ≤ surplusFrac locos s) && decide (surplusFrac locos s ≤ 1))
          "surplus-frac" = .err "surplus-frac" := by
        have : (decide (0 ≤ surplusFrac locos s) && decide (surplusFrac locos s ≤ 1)) = false := by
          rw [← Bool.not_eq_true]; simpa using hc
        simp [ensure, this]
      rw [he, if_neg hc]

theorem splitNeg_ok {locos : List (Loco α)} {s : ConsistState α} {v : List α}
    (h : splitNeg locos s = .ok v) :
    v = locos.map (negShare locos s) ∧
      (eqb s.pwrRegenDeficit 0 = false → 0 ≤ surplusFrac locos s ∧ surplusFrac locos s ≤ 1) := by
  rw [splitNeg_cases] at h
  split_ifs at h with hd hc
  · cases h; exact ⟨rfl, fun h' => by rw [hd] at h'; cases h'⟩
  · cases h; exact ⟨rfl, fun _ => hc⟩

theorem greedyShare_nodef (s : ConsistState α) (l : Loco α) (hd : s.pwrOutDeficit = 0) :
    greedyShare s l =
      if l.pt.isBel then l.state.pwrOutMax / s.pwrOutMaxReves * s.pwrOutReq else 0 := by
  simp only [greedyShare, (eqb_iff _ _).mpr hd, if_true]

theorem greedyShare_def (s : ConsistState α) (l : Loco α) (hd : s.pwrOutDeficit ≠ 0) :
    greedyShare s l =
      if l.pt.isBel then l.state.pwrOutMax
      else l.state.pwrOutMax / s.pwrOutMaxNonReves * s.pwrOutDeficit := by
  simp [greedyShare, (eqb_false_iff _ _).mpr hd]

/-! ### sums of the share vectors (raw hypotheses: the sum equations and non-zero denominators) -/

theorem propShare_sum (locos : List (Loco α)) (s : ConsistState α)
    (hS : s.pwrOutMax = (locos.map (fun l => l.state.pwrOutMax)).sum) (h0 : s.pwrOutMax ≠ 0) :
    (locos.map (propShare s)).sum = s.pwrOutReq := by
  unfold propShare; rw [sum_map_div_mul, ← hS, div_self h0, one_mul]

theorem greedyShare_sum_nodef (locos : List (Loco α)) (s : ConsistState α)
    (hR : s.pwrOutMaxReves =
      (locos.map (fun l => if l.pt.isBel then l.state.pwrOutMax else 0)).sum)
    (h0 : s.pwrOutMaxReves ≠ 0) (hd : s.pwrOutDeficit = 0) :
    (locos.map (greedyShare s)).sum = s.pwrOutReq := by
  have hd' : eqb s.pwrOutDeficit 0 = true := (eqb_iff _ _).mpr hd
  have : locos.map (greedyShare s) = locos.map (fun l =>
      (if l.pt.isBel then l.state.pwrOutMax else 0) / s.pwrOutMaxReves * s.pwrOutReq) := by
    apply List.map_congr_left; intro l _
    simp only [greedyShare, hd', if_true]
    split_ifs <;> simp
  rw [this, sum_map_div_mul, ← hR, div_self h0, one_mul]

theorem greedyShare_sum_def (locos : List (Loco α)) (s : ConsistState α)
    (hR : s.pwrOutMaxReves =
      (locos.map (fun l => if l.pt.isBel then l.state.pwrOutMax else 0)).sum)
    (hN : s.pwrOutMaxNonReves =
      (locos.map (fun l => if l.pt.isBel then 0 else l.state.pwrOutMax)).sum)
    (h0 : s.pwrOutMaxNonReves ≠ 0) (hd : s.pwrOutDeficit ≠ 0) :
    (locos.map (greedyShare s)).sum = s.pwrOutMaxReves + s.pwrOutDeficit := by
  have hd' : eqb s.pwrOutDeficit 0 = false := (eqb_false_iff _ _).mpr hd
  have : locos.map (greedyShare s) = locos.map (fun l =>
      if l.pt.isBel then l.state.pwrOutMax
      else l.state.pwrOutMax / s.pwrOutMaxNonReves * s.pwrOutDeficit) := by
    apply List.map_congr_left; intro l _
    simp [greedyShare, hd']
  rw [this, sum_map_ite, ← hR]
  have : locos.map (fun l => if l.pt.isBel then (0 : α)
        else l.state.pwrOutMax / s.pwrOutMaxNonReves * s.pwrOutDeficit)
      = locos.map (fun l => (if l.pt.isBel then 0 else l.state.pwrOutMax)
          / s.pwrOutMaxNonReves * s.pwrOutDeficit) := by
    apply List.map_congr_left; intro l _
    split_ifs <;> simp
  rw [this, sum_map_div_mul, ← hN, div_self h0, one_mul]

/-- battery-first, no deficit: the fuel-burning units get nothing -/
theorem greedy_nonbel_sum_nodef (locos : List (Loco α)) (s : ConsistState α)
    (hd : s.pwrOutDeficit = 0) :
    (locos.map (fun l => if l.pt.isBel then 0 else greedyShare s l)).sum = 0 := by
  have hd' : eqb s.pwrOutDeficit 0 = true := (eqb_iff _ _).mpr hd
  have : locos.map (fun l => if l.pt.isBel then 0 else greedyShare s l)
      = locos.map (fun _ => (0 : α)) := by
    apply List.map_congr_left; intro l _
    simp only [greedyShare, hd', if_true]
    split_ifs <;> rfl
  rw [this, sum_map_zero']

/-- battery-first, deficit: the fuel-burning units get exactly the deficit -/
theorem greedy_nonbel_sum_def (locos : List (Loco α)) (s : ConsistState α)
    (hN : s.pwrOutMaxNonReves =
      (locos.map (fun l => if l.pt.isBel then 0 else l.state.pwrOutMax)).sum)
    (h0 : s.pwrOutMaxNonReves ≠ 0) (hd : s.pwrOutDeficit ≠ 0) :
    (locos.map (fun l => if l.pt.isBel then 0 else greedyShare s l)).sum = s.pwrOutDeficit := by
  have hd' : eqb s.pwrOutDeficit 0 = false := (eqb_false_iff _ _).mpr hd
  have : locos.map (fun l => if l.pt.isBel then 0 else greedyShare s l)
      = locos.map (fun l => (if l.pt.isBel then 0 else l.state.pwrOutMax)
          / s.pwrOutMaxNonReves * s.pwrOutDeficit) := by
    apply List.map_congr_left; intro l _
    rw [greedyShare_def s l hd]
    split_ifs <;> simp
  rw [this, sum_map_div_mul, ← hN, div_self h0, one_mul]

/-! #### braking -/

theorem negFrac_nodef (s : ConsistState α) (hG : s.pwrRegenMax ≠ 0)
    (h1 : -s.pwrOutReq / s.pwrRegenMax ≤ 1) : negFrac s = -s.pwrOutReq / s.pwrRegenMax := by
  unfold negFrac
  rw [if_neg (by rw [eqb_iff]; exact hG), mn_eq_min, min_eq_left h1]

theorem negFrac_mul_def (s : ConsistState α)
    (h : s.pwrRegenMax = 0 ∨ 1 ≤ -s.pwrOutReq / s.pwrRegenMax) :
    s.pwrRegenMax * negFrac s = s.pwrRegenMax := by
  by_cases hG : s.pwrRegenMax = 0
  · rw [hG, zero_mul]
  · unfold negFrac
    rw [if_neg (by rw [eqb_iff]; exact hG), mn_eq_min, min_eq_right (h.resolve_left hG), mul_one]

theorem negFrac_bounds (s : ConsistState α) (hG : 0 ≤ s.pwrRegenMax) (hb : 0 ≤ -s.pwrOutReq) :
    0 ≤ negFrac s ∧ negFrac s ≤ 1 := by
  unfold negFrac
  split_ifs
  · exact ⟨le_refl _, zero_le_one⟩
  · rw [mn_eq_min]
    exact ⟨le_min (div_nonneg hb hG) zero_le_one, min_le_right _ _⟩

/-- `Σ get_pwr_regen_vec = (Σ pwr_regen_max) · frac`, provided non-battery units publish no regen -/
theorem regenOf_sum (locos : List (Loco α)) (f : α)
    (hnb : ∀ l ∈ locos, l.pt.isBel = false → l.state.pwrRegenMax = 0) :
    (locos.map (regenOf f)).sum = (locos.map (fun l => l.state.pwrRegenMax)).sum * f := by
  have : locos.map (regenOf f)
      = locos.map (fun l => (if l.pt.isBel then l.state.pwrRegenMax else 0) * f) := by
    apply List.map_congr_left; intro l _
    unfold regenOf; split_ifs <;> simp
  rw [this, sum_map_mul, sum_map_ite_of_zero _ _ _ hnb]

theorem negShare_sum_nodef (locos : List (Loco α)) (s : ConsistState α)
    (hG : s.pwrRegenMax = (locos.map (fun l => l.state.pwrRegenMax)).sum)
    (hnb : ∀ l ∈ locos, l.pt.isBel = false → l.state.pwrRegenMax = 0)
    (hG0 : s.pwrRegenMax ≠ 0) (h1 : -s.pwrOutReq / s.pwrRegenMax ≤ 1)
    (hd : s.pwrRegenDeficit = 0) :
    (locos.map (negShare locos s)).sum = s.pwrOutReq := by
  have hd' : eqb s.pwrRegenDeficit 0 = true := (eqb_iff _ _).mpr hd
  have : locos.map (negShare locos s) = locos.map (fun l => -regenOf (negFrac s) l) := by
    apply List.map_congr_left; intro l _
    simp only [negShare, hd', if_true]
  rw [this, sum_map_neg, regenOf_sum _ _ hnb, ← hG, negFrac_nodef s hG0 h1]
  field_simp

theorem surplusSum_eq (locos : List (Loco α)) (s : ConsistState α)
    (hG : s.pwrRegenMax = (locos.map (fun l => l.state.pwrRegenMax)).sum)
    (hnb : ∀ l ∈ locos, l.pt.isBel = false → l.state.pwrRegenMax = 0) :
    surplusSum locos s =
      (locos.map (fun l => l.pt.edrv.pwrOutMax)).sum - s.pwrRegenMax * negFrac s := by
  unfold surplusSum
  rw [sumLeft_eq_sum]
  have : locos.map (surplusOf (negFrac s))
      = locos.map (fun l => l.pt.edrv.pwrOutMax - regenOf (negFrac s) l) := rfl
  rw [this, sum_map_sub, regenOf_sum _ _ hnb, ← hG]

theorem negShare_sum_def (locos : List (Loco α)) (s : ConsistState α)
    (hG : s.pwrRegenMax = (locos.map (fun l => l.state.pwrRegenMax)).sum)
    (hnb : ∀ l ∈ locos, l.pt.isBel = false → l.state.pwrRegenMax = 0)
    (hfr : s.pwrRegenMax = 0 ∨ 1 ≤ -s.pwrOutReq / s.pwrRegenMax)
    (hSS : (locos.map (fun l => l.pt.edrv.pwrOutMax)).sum - s.pwrRegenMax ≠ 0)
    (hd : s.pwrRegenDeficit ≠ 0) :
    (locos.map (negShare locos s)).sum = -(s.pwrRegenDeficit + s.pwrRegenMax) := by
  have hd' : eqb s.pwrRegenDeficit 0 = false := (eqb_false_iff _ _).mpr hd
  have : locos.map (negShare locos s) = locos.map (fun l =>
      -(surplusOf (negFrac s) l * surplusFrac locos s + regenOf (negFrac s) l)) := by
    apply List.map_congr_left; intro l _
    simp [negShare, hd']
  have hss : surplusSum locos s = (locos.map (fun l => l.pt.edrv.pwrOutMax)).sum - s.pwrRegenMax := by
    rw [surplusSum_eq locos s hG hnb, negFrac_mul_def s hfr]
  have hsum : (locos.map (surplusOf (negFrac s))).sum = surplusSum locos s := by
    unfold surplusSum; rw [sumLeft_eq_sum]
  rw [this, sum_map_neg, sum_map_add, sum_map_mul, regenOf_sum _ _ hnb, ← hG,
    negFrac_mul_def s hfr, hsum]
  unfold surplusFrac
  rw [mul_div_cancel₀ _ (by rw [hss]; exact hSS)]

/-! ### per-unit bounds -/

theorem propShare_bounds (s : ConsistState α) (l : Loco α) (hS0 : 0 < s.pwrOutMax)
    (hr0 : 0 ≤ s.pwrOutReq) (hr : s.pwrOutReq ≤ s.pwrOutMax) (hP : 0 ≤ l.state.pwrOutMax) :
    0 ≤ propShare s l ∧ propShare s l ≤ l.state.pwrOutMax :=
  frac_mul_bounds hP hS0 hr0 hr

theorem greedyShare_bounds_nodef (s : ConsistState α) (l : Loco α) (hd : s.pwrOutDeficit = 0)
    (hR0 : 0 < s.pwrOutMaxReves) (hr0 : 0 ≤ s.pwrOutReq) (hr : s.pwrOutReq ≤ s.pwrOutMaxReves)
    (hP : 0 ≤ l.state.pwrOutMax) :
    0 ≤ greedyShare s l ∧ greedyShare s l ≤ l.state.pwrOutMax := by
  rw [greedyShare_nodef s l hd]
  split_ifs
  · exact frac_mul_bounds hP hR0 hr0 hr
  · exact ⟨le_refl _, hP⟩

theorem greedyShare_bounds_def (s : ConsistState α) (l : Loco α) (hd : s.pwrOutDeficit ≠ 0)
    (hN0 : 0 < s.pwrOutMaxNonReves) (hD0 : 0 ≤ s.pwrOutDeficit)
    (hD : s.pwrOutDeficit ≤ s.pwrOutMaxNonReves) (hP : 0 ≤ l.state.pwrOutMax) :
    0 ≤ greedyShare s l ∧ greedyShare s l ≤ l.state.pwrOutMax := by
  rw [greedyShare_def s l hd]
  split_ifs
  · exact ⟨hP, le_refl _⟩
  · exact frac_mul_bounds hP hN0 hD0 hD

theorem regenOf_bounds (f : α) (l : Loco α) (hf0 : 0 ≤ f) (hf1 : f ≤ 1)
    (hg0 : 0 ≤ l.state.pwrRegenMax) :
    0 ≤ regenOf f l ∧ regenOf f l ≤ l.state.pwrRegenMax := by
  unfold regenOf
  split_ifs
  · exact ⟨mul_nonneg hg0 hf0, mul_le_of_le_one_right hg0 hf1⟩
  · exact ⟨le_refl _, hg0⟩

theorem negShare_nodef (locos : List (Loco α)) (s : ConsistState α) (l : Loco α)
    (hd : s.pwrRegenDeficit = 0) : negShare locos s l = -regenOf (negFrac s) l := by
  have hd' : eqb s.pwrRegenDeficit 0 = true := (eqb_iff _ _).mpr hd
  simp only [negShare, hd', if_true]

theorem negShare_def (locos : List (Loco α)) (s : ConsistState α) (l : Loco α)
    (hd : s.pwrRegenDeficit ≠ 0) :
    negShare locos s l =
      -(surplusOf (negFrac s) l * surplusFrac locos s + regenOf (negFrac s) l) := by
  have hd' : eqb s.pwrRegenDeficit 0 = false := (eqb_false_iff _ _).mpr hd
  simp [negShare, hd']

/-- braking, no regen deficit: the unit's braking is its regen entry, within regen limit and rating -/
theorem negShare_bounds_nodef (locos : List (Loco α)) (s : ConsistState α) (l : Loco α)
    (hd : s.pwrRegenDeficit = 0) (hf0 : 0 ≤ negFrac s) (hf1 : negFrac s ≤ 1)
    (hg0 : 0 ≤ l.state.pwrRegenMax) (hgr : l.state.pwrRegenMax ≤ l.pt.edrv.pwrOutMax) :
    -l.pt.edrv.pwrOutMax ≤ negShare locos s l ∧ negShare locos s l ≤ 0 ∧
      -negShare locos s l ≤ l.state.pwrRegenMax := by
  have hb := regenOf_bounds (negFrac s) l hf0 hf1 hg0
  rw [negShare_nodef locos s l hd]
  refine ⟨?_, ?_, ?_⟩ <;> linarith [hb.1, hb.2]

/-- braking with regen deficit: at least the regen entry, at most the drivetrain rating -/
theorem negShare_bounds_def (locos : List (Loco α)) (s : ConsistState α) (l : Loco α)
    (hd : s.pwrRegenDeficit ≠ 0) (hf0 : 0 ≤ negFrac s) (hf1 : negFrac s ≤ 1)
    (hsf0 : 0 ≤ surplusFrac locos s) (hsf1 : surplusFrac locos s ≤ 1)
    (hg0 : 0 ≤ l.state.pwrRegenMax) (hgr : l.state.pwrRegenMax ≤ l.pt.edrv.pwrOutMax) :
    -l.pt.edrv.pwrOutMax ≤ negShare locos s l ∧ negShare locos s l ≤ 0 ∧
      regenOf (negFrac s) l ≤ -negShare locos s l := by
  have hb := regenOf_bounds (negFrac s) l hf0 hf1 hg0
  rw [negShare_def locos s l hd]
  have hsu : 0 ≤ surplusOf (negFrac s) l := by unfold surplusOf; linarith [hb.2]
  have h1 : 0 ≤ surplusOf (negFrac s) l * surplusFrac locos s := mul_nonneg hsu hsf0
  have h2 : surplusOf (negFrac s) l * surplusFrac locos s ≤ surplusOf (negFrac s) l :=
    mul_le_of_le_one_right hsu hsf1
  have h3 : surplusOf (negFrac s) l = l.pt.edrv.pwrOutMax - regenOf (negFrac s) l := rfl
  refine ⟨?_, ?_, ?_⟩ <;> linarith [hb.1, hb.2]

/-! ### what the units do with their shares -/

theorem ensure_of_true {p : Prop} [Decidable p] (tag : String) (h : p) :
    ensure (decide p) tag = .ok () := by
  unfold ensure; rw [if_pos (decide_eq_true h)]

theorem ensure_of_false {p : Prop} [Decidable p] (tag : String) (h : ¬p) :
    ensure (decide p) tag = .err tag := by
  unfold ensure; rw [if_neg (by simpa using h)]

/-- `ElectricDrivetrain::set_pwr_in_req` on success: request within rating; the propulsion part is
    the request clipped at `-pwr_mech_regen_max`; the rest is dynamic braking; parameters kept. -/
theorem edrvReq_ok {e e' : Edrv α} {req dt : α} (h : edrvReq e req dt = .ok e') :
    req ≤ e.pwrOutMax ∧
    e'.state.pwrMechPropOut = max req (-e.state.pwrMechRegenMax) ∧
    e'.state.pwrMechDynBrake = -(req - max req (-e.state.pwrMechRegenMax)) ∧
    e'.pwrOutMax = e.pwrOutMax ∧
    e'.state.pwrMechRegenMax = e.state.pwrMechRegenMax ∧
    e'.state.pwrMechOutMax = e.state.pwrMechOutMax := by
  unfold edrvReq at h
  simp only [bind, Res.bind, pure] at h
  by_cases h1 : req ≤ e.pwrOutMax
  · rw [ensure_of_true _ h1] at h
    simp only at h
    cases hi : Interp.interp1d (absv (req / e.pwrOutMax)) e.fracInterp e.etaInterp with
    | ok eta =>
      rw [hi] at h
      simp only at h
      by_cases h2 : 0 ≤ -(req - mx req (-e.state.pwrMechRegenMax))
      · rw [ensure_of_true _ h2] at h
        simp only at h
        cases h
        exact ⟨h1, mx_eq_max _ _, congrArg (fun t => -(req - t)) (mx_eq_max _ _), rfl, rfl, rfl⟩
      · rw [ensure_of_false _ h2] at h; cases h
    | err m => rw [hi] at h; cases h
    | panic m => rw [hi] at h; cases h
  · rw [ensure_of_false _ h1] at h; cases h

/-- net mechanical output of the drivetrain is exactly the request (exact arithmetic) -/
theorem edrvReq_net {e e' : Edrv α} {req dt : α} (h : edrvReq e req dt = .ok e') :
    e'.state.pwrMechPropOut - e'.state.pwrMechDynBrake = req := by
  obtain ⟨_, h2, h3, _⟩ := edrvReq_ok h
  rw [h2, h3]; ring

/-- regenerated mechanical power never exceeds the published regen limit -/
theorem edrvReq_regen_le {e e' : Edrv α} {req dt : α} (h : edrvReq e req dt = .ok e') :
    -e'.state.pwrMechPropOut ≤ e.state.pwrMechRegenMax := by
  obtain ⟨_, h2, _⟩ := edrvReq_ok h
  rw [h2]; linarith [le_max_right req (-e.state.pwrMechRegenMax)]

/-- a unit without regen capability, asked to brake, regenerates nothing: all of it is dynamic braking -/
theorem edrvReq_regen_zero {e e' : Edrv α} {req dt : α} (h : edrvReq e req dt = .ok e')
    (hr : req ≤ 0) (hg : e.state.pwrMechRegenMax = 0) :
    e'.state.pwrMechPropOut = 0 ∧ e'.state.pwrMechDynBrake = -req := by
  obtain ⟨_, h2, h3, _⟩ := edrvReq_ok h
  rw [h2, h3, hg, neg_zero, max_eq_right hr]; simp

/-- a non-negative request is passed through unchanged, with no dynamic braking -/
theorem edrvReq_pos {e e' : Edrv α} {req dt : α} (h : edrvReq e req dt = .ok e')
    (hr : 0 ≤ req) (hg : 0 ≤ e.state.pwrMechRegenMax) :
    e'.state.pwrMechPropOut = req ∧ e'.state.pwrMechDynBrake = 0 := by
  obtain ⟨_, h2, h3, _⟩ := edrvReq_ok h
  have : max req (-e.state.pwrMechRegenMax) = req := max_eq_left (by linarith)
  rw [h2, h3, this]; simp

theorem convSolve_ok {k : Consts α} {fc : FC α} {gen : Gen α} {edrv : Edrv α} {req dt aux : α}
    {on al : Bool} {pt : Powertrain α}
    (h : convSolve k fc gen edrv req dt on aux al = .ok pt) :
    pt.isBel = false ∧ edrvReq edrv req dt = .ok pt.edrv := by
  unfold convSolve at h
  simp only [bind, Res.bind, pure] at h
  split at h
  · rename_i e1 he
    split at h
    · rename_i g1 hg
      split at h
      · split at h
        · cases h; exact ⟨rfl, he⟩
        · cases h
        · cases h
      · cases h
      · cases h
    · cases h
    · cases h
  · cases h
  · cases h

theorem belSolve_ok {k : Consts α} {res : RES α} {edrv : Edrv α} {req dt aux : α}
    {pt : Powertrain α} (h : belSolve k res edrv req dt aux = .ok pt) :
    pt.isBel = true ∧ edrvReq edrv req dt = .ok pt.edrv := by
  unfold belSolve at h
  simp only [bind, Res.bind, pure] at h
  split at h
  · rename_i e1 he
    split at h
    · cases h; exact ⟨rfl, he⟩
    · cases h
    · cases h
  · cases h
  · cases h

/-- `Locomotive::solve_energy_consumption` on success: the unit's drivetrain accepted exactly the
    share, the unit's reported output is the share, its kind and published limits are unchanged. -/
theorem locoSolve_ok {k : Consts α} {l l' : Loco α} {p dt : α} {on : Option Bool}
    (h : locoSolve k l p dt on = .ok l') :
    edrvReq l.pt.edrv p dt = .ok l'.pt.edrv ∧
    l'.state.pwrOut = p ∧
    l'.pt.isBel = l.pt.isBel ∧
    l'.state.pwrOutMax = l.state.pwrOutMax ∧
    l'.state.pwrRegenMax = l.state.pwrRegenMax ∧
    l'.pt.edrv.pwrOutMax = l.pt.edrv.pwrOutMax := by
  unfold locoSolve at h
  simp only [bind, Res.bind, pure] at h
  split at h
  · rename_i pt hpt
    cases h
    have key : pt.isBel = l.pt.isBel ∧ edrvReq l.pt.edrv p dt = .ok pt.edrv := by
      cases hl : l.pt with
      | conv fc gen edrv =>
        rw [hl] at hpt
        exact convSolve_ok hpt
      | bel res edrv =>
        rw [hl] at hpt
        exact belSolve_ok hpt
    refine ⟨key.2, ?_, key.1, rfl, rfl, ?_⟩
    · exact edrvReq_net key.2
    · exact (edrvReq_ok key.2).2.2.2.1
  · cases h
  · cases h

/-- `solveUnits` on a share vector `locos.map f`: unit `l` is solved with share `f l`, in order -/
theorem solveUnits_map_ok {k : Consts α} {dt : α} {on : Option Bool} (f : Loco α → α) :
    ∀ {locos locos' : List (Loco α)}, solveUnits k dt on locos (locos.map f) = .ok locos' →
      List.Forall₂ (fun l l' => locoSolve k l (f l) dt on = .ok l') locos locos'
  | [], _, h => by
    simp only [solveUnits] at h
    cases h; exact .nil
  | l :: ls, _, h => by
    simp only [List.map_cons, solveUnits, bind, Res.bind, pure] at h
    split at h
    · rename_i l1 hl
      split at h
      · rename_i ls1 hls
        cases h
        exact .cons hl (solveUnits_map_ok f hls)
      · cases h
      · cases h
    · cases h
    · cases h

/-! ### `consistSolve` taken apart -/

/-- the consist state after the first lines of `Consist::solve_energy_consumption`
    (verbatim sub-expression of `consistSolve`, see `consistSolve_ok`) -/
def stepState (s : ConsistState α) (locos : List (Loco α)) (req : α) : ConsistState α :=
  { s with pwrOutReq := req,
           pwrOutDeficit := mx (req - s.pwrOutMaxReves) 0,
           pwrRegenDeficit := mx (-req - s.pwrRegenMax) 0,
           pwrDynBrakeMax := dynBrakeMax locos }

/-- the share vector `consistSolve` computes (verbatim sub-expression, see `consistSolve_ok`) -/
def sharesOf (k : Consts α) (pdct : Policy) (locos : List (Loco α)) (s : ConsistState α)
    (req : α) : Res (List α) :=
  if 0 < req then
    (match pdct with
     | .proportional => pure (splitProp locos s)
     | .resGreedy => splitGreedy k locos s)
  else if req < 0 then splitNeg locos s
  else pure (locos.map (fun _ => 0))

theorem consistSolve_ok {k : Consts α} {c c' : Consist α} {req dt : α} {on : Option Bool}
    (hal : c.assertLimits = true) (h : consistSolve k c req dt on = .ok c') :
    -req ≤ c.state.pwrDynBrakeMax ∧ req ≤ c.state.pwrOutMax ∧
    ∃ shares, sharesOf k c.pdct c.locos (stepState c.state c.locos req) req = .ok shares ∧
      solveUnits k dt on c.locos shares = .ok c'.locos ∧
      c'.state.pwrOut = sumLeft shares ∧
      (c'.state.pwrOutMax = c.state.pwrOutMax ∧ c'.state.pwrRegenMax = c.state.pwrRegenMax ∧
        c'.state.pwrOutMaxReves = c.state.pwrOutMaxReves ∧
        c'.state.pwrOutMaxNonReves = c.state.pwrOutMaxNonReves) ∧
      c'.state.pwrDynBrakeMax = dynBrakeMax c.locos := by
  unfold consistSolve at h
  simp only [bind, Res.bind, pure, hal, if_true] at h
  by_cases h1 : -req ≤ c.state.pwrDynBrakeMax
  · rw [ensure_of_true _ h1] at h
    simp only at h
    by_cases h2 : req ≤ c.state.pwrOutMax
    · rw [ensure_of_true _ h2] at h
      simp only at h
      split at h
      · rename_i shares hsh
        split at h
        · split at h
          · rename_i locos' hsu
            cases h
            exact ⟨h1, h2, shares, hsh, hsu, rfl, ⟨rfl, rfl, rfl, rfl⟩, rfl⟩
          · cases h
          · cases h
        · cases h
        · cases h
      · cases h
      · cases h
    · rw [ensure_of_false _ h2] at h; cases h
  · rw [ensure_of_false _ h1] at h; cases h

/-- `Consist::set_cur_pwr_max_out` on success publishes the four consist-level sums -/
theorem consistSetCurMax_ok {k : Consts α} {c c' : Consist α} {dt : α}
    (h : consistSetCurMax k c dt = .ok c') :
    mapM' (fun l => locoSetCurMax k l dt) c.locos = .ok c'.locos ∧
    c'.state.pwrOutMax = sumLeft (c'.locos.map (fun l => l.state.pwrOutMax)) ∧
    c'.state.pwrRegenMax = sumLeft (c'.locos.map (fun l => l.state.pwrRegenMax)) ∧
    c'.state.pwrOutMaxReves =
      sumLeft (c'.locos.map (fun l => if l.pt.isBel then l.state.pwrOutMax else 0)) ∧
    c'.state.pwrOutMaxNonReves = c'.state.pwrOutMax - c'.state.pwrOutMaxReves ∧
    c'.state.pwrDynBrakeMax = c.state.pwrDynBrakeMax ∧
    c'.assertLimits = c.assertLimits ∧ c'.pdct = c.pdct := by
  unfold consistSetCurMax at h
  simp only [bind, Res.bind, pure] at h
  split at h
  · rename_i locos hl
    cases h
    exact ⟨hl, rfl, rfl, rfl, rfl, rfl, rfl, rfl⟩
  · cases h
  · cases h

/-! ### what publishing the limits guarantees -/

theorem edrvSetCurMax_ok {e e' : Edrv α} {p : α} (h : edrvSetCurMax e p = .ok e') :
    e'.pwrOutMax = e.pwrOutMax ∧ e'.state.pwrMechRegenMax = e.state.pwrMechRegenMax := by
  unfold edrvSetCurMax at h
  simp only [bind, Res.bind, pure] at h
  split at h
  · split at h
    · cases h; exact ⟨rfl, rfl⟩
    · cases h
    · cases h
  · cases h
  · cases h

theorem edrvSetRegenMax_ok {e e' : Edrv α} {p : α} (h : edrvSetRegenMax e p = .ok e') :
    e'.pwrOutMax = e.pwrOutMax ∧ 0 ≤ e'.state.pwrMechRegenMax ∧
    e'.state.pwrMechRegenMax ≤ e.pwrOutMax ∧ e'.state.pwrMechOutMax = e.state.pwrMechOutMax := by
  unfold edrvSetRegenMax at h
  simp only [bind, Res.bind, pure] at h
  split at h
  · split at h
    · rename_i eta _
      by_cases h0 : 0 ≤ mn (p * eta) e.pwrOutMax
      · rw [ensure_of_true _ h0] at h
        simp only at h
        cases h
        refine ⟨rfl, h0, ?_, rfl⟩
        show mn (p * eta) e.pwrOutMax ≤ e.pwrOutMax
        rw [mn_eq_min]; exact min_le_right _ _
      · rw [ensure_of_false _ h0] at h; cases h
    · cases h
    · cases h
  · cases h
  · cases h

/-- `Locomotive::set_cur_pwr_max_out` on success: the published regen limit is the drivetrain's,
    non-negative, zero on a conventional unit, at most the rating on a battery unit;
    kind and rating are unchanged.  (Nothing of the kind holds for `pwrOutMax`.) -/
theorem locoSetCurMax_ok {k : Consts α} {l l' : Loco α} {dt : α}
    (h : locoSetCurMax k l dt = .ok l') :
    l'.pt.edrv.state.pwrMechRegenMax = l'.state.pwrRegenMax ∧
    l'.pt.edrv.state.pwrMechOutMax = l'.state.pwrOutMax ∧
    0 ≤ l'.state.pwrRegenMax ∧
    (l'.pt.isBel = false → l'.state.pwrRegenMax = 0) ∧
    (l'.pt.isBel = true → l'.state.pwrRegenMax ≤ l'.pt.edrv.pwrOutMax) ∧
    l'.pt.isBel = l.pt.isBel ∧ l'.pt.edrv.pwrOutMax = l.pt.edrv.pwrOutMax := by
  unfold locoSetCurMax at h
  simp only [bind, Res.bind, pure] at h
  split at h
  · -- conventional
    rename_i fc gen edrv hpt
    split at h
    · split at h
      · split at h
        · rename_i e1 he1
          split at h
          · cases h
          · rename_i hz
            cases h
            have hz' : e1.state.pwrMechRegenMax = 0 := by
              have : eqb e1.state.pwrMechRegenMax 0 = true := by simpa using hz
              exact (eqb_iff _ _).mp this
            refine ⟨rfl, rfl, ?_, ?_, ?_, ?_, ?_⟩
            · show 0 ≤ e1.state.pwrMechRegenMax
              rw [hz']
            · intro _; exact hz'
            · intro hb; cases hb
            · rw [hpt]; rfl
            · rw [hpt]; exact (edrvSetCurMax_ok he1).1
        · cases h
        · cases h
      · cases h
      · cases h
    · cases h
    · cases h
  · -- battery electric
    rename_i res edrv hpt
    split at h
    · split at h
      · rename_i e1 he1
        split at h
        · rename_i e2 he2
          cases h
          obtain ⟨hr, h0, hle, _⟩ := edrvSetRegenMax_ok he2
          refine ⟨rfl, rfl, h0, ?_, ?_, ?_, ?_⟩
          · intro hb; cases hb
          · intro _; show e2.state.pwrMechRegenMax ≤ e2.pwrOutMax; rw [hr]; exact hle
          · rw [hpt]; rfl
          · rw [hpt]; show e2.pwrOutMax = edrv.pwrOutMax; rw [hr, (edrvSetCurMax_ok he1).1]
        · cases h
        · cases h
      · cases h
      · cases h
    · cases h
    · cases h

theorem mapM'_ok {σ τ : Type} {f : σ → Res τ} :
    ∀ {l : List σ} {l' : List τ}, mapM' f l = .ok l' → List.Forall₂ (fun a b => f a = .ok b) l l'
  | [], _, h => by
    simp only [mapM'] at h
    cases h; exact .nil
  | a :: as, _, h => by
    simp only [mapM', bind, Res.bind, pure] at h
    split at h
    · rename_i b hb
      split at h
      · rename_i bs hbs
        cases h
        exact .cons hb (mapM'_ok hbs)
      · cases h
      · cases h
    · cases h
    · cases h

theorem consistSimStep_ok {k : Consts α} {c c' : Consist α} {req dt : α}
    (h : consistSimStep k c req dt = .ok c') :
    ∃ c1, consistSetCurMax k (consistSetAux c (some true)) dt = .ok c1 ∧
      consistSolve k c1 req dt (some true) = .ok c' := by
  unfold consistSimStep at h
  simp only [bind, Res.bind] at h
  split at h
  · rename_i c1 h1; exact ⟨c1, h1, h⟩
  · cases h
  · cases h

end Altrios.Proofs.SplitL
