import Altrios.PathTpc
import Proofs.Lemmas.Basic
import Mathlib.Algebra.Order.Field.Basic
import Mathlib.Tactic.Linarith
import Mathlib.Tactic.Ring
import Mathlib.Tactic.FieldSimp
import Mathlib.Tactic.SplitIfs
import Mathlib.Data.List.Basic
import Mathlib.Data.List.Chain
/-
  Helper definitions and lemmas for C06 (`PathTpc::extend`, model `Altrios/PathTpc.lean`).

    * generic facts about `Res`, `foldR`, `setLast`, `lastR`, `getL`;
    * the declarative vocabulary of the C06 statements: `LinkOK` (what `Link::validate` enforces),
      `Resolves`, closed forms of the four profiles (`routeLPs`, `routeGrades`, `routeCurves`,
      `routeCats`), `routeElev` (walk the links), `contig` (the contiguity checks);
    * closed forms of `pushGrades` / `pushCurves`, of one `extendGeometry` / `extendLinkPoint`
      step and of the two loops of `extend`;
    * frame lemmas (loop 1 reads/writes only `linkPoints`/`speedPoints`, loop 2 only
      `grades`/`curves`/`cats`) used by `extend_append`.
-/
set_option linter.unusedSectionVars false
set_option linter.unusedVariables false
namespace Altrios.Proofs.TpcL
open Altrios Altrios.SP Altrios.Tpc

/-! ## Generic: `Res`, `foldR`, `setLast`, `lastR`, `getL` -/

section generic
variable {σ τ β : Type}

/-- functorial action on the accepted value (errors and panics are passed through) -/
def rmap (f : σ → τ) : Res σ → Res τ
  | .ok s => .ok (f s)
  | .err e => .err e
  | .panic e => .panic e

/-- Boolean test of an outcome: accepted and the new value satisfies `p` (for `decide +kernel`) -/
def okAnd (p : σ → Bool) : Res σ → Bool | .ok x => p x | _ => false

theorem okAnd_exists {p : σ → Bool} {r : Res σ} (h : okAnd p r = true) :
    ∃ x, r = .ok x ∧ p x = true := by
  cases r <;> simp_all [okAnd]

@[simp] theorem bind_ok (s : σ) (f : σ → Res τ) : (Res.ok s).bind f = f s := rfl
@[simp] theorem bind_err (e : String) (f : σ → Res τ) : (Res.err e : Res σ).bind f = .err e := rfl
@[simp] theorem bind_panic (e : String) (f : σ → Res τ) : (Res.panic e : Res σ).bind f = .panic e := rfl

theorem bind_eq_ok {r : Res σ} {f : σ → Res τ} {y : τ} :
    r.bind f = .ok y ↔ ∃ x, r = .ok x ∧ f x = .ok y := by
  cases r <;> simp

theorem bind_assoc {υ : Type} (r : Res σ) (f : σ → Res τ) (h : τ → Res υ) :
    (r.bind f).bind h = r.bind (fun x => (f x).bind h) := by
  cases r <;> rfl

theorem bind_pure_ok (r : Res σ) : r.bind Res.ok = r := by cases r <;> rfl

theorem foldR_nil (f : σ → β → Res σ) (s : σ) : foldR f s [] = .ok s := rfl

theorem foldR_cons (f : σ → β → Res σ) (s : σ) (x : β) (xs : List β) :
    foldR f s (x :: xs) = (f s x).bind (fun s' => foldR f s' xs) := rfl

theorem foldR_append (f : σ → β → Res σ) (s : σ) (a b : List β) :
    foldR f s (a ++ b) = (foldR f s a).bind (fun s' => foldR f s' b) := by
  induction a generalizing s with
  | nil => rfl
  | cons x xs ih =>
    rw [List.cons_append, foldR_cons, foldR_cons, bind_assoc]
    congr 1; funext s'; exact ih s'

theorem ensure_true (tag : String) : ensure true tag = .ok () := rfl
theorem ensure_false (tag : String) : ensure false tag = .err tag := rfl

theorem setLast_append_singleton (L : List β) (x : β) (f : β → β) :
    setLast (L ++ [x]) f = L ++ [f x] := by
  unfold setLast; simp

theorem setLast_nil (f : β → β) : setLast ([] : List β) f = [] := rfl

theorem eq_append_of_ne_nil {l : List β} (h : l ≠ []) : ∃ L x, l = L ++ [x] :=
  ⟨l.dropLast, l.getLast h, (List.dropLast_append_getLast h).symm⟩

theorem setLast_length (l : List β) (f : β → β) : (setLast l f).length = l.length := by
  rcases List.eq_nil_or_concat l with rfl | ⟨L, x, rfl⟩
  · rfl
  · rw [List.concat_eq_append, setLast_append_singleton]; simp

theorem lastR_append_singleton (L : List β) (x : β) : lastR (L ++ [x]) = .ok x := by
  unfold lastR; simp

theorem lastR_nil : lastR ([] : List β) = .panic "unwrap-none" := rfl

theorem getL_eq_ok {l : List β} {i : Nat} {v : β} : getL l i = .ok v ↔ l[i]? = some v := by
  unfold getL; cases l[i]? <;> simp

theorem getL_of_some {l : List β} {i : Nat} {v : β} (h : l[i]? = some v) : getL l i = .ok v :=
  getL_eq_ok.mpr h

theorem getL_none {l : List β} {i : Nat} (h : l[i]? = none) : getL l i = .panic "index" := by
  unfold getL; rw [h]

end generic

/-! ## Vocabulary of the C06 statements -/

section defs
variable {α : Type} [Add α] [Sub α] [Mul α] [Div α] [Neg α] [LT α] [LE α]
  [DecidableLT α] [DecidableLE α] [OfNat α 0] [OfNat α 1]

/-- `route` names the links `links` of `net` (every index in range) -/
def Resolves (net : List (Link α)) (route : List Nat) (links : List (Link α)) : Prop :=
  route.map (fun i => net[i]?) = links.map some

/-- What `Link::validate` enforces on a real link (link_impl.rs:161-257, elev.rs:59, heading.rs):
    positive length; at least two elevation points, offsets strictly increasing, first `0`,
    last `= length`; headings empty or likewise. -/
structure LinkOK (l : Link α) : Prop where
  len_pos : 0 < l.length
  elev_two : 2 ≤ l.elevs.length
  elev_chain : l.elevs.IsChain (fun p c => p.off < c.off)
  elev_first : l.elevs.head?.map (·.off) = some 0
  elev_last : l.elevs.getLast?.map (·.off) = some l.length
  head_ok : l.headings = [] ∨
    (2 ≤ l.headings.length ∧ l.headings.IsChain (fun p c => p.off < c.off) ∧
      l.headings.head?.map (·.off) = some 0 ∧ l.headings.getLast?.map (·.off) = some l.length)

/-- first / last elevation of a point list (`0` on the empty list, which `LinkOK` excludes) -/
def elevFirst : List (Elev α) → α
  | [] => 0
  | p :: _ => p.elev
def elevLast : List (Elev α) → α
  | [] => 0
  | [p] => p.elev
  | _ :: c :: t => elevLast (c :: t)

/-- the link-point record written for `l` at offset `off` -/
def lpOf (off : α) (l : Link α) : LinkPt α :=
  ⟨off, max l.elevs.length 2 - 1, max l.headings.length 2 - 1, l.cats.length, l.idxCurr⟩

/-- closed form of the link points: the last (dummy) point `last` is overwritten by the first new
    link, every link appends a fresh dummy at `length + base` -/
def routeLPs (last : LinkPt α) : List (Link α) → List (LinkPt α)
  | [] => [last]
  | l :: ls => lpOf last.off l :: routeLPs ⟨l.length + last.off, 0, 0, 0, 0⟩ ls

/-- cumulative offsets `b, b + l₁, b + l₁ + l₂, …` -/
def prefixOffs (b : α) : List (Link α) → List α
  | [] => [b]
  | l :: ls => b :: prefixOffs (b + l.length) ls

/-- total length of a route -/
def routeLen : List (Link α) → α
  | [] => 0
  | l :: ls => l.length + routeLen ls

/-- grade segments of one link: one point per consecutive elevation pair `(p, c)`, at offset
    `b + p.off`, slope `(c.elev − p.elev)/(c.off − p.off)`, cumulative value `n + (p.elev − e0)` -/
def segGrades (b n e0 : α) : List (Elev α) → List (PRC α)
  | p :: c :: t =>
    ⟨b + p.off, (c.elev - p.elev) / (c.off - p.off), n + (p.elev - e0)⟩ :: segGrades b n e0 (c :: t)
  | _ => []

/-- closed form of `grades` behind a terminal point `⟨b, c0, n⟩` -/
def routeGrades (b c0 n : α) : List (Link α) → List (PRC α)
  | [] => [⟨b, c0, n⟩]
  | l :: ls =>
    segGrades b n (elevFirst l.elevs) l.elevs ++
      routeGrades (b + l.length) 0 (n + (elevLast l.elevs - elevFirst l.elevs)) ls

/-- curve segments of one link: one point per consecutive heading pair -/
def segCurves (g : GeoConsts α) (par : TrainPar α) (b n : α) : List (Heading α) → List (PRC α)
  | p :: c :: t =>
    ⟨b + p.off, curveCoeff g par (c.heading - p.heading) (c.off - p.off), n⟩ ::
      segCurves g par b
        (n + curveCoeff g par (c.heading - p.heading) (c.off - p.off) * (c.off - p.off)) (c :: t)
  | _ => []

/-- cumulative curve value behind a heading list -/
def curvesNet (g : GeoConsts α) (par : TrainPar α) (n : α) : List (Heading α) → α
  | p :: c :: t =>
    curvesNet g par
      (n + curveCoeff g par (c.heading - p.heading) (c.off - p.off) * (c.off - p.off)) (c :: t)
  | _ => n

/-- closed form of `curves` behind a terminal point `⟨b, c0, n⟩`: a link without headings keeps
    the terminal point (coefficient `c0`, `0` after the first link) as its only segment -/
def routeCurves (g : GeoConsts α) (par : TrainPar α) (b c0 n : α) : List (Link α) → List (PRC α)
  | [] => [⟨b, c0, n⟩]
  | l :: ls =>
    (if l.headings.isEmpty then [⟨b, c0, n⟩] else segCurves g par b n l.headings) ++
      routeCurves g par (b + l.length) 0 (curvesNet g par n l.headings) ls

/-- a catenary section shifted by the link's base offset -/
def shiftCat (b : α) (c : CatLim α) : CatLim α := { c with s := b + c.s, e := b + c.e }

/-- closed form of the catenary sections added by a route starting at base `b` -/
def routeCats (b : α) : List (Link α) → List (CatLim α)
  | [] => []
  | l :: ls => l.cats.map (shiftCat b) ++ routeCats (b + l.length) ls

/-- elevation inside one link by its own points, at the link-relative position `x`
    (linear interpolation; constant beyond the last point) -/
def linkElev : List (Elev α) → α → α
  | p :: c :: t, x =>
    if x ≤ c.off then p.elev + (c.elev - p.elev) / (c.off - p.off) * (x - p.off)
    else linkElev (c :: t) x
  | [p], _ => p.elev
  | [], _ => 0

/-- walk the links: inside a link add the elevation difference to the link's first point,
    behind it carry the link's total rise to the next link -/
def routeElevFrom (e : α) : List (Link α) → α → α
  | [], _ => e
  | l :: ls, x =>
    if x ≤ l.length then e + (linkElev l.elevs x - elevFirst l.elevs)
    else routeElevFrom (e + (elevLast l.elevs - elevFirst l.elevs)) ls (x - l.length)

/-- elevation of a route at path position `x`, from the route's own elevation points: starts at the
    first elevation of the first link -/
def routeElev (links : List (Link α)) (x : α) : α :=
  match links with
  | [] => 0
  | l :: _ => routeElevFrom (elevFirst l.elevs) links x

/-- the contiguity `ensure!`s of one link against the previous link index -/
def linked (prev : Nat) (l : Link α) : Bool :=
  (prev != 0) && (l.idxPrev != l.idxPrevAlt || l.idxPrevAlt == 0) &&
  (l.idxNext != l.idxNextAlt || l.idxNextAlt == 0) && (l.idxPrev == prev || l.idxPrevAlt == prev)

/-- the checks run only when there is a previous link (`link_points.len() >= 2`) -/
def linkedOpt : Option Nat → Link α → Bool
  | none, _ => true
  | some prev, l => linked prev l

/-- every link is accepted by the contiguity checks, `prev` being the link before the first -/
def contig : Option Nat → List (Link α) → Bool
  | _, [] => true
  | prev, l :: ls => linkedOpt prev l && contig (some l.idxCurr) ls

/-- the link index in front of the dummy link point, if any -/
def prevIdx (lps : List (LinkPt α)) : Option Nat := lps.dropLast.getLast?.map (·.linkIdx)

/-- the speed-point part of loop 1 on its own: `add_speeds` link by link at the cumulative bases -/
def routeSpeeds (toU32 : α → Nat) (par : TrainPar α) (sp : List (Pt α)) (b : α) :
    List (Link α) → Res (List (Pt α))
  | [] => .ok sp
  | l :: ls =>
    (extractSpeedSet l par.trainType).bind fun ss =>
    (addSpeedsIdx toU32 sp par.tp ss.params ss.isHeadEnd ss.lims b).bind fun sp' =>
    routeSpeeds toU32 par sp' (l.length + b) ls

/-- the initial-elevation prelude of `extend` -/
def prelude (net : List (Link α)) (t : Tpc α) (path : List Nat) : Res (Tpc α) :=
  if t.grades.length == 1 && !path.isEmpty then do
    let first ← getL path 0
    let l ← getL net first
    match l.elevs.head? with
    | some e => pure { t with grades := setLast t.grades (fun x => { x with net := e.elev }) }
    | none => pure t
  else pure t

/-- `extend` behind its four `ensure!`s -/
def extendCore (toU32 : α → Nat) (g : GeoConsts α) (net : List (Link α)) (t : Tpc α)
    (path : List Nat) : Res (Tpc α) :=
  (prelude net t path).bind fun t0 =>
  (foldR (extendLinkPoint toU32 net) t0 path).bind fun t1 =>
  foldR (extendGeometry g net) t1 path

theorem extend_eq (toU32 : α → Nat) (g : GeoConsts α) (net : List (Link α)) (t : Tpc α)
    (path : List Nat) :
    extend toU32 g net t path =
      (ensure (!t.linkPoints.isEmpty) "link-points-empty").bind fun _ =>
      (ensure (!t.grades.isEmpty) "grades-empty").bind fun _ =>
      (ensure (!t.curves.isEmpty) "curves-empty").bind fun _ =>
      (ensure (!t.speedPoints.isEmpty) "speed-points-empty").bind fun _ =>
      extendCore toU32 g net t path := rfl

/-- the contiguity block of loop 1 (`if self.link_points.len() >= 2 { … }`) -/
def contigChecks (lps : List (LinkPt α)) (link : Link α) : Res Unit :=
  if lps.length ≥ 2 then
    (getL lps (lps.length - 2)).bind fun prevLp =>
    (ensure (prevLp.linkIdx != 0) "prev-fake").bind fun _ =>
    (ensure (link.idxPrev != link.idxPrevAlt || link.idxPrevAlt == 0) "prev-alt-dup").bind fun _ =>
    (ensure (link.idxNext != link.idxNextAlt || link.idxNextAlt == 0) "next-alt-dup").bind fun _ =>
    ensure (link.idxPrev == prevLp.linkIdx || link.idxPrevAlt == prevLp.linkIdx) "not-contiguous"
  else .ok ()

theorem extendLinkPoint_eq (toU32 : α → Nat) (net : List (Link α)) (t : Tpc α) (idx : Nat) :
  extendLinkPoint toU32 net t idx =
  (ensure (idx != 0) "link-idx-fake").bind fun _ =>
  (getL net idx).bind fun link =>
  (lastR t.linkPoints).bind fun lastLp =>
  (contigChecks t.linkPoints link).bind fun _ =>
  (extractSpeedSet link t.par.trainType).bind fun ss =>
  (addSpeedsIdx toU32 t.speedPoints t.par.tp ss.params ss.isHeadEnd ss.lims lastLp.off).bind fun sp =>
  .ok { t with speedPoints := sp, linkPoints := setLast t.linkPoints (fun _ => lpOf lastLp.off link) ++ [⟨link.length + lastLp.off, 0,0,0,0⟩] } := by
  unfold extendLinkPoint contigChecks
  simp only [bind, pure]
  cases ensure (idx != 0) "link-idx-fake" <;> simp only [bind_ok, bind_err, bind_panic]
  cases getL net idx <;> simp only [bind_ok, bind_err, bind_panic]
  cases lastR t.linkPoints <;> simp only [bind_ok, bind_err, bind_panic]
  split_ifs
  · simp only [bind_assoc]; rfl
  · rfl

theorem extendGeometry_eq (g : GeoConsts α) (net : List (Link α)) (t : Tpc α) (idx : Nat) :
  extendGeometry g net t idx =
  (getL net idx).bind fun link =>
  (lastR t.grades).bind fun lastG =>
  (lastR t.curves).bind fun lastC =>
  .ok { t with
    grades := if link.elevs.isEmpty then t.grades ++ [⟨lastG.off + link.length, 0, lastG.net⟩]
      else (pushGrades t.grades lastG.off lastG.net link.elevs).1,
    curves := if link.headings.isEmpty then t.curves ++ [⟨lastG.off + link.length, 0, lastC.net⟩]
      else (pushCurves g t.par t.curves lastG.off lastC.net link.headings).1,
    cats := t.cats ++ link.cats.map (shiftCat lastG.off) } := rfl

/-- the contiguity checks never panic and accept exactly when `linkedOpt` holds -/
theorem contigChecks_eq (L : List (LinkPt α)) (last : LinkPt α) (link : Link α) :
    (linkedOpt (L.getLast?.map (·.linkIdx)) link = true → contigChecks (L ++ [last]) link = .ok ()) ∧
    (linkedOpt (L.getLast?.map (·.linkIdx)) link = false → ∃ tag, contigChecks (L ++ [last]) link = .err tag) := by
  rcases List.eq_nil_or_concat L with rfl | ⟨L', q, rfl⟩
  · simp [contigChecks, linkedOpt]
  · have hlen : (L'.concat q ++ [last]).length ≥ 2 := by simp
    have hget : getL (L'.concat q ++ [last]) ((L'.concat q ++ [last]).length - 2) = .ok q := by
      apply getL_of_some; simp
    unfold contigChecks
    rw [if_pos hlen, hget]
    simp only [bind_ok, List.concat_eq_append, List.getLast?_append, List.getLast?_singleton, Option.some_or,
      Option.map_some, linkedOpt, linked]
    cases h1 : (q.linkIdx != 0) <;> cases h2 : (link.idxPrev != link.idxPrevAlt || link.idxPrevAlt == 0) <;>
      cases h3 : (link.idxNext != link.idxNextAlt || link.idxNextAlt == 0) <;>
      cases h4 : (link.idxPrev == q.linkIdx || link.idxPrevAlt == q.linkIdx) <;>
      simp [ensure]

theorem resolves_nil {net : List (Link α)} {route : List Nat} :
    Resolves net route [] ↔ route = [] := by
  unfold Resolves; simp

theorem resolves_cons {net : List (Link α)} {route : List Nat} {l : Link α} {ls : List (Link α)} :
    Resolves net route (l :: ls) ↔ ∃ i r, route = i :: r ∧ net[i]? = some l ∧ Resolves net r ls := by
  unfold Resolves
  cases route with
  | nil => simp
  | cons i r => simp

theorem resolves_length {net : List (Link α)} {route : List Nat} {links : List (Link α)}
    (h : Resolves net route links) : route.length = links.length := by
  have := congrArg List.length h; simpa using this

theorem resolves_append {net : List (Link α)} {r1 r2 : List Nat} {l1 l2 : List (Link α)}
    (h1 : Resolves net r1 l1) (h2 : Resolves net r2 l2) : Resolves net (r1 ++ r2) (l1 ++ l2) := by
  unfold Resolves at *; simp [h1, h2]

@[simp] theorem lpOf_linkIdx (o : α) (l : Link α) : (lpOf o l).linkIdx = l.idxCurr := rfl
@[simp] theorem lpOf_off (o : α) (l : Link α) : (lpOf o l).off = o := rfl

/-- one step of loop 1, accepted outcomes -/
theorem extendLinkPoint_ok_iff (toU32 : α → Nat) (net : List (Link α)) {t t' : Tpc α}
    {L : List (LinkPt α)} {last : LinkPt α} {idx : Nat} {l : Link α}
    (hl : net[idx]? = some l) (hL : t.linkPoints = L ++ [last]) :
    extendLinkPoint toU32 net t idx = .ok t' ↔
      idx ≠ 0 ∧ linkedOpt (L.getLast?.map (·.linkIdx)) l = true ∧
      ∃ ss, extractSpeedSet l t.par.trainType = .ok ss ∧
      ∃ sp, addSpeedsIdx toU32 t.speedPoints t.par.tp ss.params ss.isHeadEnd ss.lims last.off = .ok sp ∧
        t' = { t with speedPoints := sp,
                      linkPoints := L ++ [lpOf last.off l, ⟨l.length + last.off, 0, 0, 0, 0⟩] } := by
  rw [extendLinkPoint_eq, getL_of_some hl, hL, lastR_append_singleton]
  simp only [bind_ok, setLast_append_singleton]
  have hc := contigChecks_eq L last l
  by_cases h0 : idx = 0
  · subst h0; simp [ensure]
  · have : (idx != 0) = true := by simpa using h0
    rw [this, ensure_true, bind_ok]
    cases hlk : linkedOpt (L.getLast?.map (·.linkIdx)) l
    · obtain ⟨tag, ht⟩ := hc.2 hlk
      rw [ht]; simp
    · rw [hc.1 hlk, bind_ok]
      simp only [bind_eq_ok, ne_eq, h0, not_false_eq_true, true_and, Res.ok.injEq, List.append_assoc,
        List.cons_append, List.nil_append]
      constructor
      · rintro ⟨ss, hss, sp, hsp, rfl⟩; exact ⟨ss, hss, sp, hsp, rfl⟩
      · rintro ⟨ss, hss, sp, hsp, rfl⟩; exact ⟨ss, hss, sp, hsp, rfl⟩

/-- loop 1 on a resolved route: accepted exactly when no index is fake, the contiguity checks hold
    and the speed part succeeds; the link points are then given by `routeLPs` -/
theorem lp_fold_ok_iff (toU32 : α → Nat) (net : List (Link α)) :
    ∀ (links : List (Link α)) (route : List Nat) (t t' : Tpc α) (L : List (LinkPt α)) (last : LinkPt α),
    Resolves net route links → t.linkPoints = L ++ [last] →
    (foldR (extendLinkPoint toU32 net) t route = .ok t' ↔
      (∀ i ∈ route, i ≠ 0) ∧ contig (L.getLast?.map (·.linkIdx)) links = true ∧
      ∃ sp, routeSpeeds toU32 t.par t.speedPoints last.off links = .ok sp ∧
        t' = { t with speedPoints := sp, linkPoints := L ++ routeLPs last links }) := by
  intro links
  induction links with
  | nil =>
    intro route t t' L last hres hL
    rw [resolves_nil] at hres; subst hres
    simp only [foldR_nil, Res.ok.injEq, List.not_mem_nil, false_imp_iff, implies_true, contig,
      routeSpeeds, routeLPs, true_and, exists_eq_left']
    constructor
    · rintro rfl; cases t; simp only at hL; subst hL; rfl
    · rintro rfl; cases t; simp only at hL; subst hL; rfl
  | cons l ls ih =>
    intro route t t' L last hres hL
    obtain ⟨i, r, rfl, hl, hres'⟩ := resolves_cons.mp hres
    rw [foldR_cons, bind_eq_ok]
    constructor
    · rintro ⟨t1, h1, h2⟩
      obtain ⟨hi0, hlk, ss, hss, sp1, hsp1, rfl⟩ := (extendLinkPoint_ok_iff toU32 net hl hL).mp h1
      have := (ih r _ t' (L ++ [lpOf last.off l]) ⟨l.length + last.off, 0, 0, 0, 0⟩ hres'
        (by simp)).mp h2
      obtain ⟨hr0, hcon, sp, hsp, rfl⟩ := this
      refine ⟨?_, ?_, sp, ?_, ?_⟩
      · intro j hj; rcases List.mem_cons.mp hj with rfl | hj
        · exact hi0
        · exact hr0 j hj
      · simp only [contig, hlk, Bool.true_and]
        simpa using hcon
      · simp only [routeSpeeds, hss, bind_ok, hsp1]; exact hsp
      · simp [routeLPs]
    · rintro ⟨h0, hcon, sp, hsp, rfl⟩
      simp only [contig, Bool.and_eq_true] at hcon
      simp only [routeSpeeds, bind_eq_ok] at hsp
      obtain ⟨ss, hss, sp1, hsp1, hsp⟩ := hsp
      refine ⟨_, (extendLinkPoint_ok_iff toU32 net hl hL).mpr
        ⟨h0 i (by simp), hcon.1, ss, hss, sp1, hsp1, rfl⟩, ?_⟩
      apply (ih r _ _ (L ++ [lpOf last.off l]) ⟨l.length + last.off, 0, 0, 0, 0⟩ hres' (by simp)).mpr
      refine ⟨fun j hj => h0 j (by simp [hj]), by simpa using hcon.2, sp, hsp, ?_⟩
      simp [routeLPs]

/-- the cumulative value the terminal grade point carries into loop 2: the first elevation of the
    first new link when the path is fresh (`grades.len() == 1`), otherwise unchanged -/
def initNet (G : List (PRC α)) (ng : α) (links : List (Link α)) : α :=
  match G, links with
  | [], l :: _ => elevFirst l.elevs
  | _, _ => ng

theorem lp_fold_resolves (toU32 : α → Nat) (net : List (Link α)) :
    ∀ (route : List Nat) (t t' : Tpc α), foldR (extendLinkPoint toU32 net) t route = .ok t' →
      ∃ links, Resolves net route links := by
  intro route
  induction route with
  | nil => intro _ _ _; exact ⟨[], resolves_nil.mpr rfl⟩
  | cons i r ih =>
    intro t t' h
    rw [foldR_cons, bind_eq_ok] at h
    obtain ⟨t1, h1, h2⟩ := h
    obtain ⟨ls, hls⟩ := ih t1 t' h2
    rw [extendLinkPoint_eq] at h1
    obtain ⟨_, _, h1⟩ := bind_eq_ok.mp h1
    obtain ⟨l, hl, _⟩ := bind_eq_ok.mp h1
    exact ⟨l :: ls, resolves_cons.mpr ⟨i, r, rfl, getL_eq_ok.mp hl, hls⟩⟩

theorem prelude_ok (net : List (Link α)) (t : Tpc α) (route : List Nat) (links : List (Link α))
    (G : List (PRC α)) (b cg ng : α)
    (hres : Resolves net route links) (hne : ∀ l ∈ links, l.elevs ≠ [])
    (hG : t.grades = G ++ [⟨b, cg, ng⟩]) :
    prelude net t route = .ok { t with grades := G ++ [⟨b, cg, initNet G ng links⟩] } := by
  unfold prelude
  cases G with
  | nil =>
    cases links with
    | nil =>
      rw [resolves_nil] at hres; subst hres
      cases t; simp only at hG; subst hG
      simp [initNet, pure]
    | cons l ls =>
      obtain ⟨i, r, rfl, hl, _⟩ := resolves_cons.mp hres
      have : l.elevs ≠ [] := hne l (by simp)
      obtain ⟨p, es, hes⟩ := List.exists_cons_of_ne_nil this
      have h0 : getL (i :: r) 0 = .ok i := getL_of_some (by simp)
      simp only [hG, List.nil_append, List.length_singleton, beq_self_eq_true, List.isEmpty_cons,
        Bool.not_false, Bool.and_self, if_true, bind, h0, bind_ok, getL_of_some hl, hes, List.head?_cons,
        pure, initNet, elevFirst]
      rw [show ([({ off := b, coeff := cg, net := ng } : PRC α)]) = [] ++ [⟨b, cg, ng⟩] from rfl,
        setLast_append_singleton]
      rfl
  | cons x G' =>
    cases t; simp only at hG; subst hG
    simp [initNet, pure]

/-- the real (non-dummy) link points of a route starting at base `b` -/
def lpsBody (b : α) : List (Link α) → List (LinkPt α)
  | [] => []
  | l :: ls => lpOf b l :: lpsBody (l.length + b) ls

theorem routeLPs_ne_nil (last : LinkPt α) (links : List (Link α)) : routeLPs last links ≠ [] := by
  cases links <;> simp [routeLPs]

theorem routeLPs_dropLast : ∀ (links : List (Link α)) (last : LinkPt α),
    (routeLPs last links).dropLast = lpsBody last.off links
  | [], last => rfl
  | l :: ls, last => by
    rw [routeLPs, List.dropLast_cons_of_ne_nil (routeLPs_ne_nil _ _), routeLPs_dropLast ls, lpsBody]

theorem lpsBody_linkIdx : ∀ (links : List (Link α)) (b : α),
    (lpsBody b links).map (·.linkIdx) = links.map (·.idxCurr)
  | [], _ => rfl
  | l :: ls, b => by simp [lpsBody, lpsBody_linkIdx ls]

theorem lpsBody_gradeCount : ∀ (links : List (Link α)) (b : α),
    (lpsBody b links).map (·.gradeCount) = links.map (fun l => max l.elevs.length 2 - 1)
  | [], _ => rfl
  | l :: ls, b => by simp [lpsBody, lpsBody_gradeCount ls, lpOf]

theorem lpsBody_curveCount : ∀ (links : List (Link α)) (b : α),
    (lpsBody b links).map (·.curveCount) = links.map (fun l => max l.headings.length 2 - 1)
  | [], _ => rfl
  | l :: ls, b => by simp [lpsBody, lpsBody_curveCount ls, lpOf]

theorem lpsBody_catCount : ∀ (links : List (Link α)) (b : α),
    (lpsBody b links).map (·.catCount) = links.map (fun l => l.cats.length)
  | [], _ => rfl
  | l :: ls, b => by simp [lpsBody, lpsBody_catCount ls, lpOf]

theorem lpsBody_length : ∀ (links : List (Link α)) (b : α), (lpsBody b links).length = links.length
  | [], _ => rfl
  | l :: ls, b => by simp [lpsBody, lpsBody_length ls]

theorem foldl_count {β : Type} (f : β → Nat) (l : List β) (a : Nat) :
    l.foldl (fun a p => a + f p) a = a + (l.map f).sum := by
  induction l generalizing a with
  | nil => simp
  | cons x xs ih => simp [ih, Nat.add_assoc]

theorem segGrades_length (b n e0 : α) : ∀ es : List (Elev α), (segGrades b n e0 es).length = es.length - 1
  | [] => rfl
  | [_] => rfl
  | p :: c :: t => by simp [segGrades, segGrades_length b n e0 (c :: t)]

theorem segCurves_length (g : GeoConsts α) (par : TrainPar α) (b : α) :
    ∀ (hs : List (Heading α)) (n : α), (segCurves g par b n hs).length = hs.length - 1
  | [], _ => rfl
  | [_], _ => rfl
  | p :: c :: t, n => by simp [segCurves, segCurves_length g par b (c :: t)]

theorem routeGrades_length : ∀ (links : List (Link α)) (b c0 n : α),
    (routeGrades b c0 n links).length = (links.map (fun l => l.elevs.length - 1)).sum + 1
  | [], _, _, _ => rfl
  | l :: ls, b, c0, n => by
    simp [routeGrades, segGrades_length, routeGrades_length ls, Nat.add_assoc]

theorem routeCurves_length (g : GeoConsts α) (par : TrainPar α) : ∀ (links : List (Link α)) (b c0 n : α),
    (routeCurves g par b c0 n links).length =
      (links.map (fun l => if l.headings.isEmpty then 1 else l.headings.length - 1)).sum + 1
  | [], _, _, _ => rfl
  | l :: ls, b, c0, n => by
    simp only [routeCurves, List.length_append, routeCurves_length g par ls, List.map_cons, List.sum_cons]
    split_ifs <;> simp [segCurves_length, Nat.add_assoc]

theorem routeCats_length : ∀ (links : List (Link α)) (b : α),
    (routeCats b links).length = (links.map (fun l => l.cats.length)).sum
  | [], _ => rfl
  | l :: ls, b => by simp [routeCats, routeCats_length ls]

/-- `routeCats` as a plain shifted concatenation over the cumulative offsets -/
theorem routeCats_eq_flatMap : ∀ (links : List (Link α)) (b : α),
    routeCats b links =
      ((prefixOffs b links).zip links).flatMap (fun ol => ol.2.cats.map (shiftCat ol.1))
  | [], _ => by simp [routeCats, prefixOffs]
  | l :: ls, b => by simp [routeCats, prefixOffs, routeCats_eq_flatMap ls]


end defs

/-! ## Over an ordered field -/

section field
variable {α : Type} [Field α] [LinearOrder α] [IsStrictOrderedRing α]

theorem pushGrades_eq (b n0 e0 : α) : ∀ (t : List (Elev α)) (p c e : Elev α) (G : List (PRC α)) (c0 : α),
    (p :: c :: t).getLast? = some e →
    pushGrades (G ++ [⟨b + p.off, c0, n0 + (p.elev - e0)⟩]) b (n0 + (p.elev - e0)) (p :: c :: t)
      = (G ++ segGrades b n0 e0 (p :: c :: t) ++ [⟨b + e.off, 0, n0 + (e.elev - e0)⟩],
          n0 + (e.elev - e0)) := by
  intro t
  induction t with
  | nil =>
    intro p c e G c0 he
    simp only [List.getLast?_cons_cons, List.getLast?_singleton, Option.some.injEq] at he
    subst he
    have hn : n0 + (p.elev - e0) + c.elev - p.elev = n0 + (c.elev - e0) := by ring
    simp only [pushGrades, setLast_append_singleton, segGrades, hn, List.append_assoc, List.cons_append, List.nil_append]
  | cons d t ih =>
    intro p c e G c0 he
    rw [List.getLast?_cons_cons] at he
    have hn : n0 + (p.elev - e0) + c.elev - p.elev = n0 + (c.elev - e0) := by ring
    rw [pushGrades, setLast_append_singleton, hn, segGrades]
    have := ih c d e (G ++ [⟨b + p.off, (c.elev - p.elev) / (c.off - p.off), n0 + (p.elev - e0)⟩]) 0 he
    simp only [List.append_assoc, List.cons_append, List.nil_append] at this ⊢
    exact this

theorem pushCurves_eq (g : GeoConsts α) (par : TrainPar α) (b : α) :
    ∀ (t : List (Heading α)) (p c e : Heading α) (C : List (PRC α)) (c0 n : α),
    (p :: c :: t).getLast? = some e →
    pushCurves g par (C ++ [⟨b + p.off, c0, n⟩]) b n (p :: c :: t)
      = (C ++ segCurves g par b n (p :: c :: t) ++ [⟨b + e.off, 0, curvesNet g par n (p :: c :: t)⟩],
          curvesNet g par n (p :: c :: t)) := by
  intro t
  induction t with
  | nil =>
    intro p c e C c0 n he
    simp only [List.getLast?_cons_cons, List.getLast?_singleton, Option.some.injEq] at he
    subst he
    simp only [pushCurves, setLast_append_singleton, segCurves, curvesNet, List.append_assoc, List.cons_append, List.nil_append]
  | cons d t ih =>
    intro p c e C c0 n he
    rw [List.getLast?_cons_cons] at he
    rw [pushCurves, setLast_append_singleton, segCurves, curvesNet]
    have := ih c d e (C ++ [⟨b + p.off, curveCoeff g par (c.heading - p.heading) (c.off - p.off), n⟩]) 0
      (n + curveCoeff g par (c.heading - p.heading) (c.off - p.off) * (c.off - p.off)) he
    simp only [List.append_assoc, List.cons_append, List.nil_append] at this ⊢
    exact this

theorem elevLast_of_getLast? : ∀ (l : List (Elev α)) (e : Elev α), l.getLast? = some e → elevLast l = e.elev
  | [], e, h => by simp at h
  | [p], e, h => by simp at h; subst h; rfl
  | p :: c :: t, e, h => by
    rw [List.getLast?_cons_cons] at h
    rw [elevLast]; exact elevLast_of_getLast? (c :: t) e h

/-- destructuring of an offset list accepted by `Link::validate` -/
theorem two_pts {β : Type} (off : β → α) (l : List β) (len : α) (h2 : 2 ≤ l.length)
    (h0 : l.head?.map off = some 0) (hl : l.getLast?.map off = some len) :
    ∃ p c t e, l = p :: c :: t ∧ off p = 0 ∧ (p :: c :: t).getLast? = some e ∧ off e = len := by
  match l, h2 with
  | p :: c :: t, _ =>
    simp only [List.head?_cons, Option.map_some, Option.some.injEq] at h0
    rcases h : (p :: c :: t).getLast? with _ | e
    · simp at h
    · rw [h] at hl; simp only [Option.map_some, Option.some.injEq] at hl
      exact ⟨p, c, t, e, rfl, h0, h, hl⟩

theorem extendGeometry_ok (g : GeoConsts α) (net : List (Link α)) (t : Tpc α) (idx : Nat) (l : Link α)
    (hl : net[idx]? = some l) (ok : LinkOK l)
    (G C : List (PRC α)) (b cg ng cc nc : α)
    (hG : t.grades = G ++ [⟨b, cg, ng⟩]) (hC : t.curves = C ++ [⟨b, cc, nc⟩]) :
    extendGeometry g net t idx = .ok { t with
      grades := G ++ segGrades b ng (elevFirst l.elevs) l.elevs ++
        [⟨b + l.length, 0, ng + (elevLast l.elevs - elevFirst l.elevs)⟩],
      curves := C ++ (if l.headings.isEmpty then [⟨b, cc, nc⟩] else segCurves g t.par b nc l.headings) ++
        [⟨b + l.length, 0, curvesNet g t.par nc l.headings⟩],
      cats := t.cats ++ l.cats.map (shiftCat b) } := by
  obtain ⟨p, c, es, e, hes, hp0, hlast, helen⟩ :=
    two_pts (·.off) l.elevs l.length ok.elev_two ok.elev_first ok.elev_last
  unfold extendGeometry
  simp only [bind, pure, getL_of_some hl, bind_ok, hG, hC, lastR_append_singleton]
  have hgr : (pushGrades (G ++ [⟨b, cg, ng⟩]) b ng l.elevs).1 =
      G ++ segGrades b ng (elevFirst l.elevs) l.elevs ++
        [⟨b + l.length, 0, ng + (elevLast l.elevs - elevFirst l.elevs)⟩] := by
    have := pushGrades_eq b ng p.elev es p c e G cg hlast
    rw [hp0, add_zero, sub_self, add_zero] at this
    rw [hes, this, elevLast_of_getLast? _ _ hlast, helen]; rfl
  have hcu : (if l.headings.isEmpty then C ++ [⟨b, cc, nc⟩] ++ [⟨b + l.length, 0, nc⟩]
      else (pushCurves g t.par (C ++ [⟨b, cc, nc⟩]) b nc l.headings).1) =
      C ++ (if l.headings.isEmpty then [⟨b, cc, nc⟩] else segCurves g t.par b nc l.headings) ++
        [⟨b + l.length, 0, curvesNet g t.par nc l.headings⟩] := by
    rcases ok.head_ok with hh | ⟨h2, _, h0, hlen⟩
    · rw [hh]; simp [curvesNet]
    · obtain ⟨p', c', hs, e', hhs, hp0', hlast', helen'⟩ := two_pts (·.off) l.headings l.length h2 h0 hlen
      have := pushCurves_eq g t.par b hs p' c' e' C cc nc hlast'
      rw [hp0', add_zero] at this
      rw [hhs, this, helen']; simp
  have hne : l.elevs.isEmpty = false := by rw [hes]; rfl
  simp only [hne, Bool.false_eq_true, if_false, hgr, hcu]
  rfl

/-- loop 2 on a resolved route of validated links never fails; closed form of the three profiles -/
theorem geo_fold (g : GeoConsts α) (net : List (Link α)) :
    ∀ (links : List (Link α)) (route : List Nat) (t : Tpc α) (G C : List (PRC α)) (b cg ng cc nc : α),
    Resolves net route links → (∀ l ∈ links, LinkOK l) →
    t.grades = G ++ [⟨b, cg, ng⟩] → t.curves = C ++ [⟨b, cc, nc⟩] →
    foldR (extendGeometry g net) t route = .ok { t with
      grades := G ++ routeGrades b cg ng links,
      curves := C ++ routeCurves g t.par b cc nc links,
      cats := t.cats ++ routeCats b links } := by
  intro links
  induction links with
  | nil =>
    intro route t G C b cg ng cc nc hres _ hG hC
    rw [resolves_nil] at hres; subst hres
    cases t; simp only at hG hC; subst hG hC
    simp [foldR_nil, routeGrades, routeCurves, routeCats]
  | cons l ls ih =>
    intro route t G C b cg ng cc nc hres hok hG hC
    obtain ⟨i, r, rfl, hl, hres'⟩ := resolves_cons.mp hres
    rw [foldR_cons, extendGeometry_ok g net t i l hl (hok l (by simp)) G C b cg ng cc nc hG hC, bind_ok]
    rw [ih r _ _ _ (b + l.length) 0 _ 0 _ hres' (fun x hx => hok x (by simp [hx])) rfl rfl]
    simp [routeGrades, routeCurves, routeCats]

theorem LinkOK.elevs_ne_nil {l : Link α} (h : LinkOK l) : l.elevs ≠ [] := by
  intro h0; have := h.elev_two; rw [h0] at this; simp at this

/-- **closed form of one `extend` call** on a resolved route of validated links, from any state whose
    three profiles end in a terminal point -/
theorem extend_ok_iff (toU32 : α → Nat) (g : GeoConsts α) (net : List (Link α))
    (route : List Nat) (links : List (Link α)) (t t' : Tpc α)
    (L : List (LinkPt α)) (last : LinkPt α) (G C : List (PRC α)) (b cg ng cc nc : α)
    (hres : Resolves net route links) (hok : ∀ l ∈ links, LinkOK l)
    (hL : t.linkPoints = L ++ [last]) (hG : t.grades = G ++ [⟨b, cg, ng⟩])
    (hC : t.curves = C ++ [⟨b, cc, nc⟩]) (hS : t.speedPoints ≠ []) :
    extend toU32 g net t route = .ok t' ↔
      (∀ i ∈ route, i ≠ 0) ∧ contig (L.getLast?.map (·.linkIdx)) links = true ∧
      ∃ sp, routeSpeeds toU32 t.par t.speedPoints last.off links = .ok sp ∧
        t' = { linkPoints := L ++ routeLPs last links,
               grades := G ++ routeGrades b cg (initNet G ng links) links,
               curves := C ++ routeCurves g t.par b cc nc links,
               speedPoints := sp,
               cats := t.cats ++ routeCats b links,
               par := t.par, isFinished := t.isFinished } := by
  have e1 : ensure (!t.linkPoints.isEmpty) "link-points-empty" = .ok () := by rw [hL]; simp [ensure]
  have e2 : ensure (!t.grades.isEmpty) "grades-empty" = .ok () := by rw [hG]; simp [ensure]
  have e3 : ensure (!t.curves.isEmpty) "curves-empty" = .ok () := by rw [hC]; simp [ensure]
  have e4 : ensure (!t.speedPoints.isEmpty) "speed-points-empty" = .ok () := by
    cases hsp : t.speedPoints with
    | nil => exact absurd hsp hS
    | cons _ _ => simp [ensure]
  rw [extend_eq, e1, e2, e3, e4]
  simp only [bind_ok]
  unfold extendCore
  rw [prelude_ok net t route links G b cg ng hres (fun l hl => (hok l hl).elevs_ne_nil) hG, bind_ok,
    bind_eq_ok]
  have hgeo : ∀ sp : List (Pt α), foldR (extendGeometry g net)
      { linkPoints := L ++ routeLPs last links, grades := G ++ [⟨b, cg, initNet G ng links⟩],
        curves := t.curves, speedPoints := sp, cats := t.cats, par := t.par,
        isFinished := t.isFinished } route = .ok
      { linkPoints := L ++ routeLPs last links,
        grades := G ++ routeGrades b cg (initNet G ng links) links,
        curves := C ++ routeCurves g t.par b cc nc links,
        speedPoints := sp, cats := t.cats ++ routeCats b links,
        par := t.par, isFinished := t.isFinished } := fun sp =>
    geo_fold g net links route _ G C b cg (initNet G ng links) cc nc hres hok rfl hC
  have hlp := fun t1 => lp_fold_ok_iff toU32 net links route
    { t with grades := G ++ [⟨b, cg, initNet G ng links⟩] } t1 L last hres hL
  dsimp only at hlp
  constructor
  · rintro ⟨t1, h1, h2⟩
    obtain ⟨h0, hcon, sp, hsp, rfl⟩ := (hlp t1).mp h1
    refine ⟨h0, hcon, sp, hsp, ?_⟩
    rw [hgeo sp] at h2
    exact (Res.ok.inj h2).symm
  · rintro ⟨h0, hcon, sp, hsp, rfl⟩
    exact ⟨_, (hlp _).mpr ⟨h0, hcon, sp, hsp, rfl⟩, hgeo sp⟩

theorem routeLPs_off : ∀ (links : List (Link α)) (last : LinkPt α),
    (routeLPs last links).map (·.off) = prefixOffs last.off links
  | [], _ => rfl
  | l :: ls, last => by
    simp only [routeLPs, List.map_cons, prefixOffs, lpOf_off, routeLPs_off ls, add_comm l.length]

theorem lpsBody_off : ∀ (links : List (Link α)) (b : α),
    (lpsBody b links).map (·.off) = (prefixOffs b links).dropLast
  | [], _ => rfl
  | l :: ls, b => by
    have : prefixOffs (b + l.length) ls ≠ [] := by cases ls <;> simp [prefixOffs]
    simp only [lpsBody, List.map_cons, lpOf_off, prefixOffs, List.dropLast_cons_of_ne_nil this,
      lpsBody_off ls, add_comm l.length]

theorem prefixOffs_getLast : ∀ (links : List (Link α)) (b : α),
    (prefixOffs b links).getLast? = some (b + routeLen links)
  | [], b => by simp [prefixOffs, routeLen]
  | l :: ls, b => by
    have : prefixOffs (b + l.length) ls ≠ [] := by cases ls <;> simp [prefixOffs]
    obtain ⟨x, xs, hx⟩ := List.exists_cons_of_ne_nil this
    rw [prefixOffs, hx, List.getLast?_cons_cons, ← hx, prefixOffs_getLast ls, routeLen, add_assoc]

/-- the trailing dummy link point of a non-empty route -/
theorem routeLPs_getLast : ∀ (links : List (Link α)) (last : LinkPt α), links ≠ [] →
    (routeLPs last links).getLast? = some ⟨last.off + routeLen links, 0, 0, 0, 0⟩
  | [], _, h => absurd rfl h
  | [l], last, _ => by simp [routeLPs, routeLen, add_comm]
  | l :: l' :: ls, last, _ => by
    have := routeLPs_getLast (l' :: ls) ⟨l.length + last.off, 0, 0, 0, 0⟩ (by simp)
    have hne := routeLPs_ne_nil (⟨l.length + last.off, 0, 0, 0, 0⟩ : LinkPt α) (l' :: ls)
    obtain ⟨x, xs, hx⟩ := List.exists_cons_of_ne_nil hne
    rw [routeLPs, hx, List.getLast?_cons_cons, ← hx, this]
    simp only [routeLen]; congr 2; ring

end field

end Altrios.Proofs.TpcL
